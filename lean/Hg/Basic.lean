def hello := "world"
