/-
  Hg.Proofs.ScalePartition — scaling commutes with distributed aggregation: the scaled run is a good
  run again, and scaling every partial result before the reduction equals scaling the whole.
-/
import Hg.Proofs.FillLaws
import Hg.Proofs.TreeLaws3

namespace Hg

namespace ScP

/-- the weight-scaling map on streams -/
def sc (f : Val) (s : List (Datum × Val)) : List (Datum × Val) := s.map (fun dw => (dw.1, f * dw.2))

theorem okWeight_mul {f w : Val} (hf : f.posFin) (hw : w.okWeight = true) : (f * w).okWeight = true := by
  unfold Val.okWeight at hw ⊢
  rw [ScF.pos_mul hf w]
  cases hp : w.pos with
  | false => simp
  | true =>
    simp only [hp, Bool.not_true, Bool.false_or] at hw ⊢
    obtain ⟨a, rfl, _⟩ := hf
    cases w with
    | fin q => rw [ScF.fin_mul_fin]; rfl
    | nan => simp [Val.isFin] at hw
    | pinf => simp [Val.isFin] at hw
    | ninf => simp [Val.isFin] at hw

/-- a good run stays a good run when the state and every weight are scaled by a positive finite factor -/
theorem goodRun_scale {f : Val} (hf : f.posFin) : ∀ (s : List (Datum × Val)) (t : Agg), goodRun t s = true →
    goodRun (scale t f) (sc f s) = true
  | [], t, h => by
    simp only [sc, List.map_nil, goodRun] at h ⊢
    exact (good_scale t f h hf).1
  | dw :: rest, t, h => by
    have h' := h
    simp only [goodRun, Bool.and_eq_true] at h'
    obtain ⟨⟨⟨hg, hw⟩, hok⟩, hrest⟩ := h'
    have hsf := Hg.scale_fill t dw.1 dw.2 f hg hw (ScF.goodRun_good _ _ hrest) (ScF.isOk_eq hok) hf
    have ih := goodRun_scale hf rest _ hrest
    simp only [sc, List.map_cons, goodRun, Bool.and_eq_true] at ih ⊢
    rw [hsf]
    exact ⟨⟨⟨(good_scale t f hg hf).1, okWeight_mul hf hw⟩, rfl⟩, ih⟩

theorem sc_flatten (f : Val) (cs : List (List (Datum × Val))) : (cs.map (sc f)).flatten = sc f cs.flatten := by
  simp only [sc, List.map_flatten]; rfl

end ScP

/-- the scaled stream of a good run from an empty tree is a good run from the same empty tree -/
theorem goodRun_scaled (z : Agg) (s : List (Datum × Val)) (f : Val) (hz : isZeroTree z = true)
    (hrun : goodRun z s = true) (hf : f.posFin) : goodRun z (ScP.sc f s) = true := by
  have h := ScP.goodRun_scale hf s z hrun
  rwa [scale_zeroTree z f (ScF.goodRun_good z s hrun) hz hf] at h

/-- **scaling commutes with partition-invariant aggregation**: multiplying every partial result by `f` and
then combining them in any order and grouping equals the whole-dataset aggregate multiplied by `f`. -/
theorem scale_partition (z : Agg) (chunks : List (List (Datum × Val))) (σ : Sched) (f : Val)
    (hz : isZeroTree z = true) (ht : hasTmpl z = true) (hn : noBins z = true)
    (hruns : ∀ c ∈ chunks, goodRun z c = true) (hrun : goodRun z chunks.flatten = true)
    (hσ : σ.leaves.Perm (List.range chunks.length)) (hf : f.posFin) :
    reduce ((chunks.map (fillAll z)).map (fun p => mul p f)) σ = some (mul (fillAll z chunks.flatten) f) := by
  have e1 : (chunks.map (fillAll z)).map (fun p => mul p f) = (chunks.map (ScP.sc f)).map (fillAll z) := by
    rw [List.map_map, List.map_map]
    apply List.map_congr_left
    intro c hc
    exact mul_eq_refill z c f hz (hruns c hc) hf
  have hruns' : ∀ c ∈ chunks.map (ScP.sc f), goodRun z c = true := by
    intro c hc
    obtain ⟨c0, hc0, rfl⟩ := List.mem_map.1 hc
    exact goodRun_scaled z c0 f hz (hruns c0 hc0) hf
  have hrun' : goodRun z (chunks.map (ScP.sc f)).flatten = true := by
    rw [ScP.sc_flatten]; exact goodRun_scaled z _ f hz hrun hf
  have hσ' : σ.leaves.Perm (List.range (chunks.map (ScP.sc f)).length) := by simpa using hσ
  rw [e1, partition_invariant z _ σ hz ht hn hruns' hrun' hσ', ScP.sc_flatten,
    mul_eq_refill z chunks.flatten f hz hrun hf]
  rfl

end Hg
