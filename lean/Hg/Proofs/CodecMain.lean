import Hg.Proofs.CodecMainL

namespace Hg
namespace CodecAux
open Json

/-- what the round trip needs from the "content type is a registered factory" hypothesis, stated
abstractly so that these files do not depend on the concrete predicate -/
structure CtypeOK (K : Agg → Prop) : Prop where
  kids : ∀ k e st tmpl kids, K (.node k e st tmpl kids) → ∀ p ∈ kids, K p.2
  sparse : ∀ q w o c n e st tmpl kids, K (.node (.sparse q w o c n) e st tmpl kids) → isKnownType c = true
  cat : ∀ q c n e st tmpl kids, K (.node (.categorize q c n) e st tmpl kids) → isKnownType c = true

def DecOK (K : Agg → Prop) (fuel : Nat) : Prop :=
  ∀ (t : Agg) (s : Bool) (pn : Option String), good t = true → uniform t = true → K t →
    nameOk t s pn → (encodeFrag t s).depth ≤ fuel →
    decodeFrag fuel t.typeName (encodeFrag t s) pn = some (immut t)

theorem kids_decode (K : Agg → Prop) (fuel : Nat) (IH : DecOK K fuel) (l : List (Key × Agg)) (vt : String) (vn : Option String)
    (s : Bool) (hg : goodKids l = true) (hu : uniformKids l = true) (hk : ∀ p ∈ l, K p.2)
    (hty : ∀ p ∈ l, p.2.typeName = vt) (hnm : ∀ p ∈ l, nameOk p.2 s vn)
    (hd : ∀ p ∈ l, (encodeFrag p.2 s).depth ≤ fuel) :
    ∀ p ∈ l, decodeFrag fuel vt (encodeFrag p.2 s) vn = some (immut p.2) := by
  intro p hp
  rw [← hty p hp]
  exact IH p.2 s vn (goodKids_mem l hg p hp) (uniformKids_mem l hu p hp) (hk p hp)
    (hnm p hp) (hd p hp)

theorem good_nonleaf (k : Kind) (e : Val) (st : St) (tmpl : Option Agg) (kids : List (Key × Agg))
    (hk : k.isLeaf = false) (h : good (.node k e st tmpl kids) = true) :
    st = .unit ∧ k.layoutOk (keysOf kids) = true ∧ goodKids kids = true := by
  simp only [good, Bool.and_eq_true, hk] at h
  obtain ⟨⟨⟨⟨⟨h1, h2⟩, h3⟩, _⟩, _⟩, _⟩ := h
  refine ⟨?_, h2, h3⟩
  simp only [Bool.false_eq_true, if_false, Bool.and_eq_true] at h1
  have := h1.1
  cases st <;> cases k <;> simp_all [St.fits, Kind.isLeaf]

theorem binsOf_under (a : Agg) (l : List (Key × Agg)) : binsOf ((.under, a) :: l) = binsOf l := rfl
theorem binsOf_over (a : Agg) (l : List (Key × Agg)) : binsOf ((.over, a) :: l) = binsOf l := rfl
theorem binsOf_nanflow (a : Agg) (l : List (Key × Agg)) : binsOf ((.nanflow, a) :: l) = binsOf l := rfl

theorem isFlow_pos (k : Key) (h : ∃ i, k = .pos i) : isFlow k = false := by
  obtain ⟨i, rfl⟩ := h; rfl

theorem nonFlow_range (mk : Nat → Key) (hmk : ∀ i, isFlow (mk i) = false) (l : List (Key × Agg)) (n : Nat)
    (h : keysOf l = (List.range n).map mk) : nonFlow l := by
  intro p hp
  have : p.1 ∈ keysOf l := List.mem_map.2 ⟨p, hp, rfl⟩
  rw [h] at this
  obtain ⟨i, _, hi⟩ := List.mem_map.1 this
  rw [← hi]; exact hmk i

theorem uniform_bins (bins : List (Key × Agg))
    (h : (match bins with
          | [] => true
          | p :: rest => rest.all (fun r => r.2.typeName == p.2.typeName && r.2.qtyName == p.2.qtyName)) = true) :
    ∀ p ∈ bins, p.2.typeName = firstType bins ∧ p.2.qtyName = firstName bins := by
  cases bins with
  | nil => intro p hp; cases hp
  | cons b rest =>
    obtain ⟨kb, b⟩ := b
    simp only [List.all_eq_true, Bool.and_eq_true, beq_iff_eq] at h
    intro p hp
    rcases List.mem_cons.1 hp with rfl | hp
    · exact ⟨rfl, rfl⟩
    · exact h p hp

macro "getm" h:ident : tactic =>
  `(tactic| (rw [← $h]; (repeat (rw [get?_maybeAdd_ne _ _ _ _ (by decide)])) <;> rfl))

theorem step_bin (K : Agg → Prop) (HK : CtypeOK K) (fuel : Nat) (IH : DecOK K fuel) (q : Qty) (n : Nat) (low high : Rat) (e : Val) (st : St)
    (tmpl : Option Agg) (kids : List (Key × Agg)) (s : Bool) (pn : Option String)
    (hg : good (.node (.bin q n low high) e st tmpl kids) = true)
    (hu : uniform (.node (.bin q n low high) e st tmpl kids) = true)
    (hk : K (.node (.bin q n low high) e st tmpl kids))
    (hn : nameOk (.node (.bin q n low high) e st tmpl kids) s pn)
    (hd : (encodeFrag (.node (.bin q n low high) e st tmpl kids) s).depth ≤ fuel + 1) :
    decodeFrag (fuel+1) "Bin" (encodeFrag (.node (.bin q n low high) e st tmpl kids) s) pn
      = some (immut (.node (.bin q n low high) e st tmpl kids)) := by
  have he := entries_ok _ _ _ _ _ hg
  have hkk := HK.kids _ _ _ _ _ hk
  obtain ⟨rfl, hlay, hgk⟩ := good_nonleaf _ _ _ _ _ rfl hg
  simp only [Kind.layoutOk, Bool.and_eq_true, decide_eq_true_eq, List.cons_append, List.nil_append] at hlay
  obtain ⟨⟨hn1, hlh⟩, hkeys⟩ := hlay
  obtain ⟨u, r1, rfl, hk1⟩ := keysOf_cons_inv _ _ _ hkeys
  obtain ⟨o, r2, rfl, hk2⟩ := keysOf_cons_inv _ _ _ hk1
  obtain ⟨nf, bins, rfl, hk3⟩ := keysOf_cons_inv _ _ _ hk2
  clear hkeys hk1 hk2
  have hnf : nonFlow bins := nonFlow_range Key.pos (fun _ => rfl) bins n hk3
  simp only [uniform, uniformKids, Bool.and_eq_true, binsOf_under, binsOf_over, binsOf_nanflow,
    binsOf_nonFlow bins hnf] at hu
  simp only [goodKids, Bool.and_eq_true] at hgk
  simp only [encodeFrag, Kind.qty?, Option.bind_some, binsOf_under, binsOf_over, binsOf_nanflow,
    binsOf_nonFlow bins hnf, encodeList, isFlow, encodeAt, flowOf, lookupK, typeOfOpt,
    encodeList_nonFlow bins true hnf, reduceCtorEq, ↓reduceIte] at hd ⊢
  generalize hM : Json.maybeAdd (Json.maybeAdd _ _ _) _ _ = M at hd ⊢
  have glow : Json.get? "low" M = some (.num low) := by getm hM
  have ghigh : Json.get? "high" M = some (.num high) := by getm hM
  have gent : Json.get? "entries" M = some (Json.ofVal e) := by getm hM
  have gvt : Json.get? "values:type" M = some (.str (firstType bins)) := by getm hM
  have gvals : Json.get? "values" M = some (.arr (bins.map (fun p => encodeFrag p.2 true))) := by getm hM
  have gut : Json.get? "underflow:type" M = some (.str u.typeName) := by getm hM
  have gu : Json.get? "underflow" M = some (encodeFrag u false) := by getm hM
  have got : Json.get? "overflow:type" M = some (.str o.typeName) := by getm hM
  have go : Json.get? "overflow" M = some (encodeFrag o false) := by getm hM
  have gnt : Json.get? "nanflow:type" M = some (.str nf.typeName) := by getm hM
  have gn : Json.get? "nanflow" M = some (encodeFrag nf false) := by getm hM
  have hname : Json.optStr? M "name" = some (if s = true then none else q.name) := by
    rw [← hM, optStr?_maybeAdd_ne _ _ _ _ (by decide)]
    exact optStr?_maybeAdd_self _ _ _ rfl
  have hvn : Json.optStr? M "values:name" = some (firstName bins) := by
    rw [← hM]
    apply optStr?_maybeAdd_self
    rw [get?_maybeAdd_ne _ _ _ _ (by decide)]; rfl
  have hkeys : Json.hasKeys M ["low", "high", "entries", "values:type", "values", "underflow:type",
            "underflow", "overflow:type", "overflow", "nanflow:type", "nanflow"] ["name", "values:name"] = true := by
    rw [← hM]
    exact hasKeys_maybeAdd _ _ _ _ _ (hasKeys_maybeAdd _ _ _ _ _ rfl rfl) rfl
  have du := depth_get? _ _ _ _ gu hd
  have dov := depth_get? _ _ _ _ go hd
  have dn := depth_get? _ _ _ _ gn hd
  have dvals := depth_get? _ _ _ _ gvals hd
  have dbins : ∀ p ∈ bins, (encodeFrag p.2 true).depth ≤ fuel := fun p hp =>
    depth_arr_mem _ _ _ (List.mem_map.2 ⟨p, hp, rfl⟩) dvals
  have ub := uniform_bins bins hu.2
  have hbins := mapM_map_some bins (fun p => encodeFrag p.2 true)
    (fun x => decodeFrag fuel (firstType bins) x (firstName bins)) (fun p => immut p.2)
    (kids_decode K fuel IH bins _ _ true hgk.2.2.2 hu.1.2.2.2 (fun p hp => hkk p (by simp [hp])) (fun p hp => (ub p hp).1)
      (fun p hp => Or.inl (ub p hp).2.symm) dbins)
  have hlen := keys_range_length Key.pos bins n hk3
  rw [dec_bin fuel M pn e _ _ low high _ _ _ _ _ (bins.map (fun p => immut p.2)) _ _ _
      (immut u) (immut o) (immut nf) hkeys glow ghigh (entriesOf?_ok _ _ gent he) hname gvt hvn gvals hbins
      gut gu (IH u false none hgk.1 hu.1.1 (hkk (Key.under, u) (by simp)) (Or.inr ⟨rfl, rfl⟩) du)
      got go (IH o false none hgk.2.1 hu.1.2.1 (hkk (Key.over, o) (by simp)) (Or.inr ⟨rfl, rfl⟩) dov)
      gnt gn (IH nf false none hgk.2.2.1 hu.1.2.2.1 (hkk (Key.nanflow, nf) (by simp)) (Or.inr ⟨rfl, rfl⟩) dn)
      hlh (by intro h; rw [List.map_eq_nil_iff] at h; rw [h] at hlen; simp at hlen; omega)]
  rw [resolve_ok q.name pn s hn, zipIdx_keys0 Key.pos bins n hk3]
  simp only [immut, immutKids, Kind.mapQty, List.length_map, hlen]
  rfl

macro "getm1" h:ident : tactic =>
  `(tactic| (rw [← $h]; (repeat (rw [get?_maybeAdd_ne _ _ _ _ (by decide)])) <;> rfl))

theorem step_select (K : Agg → Prop) (HK : CtypeOK K) (fuel : Nat) (IH : DecOK K fuel) (q : Qty) (e : Val) (st : St)
    (tmpl : Option Agg) (kids : List (Key × Agg)) (s : Bool) (pn : Option String)
    (hg : good (.node (.select q) e st tmpl kids) = true)
    (hu : uniform (.node (.select q) e st tmpl kids) = true)
    (hk : K (.node (.select q) e st tmpl kids))
    (hn : nameOk (.node (.select q) e st tmpl kids) s pn)
    (hd : (encodeFrag (.node (.select q) e st tmpl kids) s).depth ≤ fuel + 1) :
    decodeFrag (fuel+1) "Select" (encodeFrag (.node (.select q) e st tmpl kids) s) pn
      = some (immut (.node (.select q) e st tmpl kids)) := by
  have he := entries_ok _ _ _ _ _ hg
  have hkk := HK.kids _ _ _ _ _ hk
  obtain ⟨rfl, hlay, hgk⟩ := good_nonleaf _ _ _ _ _ rfl hg
  simp only [Kind.layoutOk, decide_eq_true_eq] at hlay
  obtain ⟨c, r1, rfl, hk1⟩ := keysOf_cons_inv _ _ _ hlay
  obtain rfl := keysOf_nil_inv _ hk1
  clear hlay hk1
  simp only [uniform, uniformKids, Bool.and_eq_true, and_true] at hu
  simp only [goodKids, Bool.and_eq_true, and_true] at hgk
  simp only [encodeFrag, Kind.qty?, Option.bind_some, encodeAt, flowOf, lookupK, typeOfOpt,
    ↓reduceIte] at hd ⊢
  generalize hM : Json.maybeAdd _ _ _ = M at hd ⊢
  have gent : Json.get? "entries" M = some (Json.ofVal e) := by getm hM
  have gst : Json.get? "sub:type" M = some (.str c.typeName) := by getm hM
  have gc : Json.get? "data" M = some (encodeFrag c false) := by getm hM
  have hname : Json.optStr? M "name" = some (if s = true then none else q.name) := by
    rw [← hM]
    exact optStr?_maybeAdd_self _ _ _ rfl
  have hkeys : Json.hasKeys M ["entries", "sub:type", "data"] ["name"] = true := by
    rw [← hM]
    exact hasKeys_maybeAdd _ _ _ _ _ rfl rfl
  have dc := depth_get? _ _ _ _ gc hd
  rw [dec_select fuel M pn e _ _ _ (immut c) hkeys (entriesOf?_ok _ _ gent he) hname gst gc
      (IH c false none hgk hu (hkk (Key.cut, c) (by simp)) (Or.inr ⟨rfl, rfl⟩) dc)]
  rw [resolve_ok q.name pn s hn]
  rfl

theorem step_fraction (K : Agg → Prop) (HK : CtypeOK K) (fuel : Nat) (IH : DecOK K fuel) (q : Qty) (e : Val) (st : St)
    (tmpl : Option Agg) (kids : List (Key × Agg)) (s : Bool) (pn : Option String)
    (hg : good (.node (.fraction q) e st tmpl kids) = true)
    (hu : uniform (.node (.fraction q) e st tmpl kids) = true)
    (hk : K (.node (.fraction q) e st tmpl kids))
    (hn : nameOk (.node (.fraction q) e st tmpl kids) s pn)
    (hd : (encodeFrag (.node (.fraction q) e st tmpl kids) s).depth ≤ fuel + 1) :
    decodeFrag (fuel+1) "Fraction" (encodeFrag (.node (.fraction q) e st tmpl kids) s) pn
      = some (immut (.node (.fraction q) e st tmpl kids)) := by
  have he := entries_ok _ _ _ _ _ hg
  have hkk := HK.kids _ _ _ _ _ hk
  obtain ⟨rfl, hlay, hgk⟩ := good_nonleaf _ _ _ _ _ rfl hg
  simp only [Kind.layoutOk, decide_eq_true_eq] at hlay
  obtain ⟨d, r1, rfl, hk1⟩ := keysOf_cons_inv _ _ _ hlay
  obtain ⟨nu, r2, rfl, hk2⟩ := keysOf_cons_inv _ _ _ hk1
  obtain rfl := keysOf_nil_inv _ hk2
  clear hlay hk1 hk2
  simp only [uniform, uniformKids, Bool.and_eq_true, and_true, lookupK, reduceCtorEq, ↓reduceIte,
    beq_iff_eq] at hu
  simp only [goodKids, Bool.and_eq_true, and_true] at hgk
  simp only [encodeFrag, Kind.qty?, Option.bind_some, encodeAt, flowOf, lookupK, typeOfOpt, nameOfOpt,
    reduceCtorEq, ↓reduceIte] at hd ⊢
  generalize hM : Json.maybeAdd (Json.maybeAdd _ _ _) _ _ = M at hd ⊢
  have gent : Json.get? "entries" M = some (Json.ofVal e) := by getm hM
  have gst : Json.get? "sub:type" M = some (.str nu.typeName) := by getm hM
  have gnum : Json.get? "numerator" M = some (encodeFrag nu true) := by getm hM
  have gden : Json.get? "denominator" M = some (encodeFrag d true) := by getm hM
  have hname : Json.optStr? M "name" = some (if s = true then none else q.name) := by
    rw [← hM, optStr?_maybeAdd_ne _ _ _ _ (by decide)]
    exact optStr?_maybeAdd_self _ _ _ rfl
  have hsn : Json.optStr? M "sub:name" = some nu.qtyName := by
    rw [← hM]
    apply optStr?_maybeAdd_self
    rw [get?_maybeAdd_ne _ _ _ _ (by decide)]; rfl
  have hkeys : Json.hasKeys M ["entries", "sub:type", "numerator", "denominator"] ["name", "sub:name"] = true := by
    rw [← hM]
    exact hasKeys_maybeAdd _ _ _ _ _ (hasKeys_maybeAdd _ _ _ _ _ rfl rfl) rfl
  have dnum := depth_get? _ _ _ _ gnum hd
  have dden := depth_get? _ _ _ _ gden hd
  have hden : decodeFrag fuel nu.typeName (encodeFrag d true) nu.qtyName = some (immut d) := by
    rw [hu.2.1]
    exact IH d true nu.qtyName hgk.1 hu.1.1 (hkk (Key.den, d) (by simp)) (Or.inl hu.2.2) dden
  rw [dec_fraction fuel M pn e _ _ _ _ _ (immut nu) (immut d) hkeys (entriesOf?_ok _ _ gent he) hname gst hsn
      gnum (IH nu true nu.qtyName hgk.2 hu.1.2 (hkk (Key.num, nu) (by simp)) (Or.inl rfl) dnum) gden hden]
  rw [resolve_ok q.name pn s hn]
  rfl

end CodecAux
end Hg
