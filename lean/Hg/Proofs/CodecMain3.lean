import Hg.Proofs.CodecMain2
import Hg.Proofs.KeyFacts

namespace Hg
namespace CodecAux
open Json

/-! ### SparselyBin / Categorize -/

theorem sparse_layout (q : Qty) (w o : Rat) (c : String) (n : Option String) (kids : List (Key × Agg))
    (h : Kind.layoutOk (.sparse q w o c n) (keysOf kids) = true) :
    0 < w ∧ ∃ nf bins, kids = (.nanflow, nf) :: bins ∧ (keysOf bins).all Key.isIdx = true ∧
      sortedKeys (keysOf bins) = true := by
  cases kids with
  | nil => simp [Kind.layoutOk, keysOf] at h
  | cons p rest =>
    obtain ⟨k, nf⟩ := p
    cases k <;> simp only [Kind.layoutOk, keysOf, List.map_cons, Bool.and_eq_true, decide_eq_true_eq] at h <;>
      try (cases h.2; done)
    exact ⟨h.1, nf, rest, rfl, h.2.1, h.2.2⟩

theorem good_sparse_tmpl (q : Qty) (w o : Rat) (c : String) (n : Option String) (e : Val) (st : St)
    (tmpl : Option Agg) (kids : List (Key × Agg))
    (h : good (.node (.sparse q w o c n) e st tmpl kids) = true) : ∀ t, tmpl = some t → n = t.qtyName := by
  intro t ht
  subst ht
  simp only [good, Bool.and_eq_true, beq_iff_eq] at h
  exact h.2.2

theorem good_cat_tmpl (q : Qty) (c : String) (n : Option String) (e : Val) (st : St)
    (tmpl : Option Agg) (kids : List (Key × Agg))
    (h : good (.node (.categorize q c n) e st tmpl kids) = true) : ∀ t, tmpl = some t → n = t.qtyName := by
  intro t ht
  subst ht
  simp only [good, Bool.and_eq_true, beq_iff_eq] at h
  exact h.2.2

theorem nonFlow_idx (l : List (Key × Agg)) (h : (keysOf l).all Key.isIdx = true) : nonFlow l :=
  nonFlow_of_all Key.isIdx (fun k hk => by cases k <;> first | rfl | cases hk) l h

theorem nonFlow_cat (l : List (Key × Agg)) (h : (keysOf l).all Key.isCat = true) : nonFlow l :=
  nonFlow_of_all Key.isCat (fun k hk => by cases k <;> first | rfl | cases hk) l h

theorem encodeMembers_nanflow (a : Agg) (l : List (Key × Agg)) (s : Bool) :
    encodeMembers ((.nanflow, a) :: l) s = encodeMembers l s := by
  simp [encodeMembers, isFlow]

theorem sparse_enc (q : Qty) (w o : Rat) (ctype : String) (cname : Option String) (e : Val)
    (tmpl : Option Agg) (nf : Agg) (bins : List (Key × Agg)) (s : Bool) (hnf : nonFlow bins)
    (htm : ∀ t, tmpl = some t → cname = t.qtyName)
    (hub : ∀ p ∈ bins, p.2.typeName = ctype ∧ p.2.qtyName = cname) :
    encodeFrag (.node (.sparse q w o ctype cname) e .unit tmpl ((.nanflow, nf) :: bins)) s =
      .obj (Json.maybeAdd (Json.maybeAdd
        [("binWidth", .num w), ("entries", Json.ofVal e), ("bins:type", .str ctype),
         ("bins", .obj (encodeMembers bins true)), ("nanflow:type", .str nf.typeName),
         ("nanflow", encodeFrag nf false), ("origin", .num o)]
        "name" (if s = true then none else q.name)) "bins:name" cname) := by
  simp only [encodeFrag, Kind.qty?, Option.bind_some, binsOf_nanflow, binsOf_nonFlow bins hnf,
    encodeMembers_nanflow, encodeAt, flowOf, lookupK, typeOfOpt, ↓reduceIte]
  cases tmpl with
  | some t =>
    have := htm t rfl
    cases bins with
    | nil => simp [this]
    | cons p rest => simp [this, (hub p List.mem_cons_self).1]
  | none =>
    cases bins with
    | nil => simp
    | cons p rest => simp [(hub p List.mem_cons_self).1, (hub p List.mem_cons_self).2]

theorem cat_enc (q : Qty) (ctype : String) (cname : Option String) (e : Val)
    (tmpl : Option Agg) (bins : List (Key × Agg)) (s : Bool)
    (htm : ∀ t, tmpl = some t → cname = t.qtyName)
    (hub : ∀ p ∈ bins, p.2.typeName = ctype ∧ p.2.qtyName = cname) :
    encodeFrag (.node (.categorize q ctype cname) e .unit tmpl bins) s =
      .obj (Json.maybeAdd (Json.maybeAdd
        [("entries", Json.ofVal e), ("bins:type", .str ctype), ("bins", .obj (encodeMembers bins true))]
        "name" (if s = true then none else q.name)) "bins:name" cname) := by
  simp only [encodeFrag, Kind.qty?, Option.bind_some]
  cases tmpl with
  | some t =>
    have := htm t rfl
    cases bins with
    | nil => simp [this]
    | cons p rest => simp [this, (hub p List.mem_cons_self).1]
  | none =>
    cases bins with
    | nil => simp
    | cons p rest => simp [(hub p List.mem_cons_self).1, (hub p List.mem_cons_self).2]

theorem sparseItem_round (fuel : Nat) (bt : String) (bn : Option String) (p : Key × Agg)
    (hc : p.1.isIdx = true) (hdec : decodeFrag fuel bt (encodeFrag p.2 true) bn = some (immut p.2)) :
    sparseItem fuel bt bn (p.1.toJsonKey, encodeFrag p.2 true) = some (p.1, immut p.2) := by
  obtain ⟨k, a⟩ := p
  cases k <;> try cases hc
  simp [sparseItem, Key.toJsonKey, hdec]

theorem catItem_round (fuel : Nat) (bt : String) (bn : Option String) (p : Key × Agg)
    (hc : p.1.isCat = true) (hdec : decodeFrag fuel bt (encodeFrag p.2 true) bn = some (immut p.2)) :
    catItem fuel bt bn (p.1.toJsonKey, encodeFrag p.2 true) = some (p.1, immut p.2) := by
  obtain ⟨k, a⟩ := p
  cases k <;> try cases hc
  simp [catItem, Key.toJsonKey, hdec]

theorem uniform_all (bins : List (Key × Agg)) (ctype : String) (cname : Option String)
    (h : bins.all (fun r => r.2.typeName == ctype && r.2.qtyName == cname) = true) :
    ∀ p ∈ bins, p.2.typeName = ctype ∧ p.2.qtyName = cname := by
  simp only [List.all_eq_true, Bool.and_eq_true, beq_iff_eq] at h
  exact h

theorem step_sparse (K : Agg → Prop) (HK : CtypeOK K) (fuel : Nat) (IH : DecOK K fuel) (q : Qty) (w o : Rat)
    (ctype : String) (cname : Option String) (e : Val) (st : St)
    (tmpl : Option Agg) (kids : List (Key × Agg)) (s : Bool) (pn : Option String)
    (hg : good (.node (.sparse q w o ctype cname) e st tmpl kids) = true)
    (hu : uniform (.node (.sparse q w o ctype cname) e st tmpl kids) = true)
    (hk : K (.node (.sparse q w o ctype cname) e st tmpl kids))
    (hn : nameOk (.node (.sparse q w o ctype cname) e st tmpl kids) s pn)
    (hd : (encodeFrag (.node (.sparse q w o ctype cname) e st tmpl kids) s).depth ≤ fuel + 1) :
    decodeFrag (fuel+1) "SparselyBin" (encodeFrag (.node (.sparse q w o ctype cname) e st tmpl kids) s) pn
      = some (immut (.node (.sparse q w o ctype cname) e st tmpl kids)) := by
  have he := entries_ok _ _ _ _ _ hg
  have hkk := HK.kids _ _ _ _ _ hk
  have hknown := HK.sparse _ _ _ _ _ _ _ _ _ hk
  have htm := good_sparse_tmpl _ _ _ _ _ _ _ _ _ hg
  obtain ⟨rfl, hlay, hgk⟩ := good_nonleaf _ _ _ _ _ rfl hg
  obtain ⟨hw, nf, bins, rfl, hidx, hsorted⟩ := sparse_layout _ _ _ _ _ kids hlay
  have hnf : nonFlow bins := nonFlow_idx bins hidx
  have hix := mem_keys_all _ _ hidx
  simp only [uniform, uniformKids, Bool.and_eq_true, binsOf_nanflow, binsOf_nonFlow bins hnf] at hu
  have ub := uniform_all bins ctype cname hu.2
  simp only [goodKids, Bool.and_eq_true] at hgk
  rw [sparse_enc q w o ctype cname e tmpl nf bins s hnf htm ub] at hd ⊢
  rw [encodeMembers_nonFlow bins true hnf] at hd ⊢
  generalize hM : Json.maybeAdd (Json.maybeAdd _ _ _) _ _ = M at hd ⊢
  have gw : Json.get? "binWidth" M = some (.num w) := by getm hM
  have go : Json.get? "origin" M = some (.num o) := by getm hM
  have gent : Json.get? "entries" M = some (Json.ofVal e) := by getm hM
  have gbt : Json.get? "bins:type" M = some (.str ctype) := by getm hM
  have gbins : Json.get? "bins" M = some (.obj (bins.map (fun p => (p.1.toJsonKey, encodeFrag p.2 true)))) := by
    getm hM
  have gnt : Json.get? "nanflow:type" M = some (.str nf.typeName) := by getm hM
  have gn : Json.get? "nanflow" M = some (encodeFrag nf false) := by getm hM
  have hname : Json.optStr? M "name" = some (if s = true then none else q.name) := by
    rw [← hM, optStr?_maybeAdd_ne _ _ _ _ (by decide)]
    exact optStr?_maybeAdd_self _ _ _ rfl
  have hbn : Json.optStr? M "bins:name" = some cname := by
    rw [← hM]
    apply optStr?_maybeAdd_self
    rw [get?_maybeAdd_ne _ _ _ _ (by decide)]; rfl
  have hkeys : Json.hasKeys M ["binWidth", "entries", "bins:type", "bins", "nanflow:type", "nanflow", "origin"]
      ["name", "bins:name"] = true := by
    rw [← hM]
    exact hasKeys_maybeAdd _ _ _ _ _ (hasKeys_maybeAdd _ _ _ _ _ rfl rfl) rfl
  have dn := depth_get? _ _ _ _ gn hd
  have dvals := depth_get? _ _ _ _ gbins hd
  have dbins : ∀ p ∈ bins, (encodeFrag p.2 true).depth ≤ fuel := fun p hp =>
    depth_obj_mem _ (p.1.toJsonKey, encodeFrag p.2 true) _ (List.mem_map.2 ⟨p, hp, rfl⟩) dvals
  have hdec := kids_decode K fuel IH bins ctype cname true hgk.2 hu.1.2 (fun p hp => hkk p (by simp [hp]))
      (fun p hp => (ub p hp).1) (fun p hp => Or.inl (ub p hp).2.symm) dbins
  have hbins := mapM_map_some bins (fun p => (p.1.toJsonKey, encodeFrag p.2 true)) (sparseItem fuel ctype cname)
    (fun p => (p.1, immut p.2)) (fun p hp => sparseItem_round fuel _ _ p (hix p hp) (hdec p hp))
  have hnd : ((bins.map (fun p => (p.1, immut p.2))).map (·.1)).Nodup := by
    have h1 : (bins.map (fun p => (p.1, immut p.2))).map (·.1) = keysOf bins := by
      simp only [keysOf, List.map_map]; rfl
    rw [h1]
    exact KF.sortedKeys_nodup _ hsorted
  rw [dec_sparse fuel M pn e _ _ w o _ _ _ _ _ (immut nf) hkeys gw go (entriesOf?_ok _ _ gent he) hname gbt hbn
      gbins hbins gnt gn
      (IH nf false none hgk.1 hu.1.1 (hkk (Key.nanflow, nf) (by simp)) (Or.inr ⟨rfl, rfl⟩) dn) hw hknown hnd]
  rw [resolve_ok q.name pn s hn, ← immutKids_eq_map,
    foldl_insertK_sorted Key.isIdx strictOn_idx (immutKids bins) (by rw [keysOf_immutKids]; exact hidx)
      (by rw [keysOf_immutKids]; exact hsorted)]
  rfl

theorem step_categorize (K : Agg → Prop) (HK : CtypeOK K) (fuel : Nat) (IH : DecOK K fuel) (q : Qty)
    (ctype : String) (cname : Option String) (e : Val) (st : St)
    (tmpl : Option Agg) (kids : List (Key × Agg)) (s : Bool) (pn : Option String)
    (hg : good (.node (.categorize q ctype cname) e st tmpl kids) = true)
    (hu : uniform (.node (.categorize q ctype cname) e st tmpl kids) = true)
    (hk : K (.node (.categorize q ctype cname) e st tmpl kids))
    (hn : nameOk (.node (.categorize q ctype cname) e st tmpl kids) s pn)
    (hd : (encodeFrag (.node (.categorize q ctype cname) e st tmpl kids) s).depth ≤ fuel + 1) :
    decodeFrag (fuel+1) "Categorize" (encodeFrag (.node (.categorize q ctype cname) e st tmpl kids) s) pn
      = some (immut (.node (.categorize q ctype cname) e st tmpl kids)) := by
  have he := entries_ok _ _ _ _ _ hg
  have hkk := HK.kids _ _ _ _ _ hk
  have hknown := HK.cat _ _ _ _ _ _ _ hk
  have htm := good_cat_tmpl _ _ _ _ _ _ _ hg
  obtain ⟨rfl, hlay, hgk⟩ := good_nonleaf _ _ _ _ _ rfl hg
  simp only [Kind.layoutOk, Bool.and_eq_true] at hlay
  obtain ⟨hcat, hsorted⟩ := hlay
  have hnf : nonFlow kids := nonFlow_cat kids hcat
  have hix := mem_keys_all _ _ hcat
  simp only [uniform, Bool.and_eq_true, binsOf_nonFlow kids hnf] at hu
  have ub := uniform_all kids ctype cname hu.2
  rw [cat_enc q ctype cname e tmpl kids s htm ub] at hd ⊢
  rw [encodeMembers_nonFlow kids true hnf] at hd ⊢
  generalize hM : Json.maybeAdd (Json.maybeAdd _ _ _) _ _ = M at hd ⊢
  have gent : Json.get? "entries" M = some (Json.ofVal e) := by getm hM
  have gbt : Json.get? "bins:type" M = some (.str ctype) := by getm hM
  have gbins : Json.get? "bins" M = some (.obj (kids.map (fun p => (p.1.toJsonKey, encodeFrag p.2 true)))) := by
    getm hM
  have hname : Json.optStr? M "name" = some (if s = true then none else q.name) := by
    rw [← hM, optStr?_maybeAdd_ne _ _ _ _ (by decide)]
    exact optStr?_maybeAdd_self _ _ _ rfl
  have hbn : Json.optStr? M "bins:name" = some cname := by
    rw [← hM]
    apply optStr?_maybeAdd_self
    rw [get?_maybeAdd_ne _ _ _ _ (by decide)]; rfl
  have hkeys : Json.hasKeys M ["entries", "bins:type", "bins"] ["name", "bins:name"] = true := by
    rw [← hM]
    exact hasKeys_maybeAdd _ _ _ _ _ (hasKeys_maybeAdd _ _ _ _ _ rfl rfl) rfl
  have dvals := depth_get? _ _ _ _ gbins hd
  have dbins : ∀ p ∈ kids, (encodeFrag p.2 true).depth ≤ fuel := fun p hp =>
    depth_obj_mem _ (p.1.toJsonKey, encodeFrag p.2 true) _ (List.mem_map.2 ⟨p, hp, rfl⟩) dvals
  have hdec := kids_decode K fuel IH kids ctype cname true hgk hu.1 hkk
      (fun p hp => (ub p hp).1) (fun p hp => Or.inl (ub p hp).2.symm) dbins
  have hbins := mapM_map_some kids (fun p => (p.1.toJsonKey, encodeFrag p.2 true)) (catItem fuel ctype cname)
    (fun p => (p.1, immut p.2)) (fun p hp => catItem_round fuel _ _ p (hix p hp) (hdec p hp))
  rw [dec_categorize fuel M pn e _ _ _ _ _ hkeys (entriesOf?_ok _ _ gent he) hname gbt hbn gbins hbins hknown]
  rw [resolve_ok q.name pn s hn, ← immutKids_eq_map,
    foldl_insertK_sorted Key.isCat strictOn_cat (immutKids kids) (by rw [keysOf_immutKids]; exact hcat)
      (by rw [keysOf_immutKids]; exact hsorted)]
  rfl

end CodecAux
end Hg
