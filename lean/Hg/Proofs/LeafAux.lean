/-
  Hg.Proofs.LeafAux — per-kind normal forms of the leaf operations used by Hg.Proofs.LeafLaws.
-/
import Hg.Proofs.BagLemmas

set_option linter.unusedSimpArgs false

namespace Hg

open Val

/-- invariant of a non-empty Deviate: mean and variance accumulator both finite, or the mean is
not finite and the accumulator is NaN -/
def DevOk (m v : Val) : Prop := (∃ a b, m = fin a ∧ v = fin b) ∨ (m.isFin = false ∧ v = nan)

/-! ### reading `leafGoodCore` -/

theorem good_count_iff {e : Val} {s : St} :
    leafGoodCore .count e s = true ↔ ∃ q, e = fin q ∧ 0 ≤ q ∧ s = .unit := by
  cases s <;> cases e <;> simp [leafGoodCore, St.fits, St.zero, Kind.isLeaf]

theorem good_sum_iff {qy : Qty} {e : Val} {s : St} :
    leafGoodCore (.sum qy) e s = true ↔ ∃ q a, e = fin q ∧ 0 ≤ q ∧ s = .sum a ∧ (q = 0 → a = 0) := by
  cases s <;> cases e <;> simp [leafGoodCore, St.fits, St.zero, Kind.isLeaf]
  rename_i a q
  by_cases h : q = 0 <;> simp [h]

theorem good_avg_iff {qy : Qty} {e : Val} {s : St} :
    leafGoodCore (.average qy) e s = true ↔
      ∃ q m, e = fin q ∧ 0 ≤ q ∧ s = .mean m ∧ (q = 0 → m = nan) := by
  cases s <;> cases e <;> simp [leafGoodCore, St.fits, St.zero, Kind.isLeaf]
  rename_i a q
  by_cases h : q = 0 <;> simp [h]

theorem good_min_iff {qy : Qty} {e : Val} {s : St} :
    leafGoodCore (.minimize qy) e s = true ↔
      ∃ q m, e = fin q ∧ 0 ≤ q ∧ s = .ext m ∧ (q = 0 → m = nan) := by
  cases s <;> cases e <;> simp [leafGoodCore, St.fits, St.zero, Kind.isLeaf]
  rename_i a q
  by_cases h : q = 0 <;> simp [h]

theorem good_max_iff {qy : Qty} {e : Val} {s : St} :
    leafGoodCore (.maximize qy) e s = true ↔
      ∃ q m, e = fin q ∧ 0 ≤ q ∧ s = .ext m ∧ (q = 0 → m = nan) := by
  cases s <;> cases e <;> simp [leafGoodCore, St.fits, St.zero, Kind.isLeaf]
  rename_i a q
  by_cases h : q = 0 <;> simp [h]

theorem devOk_iff (m v : Val) :
    ((m.isFin && v.isFin) || (!m.isFin && v.isNaN)) = true ↔ DevOk m v := by
  cases m <;> cases v <;> simp [DevOk, isFin, isNaN]

theorem good_dev_iff {qy : Qty} {e : Val} {s : St} :
    leafGoodCore (.deviate qy) e s = true ↔
      ∃ q m v, e = fin q ∧ 0 ≤ q ∧ s = .dev m v ∧ (q = 0 → m = nan ∧ v = nan) ∧
        (q ≠ 0 → DevOk m v) := by
  cases s <;> cases e <;> simp [leafGoodCore, St.fits, St.zero, Kind.isLeaf]
  rename_i m v q
  by_cases h : q = 0
  · simp [h]
  · simp only [h, if_false, ← devOk_iff]; simp

theorem good_bag_iff {qy : Qty} {r : BagRange} {e : Val} {s : St} :
    leafGoodCore (.bag qy r) e s = true ↔
      ∃ q m, e = fin q ∧ 0 ≤ q ∧ s = .bag m ∧ (q = 0 → m = []) ∧ bagSorted m = true := by
  cases s <;> cases e <;> simp [leafGoodCore, St.fits, St.zero, Kind.isLeaf]
  rename_i m q
  by_cases h : q = 0
  · simp [h]; intro hm; subst hm; rfl
  · simp [h]

theorem leafGood_cases {k : Kind} {e : Val} {s : St} (h : leafGoodCore k e s = true) :
    (e = fin 0 ∧ s = St.zero k) ∨ ∃ q, e = fin q ∧ 0 < q := by
  cases e <;> simp [leafGoodCore] at h
  rename_i q
  obtain ⟨_, hq, hz⟩ := h
  by_cases h0 : q = 0
  · left; simp [h0] at hz; exact ⟨by rw [h0], hz⟩
  · right; exact ⟨q, rfl, lt_of_le_of_ne hq (Ne.symm h0)⟩

theorem leafGood_zero' (k : Kind) (hk : k.isLeaf = true) : leafGoodCore k (fin 0) (St.zero k) = true := by
  cases k <;> simp [Kind.isLeaf] at hk <;> simp [leafGoodCore, St.fits, St.zero]

/-! ### the identity laws -/

theorem leafAdd_zero_right' (k : Kind) (e : Val) (s : St)
    (hk : k.isLeaf = true) (h : leafGoodCore k e s = true) :
    leafAdd k e s (fin 0) (St.zero k) = (e, s) := by
  cases k <;> simp [Kind.isLeaf] at hk
  · obtain ⟨q, rfl, _, rfl⟩ := good_count_iff.mp h
    simp [leafAdd]
  · obtain ⟨q, a, rfl, _, rfl, _⟩ := good_sum_iff.mp h
    simp [leafAdd, St.zero, zero_eq]
  · obtain ⟨q, m, rfl, _, rfl, hz⟩ := good_avg_iff.mp h
    by_cases h0 : q = 0
    · simp [leafAdd, St.zero, h0, hz h0]
    · simp [leafAdd, St.zero, h0]
  · obtain ⟨q, m, v, rfl, _, rfl, hz, _⟩ := good_dev_iff.mp h
    by_cases h0 : q = 0
    · simp [leafAdd, St.zero, h0, hz h0]
    · simp [leafAdd, St.zero, h0]
  · obtain ⟨q, m, rfl, _, rfl, _⟩ := good_min_iff.mp h
    simp [leafAdd, St.zero]
  · obtain ⟨q, m, rfl, _, rfl, _⟩ := good_max_iff.mp h
    simp [leafAdd, St.zero]
  · obtain ⟨q, m, rfl, _, rfl, _⟩ := good_bag_iff.mp h
    simp [leafAdd, St.zero, bagMerge_nil]

theorem leafAdd_zero_left' (k : Kind) (e : Val) (s : St)
    (hk : k.isLeaf = true) (h : leafGoodCore k e s = true) :
    leafAdd k (fin 0) (St.zero k) e s = (e, s) := by
  cases k <;> simp [Kind.isLeaf] at hk
  · obtain ⟨q, rfl, _, rfl⟩ := good_count_iff.mp h
    simp [leafAdd, St.zero]
  · obtain ⟨q, a, rfl, _, rfl, _⟩ := good_sum_iff.mp h
    simp [leafAdd, St.zero, zero_eq]
  · obtain ⟨q, m, rfl, _, rfl, hz⟩ := good_avg_iff.mp h
    simp [leafAdd, St.zero]
  · obtain ⟨q, m, v, rfl, _, rfl, hz, _⟩ := good_dev_iff.mp h
    simp [leafAdd, St.zero]
  · obtain ⟨q, m, rfl, _, rfl, _⟩ := good_min_iff.mp h
    simp [leafAdd, St.zero]
  · obtain ⟨q, m, rfl, _, rfl, _⟩ := good_max_iff.mp h
    simp [leafAdd, St.zero]
  · obtain ⟨q, m, rfl, _, rfl, _, hs⟩ := good_bag_iff.mp h
    simp [leafAdd, St.zero, bagMerge_nil_left hs]

/-! ### normal forms of the merge of two non-empty Average / Deviate -/

theorem leafAdd_avg_pos {qy : Qty} {q1 q2 : Rat} (h1 : 0 < q1) (h2 : 0 < q2) (m1 m2 : Val) :
    leafAdd (.average qy) (fin q1) (.mean m1) (fin q2) (.mean m2)
      = (fin (q1 + q2), .mean (wmean q1 m1 q2 m2)) := by
  simp [leafAdd, wmean, h1.ne', h2.ne']

/-- the merged `varianceTimesEntries` of `Deviate.__add__` -/
def devV (q1 : Rat) (m1 v1 : Val) (q2 : Rat) (m2 v2 : Val) : Val :=
  v1 + v2 + fin q1 * m1 * m1 + fin q2 * m2 * m2
    - fin 2 * wmean q1 m1 q2 m2 * (fin q1 * m1 + fin q2 * m2)
    + wmean q1 m1 q2 m2 * wmean q1 m1 q2 m2 * fin (q1 + q2)

theorem leafAdd_dev_pos {qy : Qty} {q1 q2 : Rat} (h1 : 0 < q1) (h2 : 0 < q2) (m1 v1 m2 v2 : Val) :
    leafAdd (.deviate qy) (fin q1) (.dev m1 v1) (fin q2) (.dev m2 v2)
      = (fin (q1 + q2), .dev (wmean q1 m1 q2 m2) (devV q1 m1 v1 q2 m2 v2)) := by
  simp [leafAdd, wmean, devV, h1.ne', h2.ne', two_eq]

@[simp] theorem devV_nan_left (q1 : Rat) (m1 : Val) (q2 : Rat) (m2 v2 : Val) :
    devV q1 m1 nan q2 m2 v2 = nan := by simp [devV]

@[simp] theorem devV_nan_right (q1 : Rat) (m1 v1 : Val) (q2 : Rat) (m2 : Val) :
    devV q1 m1 v1 q2 m2 nan = nan := by simp [devV]

theorem devV_fin {q1 q2 : Rat} (h : q1 + q2 ≠ 0) (a1 b1 a2 b2 : Rat) :
    devV q1 (fin a1) (fin b1) q2 (fin a2) (fin b2)
      = fin (b1 + b2 + q1 * a1 * a1 + q2 * a2 * a2
          - 2 * ((q1 * a1 + q2 * a2) / (q1 + q2)) * (q1 * a1 + q2 * a2)
          + (q1 * a1 + q2 * a2) / (q1 + q2) * ((q1 * a1 + q2 * a2) / (q1 + q2)) * (q1 + q2)) := by
  simp [devV, wmean_fin h]

theorem devV_comm (q1 : Rat) (m1 v1 : Val) (q2 : Rat) (m2 v2 : Val) :
    devV q1 m1 v1 q2 m2 v2 = devV q2 m2 v2 q1 m1 v1 := by
  unfold devV
  rw [wmean_comm q2 m2 q1 m1, Val.add_comm (fin q2 * m2) (fin q1 * m1), Rat.add_comm q2 q1,
    Val.add_comm v2 v1, Val.add_right_comm (v1 + v2) (fin q2 * m2 * m2) (fin q1 * m1 * m1)]

theorem devOk_add {q1 q2 : Rat} (h1 : 0 < q1) (h2 : 0 < q2) {m1 v1 m2 v2 : Val}
    (d1 : DevOk m1 v1) (d2 : DevOk m2 v2) :
    DevOk (wmean q1 m1 q2 m2) (devV q1 m1 v1 q2 m2 v2) := by
  have h12 : q1 + q2 ≠ 0 := by linarith
  rcases d1 with ⟨a1, b1, rfl, rfl⟩ | ⟨n1, rfl⟩
  · rcases d2 with ⟨a2, b2, rfl, rfl⟩ | ⟨n2, rfl⟩
    · left; exact ⟨_, _, wmean_fin h12 _ _, devV_fin h12 _ _ _ _⟩
    · right; exact ⟨by rw [isFin_wmean h1 h2, n2]; simp, devV_nan_right ..⟩
  · right; exact ⟨by rw [isFin_wmean h1 h2, n1]; simp, devV_nan_left ..⟩

theorem devV_assoc {q1 q2 q3 : Rat} (h1 : 0 < q1) (h2 : 0 < q2) (h3 : 0 < q3)
    {m1 v1 m2 v2 m3 v3 : Val} (d1 : DevOk m1 v1) (d2 : DevOk m2 v2) (d3 : DevOk m3 v3) :
    devV (q1 + q2) (wmean q1 m1 q2 m2) (devV q1 m1 v1 q2 m2 v2) q3 m3 v3
      = devV q1 m1 v1 (q2 + q3) (wmean q2 m2 q3 m3) (devV q2 m2 v2 q3 m3 v3) := by
  have h12 : q1 + q2 ≠ 0 := by linarith
  have h23 : q2 + q3 ≠ 0 := by linarith
  have h123 : q1 + q2 + q3 ≠ 0 := by linarith
  have h123' : q1 + (q2 + q3) ≠ 0 := by linarith
  rcases d1 with ⟨a1, b1, rfl, rfl⟩ | ⟨_, rfl⟩
  · rcases d2 with ⟨a2, b2, rfl, rfl⟩ | ⟨_, rfl⟩
    · rcases d3 with ⟨a3, b3, rfl, rfl⟩ | ⟨_, rfl⟩
      · rw [wmean_fin h12, wmean_fin h23, devV_fin h12, devV_fin h23, devV_fin h123, devV_fin h123']
        congr 1
        field_simp
        ring
      · simp
    · simp
  · simp

/-! ### reading `leafGoodCore` of a non-empty leaf -/

theorem good_count_pos {q : Rat} {s : St} (h : leafGoodCore .count (fin q) s = true) : s = .unit := by
  obtain ⟨_, _, _, rfl⟩ := good_count_iff.mp h; rfl

theorem good_sum_pos {qy : Qty} {q : Rat} {s : St} (h : leafGoodCore (.sum qy) (fin q) s = true) :
    ∃ a, s = .sum a := by
  obtain ⟨_, a, _, _, rfl, _⟩ := good_sum_iff.mp h; exact ⟨a, rfl⟩

theorem good_avg_pos {qy : Qty} {q : Rat} {s : St} (h : leafGoodCore (.average qy) (fin q) s = true) :
    ∃ m, s = .mean m := by
  obtain ⟨_, m, _, _, rfl, _⟩ := good_avg_iff.mp h; exact ⟨m, rfl⟩

theorem good_dev_pos {qy : Qty} {q : Rat} {s : St} (hq : 0 < q)
    (h : leafGoodCore (.deviate qy) (fin q) s = true) : ∃ m v, s = .dev m v ∧ DevOk m v := by
  obtain ⟨q', m, v, he, _, rfl, _, hd⟩ := good_dev_iff.mp h
  cases he
  exact ⟨m, v, rfl, hd hq.ne'⟩

theorem good_min_pos {qy : Qty} {q : Rat} {s : St} (h : leafGoodCore (.minimize qy) (fin q) s = true) :
    ∃ m, s = .ext m := by
  obtain ⟨_, m, _, _, rfl, _⟩ := good_min_iff.mp h; exact ⟨m, rfl⟩

theorem good_max_pos {qy : Qty} {q : Rat} {s : St} (h : leafGoodCore (.maximize qy) (fin q) s = true) :
    ∃ m, s = .ext m := by
  obtain ⟨_, m, _, _, rfl, _⟩ := good_max_iff.mp h; exact ⟨m, rfl⟩

theorem good_bag_pos {qy : Qty} {r : BagRange} {q : Rat} {s : St}
    (h : leafGoodCore (.bag qy r) (fin q) s = true) : ∃ m, s = .bag m ∧ bagSorted m = true := by
  obtain ⟨_, m, _, _, rfl, _, hs⟩ := good_bag_iff.mp h; exact ⟨m, rfl, hs⟩

/-! ### merge of two non-empty leaves -/

theorem leafGood_add_pos (k : Kind) (hk : k.isLeaf = true) {q1 q2 : Rat} {s1 s2 : St}
    (hq1 : 0 < q1) (hq2 : 0 < q2)
    (h1 : leafGoodCore k (fin q1) s1 = true) (h2 : leafGoodCore k (fin q2) s2 = true)
    (c1 : leafKeysOk k s1 = true) (c2 : leafKeysOk k s2 = true) :
    leafGoodCore k (leafAdd k (fin q1) s1 (fin q2) s2).1 (leafAdd k (fin q1) s1 (fin q2) s2).2 = true ∧
      leafKeysOk k (leafAdd k (fin q1) s1 (fin q2) s2).2 = true := by
  have h12 : 0 < q1 + q2 := by linarith
  cases k <;> simp [Kind.isLeaf] at hk
  · cases good_count_pos h1; cases good_count_pos h2
    simp only [leafAdd]
    exact ⟨good_count_iff.mpr ⟨_, rfl, h12.le, rfl⟩, rfl⟩
  · obtain ⟨a, rfl⟩ := good_sum_pos h1; obtain ⟨b, rfl⟩ := good_sum_pos h2
    simp only [leafAdd]
    exact ⟨good_sum_iff.mpr ⟨_, _, rfl, h12.le, rfl, fun h => absurd h h12.ne'⟩, rfl⟩
  · obtain ⟨a, rfl⟩ := good_avg_pos h1; obtain ⟨b, rfl⟩ := good_avg_pos h2
    rw [leafAdd_avg_pos hq1 hq2]
    exact ⟨good_avg_iff.mpr ⟨_, _, rfl, h12.le, rfl, fun h => absurd h h12.ne'⟩, rfl⟩
  · obtain ⟨m1, v1, rfl, d1⟩ := good_dev_pos hq1 h1
    obtain ⟨m2, v2, rfl, d2⟩ := good_dev_pos hq2 h2
    rw [leafAdd_dev_pos hq1 hq2]
    exact ⟨good_dev_iff.mpr ⟨_, _, _, rfl, h12.le, rfl, fun h => absurd h h12.ne',
      fun _ => devOk_add hq1 hq2 d1 d2⟩, rfl⟩
  · obtain ⟨a, rfl⟩ := good_min_pos h1; obtain ⟨b, rfl⟩ := good_min_pos h2
    simp only [leafAdd]
    exact ⟨good_min_iff.mpr ⟨_, _, rfl, h12.le, rfl, fun h => absurd h h12.ne'⟩, rfl⟩
  · obtain ⟨a, rfl⟩ := good_max_pos h1; obtain ⟨b, rfl⟩ := good_max_pos h2
    simp only [leafAdd]
    exact ⟨good_max_iff.mpr ⟨_, _, rfl, h12.le, rfl, fun h => absurd h h12.ne'⟩, rfl⟩
  · obtain ⟨a, rfl, sa⟩ := good_bag_pos h1; obtain ⟨b, rfl, sb⟩ := good_bag_pos h2
    simp only [leafAdd]
    have := bagMerge_sorted_keysOk sa c1 c2
    exact ⟨good_bag_iff.mpr ⟨_, _, rfl, h12.le, rfl, fun h => absurd h h12.ne', this.1⟩, this.2⟩

theorem leafAdd_comm_pos (k : Kind) (hk : k.isLeaf = true) {q1 q2 : Rat} {s1 s2 : St}
    (hq1 : 0 < q1) (hq2 : 0 < q2)
    (h1 : leafGoodCore k (fin q1) s1 = true) (h2 : leafGoodCore k (fin q2) s2 = true)
    (c1 : leafKeysOk k s1 = true) (c2 : leafKeysOk k s2 = true) :
    leafAdd k (fin q1) s1 (fin q2) s2 = leafAdd k (fin q2) s2 (fin q1) s1 := by
  cases k <;> simp [Kind.isLeaf] at hk
  · cases good_count_pos h1; cases good_count_pos h2
    simp [leafAdd, Rat.add_comm]
  · obtain ⟨a, rfl⟩ := good_sum_pos h1; obtain ⟨b, rfl⟩ := good_sum_pos h2
    simp only [leafAdd, fin_add_fin]
    rw [Rat.add_comm, Val.add_comm]
  · obtain ⟨a, rfl⟩ := good_avg_pos h1; obtain ⟨b, rfl⟩ := good_avg_pos h2
    rw [leafAdd_avg_pos hq1 hq2, leafAdd_avg_pos hq2 hq1, wmean_comm, Rat.add_comm]
  · obtain ⟨m1, v1, rfl, d1⟩ := good_dev_pos hq1 h1
    obtain ⟨m2, v2, rfl, d2⟩ := good_dev_pos hq2 h2
    rw [leafAdd_dev_pos hq1 hq2, leafAdd_dev_pos hq2 hq1, wmean_comm, devV_comm, Rat.add_comm]
  · obtain ⟨a, rfl⟩ := good_min_pos h1; obtain ⟨b, rfl⟩ := good_min_pos h2
    simp only [leafAdd, fin_add_fin]
    rw [Rat.add_comm, minplus_comm]
  · obtain ⟨a, rfl⟩ := good_max_pos h1; obtain ⟨b, rfl⟩ := good_max_pos h2
    simp only [leafAdd, fin_add_fin]
    rw [Rat.add_comm, maxplus_comm]
  · obtain ⟨a, rfl, sa⟩ := good_bag_pos h1; obtain ⟨b, rfl, sb⟩ := good_bag_pos h2
    simp only [leafAdd, fin_add_fin]
    rw [Rat.add_comm, bagMerge_comm sa sb c1 c2]

theorem leafAdd_assoc_pos (k : Kind) (hk : k.isLeaf = true) {q1 q2 q3 : Rat} {s1 s2 s3 : St}
    (hq1 : 0 < q1) (hq2 : 0 < q2) (hq3 : 0 < q3)
    (h1 : leafGoodCore k (fin q1) s1 = true) (h2 : leafGoodCore k (fin q2) s2 = true)
    (h3 : leafGoodCore k (fin q3) s3 = true)
    (c1 : leafKeysOk k s1 = true) (c2 : leafKeysOk k s2 = true) (c3 : leafKeysOk k s3 = true) :
    leafAdd k (leafAdd k (fin q1) s1 (fin q2) s2).1 (leafAdd k (fin q1) s1 (fin q2) s2).2 (fin q3) s3
      = leafAdd k (fin q1) s1 (leafAdd k (fin q2) s2 (fin q3) s3).1
          (leafAdd k (fin q2) s2 (fin q3) s3).2 := by
  have h12 : 0 < q1 + q2 := by linarith
  have h23 : 0 < q2 + q3 := by linarith
  cases k <;> simp [Kind.isLeaf] at hk
  · cases good_count_pos h1; cases good_count_pos h2; cases good_count_pos h3
    simp [leafAdd, Rat.add_assoc]
  · obtain ⟨a, rfl⟩ := good_sum_pos h1; obtain ⟨b, rfl⟩ := good_sum_pos h2
    obtain ⟨c, rfl⟩ := good_sum_pos h3
    simp only [leafAdd, fin_add_fin]
    rw [Rat.add_assoc, Val.add_assoc]
  · obtain ⟨a, rfl⟩ := good_avg_pos h1; obtain ⟨b, rfl⟩ := good_avg_pos h2
    obtain ⟨c, rfl⟩ := good_avg_pos h3
    rw [leafAdd_avg_pos hq1 hq2, leafAdd_avg_pos hq2 hq3]
    simp only []
    rw [leafAdd_avg_pos h12 hq3, leafAdd_avg_pos hq1 h23, wmean_assoc hq1 hq2 hq3, Rat.add_assoc]
  · obtain ⟨m1, v1, rfl, d1⟩ := good_dev_pos hq1 h1
    obtain ⟨m2, v2, rfl, d2⟩ := good_dev_pos hq2 h2
    obtain ⟨m3, v3, rfl, d3⟩ := good_dev_pos hq3 h3
    rw [leafAdd_dev_pos hq1 hq2, leafAdd_dev_pos hq2 hq3]
    simp only []
    rw [leafAdd_dev_pos h12 hq3, leafAdd_dev_pos hq1 h23, wmean_assoc hq1 hq2 hq3,
      devV_assoc hq1 hq2 hq3 d1 d2 d3, Rat.add_assoc]
  · obtain ⟨a, rfl⟩ := good_min_pos h1; obtain ⟨b, rfl⟩ := good_min_pos h2
    obtain ⟨c, rfl⟩ := good_min_pos h3
    simp only [leafAdd, fin_add_fin]
    rw [Rat.add_assoc, minplus_assoc]
  · obtain ⟨a, rfl⟩ := good_max_pos h1; obtain ⟨b, rfl⟩ := good_max_pos h2
    obtain ⟨c, rfl⟩ := good_max_pos h3
    simp only [leafAdd, fin_add_fin]
    rw [Rat.add_assoc, maxplus_assoc]
  · obtain ⟨a, rfl, sa⟩ := good_bag_pos h1; obtain ⟨b, rfl, sb⟩ := good_bag_pos h2
    obtain ⟨c, rfl, sc⟩ := good_bag_pos h3
    simp only [leafAdd, fin_add_fin]
    rw [Rat.add_assoc, bagMerge_assoc sa sb sc c1 c2 c3]

/-! ### merge, general case (an empty operand is the identity) -/

theorem leafKeysOk_zero (k : Kind) : leafKeysOk k (St.zero k) = true := by
  cases k <;> rfl

theorem leafGood_add_aux (k : Kind) (hk : k.isLeaf = true) {e1 e2 : Val} {s1 s2 : St}
    (h1 : leafGoodCore k e1 s1 = true) (h2 : leafGoodCore k e2 s2 = true)
    (c1 : leafKeysOk k s1 = true) (c2 : leafKeysOk k s2 = true) :
    leafGoodCore k (leafAdd k e1 s1 e2 s2).1 (leafAdd k e1 s1 e2 s2).2 = true ∧
      leafKeysOk k (leafAdd k e1 s1 e2 s2).2 = true := by
  rcases leafGood_cases h1 with ⟨rfl, rfl⟩ | ⟨q1, rfl, hq1⟩
  · rw [leafAdd_zero_left' k e2 s2 hk h2]; exact ⟨h2, c2⟩
  · rcases leafGood_cases h2 with ⟨rfl, rfl⟩ | ⟨q2, rfl, hq2⟩
    · rw [leafAdd_zero_right' k _ s1 hk h1]; exact ⟨h1, c1⟩
    · exact leafGood_add_pos k hk hq1 hq2 h1 h2 c1 c2

theorem leafAdd_comm_aux (k : Kind) (hk : k.isLeaf = true) {e1 e2 : Val} {s1 s2 : St}
    (h1 : leafGoodCore k e1 s1 = true) (h2 : leafGoodCore k e2 s2 = true)
    (c1 : leafKeysOk k s1 = true) (c2 : leafKeysOk k s2 = true) :
    leafAdd k e1 s1 e2 s2 = leafAdd k e2 s2 e1 s1 := by
  rcases leafGood_cases h1 with ⟨rfl, rfl⟩ | ⟨q1, rfl, hq1⟩
  · rw [leafAdd_zero_left' k e2 s2 hk h2, leafAdd_zero_right' k e2 s2 hk h2]
  · rcases leafGood_cases h2 with ⟨rfl, rfl⟩ | ⟨q2, rfl, hq2⟩
    · rw [leafAdd_zero_right' k _ s1 hk h1, leafAdd_zero_left' k _ s1 hk h1]
    · exact leafAdd_comm_pos k hk hq1 hq2 h1 h2 c1 c2

theorem leafAdd_assoc_aux (k : Kind) (hk : k.isLeaf = true) {e1 e2 e3 : Val} {s1 s2 s3 : St}
    (h1 : leafGoodCore k e1 s1 = true) (h2 : leafGoodCore k e2 s2 = true) (h3 : leafGoodCore k e3 s3 = true)
    (c1 : leafKeysOk k s1 = true) (c2 : leafKeysOk k s2 = true) (c3 : leafKeysOk k s3 = true) :
    leafAdd k (leafAdd k e1 s1 e2 s2).1 (leafAdd k e1 s1 e2 s2).2 e3 s3
      = leafAdd k e1 s1 (leafAdd k e2 s2 e3 s3).1 (leafAdd k e2 s2 e3 s3).2 := by
  have g12 := leafGood_add_aux k hk h1 h2 c1 c2
  have g23 := leafGood_add_aux k hk h2 h3 c2 c3
  rcases leafGood_cases h1 with ⟨rfl, rfl⟩ | ⟨q1, rfl, hq1⟩
  · rw [leafAdd_zero_left' k e2 s2 hk h2, leafAdd_zero_left' k _ _ hk g23.1]
  · rcases leafGood_cases h2 with ⟨rfl, rfl⟩ | ⟨q2, rfl, hq2⟩
    · rw [leafAdd_zero_right' k _ s1 hk h1, leafAdd_zero_left' k _ s3 hk h3]
    · rcases leafGood_cases h3 with ⟨rfl, rfl⟩ | ⟨q3, rfl, hq3⟩
      · rw [leafAdd_zero_right' k _ _ hk g12.1, leafAdd_zero_right' k _ s2 hk h2]
      · exact leafAdd_assoc_pos k hk hq1 hq2 hq3 h1 h2 h3 c1 c2 c3

/-- associativity needs no assumption on the Bag keys (`bagMerge_assoc_gen`) -/
theorem leafAdd_assoc_aux' (k : Kind) (hk : k.isLeaf = true) {e1 e2 e3 : Val} {s1 s2 s3 : St}
    (h1 : leafGoodCore k e1 s1 = true) (h2 : leafGoodCore k e2 s2 = true) (h3 : leafGoodCore k e3 s3 = true) :
    leafAdd k (leafAdd k e1 s1 e2 s2).1 (leafAdd k e1 s1 e2 s2).2 e3 s3
      = leafAdd k e1 s1 (leafAdd k e2 s2 e3 s3).1 (leafAdd k e2 s2 e3 s3).2 := by
  cases k
  case bag qy r =>
    obtain ⟨q1, a, rfl, _, rfl, _, sa⟩ := good_bag_iff.mp h1
    obtain ⟨q2, b, rfl, _, rfl, _, sb⟩ := good_bag_iff.mp h2
    obtain ⟨q3, c, rfl, _, rfl, _, sc⟩ := good_bag_iff.mp h3
    simp only [leafAdd, fin_add_fin]
    rw [Rat.add_assoc, bagMerge_assoc_gen a sb sc]
  all_goals
    exact leafAdd_assoc_aux _ hk h1 h2 h3 (by cases s1 <;> rfl) (by cases s2 <;> rfl)
      (by cases s3 <;> rfl)

/-! ### a fill is the merge with a one-datum leaf -/

/-- the state of the leaf that has seen exactly the datum `d` with weight `w` (or the fault the
quantity raises) -/
def leafSingle (k : Kind) (d : Datum) (w : Val) : Except Fault St :=
  match k with
  | .count => .ok .unit
  | .sum q => do let x ← q.evalNum d; pure (.sum (x * w))
  | .average q => do let x ← q.evalNum d; pure (.mean x)
  | .deviate q => do let x ← q.evalNum d; pure (.dev x (if x.isFin then fin 0 else nan))
  | .minimize q => do let x ← q.evalNum d; pure (.ext x)
  | .maximize q => do let x ← q.evalNum d; pure (.ext x)
  | .bag q r => do let key ← q.evalBag r d; pure (.bag [(key, w)])
  | _ => .error .typeErr

theorem devV_fill {q w : Rat} (hq : 0 < q) (hw : 0 < w) {m v : Val} (dm : DevOk m v) (x : Val) :
    (if (m.isNaN || x.isNaN) = true then nan
      else if (m.isInf || x.isInf) = true then nan
      else v + fin w * (x - m) * (x - wmean q m w x))
    = devV q m v w x (if x.isFin = true then fin 0 else nan) := by
  have hqw : q + w ≠ 0 := by linarith
  rcases dm with ⟨a, b, rfl, rfl⟩ | ⟨n, rfl⟩
  · cases x with
    | fin c =>
      simp only [isNaN_fin, isInf_fin, isFin_fin, Bool.or_self, Bool.false_eq_true, if_false,
        if_true]
      rw [devV_fin hqw, wmean_fin hqw]
      simp only [fin_sub_fin, fin_mul_fin, fin_add_fin]
      congr 1
      field_simp
      ring
    | _ => simp [isNaN, isInf, isFin]
  · cases m <;> simp [isFin] at n <;> cases x <;> simp [isNaN, isInf]

theorem leafFill_eq_add (k : Kind) (hk : k.isLeaf = true) {e : Val} {s : St} {w : Rat} (d : Datum)
    (h : leafGoodCore k e s = true) (hw : 0 < w) :
    leafFill k e s d (fin w) =
      match leafSingle k d (fin w) with
      | .ok sx => .ok (leafAdd k e s (fin w) sx)
      | .error f => .error f := by
  cases k <;> simp [Kind.isLeaf] at hk
  · obtain ⟨q, rfl, _, rfl⟩ := good_count_iff.mp h
    rfl
  · rename_i qy
    obtain ⟨q, a, rfl, _, rfl, _⟩ := good_sum_iff.mp h
    simp only [leafFill, leafSingle]
    cases qy.evalNum d with
    | error f => rfl
    | ok x => rfl
  · rename_i qy
    obtain ⟨q, m, rfl, hq, rfl, hz⟩ := good_avg_iff.mp h
    simp only [leafFill, leafSingle]
    cases qy.evalNum d with
    | error f => rfl
    | ok x =>
      simp only [bind, Except.bind, pure, Except.pure]
      by_cases h0 : q = 0
      · subst h0
        rw [meanUpdate_zero hw]
        simp [leafAdd]
      · have hq' : 0 < q := lt_of_le_of_ne hq (Ne.symm h0)
        rw [meanUpdate_pos hq' hw, leafAdd_avg_pos hq' hw]
  · rename_i qy
    obtain ⟨q, m, v, rfl, hq, rfl, hz, hd⟩ := good_dev_iff.mp h
    simp only [leafFill, leafSingle]
    cases qy.evalNum d with
    | error f => rfl
    | ok x =>
      simp only [bind, Except.bind, pure, Except.pure]
      by_cases h0 : q = 0
      · subst h0
        rw [meanUpdate_zero hw]
        cases x <;> simp [leafAdd, isNaN, isInf, isFin, zero_eq]
      · have hq' : 0 < q := lt_of_le_of_ne hq (Ne.symm h0)
        rw [meanUpdate_pos hq' hw, leafAdd_dev_pos hq' hw]
        simp only [isZero_fin, h0, decide_false, if_false, Bool.false_eq_true]
        rw [devV_fill hq' hw (hd h0)]
  · rename_i qy
    obtain ⟨q, m, rfl, _, rfl, _⟩ := good_min_iff.mp h
    simp only [leafFill, leafSingle]
    cases qy.evalNum d with
    | error f => rfl
    | ok x =>
      simp only [bind, Except.bind, pure, Except.pure, leafAdd]
      rw [fillMin_eq, minplus_comm]
  · rename_i qy
    obtain ⟨q, m, rfl, _, rfl, _⟩ := good_max_iff.mp h
    simp only [leafFill, leafSingle]
    cases qy.evalNum d with
    | error f => rfl
    | ok x =>
      simp only [bind, Except.bind, pure, Except.pure, leafAdd]
      rw [fillMax_eq, maxplus_comm]
  · rename_i qy r
    obtain ⟨q, m, rfl, _, rfl, _⟩ := good_bag_iff.mp h
    simp only [leafFill, leafSingle]
    cases qy.evalBag r d with
    | error f => rfl
    | ok x => rfl

theorem bagKeyOf_inRange {r : BagRange} {c : Cell} {key : BKey} (h : bagKeyOf r c = .ok key) :
    key.inRange r = true := by
  cases r <;> cases c <;> simp only [bagKeyOf] at h <;>
    first
    | (cases h; rfl)
    | (cases h)
    | skip
  split at h
  · rename_i hl
    cases h
    simp [BKey.inRange, hl]
  · cases h

theorem evalBag_inRange {qy : Qty} {r : BagRange} {d : Datum} {key : BKey}
    (h : qy.evalBag r d = .ok key) : key.inRange r = true := by
  unfold Qty.evalBag at h
  split at h
  · cases h
  · split at h
    · exact bagKeyOf_inRange h
    · cases h

theorem leafGood_single (k : Kind) (hk : k.isLeaf = true) {d : Datum} {w : Rat} {sx : St}
    (hw : 0 < w) (h : leafSingle k d (fin w) = .ok sx) :
    leafGoodCore k (fin w) sx = true ∧ leafKeysOk k sx = true := by
  cases k <;> simp [Kind.isLeaf] at hk
  · cases h
    exact ⟨good_count_iff.mpr ⟨_, rfl, hw.le, rfl⟩, rfl⟩
  · rename_i qy
    simp only [leafSingle] at h
    cases hx : qy.evalNum d with
    | error f => rw [hx] at h; cases h
    | ok x =>
      rw [hx] at h; cases h
      exact ⟨good_sum_iff.mpr ⟨_, _, rfl, hw.le, rfl, fun h => absurd h hw.ne'⟩, rfl⟩
  · rename_i qy
    simp only [leafSingle] at h
    cases hx : qy.evalNum d with
    | error f => rw [hx] at h; cases h
    | ok x =>
      rw [hx] at h; cases h
      exact ⟨good_avg_iff.mpr ⟨_, _, rfl, hw.le, rfl, fun h => absurd h hw.ne'⟩, rfl⟩
  · rename_i qy
    simp only [leafSingle] at h
    cases hx : qy.evalNum d with
    | error f => rw [hx] at h; cases h
    | ok x =>
      rw [hx] at h; cases h
      refine ⟨good_dev_iff.mpr ⟨_, _, _, rfl, hw.le, rfl, fun h => absurd h hw.ne', fun _ => ?_⟩, rfl⟩
      cases x <;> simp [DevOk, isFin]
  · rename_i qy
    simp only [leafSingle] at h
    cases hx : qy.evalNum d with
    | error f => rw [hx] at h; cases h
    | ok x =>
      rw [hx] at h; cases h
      exact ⟨good_min_iff.mpr ⟨_, _, rfl, hw.le, rfl, fun h => absurd h hw.ne'⟩, rfl⟩
  · rename_i qy
    simp only [leafSingle] at h
    cases hx : qy.evalNum d with
    | error f => rw [hx] at h; cases h
    | ok x =>
      rw [hx] at h; cases h
      exact ⟨good_max_iff.mpr ⟨_, _, rfl, hw.le, rfl, fun h => absurd h hw.ne'⟩, rfl⟩
  · rename_i qy r
    simp only [leafSingle] at h
    cases hx : qy.evalBag r d with
    | error f => rw [hx] at h; cases h
    | ok x =>
      rw [hx] at h; cases h
      refine ⟨good_bag_iff.mpr ⟨_, _, rfl, hw.le, rfl, fun h => absurd h hw.ne', rfl⟩, ?_⟩
      simp [leafKeysOk, bagKeysOk, evalBag_inRange hx]

/-! ### scaling -/

theorem leafMul_zero (k : Kind) (f : Rat) : leafMul k (St.zero k) (fin f) = St.zero k := by
  cases k <;> simp [leafMul, St.zero, zero_eq]

theorem leafKeysOk_mul (k : Kind) (s : St) (f : Val) : leafKeysOk k (leafMul k s f) = leafKeysOk k s := by
  cases k <;> cases s <;> simp [leafMul, leafKeysOk]
  exact bagKeysOk_map _ (fun v => f * v) _

theorem devOk_mul {f : Rat} (_hf : 0 < f) {m v : Val} (d : DevOk m v) : DevOk m (fin f * v) := by
  rcases d with ⟨a, b, rfl, rfl⟩ | ⟨n, rfl⟩
  · left; exact ⟨a, f * b, rfl, rfl⟩
  · right; exact ⟨n, by simp⟩

theorem leafGood_mul_aux (k : Kind) (hk : k.isLeaf = true) {e : Val} {s : St} {f : Rat}
    (h : leafGoodCore k e s = true) (hf : 0 < f) :
    leafGoodCore k (fin f * e) (leafMul k s (fin f)) = true := by
  have key : ∀ q : Rat, f * q = 0 → q = 0 := fun q hq => by
    rcases mul_eq_zero.mp hq with h | h
    · exact absurd h hf.ne'
    · exact h
  cases k <;> simp [Kind.isLeaf] at hk
  · obtain ⟨q, rfl, hq, rfl⟩ := good_count_iff.mp h
    exact good_count_iff.mpr ⟨_, rfl, mul_nonneg hf.le hq, rfl⟩
  · obtain ⟨q, a, rfl, hq, rfl, hz⟩ := good_sum_iff.mp h
    refine good_sum_iff.mpr ⟨_, _, rfl, mul_nonneg hf.le hq, rfl, fun h0 => ?_⟩
    rw [hz (key q h0)]; simp [zero_eq]
  · obtain ⟨q, a, rfl, hq, rfl, hz⟩ := good_avg_iff.mp h
    exact good_avg_iff.mpr ⟨_, _, rfl, mul_nonneg hf.le hq, rfl, fun h0 => hz (key q h0)⟩
  · obtain ⟨q, m, v, rfl, hq, rfl, hz, hd⟩ := good_dev_iff.mp h
    refine good_dev_iff.mpr ⟨_, _, _, rfl, mul_nonneg hf.le hq, rfl, fun h0 => ?_, fun h0 => ?_⟩
    · obtain ⟨rfl, rfl⟩ := hz (key q h0); simp
    · exact devOk_mul hf (hd (fun hq0 => h0 (by rw [hq0, mul_zero])))
  · obtain ⟨q, a, rfl, hq, rfl, hz⟩ := good_min_iff.mp h
    exact good_min_iff.mpr ⟨_, _, rfl, mul_nonneg hf.le hq, rfl, fun h0 => hz (key q h0)⟩
  · obtain ⟨q, a, rfl, hq, rfl, hz⟩ := good_max_iff.mp h
    exact good_max_iff.mpr ⟨_, _, rfl, mul_nonneg hf.le hq, rfl, fun h0 => hz (key q h0)⟩
  · obtain ⟨q, a, rfl, hq, rfl, hz, hs⟩ := good_bag_iff.mp h
    refine good_bag_iff.mpr ⟨_, _, rfl, mul_nonneg hf.le hq, rfl, fun h0 => ?_, ?_⟩
    · rw [hz (key q h0)]; rfl
    · rw [bagSorted_map (fun v => fin f * v)]; exact hs

theorem devV_scale {f q1 q2 : Rat} (hf : 0 < f) (h1 : 0 < q1) (h2 : 0 < q2) {m1 v1 m2 v2 : Val}
    (d1 : DevOk m1 v1) (d2 : DevOk m2 v2) :
    devV (f * q1) m1 (fin f * v1) (f * q2) m2 (fin f * v2) = fin f * devV q1 m1 v1 q2 m2 v2 := by
  have h12 : q1 + q2 ≠ 0 := by linarith
  have h12' : f * q1 + f * q2 ≠ 0 := by
    have : 0 < f * q1 + f * q2 := by positivity
    exact this.ne'
  rcases d1 with ⟨a1, b1, rfl, rfl⟩ | ⟨_, rfl⟩
  · rcases d2 with ⟨a2, b2, rfl, rfl⟩ | ⟨_, rfl⟩
    · simp only [fin_mul_fin]
      rw [devV_fin h12, devV_fin h12', fin_mul_fin]
      congr 1
      field_simp
    · simp
  · simp

theorem leafMul_add_pos (k : Kind) (hk : k.isLeaf = true) {f q1 q2 : Rat} {s1 s2 : St}
    (hf : 0 < f) (hq1 : 0 < q1) (hq2 : 0 < q2)
    (h1 : leafGoodCore k (fin q1) s1 = true) (h2 : leafGoodCore k (fin q2) s2 = true) :
    leafAdd k (fin f * fin q1) (leafMul k s1 (fin f)) (fin f * fin q2) (leafMul k s2 (fin f))
      = (fin f * (leafAdd k (fin q1) s1 (fin q2) s2).1,
         leafMul k (leafAdd k (fin q1) s1 (fin q2) s2).2 (fin f)) := by
  have hf1 : 0 < f * q1 := mul_pos hf hq1
  have hf2 : 0 < f * q2 := mul_pos hf hq2
  cases k <;> simp [Kind.isLeaf] at hk
  · cases good_count_pos h1; cases good_count_pos h2
    simp [leafAdd, leafMul, mul_add]
  · obtain ⟨a, rfl⟩ := good_sum_pos h1; obtain ⟨b, rfl⟩ := good_sum_pos h2
    simp [leafAdd, leafMul, mul_add, fin_mul_add hf]
  · obtain ⟨a, rfl⟩ := good_avg_pos h1; obtain ⟨b, rfl⟩ := good_avg_pos h2
    simp only [leafMul, fin_mul_fin]
    rw [leafAdd_avg_pos hf1 hf2, leafAdd_avg_pos hq1 hq2, wmean_scale hf hq1 hq2]
    simp [mul_add]
  · obtain ⟨m1, v1, rfl, d1⟩ := good_dev_pos hq1 h1
    obtain ⟨m2, v2, rfl, d2⟩ := good_dev_pos hq2 h2
    simp only [leafMul, fin_mul_fin]
    rw [leafAdd_dev_pos hf1 hf2, leafAdd_dev_pos hq1 hq2, wmean_scale hf hq1 hq2,
      devV_scale hf hq1 hq2 d1 d2]
    simp [mul_add, leafMul]
  · obtain ⟨a, rfl⟩ := good_min_pos h1; obtain ⟨b, rfl⟩ := good_min_pos h2
    simp [leafAdd, leafMul, mul_add]
  · obtain ⟨a, rfl⟩ := good_max_pos h1; obtain ⟨b, rfl⟩ := good_max_pos h2
    simp [leafAdd, leafMul, mul_add]
  · obtain ⟨a, rfl, sa⟩ := good_bag_pos h1; obtain ⟨b, rfl, sb⟩ := good_bag_pos h2
    simp only [leafAdd, leafMul, fin_mul_fin, fin_add_fin]
    rw [bagMerge_map (fun v => fin f * v) (fin_mul_add hf), mul_add]

theorem leafMul_add_aux (k : Kind) (hk : k.isLeaf = true) {f : Rat} {e1 e2 : Val} {s1 s2 : St}
    (hf : 0 < f) (h1 : leafGoodCore k e1 s1 = true) (h2 : leafGoodCore k e2 s2 = true) :
    leafAdd k (fin f * e1) (leafMul k s1 (fin f)) (fin f * e2) (leafMul k s2 (fin f))
      = (fin f * (leafAdd k e1 s1 e2 s2).1, leafMul k (leafAdd k e1 s1 e2 s2).2 (fin f)) := by
  have z : fin f * fin 0 = fin 0 := by simp
  have g1 := leafGood_mul_aux k hk h1 hf
  have g2 := leafGood_mul_aux k hk h2 hf
  rcases leafGood_cases h1 with ⟨rfl, rfl⟩ | ⟨q1, rfl, hq1⟩
  · rw [z, leafMul_zero, leafAdd_zero_left' k _ _ hk g2, leafAdd_zero_left' k _ _ hk h2]
  · rcases leafGood_cases h2 with ⟨rfl, rfl⟩ | ⟨q2, rfl, hq2⟩
    · rw [z, leafMul_zero, leafAdd_zero_right' k _ _ hk g1, leafAdd_zero_right' k _ _ hk h1]
    · exact leafMul_add_pos k hk hf hq1 hq2 h1 h2

theorem leafSingle_scale (k : Kind) (hk : k.isLeaf = true) (d : Datum) {f w : Rat} (hf : 0 < f)
    (hw : 0 < w) :
    leafSingle k d (fin f * fin w) =
      match leafSingle k d (fin w) with
      | .ok sx => .ok (leafMul k sx (fin f))
      | .error e => .error e := by
  cases k <;> simp [Kind.isLeaf] at hk
  · rfl
  · rename_i qy
    simp only [leafSingle]
    cases qy.evalNum d with
    | error e => rfl
    | ok x =>
      simp only [bind, Except.bind, pure, Except.pure, leafMul]
      rw [mul_fin_mul_fin hf hw]
  · rename_i qy
    simp only [leafSingle]
    cases qy.evalNum d with
    | error e => rfl
    | ok x => rfl
  · rename_i qy
    simp only [leafSingle]
    cases qy.evalNum d with
    | error e => rfl
    | ok x =>
      simp only [bind, Except.bind, pure, Except.pure, leafMul]
      cases x <;> simp [isFin]
  · rename_i qy
    simp only [leafSingle]
    cases qy.evalNum d with
    | error e => rfl
    | ok x => rfl
  · rename_i qy
    simp only [leafSingle]
    cases qy.evalNum d with
    | error e => rfl
    | ok x => rfl
  · rename_i qy r
    simp only [leafSingle]
    cases qy.evalBag r d with
    | error e => rfl
    | ok x => rfl

theorem leafMul_mul_aux (k : Kind) (hk : k.isLeaf = true) {e : Val} {s : St} {f g : Rat}
    (h : leafGoodCore k e s = true) (hf : 0 < f) (hg : 0 < g) :
    (fin g * (fin f * e), leafMul k (leafMul k s (fin f)) (fin g))
      = (fin (f * g) * e, leafMul k s (fin (f * g))) := by
  rw [fin_mul_fin_mul hf hg e]
  cases k <;> simp [Kind.isLeaf] at hk
  · obtain ⟨q, rfl, hq, rfl⟩ := good_count_iff.mp h
    rfl
  · obtain ⟨q, a, rfl, hq, rfl, hz⟩ := good_sum_iff.mp h
    simp only [leafMul]
    rw [fin_mul_fin_mul hf hg a]
  · obtain ⟨q, a, rfl, hq, rfl, hz⟩ := good_avg_iff.mp h
    rfl
  · obtain ⟨q, m, v, rfl, hq, rfl, hz, hd⟩ := good_dev_iff.mp h
    simp only [leafMul]
    rw [fin_mul_fin_mul hf hg v]
  · obtain ⟨q, a, rfl, hq, rfl, hz⟩ := good_min_iff.mp h
    rfl
  · obtain ⟨q, a, rfl, hq, rfl, hz⟩ := good_max_iff.mp h
    rfl
  · obtain ⟨q, a, rfl, hq, rfl, hz, hs⟩ := good_bag_iff.mp h
    simp only [leafMul, List.map_map, Function.comp_def, fin_mul_fin_mul hf hg]

theorem leafMul_one_aux (k : Kind) (hk : k.isLeaf = true) {e : Val} {s : St}
    (h : leafGoodCore k e s = true) :
    (fin 1 * e, leafMul k s (fin 1)) = (e, s) := by
  rw [fin_one_mul]
  cases k <;> simp [Kind.isLeaf] at hk
  · obtain ⟨q, rfl, hq, rfl⟩ := good_count_iff.mp h
    rfl
  · obtain ⟨q, a, rfl, hq, rfl, hz⟩ := good_sum_iff.mp h
    simp only [leafMul, fin_one_mul]
  · obtain ⟨q, a, rfl, hq, rfl, hz⟩ := good_avg_iff.mp h
    rfl
  · obtain ⟨q, m, v, rfl, hq, rfl, hz, hd⟩ := good_dev_iff.mp h
    simp only [leafMul, fin_one_mul]
  · obtain ⟨q, a, rfl, hq, rfl, hz⟩ := good_min_iff.mp h
    rfl
  · obtain ⟨q, a, rfl, hq, rfl, hz⟩ := good_max_iff.mp h
    rfl
  · obtain ⟨q, a, rfl, hq, rfl, hz, hs⟩ := good_bag_iff.mp h
    simp [leafMul]

theorem devV_self {q : Rat} (hq : 0 < q) {m v : Val} (d : DevOk m v) :
    devV q m v q m v = fin 2 * v := by
  have hqq : q + q ≠ 0 := by linarith
  rcases d with ⟨a, b, rfl, rfl⟩ | ⟨_, rfl⟩
  · rw [devV_fin hqq, fin_mul_fin]
    congr 1
    field_simp
    ring
  · simp

theorem leafMul_two_aux (k : Kind) (hk : k.isLeaf = true) {e : Val} {s : St}
    (h : leafGoodCore k e s = true) :
    (fin 2 * e, leafMul k s (fin 2)) = leafAdd k e s e s := by
  rcases leafGood_cases h with ⟨rfl, rfl⟩ | ⟨q, rfl, hq⟩
  · rw [leafAdd_zero_left' k _ _ hk h, leafMul_zero]; simp
  · rw [fin_two_mul]
    cases k <;> simp [Kind.isLeaf] at hk
    · cases good_count_pos h
      simp [leafAdd, leafMul]
    · obtain ⟨a, rfl⟩ := good_sum_pos h
      simp [leafAdd, leafMul, fin_two_mul]
    · obtain ⟨a, rfl⟩ := good_avg_pos h
      rw [leafAdd_avg_pos hq hq, wmean_self hq]
      rfl
    · obtain ⟨m, v, rfl, d⟩ := good_dev_pos hq h
      rw [leafAdd_dev_pos hq hq, wmean_self hq, devV_self hq d]
      rfl
    · obtain ⟨a, rfl⟩ := good_min_pos h
      simp [leafAdd, leafMul]
    · obtain ⟨a, rfl⟩ := good_max_pos h
      simp [leafAdd, leafMul]
    · obtain ⟨a, rfl, sa⟩ := good_bag_pos h
      simp [leafAdd, leafMul, bagMerge_self sa, fin_two_mul]

/-! ### faults do not depend on the state -/

theorem leafFill_ok_indep_aux (k : Kind) (e1 : Val) (s1 : St) (e2 : Val) (s2 : St) (d : Datum) (w : Val)
    (h1 : leafGoodCore k e1 s1 = true) (h2 : leafGoodCore k e2 s2 = true) :
    (leafFill k e1 s1 d w).toBool = (leafFill k e2 s2 d w).toBool := by
  have f1 : St.fits k s1 = true := by
    simp only [leafGoodCore, Bool.and_eq_true] at h1; exact h1.1
  have f2 : St.fits k s2 = true := by
    simp only [leafGoodCore, Bool.and_eq_true] at h2; exact h2.1
  cases k <;> cases s1 <;> simp [St.fits, Kind.isLeaf] at f1 <;>
    cases s2 <;> simp [St.fits, Kind.isLeaf] at f2 <;> simp only [leafFill]
  all_goals first
    | rfl
    | (rename_i qy _ _; cases qy.evalNum d <;> rfl)
    | (rename_i qy _ _ _ _; cases qy.evalNum d <;> rfl)
    | (rename_i qy r _ _; cases qy.evalBag r d <;> rfl)

end Hg
