/-
  Hg.Proofs.DenoteLaws — C02: after any stream of fills, the tree equals the closed-form specification
  `denote` (Hg.Model.Denote) of the multiset of records.
-/
import Hg.Model.Denote
import Hg.Proofs.All
import Hg.Proofs.DenoteTree
import Hg.Proofs.DenotePerm

namespace Hg

/-- **fill computes the specification.**  For every empty live tree `z` (all 19 primitives, any
nesting) and every stream `s` that is a good run (no quantity raises; every weight is finite or does
not pass the gate), the aggregate after filling `s` record by record is `denote z s`. -/
theorem fillAll_eq_denote (z : Agg) (s : List (Datum × Val))
    (hz : isZeroTree z = true) (ht : hasTmpl z = true) (hn : noBins z = true)
    (hrun : goodRun z s = true) :
    fillAll z s = denote z s :=
  Den.main_all z hz ht hn s hrun

set_option linter.unusedVariables false in
/-- the specification depends on the multiset only (none of the hypotheses on the tree and on the run
is needed: `Den.denote_perm'`) -/
theorem denote_perm (z : Agg) (s s' : List (Datum × Val))
    (hz : isZeroTree z = true) (ht : hasTmpl z = true) (hn : noBins z = true)
    (hrun : goodRun z s = true) (hp : s.Perm s') :
    denote z s' = denote z s :=
  Den.denote_perm' z s s' hp

/-- records that do not pass the weight gate do not matter -/
theorem denote_gated (z : Agg) (s : List (Datum × Val)) : denote z (gated s) = denote z s :=
  Den.denote_gated' z s

end Hg
