/-
  Hg.Proofs.HistoryReload — operation histories that continue after a JSON round trip (C05 / C04).

  Phase 1: any admissible history `ops1` from an empty live tree (fill, fill.numpy, +, +=, *, zero(), copy()).
  Then EVERY aggregator of the pool is serialised and loaded again (`immut`, which `decode ∘ encode` yields by
  `history_roundtrip`).  Phase 2: any history `ops2` of merges, scalings, zero() and copy() on the reloaded pool (a
  reloaded aggregator cannot be filled).  Every aggregator of the final pool satisfies the bookkeeping invariants
  and is well-formed: the reloaded pool behaves exactly like the live one (`stepH` commutes with `immut` for these
  operations).
-/
import Hg.Proofs.HistoryRoundTrip

namespace Hg

/-- the operations available on reloaded aggregators -/
def HOp.noFill : HOp → Bool
  | .fill .. => false
  | .fillnp .. => false
  | _ => true

namespace Reload

/-- admissibility of a non-fill step does not depend on the pool -/
theorem okStep_noFill (p q : List Agg) (op : HOp) (hn : op.noFill = true) : okStep p op = okStep q op := by
  cases op <;> simp [HOp.noFill] at hn <;> rfl

theorem goodStep_noFill (p : List Agg) (op : HOp) (hn : op.noFill = true) : Hist.goodStep p op = true := by
  cases op <;> simp [HOp.noFill] at hn <;> rfl

theorem add_immut_ok {z a b : Agg} (hg : good z = true) (ha : Hist.Ok z a) (hb : Hist.Ok z b) :
    add (immut a) (immut b) = some (immut (addRaw a b)) := by
  rw [add_immut a b ha.good hb.good ha.tmpl hb.tmpl (Hist.ok_sameBase hg ha hb), Hist.add_eq hg ha hb]
  rfl

/-- on a pool derived from `z`, a non-fill operation commutes with the reload of the whole pool -/
theorem step_immut {z : Agg} (hg : good z = true) {pool : List Agg} (hp : ∀ a ∈ pool, Hist.Ok z a) (op : HOp)
    (hn : op.noFill = true) : stepH (pool.map immut) op = (stepH pool op).map immut := by
  cases op with
  | fill i d w => simp [HOp.noFill] at hn
  | fillnp i rows ws => simp [HOp.noFill] at hn
  | add i j =>
    simp only [stepH, List.getElem?_map]
    cases hi : pool[i]? with
    | none => simp
    | some a =>
      cases hj : pool[j]? with
      | none => simp
      | some b =>
        have ha := hp a (List.mem_of_getElem? hi)
        have hb := hp b (List.mem_of_getElem? hj)
        simp only [Option.map_some, add_immut_ok hg ha hb, Hist.add_eq hg ha hb, List.map_append, List.map_cons,
          List.map_nil]
  | iadd i j =>
    simp only [stepH, List.getElem?_map]
    cases hi : pool[i]? with
    | none => simp
    | some a =>
      cases hj : pool[j]? with
      | none => simp
      | some b =>
        have ha := hp a (List.mem_of_getElem? hi)
        have hb := hp b (List.mem_of_getElem? hj)
        simp only [Option.map_some, iadd, add_immut_ok hg ha hb, Hist.add_eq hg ha hb, List.map_set]
  | mul i f =>
    simp only [stepH, List.getElem?_map]
    cases hi : pool[i]? with
    | none => simp
    | some a => simp only [Option.map_some, mul_immut, List.map_append, List.map_cons, List.map_nil]
  | zero i =>
    simp only [stepH, List.getElem?_map]
    cases hi : pool[i]? with
    | none => simp
    | some a => simp only [Option.map_some, zero_immut, List.map_append, List.map_cons, List.map_nil]
  | copy i =>
    simp only [stepH, List.getElem?_map]
    cases hi : pool[i]? with
    | none => simp
    | some a =>
      have ha := hp a (List.mem_of_getElem? hi)
      have hz := Hist.ok_zero hg ha
      simp only [Option.map_some, copy, zero_immut, add_immut_ok hg ha hz, Hist.add_eq hg ha hz, List.map_append,
        List.map_cons, List.map_nil]

/-- a history of non-fill operations on the reloaded pool is the reload of the same history on the live pool, and
every member of the live pool keeps the pool invariant -/
theorem run_immut {z : Agg} (hg : good z = true) : ∀ (ops : List HOp) (pool : List Agg),
    (∀ a ∈ pool, Hist.Ok z a) → ops.all HOp.noFill = true → okRun (pool.map immut) ops = true →
    ops.foldl stepH (pool.map immut) = (ops.foldl stepH pool).map immut ∧ ∀ a ∈ ops.foldl stepH pool, Hist.Ok z a
  | [], _, hp, _, _ => ⟨rfl, hp⟩
  | op :: rest, pool, hp, hnf, hok => by
    simp only [List.all_cons, Bool.and_eq_true] at hnf
    simp only [okRun, Bool.and_eq_true] at hok
    have hs := step_immut hg hp op hnf.1
    have hok1 : okStep pool op = true := by rw [okStep_noFill pool (pool.map immut) op hnf.1]; exact hok.1
    have hp' := Hist.ok_step hg hp op hok1 (goodStep_noFill pool op hnf.1)
    rw [hs] at hok
    simp only [List.foldl_cons, hs]
    exact run_immut hg rest (stepH pool op) hp' hnf.2 hok.2

end Reload

/-- **histories continue after a JSON round trip** -/
theorem history_reload (z : Agg) (ops1 ops2 : List HOp)
    (hz : isZeroTree z = true) (hg : good z = true) (ht : hasTmpl z = true) (hu : uniformT z = true)
    (hok : okRun [z] ops1 = true) (hgf : goodFills [z] ops1 = true)
    (hnf : ops2.all HOp.noFill = true) (hok2 : okRun ((runH z ops1).map immut) ops2 = true) :
    ∀ a ∈ ops2.foldl stepH ((runH z ops1).map immut), inv a = true ∧ good a = true := by
  have hp0 : ∀ a ∈ [z], Hist.Ok z a := by
    intro a ha
    rw [List.mem_singleton.1 ha]
    exact Hist.ok_start z hz hg ht
  have hp1 : ∀ a ∈ runH z ops1, Hist.Ok z a := Hist.ok_run hg ops1 [z] hp0 hok hgf
  obtain ⟨he, hp2⟩ := Reload.run_immut hg ops2 (runH z ops1) hp1 hnf hok2
  intro a ha
  rw [he, List.mem_map] at ha
  obtain ⟨b, hb, rfl⟩ := ha
  have ob := hp2 b hb
  have hub := uniform_of_sameBase z b hg ob.good ht ob.tmpl hu ob.base
  exact ⟨by rw [inv_immut]; exact ob.inv, (good_immut b ob.good hub).1⟩

/- non-vacuity: the history of the `history_roundtrip` guard, then a reload of the whole pool, then merges, a `+=`, a
scaling, `zero()` and `copy()` on the reloaded pool: all hypotheses hold, the second phase appends to the pool, the
reloaded run is the reload of the live run, and every member of the final pool satisfies `inv` and `good` -/
open Hg.Ex in
#guard (let ops1 : List HOp := [.fill 0 [.num (.fin (1/2)), .num (.fin 3)] 1, .fillnp 0 (s2.map (·.1)) (s2.map (·.2)),
    .copy 0, .fillnp 1 (s1.map (·.1)) (s1.map (·.2)), .iadd 0 1, .mul 0 (.fin 2),
    .fillnp 2 ((s1 ++ s2).map (·.1)) ((s1 ++ s2).map (·.2))];
  let ops2 : List HOp := [.add 0 1, .iadd 2 0, .mul 1 (.fin 3), .zero 0, .copy 2, .add 3 4];
  let reloaded := (runH z ops1).map immut;
  let final := ops2.foldl stepH reloaded;
  isZeroTree z && good z && hasTmpl z && uniformT z && okRun [z] ops1 && goodFills [z] ops1 &&
  ops2.all HOp.noFill && okRun reloaded ops2 &&
  reloaded.length == 3 && final.length == 8 && decide (reloaded.length < final.length) &&
  final == (ops2.foldl stepH (runH z ops1)).map immut &&
  final.all (fun a => inv a && good a))

end Hg
