/-
  Hg.Proofs.CodecLaws — the JSON codec is lossless and the reloaded container is interchangeable
  with the original (C04).  `good`, `uniform`, `hasTmpl`, `sameBase` are the executable hypotheses
  of Hg.Model.WF / Immut / Live, checked on every state of the correspondence run.

  `decode_encode` / `decode_encode_immut` carry one more executable hypothesis, `knownCtype` (defined
  right below): as originally stated they are false, because `good` + `uniform` do not constrain the
  `contentType` string of a SparselyBin / Categorize that has neither a template nor a bin, and
  `Factory.fromJson` rejects an unregistered `bins:type`.  Counterexample (checked with `#eval`):
    t := .node (.sparse ⟨0, none, true⟩ 1 0 "Foo" none) 0 .unit none [(.nanflow, .node .count 0 .unit none [])]
    good t = true, uniform t = true, decode (encode t) = none.
  `knownCtype_of_hasTmpl` and `knownCtype_immut` show that the hypothesis holds for every live tree
  and for every reload of a live tree.

  Proof files: CodecOps (zero/scale/mul/add), CodecEnc (good_immut, encode_immut, encode_noNull),
  CodecDec / CodecDecK / CodecDecS / CodecDecT / CodecMainL / CodecMain … CodecMain4 (decode ∘ encode,
  one step lemma per primitive).
-/
import Hg.Model.Immut
import Hg.Model.Live
import Hg.Proofs.TreeLaws1
import Hg.Proofs.CodecOps
import Hg.Proofs.CodecEnc
import Hg.Proofs.CodecMain4

namespace Hg


/-! ### `knownCtype` holds on live trees and is preserved by a reload -/

theorem isKnownType_typeName (k : Kind) : isKnownType k.typeName = true := by
  cases k <;> (show isKnownType _ = true) <;> simp only [Kind.typeName] <;> decide

mutual
theorem knownCtype_of_hasTmpl : ∀ (t : Agg), good t = true → hasTmpl t = true → knownCtype t = true
  | .node k e st tmpl kids => by
    intro hg ht
    have hgk : goodKids kids = true := by
      simp only [good, Bool.and_eq_true] at hg
      exact hg.1.1.1.2
    have htk : hasTmplKids kids = true := by
      simp only [hasTmpl, Bool.and_eq_true] at ht
      exact ht.2
    have hkids := knownCtypeKids_of_hasTmpl kids hgk htk
    simp only [knownCtype, hkids, Bool.and_true]
    cases k <;> try rfl
    all_goals
      cases tmpl with
      | none => simp [hasTmpl, Kind.isSparse] at ht
      | some t =>
        simp only [good, Bool.and_eq_true, beq_iff_eq] at hg
        rw [hg.2.1]
        exact isKnownType_typeName _
theorem knownCtypeKids_of_hasTmpl : ∀ (l : List (Key × Agg)), goodKids l = true → hasTmplKids l = true →
    knownCtypeKids l = true
  | [] => fun _ _ => rfl
  | (_, a) :: rest => by
    intro hg ht
    simp only [goodKids, Bool.and_eq_true] at hg
    simp only [hasTmplKids, Bool.and_eq_true] at ht
    simp only [knownCtypeKids, knownCtype_of_hasTmpl a hg.1 ht.1,
      knownCtypeKids_of_hasTmpl rest hg.2 ht.2, Bool.and_self]
end

mutual
theorem knownCtype_immut : ∀ (t : Agg), knownCtype (immut t) = knownCtype t
  | .node k e st tmpl kids => by
    simp only [immut, knownCtype, knownCtypeKids_immut kids]
    cases k <;> rfl
theorem knownCtypeKids_immut : ∀ (l : List (Key × Agg)), knownCtypeKids (immutKids l) = knownCtypeKids l
  | [] => rfl
  | (_, a) :: rest => by
    simp only [immutKids, knownCtypeKids, knownCtype_immut a, knownCtypeKids_immut rest]
end

/-! ### decode ∘ encode -/

theorem knownCtypeKids_mem (l : List (Key × Agg)) (h : knownCtypeKids l = true) :
    ∀ p ∈ l, knownCtype p.2 = true := by
  induction l with
  | nil => intro p hp; cases hp
  | cons q l ih =>
    obtain ⟨k, a⟩ := q
    simp only [knownCtypeKids, Bool.and_eq_true] at h
    intro p hp
    rcases List.mem_cons.1 hp with rfl | hp
    · exact h.1
    · exact ih h.2 p hp

theorem knownCtype_ok : CodecAux.CtypeOK (fun t => knownCtype t = true) where
  kids := by
    intro k e st tmpl kids h
    simp only [knownCtype, Bool.and_eq_true] at h
    exact knownCtypeKids_mem kids h.2
  sparse := by
    intro q w o c n e st tmpl kids h
    simp only [knownCtype, Bool.and_eq_true] at h
    exact h.1
  cat := by
    intro q c n e st tmpl kids h
    simp only [knownCtype, Bool.and_eq_true] at h
    exact h.1

/-- The fragment-level round trip: a fragment written with `suppressName = s` and read back with the
parent-supplied name `pn` (the bins' common name when `s = true`, `none` for flows and collection
members) gives back the immutable form, for every fuel bounding the nesting depth of the fragment. -/
theorem decodeFrag_encodeFrag (fuel : Nat) : CodecAux.DecOK (fun t => knownCtype t = true) fuel := by
  induction fuel with
  | zero =>
    intro t s pn _ _ _ _ hd
    have := CodecAux.depth_pos (encodeFrag t s)
    omega
  | succ fuel IH =>
    intro t s pn hg hu hk hn hd
    obtain ⟨k, e, st, tmpl, kids⟩ := t
    have HK := knownCtype_ok
    cases k with
    | count => exact CodecAux.step_count fuel e st tmpl kids s pn hg
    | sum q => exact CodecAux.step_sum fuel q e st tmpl kids s pn hg hn
    | average q => exact CodecAux.step_average fuel q e st tmpl kids s pn hg hn
    | deviate q => exact CodecAux.step_deviate fuel q e st tmpl kids s pn hg hn
    | minimize q => exact CodecAux.step_minimize fuel q e st tmpl kids s pn hg hn
    | maximize q => exact CodecAux.step_maximize fuel q e st tmpl kids s pn hg hn
    | bag q r => exact CodecAux.step_bag fuel q r e st tmpl kids s pn hg hn
    | bin q n low high => exact CodecAux.step_bin _ HK fuel IH q n low high e st tmpl kids s pn hg hu hk hn hd
    | sparse q w o c n => exact CodecAux.step_sparse _ HK fuel IH q w o c n e st tmpl kids s pn hg hu hk hn hd
    | central q => exact CodecAux.step_central _ HK fuel IH q e st tmpl kids s pn hg hu hk hn hd
    | irregular q => exact CodecAux.step_irregular _ HK fuel IH q e st tmpl kids s pn hg hu hk hn hd
    | stack q => exact CodecAux.step_stack _ HK fuel IH q e st tmpl kids s pn hg hu hk hn hd
    | fraction q => exact CodecAux.step_fraction _ HK fuel IH q e st tmpl kids s pn hg hu hk hn hd
    | select q => exact CodecAux.step_select _ HK fuel IH q e st tmpl kids s pn hg hu hk hn hd
    | categorize q c n => exact CodecAux.step_categorize _ HK fuel IH q c n e st tmpl kids s pn hg hu hk hn hd
    | label => exact CodecAux.step_label _ HK fuel IH e st tmpl kids s pn hg hu hk hd
    | untypedLabel => exact CodecAux.step_untypedLabel _ HK fuel IH e st tmpl kids s pn hg hu hk hd
    | index => exact CodecAux.step_index _ HK fuel IH e st tmpl kids s pn hg hu hk hd
    | branch => exact CodecAux.step_branch _ HK fuel IH e st tmpl kids s pn hg hu hk hd

theorem versionOk_spec : versionOk specVersion = true := by cbv

/-- `Factory.fromJson(h.toJson())` is the immutable form of `h`: nothing is lost, and what comes back
is exactly `h` without its quantity functions and templates.
(Corrected statement: the extra hypothesis `knownCtype t` is needed, see the header.) -/
theorem decode_encode (t : Agg) (hg : good t = true) (hu : uniform t = true) (hk : knownCtype t = true) :
    decode (encode t) = some (immut t) := by
  have hkeys : Json.hasKeys [("type", Json.str t.typeName), ("data", encodeFrag t false),
      ("version", Json.str specVersion)] ["type", "data", "version"] [] = true := rfl
  have g1 : Json.get? "version" [("type", Json.str t.typeName), ("data", encodeFrag t false),
      ("version", Json.str specVersion)] = some (.str specVersion) := rfl
  have g2 : Json.get? "type" [("type", Json.str t.typeName), ("data", encodeFrag t false),
      ("version", Json.str specVersion)] = some (.str t.typeName) := rfl
  have g3 : Json.get? "data" [("type", Json.str t.typeName), ("data", encodeFrag t false),
      ("version", Json.str specVersion)] = some (encodeFrag t false) := rfl
  have hty : isKnownType t.typeName = true := isKnownType_typeName _
  simp only [decode, encode, hkeys, g1, g2, g3, versionOk_spec, hty]
  exact decodeFrag_encodeFrag _ t false none hg hu hk (Or.inr ⟨rfl, rfl⟩) (Nat.le_succ _)

/-- `decode_encode` for live trees (every sparse container still has its template): the original
hypotheses suffice. -/
theorem decode_encode_live (t : Agg) (hg : good t = true) (hu : uniform t = true) (ht : hasTmpl t = true) :
    decode (encode t) = some (immut t) :=
  decode_encode t hg hu (knownCtype_of_hasTmpl t hg ht)

/-- the reloaded container re-serialises to the identical document -/
theorem encode_immut (t : Agg) (hg : good t = true) (hu : uniform t = true) :
    encode (immut t) = encode t :=
  CodecAux.encode_immut t hg hu

/-- the document contains no `null` (and no non-finite number: `Json.num` holds a rational), so
`json.dumps(..., allow_nan=False)` can emit it -/
theorem encode_noNull (t : Agg) (hg : good t = true) (hu : uniform t = true) :
    (encode t).noNull = true :=
  CodecAux.encode_noNull t hg hu

theorem good_immut (t : Agg) (hg : good t = true) (hu : uniform t = true) :
    good (immut t) = true ∧ uniform (immut t) = true :=
  CodecAux.good_immut t hg hu

/-! the reloaded container is interchangeable with the original under zero(), *, + -/

theorem zero_immut (t : Agg) : zero (immut t) = immut (zero t) :=
  CodecAux.zero_immut t

theorem scale_immut (t : Agg) (f : Val) : scale (immut t) f = immut (scale t f) :=
  CodecAux.scale_immut t f

theorem mul_immut (t : Agg) (f : Val) : mul (immut t) f = immut (mul t f) :=
  CodecAux.mul_immut t f

theorem addRaw_immut (a b : Agg) : addRaw (immut a) (immut b) = immut (addRaw a b) :=
  CodecAux.addRaw_immut a b

theorem add_immut (a b : Agg) (ha : good a = true) (hb : good b = true)
    (hta : hasTmpl a = true) (htb : hasTmpl b = true) (h : sameBase a b = true) :
    add (immut a) (immut b) = (add a b).map immut :=
  CodecAux.add_immut a b ha hb hta htb h

/-- a second round trip changes nothing
(corrected statement: extra hypothesis `knownCtype t`, as for `decode_encode`) -/
theorem decode_encode_immut (t : Agg) (hg : good t = true) (hu : uniform t = true) (hk : knownCtype t = true) :
    decode (encode (immut t)) = some (immut t) := by
  rw [encode_immut t hg hu]
  exact decode_encode t hg hu hk

/-- `decode_encode_immut` for live trees: the original hypotheses suffice. -/
theorem decode_encode_immut_live (t : Agg) (hg : good t = true) (hu : uniform t = true)
    (ht : hasTmpl t = true) : decode (encode (immut t)) = some (immut t) :=
  decode_encode_immut t hg hu (knownCtype_of_hasTmpl t hg ht)

end Hg
