/-
  Hg.Proofs.NpTree3 — facts about `route`, the bridge between `maskFor` (vectorised side) and
  `maskS` (row-wise side), and the characterisation of `batchKeys`.
-/
import Hg.Proofs.NpTree2

namespace Hg.Np

/-! ### `route` -/

theorem centralPick_some (x : Val) : ∀ (l : List Rat), l ≠ [] → ∃ c, centralPick x l = some c
  | [], h => absurd rfl h
  | [c], _ => ⟨c, rfl⟩
  | c :: c' :: rest, _ => by
    rw [centralPick]
    split
    · exact ⟨c, rfl⟩
    · exact centralPick_some x (c' :: rest) (by simp)

theorem centersOf_ne_nil {keys : List Key} {q : Qty} (h : (Kind.central q).layoutOk keys = true) :
    centersOf keys ≠ [] := by
  simp only [Kind.layoutOk] at h
  split at h
  · next rest =>
    simp only [Bool.and_eq_true, decide_eq_true_eq] at h
    obtain ⟨⟨h1, h2⟩, _⟩ := h
    cases rest with
    | nil => simp at h2
    | cons k1 r =>
      have := h1
      rw [List.all_cons, Bool.and_eq_true] at this
      cases k1 <;> simp [Key.isCtr] at this
      simp [centersOf]
  · cases h

/-- a quantity that evaluates lets the container route (whatever the weight) -/
theorem route_ok_of_evalOk {k : Kind} {keys : List Key} {d : Datum} (hk : k.isLeaf = false)
    (hl : k.layoutOk keys = true) (he : k.evalOk d = true) (w : Val) :
    ∃ tg, route k keys d w = .ok tg := by
  cases k <;> simp only [Kind.isLeaf, Bool.true_eq_false] at hk <;>
    simp only [Kind.evalOk] at he
  case bin q n lo hi =>
    simp only [route, bind, Except.bind, pure, Except.pure]
    cases hx : q.evalNum d with
    | error f => rw [hx] at he; cases he
    | ok x => exact ⟨_, rfl⟩
  case sparse q wd og ct cn =>
    simp only [route, bind, Except.bind, pure, Except.pure]
    cases hx : q.evalNum d with
    | error f => rw [hx] at he; cases he
    | ok x => exact ⟨_, rfl⟩
  case central q =>
    simp only [route, bind, Except.bind, pure, Except.pure]
    cases hx : q.evalNum d with
    | error f => rw [hx] at he; cases he
    | ok x =>
      simp only
      split
      · exact ⟨_, rfl⟩
      · obtain ⟨c, hc⟩ := centralPick_some x _ (centersOf_ne_nil hl)
        rw [hc]
        exact ⟨_, rfl⟩
  case irregular q =>
    simp only [route, bind, Except.bind, pure, Except.pure]
    cases hx : q.evalNum d with
    | error f => rw [hx] at he; cases he
    | ok x =>
      simp only
      split
      · exact ⟨_, rfl⟩
      · split <;> exact ⟨_, rfl⟩
  case stack q =>
    simp only [route, bind, Except.bind, pure, Except.pure]
    cases hx : q.evalNum d with
    | error f => rw [hx] at he; cases he
    | ok x =>
      simp only
      split <;> exact ⟨_, rfl⟩
  case fraction q =>
    simp only [route, bind, Except.bind, pure, Except.pure]
    cases hx : q.evalNum d with
    | error f => rw [hx] at he; cases he
    | ok x => exact ⟨_, rfl⟩
  case select q =>
    simp only [route, bind, Except.bind, pure, Except.pure]
    cases hx : q.evalNum d with
    | error f => rw [hx] at he; cases he
    | ok x => exact ⟨_, rfl⟩
  case categorize q ct cn =>
    cases hr : route (Kind.categorize q ct cn) [] d 1 with
    | error f => rw [hr] at he; cases he
    | ok tg =>
      simp only [route, pure, Except.pure] at hr ⊢
      split at hr
      · cases hr
      · next hlive =>
        rw [if_neg hlive]
        split at hr <;> first | exact ⟨_, rfl⟩ | cases hr
  case label => exact ⟨_, rfl⟩
  case untypedLabel => exact ⟨_, rfl⟩
  case index => exact ⟨_, rfl⟩
  case branch => exact ⟨_, rfl⟩

/-- every target weight is the weight of the row, or a positive multiple `x * w` of it -/
theorem route_weights {k : Kind} {keys : List Key} {d : Datum} {w : Val} {tg : List (Key × Val)}
    (h : route k keys d w = .ok tg) :
    ∀ p ∈ tg, p.2 = w ∨ (p.2.pos = true ∧ ∃ x : Val, p.2 = x * w) := by
  cases k
  case bin q n lo hi =>
    simp only [route, bind, Except.bind, pure, Except.pure] at h
    cases hx : q.evalNum d with
    | error f => rw [hx] at h; cases h
    | ok x =>
      rw [hx] at h; cases h
      intro p hp
      rw [List.mem_singleton] at hp; subst hp
      exact Or.inl rfl
  case sparse q wd og ct cn =>
    simp only [route, bind, Except.bind, pure, Except.pure] at h
    cases hx : q.evalNum d with
    | error f => rw [hx] at h; cases h
    | ok x =>
      rw [hx] at h; cases h
      intro p hp
      rw [List.mem_singleton] at hp; subst hp
      exact Or.inl rfl
  case central q =>
    simp only [route, bind, Except.bind, pure, Except.pure] at h
    cases hx : q.evalNum d with
    | error f => rw [hx] at h; cases h
    | ok x =>
      rw [hx] at h
      simp only at h
      split at h
      · cases h
        intro p hp
        rw [List.mem_singleton] at hp; subst hp
        exact Or.inl rfl
      · split at h
        · cases h
          intro p hp
          rw [List.mem_singleton] at hp; subst hp
          exact Or.inl rfl
        · cases h
  case irregular q =>
    simp only [route, bind, Except.bind, pure, Except.pure] at h
    cases hx : q.evalNum d with
    | error f => rw [hx] at h; cases h
    | ok x =>
      rw [hx] at h
      simp only at h
      split at h
      · cases h
        intro p hp
        rw [List.mem_singleton] at hp; subst hp
        exact Or.inl rfl
      · split at h
        · cases h
          intro p hp
          rw [List.mem_singleton] at hp; subst hp
          exact Or.inl rfl
        · cases h
          intro p hp; cases hp
  case stack q =>
    simp only [route, bind, Except.bind, pure, Except.pure] at h
    cases hx : q.evalNum d with
    | error f => rw [hx] at h; cases h
    | ok x =>
      rw [hx] at h
      simp only at h
      split at h
      · cases h
        intro p hp
        rw [List.mem_singleton] at hp; subst hp
        exact Or.inl rfl
      · cases h
        intro p hp
        rw [List.mem_filterMap] at hp
        obtain ⟨t, _, ht⟩ := hp
        split at ht
        · cases ht; exact Or.inl rfl
        · cases ht
  case fraction q =>
    simp only [route, bind, Except.bind, pure, Except.pure] at h
    cases hx : q.evalNum d with
    | error f => rw [hx] at h; cases h
    | ok x =>
      rw [hx] at h; cases h
      intro p hp
      rw [List.mem_cons] at hp
      rcases hp with rfl | hp
      · exact Or.inl rfl
      · split at hp
        · next hpos =>
          rw [List.mem_singleton] at hp; subst hp
          exact Or.inr ⟨hpos, x, rfl⟩
        · cases hp
  case select q =>
    simp only [route, bind, Except.bind, pure, Except.pure] at h
    cases hx : q.evalNum d with
    | error f => rw [hx] at h; cases h
    | ok x =>
      rw [hx] at h; cases h
      intro p hp
      split at hp
      · next hpos =>
        rw [List.mem_singleton] at hp; subst hp
        exact Or.inr ⟨hpos, x, rfl⟩
      · cases hp
  case categorize q ct cn =>
    simp only [route, pure, Except.pure] at h
    split at h
    · cases h
    · split at h <;> first
        | (cases h
           intro p hp
           rw [List.mem_singleton] at hp; subst hp
           exact Or.inl rfl)
        | cases h
  case label =>
    cases h
    intro p hp
    rw [List.mem_map] at hp
    obtain ⟨key, _, rfl⟩ := hp
    exact Or.inl rfl
  case untypedLabel =>
    cases h
    intro p hp
    rw [List.mem_map] at hp
    obtain ⟨key, _, rfl⟩ := hp
    exact Or.inl rfl
  case index =>
    cases h
    intro p hp
    rw [List.mem_map] at hp
    obtain ⟨key, _, rfl⟩ := hp
    exact Or.inl rfl
  case branch =>
    cases h
    intro p hp
    rw [List.mem_map] at hp
    obtain ⟨key, _, rfl⟩ := hp
    exact Or.inl rfl
  all_goals cases h

/-- routing of a sparse container does not look at the weight -/
theorem route_sparse_weight {k : Kind} (hs : k.isSparse = true) {keys keys' : List Key} {d : Datum}
    {w w' : Val} {key : Key} (h : route k keys d w = .ok [(key, w)]) :
    route k keys' d w' = .ok [(key, w')] := by
  cases k <;> simp only [Kind.isSparse, Bool.false_eq_true] at hs
  case sparse q wd og ct cn =>
    simp only [route, bind, Except.bind, pure, Except.pure] at h ⊢
    cases hx : q.evalNum d with
    | error f => rw [hx] at h; cases h
    | ok x =>
      rw [hx] at h
      simp only at h ⊢
      injection h with h
      injection h with h
      injection h with h1 h2
      rw [h1]
  case categorize q ct cn =>
    simp only [route, pure, Except.pure] at h ⊢
    split at h
    · cases h
    · next hlive =>
      rw [if_neg hlive]
      split at h <;> first
        | (injection h with h
           injection h with h
           injection h with h1 h2
           rw [h1])
        | cases h

/-! ### weights -/

theorem nonNeg_cases {w : Val} (h : (match w with | .fin q => decide (0 ≤ q) | _ => false) = true) :
    w = 0 ∨ (w.pos = true ∧ w.isFin = true) := by
  cases w with
  | fin q =>
    simp only [decide_eq_true_eq] at h
    by_cases h0 : q = 0
    · left; subst h0; rfl
    · right
      have : 0 < q := lt_of_le_of_ne h (Ne.symm h0)
      exact ⟨by simp [Val.pos, Val.lt, this], rfl⟩
  | _ => cases h

theorem nonNegW_cons (w : Val) (ws : List Val) :
    nonNegW (w :: ws) = true ↔
      (match w with | .fin q => decide (0 ≤ q) | _ => false) = true ∧ nonNegW ws = true := by
  unfold nonNegW
  rw [List.all_cons, Bool.and_eq_true]
  exact Iff.rfl

theorem mul_zero_not_pos (x : Val) : (x * (0 : Val)).pos = false := by
  cases x <;> simp [Val.zero_eq, Val.mul_eq, Val.mul, Val.infTimes, Val.pos, Val.lt]

/-- a row mask is zero or positive -/
theorem rowMask_zero_or_pos (k : Kind) (keys : List Key) (key : Key) (d : Datum) (w : Val) :
    rowMask k keys key d w = 0 ∨ (rowMask k keys key d w).pos = true := by
  unfold rowMask
  by_cases hp : w.pos = true
  · rw [if_pos hp]
    cases hr : route k keys d w with
    | error f => exact Or.inl rfl
    | ok tg =>
      show tgW tg key = 0 ∨ (tgW tg key).pos = true
      unfold tgW
      cases hl : lookupK key tg with
      | none => exact Or.inl rfl
      | some w' =>
        right
        rcases route_weights hr _ (P3.lookupK_mem hl) with h | h
        · have h' : w' = w := h
          show w'.pos = true
          rw [h']; exact hp
        · exact h.1
  · rw [if_neg hp]; exact Or.inl rfl

/-- with weight 0 every target receives 0 -/
theorem tgW_zero {k : Kind} {keys : List Key} {d : Datum} {tg : List (Key × Val)}
    (hr : route k keys d 0 = .ok tg) (key : Key) : tgW tg key = 0 := by
  unfold tgW
  cases hl : lookupK key tg with
  | none => rfl
  | some w' =>
    rcases route_weights hr _ (P3.lookupK_mem hl) with h | ⟨h1, x, h2⟩
    · exact h
    · exfalso
      change w'.pos = true at h1
      change w' = x * 0 at h2
      rw [h2, mul_zero_not_pos] at h1
      cases h1

theorem nonNegW_of {m : List Val} (h : ∀ v ∈ m, (v = 0 ∨ v.pos = true) ∧ v.okWeight = true) :
    nonNegW m = true := by
  unfold nonNegW
  rw [List.all_eq_true]
  intro v hv
  obtain ⟨h1, h2⟩ := h v hv
  rcases h1 with rfl | hp
  · rfl
  · obtain ⟨q, rfl, hq⟩ := P3.Val.pos_fin h2 hp
    simp only [decide_eq_true_eq]
    exact le_of_lt hq

/-! ### `maskFor` is `maskS` -/

/-- under non-negative weights and total routing, the vectorised mask is the row-wise mask -/
theorem maskFor_spec (k : Kind) (keys : List Key) (key : Key) :
    ∀ (rows : List Datum) (ws : List Val), rows.length = ws.length → nonNegW ws = true →
      (∀ d ∈ rows, ∀ w, ∃ tg, route k keys d w = .ok tg) →
      ∃ m, maskFor k keys key rows ws = .ok m ∧ rows.length = m.length ∧
        rows.zip m = maskS k keys key (rows.zip ws)
  | [], [], _, _, _ => ⟨[], rfl, rfl, rfl⟩
  | [], _ :: _, h, _, _ => by cases h
  | _ :: _, [], h, _, _ => by cases h
  | d :: rows, w :: ws, hlen, hw, hr => by
    rw [nonNegW_cons] at hw
    obtain ⟨m, hm, hl, hz⟩ := maskFor_spec k keys key rows ws (by simpa using hlen) hw.2
      (fun d' hd' => hr d' (List.mem_cons_of_mem _ hd'))
    obtain ⟨tg, htg⟩ := hr d (List.mem_cons_self ..) w
    refine ⟨tgW tg key :: m, ?_, by simp [hl], ?_⟩
    · unfold maskFor at hm ⊢
      rw [List.zip_cons_cons, List.mapM_cons, hm]
      simp only [htg, bind, Except.bind, pure, Except.pure]
      rfl
    · rw [List.zip_cons_cons, List.zip_cons_cons, maskS_cons, hz]
      congr 2
      show tgW tg key = rowMask k keys key d w
      unfold rowMask
      rcases nonNeg_cases hw.1 with rfl | ⟨hp, _⟩
      · rw [if_neg (by rw [pos_zero]; simp)]
        exact tgW_zero htg key
      · rw [if_pos hp, htg]

/-! ### streams of gated rows -/

theorem fillAll_gated (a : Agg) : ∀ (S : List (Datum × Val)), (∀ p ∈ S, p.2.pos = false) → fillAll a S = a
  | [], _ => rfl
  | p :: S, h => by
    rw [fillAll_cons, P3.fill_gate' a p.1 p.2 (h p (List.mem_cons_self ..))]
    exact fillAll_gated a S (fun q hq => h q (List.mem_cons_of_mem _ hq))

theorem goodRun_gated (a : Agg) (ha : good a = true) :
    ∀ (S : List (Datum × Val)), (∀ p ∈ S, p.2.pos = false) → goodRun a S = true
  | [], _ => ha
  | p :: S, h => by
    rw [goodRun_cons, P3.fill_gate' a p.1 p.2 (h p (List.mem_cons_self ..))]
    exact ⟨ha, okWeight_of_nonpos (h p (List.mem_cons_self ..)), rfl,
      goodRun_gated a ha S (fun q hq => h q (List.mem_cons_of_mem _ hq))⟩

theorem goodRun_okWeight (a : Agg) : ∀ (S : List (Datum × Val)), goodRun a S = true →
    ∀ p ∈ S, p.2.okWeight = true
  | [], _, p, hp => by cases hp
  | q :: S, h, p, hp => by
    obtain ⟨_, h2, _, h4⟩ := (goodRun_cons _ _ _).1 h
    rcases List.mem_cons.1 hp with rfl | hp
    · exact h2
    · exact goodRun_okWeight _ S h4 p hp

theorem maskS_not_hit {k : Kind} (hs : k.isSparse = true) {keys : List Key} {key : Key}
    {S : List (Datum × Val)} (hn : ¬ hit k keys key S) : ∀ p ∈ maskS k keys key S, p.2 = 0 := by
  intro p hp
  unfold maskS at hp
  rw [List.mem_map] at hp
  obtain ⟨q, hq, rfl⟩ := hp
  exact rowMask_nonpos_of_not_hit hs (fun h => hn ⟨q, hq, h⟩)

theorem gated_of_zero {S : List (Datum × Val)} (h : ∀ p ∈ S, p.2 = 0) : ∀ p ∈ S, p.2.pos = false := by
  intro p hp; rw [h p hp]; exact pos_zero

/-- the weights of a masked stream are non-negative as soon as the child's run on it is good -/
theorem nonNegW_mask {k : Kind} {keys : List Key} {key : Key} {rows : List Datum} {ws m : List Val}
    {a : Agg} (hl : rows.length = m.length) (hz : rows.zip m = maskS k keys key (rows.zip ws))
    (hrun : goodRun a (rows.zip m) = true) : nonNegW m = true := by
  apply nonNegW_of
  intro v hv
  obtain ⟨i, hi, rfl⟩ := List.mem_iff_getElem.1 hv
  have hi' : i < rows.length := by omega
  have hmem : (rows[i], m[i]) ∈ rows.zip m := by
    rw [List.mem_iff_getElem]
    exact ⟨i, by simp [hi, hi'], by simp⟩
  refine ⟨?_, goodRun_okWeight a _ hrun _ hmem⟩
  rw [hz] at hmem
  unfold maskS at hmem
  rw [List.mem_map] at hmem
  obtain ⟨q, _, hq⟩ := hmem
  injection hq with _ hq2
  rw [← hq2]
  exact rowMask_zero_or_pos k keys key q.1 q.2

/-! ### `batchKeys` -/

/-- does a sparse container look at a row of weight `w` when it collects the bins to create -/
def consider (k : Kind) (w : Val) : Bool :=
  match k with
  | .categorize .. => true
  | _ => w.pos

/-- the row `p` makes the sparse container touch the bin `key` -/
def touches (k : Kind) (keys : List Key) (key : Key) (p : Datum × Val) : Prop :=
  key ≠ .nanflow ∧ consider k p.2 = true ∧ route k keys p.1 p.2 = .ok [(key, p.2)]

/-- one step of `batchKeys` -/
def bkStep (k : Kind) (keys : List Key) (acc : List Key) (p : Datum × Val) : Except Fault (List Key) := do
  let targets ← route k keys p.1 (if p.2.pos then p.2 else 1)
  let consider := match k with | .categorize .. => true | _ => p.2.pos
  pure (match targets with
    | [(key, _)] => if consider && key != .nanflow && !acc.contains key then acc ++ [key] else acc
    | _ => acc)

theorem batchKeys_eq (k : Kind) (keys : List Key) (rows : List Datum) (ws : List Val) :
    batchKeys k keys rows ws = (rows.zip ws).foldlM (bkStep k keys) [] := rfl

theorem bkStep_eq {k : Kind} (hs : k.isSparse = true) {keys : List Key} {p : Datum × Val} {key0 : Key}
    (hr : route k keys p.1 p.2 = .ok [(key0, p.2)]) (acc : List Key) :
    bkStep k keys acc p =
      .ok (if (consider k p.2 && key0 != .nanflow && !acc.contains key0) = true then acc ++ [key0] else acc) := by
  unfold bkStep
  rw [route_sparse_weight hs (keys' := keys) (w' := if p.2.pos = true then p.2 else 1) hr]
  simp only [bind, Except.bind, pure, Except.pure]
  rfl

theorem batchKeys_spec {k : Kind} (hs : k.isSparse = true) (keys : List Key) :
    ∀ (S : List (Datum × Val)) (acc : List Key), acc.Nodup →
      (∀ p ∈ S, ∀ w, ∃ tg, route k keys p.1 w = .ok tg) →
      ∃ touched, S.foldlM (bkStep k keys) acc = .ok touched ∧ touched.Nodup ∧
        ∀ key, key ∈ touched ↔ key ∈ acc ∨ ∃ p ∈ S, touches k keys key p
  | [], acc, hn, _ => ⟨acc, rfl, hn, fun key => by simp⟩
  | p :: S, acc, hn, hr => by
    obtain ⟨tg, htg⟩ := hr p (List.mem_cons_self ..) p.2
    obtain ⟨key0, rfl, _⟩ := P3.route_sparse hs htg
    rw [List.foldlM_cons, bkStep_eq hs htg]
    simp only [bind, Except.bind]
    set acc' := (if (consider k p.2 && key0 != .nanflow && !acc.contains key0) = true
      then acc ++ [key0] else acc) with hacc'
    have hn' : acc'.Nodup := by
      rw [hacc']
      split
      · next hc =>
        simp only [Bool.and_eq_true, Bool.not_eq_true', List.contains_eq_mem, decide_eq_false_iff_not] at hc
        rw [List.nodup_append]
        refine ⟨hn, by simp, ?_⟩
        intro a ha b hb
        rw [List.mem_singleton] at hb
        subst hb
        intro e; subst e
        exact hc.2 ha
      · exact hn
    obtain ⟨touched, h1, h2, h3⟩ := batchKeys_spec hs keys S acc' hn'
      (fun q hq => hr q (List.mem_cons_of_mem _ hq))
    refine ⟨touched, h1, h2, ?_⟩
    intro key
    rw [h3 key]
    have hmem : key ∈ acc' ↔ key ∈ acc ∨ touches k keys key p := by
      rw [hacc']
      unfold touches
      split
      · next hc =>
        simp only [Bool.and_eq_true, Bool.not_eq_true', List.contains_eq_mem, decide_eq_false_iff_not,
          bne_iff_ne, ne_eq] at hc
        rw [List.mem_append, List.mem_singleton]
        constructor
        · rintro (h | rfl)
          · exact Or.inl h
          · exact Or.inr ⟨hc.1.2, hc.1.1, htg⟩
        · rintro (h | ⟨_, _, h⟩)
          · exact Or.inl h
          · rw [htg] at h
            injection h with h
            injection h with h
            injection h with h
            exact Or.inr h.symm
      · next hc =>
        constructor
        · exact Or.inl
        · rintro (h | ⟨h1, h2, h⟩)
          · exact h
          · rw [htg] at h
            injection h with h
            injection h with h
            injection h with h
            subst h
            by_contra hcon
            apply hc
            simp only [Bool.and_eq_true, Bool.not_eq_true', List.contains_eq_mem, decide_eq_false_iff_not,
              bne_iff_ne, ne_eq]
            exact ⟨⟨h2, h1⟩, hcon⟩
    rw [hmem]
    constructor
    · rintro ((h | h) | ⟨q, hq, h⟩)
      · exact Or.inl h
      · exact Or.inr ⟨p, List.mem_cons_self .., h⟩
      · exact Or.inr ⟨q, List.mem_cons_of_mem _ hq, h⟩
    · rintro (h | ⟨q, hq, h⟩)
      · exact Or.inl (Or.inl h)
      · rcases List.mem_cons.1 hq with rfl | hq
        · exact Or.inl (Or.inr h)
        · exact Or.inr ⟨q, hq, h⟩

/-- a positive row routed to `key` makes `key` a touched bin -/
theorem touches_of_hit1 {k : Kind} {keys : List Key} {key : Key} {p : Datum × Val}
    (h : hit1 k keys key p.1 p.2) (hne : key ≠ .nanflow) : touches k keys key p := by
  refine ⟨hne, ?_, h.2.2⟩
  unfold consider
  have := h.2.1
  split
  · rfl
  · exact this

end Hg.Np
