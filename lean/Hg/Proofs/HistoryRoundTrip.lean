/-
  Hg.Proofs.HistoryRoundTrip — every state reachable by an operation history serialises to a document that loads
  back as its immutable form, and the loaded aggregator satisfies the bookkeeping invariants (C04 with C05).

  `uniform` (Hg.Model.Immut: the bins of one container share a type and a quantity name, which is what the JSON
  format can express) is a hypothesis of the codec theorems; here it is shown to hold in every reachable state of a
  history that starts from an empty tree that is uniform *through its templates* (`uniformT`), because every
  reachable state has the static structure of that tree (`sameBase`).

  `uniform z` alone does not suffice (`RoundTrip.Counter` below): `uniform` does not look into the templates of
  sparse containers, and the bins a fill creates are copies of the template.  An empty `SparselyBin` whose template
  is a `Label` of a `Count` and a `Sum` is `uniform` (it has no bins), `good`, `hasTmpl`, `noBins`, but its state
  after one fill holds a bin that is not `uniform`, and the document of that state does not load back.  (The real
  library cannot build such a template: the constructor of `Label` rejects members of different types.)
-/
import Hg.Proofs.HistoryLaws
import Hg.Proofs.CodecLaws
import Hg.Proofs.InvImmut
import Hg.Props.Examples

namespace Hg


namespace RoundTrip

/-! ### unfolding -/

theorem uniformTKids_iff : ∀ (l : List (Key × Agg)), uniformTKids l = true ↔ ∀ p ∈ l, uniformT p.2 = true
  | [] => by simp [uniformTKids]
  | (k, a) :: r => by
    simp only [uniformTKids, Bool.and_eq_true, List.forall_mem_cons, uniformTKids_iff r]

theorem uniformT_node (k : Kind) (e : Val) (st : St) (tmpl : Option Agg) (kids : List (Key × Agg)) :
    uniformT (.node k e st tmpl kids) = true ↔
      uniform (.node k e st tmpl kids) = true ∧ (∀ t, tmpl = some t → uniformT t = true) ∧
      (∀ p ∈ kids, uniformT p.2 = true) := by
  simp only [uniformT, Bool.and_eq_true, uniformTKids_iff, and_assoc]
  have h2 : uniformTOpt tmpl = true ↔ ∀ t, tmpl = some t → uniformT t = true := by
    cases tmpl <;> simp [uniformTOpt]
  rw [h2]

theorem uniform_of_uniformT (a : Agg) (h : uniformT a = true) : uniform a = true := by
  obtain ⟨k, e, st, tmpl, kids⟩ := a
  exact ((uniformT_node k e st tmpl kids).1 h).1

/-- the clause of `uniform` about the node itself -/
def uniformLocal (k : Kind) (kids : List (Key × Agg)) : Bool :=
  match k with
  | .bin .. | .central _ | .irregular _ | .stack _ =>
      (match binsOf kids with
       | [] => true
       | p :: rest => rest.all (fun r => r.2.typeName == p.2.typeName && r.2.qtyName == p.2.qtyName))
  | .fraction _ =>
      (match lookupK .num kids, lookupK .den kids with
       | some n, some d => n.typeName == d.typeName && n.qtyName == d.qtyName
       | _, _ => false)
  | .sparse _ _ _ ctype cname | .categorize _ ctype cname =>
      (binsOf kids).all (fun r => r.2.typeName == ctype && r.2.qtyName == cname)
  | .label | .index =>
      (match kids with
       | [] => false
       | p :: rest => rest.all (fun r => sameTypeAs p.2 r.2))
  | _ => true

theorem uniformKids_iff : ∀ (l : List (Key × Agg)), uniformKids l = true ↔ ∀ p ∈ l, uniform p.2 = true
  | [] => by simp [uniformKids]
  | (k, a) :: r => by
    simp only [uniformKids, Bool.and_eq_true, List.forall_mem_cons, uniformKids_iff r]

theorem uniform_node (k : Kind) (e : Val) (st : St) (tmpl : Option Agg) (kids : List (Key × Agg)) :
    uniform (.node k e st tmpl kids) = true ↔
      (∀ p ∈ kids, uniform p.2 = true) ∧ uniformLocal k kids = true := by
  rw [← uniformKids_iff]
  have h : uniform (.node k e st tmpl kids) = (uniformKids kids && uniformLocal k kids) := by
    cases k <;> simp only [uniform, uniformLocal] <;> rfl
  rw [h, Bool.and_eq_true]

/-! ### the local clause depends on the keys and kinds of the children only -/

/-- a bare node of a given kind -/
def stub (k : Kind) : Agg := .node k 0 .unit none []

def stubs (l : List (Key × Agg)) : List (Key × Agg) := l.map (fun p => (p.1, stub p.2.kind))

theorem stub_typeName (a : Agg) : (stub a.kind).typeName = a.typeName := rfl
theorem stub_qtyName (a : Agg) : (stub a.kind).qtyName = a.qtyName := rfl
theorem stub_sameTypeAs (a b : Agg) : sameTypeAs (stub a.kind) (stub b.kind) = sameTypeAs a b := rfl

theorem binsOf_stubs (l : List (Key × Agg)) : binsOf (stubs l) = stubs (binsOf l) := by
  induction l with
  | nil => rfl
  | cons p r ih =>
    obtain ⟨k, a⟩ := p
    have ih' : List.filter (fun p : Key × Agg => match p.1 with | .under | .over | .nanflow => false | _ => true)
        (stubs r) = stubs (binsOf r) := ih
    cases k <;> simp [binsOf, stubs] <;> exact ih'

theorem lookupK_stubs (key : Key) (l : List (Key × Agg)) :
    lookupK key (stubs l) = (lookupK key l).map (fun a => stub a.kind) := by
  induction l with
  | nil => rfl
  | cons p r ih =>
    obtain ⟨k, a⟩ := p
    have ih' : lookupK key (List.map (fun p : Key × Agg => (p.1, stub p.2.kind)) r) =
        (lookupK key r).map (fun a => stub a.kind) := ih
    simp only [stubs, List.map_cons, lookupK]
    by_cases hk : k = key
    · simp [hk]
    · simp [hk, ih']

theorem all_stubs (f : Agg → Bool) (g : Agg → Bool) (hf : ∀ a, f (stub a.kind) = g a) (l : List (Key × Agg)) :
    (stubs l).all (fun r => f r.2) = l.all (fun r => g r.2) := by
  induction l with
  | nil => rfl
  | cons p r ih =>
    have ih' : (List.map (fun p : Key × Agg => (p.1, stub p.2.kind)) r).all (fun r => f r.2) =
        r.all (fun r => g r.2) := ih
    simp only [stubs, List.map_cons, List.all_cons, hf, ih']

theorem binsClause_stubs (l : List (Key × Agg)) :
    (match stubs l with
     | [] => true
     | p :: rest => rest.all (fun r => r.2.typeName == p.2.typeName && r.2.qtyName == p.2.qtyName)) =
    (match l with
     | [] => true
     | p :: rest => rest.all (fun r => r.2.typeName == p.2.typeName && r.2.qtyName == p.2.qtyName)) := by
  cases l with
  | nil => rfl
  | cons p rest =>
    obtain ⟨key, a⟩ := p
    exact all_stubs (fun b => b.typeName == (stub a.kind).typeName && b.qtyName == (stub a.kind).qtyName)
      (fun b => b.typeName == a.typeName && b.qtyName == a.qtyName) (fun b => rfl) rest

theorem labelClause_stubs (l : List (Key × Agg)) :
    (match stubs l with
     | [] => false
     | p :: rest => rest.all (fun r => sameTypeAs p.2 r.2)) =
    (match l with
     | [] => false
     | p :: rest => rest.all (fun r => sameTypeAs p.2 r.2)) := by
  cases l with
  | nil => rfl
  | cons p rest =>
    obtain ⟨key, a⟩ := p
    exact all_stubs (fun b => sameTypeAs (stub a.kind) b) (fun b => sameTypeAs a b) (fun b => rfl) rest

theorem uniformLocal_stubs (k : Kind) (l : List (Key × Agg)) : uniformLocal k (stubs l) = uniformLocal k l := by
  have hsp : ∀ (ctype : String) (cname : Option String),
      (binsOf (stubs l)).all (fun r => r.2.typeName == ctype && r.2.qtyName == cname) =
      (binsOf l).all (fun r => r.2.typeName == ctype && r.2.qtyName == cname) := by
    intro ctype cname
    rw [binsOf_stubs]
    exact all_stubs (fun b => b.typeName == ctype && b.qtyName == cname) _ (fun b => rfl) _
  have hb := binsClause_stubs (binsOf l)
  rw [← binsOf_stubs] at hb
  cases k <;> simp only [uniformLocal]
  case bin => exact hb
  case central => exact hb
  case irregular => exact hb
  case stack => exact hb
  case sparse => exact hsp _ _
  case categorize => exact hsp _ _
  case label => exact labelClause_stubs l
  case index => exact labelClause_stubs l
  case fraction =>
    rw [lookupK_stubs, lookupK_stubs]
    cases lookupK Key.num l <;> cases lookupK Key.den l <;> rfl

/-! ### `sameBase` preserves the kind, hence the local clause of fixed layouts -/

theorem sameBase_kind (a b : Agg) (h : sameBase a b = true) : a.kind = b.kind := by
  obtain ⟨k1, e1, s1, t1, kids1⟩ := a
  obtain ⟨k2, e2, s2, t2, kids2⟩ := b
  exact ((sameBase_node _ _ _ _ _ _ _ _ _ _).1 h).1

theorem stubs_of_sameBaseZip : ∀ (l1 l2 : List (Key × Agg)), sameBaseZip l1 l2 = true → stubs l1 = stubs l2
  | [], [], _ => rfl
  | [], _ :: _, h => by simp [sameBaseZip] at h
  | _ :: _, [], h => by simp [sameBaseZip] at h
  | (k1, a) :: r1, (k2, b) :: r2, h => by
    simp only [sameBaseZip, Bool.and_eq_true, decide_eq_true_eq] at h
    obtain ⟨⟨rfl, hab⟩, hr⟩ := h
    have ih : List.map (fun p : Key × Agg => (p.1, stub p.2.kind)) r1 =
        List.map (fun p : Key × Agg => (p.1, stub p.2.kind)) r2 := stubs_of_sameBaseZip r1 r2 hr
    simp only [stubs, List.map_cons, sameBase_kind a b hab, ih]

theorem uniformLocal_of_sameBaseZip (k : Kind) (l1 l2 : List (Key × Agg)) (h : sameBaseZip l1 l2 = true) :
    uniformLocal k l2 = uniformLocal k l1 := by
  rw [← uniformLocal_stubs k l1, ← uniformLocal_stubs k l2, stubs_of_sameBaseZip l1 l2 h]

theorem mem_of_mem_binsOf {l : List (Key × Agg)} {r : Key × Agg} (h : r ∈ binsOf l) :
    r ∈ l ∧ r.1 ≠ .nanflow := by
  simp only [binsOf, List.mem_filter] at h
  refine ⟨h.1, ?_⟩
  intro hk
  rw [hk] at h
  simp at h

/-- the local clause of a sparse container whose bins follow the template named by `ctype` / `cname` -/
theorem uniformLocal_sparse (k : Kind) (hk : k.isSparse = true) (tm : Agg) (kids : List (Key × Agg))
    (hct : ctypeOk k (some tm) = true)
    (hb : ∀ p ∈ kids, p.1 ≠ .nanflow → sameBase tm p.2 = true) : uniformLocal k kids = true := by
  have key : ∀ (ctype : String) (cname : Option String), ctype = tm.typeName → cname = tm.qtyName →
      (binsOf kids).all (fun r => r.2.typeName == ctype && r.2.qtyName == cname) = true := by
    intro ctype cname h1 h2
    rw [List.all_eq_true]
    intro r hr
    obtain ⟨hr1, hr2⟩ := mem_of_mem_binsOf hr
    have hkd := sameBase_kind tm r.2 (hb r hr1 hr2)
    simp only [Bool.and_eq_true, beq_iff_eq, h1, h2, Agg.typeName, Agg.qtyName, hkd]
    exact ⟨trivial, trivial⟩
  cases k <;> simp only [Kind.isSparse, Bool.false_eq_true] at hk
  case sparse q w o c n =>
    simp only [ctypeOk, Bool.and_eq_true, beq_iff_eq] at hct
    simp only [uniformLocal]
    exact key c n hct.1 hct.2
  case categorize q c n =>
    simp only [ctypeOk, Bool.and_eq_true, beq_iff_eq] at hct
    simp only [uniformLocal]
    exact key c n hct.1 hct.2

/-! ### the induction -/

theorem uniformT_of_sameBase (z : Agg) : ∀ (a : Agg), good z = true → good a = true → hasTmpl a = true →
    uniformT z = true → sameBase z a = true → uniformT a = true := by
  induction z using Agg.ind with
  | h k e st tmpl kids iht ihk =>
    intro a hgz hga hta hu hs
    have hsym := sameBase_symm _ _ hgz hga hs
    obtain ⟨k2, e2, st2, tmpl2, kids2⟩ := a
    obtain ⟨rfl, rfl, hsp, hfx⟩ := (sameBase_node _ _ _ _ _ _ _ _ _ _).1 hs
    obtain ⟨_, _, hsp', _⟩ := (sameBase_node _ _ _ _ _ _ _ _ _ _).1 hsym
    obtain ⟨_, _, hgk1, hgt1, _, _⟩ := (good_node _ _ _ _ _).1 hgz
    obtain ⟨_, _, hgk2, _, _, hct2⟩ := (good_node _ _ _ _ _).1 hga
    obtain ⟨hts, _, htk2⟩ := (hasTmpl_node _ _ _ _ _).1 hta
    obtain ⟨huz, hut, huk⟩ := (uniformT_node _ _ _ _ _).1 hu
    obtain ⟨_, hul⟩ := (uniform_node _ _ _ _ _).1 huz
    -- the children
    have hkids : ∀ p ∈ kids2, uniformT p.2 = true := by
      intro p' hp'
      cases hk : k.isSparse with
      | false =>
        obtain ⟨p, hp, _, hpp⟩ := mem_right_of_sameBaseZip (hfx hk) hp'
        exact ihk p hp p'.2 (hgk1 p hp) (hgk2 p' hp') (htk2 p' hp') (huk p hp) hpp
      | true =>
        by_cases hn : p'.1 = .nanflow
        · obtain ⟨b, hb1, hb2⟩ := (sameBaseFlow_iff _ _).1 (hsp' hk).1 p' hp' hn
          have hbm := lookupK_mem hb1
          exact ihk _ hbm p'.2 (hgk1 _ hbm) (hgk2 p' hp') (htk2 p' hp') (huk _ hbm)
            (sameBase_symm _ _ (hgk2 p' hp') (hgk1 _ hbm) hb2)
        · obtain ⟨tm, rfl⟩ := hts hk
          have hb := (sameBaseTmpl_iff _ _).1 (hsp hk).2.2 tm rfl p' hp' hn
          exact iht tm rfl p'.2 ((goodTmpl_iff _).1 hgt1 tm rfl).1 (hgk2 p' hp') (htk2 p' hp') (hut tm rfl) hb
    refine (uniformT_node _ _ _ _ _).2 ⟨(uniform_node _ _ _ _ _).2 ⟨?_, ?_⟩, hut, hkids⟩
    · exact fun p hp => uniform_of_uniformT _ (hkids p hp)
    · cases hk : k.isSparse with
      | false => rw [uniformLocal_of_sameBaseZip k kids kids2 (hfx hk)]; exact hul
      | true =>
        obtain ⟨tm, rfl⟩ := hts hk
        exact uniformLocal_sparse k hk tm kids2 hct2 ((sameBaseTmpl_iff _ _).1 (hsp hk).2.2 tm rfl)

/-! ### `uniform z` is not enough

`SparselyBin(1, q0, Label(a = Count, b = Sum(q1)))`, empty: the template is not `uniform`, the container is (it has
no bins).  One fill creates a bin that is a filled copy of the template. -/
namespace Counter

def sm : Agg := .node (.sum Ex.q1) 0 (.sum 0) none []
def lbl : Agg := .node .label 0 .unit none [(.lbl "a", Ex.cnt), (.lbl "b", sm)]
def z : Agg := .node (.sparse Ex.q0 1 0 "Label" none) 0 .unit (some lbl) [(.nanflow, Ex.cnt)]
def ops : List HOp := [.fill 0 [.num (.fin (1/2)), .num (.fin 3)] 1]

#guard isZeroTree z && good z && hasTmpl z && noBins z && uniform z && okRun [z] ops && goodFills [z] ops
#guard !uniformT z
#guard (runH z ops).all (fun a => good a && hasTmpl a && sameBase z a && !uniform a &&
  decode (encode a) != some (immut a))

end Counter

end RoundTrip

/-- a state with the static structure of a tree that is uniform through its templates is uniform (through its
templates); `uniform z` instead of `uniformT z` is not enough (`RoundTrip.Counter`) -/
theorem uniformT_of_sameBase (z a : Agg) (hgz : good z = true) (hga : good a = true) (hta : hasTmpl a = true)
    (hu : uniformT z = true) (hs : sameBase z a = true) : uniformT a = true :=
  RoundTrip.uniformT_of_sameBase z a hgz hga hta hu hs

theorem uniform_of_uniformT (a : Agg) (h : uniformT a = true) : uniform a = true :=
  RoundTrip.uniform_of_uniformT a h

/-- a state with the static structure of a tree that is uniform through its templates is uniform -/
theorem uniform_of_sameBase (z a : Agg) (hgz : good z = true) (hga : good a = true)
    (_htz : hasTmpl z = true) (hta : hasTmpl a = true)
    (hu : uniformT z = true) (hs : sameBase z a = true) : uniform a = true :=
  uniform_of_uniformT a (uniformT_of_sameBase z a hgz hga hta hu hs)

/-- **every reachable state round-trips**: after any admissible history from an empty live tree that is uniform
through its templates, every aggregator of the pool serialises to a document that loads as its immutable form, which
is well-formed and satisfies the invariants -/
theorem history_roundtrip (z : Agg) (ops : List HOp)
    (hz : isZeroTree z = true) (hg : good z = true) (ht : hasTmpl z = true) (hu : uniformT z = true)
    (hok : okRun [z] ops = true) (hgf : goodFills [z] ops = true) :
    ∀ a ∈ runH z ops, decode (encode a) = some (immut a) ∧ good (immut a) = true ∧ inv (immut a) = true := by
  intro a ha
  obtain ⟨hi, hga, hs, hta⟩ := inv_history_tmpl z ops hz hg ht hok hgf a ha
  have hua := uniform_of_sameBase z a hg hga ht hta hu hs
  exact ⟨decode_encode_live a hga hua hta, (good_immut a hga hua).1, by rw [Hg.inv_immut]; exact hi⟩

/- non-vacuity: the example tree is uniform through its templates; a history with row-wise fills, vectorised fills, a
copy, `+=` and `*` is admissible, and every member of its final pool round-trips -/
#guard uniformT Ex.z && uniform Ex.z && isZeroTree Ex.z && good Ex.z && hasTmpl Ex.z
open Hg.Ex in
#guard (let ops : List HOp := [.fill 0 [.num (.fin (1/2)), .num (.fin 3)] 1, .fillnp 0 (s2.map (·.1)) (s2.map (·.2)),
    .copy 0, .fillnp 1 (s1.map (·.1)) (s1.map (·.2)), .iadd 0 1, .mul 0 (.fin 2),
    .fillnp 2 ((s1 ++ s2).map (·.1)) ((s1 ++ s2).map (·.2))];
  okRun [z] ops && goodFills [z] ops && (runH z ops).length == 3 &&
  (runH z ops).all (fun a => uniformT a && decode (encode a) == some (immut a) && good (immut a) && inv (immut a)))

end Hg
