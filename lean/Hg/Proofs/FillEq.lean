/-
  Hg.Proofs.FillEq — case-by-case unfolding equations of `fill` at a node.
-/
import Hg.Model.Spec

namespace Hg
namespace FE

variable (k : Kind) (e : Val) (st : St) (tmpl : Option Agg) (kids : List (Key × Agg)) (d : Datum) (w : Val)

theorem fill_closed (h : w.pos = false) :
    fill (.node k e st tmpl kids) d w = (.node k e st tmpl kids, .ok) := by
  simp [fill, h]

theorem fill_leaf_ok (hp : w.pos = true) (hl : k.isLeaf = true) (e' : Val) (st' : St)
    (h : leafFill k e st d w = .ok (e', st')) :
    fill (.node k e st tmpl kids) d w = (.node k e' st' tmpl kids, .ok) := by
  simp [fill, hp, hl, h]

theorem fill_leaf_err (hp : w.pos = true) (hl : k.isLeaf = true) (f : Fault)
    (h : leafFill k e st d w = .error f) :
    fill (.node k e st tmpl kids) d w = (.node k e st tmpl kids, .raised f) := by
  simp [fill, hp, hl, h]

theorem fill_route_err (hp : w.pos = true) (hl : k.isLeaf = false) (f : Fault)
    (hr : route k (keysOf kids) d w = .error f) :
    fill (.node k e st tmpl kids) d w = (.node k e st tmpl kids, .raised f) := by
  simp [fill, hp, hl, hr]

theorem fill_sparse_has (hp : w.pos = true) (hl : k.isLeaf = false) (hs : k.isSparse = true)
    (key : Key) (w' : Val) (hr : route k (keysOf kids) d w = .ok [(key, w')])
    (hh : hasKey key kids = true) :
    fill (.node k e st tmpl kids) d w =
      (.node k (if (fillKids kids [(key, w')] d).2.isOk then e + w else e) st tmpl
        (fillKids kids [(key, w')] d).1, (fillKids kids [(key, w')] d).2) := by
  simp [fill, hp, hl, hr, hs, hh]

theorem fill_sparse_new_ok (hp : w.pos = true) (hl : k.isLeaf = false) (hs : k.isSparse = true)
    (key : Key) (w' : Val) (hr : route k (keysOf kids) d w = .ok [(key, w')])
    (hh : hasKey key kids = false) (nb : Agg) (ht : fillTmpl tmpl d w' = some (nb, .ok)) :
    fill (.node k e st tmpl kids) d w = (.node k (e + w) st tmpl (insertK key nb kids), .ok) := by
  simp [fill, hp, hl, hr, hs, hh, ht]

theorem fill_sparse_new_raised (hp : w.pos = true) (hl : k.isLeaf = false) (hs : k.isSparse = true)
    (key : Key) (w' : Val) (hr : route k (keysOf kids) d w = .ok [(key, w')])
    (hh : hasKey key kids = false) (nb : Agg) (f : Fault) (ht : fillTmpl tmpl d w' = some (nb, .raised f)) :
    fill (.node k e st tmpl kids) d w = (.node k e st tmpl kids, .raised f) := by
  simp [fill, hp, hl, hr, hs, hh, ht]

theorem fill_sparse_new_none (hp : w.pos = true) (hl : k.isLeaf = false) (hs : k.isSparse = true)
    (key : Key) (w' : Val) (hr : route k (keysOf kids) d w = .ok [(key, w')])
    (hh : hasKey key kids = false) (ht : fillTmpl tmpl d w' = none) :
    fill (.node k e st tmpl kids) d w = (.node k e st tmpl kids, .raised .typeErr) := by
  simp [fill, hp, hl, hr, hs, hh, ht]

theorem fill_plain (hp : w.pos = true) (hl : k.isLeaf = false) (targets : List (Key × Val))
    (hr : route k (keysOf kids) d w = .ok targets)
    (hns : k.isSparse = false ∨ ∀ key w', targets ≠ [(key, w')]) :
    fill (.node k e st tmpl kids) d w =
      (.node k (if (fillKids kids targets d).2.isOk then e + w else e) st tmpl
        (fillKids kids targets d).1, (fillKids kids targets d).2) := by
  simp only [fill, hp, hl, hr, Bool.not_true, Bool.false_eq_true, if_false]
  split
  · rename_i key w' hsp
    rcases hns with h | h
    · rw [h] at hsp; cases hsp
    · exact absurd rfl (h key w')
  · rfl

end FE
end Hg
