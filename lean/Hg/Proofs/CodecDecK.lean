/-
  Hg.Proofs.CodecDecK — one "decoding step" lemma per primitive: if the members of the JSON object
  have the expected shape, `decodeFrag (fuel+1) <type> (.obj m)` returns the expected node.
  (Isolates the unfolding of the big `decodeFrag` definition.)
-/
import Hg.Proofs.CodecDec

namespace Hg.CodecAux
open Hg Json

def resolveName (n pn : Option String) : Option String :=
  match n with | some s => some s | none => pn

theorem mapM_congr_fun {α β : Type} (l : List α) (F G : α → Option β) (h : ∀ x, F x = G x) :
    l.mapM F = l.mapM G := by rw [funext h]

/-! ### leaves -/

theorem dec_count (fuel : Nat) (e : Val) (pn : Option String) (hl : Val.lt e 0 = false) :
    decodeFrag (fuel+1) "Count" (Json.ofVal e) pn = some (.node .count e .unit none []) := by
  simp only [decodeFrag, toVal?_ofVal, hl]
  rfl

theorem dec_sum (fuel : Nat) (m : List (String × Json)) (pn : Option String) (e s : Val) (n : Option String)
    (h1 : Json.hasKeys m ["entries", "sum"] ["name"] = true)
    (h2 : entriesOf? m = some e) (h3 : Json.optStr? m "name" = some n)
    (h4 : Json.get? "sum" m = some (Json.ofVal s)) :
    decodeFrag (fuel+1) "Sum" (.obj m) pn =
      some (.node (.sum (deadQty (resolveName n pn))) e (.sum s) none []) := by
  simp only [decodeFrag, h1, h2, h3, h4]
  cases n <;> simp [resolveName, toVal?_ofVal]

theorem dec_avg (fuel : Nat) (m : List (String × Json)) (pn : Option String) (e s : Val) (n : Option String)
    (h1 : Json.hasKeys m ["entries", "mean"] ["name"] = true)
    (h2 : entriesOf? m = some e) (h3 : Json.optStr? m "name" = some n)
    (h4 : Json.get? "mean" m = some (Json.ofVal s)) :
    decodeFrag (fuel+1) "Average" (.obj m) pn =
      some (.node (.average (deadQty (resolveName n pn))) e (.mean s) none []) := by
  simp only [decodeFrag, h1, h2, h3, h4]
  cases n <;> simp [resolveName, toVal?_ofVal]

theorem dec_dev (fuel : Nat) (m : List (String × Json)) (pn : Option String) (e s v : Val) (n : Option String)
    (h1 : Json.hasKeys m ["entries", "mean", "variance"] ["name"] = true)
    (h2 : entriesOf? m = some e) (h3 : Json.optStr? m "name" = some n)
    (h4 : Json.get? "mean" m = some (Json.ofVal s))
    (h5 : Json.get? "variance" m = some (Json.ofVal v)) :
    decodeFrag (fuel+1) "Deviate" (.obj m) pn =
      some (.node (.deviate (deadQty (resolveName n pn))) e (.dev s (v * e)) none []) := by
  simp only [decodeFrag, h1, h2, h3, h4, h5]
  cases n <;> simp [resolveName, toVal?_ofVal]

theorem dec_min (fuel : Nat) (m : List (String × Json)) (pn : Option String) (e s : Val) (n : Option String)
    (h1 : Json.hasKeys m ["entries", "min"] ["name"] = true)
    (h2 : entriesOf? m = some e) (h3 : Json.optStr? m "name" = some n)
    (h4 : Json.get? "min" m = some (Json.ofVal s)) :
    decodeFrag (fuel+1) "Minimize" (.obj m) pn =
      some (.node (.minimize (deadQty (resolveName n pn))) e (.ext s) none []) := by
  simp only [decodeFrag, h1, h2, h3, h4]
  cases n <;> simp [resolveName, toVal?_ofVal]

theorem dec_max (fuel : Nat) (m : List (String × Json)) (pn : Option String) (e s : Val) (n : Option String)
    (h1 : Json.hasKeys m ["entries", "max"] ["name"] = true)
    (h2 : entriesOf? m = some e) (h3 : Json.optStr? m "name" = some n)
    (h4 : Json.get? "max" m = some (Json.ofVal s)) :
    decodeFrag (fuel+1) "Maximize" (.obj m) pn =
      some (.node (.maximize (deadQty (resolveName n pn))) e (.ext s) none []) := by
  simp only [decodeFrag, h1, h2, h3, h4]
  cases n <;> simp [resolveName, toVal?_ofVal]

def bagItem (r : BagRange) (x : Json) : Option (BKey × Val) :=
  match x with
  | .obj nv =>
    if Json.hasKeys nv ["w", "v"] [] = false then none
    else ((Json.get? "w" nv).bind Json.toVal?).bind fun w =>
          ((Json.get? "v" nv).bind (bkeyOf? r)).bind fun v => some (v, w)
  | _ => none

theorem dec_bag (fuel : Nat) (m : List (String × Json)) (pn : Option String) (e : Val) (n : Option String)
    (rs : String) (l : List Json) (vals : List (BKey × Val))
    (h1 : Json.hasKeys m ["entries", "values", "range"] ["name"] = true)
    (h2 : entriesOf? m = some e) (h3 : Json.optStr? m "name" = some n)
    (h4 : Json.get? "range" m = some (.str rs))
    (h5 : Json.get? "values" m = some (.arr l))
    (h6 : l.mapM (bagItem (parseRange rs)) = some vals)
    (h7 : (vals.map (·.1)).Nodup) :
    decodeFrag (fuel+1) "Bag" (.obj m) pn =
      some (.node (.bag (deadQty (resolveName n pn)) (parseRange rs)) e (.bag vals) none []) := by
  simp only [decodeFrag, h1, h2, h3, h4, h5]
  simp
  rw [mapM_congr_fun l _ (bagItem (parseRange rs)) ?_, h6]
  · cases n <;> simp [h7, resolveName]
  · intro x; cases x <;> simp [bagItem]

/-! ### containers -/

theorem dec_bin (fuel : Nat) (m : List (String × Json)) (pn : Option String) (e : Val) (n vn : Option String)
    (low high : Rat) (vt ut ot nt : String) (l : List Json) (vals : List Agg) (ju jo jn : Json) (u o nf : Agg)
    (h1 : Json.hasKeys m ["low", "high", "entries", "values:type", "values", "underflow:type",
            "underflow", "overflow:type", "overflow", "nanflow:type", "nanflow"] ["name", "values:name"] = true)
    (hlow : Json.get? "low" m = some (.num low)) (hhigh : Json.get? "high" m = some (.num high))
    (h2 : entriesOf? m = some e) (h3 : Json.optStr? m "name" = some n)
    (hvt : Json.get? "values:type" m = some (.str vt)) (hvn : Json.optStr? m "values:name" = some vn)
    (hl : Json.get? "values" m = some (.arr l))
    (hvals : l.mapM (fun x => decodeFrag fuel vt x vn) = some vals)
    (hut : Json.get? "underflow:type" m = some (.str ut)) (hju : Json.get? "underflow" m = some ju)
    (hu : decodeFrag fuel ut ju none = some u)
    (hot : Json.get? "overflow:type" m = some (.str ot)) (hjo : Json.get? "overflow" m = some jo)
    (ho : decodeFrag fuel ot jo none = some o)
    (hnt : Json.get? "nanflow:type" m = some (.str nt)) (hjn : Json.get? "nanflow" m = some jn)
    (hnf : decodeFrag fuel nt jn none = some nf)
    (hlt : low < high) (hne : vals ≠ []) :
    decodeFrag (fuel+1) "Bin" (.obj m) pn =
      some (.node (.bin (deadQty (resolveName n pn)) vals.length low high) e .unit none
              ([(.under, u), (.over, o), (.nanflow, nf)] ++ vals.zipIdx.map (fun p => (.pos p.2, p.1)))) := by
  simp only [decodeFrag, h1, h2, h3, hlow, hhigh, hvt, hvn, hl, hut, hju, hot, hjo, hnt, hjn]
  simp [hvals, hu, ho, hnf, hlt, Json.toRat?]
  cases n <;> simp [hne, resolveName]

def sparseItem (fuel : Nat) (bt : String) (bn : Option String) (kv : String × Json) : Option (Key × Agg) :=
  kv.1.toInt?.bind fun i => (decodeFrag fuel bt kv.2 bn).bind fun a => some (Key.idx i, a)

theorem dec_sparse (fuel : Nat) (m : List (String × Json)) (pn : Option String) (e : Val) (n bn : Option String)
    (width origin : Rat) (bt nt : String) (bm : List (String × Json)) (bins : List (Key × Agg)) (jn : Json) (nf : Agg)
    (h1 : Json.hasKeys m ["binWidth", "entries", "bins:type", "bins", "nanflow:type", "nanflow", "origin"]
            ["name", "bins:name"] = true)
    (hw : Json.get? "binWidth" m = some (.num width)) (ho : Json.get? "origin" m = some (.num origin))
    (h2 : entriesOf? m = some e) (h3 : Json.optStr? m "name" = some n)
    (hbt : Json.get? "bins:type" m = some (.str bt)) (hbn : Json.optStr? m "bins:name" = some bn)
    (hb : Json.get? "bins" m = some (.obj bm))
    (hbins : bm.mapM (sparseItem fuel bt bn) = some bins)
    (hnt : Json.get? "nanflow:type" m = some (.str nt)) (hjn : Json.get? "nanflow" m = some jn)
    (hnf : decodeFrag fuel nt jn none = some nf)
    (hwpos : 0 < width) (hk : isKnownType bt = true)
    (hnd : (bins.map (·.1)).Nodup) :
    decodeFrag (fuel+1) "SparselyBin" (.obj m) pn =
      some (.node (.sparse (deadQty (resolveName n pn)) width origin bt bn) e .unit none
              ((.nanflow, nf) :: bins.foldl (fun acc p => insertK p.1 p.2 acc) [])) := by
  simp only [decodeFrag, h1, h2, h3, hw, ho, hbt, hbn, hb, hnt, hjn]
  simp [hnf, hwpos, hk, Json.toRat?]
  rw [mapM_congr_fun bm _ (sparseItem fuel bt bn) ?_, hbins]
  · cases n <;> simp [hnd, resolveName]
  · intro x; simp [sparseItem]

def centralItem (fuel : Nat) (bt : String) (bn : Option String) (x : Json) : Option (Key × Agg) :=
  match x with
  | .obj bp =>
    if Json.hasKeys bp ["center", "data"] [] = false then none
    else ((Json.get? "center" bp).bind Json.toRat?).bind fun c =>
          ((Json.get? "data" bp).bind fun y => decodeFrag fuel bt y bn).bind fun a => some (Key.ctr c, a)
  | _ => none

theorem dec_central (fuel : Nat) (m : List (String × Json)) (pn : Option String) (e : Val) (n bn : Option String)
    (bt nt : String) (l : List Json) (bins : List (Key × Agg)) (jn : Json) (nf : Agg)
    (h1 : Json.hasKeys m ["entries", "bins:type", "bins", "nanflow:type", "nanflow"] ["name", "bins:name"] = true)
    (h2 : entriesOf? m = some e) (h3 : Json.optStr? m "name" = some n)
    (hbt : Json.get? "bins:type" m = some (.str bt)) (hbn : Json.optStr? m "bins:name" = some bn)
    (hb : Json.get? "bins" m = some (.arr l))
    (hbins : l.mapM (centralItem fuel bt bn) = some bins)
    (hnt : Json.get? "nanflow:type" m = some (.str nt)) (hjn : Json.get? "nanflow" m = some jn)
    (hnf : decodeFrag fuel nt jn none = some nf)
    (hlen : 2 ≤ bins.length) :
    decodeFrag (fuel+1) "CentrallyBin" (.obj m) pn =
      some (.node (.central (deadQty (resolveName n pn))) e .unit none ((.nanflow, nf) :: bins)) := by
  simp only [decodeFrag, h1, h2, h3, hbt, hbn, hb, hnt, hjn]
  simp [hnf]
  rw [mapM_congr_fun l _ (centralItem fuel bt bn) ?_, hbins]
  · have : ¬ bins.length < 2 := by omega
    cases n <;> simp [this, resolveName]
  · intro x; cases x <;> simp [centralItem]

def thrItem (fuel : Nat) (bt : String) (bn : Option String) (x : Json) : Option (Key × Agg) :=
  match x with
  | .obj bp =>
    if Json.hasKeys bp ["atleast", "data"] [] = false then none
    else ((Json.get? "atleast" bp).bind Json.toVal?).bind fun c =>
          ((Json.get? "data" bp).bind fun y => decodeFrag fuel bt y bn).bind fun a => some (Key.thr c, a)
  | _ => none

theorem dec_irregular (fuel : Nat) (m : List (String × Json)) (pn : Option String) (e : Val) (n bn : Option String)
    (bt nt : String) (l : List Json) (bins : List (Key × Agg)) (jn : Json) (nf : Agg)
    (h1 : Json.hasKeys m ["entries", "bins:type", "bins", "nanflow:type", "nanflow"] ["name", "bins:name"] = true)
    (h2 : entriesOf? m = some e) (h3 : Json.optStr? m "name" = some n)
    (hbt : Json.get? "bins:type" m = some (.str bt)) (hbn : Json.optStr? m "bins:name" = some bn)
    (hb : Json.get? "bins" m = some (.arr l))
    (hbins : l.mapM (thrItem fuel bt bn) = some bins)
    (hnt : Json.get? "nanflow:type" m = some (.str nt)) (hjn : Json.get? "nanflow" m = some jn)
    (hnf : decodeFrag fuel nt jn none = some nf)
    (hne : bins ≠ []) :
    decodeFrag (fuel+1) "IrregularlyBin" (.obj m) pn =
      some (.node (.irregular (deadQty (resolveName n pn))) e .unit none ((.nanflow, nf) :: bins)) := by
  simp only [decodeFrag, h1, h2, h3, hbt, hbn, hb, hnt, hjn]
  simp [hnf]
  rw [mapM_congr_fun l _ (thrItem fuel bt bn) ?_, hbins]
  · cases n <;> simp [hne, resolveName]
  · intro x; cases x <;> simp [thrItem]

theorem dec_stack (fuel : Nat) (m : List (String × Json)) (pn : Option String) (e : Val) (n bn : Option String)
    (bt nt : String) (l : List Json) (bins : List (Key × Agg)) (jn : Json) (nf : Agg)
    (h1 : Json.hasKeys m ["entries", "bins:type", "bins", "nanflow:type", "nanflow"] ["name", "bins:name"] = true)
    (h2 : entriesOf? m = some e) (h3 : Json.optStr? m "name" = some n)
    (hbt : Json.get? "bins:type" m = some (.str bt)) (hbn : Json.optStr? m "bins:name" = some bn)
    (hb : Json.get? "bins" m = some (.arr l))
    (hbins : l.mapM (thrItem fuel bt bn) = some bins)
    (hnt : Json.get? "nanflow:type" m = some (.str nt)) (hjn : Json.get? "nanflow" m = some jn)
    (hnf : decodeFrag fuel nt jn none = some nf)
    (hne : bins ≠ []) :
    decodeFrag (fuel+1) "Stack" (.obj m) pn =
      some (.node (.stack (deadQty (resolveName n pn))) e .unit none ((.nanflow, nf) :: bins)) := by
  simp only [decodeFrag, h1, h2, h3, hbt, hbn, hb, hnt, hjn]
  simp [hnf]
  rw [mapM_congr_fun l _ (thrItem fuel bt bn) ?_, hbins]
  · cases n <;> simp [hne, resolveName]
  · intro x; cases x <;> simp [thrItem]

theorem dec_fraction (fuel : Nat) (m : List (String × Json)) (pn : Option String) (e : Val) (n sn : Option String)
    (stp : String) (jnum jden : Json) (num den : Agg)
    (h1 : Json.hasKeys m ["entries", "sub:type", "numerator", "denominator"] ["name", "sub:name"] = true)
    (h2 : entriesOf? m = some e) (h3 : Json.optStr? m "name" = some n)
    (hst : Json.get? "sub:type" m = some (.str stp)) (hsn : Json.optStr? m "sub:name" = some sn)
    (hjn : Json.get? "numerator" m = some jnum) (hnum : decodeFrag fuel stp jnum sn = some num)
    (hjd : Json.get? "denominator" m = some jden) (hden : decodeFrag fuel stp jden sn = some den) :
    decodeFrag (fuel+1) "Fraction" (.obj m) pn =
      some (.node (.fraction (deadQty (resolveName n pn))) e .unit none [(.den, den), (.num, num)]) := by
  simp only [decodeFrag, h1, h2, h3, hst, hsn, hjn, hjd]
  simp [hnum, hden]
  cases n <;> rfl

theorem dec_select (fuel : Nat) (m : List (String × Json)) (pn : Option String) (e : Val) (n : Option String)
    (stp : String) (jc : Json) (c : Agg)
    (h1 : Json.hasKeys m ["entries", "sub:type", "data"] ["name"] = true)
    (h2 : entriesOf? m = some e) (h3 : Json.optStr? m "name" = some n)
    (hst : Json.get? "sub:type" m = some (.str stp))
    (hjc : Json.get? "data" m = some jc) (hc : decodeFrag fuel stp jc none = some c) :
    decodeFrag (fuel+1) "Select" (.obj m) pn =
      some (.node (.select (deadQty (resolveName n pn))) e .unit none [(.cut, c)]) := by
  simp only [decodeFrag, h1, h2, h3, hst, hjc]
  simp [hc]
  cases n <;> rfl

def catItem (fuel : Nat) (bt : String) (bn : Option String) (kv : String × Json) : Option (Key × Agg) :=
  (decodeFrag fuel bt kv.2 bn).bind fun a => some (Key.cat kv.1, a)

theorem dec_categorize (fuel : Nat) (m : List (String × Json)) (pn : Option String) (e : Val) (n bn : Option String)
    (bt : String) (bm : List (String × Json)) (bins : List (Key × Agg))
    (h1 : Json.hasKeys m ["entries", "bins:type", "bins"] ["name", "bins:name"] = true)
    (h2 : entriesOf? m = some e) (h3 : Json.optStr? m "name" = some n)
    (hbt : Json.get? "bins:type" m = some (.str bt)) (hbn : Json.optStr? m "bins:name" = some bn)
    (hb : Json.get? "bins" m = some (.obj bm))
    (hbins : bm.mapM (catItem fuel bt bn) = some bins)
    (hk : isKnownType bt = true) :
    decodeFrag (fuel+1) "Categorize" (.obj m) pn =
      some (.node (.categorize (deadQty (resolveName n pn)) bt bn) e .unit none
              (bins.foldl (fun acc p => insertK p.1 p.2 acc) [])) := by
  simp only [decodeFrag, h1, h2, h3, hbt, hbn, hb]
  simp [hk]
  rw [mapM_congr_fun bm _ (catItem fuel bt bn) ?_, hbins]
  · cases n <;> rfl
  · intro x; simp [catItem]

def lblItem (fuel : Nat) (stp : String) (kv : String × Json) : Option (Key × Agg) :=
  (decodeFrag fuel stp kv.2 none).bind fun a => some (Key.lbl kv.1, a)

theorem dec_label (fuel : Nat) (m : List (String × Json)) (pn : Option String) (e : Val)
    (stp : String) (dm : List (String × Json)) (pairs : List (Key × Agg))
    (h1 : Json.hasKeys m ["entries", "sub:type", "data"] [] = true)
    (h2 : entriesOf? m = some e)
    (hst : Json.get? "sub:type" m = some (.str stp))
    (hd : Json.get? "data" m = some (.obj dm))
    (hpairs : dm.mapM (lblItem fuel stp) = some pairs)
    (hne : pairs ≠ []) (hsame : allSameType pairs = true) :
    decodeFrag (fuel+1) "Label" (.obj m) pn = some (.node .label e .unit none pairs) := by
  simp only [decodeFrag, h1, h2, hst, hd]
  simp
  rw [mapM_congr_fun dm _ (lblItem fuel stp) ?_, hpairs]
  · simp [hne, hsame]
  · intro x; simp [lblItem]

def typedVal (fuel : Nat) (x : Json) : Option Agg :=
  match x with
  | .obj tm =>
    if Json.hasKeys tm ["type", "data"] [] = false then none
    else (match Json.get? "type" tm with | some (.str s) => some s | _ => none).bind fun t =>
          (Json.get? "data" tm).bind fun y => decodeFrag fuel t y none
  | _ => none

def ulblItem (fuel : Nat) (kv : String × Json) : Option (Key × Agg) :=
  (typedVal fuel kv.2).bind fun a => some (Key.lbl kv.1, a)

theorem dec_untypedLabel (fuel : Nat) (m : List (String × Json)) (pn : Option String) (e : Val)
    (dm : List (String × Json)) (pairs : List (Key × Agg))
    (h1 : Json.hasKeys m ["entries", "data"] [] = true)
    (h2 : entriesOf? m = some e)
    (hd : Json.get? "data" m = some (.obj dm))
    (hpairs : dm.mapM (ulblItem fuel) = some pairs) :
    decodeFrag (fuel+1) "UntypedLabel" (.obj m) pn = some (.node .untypedLabel e .unit none pairs) := by
  simp only [decodeFrag, h1, h2, hd]
  simp
  rw [mapM_congr_fun dm _ (ulblItem fuel) ?_, hpairs]
  · rfl
  · intro x
    obtain ⟨k, v⟩ := x
    cases v <;> simp [ulblItem, typedVal]
    split
    · rfl
    · split <;> simp_all

theorem dec_index (fuel : Nat) (m : List (String × Json)) (pn : Option String) (e : Val)
    (stp : String) (l : List Json) (vals : List Agg)
    (h1 : Json.hasKeys m ["entries", "sub:type", "data"] [] = true)
    (h2 : entriesOf? m = some e)
    (hst : Json.get? "sub:type" m = some (.str stp))
    (hd : Json.get? "data" m = some (.arr l))
    (hvals : l.mapM (fun x => decodeFrag fuel stp x none) = some vals)
    (hne : vals ≠ [])
    (hsame : allSameType (vals.zipIdx.map (fun p => (Key.ith p.2, p.1))) = true) :
    decodeFrag (fuel+1) "Index" (.obj m) pn =
      some (.node .index e .unit none (vals.zipIdx.map (fun p => (Key.ith p.2, p.1)))) := by
  simp only [decodeFrag, h1, h2, hst, hd]
  simp [hvals, hne, hsame]

theorem dec_branch (fuel : Nat) (m : List (String × Json)) (pn : Option String) (e : Val)
    (l : List Json) (vals : List Agg)
    (h1 : Json.hasKeys m ["entries", "data"] [] = true)
    (h2 : entriesOf? m = some e)
    (hd : Json.get? "data" m = some (.arr l))
    (hvals : l.mapM (typedVal fuel) = some vals)
    (hne : vals ≠ []) :
    decodeFrag (fuel+1) "Branch" (.obj m) pn =
      some (.node .branch e .unit none (vals.zipIdx.map (fun p => (Key.ith p.2, p.1)))) := by
  simp only [decodeFrag, h1, h2, hd]
  simp
  rw [mapM_congr_fun l _ (typedVal fuel) ?_, hvals]
  · simp [hne]
  · intro x; cases x <;> simp [typedVal]
    split
    · rfl
    · split <;> simp_all

end Hg.CodecAux
