/-
  Hg.Proofs.All — every proof module of the project.

  Leaf algebra      : ValLemmas, BagLemmas, LeafAux, LeafLaws
  Tree laws 1       : TreeBasics, UnionKids, FillBasics, TreeLaws1     (helpers in `Hg`)
  Tree laws 2       : SortedKids, TreeFacts, TreeLaws2                 (helpers in `Hg.P3`)
  Tree laws 3       : TreeLaws3
  Counterexamples   : TreeLaws1Counterexamples, TreeLaws2Counterexamples (and the end of LeafLaws)
-/
import Hg.Proofs.ValLemmas
import Hg.Proofs.BagLemmas
import Hg.Proofs.LeafAux
import Hg.Proofs.LeafLaws
import Hg.Proofs.TreeBasics
import Hg.Proofs.UnionKids
import Hg.Proofs.FillBasics
import Hg.Proofs.TreeLaws1
import Hg.Proofs.SortedKids
import Hg.Proofs.TreeFacts
import Hg.Proofs.TreeLaws2
import Hg.Proofs.TreeLaws3
import Hg.Proofs.ScalePartition
import Hg.Proofs.TreeLaws1Counterexamples
import Hg.Proofs.TreeLaws2Counterexamples
