/-
  Hg.Proofs.LeafLaws — algebra of the seven leaf primitives (count, sum, average, deviate,
  minimize, maximize, bag) at the level of `(entries, state)` pairs.

  These are the leaf-level obligations behind C01 (merge is a commutative monoid homomorphism),
  C02 (order independence) and C08 (scaling).  `leafGood` is the executable invariant of
  Hg.Model.WF; it is checked on every state of the correspondence run.
-/
import Hg.Model.WF

namespace Hg

/-- a weight that passes the gate and is finite -/
def Val.posFin (w : Val) : Prop := ∃ q : Rat, w = .fin q ∧ 0 < q

/-! ### merge -/

theorem leafAdd_comm (k : Kind) (e1 : Val) (s1 : St) (e2 : Val) (s2 : St)
    (hk : k.isLeaf = true) (h1 : leafGood k e1 s1 = true) (h2 : leafGood k e2 s2 = true) :
    leafAdd k e1 s1 e2 s2 = leafAdd k e2 s2 e1 s1 := by
  sorry

theorem leafAdd_assoc (k : Kind) (e1 : Val) (s1 : St) (e2 : Val) (s2 : St) (e3 : Val) (s3 : St)
    (hk : k.isLeaf = true)
    (h1 : leafGood k e1 s1 = true) (h2 : leafGood k e2 s2 = true) (h3 : leafGood k e3 s3 = true) :
    leafAdd k (leafAdd k e1 s1 e2 s2).1 (leafAdd k e1 s1 e2 s2).2 e3 s3
      = leafAdd k e1 s1 (leafAdd k e2 s2 e3 s3).1 (leafAdd k e2 s2 e3 s3).2 := by
  sorry

theorem leafAdd_zero_right (k : Kind) (e : Val) (s : St)
    (hk : k.isLeaf = true) (h : leafGood k e s = true) :
    leafAdd k e s 0 (St.zero k) = (e, s) := by
  sorry

theorem leafAdd_zero_left (k : Kind) (e : Val) (s : St)
    (hk : k.isLeaf = true) (h : leafGood k e s = true) :
    leafAdd k 0 (St.zero k) e s = (e, s) := by
  sorry

theorem leafGood_add (k : Kind) (e1 : Val) (s1 : St) (e2 : Val) (s2 : St)
    (hk : k.isLeaf = true) (h1 : leafGood k e1 s1 = true) (h2 : leafGood k e2 s2 = true) :
    leafGood k (leafAdd k e1 s1 e2 s2).1 (leafAdd k e1 s1 e2 s2).2 = true := by
  sorry

theorem leafGood_zero (k : Kind) (hk : k.isLeaf = true) : leafGood k 0 (St.zero k) = true := by
  sorry

/-! ### fill -/

/-- whether a leaf fill raises depends only on the kind and the datum, never on the state -/
theorem leafFill_ok_indep (k : Kind) (e1 : Val) (s1 : St) (e2 : Val) (s2 : St) (d : Datum) (w : Val)
    (h1 : leafGood k e1 s1 = true) (h2 : leafGood k e2 s2 = true) :
    (leafFill k e1 s1 d w).toBool = (leafFill k e2 s2 d w).toBool := by
  sorry

theorem leafGood_fill (k : Kind) (e : Val) (s : St) (d : Datum) (w : Val) (e' : Val) (s' : St)
    (hk : k.isLeaf = true) (h : leafGood k e s = true) (hw : w.posFin)
    (hf : leafFill k e s d w = .ok (e', s')) :
    leafGood k e' s' = true := by
  sorry

/-- merge is a homomorphism for fill: filling the left operand and then merging is the same as
merging and then filling the result -/
theorem leafFill_add_hom (k : Kind) (e1 : Val) (s1 : St) (e2 : Val) (s2 : St) (d : Datum) (w : Val)
    (e1' : Val) (s1' : St)
    (hk : k.isLeaf = true) (h1 : leafGood k e1 s1 = true) (h2 : leafGood k e2 s2 = true)
    (hw : w.posFin) (hf : leafFill k e1 s1 d w = .ok (e1', s1')) :
    leafFill k (leafAdd k e1 s1 e2 s2).1 (leafAdd k e1 s1 e2 s2).2 d w
      = .ok (leafAdd k e1' s1' e2 s2) := by
  sorry

/-! ### scaling -/

theorem leafGood_mul (k : Kind) (e : Val) (s : St) (f : Val)
    (hk : k.isLeaf = true) (h : leafGood k e s = true) (hf : f.posFin) :
    leafGood k (f * e) (leafMul k s f) = true := by
  sorry

/-- scaling distributes over merge -/
theorem leafMul_add (k : Kind) (e1 : Val) (s1 : St) (e2 : Val) (s2 : St) (f : Val)
    (hk : k.isLeaf = true) (h1 : leafGood k e1 s1 = true) (h2 : leafGood k e2 s2 = true)
    (hf : f.posFin) :
    leafAdd k (f * e1) (leafMul k s1 f) (f * e2) (leafMul k s2 f)
      = (f * (leafAdd k e1 s1 e2 s2).1, leafMul k (leafAdd k e1 s1 e2 s2).2 f) := by
  sorry

/-- scaling by `f` equals refilling with every weight multiplied by `f` -/
theorem leafMul_fill (k : Kind) (e : Val) (s : St) (d : Datum) (w : Val) (f : Val) (e' : Val) (s' : St)
    (hk : k.isLeaf = true) (h : leafGood k e s = true) (hw : w.posFin) (hf : f.posFin)
    (hfill : leafFill k e s d w = .ok (e', s')) :
    leafFill k (f * e) (leafMul k s f) d (f * w) = .ok (f * e', leafMul k s' f) := by
  sorry

theorem leafMul_mul (k : Kind) (e : Val) (s : St) (f g : Val)
    (hk : k.isLeaf = true) (h : leafGood k e s = true) (hf : f.posFin) (hg : g.posFin) :
    (g * (f * e), leafMul k (leafMul k s f) g) = ((f * g) * e, leafMul k s (f * g)) := by
  sorry

theorem leafMul_one (k : Kind) (e : Val) (s : St)
    (hk : k.isLeaf = true) (h : leafGood k e s = true) :
    ((1 : Val) * e, leafMul k s 1) = (e, s) := by
  sorry

/-- `h * 2 == h + h` -/
theorem leafMul_two (k : Kind) (e : Val) (s : St)
    (hk : k.isLeaf = true) (h : leafGood k e s = true) :
    ((2 : Val) * e, leafMul k s 2) = leafAdd k e s e s := by
  sorry

end Hg
