/-
  Hg.Proofs.LeafLaws — algebra of the seven leaf primitives (count, sum, average, deviate,
  minimize, maximize, bag) at the level of `(entries, state)` pairs.

  These are the leaf-level obligations behind C01 (merge is a commutative monoid homomorphism),
  C02 (order independence) and C08 (scaling).  `leafGood` is the executable invariant of
  Hg.Model.WF; it is checked on every state of the correspondence run.

  STRUCTURE.  `leafGood k e st = leafGoodCore k e st && leafKeysOk k st` (Hg.Model.WF).
  `leafGoodCore` (the numeric invariant) does not say that the keys of a Bag all have the constructor
  (and vector length) its `BagRange` prescribes; `BKey.lt` is a strict *total* order only among such
  keys (keys of different constructors, or vectors of different lengths, are incomparable).  With
  mixed keys `bagInsert`/`bagMerge` neither keep the list sorted nor commute, so commutativity of
  merge, preservation of the invariant by merge / fill, and the fill homomorphism are false for
  `leafGoodCore` alone (machine-checked counterexamples at the end of this file).

  The first part of the file (`*_core`) proves the laws for `leafGoodCore` with the explicit extra
  hypothesis `leafKeysOk k s = true` where needed, and shows that `leafKeysOk` is preserved by
  `St.zero`, `leafAdd`, `leafFill` and `leafMul`.  The second part derives the laws for `leafGood`
  (which includes `leafKeysOk`) with exactly the originally specified statements.
-/
import Hg.Proofs.LeafAux

namespace Hg

/-- a weight that passes the gate and is finite -/
def Val.posFin (w : Val) : Prop := ∃ q : Rat, w = .fin q ∧ 0 < q

/-! ## Part 1: laws for `leafGoodCore` (+ explicit `leafKeysOk`)

### merge -/

theorem leafAdd_comm_core (k : Kind) (e1 : Val) (s1 : St) (e2 : Val) (s2 : St)
    (hk : k.isLeaf = true) (h1 : leafGoodCore k e1 s1 = true) (h2 : leafGoodCore k e2 s2 = true)
    (c1 : leafKeysOk k s1 = true) (c2 : leafKeysOk k s2 = true) :
    leafAdd k e1 s1 e2 s2 = leafAdd k e2 s2 e1 s1 :=
  leafAdd_comm_aux k hk h1 h2 c1 c2

theorem leafAdd_assoc_core (k : Kind) (e1 : Val) (s1 : St) (e2 : Val) (s2 : St) (e3 : Val) (s3 : St)
    (hk : k.isLeaf = true)
    (h1 : leafGoodCore k e1 s1 = true) (h2 : leafGoodCore k e2 s2 = true) (h3 : leafGoodCore k e3 s3 = true) :
    leafAdd k (leafAdd k e1 s1 e2 s2).1 (leafAdd k e1 s1 e2 s2).2 e3 s3
      = leafAdd k e1 s1 (leafAdd k e2 s2 e3 s3).1 (leafAdd k e2 s2 e3 s3).2 :=
  leafAdd_assoc_aux' k hk h1 h2 h3

theorem leafAdd_zero_right_core (k : Kind) (e : Val) (s : St)
    (hk : k.isLeaf = true) (h : leafGoodCore k e s = true) :
    leafAdd k e s 0 (St.zero k) = (e, s) :=
  leafAdd_zero_right' k e s hk h

theorem leafAdd_zero_left_core (k : Kind) (e : Val) (s : St)
    (hk : k.isLeaf = true) (h : leafGoodCore k e s = true) :
    leafAdd k 0 (St.zero k) e s = (e, s) :=
  leafAdd_zero_left' k e s hk h

theorem leafGood_add_core (k : Kind) (e1 : Val) (s1 : St) (e2 : Val) (s2 : St)
    (hk : k.isLeaf = true) (h1 : leafGoodCore k e1 s1 = true) (h2 : leafGoodCore k e2 s2 = true)
    (c1 : leafKeysOk k s1 = true) (c2 : leafKeysOk k s2 = true) :
    leafGoodCore k (leafAdd k e1 s1 e2 s2).1 (leafAdd k e1 s1 e2 s2).2 = true :=
  (leafGood_add_aux k hk h1 h2 c1 c2).1

/-- the extra Bag invariant is preserved by merge -/
theorem leafKeysOk_add_core (k : Kind) (e1 : Val) (s1 : St) (e2 : Val) (s2 : St)
    (hk : k.isLeaf = true) (h1 : leafGoodCore k e1 s1 = true) (h2 : leafGoodCore k e2 s2 = true)
    (c1 : leafKeysOk k s1 = true) (c2 : leafKeysOk k s2 = true) :
    leafKeysOk k (leafAdd k e1 s1 e2 s2).2 = true :=
  (leafGood_add_aux k hk h1 h2 c1 c2).2

theorem leafGood_zero_core (k : Kind) (hk : k.isLeaf = true) : leafGoodCore k 0 (St.zero k) = true :=
  leafGood_zero' k hk

/-- the extra Bag invariant holds of the empty state (see also `leafKeysOk_zero`) -/
theorem leafKeysOk_zero' (k : Kind) : leafKeysOk k (St.zero k) = true := leafKeysOk_zero k

/-! ### fill -/

/-- whether a leaf fill raises depends only on the kind and the datum, never on the state -/
theorem leafFill_ok_indep_core (k : Kind) (e1 : Val) (s1 : St) (e2 : Val) (s2 : St) (d : Datum) (w : Val)
    (h1 : leafGoodCore k e1 s1 = true) (h2 : leafGoodCore k e2 s2 = true) :
    (leafFill k e1 s1 d w).toBool = (leafFill k e2 s2 d w).toBool :=
  leafFill_ok_indep_aux k e1 s1 e2 s2 d w h1 h2

/-- a successful fill is the merge with the one-datum leaf `leafSingle k d w`, which is itself a
good leaf -/
theorem leafFill_ok_inv_core (k : Kind) (e : Val) (s : St) (d : Datum) (w : Rat) (e' : Val) (s' : St)
    (hk : k.isLeaf = true) (h : leafGoodCore k e s = true) (hw : 0 < w)
    (hf : leafFill k e s d (.fin w) = .ok (e', s')) :
    ∃ sx, leafSingle k d (.fin w) = .ok sx ∧ leafAdd k e s (.fin w) sx = (e', s') ∧
      leafGoodCore k (.fin w) sx = true ∧ leafKeysOk k sx = true := by
  rw [leafFill_eq_add k hk d h hw] at hf
  cases hs : leafSingle k d (.fin w) with
  | error f => rw [hs] at hf; cases hf
  | ok sx =>
    rw [hs] at hf
    have := leafGood_single k hk hw hs
    exact ⟨sx, rfl, by injection hf, this.1, this.2⟩

theorem leafGood_fill_core (k : Kind) (e : Val) (s : St) (d : Datum) (w : Val) (e' : Val) (s' : St)
    (hk : k.isLeaf = true) (h : leafGoodCore k e s = true) (hw : w.posFin)
    (hf : leafFill k e s d w = .ok (e', s'))
    (c : leafKeysOk k s = true) :
    leafGoodCore k e' s' = true := by
  obtain ⟨ww, rfl, hww⟩ := hw
  obtain ⟨sx, _, hadd, gx, cx⟩ := leafFill_ok_inv_core k e s d ww e' s' hk h hww hf
  have := (leafGood_add_aux k hk h gx c cx).1
  rw [hadd] at this
  exact this

/-- the extra Bag invariant is preserved by fill -/
theorem leafKeysOk_fill_core (k : Kind) (e : Val) (s : St) (d : Datum) (w : Val) (e' : Val) (s' : St)
    (hk : k.isLeaf = true) (h : leafGoodCore k e s = true) (hw : w.posFin)
    (hf : leafFill k e s d w = .ok (e', s'))
    (c : leafKeysOk k s = true) :
    leafKeysOk k s' = true := by
  obtain ⟨ww, rfl, hww⟩ := hw
  obtain ⟨sx, _, hadd, gx, cx⟩ := leafFill_ok_inv_core k e s d ww e' s' hk h hww hf
  have := (leafGood_add_aux k hk h gx c cx).2
  rw [hadd] at this
  exact this

/-- merge is a homomorphism for fill: filling the left operand and then merging is the same as
merging and then filling the result -/
theorem leafFill_add_hom_core (k : Kind) (e1 : Val) (s1 : St) (e2 : Val) (s2 : St) (d : Datum) (w : Val)
    (e1' : Val) (s1' : St)
    (hk : k.isLeaf = true) (h1 : leafGoodCore k e1 s1 = true) (h2 : leafGoodCore k e2 s2 = true)
    (hw : w.posFin) (hf : leafFill k e1 s1 d w = .ok (e1', s1'))
    (c1 : leafKeysOk k s1 = true) (c2 : leafKeysOk k s2 = true) :
    leafFill k (leafAdd k e1 s1 e2 s2).1 (leafAdd k e1 s1 e2 s2).2 d w
      = .ok (leafAdd k e1' s1' e2 s2) := by
  obtain ⟨ww, rfl, hww⟩ := hw
  obtain ⟨sx, hs, hadd, gx, cx⟩ := leafFill_ok_inv_core k e1 s1 d ww e1' s1' hk h1 hww hf
  have g12 := leafGood_add_aux k hk h1 h2 c1 c2
  rw [leafFill_eq_add k hk d g12.1 hww, hs]
  have a1 := leafAdd_assoc_aux k hk h1 h2 gx c1 c2 cx
  have cm := leafAdd_comm_aux k hk h2 gx c2 cx
  have a2 := leafAdd_assoc_aux k hk h1 gx h2 c1 cx c2
  simp only []
  rw [a1, cm, ← a2, hadd]

/-! ### scaling -/

theorem leafGood_mul_core (k : Kind) (e : Val) (s : St) (f : Val)
    (hk : k.isLeaf = true) (h : leafGoodCore k e s = true) (hf : f.posFin) :
    leafGoodCore k (f * e) (leafMul k s f) = true := by
  obtain ⟨ff, rfl, hff⟩ := hf
  exact leafGood_mul_aux k hk h hff

/-- the extra Bag invariant is preserved by scaling -/
theorem leafKeysOk_mul' (k : Kind) (s : St) (f : Val) (c : leafKeysOk k s = true) :
    leafKeysOk k (leafMul k s f) = true := by
  rw [leafKeysOk_mul]; exact c

/-- scaling distributes over merge -/
theorem leafMul_add_core (k : Kind) (e1 : Val) (s1 : St) (e2 : Val) (s2 : St) (f : Val)
    (hk : k.isLeaf = true) (h1 : leafGoodCore k e1 s1 = true) (h2 : leafGoodCore k e2 s2 = true)
    (hf : f.posFin) :
    leafAdd k (f * e1) (leafMul k s1 f) (f * e2) (leafMul k s2 f)
      = (f * (leafAdd k e1 s1 e2 s2).1, leafMul k (leafAdd k e1 s1 e2 s2).2 f) := by
  obtain ⟨ff, rfl, hff⟩ := hf
  exact leafMul_add_aux k hk hff h1 h2

/-- scaling by `f` equals refilling with every weight multiplied by `f` -/
theorem leafMul_fill_core (k : Kind) (e : Val) (s : St) (d : Datum) (w : Val) (f : Val) (e' : Val) (s' : St)
    (hk : k.isLeaf = true) (h : leafGoodCore k e s = true) (hw : w.posFin) (hf : f.posFin)
    (hfill : leafFill k e s d w = .ok (e', s')) :
    leafFill k (f * e) (leafMul k s f) d (f * w) = .ok (f * e', leafMul k s' f) := by
  obtain ⟨ww, rfl, hww⟩ := hw
  obtain ⟨ff, rfl, hff⟩ := hf
  obtain ⟨sx, hs, hadd, gx, _⟩ := leafFill_ok_inv_core k e s d ww e' s' hk h hww hfill
  have hfw : 0 < ff * ww := mul_pos hff hww
  have gm := leafGood_mul_aux k hk h hff
  show leafFill k (Val.fin ff * e) (leafMul k s (Val.fin ff)) d (Val.fin (ff * ww)) = _
  rw [leafFill_eq_add k hk d gm hfw]
  show (match leafSingle k d (Val.fin ff * Val.fin ww) with
      | .ok sx => Except.ok
          (leafAdd k (Val.fin ff * e) (leafMul k s (Val.fin ff)) (Val.fin ff * Val.fin ww) sx)
      | .error f => .error f) = _
  rw [leafSingle_scale k hk d hff hww, hs]
  simp only []
  rw [leafMul_add_aux k hk hff h gx, hadd]

theorem leafMul_mul_core (k : Kind) (e : Val) (s : St) (f g : Val)
    (hk : k.isLeaf = true) (h : leafGoodCore k e s = true) (hf : f.posFin) (hg : g.posFin) :
    (g * (f * e), leafMul k (leafMul k s f) g) = ((f * g) * e, leafMul k s (f * g)) := by
  obtain ⟨ff, rfl, hff⟩ := hf
  obtain ⟨gg, rfl, hgg⟩ := hg
  exact leafMul_mul_aux k hk h hff hgg

theorem leafMul_one_core (k : Kind) (e : Val) (s : St)
    (hk : k.isLeaf = true) (h : leafGoodCore k e s = true) :
    ((1 : Val) * e, leafMul k s 1) = (e, s) :=
  leafMul_one_aux k hk h

/-- `h * 2 == h + h` -/
theorem leafMul_two_core (k : Kind) (e : Val) (s : St)
    (hk : k.isLeaf = true) (h : leafGoodCore k e s = true) :
    ((2 : Val) * e, leafMul k s 2) = leafAdd k e s e s :=
  leafMul_two_aux k hk h

/-! ## Part 2: laws for `leafGood` (= `leafGoodCore` ∧ `leafKeysOk`) — the specified statements -/

theorem leafGood_iff {k : Kind} {e : Val} {s : St} :
    leafGood k e s = true ↔ leafGoodCore k e s = true ∧ leafKeysOk k s = true := by
  simp [leafGood]

theorem leafGood_core_of {k : Kind} {e : Val} {s : St} (h : leafGood k e s = true) :
    leafGoodCore k e s = true := (leafGood_iff.1 h).1

theorem leafGood_keysOk_of {k : Kind} {e : Val} {s : St} (h : leafGood k e s = true) :
    leafKeysOk k s = true := (leafGood_iff.1 h).2

/-! ### merge -/

theorem leafAdd_comm (k : Kind) (e1 : Val) (s1 : St) (e2 : Val) (s2 : St)
    (hk : k.isLeaf = true) (h1 : leafGood k e1 s1 = true) (h2 : leafGood k e2 s2 = true) :
    leafAdd k e1 s1 e2 s2 = leafAdd k e2 s2 e1 s1 :=
  leafAdd_comm_core k e1 s1 e2 s2 hk (leafGood_core_of h1) (leafGood_core_of h2) (leafGood_keysOk_of h1) (leafGood_keysOk_of h2)

theorem leafAdd_assoc (k : Kind) (e1 : Val) (s1 : St) (e2 : Val) (s2 : St) (e3 : Val) (s3 : St)
    (hk : k.isLeaf = true)
    (h1 : leafGood k e1 s1 = true) (h2 : leafGood k e2 s2 = true) (h3 : leafGood k e3 s3 = true) :
    leafAdd k (leafAdd k e1 s1 e2 s2).1 (leafAdd k e1 s1 e2 s2).2 e3 s3
      = leafAdd k e1 s1 (leafAdd k e2 s2 e3 s3).1 (leafAdd k e2 s2 e3 s3).2 :=
  leafAdd_assoc_core k e1 s1 e2 s2 e3 s3 hk (leafGood_core_of h1) (leafGood_core_of h2) (leafGood_core_of h3)

theorem leafAdd_zero_right (k : Kind) (e : Val) (s : St)
    (hk : k.isLeaf = true) (h : leafGood k e s = true) :
    leafAdd k e s 0 (St.zero k) = (e, s) :=
  leafAdd_zero_right_core k e s hk (leafGood_core_of h)

theorem leafAdd_zero_left (k : Kind) (e : Val) (s : St)
    (hk : k.isLeaf = true) (h : leafGood k e s = true) :
    leafAdd k 0 (St.zero k) e s = (e, s) :=
  leafAdd_zero_left_core k e s hk (leafGood_core_of h)

theorem leafGood_add (k : Kind) (e1 : Val) (s1 : St) (e2 : Val) (s2 : St)
    (hk : k.isLeaf = true) (h1 : leafGood k e1 s1 = true) (h2 : leafGood k e2 s2 = true) :
    leafGood k (leafAdd k e1 s1 e2 s2).1 (leafAdd k e1 s1 e2 s2).2 = true :=
  leafGood_iff.2
    ⟨leafGood_add_core k e1 s1 e2 s2 hk (leafGood_core_of h1) (leafGood_core_of h2) (leafGood_keysOk_of h1) (leafGood_keysOk_of h2),
     leafKeysOk_add_core k e1 s1 e2 s2 hk (leafGood_core_of h1) (leafGood_core_of h2) (leafGood_keysOk_of h1) (leafGood_keysOk_of h2)⟩

theorem leafGood_zero (k : Kind) (hk : k.isLeaf = true) : leafGood k 0 (St.zero k) = true :=
  leafGood_iff.2 ⟨leafGood_zero_core k hk, leafKeysOk_zero k⟩

/-! ### fill -/

/-- whether a leaf fill raises depends only on the kind and the datum, never on the state -/
theorem leafFill_ok_indep (k : Kind) (e1 : Val) (s1 : St) (e2 : Val) (s2 : St) (d : Datum) (w : Val)
    (h1 : leafGood k e1 s1 = true) (h2 : leafGood k e2 s2 = true) :
    (leafFill k e1 s1 d w).toBool = (leafFill k e2 s2 d w).toBool :=
  leafFill_ok_indep_core k e1 s1 e2 s2 d w (leafGood_core_of h1) (leafGood_core_of h2)

theorem leafGood_fill (k : Kind) (e : Val) (s : St) (d : Datum) (w : Val) (e' : Val) (s' : St)
    (hk : k.isLeaf = true) (h : leafGood k e s = true) (hw : w.posFin)
    (hf : leafFill k e s d w = .ok (e', s')) :
    leafGood k e' s' = true :=
  leafGood_iff.2
    ⟨leafGood_fill_core k e s d w e' s' hk (leafGood_core_of h) hw hf (leafGood_keysOk_of h),
     leafKeysOk_fill_core k e s d w e' s' hk (leafGood_core_of h) hw hf (leafGood_keysOk_of h)⟩

/-- merge is a homomorphism for fill: filling the left operand and then merging is the same as
merging and then filling the result -/
theorem leafFill_add_hom (k : Kind) (e1 : Val) (s1 : St) (e2 : Val) (s2 : St) (d : Datum) (w : Val)
    (e1' : Val) (s1' : St)
    (hk : k.isLeaf = true) (h1 : leafGood k e1 s1 = true) (h2 : leafGood k e2 s2 = true)
    (hw : w.posFin) (hf : leafFill k e1 s1 d w = .ok (e1', s1')) :
    leafFill k (leafAdd k e1 s1 e2 s2).1 (leafAdd k e1 s1 e2 s2).2 d w
      = .ok (leafAdd k e1' s1' e2 s2) :=
  leafFill_add_hom_core k e1 s1 e2 s2 d w e1' s1' hk (leafGood_core_of h1) (leafGood_core_of h2) hw hf (leafGood_keysOk_of h1) (leafGood_keysOk_of h2)

/-! ### scaling -/

theorem leafGood_mul (k : Kind) (e : Val) (s : St) (f : Val)
    (hk : k.isLeaf = true) (h : leafGood k e s = true) (hf : f.posFin) :
    leafGood k (f * e) (leafMul k s f) = true :=
  leafGood_iff.2 ⟨leafGood_mul_core k e s f hk (leafGood_core_of h) hf, leafKeysOk_mul' k s f (leafGood_keysOk_of h)⟩

/-- scaling distributes over merge -/
theorem leafMul_add (k : Kind) (e1 : Val) (s1 : St) (e2 : Val) (s2 : St) (f : Val)
    (hk : k.isLeaf = true) (h1 : leafGood k e1 s1 = true) (h2 : leafGood k e2 s2 = true)
    (hf : f.posFin) :
    leafAdd k (f * e1) (leafMul k s1 f) (f * e2) (leafMul k s2 f)
      = (f * (leafAdd k e1 s1 e2 s2).1, leafMul k (leafAdd k e1 s1 e2 s2).2 f) :=
  leafMul_add_core k e1 s1 e2 s2 f hk (leafGood_core_of h1) (leafGood_core_of h2) hf

/-- scaling by `f` equals refilling with every weight multiplied by `f` -/
theorem leafMul_fill (k : Kind) (e : Val) (s : St) (d : Datum) (w : Val) (f : Val) (e' : Val) (s' : St)
    (hk : k.isLeaf = true) (h : leafGood k e s = true) (hw : w.posFin) (hf : f.posFin)
    (hfill : leafFill k e s d w = .ok (e', s')) :
    leafFill k (f * e) (leafMul k s f) d (f * w) = .ok (f * e', leafMul k s' f) :=
  leafMul_fill_core k e s d w f e' s' hk (leafGood_core_of h) hw hf hfill

theorem leafMul_mul (k : Kind) (e : Val) (s : St) (f g : Val)
    (hk : k.isLeaf = true) (h : leafGood k e s = true) (hf : f.posFin) (hg : g.posFin) :
    (g * (f * e), leafMul k (leafMul k s f) g) = ((f * g) * e, leafMul k s (f * g)) :=
  leafMul_mul_core k e s f g hk (leafGood_core_of h) hf hg

theorem leafMul_one (k : Kind) (e : Val) (s : St)
    (hk : k.isLeaf = true) (h : leafGood k e s = true) :
    ((1 : Val) * e, leafMul k s 1) = (e, s) :=
  leafMul_one_core k e s hk (leafGood_core_of h)

/-- `h * 2 == h + h` -/
theorem leafMul_two (k : Kind) (e : Val) (s : St)
    (hk : k.isLeaf = true) (h : leafGood k e s = true) :
    ((2 : Val) * e, leafMul k s 2) = leafAdd k e s e s :=
  leafMul_two_core k e s hk (leafGood_core_of h)

/-! ### counterexamples to the four statements for `leafGoodCore` alone (a Bag with a key outside its range) -/
section Counterexamples

private def kS : Kind := .bag ⟨0, none, true⟩ .S
private def sNum : St := .bag [(.num (.fin 1), 1)]
private def sStr : St := .bag [(.str "a", 1)]

/-- the operands satisfy `leafGoodCore` (but `sNum` violates `leafKeysOk`) -/
example : kS.isLeaf = true ∧ leafGoodCore kS 1 sNum = true ∧ leafGoodCore kS 1 sStr = true ∧
    leafGoodCore kS 0 (St.zero kS) = true ∧ leafKeysOk kS sNum = false := by decide +kernel

/-- `leafAdd_comm_core` (without `leafKeysOk`) fails -/
example : leafAdd kS 1 sNum 1 sStr ≠ leafAdd kS 1 sStr 1 sNum := by decide +kernel

/-- `leafGood_add_core` fails -/
example : leafGoodCore kS (leafAdd kS 1 sNum 1 sStr).1 (leafAdd kS 1 sNum 1 sStr).2 = false := by
  decide +kernel

/-- `leafGood_fill_core` fails: the fill succeeds and its result is not `leafGoodCore` -/
example : leafFill kS 1 sNum [.str "a"] 1 = .ok (2, .bag [(.num (.fin 1), 1), (.str "a", 1)]) ∧
    leafGoodCore kS 2 (.bag [(.num (.fin 1), 1), (.str "a", 1)]) = false := by decide +kernel

/-- `leafFill_add_hom_core` fails -/
example : leafFill kS 0 (St.zero kS) [.str "a"] 1 = .ok (1, sStr) ∧
    leafFill kS (leafAdd kS 0 (St.zero kS) 1 sNum).1 (leafAdd kS 0 (St.zero kS) 1 sNum).2 [.str "a"] 1
      ≠ .ok (leafAdd kS 1 sStr 1 sNum) := by decide +kernel

end Counterexamples

end Hg
