/-
  Hg.Proofs.CodecEnc — encoder-side facts of the codec package:
  `immut` preserves `good`/`uniform`, `encode` does not see `immut`, `encode` never emits `null`.
-/
import Hg.Model.Immut

namespace Hg.CodecAux
open Hg

/-! ### `Kind.mapQty` is invisible to the static predicates -/

theorem mapQty_isLeaf (f : Qty → Qty) (k : Kind) : (k.mapQty f).isLeaf = k.isLeaf := by
  cases k <;> rfl

theorem mapQty_isSparse (f : Qty → Qty) (k : Kind) : (k.mapQty f).isSparse = k.isSparse := by
  cases k <;> rfl

theorem mapQty_typeName (f : Qty → Qty) (k : Kind) : (k.mapQty f).typeName = k.typeName := by
  cases k <;> rfl

theorem mapQty_qty? (f : Qty → Qty) (k : Kind) : (k.mapQty f).qty? = (k.qty?).map f := by
  cases k <;> rfl

theorem mapQty_layoutOk (f : Qty → Qty) (k : Kind) (keys : List Key) :
    (k.mapQty f).layoutOk keys = k.layoutOk keys := by
  cases k <;> rfl

theorem mapQty_fits (f : Qty → Qty) (k : Kind) (st : St) : St.fits (k.mapQty f) st = St.fits k st := by
  cases k <;> cases st <;> rfl

theorem mapQty_zero (f : Qty → Qty) (k : Kind) : St.zero (k.mapQty f) = St.zero k := by
  cases k <;> rfl

theorem mapQty_leafKeysOk (f : Qty → Qty) (k : Kind) (st : St) :
    leafKeysOk (k.mapQty f) st = leafKeysOk k st := by
  cases k <;> cases st <;> rfl

theorem mapQty_leafGood (f : Qty → Qty) (k : Kind) (e : Val) (st : St) :
    leafGood (k.mapQty f) e st = leafGood k e st := by
  simp only [leafGood, leafGoodCore, mapQty_fits, mapQty_zero, mapQty_leafKeysOk]

/-! ### `immut` basics -/

theorem immut_typeName (a : Agg) : (immut a).typeName = a.typeName := by
  cases a with
  | node k e st t kids => simp only [immut, Agg.typeName, Agg.kind, mapQty_typeName]

theorem immut_qtyName (a : Agg) : (immut a).qtyName = a.qtyName := by
  cases a with
  | node k e st t kids =>
    simp only [immut, Agg.qtyName, Agg.kind, mapQty_qty?]
    cases k.qty? <;> rfl

theorem immut_kind (a : Agg) : (immut a).kind = a.kind.mapQty Qty.dead := by
  cases a with
  | node k e st t kids => simp only [immut, Agg.kind]

theorem keysOf_immutKids : ∀ (l : List (Key × Agg)), keysOf (immutKids l) = keysOf l
  | [] => by simp only [immutKids]
  | (key, a) :: rest => by
    have ih := keysOf_immutKids rest
    simp only [keysOf] at ih
    simp only [immutKids, keysOf, List.map_cons, ih]

theorem binsOf_immutKids : ∀ (l : List (Key × Agg)), binsOf (immutKids l) = immutKids (binsOf l)
  | [] => by simp only [immutKids, binsOf, List.filter_nil]
  | (key, a) :: rest => by
    have ih := binsOf_immutKids rest
    simp only [binsOf] at ih
    simp only [immutKids, binsOf, List.filter_cons]
    cases key <;> simp only [ih, immutKids, Bool.false_eq_true, if_false, if_true]

theorem lookupK_immutKids (key : Key) :
    ∀ (l : List (Key × Agg)), lookupK key (immutKids l) = (lookupK key l).map immut
  | [] => by simp only [immutKids, lookupK, Option.map_none]
  | (k', a) :: rest => by
    simp only [immutKids, lookupK]
    split
    · rfl
    · exact lookupK_immutKids key rest

theorem all_immutKids (f : Agg → Bool) (hf : ∀ a, f (immut a) = f a) :
    ∀ (l : List (Key × Agg)), (immutKids l).all (fun r => f r.2) = l.all (fun r => f r.2)
  | [] => by simp only [immutKids]
  | (key, a) :: rest => by
    simp only [immutKids, List.all_cons, hf, all_immutKids f hf rest]

theorem sameTypeAs_immut (a b : Agg) : sameTypeAs (immut a) (immut b) = sameTypeAs a b := by
  simp only [sameTypeAs, immut_typeName, immut_kind]
  congr 1
  cases a.kind <;> cases b.kind <;> rfl

theorem uniformBins_immutKids (l : List (Key × Agg)) :
    (match immutKids l with
     | [] => true
     | p :: rest => rest.all (fun r => r.2.typeName == p.2.typeName && r.2.qtyName == p.2.qtyName)) =
    (match l with
     | [] => true
     | p :: rest => rest.all (fun r => r.2.typeName == p.2.typeName && r.2.qtyName == p.2.qtyName)) := by
  cases l with
  | nil => simp only [immutKids]
  | cons p rest =>
    obtain ⟨key, a⟩ := p
    simp only [immutKids, immut_typeName, immut_qtyName]
    exact all_immutKids (fun b => b.typeName == a.typeName && b.qtyName == a.qtyName)
      (fun b => by simp only [immut_typeName, immut_qtyName]) rest

theorem uniformSparse_immutKids (ctype : String) (cname : Option String) (l : List (Key × Agg)) :
    (immutKids l).all (fun r => r.2.typeName == ctype && r.2.qtyName == cname) =
    l.all (fun r => r.2.typeName == ctype && r.2.qtyName == cname) :=
  all_immutKids (fun b => b.typeName == ctype && b.qtyName == cname)
    (fun b => by simp only [immut_typeName, immut_qtyName]) l

theorem uniformLabel_immutKids (l : List (Key × Agg)) :
    (match immutKids l with
     | [] => false
     | p :: rest => rest.all (fun r => sameTypeAs p.2 r.2)) =
    (match l with
     | [] => false
     | p :: rest => rest.all (fun r => sameTypeAs p.2 r.2)) := by
  cases l with
  | nil => simp only [immutKids]
  | cons p rest =>
    obtain ⟨key, a⟩ := p
    simp only [immutKids]
    have h : ∀ (r : List (Key × Agg)),
        (immutKids r).all (fun r => sameTypeAs (immut a) r.2) = r.all (fun r => sameTypeAs a r.2) := by
      intro r
      induction r with
      | nil => simp only [immutKids, List.all_nil]
      | cons q r ih =>
        obtain ⟨k2, b⟩ := q
        simp only [immutKids, List.all_cons, sameTypeAs_immut, ih]
    exact h rest

theorem uniformFraction_immut (n d : Option Agg) :
    (match Option.map immut n, Option.map immut d with
     | some n, some d => n.typeName == d.typeName && n.qtyName == d.qtyName
     | _, _ => false) =
    (match n, d with
     | some n, some d => n.typeName == d.typeName && n.qtyName == d.qtyName
     | _, _ => false) := by
  cases n <;> cases d <;> simp only [Option.map_none, Option.map_some, immut_typeName, immut_qtyName]

/-! ### `good` / `uniform` survive `immut` -/

mutual
theorem good_immut_aux : ∀ (t : Agg), good t = true → good (immut t) = true
  | .node k e st tmpl kids, hg => by
    simp only [good, Bool.and_eq_true] at hg
    obtain ⟨⟨⟨⟨⟨h1, h2⟩, h3⟩, _⟩, _⟩, _⟩ := hg
    have ih := goodKids_immut_aux kids h3
    simp only [immut, good, Bool.and_eq_true, mapQty_isLeaf, mapQty_leafGood, mapQty_fits,
      mapQty_layoutOk, keysOf_immutKids, goodTmpl, sameBaseTmpl, ite_self, and_true, h1, h2, ih, true_and]
    cases k <;> rfl
theorem goodKids_immut_aux : ∀ (l : List (Key × Agg)), goodKids l = true → goodKids (immutKids l) = true
  | [], _ => by simp only [immutKids, goodKids]
  | (_, a) :: rest, hg => by
    simp only [goodKids, Bool.and_eq_true] at hg
    simp only [immutKids, goodKids, Bool.and_eq_true, good_immut_aux a hg.1, goodKids_immut_aux rest hg.2,
      and_self]
end

mutual
theorem uniform_immut_aux : ∀ (t : Agg), uniform (immut t) = uniform t
  | .node k e st tmpl kids => by
    have ih := uniformKids_immut_aux kids
    simp only [immut, uniform, ih]
    congr 1
    cases k <;>
      simp only [Kind.mapQty, binsOf_immutKids, lookupK_immutKids]
    · exact uniformBins_immutKids _
    · exact uniformSparse_immutKids _ _ _
    · exact uniformBins_immutKids _
    · exact uniformBins_immutKids _
    · exact uniformBins_immutKids _
    · exact uniformFraction_immut _ _
    · exact uniformSparse_immutKids _ _ _
    · exact uniformLabel_immutKids _
    · exact uniformLabel_immutKids _
theorem uniformKids_immut_aux : ∀ (l : List (Key × Agg)), uniformKids (immutKids l) = uniformKids l
  | [] => by simp only [immutKids]
  | (_, a) :: rest => by
    simp only [immutKids, uniformKids, uniform_immut_aux a, uniformKids_immut_aux rest]
end

theorem good_immut (t : Agg) (hg : good t = true) (hu : uniform t = true) :
    good (immut t) = true ∧ uniform (immut t) = true :=
  ⟨good_immut_aux t hg, by rw [uniform_immut_aux]; exact hu⟩

/-! ### `encode` does not see `immut` -/

theorem firstType_immutKids (l : List (Key × Agg)) : firstType (immutKids l) = firstType l := by
  cases l with
  | nil => simp only [immutKids]
  | cons p rest => obtain ⟨key, a⟩ := p; simp only [immutKids, firstType, immut_typeName]

theorem firstName_immutKids (l : List (Key × Agg)) : firstName (immutKids l) = firstName l := by
  cases l with
  | nil => simp only [immutKids]
  | cons p rest => obtain ⟨key, a⟩ := p; simp only [immutKids, firstName, immut_qtyName]

theorem typeOfOpt_flowOf_immutKids (key : Key) (l : List (Key × Agg)) :
    typeOfOpt (flowOf key (immutKids l)) = typeOfOpt (flowOf key l) := by
  simp only [flowOf, lookupK_immutKids]
  cases lookupK key l <;> simp only [Option.map_none, Option.map_some, typeOfOpt, immut_typeName]

theorem nameOfOpt_flowOf_immutKids (key : Key) (l : List (Key × Agg)) :
    nameOfOpt (flowOf key (immutKids l)) = nameOfOpt (flowOf key l) := by
  simp only [flowOf, lookupK_immutKids]
  cases lookupK key l <;> simp only [Option.map_none, Option.map_some, nameOfOpt, immut_qtyName]

theorem headType_immutKids (c : String) (l : List (Key × Agg)) :
    (match immutKids l with | [] => c | p :: _ => p.2.typeName) =
    (match l with | [] => c | p :: _ => p.2.typeName) := by
  cases l with
  | nil => simp only [immutKids]
  | cons p rest => obtain ⟨key, a⟩ := p; simp only [immutKids, immut_typeName]

theorem headName_immutKids (c : Option String) (l : List (Key × Agg)) :
    (match immutKids l with | [] => c | p :: _ => p.2.qtyName) =
    (match l with | [] => c | p :: _ => p.2.qtyName) := by
  cases l with
  | nil => simp only [immutKids]
  | cons p rest => obtain ⟨key, a⟩ := p; simp only [immutKids, immut_qtyName]

theorem mapQty_name (k : Kind) :
    ((k.mapQty Qty.dead).qty?).bind (·.name) = (k.qty?).bind (·.name) := by
  cases k <;> rfl

/-- the list helpers of `encodeFrag` agree on `immutKids l` and `l` -/
def KidsEnc (l : List (Key × Agg)) : Prop :=
  (∀ key s, encodeAt key (immutKids l) s = encodeAt key l s) ∧
  (∀ s, encodeList (immutKids l) s = encodeList l s) ∧
  (∀ s, encodeMembers (immutKids l) s = encodeMembers l s) ∧
  (∀ f, encodePairs f (immutKids l) = encodePairs f l) ∧
  encodeTypedMembers (immutKids l) = encodeTypedMembers l ∧
  encodeTypedList (immutKids l) = encodeTypedList l

theorem KidsEnc_nil : KidsEnc [] := by
  simp only [KidsEnc, immutKids, implies_true, and_self]

theorem KidsEnc_cons (key : Key) (a : Agg) (rest : List (Key × Agg))
    (ha : ∀ s, encodeFrag (immut a) s = encodeFrag a s) (hr : KidsEnc rest) :
    KidsEnc ((key, a) :: rest) := by
  obtain ⟨h1, h2, h3, h4, h5, h6⟩ := hr
  refine ⟨?_, ?_, ?_, ?_, ?_, ?_⟩
  · intro k s; simp only [immutKids, encodeAt, ha, h1]
  · intro s; simp only [immutKids, encodeList, ha, h2]
  · intro s; simp only [immutKids, encodeMembers, ha, h3]
  · intro f; simp only [immutKids, encodePairs, ha, h4]
  · simp only [immutKids, encodeTypedMembers, ha, h5, immut_typeName]
  · simp only [immutKids, encodeTypedList, ha, h6, immut_typeName]

theorem encodeFrag_immut_node (k : Kind) (e : Val) (st : St) (tmpl : Option Agg) (kids : List (Key × Agg))
    (hg : good (.node k e st tmpl kids) = true) (hu : uniform (.node k e st tmpl kids) = true)
    (hk : KidsEnc kids) (s : Bool) :
    encodeFrag (immut (.node k e st tmpl kids)) s = encodeFrag (.node k e st tmpl kids) s := by
  obtain ⟨h1, h2, h3, h4, h5, h6⟩ := hk
  cases k
  case sparse q w o ctype cname =>
    simp only [immut, Kind.mapQty, encodeFrag, Kind.qty?, Qty.dead, Option.bind_some,
      h1, h3, binsOf_immutKids, typeOfOpt_flowOf_immutKids]
    simp only [uniform, Bool.and_eq_true] at hu
    have hub := hu.2
    cases tmpl with
    | none =>
      cases hb : binsOf kids with
      | nil => simp only [immutKids]
      | cons p rest => obtain ⟨key, a⟩ := p; simp only [immutKids, immut_typeName, immut_qtyName]
    | some t =>
      simp only [good, Bool.and_eq_true, beq_iff_eq] at hg
      have hn := hg.2.2
      cases hb : binsOf kids with
      | nil => simp only [immutKids, hn]
      | cons p rest =>
        obtain ⟨key, a⟩ := p
        rw [hb] at hub
        simp only [List.all_cons, Bool.and_eq_true, beq_iff_eq] at hub
        simp only [immutKids, immut_typeName, immut_qtyName, hub.1.2, hn]
  case categorize q ctype cname =>
    simp only [immut, Kind.mapQty, encodeFrag, Kind.qty?, Qty.dead, Option.bind_some, h3]
    simp only [uniform, Bool.and_eq_true] at hu
    have hub := hu.2
    cases tmpl with
    | none =>
      cases kids with
      | nil => simp only [immutKids]
      | cons p rest => obtain ⟨key, a⟩ := p; simp only [immutKids, immut_typeName, immut_qtyName]
    | some t =>
      simp only [good, Bool.and_eq_true, beq_iff_eq] at hg
      have hn := hg.2.2
      have hl := hg.1.1.1.1.2
      cases kids with
      | nil => simp only [immutKids, hn]
      | cons p rest =>
        obtain ⟨key, a⟩ := p
        simp only [Kind.layoutOk, keysOf, List.map_cons, List.all_cons, Bool.and_eq_true] at hl
        have hc := hl.1.1
        cases key <;> simp only [Key.isCat, Bool.false_eq_true] at hc
        simp only [binsOf, List.filter_cons, if_true, List.all_cons, Bool.and_eq_true, beq_iff_eq] at hub
        simp only [immutKids, immut_typeName, immut_qtyName, hub.1.2, hn]
  all_goals
    cases st <;>
    simp only [immut, Kind.mapQty, encodeFrag, Kind.qty?, Qty.dead, Option.bind_some,
      h1, h2, h3, h4, h5, h6,
      binsOf_immutKids, firstType_immutKids, firstName_immutKids, typeOfOpt_flowOf_immutKids,
      nameOfOpt_flowOf_immutKids]

mutual
theorem encodeFrag_immut : ∀ (t : Agg), good t = true → uniform t = true →
    ∀ s, encodeFrag (immut t) s = encodeFrag t s
  | .node k e st tmpl kids, hg, hu, s => by
    have hgk : goodKids kids = true := by
      simp only [good, Bool.and_eq_true] at hg
      exact hg.1.1.1.2
    have huk : uniformKids kids = true := by
      simp only [uniform, Bool.and_eq_true] at hu
      exact hu.1
    exact encodeFrag_immut_node k e st tmpl kids hg hu (encodeKids_immut kids hgk huk) s
theorem encodeKids_immut : ∀ (l : List (Key × Agg)), goodKids l = true → uniformKids l = true → KidsEnc l
  | [], _, _ => KidsEnc_nil
  | (key, a) :: rest, hg, hu => by
    simp only [goodKids, Bool.and_eq_true] at hg
    simp only [uniformKids, Bool.and_eq_true] at hu
    exact KidsEnc_cons key a rest (encodeFrag_immut a hg.1 hu.1) (encodeKids_immut rest hg.2 hu.2)
end

theorem encode_immut (t : Agg) (hg : good t = true) (hu : uniform t = true) :
    encode (immut t) = encode t := by
  simp only [encode, immut_typeName, encodeFrag_immut t hg hu]

/-! ### `encode` never emits `null` -/

theorem ofVal_noNull (v : Val) : (Json.ofVal v).noNull = true := by
  cases v <;> simp only [Json.ofVal, Json.noNull]

theorem noNullMembers_append (a b : List (String × Json)) :
    Json.noNullMembers (a ++ b) = (Json.noNullMembers a && Json.noNullMembers b) := by
  induction a with
  | nil => simp only [List.nil_append, Json.noNullMembers, Bool.true_and]
  | cons p rest ih =>
    obtain ⟨k, v⟩ := p
    simp only [List.cons_append, Json.noNullMembers, ih, Bool.and_assoc]

theorem noNullMembers_maybeAdd (m : List (String × Json)) (key : String) (v : Option String) :
    Json.noNullMembers (Json.maybeAdd m key v) = Json.noNullMembers m := by
  cases v with
  | none => simp only [Json.maybeAdd]
  | some s => simp only [Json.maybeAdd, noNullMembers_append, Json.noNullMembers, Json.noNull, Bool.and_true]

theorem noNullList_map_ofVal (l : List Val) : Json.noNullList (l.map Json.ofVal) = true := by
  induction l with
  | nil => simp only [List.map_nil, Json.noNullList]
  | cons v rest ih => simp only [List.map_cons, Json.noNullList, ofVal_noNull, ih, Bool.and_self]

theorem bkey_noNull (b : BKey) : b.toJson.noNull = true := by
  cases b <;> simp only [BKey.toJson, Json.noNull, ofVal_noNull, noNullList_map_ofVal]

theorem noNullList_bag (m : List (BKey × Val)) :
    Json.noNullList (m.map (fun kv => Json.obj [("w", Json.ofVal kv.2), ("v", kv.1.toJson)])) = true := by
  induction m with
  | nil => simp only [List.map_nil, Json.noNullList]
  | cons v rest ih =>
    simp only [List.map_cons, Json.noNullList, Json.noNull, Json.noNullMembers, ofVal_noNull, bkey_noNull, ih,
      Bool.and_self]

/-- the list helpers of `encodeFrag` are null-free on `l` -/
def KidsNN (l : List (Key × Agg)) : Prop :=
  (∀ key s, key ∈ keysOf l → (encodeAt key l s).noNull = true) ∧
  (∀ s, Json.noNullList (encodeList l s) = true) ∧
  (∀ s, Json.noNullMembers (encodeMembers l s) = true) ∧
  (∀ f, Json.noNullList (encodePairs f l) = true) ∧
  Json.noNullMembers (encodeTypedMembers l) = true ∧
  Json.noNullList (encodeTypedList l) = true

theorem KidsNN_nil : KidsNN [] := by
  simp only [KidsNN, keysOf, List.map_nil, List.not_mem_nil, false_implies, implies_true, encodeList,
    encodeMembers, encodePairs, encodeTypedMembers, encodeTypedList, Json.noNullList, Json.noNullMembers, and_self]

theorem KidsNN_cons (key : Key) (a : Agg) (rest : List (Key × Agg))
    (ha : ∀ s, (encodeFrag a s).noNull = true) (hr : KidsNN rest) :
    KidsNN ((key, a) :: rest) := by
  obtain ⟨h1, h2, h3, h4, h5, h6⟩ := hr
  refine ⟨?_, ?_, ?_, ?_, ?_, ?_⟩
  · intro k s hm
    simp only [encodeAt]
    split
    · exact ha s
    · next hne =>
      apply h1
      simp only [keysOf, List.map_cons, List.mem_cons] at hm
      rcases hm with hm | hm
      · exact absurd hm.symm hne
      · exact hm
  · intro s
    simp only [encodeList]
    split
    · exact h2 s
    · simp only [Json.noNullList, ha, h2, Bool.and_self]
  · intro s
    simp only [encodeMembers]
    split
    · exact h3 s
    · simp only [Json.noNullMembers, ha, h3, Bool.and_self]
  · intro f
    simp only [encodePairs]
    split
    · simp only [Json.noNullList, Json.noNull, Json.noNullMembers, ha, h4, Bool.and_self]
    · simp only [Json.noNullList, Json.noNull, Json.noNullMembers, ofVal_noNull, ha, h4, Bool.and_self]
    · exact h4 f
  · simp only [encodeTypedMembers, Json.noNullMembers, Json.noNull, ha, h5, Bool.and_self]
  · simp only [encodeTypedList, Json.noNullList, Json.noNullMembers, Json.noNull, ha, h6, Bool.and_self]

set_option linter.unusedSimpArgs false in
theorem encodeFrag_noNull_node (k : Kind) (e : Val) (st : St) (tmpl : Option Agg) (kids : List (Key × Agg))
    (hg : good (.node k e st tmpl kids) = true) (hk : KidsNN kids) (s : Bool) :
    (encodeFrag (.node k e st tmpl kids) s).noNull = true := by
  obtain ⟨h1, h2, h3, h4, h5, h6⟩ := hk
  simp only [good, Bool.and_eq_true] at hg
  obtain ⟨⟨⟨⟨⟨hs, hl⟩, _⟩, _⟩, _⟩, _⟩ := hg
  cases k
  case count => simp only [encodeFrag, ofVal_noNull]
  case sum q => 
    cases st <;>
      simp only [Kind.isLeaf, if_true, leafGood, leafGoodCore, St.fits, Bool.and_eq_true, Bool.false_eq_true,
        false_and, Bool.not_true] at hs <;>
      simp only [encodeFrag, Json.noNull, noNullMembers_maybeAdd, Json.noNullMembers, ofVal_noNull,
        noNullList_bag, Bool.and_self]
  case average q => 
    cases st <;>
      simp only [Kind.isLeaf, if_true, leafGood, leafGoodCore, St.fits, Bool.and_eq_true, Bool.false_eq_true,
        false_and, Bool.not_true] at hs <;>
      simp only [encodeFrag, Json.noNull, noNullMembers_maybeAdd, Json.noNullMembers, ofVal_noNull,
        noNullList_bag, Bool.and_self]
  case deviate q => 
    cases st <;>
      simp only [Kind.isLeaf, if_true, leafGood, leafGoodCore, St.fits, Bool.and_eq_true, Bool.false_eq_true,
        false_and, Bool.not_true] at hs <;>
      simp only [encodeFrag, Json.noNull, noNullMembers_maybeAdd, Json.noNullMembers, ofVal_noNull,
        noNullList_bag, Bool.and_self]
  case minimize q => 
    cases st <;>
      simp only [Kind.isLeaf, if_true, leafGood, leafGoodCore, St.fits, Bool.and_eq_true, Bool.false_eq_true,
        false_and, Bool.not_true] at hs <;>
      simp only [encodeFrag, Json.noNull, noNullMembers_maybeAdd, Json.noNullMembers, ofVal_noNull,
        noNullList_bag, Bool.and_self]
  case maximize q => 
    cases st <;>
      simp only [Kind.isLeaf, if_true, leafGood, leafGoodCore, St.fits, Bool.and_eq_true, Bool.false_eq_true,
        false_and, Bool.not_true] at hs <;>
      simp only [encodeFrag, Json.noNull, noNullMembers_maybeAdd, Json.noNullMembers, ofVal_noNull,
        noNullList_bag, Bool.and_self]
  case bag q r => 
    cases st <;>
      simp only [Kind.isLeaf, if_true, leafGood, leafGoodCore, St.fits, Bool.and_eq_true, Bool.false_eq_true,
        false_and, Bool.not_true] at hs <;>
      simp only [encodeFrag, Json.noNull, noNullMembers_maybeAdd, Json.noNullMembers, ofVal_noNull,
        noNullList_bag, Bool.and_self]
  case bin q n low high =>
    simp only [Kind.layoutOk, Bool.and_eq_true, decide_eq_true_eq] at hl
    have hu : Key.under ∈ keysOf kids := by rw [hl.2]; simp
    have ho : Key.over ∈ keysOf kids := by rw [hl.2]; simp
    have hn : Key.nanflow ∈ keysOf kids := by rw [hl.2]; simp
    simp only [encodeFrag, Json.noNull, noNullMembers_maybeAdd, Json.noNullMembers, ofVal_noNull,
      h1 _ _ hu, h1 _ _ ho, h1 _ _ hn, h2, Bool.and_self]
  case sparse q w o ctype cname =>
    have hn : Key.nanflow ∈ keysOf kids := by
      generalize keysOf kids = ks at hl
      cases ks with
      | nil => simp [Kind.layoutOk] at hl
      | cons key rest => cases key <;> first | exact List.mem_cons_self | (simp [Kind.layoutOk] at hl)
    simp only [encodeFrag, Json.noNull, noNullMembers_maybeAdd, Json.noNullMembers, ofVal_noNull,
      h1 _ _ hn, h3, h4, Bool.and_self]
  case central q =>
    have hn : Key.nanflow ∈ keysOf kids := by
      generalize keysOf kids = ks at hl
      cases ks with
      | nil => simp [Kind.layoutOk] at hl
      | cons key rest => cases key <;> first | exact List.mem_cons_self | (simp [Kind.layoutOk] at hl)
    simp only [encodeFrag, Json.noNull, noNullMembers_maybeAdd, Json.noNullMembers, ofVal_noNull,
      h1 _ _ hn, h3, h4, Bool.and_self]
  case irregular q =>
    have hn : Key.nanflow ∈ keysOf kids := by
      generalize keysOf kids = ks at hl
      cases ks with
      | nil => simp [Kind.layoutOk] at hl
      | cons key rest => cases key <;> first | exact List.mem_cons_self | (simp [Kind.layoutOk] at hl)
    simp only [encodeFrag, Json.noNull, noNullMembers_maybeAdd, Json.noNullMembers, ofVal_noNull,
      h1 _ _ hn, h3, h4, Bool.and_self]
  case stack q =>
    have hn : Key.nanflow ∈ keysOf kids := by
      generalize keysOf kids = ks at hl
      cases ks with
      | nil => simp [Kind.layoutOk] at hl
      | cons key rest => cases key <;> first | exact List.mem_cons_self | (simp [Kind.layoutOk] at hl)
    simp only [encodeFrag, Json.noNull, noNullMembers_maybeAdd, Json.noNullMembers, ofVal_noNull,
      h1 _ _ hn, h3, h4, Bool.and_self]
  case fraction q =>
    simp only [Kind.layoutOk, decide_eq_true_eq] at hl
    have hd : Key.den ∈ keysOf kids := by rw [hl]; simp
    have hn : Key.num ∈ keysOf kids := by rw [hl]; simp
    simp only [encodeFrag, Json.noNull, noNullMembers_maybeAdd, Json.noNullMembers, ofVal_noNull,
      h1 _ _ hd, h1 _ _ hn, Bool.and_self]
  case select q =>
    simp only [Kind.layoutOk, decide_eq_true_eq] at hl
    have hc : Key.cut ∈ keysOf kids := by rw [hl]; simp
    simp only [encodeFrag, Json.noNull, noNullMembers_maybeAdd, Json.noNullMembers, ofVal_noNull,
      h1 _ _ hc, Bool.and_self]
  all_goals
    simp only [encodeFrag, Json.noNull, noNullMembers_maybeAdd, Json.noNullMembers, Json.noNullList, ofVal_noNull,
      h2, h3, h5, h6, Bool.and_self]

mutual
theorem encodeFrag_noNull : ∀ (t : Agg), good t = true → ∀ s, (encodeFrag t s).noNull = true
  | .node k e st tmpl kids, hg, s => by
    have hgk : goodKids kids = true := by
      simp only [good, Bool.and_eq_true] at hg
      exact hg.1.1.1.2
    exact encodeFrag_noNull_node k e st tmpl kids hg (encodeKids_noNull kids hgk) s
theorem encodeKids_noNull : ∀ (l : List (Key × Agg)), goodKids l = true → KidsNN l
  | [], _ => KidsNN_nil
  | (key, a) :: rest, hg => by
    simp only [goodKids, Bool.and_eq_true] at hg
    exact KidsNN_cons key a rest (encodeFrag_noNull a hg.1) (encodeKids_noNull rest hg.2)
end

set_option linter.unusedVariables false in
theorem encode_noNull (t : Agg) (hg : good t = true) (hu : uniform t = true) :
    (encode t).noNull = true := by
  simp only [encode, Json.noNull, Json.noNullMembers, encodeFrag_noNull t hg, Bool.and_self]

end Hg.CodecAux
