/-
  Hg.Proofs.FcnLaws — wrapper algebra and transparency of the cache (C17).
-/
import Hg.Model.Fcn

namespace Hg

theorem callCached_ok (g : Nat → Nat) (m : Memo) (a : Nat) (h : m.ok g) :
    (callCached g m a).1 = g a ∧ (callCached g m a).2.ok g := by
  cases m with
  | none => simp [callCached, Memo.ok]
  | some p =>
    obtain ⟨a', r⟩ := p
    simp only [Memo.ok] at h
    by_cases e : a' = a
    · subst e; simp [callCached, Memo.ok, h]
    · simp [callCached, Memo.ok, e]

/-- A cached function returns on every call exactly what the underlying function returns for those
arguments, however calls with equal and different arguments are interleaved. -/
theorem cached_transparent (g : Nat → Nat) (m : Memo) (calls : List Nat) (h : m.ok g) :
    runCached g m calls = calls.map g := by
  induction calls generalizing m with
  | nil => rfl
  | cons a rest ih =>
    have := callCached_ok g m a h
    simp [runCached, this.1, ih _ this.2]

theorem callCachedP_ok (g : Nat → Option Nat) (m : Memo) (a : Nat) (h : m.okP g) :
    (callCachedP g m a).1 = g a ∧ (callCachedP g m a).2.okP g := by
  unfold callCachedP
  cases m with
  | none =>
    cases hg : g a with
    | none => simp [Memo.okP]
    | some v => simp [Memo.okP, hg]
  | some p =>
    obtain ⟨a', r⟩ := p
    by_cases e : a' = a
    · subst e
      simp only [if_true]
      exact ⟨h.symm, h⟩
    · simp only [e, if_false]
      cases hg : g a with
      | none => exact ⟨rfl, h⟩
      | some v => exact ⟨rfl, hg⟩

/-- A cached *partial* function: on every call the wrapper returns what the function returns and raises exactly when
the function raises, however failing and succeeding arguments are repeated and interleaved. -/
theorem cached_transparent_partial (g : Nat → Option Nat) (m : Memo) (calls : List Nat) (h : m.okP g) :
    runCachedP g m calls = calls.map g := by
  induction calls generalizing m with
  | nil => rfl
  | cons a rest ih =>
    have := callCachedP_ok g m a h
    simp [runCachedP, this.1, ih _ this.2]

/-- negative witness for the order of effects before fix f118426: `f(1)` returns, `f(0)` raises, `f(0)` again is
answered from the memo with `f(1)`'s value -/
theorem stale_after_raise_old :
    let g : Nat → Option Nat := fun a => if a = 0 then none else some (10 * a)
    let s1 := callCachedOld g none 1
    let s2 := callCachedOld g s1.2 0
    let s3 := callCachedOld g s2.2 0
    s1.1 = some 10 ∧ s2.1 = none ∧ s3.1 = some 10 ∧ g 0 = none := by
  decide

/-- `named` on a function that already has a name raises, wherever it comes in the sequence -/
theorem named_twice_raises (f : Fcn) (n : String) (h : f.name.isSome = true) : f.apply (.named n) = none := by
  simp [Fcn.apply, h]

theorem cached_idem (f g : Fcn) (h : f.apply .cached = some g) : g.apply .cached = some g := by
  simp [Fcn.apply] at h ⊢; subst h; rfl

theorem serializable_idem (f : Fcn) : f.apply .serializable = some f := rfl

/-- the six orders of applying one name, `cached` and `serializable` give the same wrapper -/
theorem wrappers_commute (b : Nat) (n : String) (ops : List WOp)
    (hp : ops.Perm [.named n, .cached, .serializable]) :
    (Fcn.ofBase b).applyAll ops = some ⟨b, some n, true⟩ := by
  have : ops ∈ [[WOp.named n, .cached, .serializable], [.named n, .serializable, .cached],
                [.cached, .named n, .serializable], [.cached, .serializable, .named n],
                [.serializable, .named n, .cached], [.serializable, .cached, .named n]] := by
    have hl : ops.length = 3 := by simpa using hp.length_eq
    match ops, hl with
    | [x, y, z], _ =>
      have hx : x ∈ [WOp.named n, .cached, .serializable] := hp.subset (by simp)
      have hy : y ∈ [WOp.named n, .cached, .serializable] := hp.subset (by simp)
      have hz : z ∈ [WOp.named n, .cached, .serializable] := hp.subset (by simp)
      have hnd : [x, y, z].Nodup := hp.nodup_iff.mpr (by simp)
      simp only [List.mem_cons, List.not_mem_nil, or_false] at hx hy hz
      simp only [List.nodup_cons, List.mem_cons, List.not_mem_nil, or_false, not_or, List.nodup_nil, and_true] at hnd
      rcases hx with rfl | rfl | rfl <;> rcases hy with rfl | rfl | rfl <;> rcases hz with rfl | rfl | rfl <;>
        simp_all
  simp only [List.mem_cons, List.not_mem_nil, or_false] at this
  rcases this with rfl | rfl | rfl | rfl | rfl | rfl <;> simp [Fcn.applyAll, Fcn.apply, Fcn.ofBase]

end Hg
