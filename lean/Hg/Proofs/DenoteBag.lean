/-
  Hg.Proofs.DenoteBag — iterated `bagInsert` from the empty map equals the closed form of the
  specification (`specBag`): the distinct keys in key order, each with the sum of its weights.
-/
import Hg.Model.Denote
import Hg.Proofs.BagLemmas

namespace Hg.DenBag

open Hg

/-! ### lookup in an association list -/

/-- value of the first entry with key `key` -/
def bagGet (key : BKey) : List (BKey × Val) → Option Val
  | [] => none
  | (k, v) :: rest => if k = key then some v else bagGet key rest

theorem bagGet_nil (key : BKey) : bagGet key [] = none := rfl

theorem bagGet_cons (key k : BKey) (v : Val) (rest : List (BKey × Val)) :
    bagGet key ((k, v) :: rest) = if k = key then some v else bagGet key rest := rfl

theorem bagGet_none_of_forall_ne {key : BKey} {l : List (BKey × Val)} (h : ∀ x ∈ l, x.1 ≠ key) :
    bagGet key l = none := by
  induction l with
  | nil => rfl
  | cons a rest ih =>
    obtain ⟨k, v⟩ := a
    rw [bagGet_cons, if_neg (h (k, v) (List.mem_cons_self ..))]
    exact ih (fun x hx => h x (List.mem_cons_of_mem _ hx))

theorem bagGet_none_of_lt {key : BKey} {l : List (BKey × Val)}
    (h : ∀ x ∈ l, BKey.lt key x.1 = true) : bagGet key l = none :=
  bagGet_none_of_forall_ne (fun x hx => (BKey.ne_of_lt (h x hx)).symm)

theorem bagGet_mem {key : BKey} {v : Val} {l : List (BKey × Val)} (h : bagGet key l = some v) :
    (key, v) ∈ l := by
  induction l with
  | nil => cases h
  | cons a rest ih =>
    obtain ⟨k, v0⟩ := a
    rw [bagGet_cons] at h
    by_cases hk : k = key
    · rw [if_pos hk] at h
      cases h
      rw [hk]
      exact List.mem_cons_self ..
    · rw [if_neg hk] at h
      exact List.mem_cons_of_mem _ (ih h)

theorem bagGet_insert_ne {key key' : BKey} (w : Val) (h : key' ≠ key) (l : List (BKey × Val)) :
    bagGet key' (bagInsert key w l) = bagGet key' l := by
  induction l with
  | nil => simp only [bagInsert]; rw [bagGet_cons, if_neg (Ne.symm h)]
  | cons a rest ih =>
    obtain ⟨k, v⟩ := a
    simp only [bagInsert]
    split
    · rename_i hk
      subst hk
      rw [bagGet_cons, bagGet_cons, if_neg (Ne.symm h), if_neg (Ne.symm h)]
    · split
      · rw [bagGet_cons, if_neg (Ne.symm h)]
      · rw [bagGet_cons, bagGet_cons, ih]

theorem bagGet_insert_self (key : BKey) (w : Val) {l : List (BKey × Val)} (hl : bagSorted l = true) :
    bagGet key (bagInsert key w l)
      = some (match bagGet key l with | some v => v + w | none => w) := by
  induction l with
  | nil => simp only [bagInsert]; rw [bagGet_cons, if_pos rfl, bagGet_nil]
  | cons a rest ih =>
    obtain ⟨k, v⟩ := a
    simp only [bagInsert]
    split
    · rename_i hk
      rw [bagGet_cons, if_pos hk, bagGet_cons, if_pos hk]
    · rename_i hk
      split
      · rename_i hlt
        have hnone : bagGet key rest = none :=
          bagGet_none_of_lt (fun x hx => BKey.lt_trans hlt (bagSorted_head_lt hl x hx))
        rw [bagGet_cons, if_pos rfl, bagGet_cons, if_neg hk, hnone]
      · rw [bagGet_cons, if_neg hk, bagGet_cons, if_neg hk]
        exact ih (bagSorted_tail hl)

/-! ### extensionality of strictly sorted association lists -/

theorem bag_ext : ∀ {xs ys : List (BKey × Val)},
    xs.Pairwise (fun u v => BKey.lt u.1 v.1 = true) →
    ys.Pairwise (fun u v => BKey.lt u.1 v.1 = true) →
    (∀ j, bagGet j xs = bagGet j ys) → xs = ys
  | [], [], _, _, _ => rfl
  | [], (k, b) :: r, _, _, h => by
    have := h k
    rw [bagGet_nil, bagGet_cons, if_pos rfl] at this
    cases this
  | (k, a) :: r, [], _, _, h => by
    have := h k
    rw [bagGet_nil, bagGet_cons, if_pos rfl] at this
    cases this
  | (k, a) :: r, (k', b) :: r', hx, hy, h => by
    rw [List.pairwise_cons] at hx hy
    have hkk : k = k' := by
      by_cases hkk : k = k'
      · exact hkk
      · exfalso
        have h1 := h k
        rw [bagGet_cons, if_pos rfl, bagGet_cons, if_neg (fun e => hkk e.symm)] at h1
        have h2 := h k'
        rw [bagGet_cons, if_neg hkk, bagGet_cons, if_pos rfl] at h2
        have m1 := hy.1 _ (bagGet_mem h1.symm)
        have m2 := hx.1 _ (bagGet_mem h2)
        simp only at m1 m2
        rw [BKey.lt_asymm m1] at m2
        cases m2
    subst hkk
    have hab : a = b := by
      have h1 := h k
      rw [bagGet_cons, if_pos rfl, bagGet_cons, if_pos rfl] at h1
      exact Option.some.inj h1
    subst hab
    have : r = r' := by
      apply bag_ext hx.2 hy.2
      intro j
      by_cases hj : k = j
      · subst hj
        rw [bagGet_none_of_lt hx.1, bagGet_none_of_lt hy.1]
      · have h1 := h j
        rw [bagGet_cons, if_neg hj, bagGet_cons, if_neg hj] at h1
        exact h1
    rw [this]

/-! ### `sumVal` -/

theorem sumVal_nil {α : Type} (f : α → Val) : sumVal f [] = 0 := rfl

theorem sumVal_snoc {α : Type} (f : α → Val) (l : List α) (a : α) :
    sumVal f (l ++ [a]) = sumVal f l + f a := by
  simp [sumVal, List.foldl_append]

/-! ### the fold -/

/-- iterated insertion from the empty map -/
def R (kw : List (BKey × Val)) : List (BKey × Val) :=
  kw.foldl (fun acc p => bagInsert p.1 p.2 acc) []

theorem R_snoc (kw : List (BKey × Val)) (p : BKey × Val) :
    R (kw ++ [p]) = bagInsert p.1 p.2 (R kw) := by
  simp [R, List.foldl_append]

theorem filter_key_nil {kw : List (BKey × Val)} {key : BKey} (h : key ∉ kw.map (·.1)) :
    kw.filter (fun p => p.1 = key) = [] := by
  rw [List.filter_eq_nil_iff]
  intro p hp
  simp only [decide_eq_true_eq]
  intro e
  exact h (List.mem_map.mpr ⟨p, hp, e⟩)

theorem R_spec (r : BagRange) (kw : List (BKey × Val))
    (hk : ∀ p ∈ kw, p.1.inRange r = true) :
    bagSorted (R kw) = true ∧ (∀ x ∈ R kw, x.1.inRange r = true) ∧
      ∀ key, bagGet key (R kw)
        = if key ∈ kw.map (·.1) then
            some (sumVal (fun p => p.2) (kw.filter (fun p => p.1 = key)))
          else none := by
  induction kw using List.reverseRecOn with
  | nil =>
    refine ⟨rfl, ?_, ?_⟩
    · intro x hx; cases hx
    · intro key; simp [R, bagGet_nil]
  | append_singleton kw' p ih =>
    obtain ⟨k, w⟩ := p
    have hk' : ∀ p ∈ kw', p.1.inRange r = true :=
      fun p hp => hk p (List.mem_append_left _ hp)
    have hkr : k.inRange r = true := hk (k, w) (List.mem_append_right _ (List.mem_singleton.mpr rfl))
    obtain ⟨ihs, ihr, ihg⟩ := ih hk'
    rw [R_snoc]
    refine ⟨?_, ?_, ?_⟩
    · exact bagInsert_sorted ihs (fun x hx => BKey.tri_of_inRange hkr (ihr x hx))
    · exact bagInsert_forall (P := fun key => key.inRange r = true) hkr ihr
    · intro key
      show bagGet key (bagInsert k w (R kw')) = _
      by_cases hkey : key = k
      · subst hkey
        rw [bagGet_insert_self key w ihs, ihg key]
        have hmem : key ∈ (kw' ++ [(key, w)]).map (·.1) := by simp
        rw [if_pos hmem, List.filter_append]
        have hf : [(key, w)].filter (fun p => p.1 = key) = [(key, w)] := by simp
        rw [hf, sumVal_snoc]
        by_cases hm : key ∈ kw'.map (·.1)
        · rw [if_pos hm]
        · rw [if_neg hm, filter_key_nil hm, sumVal_nil, Val.zero_add]
      · rw [bagGet_insert_ne w hkey, ihg key]
        have hf : [(k, w)].filter (fun p => p.1 = key) = [] := by
          simp [Ne.symm hkey]
        have hiff : key ∈ (kw' ++ [(k, w)]).map (·.1) ↔ key ∈ kw'.map (·.1) := by
          simp [hkey]
        rw [List.filter_append, hf, List.append_nil]
        by_cases hm : key ∈ kw'.map (·.1)
        · rw [if_pos hm, if_pos (hiff.mpr hm)]
        · rw [if_neg hm, if_neg (fun h => hm (hiff.mp h))]

/-! ### `mergeSort` with an order that is total only on part of the type -/

theorem pairwise_mergeSort_of {α : Type} (P : α → Prop) (le : α → α → Bool)
    (trans : ∀ a b c, P a → P b → P c → le a b = true → le b c = true → le a c = true)
    (total : ∀ a b, P a → P b → (le a b || le b a) = true)
    (l : List α) (hl : ∀ a ∈ l, P a) : (l.mergeSort le).Pairwise (fun a b => le a b = true) := by
  let l' : List {a : α // P a} := l.pmap Subtype.mk hl
  let le' : {a : α // P a} → {a : α // P a} → Bool := fun a b => le a.1 b.1
  have hmap : l'.map Subtype.val = l := by
    simp [l', List.map_pmap]
  have h1 : (l'.mergeSort le').map Subtype.val = (l'.map Subtype.val).mergeSort le :=
    List.map_mergeSort (fun a _ b _ => rfl)
  have h2 : (l'.mergeSort le').Pairwise (fun a b => le' a b = true) :=
    List.pairwise_mergeSort (le := le')
      (fun a b c hab hbc => trans a.1 b.1 c.1 a.2 b.2 c.2 hab hbc)
      (fun a b => total a.1 b.1 a.2 b.2) l'
  rw [← hmap, ← h1, List.pairwise_map]
  exact h2

theorem nodup_eraseDups {α : Type} [BEq α] [LawfulBEq α] :
    ∀ (n : Nat) (l : List α), l.length ≤ n → l.eraseDups.Nodup
  | _, [], _ => by simp
  | 0, _ :: _, h => by simp at h
  | n + 1, a :: as, h => by
    rw [List.eraseDups_cons, List.nodup_cons]
    constructor
    · intro hm
      rw [List.mem_eraseDups, List.mem_filter] at hm
      simp at hm
    · apply nodup_eraseDups n
      have := List.length_filter_le (fun b => !b == a) as
      simp only [List.length_cons] at h
      omega

/-! ### the sorted keys -/

theorem mem_sortBKeys {key : BKey} {l : List BKey} : key ∈ sortBKeys l ↔ key ∈ l := by
  simp [sortBKeys, List.mem_mergeSort, List.mem_eraseDups]

theorem sortBKeys_pairwise (r : BagRange) (l : List BKey) (hl : ∀ k ∈ l, k.inRange r = true) :
    (sortBKeys l).Pairwise (fun a b => BKey.lt a b = true) := by
  have hl' : ∀ k ∈ l.eraseDups, k.inRange r = true :=
    fun k hk => hl k (List.mem_eraseDups.mp hk)
  have hs : (sortBKeys l).Pairwise (fun a b => (!BKey.lt b a) = true) :=
    pairwise_mergeSort_of (fun k => k.inRange r = true) (fun a b => !BKey.lt b a)
      (by
        intro a b c ha hb hc hab hbc
        simp only [Bool.not_eq_true'] at hab hbc ⊢
        cases hca : BKey.lt c a with
        | false => rfl
        | true =>
          rcases BKey.tri_of_inRange ha hb with e | h | h
          · subst e; rw [hca] at hbc; cases hbc
          · rw [BKey.lt_trans hca h] at hbc; cases hbc
          · rw [h] at hab; cases hab)
      (by
        intro a b ha hb
        cases hab : BKey.lt a b with
        | false => simp
        | true => simp [BKey.lt_asymm hab])
      l.eraseDups hl'
  have hnd : (sortBKeys l).Nodup :=
    ((List.mergeSort_perm l.eraseDups _).nodup_iff).mpr (nodup_eraseDups _ l (Nat.le_refl _))
  have hboth := hs.and hnd
  refine hboth.imp_of_mem ?_
  intro a b ha hb hab
  obtain ⟨h1, h2⟩ := hab
  rcases BKey.tri_of_inRange (hl a (mem_sortBKeys.mp ha)) (hl b (mem_sortBKeys.mp hb)) with e | h | h
  · exact absurd e h2
  · exact h
  · rw [h] at h1; cases h1

theorem bagGet_map (F : BKey → Val) (key : BKey) (ks : List BKey) :
    bagGet key (ks.map (fun k => (k, F k))) = if key ∈ ks then some (F key) else none := by
  induction ks with
  | nil => simp [bagGet_nil]
  | cons k rest ih =>
    rw [List.map_cons, bagGet_cons]
    by_cases hk : k = key
    · subst hk
      rw [if_pos rfl, if_pos (List.mem_cons_self ..)]
    · rw [if_neg hk, ih]
      have hiff : key ∈ k :: rest ↔ key ∈ rest := by
        simp [Ne.symm hk]
      by_cases hm : key ∈ rest
      · rw [if_pos hm, if_pos (hiff.mpr hm)]
      · rw [if_neg hm, if_neg (fun h => hm (hiff.mp h))]

/-- iterated `bagInsert` over well-typed keys = the sorted distinct keys, each with the sum of its weights -/
theorem bag_fold_eq (r : BagRange) (kw : List (BKey × Val))
    (hk : ∀ p ∈ kw, p.1.inRange r = true) :
    kw.foldl (fun acc p => bagInsert p.1 p.2 acc) []
      = (sortBKeys (kw.map (·.1))).map
          (fun key => (key, sumVal (fun p => p.2) (kw.filter (fun p => p.1 = key)))) := by
  obtain ⟨hs, _, hg⟩ := R_spec r kw hk
  have hkeys : ∀ k ∈ kw.map (·.1), k.inRange r = true := by
    intro k hk'
    obtain ⟨p, hp, rfl⟩ := List.mem_map.mp hk'
    exact hk p hp
  show R kw = _
  apply bag_ext ((bagSorted_iff_pairwise _).mp hs)
  · rw [List.pairwise_map]
    exact sortBKeys_pairwise r _ hkeys
  · intro j
    rw [hg j, bagGet_map (fun key => sumVal (fun p => p.2) (kw.filter (fun p => p.1 = key)))]
    by_cases hm : j ∈ kw.map (·.1)
    · rw [if_pos hm, if_pos (mem_sortBKeys.mpr hm)]
    · rw [if_neg hm, if_neg (fun h => hm (mem_sortBKeys.mp h))]

end Hg.DenBag
