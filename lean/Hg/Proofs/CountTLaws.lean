/-
  Hg.Proofs.CountTLaws — laws of `Count(transform)` for every transform (C01, C03).
-/
import Hg.Model.CountT
import Hg.Proofs.TreeLaws3
import Mathlib.Tactic.Ring
import Mathlib.Tactic.Linarith
import Mathlib.Algebra.BigOperators.Group.List.Basic

namespace Hg.CountT

variable {W : Type} (pos : W → Bool) (f : W → Rat)

theorem fillAll_eq_np (c : Rat) (ws : List W) : fillAll pos f c ws = fillNp pos f c ws := by
  induction ws generalizing c with
  | nil => simp [fillAll, fillNp, sumR]
  | cons w ws ih =>
    have h := ih (fill pos f c w)
    simp only [fillAll, List.foldl_cons] at h ⊢
    rw [h]
    by_cases hp : pos w = true
    · simp [fill, fillNp, hp, sumR]; ring
    · simp [fill, fillNp, hp]

theorem fillAll_append (c : Rat) (xs ys : List W) :
    fillAll pos f c (xs ++ ys) = fillAll pos f (fillAll pos f c xs) ys := by
  simp [fillAll, List.foldl_append]

theorem fillNp_shift (c d : Rat) (ws : List W) : fillNp pos f (c + d) ws = fillNp pos f c ws + d := by
  unfold fillNp; ring

theorem add_fillAll (xs ys : List W) :
    add (fillAll pos f 0 xs) (fillAll pos f 0 ys) = fillAll pos f 0 (xs ++ ys) := by
  rw [fillAll_append, fillAll_eq_np, fillAll_eq_np, fillAll_eq_np]
  simp [add, fillNp]

theorem fillNpScalar_eq (c : Rat) (w : W) (n : Nat) :
    fillNpScalar pos f c w n = fillAll pos f c (List.replicate n w) := by
  induction n generalizing c with
  | zero => simp [fillNpScalar, fillAll]
  | succ n ih =>
    simp only [List.replicate_succ, fillAll, List.foldl_cons]
    have := ih (fill pos f c w)
    simp only [fillAll] at this
    rw [← this]
    by_cases hp : pos w = true
    · simp [fillNpScalar, fill, hp]; ring
    · simp [fillNpScalar, fill, hp]

/-- combine partial results with `+` following a schedule -/
def reduceT (parts : List Rat) : Sched → Option Rat
  | .leaf i => parts[i]?
  | .node l r => (reduceT parts l).bind (fun a => (reduceT parts r).bind (fun b => some (add a b)))


theorem sumR_eq_sum (l : List Rat) : sumR l = l.sum := by
  induction l with
  | nil => rfl
  | cons x xs ih => simp [sumR, ih]

theorem sumR_append (a b : List Rat) : sumR (a ++ b) = sumR a + sumR b := by
  simp [sumR_eq_sum]

theorem reduceT_eq (parts : List Rat) (σ : Sched) (h : ∀ i ∈ σ.leaves, i < parts.length) :
    reduceT parts σ = some (sumR (σ.leaves.map (fun i => parts.getD i 0))) := by
  induction σ with
  | leaf i =>
    have hi : i < parts.length := h i (by simp [Sched.leaves])
    simp [reduceT, Sched.leaves, sumR, List.getD, hi]
  | node l r ihl ihr =>
    have hl := ihl (fun i hi => h i (by simp [Sched.leaves, hi]))
    have hr := ihr (fun i hi => h i (by simp [Sched.leaves, hi]))
    simp [reduceT, hl, hr, Sched.leaves, add, sumR_append]

theorem sum_parts (chunks : List (List W)) :
    sumR (chunks.map (fillAll pos f 0)) = fillAll pos f 0 chunks.flatten := by
  induction chunks with
  | nil => simp [sumR, fillAll]
  | cons c cs ih =>
    simp only [List.map_cons, sumR, List.flatten_cons, ih]
    exact add_fillAll pos f c cs.flatten

theorem map_getD_range (parts : List Rat) :
    (List.range parts.length).map (fun i => parts.getD i 0) = parts := by
  apply List.ext_getElem
  · simp
  · intro i h1 h2; simp [List.getD, h2]

/-- partition invariance for a Count with any weight transform -/
theorem partition_invariant (chunks : List (List W)) (σ : Sched)
    (hσ : σ.leaves.Perm (List.range chunks.length)) :
    reduceT (chunks.map (fillAll pos f 0)) σ = some (fillAll pos f 0 chunks.flatten) := by
  have hlt : ∀ i ∈ σ.leaves, i < (chunks.map (fillAll pos f 0)).length := by
    intro i hi
    have := (hσ.mem_iff).1 hi
    simpa using this
  rw [reduceT_eq _ _ hlt, sumR_eq_sum]
  have hp : (σ.leaves.map (fun i => (chunks.map (fillAll pos f 0)).getD i 0)).Perm
      ((List.range chunks.length).map (fun i => (chunks.map (fillAll pos f 0)).getD i 0)) := hσ.map _
  rw [hp.sum_eq]
  have := map_getD_range (chunks.map (fillAll pos f 0))
  simp only [List.length_map] at this
  rw [this, ← sumR_eq_sum, sum_parts]

end Hg.CountT
