/-
  Hg.Proofs.CodecOps — `immut` (what a JSON reload yields) commutes with zero(), *, +.
-/
import Hg.Model.Immut
import Hg.Model.Live
import Hg.Proofs.TreeLaws1
namespace Hg.CodecAux
open Hg

/-! ### `Kind.mapQty` does not change anything the operations look at -/

theorem mapQty_isLeaf (f : Qty → Qty) (k : Kind) : (k.mapQty f).isLeaf = k.isLeaf := by
  cases k <;> rfl

theorem mapQty_isSparse (f : Qty → Qty) (k : Kind) : (k.mapQty f).isSparse = k.isSparse := by
  cases k <;> rfl

theorem St_zero_mapQty (f : Qty → Qty) (k : Kind) : St.zero (k.mapQty f) = St.zero k := by
  cases k <;> rfl

theorem leafMul_mapQty (f : Qty → Qty) (k : Kind) (st : St) (x : Val) :
    leafMul (k.mapQty f) st x = leafMul k st x := by
  cases k <;> cases st <;> rfl

theorem leafAdd_mapQty (f : Qty → Qty) (k : Kind) (e1 : Val) (s1 : St) (e2 : Val) (s2 : St) :
    leafAdd (k.mapQty f) e1 s1 e2 s2 = leafAdd k e1 s1 e2 s2 := by
  cases k <;> cases s1 <;> cases s2 <;> rfl

theorem sameShape_mapQty (f : Qty → Qty) (k1 k2 : Kind) :
    Kind.sameShape (k1.mapQty f) (k2.mapQty f) = Kind.sameShape k1 k2 := by
  cases k1 <;> cases k2 <;> rfl

/-! ### `immutKids` and the list helpers -/

theorem immutKids_eq_map (l : List (Key × Agg)) : immutKids l = l.map (fun p => (p.1, immut p.2)) := by
  induction l with
  | nil => simp [immutKids]
  | cons p r ih => obtain ⟨k, a⟩ := p; simp [immutKids, ih]

theorem keysOf_immutKids (l : List (Key × Agg)) : keysOf (immutKids l) = keysOf l := by
  induction l with
  | nil => simp [immutKids]
  | cons p r ih =>
    obtain ⟨k, a⟩ := p
    simp only [keysOf, immutKids, List.map_cons] at ih ⊢
    rw [ih]

theorem lookupK_immutKids (key : Key) (l : List (Key × Agg)) :
    lookupK key (immutKids l) = (lookupK key l).map immut := by
  induction l with
  | nil => simp [immutKids, lookupK]
  | cons p r ih =>
    obtain ⟨k, a⟩ := p
    simp only [immutKids, lookupK]
    split
    · simp
    · exact ih

theorem firstBin_immutKids (l : List (Key × Agg)) :
    firstBin (immutKids l) = (firstBin l).map immut := by
  induction l with
  | nil => simp [immutKids, firstBin]
  | cons p r ih =>
    obtain ⟨k, a⟩ := p
    simp only [immutKids, firstBin]
    split
    · exact ih
    · simp

theorem immutKids_append (l1 l2 : List (Key × Agg)) :
    immutKids (l1 ++ l2) = immutKids l1 ++ immutKids l2 := by
  simp [immutKids_eq_map]

theorem immutKids_takeWhile (p : Key → Bool) (l : List (Key × Agg)) :
    (immutKids l).takeWhile (fun q => p q.1) = immutKids (l.takeWhile (fun q => p q.1)) := by
  induction l with
  | nil => simp [immutKids]
  | cons q r ih =>
    obtain ⟨k, a⟩ := q
    simp only [immutKids, List.takeWhile_cons]
    cases p k <;> simp [immutKids, ih]

theorem immutKids_dropWhile (p : Key → Bool) (l : List (Key × Agg)) :
    (immutKids l).dropWhile (fun q => p q.1) = immutKids (l.dropWhile (fun q => p q.1)) := by
  induction l with
  | nil => simp [immutKids]
  | cons q r ih =>
    obtain ⟨k, a⟩ := q
    simp only [immutKids, List.dropWhile_cons]
    cases p k <;> simp [immutKids, ih]

/-! ### zero -/

mutual
theorem zero_immut : ∀ (t : Agg), zero (immut t) = immut (zero t)
  | .node k e st tmpl kids => by
    cases k <;>
      simp [immut, zero, Kind.mapQty, St.zero, immutKids, zeroKids_immut kids, zeroFlows_immut kids]
theorem zeroKids_immut : ∀ (l : List (Key × Agg)), zeroKids (immutKids l) = immutKids (zeroKids l)
  | [] => by simp [immutKids, zeroKids]
  | (key, a) :: rest => by
    simp [immutKids, zeroKids, zero_immut a, zeroKids_immut rest]
theorem zeroFlows_immut : ∀ (l : List (Key × Agg)), zeroFlows (immutKids l) = immutKids (zeroFlows l)
  | [] => by simp [immutKids, zeroFlows]
  | (key, a) :: rest => by
    simp only [immutKids, zeroFlows]
    split
    · simp [immutKids, zero_immut a, zeroFlows_immut rest]
    · exact zeroFlows_immut rest
end

/-! ### scale, mul -/

mutual
theorem scale_immut : ∀ (t : Agg) (f : Val), scale (immut t) f = immut (scale t f)
  | .node k e st tmpl kids, f => by
    simp [immut, scale, leafMul_mapQty, scaleKids_immut kids f]
theorem scaleKids_immut : ∀ (l : List (Key × Agg)) (f : Val),
    scaleKids (immutKids l) f = immutKids (scaleKids l f)
  | [], f => by simp [immutKids, scaleKids]
  | (key, a) :: rest, f => by
    simp [immutKids, scaleKids, scale_immut a f, scaleKids_immut rest f]
end

theorem mul_immut (t : Agg) (f : Val) : mul (immut t) f = immut (mul t f) := by
  unfold mul
  split
  · exact scale_immut t f
  · exact zero_immut t

/-! ### addRaw -/

mutual
theorem addRaw_immut : ∀ (a b : Agg), addRaw (immut a) (immut b) = immut (addRaw a b)
  | .node k1 e1 s1 t1 kids1, .node k2 e2 s2 t2 kids2 => by
    simp only [immut, addRaw, mapQty_isLeaf, mapQty_isSparse, leafAdd_mapQty]
    split
    · simp [immut]
    · split
      · simp [immut, unionKids_immut kids1 kids2]
      · simp [immut, zipKids_immut kids1 kids2]
theorem zipKids_immut : ∀ (l1 l2 : List (Key × Agg)),
    zipKids (immutKids l1) (immutKids l2) = immutKids (zipKids l1 l2)
  | [], l2 => by simp [immutKids, zipKids]
  | (k1, a) :: r1, [] => by simp [immutKids, zipKids]
  | (k1, a) :: r1, (k2, b) :: r2 => by
    simp [immutKids, zipKids, addRaw_immut a b, zipKids_immut r1 r2]
theorem unionKids_immut : ∀ (l1 l2 : List (Key × Agg)),
    unionKids (immutKids l1) (immutKids l2) = immutKids (unionKids l1 l2)
  | [], l2 => by simp [immutKids, unionKids]
  | (k1, a) :: r1, l2 => by
    simp only [immutKids, unionKids]
    rw [immutKids_takeWhile (fun k => Key.lt k k1) l2, immutKids_dropWhile (fun k => Key.lt k k1) l2]
    generalize hd : List.dropWhile (fun q => Key.lt q.1 k1) l2 = rest
    cases rest with
    | nil =>
      have := unionKids_immut r1 []
      simp only [immutKids] at this
      simp [immutKids, immutKids_append, this]
    | cons p rest' =>
      obtain ⟨k2, b⟩ := p
      simp only [immutKids]
      split
      · simp [immutKids, immutKids_append, addRaw_immut a b, unionKids_immut r1 rest']
      · have := unionKids_immut r1 ((k2, b) :: rest')
        simp only [immutKids] at this
        simp [immutKids, immutKids_append, this]
end

/-! ### add: the reloaded operands are compatible whenever the live ones share a base -/

theorem goodKids_lookupK (key : Key) : ∀ (l : List (Key × Agg)) (b : Agg),
    goodKids l = true → lookupK key l = some b → good b = true
  | [], b, _, h => by simp [lookupK] at h
  | (k, a) :: rest, b, hg, h => by
    simp only [goodKids, Bool.and_eq_true] at hg
    simp only [lookupK] at h
    split at h
    · cases h; exact hg.1
    · exact goodKids_lookupK key rest b hg.2 h

theorem hasTmplKids_lookupK (key : Key) : ∀ (l : List (Key × Agg)) (b : Agg),
    hasTmplKids l = true → lookupK key l = some b → hasTmpl b = true
  | [], b, _, h => by simp [lookupK] at h
  | (k, a) :: rest, b, hg, h => by
    simp only [hasTmplKids, Bool.and_eq_true] at hg
    simp only [lookupK] at h
    split at h
    · cases h; exact hg.1
    · exact hasTmplKids_lookupK key rest b hg.2 h

theorem sameBaseBins_lookupK (t : Agg) (key : Key) (hk : key ≠ .nanflow) :
    ∀ (l : List (Key × Agg)) (b : Agg),
    sameBaseBins t l = true → lookupK key l = some b → sameBase t b = true
  | [], b, _, h => by simp [lookupK] at h
  | (k, a) :: rest, b, hg, h => by
    simp only [sameBaseBins, Bool.and_eq_true] at hg
    simp only [lookupK] at h
    split at h
    · next hkk =>
      cases h
      subst hkk
      simpa [hk] using hg.1
    · exact sameBaseBins_lookupK t key hk rest b hg.2 h

theorem goodKids_firstBin : ∀ (l : List (Key × Agg)) (y : Agg),
    goodKids l = true → firstBin l = some y → good y = true
  | [], y, _, h => by simp [firstBin] at h
  | (k, a) :: rest, y, hg, h => by
    simp only [goodKids, Bool.and_eq_true] at hg
    simp only [firstBin] at h
    split at h
    · exact goodKids_firstBin rest y hg.2 h
    · cases h; exact hg.1

theorem hasTmplKids_firstBin : ∀ (l : List (Key × Agg)) (y : Agg),
    hasTmplKids l = true → firstBin l = some y → hasTmpl y = true
  | [], y, _, h => by simp [firstBin] at h
  | (k, a) :: rest, y, hg, h => by
    simp only [hasTmplKids, Bool.and_eq_true] at hg
    simp only [firstBin] at h
    split at h
    · exact hasTmplKids_firstBin rest y hg.2 h
    · cases h; exact hg.1

theorem sameBaseBins_firstBin (t : Agg) : ∀ (l : List (Key × Agg)) (y : Agg),
    sameBaseBins t l = true → firstBin l = some y → sameBase t y = true
  | [], y, _, h => by simp [firstBin] at h
  | (k, a) :: rest, y, hg, h => by
    simp only [sameBaseBins, Bool.and_eq_true] at hg
    simp only [firstBin] at h
    split at h
    · exact sameBaseBins_firstBin t rest y hg.2 h
    · next hk => cases h; simpa [hk] using hg.1

/-- two bins that both follow the template `t` share a base -/
theorem sameBase_via (t x y : Agg) (ht : good t = true) (hx : good x = true) (hy : good y = true)
    (h1 : sameBase t x = true) (h2 : sameBase t y = true) : sameBase x y = true :=
  sameBase_trans x t y hx ht hy (sameBase_symm t x ht hx h1) h2

mutual
theorem compat_immut : ∀ (a b : Agg), good a = true → good b = true → hasTmpl a = true →
    hasTmpl b = true → sameBase a b = true → compat (immut a) (immut b) = true
  | .node k1 e1 s1 t1 kids1, .node k2 e2 s2 t2 kids2, ha, hb, hta, htb, h => by
    have hc := compat_of_sameBase _ _ ha hb hta htb h
    rw [compat.eq_def] at hc
    simp only [Bool.and_eq_true] at hc
    have hshape := hc.1
    simp only [good, Bool.and_eq_true] at ha hb
    simp only [hasTmpl, Bool.and_eq_true] at hta htb
    simp only [sameBase, Bool.and_eq_true, decide_eq_true_eq] at h
    obtain ⟨⟨hk, ht⟩, hrest⟩ := h
    subst hk
    subst ht
    simp only [immut]
    rw [compat.eq_def]
    simp only [sameShape_mapQty, mapQty_isSparse, firstBin_immutKids, hshape, Bool.true_and]
    cases hsp : k1.isSparse
    · simp only [hsp] at hrest
      simp only [Bool.false_eq_true, if_false]
      exact compatZip_immut kids1 kids2 ha.1.1.1.2 hb.1.1.1.2 hta.2 htb.2 hrest
    · simp only [hsp, if_true, Bool.and_eq_true] at hrest hta
      simp only [if_true, Bool.and_eq_true]
      cases t1 with
      | none => simp at hta
      | some t =>
        simp only [sameBaseTmpl] at hrest
        have hgt : good t = true := by
          have := ha.1.1.2
          simp only [goodTmpl, Bool.and_eq_true] at this
          exact this.1
        refine ⟨compatShared_immut kids1 t kids2 hgt ha.1.1.1.2 hb.1.1.1.2 hta.2 htb.2
          hrest.1.1 hrest.1.2 hrest.2, ?_⟩
        cases hf : firstBin kids2 with
        | none => simp
        | some y =>
          simp only [Option.map_some]
          exact compatFirst_immut kids1 t y hgt (goodKids_firstBin _ _ hb.1.1.1.2 hf)
            (hasTmplKids_firstBin _ _ htb.2 hf) (sameBaseBins_firstBin t _ _ hrest.2 hf)
            ha.1.1.1.2 hta.2 hrest.1.2
theorem compatZip_immut : ∀ (l1 l2 : List (Key × Agg)), goodKids l1 = true → goodKids l2 = true →
    hasTmplKids l1 = true → hasTmplKids l2 = true → sameBaseZip l1 l2 = true →
    compatZip (immutKids l1) (immutKids l2) = true
  | [], [], _, _, _, _, _ => by simp [immutKids, compatZip]
  | [], _ :: _, _, _, _, _, h => by simp [sameBaseZip] at h
  | _ :: _, [], _, _, _, _, h => by simp [sameBaseZip] at h
  | (k1, a) :: r1, (k2, b) :: r2, hg1, hg2, ht1, ht2, h => by
    simp only [goodKids, Bool.and_eq_true] at hg1 hg2
    simp only [hasTmplKids, Bool.and_eq_true] at ht1 ht2
    simp only [sameBaseZip, Bool.and_eq_true, decide_eq_true_eq] at h
    simp only [immutKids, compatZip, Bool.and_eq_true, decide_eq_true_eq]
    exact ⟨⟨h.1.1, compat_immut a b hg1.1 hg2.1 ht1.1 ht2.1 h.1.2⟩,
      compatZip_immut r1 r2 hg1.2 hg2.2 ht1.2 ht2.2 h.2⟩
theorem compatShared_immut : ∀ (l1 : List (Key × Agg)) (t : Agg) (l2 : List (Key × Agg)),
    good t = true → goodKids l1 = true → goodKids l2 = true →
    hasTmplKids l1 = true → hasTmplKids l2 = true →
    sameBaseFlow l1 l2 = true → sameBaseBins t l1 = true → sameBaseBins t l2 = true →
    compatShared (immutKids l1) (immutKids l2) = true
  | [], _, _, _, _, _, _, _, _, _, _ => by simp [immutKids, compatShared]
  | (k1, a) :: r1, t, l2, hgt, hg1, hg2, ht1, ht2, hf, hb1, hb2 => by
    simp only [goodKids, Bool.and_eq_true] at hg1
    simp only [hasTmplKids, Bool.and_eq_true] at ht1
    simp only [sameBaseFlow, Bool.and_eq_true] at hf
    simp only [sameBaseBins, Bool.and_eq_true] at hb1
    simp only [immutKids, compatShared, Bool.and_eq_true, lookupK_immutKids]
    refine ⟨?_, compatShared_immut r1 t l2 hgt hg1.2 hg2 ht1.2 ht2 hf.2 hb1.2 hb2⟩
    cases hl : lookupK k1 l2 with
    | none => simp
    | some b =>
      simp only [Option.map_some]
      have hgb := goodKids_lookupK k1 l2 b hg2 hl
      have htb := hasTmplKids_lookupK k1 l2 b ht2 hl
      by_cases hk : k1 = .nanflow
      · subst hk
        have := hf.1
        simp only [if_true, hl] at this
        exact compat_immut a b hg1.1 hgb ht1.1 htb this
      · have h1 : sameBase t a = true := by simpa [hk] using hb1.1
        have h2 := sameBaseBins_lookupK t k1 hk l2 b hb2 hl
        exact compat_immut a b hg1.1 hgb ht1.1 htb (sameBase_via t a b hgt hg1.1 hgb h1 h2)
theorem compatFirst_immut : ∀ (l1 : List (Key × Agg)) (t y : Agg),
    good t = true → good y = true → hasTmpl y = true → sameBase t y = true →
    goodKids l1 = true → hasTmplKids l1 = true → sameBaseBins t l1 = true →
    compatFirst (immutKids l1) (immut y) = true
  | [], _, _, _, _, _, _, _, _, _ => by simp [immutKids, compatFirst]
  | (k1, a) :: r1, t, y, hgt, hgy, hty, hy, hg1, ht1, hb1 => by
    simp only [goodKids, Bool.and_eq_true] at hg1
    simp only [hasTmplKids, Bool.and_eq_true] at ht1
    simp only [sameBaseBins, Bool.and_eq_true] at hb1
    simp only [immutKids, compatFirst]
    by_cases hk : k1 = .nanflow
    · simp only [hk, if_true]
      exact compatFirst_immut r1 t y hgt hgy hty hy hg1.2 ht1.2 hb1.2
    · simp only [hk, if_false]
      have h1 : sameBase t a = true := by simpa [hk] using hb1.1
      exact compat_immut a y hg1.1 hgy ht1.1 hty (sameBase_via t a y hgt hg1.1 hgy h1 hy)
end

theorem add_immut (a b : Agg) (ha : good a = true) (hb : good b = true)
    (hta : hasTmpl a = true) (htb : hasTmpl b = true) (h : sameBase a b = true) :
    add (immut a) (immut b) = (add a b).map immut := by
  simp only [add, compat_of_sameBase a b ha hb hta htb h, compat_immut a b ha hb hta htb h,
    if_true, Option.map_some, addRaw_immut]

end Hg.CodecAux
