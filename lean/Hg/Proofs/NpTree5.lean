/-
  Hg.Proofs.NpTree5 — the main induction: the vectorised fill returns the row-wise state up to
  zero-weight bins (`Zrel`).
-/
import Hg.Proofs.NpTree4
import Hg.Proofs.NpLeaf

namespace Hg.Np

/-- what the main induction proves of a tree -/
def MainP (a : Agg) : Prop :=
  ∀ (rows : List Datum) (ws : List Val), rows.length = ws.length → nonNegW ws = true →
    goodRun a (rows.zip ws) = true → hasTmpl a = true → noNanForSums a rows = true →
    qtysOk a rows = true →
    ∃ a', fillNp a rows ws = some a' ∧ Zrel a' (fillAll a (rows.zip ws))

/-- the induction hypothesis applied to a child with its masked weight vector -/
theorem MainP.masked {a : Agg} (h : MainP a) {k : Kind} {keys : List Key} (key : Key)
    {rows : List Datum} {ws : List Val} (hlen : rows.length = ws.length) (hw : nonNegW ws = true)
    (hroute : ∀ d ∈ rows, ∀ w, ∃ tg, route k keys d w = .ok tg)
    (hrun : goodRun a (maskS k keys key (rows.zip ws)) = true) (ht : hasTmpl a = true)
    (hs : noNanForSums a rows = true) (hq : qtysOk a rows = true) :
    ∃ m a', maskFor k keys key rows ws = .ok m ∧ fillNp a rows m = some a' ∧
      Zrel a' (fillAll a (maskS k keys key (rows.zip ws))) := by
  obtain ⟨m, hm, hl, hz⟩ := maskFor_spec k keys key rows ws hlen hw hroute
  rw [← hz] at hrun ⊢
  obtain ⟨a', ha', hZ⟩ := h rows m hl (nonNegW_mask hl hz hrun) hrun ht hs hq
  exact ⟨m, a', hm, ha', hZ⟩

theorem fillNp_leaf {k : Kind} (hk : k.isLeaf = true) (e : Val) (st : St) (tmpl : Option Agg)
    (kids : List (Key × Agg)) (rows : List Datum) (ws : List Val) :
    fillNp (.node k e st tmpl kids) rows ws =
      match leafNp k e st rows ws with
      | .ok (e', st') => some (.node k e' st' tmpl kids)
      | .error _ => none := by
  rw [fillNp]
  simp only [hk, if_true]
  rfl

theorem fillNp_fixed {k : Kind} (hk : k.isLeaf = false) (hs : k.isSparse = false) (e : Val) (st : St)
    (tmpl : Option Agg) (kids : List (Key × Agg)) (rows : List Datum) (ws : List Val) :
    fillNp (.node k e st tmpl kids) rows ws =
      match fillNpKids kids k (keysOf kids) rows ws with
      | none => none
      | some kids' => some (.node k (e + sumW ws) st tmpl kids') := by
  rw [fillNp]
  simp only [hk, hs, Bool.false_eq_true, if_false]
  rfl

theorem fillNp_sparse {k : Kind} (hk : k.isLeaf = false) (hs : k.isSparse = true) (e : Val) (st : St)
    (tmpl : Option Agg) (kids : List (Key × Agg)) (rows : List Datum) (ws : List Val) :
    fillNp (.node k e st tmpl kids) rows ws =
      match batchKeys k (keysOf kids) rows ws with
      | .error _ => none
      | .ok touched =>
        match fillNpSparse kids k (keysOf kids) touched rows ws with
        | none => none
        | some kids' =>
          match fillNpNew tmpl k (keysOf kids) (touched.filter (fun key => !(hasKey key kids))) rows ws with
          | none => none
          | some created =>
            some (.node k (e + sumW ws) st tmpl (created.foldl (fun acc p => insertK p.1 p.2 acc) kids')) := by
  rw [fillNp]
  simp only [hk, hs, Bool.false_eq_true, if_false, if_true]
  rfl

theorem hit_nonnan {k : Kind} {keys : List Key} {key : Key} {S : List (Datum × Val)}
    (hl : k.layoutOk keys = true) (hn : key ∉ keys) (h : hit k keys key S) : key ≠ .nanflow := by
  rintro rfl
  obtain ⟨p, _, hs, _, hr⟩ := h
  obtain ⟨key0, he, hc⟩ := P3.route_sparse hs hr
  injection he with he
  injection he with he
  subst he
  have hcls : k.cls = true := by
    cases hk : k.cls
    · rw [hk] at hc; cases hc
    · rfl
  exact hn (P3.nanflow_mem_of_cls hcls hl)

/-- the node case of the main induction -/
theorem main_node (k : Kind) (e : Val) (st : St) (tmpl : Option Agg) (kids : List (Key × Agg))
    (iht : ∀ t, tmpl = some t → MainP t) (ihk : ∀ p ∈ kids, MainP p.2) :
    MainP (.node k e st tmpl kids) := by
  intro rows ws hlen hw hrun ht hs hq
  have hg := goodRun_good _ _ hrun
  have GN := P3.good_node hg
  have HT := P3.hasTmpl_node ht
  have NN := noNan_node hs
  have QN := qtysOk_node hq
  by_cases hk : k.isLeaf = true
  · -- leaf
    obtain ⟨e', st', h1, h2⟩ := leafNp_fillAll k hk e st tmpl kids rows ws hlen hw hrun hs
      (List.all_eq_true.2 QN.here)
    refine ⟨.node k e' st' tmpl kids, ?_, ?_⟩
    · rw [fillNp_leaf hk, h1]
    · rw [h2]; exact Zrel.refl _
  · have hk' : k.isLeaf = false := by simpa using hk
    obtain ⟨kidsF, hF, f1, f2, f3, f4⟩ :=
      run_decomp (st := st) (tmpl := tmpl) hk' (keysOf kids) (rows.zip ws) kids e (fun _ _ => rfl) hrun
    rw [entAfter_eq rows ws e hlen hw] at hF
    have hroute : ∀ d ∈ rows, ∀ w, ∃ tg, route k (keysOf kids) d w = .ok tg :=
      fun d hd w => route_ok_of_evalOk hk' GN.layout (QN.here d hd) w
    have hnd : (keysOf kids).Nodup := KF.layoutOk_nodup k _ GN.layout
    -- every existing child, filled with its mask
    have hchild : ∀ p ∈ kids, ∃ m a', maskFor k (keysOf kids) p.1 rows ws = .ok m ∧
        fillNp p.2 rows m = some a' ∧
        Zrel a' (fillAll p.2 (maskS k (keysOf kids) p.1 (rows.zip ws))) := by
      intro p hp
      have hl := lookupK_of_mem_nodup hnd hp
      exact (ihk p hp).masked p.1 hlen hw hroute (f1 p.1 p.2 hl).2 (HT.hkids p hp) (NN.kids p hp)
        (QN.kids p hp)
    by_cases hsp : k.isSparse = true
    · -- sparse
      obtain ⟨t, rfl⟩ := HT.hsome hsp
      have hgt := (GN.gtmpl t rfl)
      have hSLkids : P3.SL k.cls kids := P3.SL_of_good GN hsp
      obtain ⟨touched, hbk, htn, htm⟩ := batchKeys_spec hsp (keysOf kids) (rows.zip ws) [] List.nodup_nil
        (fun p hp w => hroute p.1 (List.of_mem_zip hp).1 w)
      have htm' : ∀ key, key ∈ touched ↔ ∃ p ∈ rows.zip ws, touches k (keysOf kids) key p := by
        intro key; rw [htm key]; simp
      have hit_touched : ∀ key, key ≠ .nanflow → hit k (keysOf kids) key (rows.zip ws) → key ∈ touched := by
        rintro key hne ⟨p, hp, hp1⟩
        exact (htm' key).2 ⟨p, hp, touches_of_hit1 hp1 hne⟩
      -- existing children
      obtain ⟨lV, hlV, hkV, hlookV⟩ := fillNpSparse_spec (touched := touched)
        (fun key a a' => Zrel a' (fillAll a (maskS k (keysOf kids) key (rows.zip ws)))) kids
        (fun p hp _ => hchild p hp)
      -- new bins
      have hnewmask : ∀ key, lookupK key kids = none →
          goodRun t (maskS k (keysOf kids) key (rows.zip ws)) = true := by
        intro key hn
        by_cases hh : hit k (keysOf kids) key (rows.zip ws)
        · obtain ⟨t', ht', _, hr'⟩ := f2 key hn hh
          cases ht'; exact hr'
        · exact goodRun_gated t hgt.1 _ (gated_of_zero (maskS_not_hit hsp hh))
      obtain ⟨created, hcr, hkc, hQc⟩ := fillNpNew_spec (t := t) (k := k) (keys := keysOf kids)
        (rows := rows) (ws := ws)
        (fun key b => Zrel b (fillAll t (maskS k (keysOf kids) key (rows.zip ws))))
        (touched.filter (fun key => !(hasKey key kids)))
        (by
          intro key hkey
          rw [List.mem_filter] at hkey
          have hn : lookupK key kids = none := hasKey_false_lookup (by simpa using hkey.2)
          exact (iht t rfl).masked key hlen hw hroute (hnewmask key hn) (HT.htmpl t rfl).1
            (NN.tmpl t rfl) (QN.tmpl t rfl))
      have hSLV : P3.SL k.cls lV := P3.SL_of_keys hkV hSLkids
      have hcnd : (keysOf created).Nodup := by rw [hkc]; exact htn.filter _
      have hcbase : ∀ key ∈ keysOf created, lookupK key lV = none ∧ Key.inCls k.cls key = true := by
        intro key hkey
        rw [hkc, List.mem_filter] at hkey
        constructor
        · rw [lookupK_none_iff, hkV, ← lookupK_none_iff]
          exact hasKey_false_lookup (by simpa using hkey.2)
        · obtain ⟨p, _, _, _, hr⟩ := (htm' key).1 hkey.1
          obtain ⟨key0, he, hc⟩ := P3.route_sparse hsp hr
          injection he with he
          injection he with he
          subst he
          exact hc
      obtain ⟨hSLfin, hlookfin⟩ := foldl_insertK_spec created lV hSLV hcnd hcbase
      refine ⟨.node k (e + sumW ws) st (some t) (created.foldl (fun acc p => insertK p.1 p.2 acc) lV), ?_, ?_⟩
      · rw [fillNp_sparse hk' hsp, batchKeys_eq, hbk]
        simp only [hlV, hcr]
      · rw [hF]
        have hgF : good (.node k (e + sumW ws) st (some t) kidsF) = true := by
          rw [← hF]; exact good_fillAll _ _ hrun
        have hSLF : P3.SL k.cls kidsF := P3.SL_of_good (P3.good_node hgF) hsp
        -- lookups in the created list
        have hcreated_none : ∀ key, ¬ (key ∈ touched ∧ lookupK key kids = none) →
            lookupK key created = none := by
          intro key hcon
          rw [lookupK_none_iff, hkc, List.mem_filter]
          rintro ⟨h1, h2⟩
          exact hcon ⟨h1, hasKey_false_lookup (by simpa using h2)⟩
        have hcreated_some : ∀ key, key ∈ touched → lookupK key kids = none →
            ∃ b, lookupK key created = some b ∧
              Zrel b (fillAll t (maskS k (keysOf kids) key (rows.zip ws))) := by
          intro key h1 h2
          have hmem : key ∈ keysOf created := by
            rw [hkc, List.mem_filter]
            refine ⟨h1, ?_⟩
            have : hasKey key kids = false := by unfold hasKey; rw [h2]; rfl
            simp [this]
          obtain ⟨b, hb⟩ := lookupK_some_of_mem_keys hmem
          exact ⟨b, hb, hQc _ (P3.lookupK_mem hb)⟩
        -- the lookup of the final vectorised children, case by case
        have hcaseA : ∀ key a, lookupK key kids = some a →
            ∃ x, lookupK key (created.foldl (fun acc p => insertK p.1 p.2 acc) lV) = some x ∧
              Zrel x (fillAll a (maskS k (keysOf kids) key (rows.zip ws))) := by
          intro key a ha
          rw [hlookfin key, hcreated_none key (fun hcon => by rw [hcon.2] at ha; cases ha)]
          simp only
          by_cases hc : key = .nanflow ∨ key ∈ touched
          · exact (hlookV key a ha).1 hc
          · refine ⟨a, (hlookV key a ha).2 hc, ?_⟩
            have hnh : ¬ hit k (keysOf kids) key (rows.zip ws) := by
              intro hh
              exact hc (Or.inr (hit_touched key (fun e => hc (Or.inl e)) hh))
            rw [fillAll_gated a _ (gated_of_zero (maskS_not_hit hsp hnh))]
            exact Zrel.refl a
        have hVnone : ∀ key, lookupK key kids = none → key ∉ touched →
            lookupK key (created.foldl (fun acc p => insertK p.1 p.2 acc) lV) = none := by
          intro key hn hnt
          rw [hlookfin key, hcreated_none key (fun hcon => hnt hcon.1)]
          simp only
          rw [lookupK_none_iff, hkV, ← lookupK_none_iff]; exact hn
        have hVnew : ∀ key, lookupK key kids = none → key ∈ touched →
            ∃ b, lookupK key (created.foldl (fun acc p => insertK p.1 p.2 acc) lV) = some b ∧
              Zrel b (fillAll t (maskS k (keysOf kids) key (rows.zip ws))) := by
          intro key hn ht'
          obtain ⟨b, hb, hZ⟩ := hcreated_some key ht' hn
          refine ⟨b, ?_, hZ⟩
          rw [hlookfin key, hb]
        have hnotmem : ∀ key, lookupK key kids = none → key ∉ keysOf kids := fun key hn =>
          lookupK_none_iff.1 hn
        apply Zrel.sparse k (e + sumW ws) st (some t) _ kidsF hsp hSLfin hSLF
        · -- both present
          intro key x y hx hy
          cases hka : lookupK key kids with
          | some a =>
            obtain ⟨x', hx', hZ⟩ := hcaseA key a hka
            rw [hx] at hx'; cases hx'
            rw [(f1 key a hka).1] at hy; cases hy
            exact hZ
          | none =>
            by_cases ht' : key ∈ touched
            · obtain ⟨b, hb, hZ⟩ := hVnew key hka ht'
              rw [hx] at hb; cases hb
              by_cases hh : hit k (keysOf kids) key (rows.zip ws)
              · obtain ⟨t', ht'', hl', _⟩ := f2 key hka hh
                cases ht''
                rw [hl'] at hy; cases hy
                exact hZ
              · rw [f3 key hka hh] at hy; cases hy
            · rw [hVnone key hka ht'] at hx; cases hx
        · -- in excess: the template plus zero-weight bins
          intro key x t' hx hy ht''
          cases ht''
          cases hka : lookupK key kids with
          | some a => rw [(f1 key a hka).1] at hy; cases hy
          | none =>
            by_cases ht' : key ∈ touched
            · obtain ⟨b, hb, hZ⟩ := hVnew key hka ht'
              rw [hx] at hb; cases hb
              have hnh : ¬ hit k (keysOf kids) key (rows.zip ws) := by
                intro hh
                obtain ⟨t', ht'', hl', _⟩ := f2 key hka hh
                rw [hl'] at hy; cases hy
              rw [fillAll_gated t _ (gated_of_zero (maskS_not_hit hsp hnh))] at hZ
              exact hZ
            · rw [hVnone key hka ht'] at hx; cases hx
        · -- in excess: zero entries
          intro key x hx hy
          cases hka : lookupK key kids with
          | some a => rw [(f1 key a hka).1] at hy; cases hy
          | none =>
            by_cases ht' : key ∈ touched
            · obtain ⟨b, hb, hZ⟩ := hVnew key hka ht'
              rw [hx] at hb; cases hb
              have hnh : ¬ hit k (keysOf kids) key (rows.zip ws) := by
                intro hh
                obtain ⟨t', ht'', hl', _⟩ := f2 key hka hh
                rw [hl'] at hy; cases hy
              rw [fillAll_gated t _ (gated_of_zero (maskS_not_hit hsp hnh))] at hZ
              obtain ⟨p, _, hne, _, _⟩ := (htm' key).1 ht'
              refine ⟨hne, ?_, rfl⟩
              rw [hZ.entries_eq]
              obtain ⟨kt, et, stt, tmt, kidst⟩ := t
              have := (P3.isZeroTree_node hgt.2).1
              show et.isZero = true
              rw [this]; rfl
            · rw [hVnone key hka ht'] at hx; cases hx
        · -- absent on the vectorised side
          intro key hx
          cases hka : lookupK key kids with
          | some a =>
            obtain ⟨x', hx', _⟩ := hcaseA key a hka
            rw [hx] at hx'; cases hx'
          | none =>
            have hnt : key ∉ touched := by
              intro ht'
              obtain ⟨b, hb, _⟩ := hVnew key hka ht'
              rw [hx] at hb; cases hb
            apply f3 key hka
            intro hh
            exact hnt (hit_touched key (hit_nonnan GN.layout (hnotmem key hka) hh) hh)
    · -- fixed layout
      have hsp' : k.isSparse = false := by simpa using hsp
      obtain ⟨lV, hlV, hkV, hlookV⟩ := fillNpKids_spec
        (fun key a a' => Zrel a' (fillAll a (maskS k (keysOf kids) key (rows.zip ws)))) kids hchild
      refine ⟨.node k (e + sumW ws) st tmpl lV, ?_, ?_⟩
      · rw [fillNp_fixed hk' hsp', hlV]
      · rw [hF]
        apply Zrel.fixed k (e + sumW ws) st tmpl lV kidsF hsp' (by rw [hkV, f4 hsp']) (by rw [hkV]; exact hnd)
        intro key x y hx hy
        have hmem : key ∈ keysOf kids := by rw [← hkV]; exact mem_keys_of_lookupK hx
        obtain ⟨a, ha⟩ := lookupK_some_of_mem_keys hmem
        obtain ⟨a', ha', hZ⟩ := hlookV key a ha
        rw [hx] at ha'; cases ha'
        rw [(f1 key a ha).1] at hy; cases hy
        exact hZ

/-- **the vectorised fill returns the row-wise state up to zero-weight bins** -/
theorem main_all : ∀ a : Agg, MainP a :=
  P3.Agg.ind_a (P := MainP) (fun k e st tmpl kids iht ihk => main_node k e st tmpl kids iht ihk)

end Hg.Np
