/-
  Hg.Proofs.NpLeaf — the batch reduction of a leaf (`leafNp`) equals the row-wise fills.
-/
import Hg.Model.Np
import Hg.Model.Spec
import Hg.Model.NpHyp
import Hg.Proofs.LeafLaws
import Hg.Proofs.TreeLaws3
import Hg.Proofs.FillEq
import Hg.Proofs.NpLeafAvg

set_option linter.unusedSimpArgs false
set_option linter.unusedVariables false

namespace Hg.NpLeaf

open Val

/-! ### the row-wise run of a leaf on `(entries, state)` pairs -/

/-- one row-wise fill of a leaf (a raising fill leaves the state unchanged) -/
def leafStep (k : Kind) (r : Val × St) (p : Datum × Val) : Val × St :=
  if p.2.pos then
    match leafFill k r.1 r.2 p.1 p.2 with
    | .ok r' => r'
    | .error _ => r
  else r

/-- the row-wise fills of a leaf -/
def leafSeq (k : Kind) (r : Val × St) (l : List (Datum × Val)) : Val × St :=
  l.foldl (leafStep k) r

theorem leafSeq_cons (k : Kind) (r : Val × St) (p : Datum × Val) (l : List (Datum × Val)) :
    leafSeq k r (p :: l) = leafSeq k (leafStep k r p) l := rfl

theorem fill_leaf_step (k : Kind) (hk : k.isLeaf = true) (e : Val) (st : St) (tmpl : Option Agg)
    (kids : List (Key × Agg)) (d : Datum) (w : Val) :
    (fill (.node k e st tmpl kids) d w).1
      = .node k (leafStep k (e, st) (d, w)).1 (leafStep k (e, st) (d, w)).2 tmpl kids := by
  by_cases hp : w.pos = true
  · cases h : leafFill k e st d w with
    | ok r =>
      obtain ⟨e', st'⟩ := r
      rw [FE.fill_leaf_ok k e st tmpl kids d w hp hk e' st' h]
      simp [leafStep, hp, h]
    | error f =>
      rw [FE.fill_leaf_err k e st tmpl kids d w hp hk f h]
      simp [leafStep, hp, h]
  · have hp' : w.pos = false := by simpa using hp
    rw [FE.fill_closed k e st tmpl kids d w hp']
    simp [leafStep, hp']

theorem fillAll_leaf (k : Kind) (hk : k.isLeaf = true) (tmpl : Option Agg) (kids : List (Key × Agg))
    (l : List (Datum × Val)) (e : Val) (st : St) :
    fillAll (.node k e st tmpl kids) l
      = .node k (leafSeq k (e, st) l).1 (leafSeq k (e, st) l).2 tmpl kids := by
  induction l generalizing e st with
  | nil => rfl
  | cons p l ih =>
    rw [fillAll_cons, fill_leaf_step k hk, ih, leafSeq_cons]

/-! ### weights -/

/-- every weight is a finite non-negative number -/
def NonNeg (ws : List Val) : Prop := ∀ w ∈ ws, ∃ r, w = fin r ∧ 0 ≤ r

theorem nonNeg_of (ws : List Val) (h : nonNegW ws = true) : NonNeg ws := by
  intro w hw
  unfold nonNegW at h
  have := List.all_eq_true.1 h w hw
  cases w <;> simp at this
  exact ⟨_, rfl, this⟩

theorem NonNeg.tail {w : Val} {ws : List Val} (h : NonNeg (w :: ws)) : NonNeg ws :=
  fun x hx => h x (List.mem_cons_of_mem _ hx)

theorem NonNeg.head {w : Val} {ws : List Val} (h : NonNeg (w :: ws)) : ∃ r, w = fin r ∧ 0 ≤ r :=
  h w (List.mem_cons_self ..)

/-- a non-negative weight that does not pass the gate is zero -/
theorem eq_zero_of_not_pos {w : Val} (h : ∃ r, w = fin r ∧ 0 ≤ r) (hp : w.pos = false) :
    w = fin 0 := by
  obtain ⟨r, rfl, hr⟩ := h
  rw [pos_fin] at hp
  have : ¬ 0 < r := by simpa using hp
  have : r = 0 := le_antisymm (not_lt.1 this) hr
  rw [this]

theorem finW_zip (xs ws : List Val) (h : NonNeg ws) : FinW (xs.zip ws) := by
  intro p hp
  obtain ⟨r, hr, _⟩ := h p.2 (List.of_mem_zip hp).2
  exact ⟨r, hr⟩

/-! ### sums from a shifted accumulator -/

theorem foldl_add_shift (ws : List Val) (a : Val) :
    ws.foldl (fun acc w => acc + w) a = a + ws.foldl (fun acc w => acc + w) 0 := by
  induction ws generalizing a with
  | nil => simp
  | cons w ws ih =>
    rw [List.foldl_cons, List.foldl_cons, ih (a + w), ih (0 + w), Val.zero_add, Val.add_assoc]

theorem sumW_nil : sumW [] = fin 0 := rfl

theorem sumW_cons (w : Val) (ws : List Val) : sumW (w :: ws) = w + sumW ws := by
  unfold sumW
  rw [List.foldl_cons, foldl_add_shift, Val.zero_add]

theorem foldl_cond_shift {α : Type} (c : α → Bool) (g : α → Val) (l : List α) (a : Val) :
    l.foldl (fun acc p => if c p then acc + g p else acc) a
      = a + l.foldl (fun acc p => if c p then acc + g p else acc) 0 := by
  induction l generalizing a with
  | nil => simp
  | cons p l ih =>
    rw [List.foldl_cons, List.foldl_cons]
    by_cases hc : c p = true
    · simp only [hc, if_true]
      rw [ih (a + g p), ih (0 + g p), Val.zero_add, Val.add_assoc]
    · simp only [hc, if_false, Bool.false_eq_true]
      exact ih a

theorem wsum_cons (x : Val) (xs : List Val) (w : Val) (ws : List Val) (sel : Val → Val → Bool) :
    wsum (x :: xs) (w :: ws) sel = if sel x w then x * w + wsum xs ws sel else wsum xs ws sel := by
  unfold wsum
  rw [List.zip_cons_cons, List.foldl_cons]
  by_cases h : sel x w = true
  · simp only [h, if_true]
    have := foldl_cond_shift (fun p : Val × Val => sel p.1 p.2) (fun p => p.1 * p.2) (xs.zip ws)
      (x * w)
    rw [Val.zero_add]
    exact this
  · simp only [h, if_false, Bool.false_eq_true]

/-! ### evaluating the quantity on the whole batch -/

theorem mapM_ok_of {α β : Type} (f : α → Except Fault β) (g : α → β) (l : List α)
    (h : ∀ a ∈ l, f a = .ok (g a)) : l.mapM f = .ok (l.map g) := by
  induction l with
  | nil => rfl
  | cons a l ih =>
    rw [List.mapM_cons, h a (List.mem_cons_self ..), ih (fun b hb => h b (List.mem_cons_of_mem _ hb))]
    rfl

/-- the value of the quantity on a record (0 if it faults) -/
def xOf (q : Qty) (d : Datum) : Val :=
  match q.evalNum d with
  | .ok v => v
  | .error _ => fin 0

/-- the Bag key of a record -/
def kOf (q : Qty) (r : BagRange) (d : Datum) : BKey :=
  match q.evalBag r d with
  | .ok v => v
  | .error _ => .str ""

theorem evalNum_xOf {q : Qty} {d : Datum}
    (h : (match q.evalNum d with | .ok _ => true | .error _ => false) = true) :
    q.evalNum d = .ok (xOf q d) := by
  unfold xOf
  cases hx : q.evalNum d with
  | ok v => rfl
  | error f => rw [hx] at h; cases h

theorem evalBag_kOf {q : Qty} {r : BagRange} {d : Datum}
    (h : (match q.evalBag r d with | .ok _ => true | .error _ => false) = true) :
    q.evalBag r d = .ok (kOf q r d) := by
  unfold kOf
  cases hx : q.evalBag r d with
  | ok v => rfl
  | error f => rw [hx] at h; cases h

/-! ### Count -/

theorem leafStep_count (e : Val) (st : St) (d : Datum) (w : Val) :
    leafStep .count (e, st) (d, w) = if w.pos then (e + w, st) else (e, st) := by
  unfold leafStep
  simp [leafFill]

theorem count_np (rows : List Datum) (ws : List Val) (e : Val) (st : St)
    (hlen : rows.length = ws.length) (hw : NonNeg ws) :
    leafSeq .count (e, st) (rows.zip ws) = (e + sumW ws, st) := by
  induction rows generalizing ws e with
  | nil =>
    cases ws with
    | nil => simp [leafSeq, sumW_nil]
    | cons w ws => cases hlen
  | cons d rows ih =>
    cases ws with
    | nil => cases hlen
    | cons w ws =>
      rw [List.zip_cons_cons, leafSeq_cons, leafStep_count, sumW_cons]
      have hlen' : rows.length = ws.length := by simpa using hlen
      by_cases hp : w.pos = true
      · simp only [hp, if_true]
        rw [ih ws _ hlen' hw.tail, Val.add_assoc]
      · have hp' : w.pos = false := by simpa using hp
        simp only [hp', if_false, Bool.false_eq_true]
        rw [ih ws _ hlen' hw.tail, eq_zero_of_not_pos hw.head hp', fin_zero_add]

/-! ### Sum -/

theorem leafStep_sum (q : Qty) (e s : Val) (d : Datum) (w x : Val) (hx : q.evalNum d = .ok x) :
    leafStep (.sum q) (e, .sum s) (d, w)
      = if w.pos then (e + w, .sum (s + x * w)) else (e, .sum s) := by
  unfold leafStep
  simp [leafFill, hx, bind, Except.bind, pure, Except.pure]

theorem sum_np (q : Qty) (rows : List Datum) (ws : List Val) (e s : Val)
    (hlen : rows.length = ws.length) (hw : NonNeg ws)
    (hx : ∀ d ∈ rows, q.evalNum d = .ok (xOf q d) ∧ (xOf q d).isNaN = false) :
    leafSeq (.sum q) (e, .sum s) (rows.zip ws)
      = (e + sumW ws, .sum (s + wsum (rows.map (xOf q)) ws selNum)) := by
  induction rows generalizing ws e s with
  | nil =>
    cases ws with
    | nil => simp [leafSeq, sumW_nil, wsum]
    | cons w ws => cases hlen
  | cons d rows ih =>
    cases ws with
    | nil => cases hlen
    | cons w ws =>
      obtain ⟨hd, hnan⟩ := hx d (List.mem_cons_self ..)
      have hx' : ∀ d ∈ rows, q.evalNum d = .ok (xOf q d) ∧ (xOf q d).isNaN = false :=
        fun a ha => hx a (List.mem_cons_of_mem _ ha)
      have hlen' : rows.length = ws.length := by simpa using hlen
      rw [List.zip_cons_cons, leafSeq_cons, leafStep_sum q e s d w _ hd, sumW_cons, List.map_cons,
        wsum_cons]
      by_cases hp : w.pos = true
      · simp only [hp, if_true, selNum, hnan, Bool.not_false, Bool.and_self]
        rw [ih ws _ _ hlen' hw.tail hx', Val.add_assoc, Val.add_assoc]
      · have hp' : w.pos = false := by simpa using hp
        simp only [hp', if_false, Bool.false_eq_true, selNum, Bool.and_false]
        rw [ih ws _ _ hlen' hw.tail hx', eq_zero_of_not_pos hw.head hp', fin_zero_add]

/-! ### Minimize / Maximize -/

/-- the candidate values of `Minimize._numpy` / `Maximize._numpy`: non-NaN, positive weight -/
def candOf (xs ws : List Val) : List Val :=
  ((xs.zip ws).filter (fun p => selNum p.1 p.2)).map (·.1)

theorem candOf_cons (x : Val) (xs : List Val) (w : Val) (ws : List Val) :
    candOf (x :: xs) (w :: ws) = if selNum x w then x :: candOf xs ws else candOf xs ws := by
  unfold candOf
  rw [List.zip_cons_cons, List.filter_cons]
  by_cases h : selNum x w = true <;> simp [h]

theorem leafStep_min (q : Qty) (e m : Val) (d : Datum) (w x : Val) (hx : q.evalNum d = .ok x) :
    leafStep (.minimize q) (e, .ext m) (d, w)
      = if w.pos then (e + w, .ext (if m.isNaN || Val.lt x m then x else m)) else (e, .ext m) := by
  unfold leafStep
  simp [leafFill, hx, bind, Except.bind, pure, Except.pure]

theorem leafStep_max (q : Qty) (e m : Val) (d : Datum) (w x : Val) (hx : q.evalNum d = .ok x) :
    leafStep (.maximize q) (e, .ext m) (d, w)
      = if w.pos then (e + w, .ext (if m.isNaN || Val.lt m x then x else m)) else (e, .ext m) := by
  unfold leafStep
  simp [leafFill, hx, bind, Except.bind, pure, Except.pure]

theorem min_nan_step (m : Val) : (if m.isNaN || Val.lt nan m then nan else m) = m := by
  cases m <;> simp [isNaN, Val.lt]

theorem max_nan_step (m : Val) : (if m.isNaN || Val.lt m nan then nan else m) = m := by
  cases m <;> simp [isNaN, Val.lt]

theorem min_np (q : Qty) (rows : List Datum) (ws : List Val) (e m : Val)
    (hlen : rows.length = ws.length) (hw : NonNeg ws)
    (hx : ∀ d ∈ rows, q.evalNum d = .ok (xOf q d)) :
    leafSeq (.minimize q) (e, .ext m) (rows.zip ws)
      = (e + sumW ws, .ext ((candOf (rows.map (xOf q)) ws).foldl
          (fun acc x => if acc.isNaN || Val.lt x acc then x else acc) m)) := by
  induction rows generalizing ws e m with
  | nil =>
    cases ws with
    | nil => simp [leafSeq, sumW_nil, candOf]
    | cons w ws => cases hlen
  | cons d rows ih =>
    cases ws with
    | nil => cases hlen
    | cons w ws =>
      have hd := hx d (List.mem_cons_self ..)
      have hx' : ∀ d ∈ rows, q.evalNum d = .ok (xOf q d) :=
        fun a ha => hx a (List.mem_cons_of_mem _ ha)
      have hlen' : rows.length = ws.length := by simpa using hlen
      rw [List.zip_cons_cons, leafSeq_cons, leafStep_min q e m d w _ hd, sumW_cons, List.map_cons,
        candOf_cons]
      by_cases hp : w.pos = true
      · simp only [hp, if_true, selNum, Bool.and_true]
        rw [ih ws _ _ hlen' hw.tail hx', Val.add_assoc]
        cases hn : (xOf q d).isNaN with
        | false => simp
        | true =>
          have : xOf q d = nan := by cases h : xOf q d <;> simp [h, isNaN] at hn; rfl
          rw [this, min_nan_step]
          simp
      · have hp' : w.pos = false := by simpa using hp
        simp only [hp', if_false, Bool.false_eq_true, selNum, Bool.and_false]
        rw [ih ws _ _ hlen' hw.tail hx', eq_zero_of_not_pos hw.head hp', fin_zero_add]

theorem max_np (q : Qty) (rows : List Datum) (ws : List Val) (e m : Val)
    (hlen : rows.length = ws.length) (hw : NonNeg ws)
    (hx : ∀ d ∈ rows, q.evalNum d = .ok (xOf q d)) :
    leafSeq (.maximize q) (e, .ext m) (rows.zip ws)
      = (e + sumW ws, .ext ((candOf (rows.map (xOf q)) ws).foldl
          (fun acc x => if acc.isNaN || Val.lt acc x then x else acc) m)) := by
  induction rows generalizing ws e m with
  | nil =>
    cases ws with
    | nil => simp [leafSeq, sumW_nil, candOf]
    | cons w ws => cases hlen
  | cons d rows ih =>
    cases ws with
    | nil => cases hlen
    | cons w ws =>
      have hd := hx d (List.mem_cons_self ..)
      have hx' : ∀ d ∈ rows, q.evalNum d = .ok (xOf q d) :=
        fun a ha => hx a (List.mem_cons_of_mem _ ha)
      have hlen' : rows.length = ws.length := by simpa using hlen
      rw [List.zip_cons_cons, leafSeq_cons, leafStep_max q e m d w _ hd, sumW_cons, List.map_cons,
        candOf_cons]
      by_cases hp : w.pos = true
      · simp only [hp, if_true, selNum, Bool.and_true]
        rw [ih ws _ _ hlen' hw.tail hx', Val.add_assoc]
        cases hn : (xOf q d).isNaN with
        | false => simp
        | true =>
          have : xOf q d = nan := by cases h : xOf q d <;> simp [h, isNaN] at hn; rfl
          rw [this, max_nan_step]
          simp
      · have hp' : w.pos = false := by simpa using hp
        simp only [hp', if_false, Bool.false_eq_true, selNum, Bool.and_false]
        rw [ih ws _ _ hlen' hw.tail hx', eq_zero_of_not_pos hw.head hp', fin_zero_add]

/-! ### Bag -/

theorem leafStep_bag (q : Qty) (r : BagRange) (e : Val) (m : List (BKey × Val)) (d : Datum)
    (w : Val) (key : BKey) (hx : q.evalBag r d = .ok key) :
    leafStep (.bag q r) (e, .bag m) (d, w)
      = if w.pos then (e + w, .bag (bagInsert key w m)) else (e, .bag m) := by
  unfold leafStep
  simp [leafFill, hx, bind, Except.bind, pure, Except.pure]

/-- the fold of `Bag._numpy` -/
def bagFold (r : Val × List (BKey × Val)) (l : List (BKey × Val)) : Val × List (BKey × Val) :=
  l.foldl (fun (acc : Val × List (BKey × Val)) p =>
    if p.2.pos then (acc.1 + p.2, bagInsert p.1 p.2 acc.2) else acc) r

theorem bag_np (q : Qty) (r : BagRange) (rows : List Datum) (ws : List Val) (e : Val)
    (m : List (BKey × Val)) (hx : ∀ d ∈ rows, q.evalBag r d = .ok (kOf q r d)) :
    leafSeq (.bag q r) (e, .bag m) (rows.zip ws)
      = ((bagFold (e, m) ((rows.map (kOf q r)).zip ws)).1,
         .bag (bagFold (e, m) ((rows.map (kOf q r)).zip ws)).2) := by
  induction rows generalizing ws e m with
  | nil => simp [leafSeq, bagFold]
  | cons d rows ih =>
    cases ws with
    | nil => simp [leafSeq, bagFold]
    | cons w ws =>
      have hd := hx d (List.mem_cons_self ..)
      have hx' : ∀ d ∈ rows, q.evalBag r d = .ok (kOf q r d) :=
        fun a ha => hx a (List.mem_cons_of_mem _ ha)
      rw [List.zip_cons_cons, leafSeq_cons, leafStep_bag q r e m d w _ hd, List.map_cons,
        List.zip_cons_cons]
      unfold bagFold
      rw [List.foldl_cons]
      by_cases hp : w.pos = true
      · simp only [hp, if_true]
        exact ih ws _ _ hx'
      · have hp' : w.pos = false := by simpa using hp
        simp only [hp', if_false, Bool.false_eq_true]
        exact ih ws _ _ hx'

/-! ### Average / Deviate -/

theorem leafStep_avg (q : Qty) (e m : Val) (d : Datum) (w x : Val) (hx : q.evalNum d = .ok x) :
    leafStep (.average q) (e, .mean m) (d, w)
      = if w.pos then ((meanUpdate e m x w).1, .mean (meanUpdate e m x w).2) else (e, .mean m) := by
  unfold leafStep
  simp [leafFill, hx, bind, Except.bind, pure, Except.pure]

theorem leafStep_dev (q : Qty) (e m v : Val) (d : Datum) (w x : Val) (hx : q.evalNum d = .ok x) :
    leafStep (.deviate q) (e, .dev m v) (d, w)
      = if w.pos then ((devStep (e, m, v) x w).1, .dev (devStep (e, m, v) x w).2.1
          (devStep (e, m, v) x w).2.2) else (e, .dev m v) := by
  unfold leafStep devStep
  simp [leafFill, hx, bind, Except.bind, pure, Except.pure]

theorem avg_seq (q : Qty) (rows : List Datum) (ws : List Val) (e m : Val)
    (hx : ∀ d ∈ rows, q.evalNum d = .ok (xOf q d)) :
    leafSeq (.average q) (e, .mean m) (rows.zip ws)
      = ((avgSeq (e, m) ((rows.map (xOf q)).zip ws)).1,
         .mean (avgSeq (e, m) ((rows.map (xOf q)).zip ws)).2) := by
  induction rows generalizing ws e m with
  | nil => simp [leafSeq, avgSeq]
  | cons d rows ih =>
    cases ws with
    | nil => simp [leafSeq, avgSeq]
    | cons w ws =>
      have hd := hx d (List.mem_cons_self ..)
      have hx' : ∀ d ∈ rows, q.evalNum d = .ok (xOf q d) :=
        fun a ha => hx a (List.mem_cons_of_mem _ ha)
      rw [List.zip_cons_cons, leafSeq_cons, leafStep_avg q e m d w _ hd, List.map_cons,
        List.zip_cons_cons]
      unfold avgSeq
      rw [List.foldl_cons]
      by_cases hp : w.pos = true
      · simp only [hp, if_true]
        exact ih ws _ _ hx'
      · have hp' : w.pos = false := by simpa using hp
        simp only [hp', if_false, Bool.false_eq_true]
        exact ih ws _ _ hx'

theorem dev_seq (q : Qty) (rows : List Datum) (ws : List Val) (e m v : Val)
    (hx : ∀ d ∈ rows, q.evalNum d = .ok (xOf q d)) :
    leafSeq (.deviate q) (e, .dev m v) (rows.zip ws)
      = ((devSeq (e, m, v) ((rows.map (xOf q)).zip ws)).1,
         .dev (devSeq (e, m, v) ((rows.map (xOf q)).zip ws)).2.1
           (devSeq (e, m, v) ((rows.map (xOf q)).zip ws)).2.2) := by
  induction rows generalizing ws e m v with
  | nil => simp [leafSeq, devSeq]
  | cons d rows ih =>
    cases ws with
    | nil => simp [leafSeq, devSeq]
    | cons w ws =>
      have hd := hx d (List.mem_cons_self ..)
      have hx' : ∀ d ∈ rows, q.evalNum d = .ok (xOf q d) :=
        fun a ha => hx a (List.mem_cons_of_mem _ ha)
      rw [List.zip_cons_cons, leafSeq_cons, leafStep_dev q e m v d w _ hd, List.map_cons,
        List.zip_cons_cons]
      unfold devSeq
      rw [List.foldl_cons]
      by_cases hp : w.pos = true
      · simp only [hp, if_true]
        exact ih ws _ _ _ hx'
      · have hp' : w.pos = false := by simpa using hp
        simp only [hp', if_false, Bool.false_eq_true]
        exact ih ws _ _ _ hx'

/-! ### `leafNp` once the quantity has been evaluated on the batch -/

theorem leafNp_sum (q : Qty) (e s : Val) (rows : List Datum) (ws xs : List Val)
    (h : rows.mapM q.evalNum = .ok xs) :
    leafNp (.sum q) e (.sum s) rows ws = .ok (e + sumW ws, .sum (s + wsum xs ws selNum)) := by
  simp only [leafNp, h]; rfl

theorem leafNp_min (q : Qty) (e m : Val) (rows : List Datum) (ws xs : List Val)
    (h : rows.mapM q.evalNum = .ok xs) :
    leafNp (.minimize q) e (.ext m) rows ws = .ok (e + sumW ws, .ext ((candOf xs ws).foldl
          (fun acc x => if acc.isNaN || Val.lt x acc then x else acc) m)) := by
  simp only [leafNp, h]; rfl

theorem leafNp_max (q : Qty) (e m : Val) (rows : List Datum) (ws xs : List Val)
    (h : rows.mapM q.evalNum = .ok xs) :
    leafNp (.maximize q) e (.ext m) rows ws = .ok (e + sumW ws, .ext ((candOf xs ws).foldl
          (fun acc x => if acc.isNaN || Val.lt acc x then x else acc) m)) := by
  simp only [leafNp, h]; rfl

theorem leafNp_bag (q : Qty) (r : BagRange) (e : Val) (m : List (BKey × Val)) (rows : List Datum)
    (ws : List Val) (keys : List BKey) (h : rows.mapM (q.evalBag r) = .ok keys) :
    leafNp (.bag q r) e (.bag m) rows ws
      = .ok ((bagFold (e, m) (keys.zip ws)).1, .bag (bagFold (e, m) (keys.zip ws)).2) := by
  simp only [leafNp, h]; rfl

theorem leafNp_avg (q : Qty) (e m : Val) (rows : List Datum) (ws xs : List Val)
    (h : rows.mapM q.evalNum = .ok xs) :
    leafNp (.average q) e (.mean m) rows ws
      = .ok ((avgNp e m xs ws).1, .mean (avgNp e m xs ws).2) := by
  unfold avgNp
  simp only [leafNp, h, bind, Except.bind, pure, Except.pure]
  split_ifs <;> rfl

theorem leafNp_dev (q : Qty) (e m v : Val) (rows : List Datum) (ws xs : List Val)
    (h : rows.mapM q.evalNum = .ok xs) :
    leafNp (.deviate q) e (.dev m v) rows ws
      = .ok ((devNp e m v xs ws).1, .dev (devNp e m v xs ws).2.1 (devNp e m v xs ws).2.2) := by
  unfold devNp
  simp only [leafNp, h, bind, Except.bind, pure, Except.pure]
  split_ifs <;> rfl

/-! ### the theorem -/

theorem evalOk_num {k : Kind} {q : Qty} {rows : List Datum}
    (hk : ∀ d, k.evalOk d = (match q.evalNum d with | .ok _ => true | .error _ => false))
    (hq : rows.all k.evalOk = true) : ∀ d ∈ rows, q.evalNum d = .ok (xOf q d) := by
  intro d hd
  have := List.all_eq_true.1 hq d hd
  rw [hk] at this
  exact evalNum_xOf this

end Hg.NpLeaf

namespace Hg

open Val NpLeaf

/-- the batch reduction of a leaf is exactly the state after the row-wise fills -/
theorem leafNp_fillAll (k : Kind) (hk : k.isLeaf = true) (e : Val) (st : St) (tmpl : Option Agg)
    (kids : List (Key × Agg)) (rows : List Datum) (ws : List Val)
    (hlen : rows.length = ws.length) (hw : nonNegW ws = true)
    (hrun : goodRun (.node k e st tmpl kids) (rows.zip ws) = true)
    (hs : noNanForSums (.node k e st tmpl kids) rows = true)
    (hq : rows.all k.evalOk = true) :
    ∃ e' st', leafNp k e st rows ws = .ok (e', st') ∧
      fillAll (.node k e st tmpl kids) (rows.zip ws) = .node k e' st' tmpl kids := by
  have hg := goodRun_good _ _ hrun
  have hlg : leafGood k e st = true := by
    unfold good at hg
    simp only [Bool.and_eq_true] at hg
    have := hg.1.1.1.1.1
    rwa [if_pos hk] at this
  have hcore := leafGood_core_of hlg
  have hW := nonNeg_of ws hw
  refine ⟨(leafSeq k (e, st) (rows.zip ws)).1, (leafSeq k (e, st) (rows.zip ws)).2, ?_,
    fillAll_leaf k hk tmpl kids _ e st⟩
  show leafNp k e st rows ws = .ok (leafSeq k (e, st) (rows.zip ws))
  cases k <;> simp [Kind.isLeaf] at hk
  · -- Count
    rw [count_np rows ws e st hlen hW]
    simp only [leafNp]
  · -- Sum
    rename_i qy
    obtain ⟨q0, a, rfl, _, rfl, _⟩ := good_sum_iff.mp hcore
    have hx := evalOk_num (k := .sum qy) (q := qy) (fun _ => rfl) hq
    have hn : ∀ d ∈ rows, qy.evalNum d = .ok (xOf qy d) ∧ (xOf qy d).isNaN = false := by
      intro d hd
      refine ⟨hx d hd, ?_⟩
      simp only [noNanForSums, Bool.and_eq_true] at hs
      have := List.all_eq_true.1 hs.1.1 d hd
      rw [hx d hd] at this
      simpa using this
    rw [sum_np qy rows ws _ _ hlen hW hn, leafNp_sum qy _ _ rows ws _ (mapM_ok_of _ _ _ hx)]
  · -- Average
    rename_i qy
    obtain ⟨q0, m, rfl, hq0, rfl, _⟩ := good_avg_iff.mp hcore
    have hx := evalOk_num (k := .average qy) (q := qy) (fun _ => rfl) hq
    rw [avg_seq qy rows ws _ _ hx, leafNp_avg qy _ _ rows ws _ (mapM_ok_of _ _ _ hx),
      avgNp_eq q0 hq0 m _ ws (finW_zip _ ws hW)]
  · -- Deviate
    rename_i qy
    obtain ⟨q0, m, v, rfl, hq0, rfl, _, hd⟩ := good_dev_iff.mp hcore
    have hx := evalOk_num (k := .deviate qy) (q := qy) (fun _ => rfl) hq
    rw [dev_seq qy rows ws _ _ _ hx, leafNp_dev qy _ _ _ rows ws _ (mapM_ok_of _ _ _ hx),
      devNp_eq q0 hq0 m v (fun h => hd h.ne') _ ws (finW_zip _ ws hW)]
  · -- Minimize
    rename_i qy
    obtain ⟨q0, m, rfl, _, rfl, _⟩ := good_min_iff.mp hcore
    have hx := evalOk_num (k := .minimize qy) (q := qy) (fun _ => rfl) hq
    rw [min_np qy rows ws _ _ hlen hW hx, leafNp_min qy _ _ rows ws _ (mapM_ok_of _ _ _ hx)]
  · -- Maximize
    rename_i qy
    obtain ⟨q0, m, rfl, _, rfl, _⟩ := good_max_iff.mp hcore
    have hx := evalOk_num (k := .maximize qy) (q := qy) (fun _ => rfl) hq
    rw [max_np qy rows ws _ _ hlen hW hx, leafNp_max qy _ _ rows ws _ (mapM_ok_of _ _ _ hx)]
  · -- Bag
    rename_i qy r
    obtain ⟨q0, m, rfl, _, rfl, _, _⟩ := good_bag_iff.mp hcore
    have hx : ∀ d ∈ rows, qy.evalBag r d = .ok (kOf qy r d) := by
      intro d hd
      exact evalBag_kOf (List.all_eq_true.1 hq d hd)
    rw [bag_np qy r rows ws _ _ hx, leafNp_bag qy r _ _ rows ws _ (mapM_ok_of _ _ _ hx)]

end Hg
