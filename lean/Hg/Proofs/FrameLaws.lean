/-
  Hg.Proofs.FrameLaws — the dataframe interface (C14): the tree `construct_empty_hist` builds is a
  well-formed empty tree; the histogram of a feature counts the rows, equals the direct fill of the
  same tree, and the histograms of row-wise chunks add up to the histogram of the whole frame.

  Helper lemmas: Hg/Proofs/FrameTree.lean (shape and well-formedness of `mkTree`),
  Hg/Proofs/FrameFill.lean (one record keeps a `mkTree`-style tree `good`),
  Hg/Proofs/FrameZrel.lean (`+` respects "equal up to zero-weight bins").
-/
import Hg.Model.Frame
import Hg.Proofs.All
import Hg.Proofs.NpLaws
import Hg.Proofs.FrameTree
import Hg.Proofs.FrameFill
import Hg.Proofs.FrameZrel

namespace Hg.Frame

open Np (Zrel)

/-! ### small facts -/

theorem allK_mono {p p' : Kind → Bool} (h : ∀ k, p k = true → p' k = true) :
    ∀ t : Agg, Np.allK p t = true → Np.allK p' t = true := by
  refine P3.Agg.ind_a (P := fun t => Np.allK p t = true → Np.allK p' t = true) ?_
  intro k e st tmpl kids iht ihk ht
  rw [Np.allK_node] at ht ⊢
  exact ⟨h k ht.1, fun t hte => iht t hte (ht.2.1 t hte), fun q hq => ihk q hq (ht.2.2 q hq)⟩

theorem qtysOk_single {t : Agg} {rows : List Datum} (h : qtysOk t rows = true) {d : Datum}
    (hd : d ∈ rows) : qtysOk t [d] = true := by
  rw [Np.qtysOk_eq_allK] at h ⊢
  refine allK_mono ?_ t h
  intro k hk
  simp only [Np.okK, List.all_eq_true] at hk ⊢
  intro x hx
  rw [List.mem_singleton] at hx
  subst hx
  exact hk x hd

theorem length_unitWeights (rows : List Datum) : rows.length = (unitWeights rows).length := by
  simp [unitWeights]

theorem nonNegW_unit (rows : List Datum) : nonNegW (unitWeights rows) = true := by
  simp only [nonNegW, unitWeights, List.all_map, List.all_eq_true]
  intro d _
  show decide ((0 : Rat) ≤ ((1 : Nat) : Rat)) = true
  simp

theorem unitWeights_append (a b : List Datum) : unitWeights (a ++ b) = unitWeights a ++ unitWeights b := by
  simp [unitWeights]

theorem sumW_unit (rows : List Datum) : sumW (unitWeights rows) = .fin (rows.length : Rat) := by
  induction rows with
  | nil => rfl
  | cons d rows ih =>
    have h1 : (1 : Val) = .fin 1 := by
      show Val.fin ((1 : Nat) : Rat) = _
      norm_num
    rw [unitWeights, List.map_cons, Np.sumW_cons]
    change (1 : Val) + sumW (unitWeights rows) = _
    rw [ih, h1, Val.fin_add_fin, List.length_cons]
    congr 1
    push_cast
    ring

/-- zipped with unit weights, the rows of the whole frame are the concatenation of the zipped chunks -/
theorem zip_flatten (chunks : List (List Datum)) :
    (chunks.map (fun c => c.zip (unitWeights c))).flatten =
      chunks.flatten.zip (unitWeights chunks.flatten) := by
  induction chunks with
  | nil => rfl
  | cons c cs ih =>
    rw [List.map_cons, List.flatten_cons, List.flatten_cons, ih, unitWeights_append,
      List.zip_append (length_unitWeights c)]

theorem qtysOk_flatten (t : Agg) : ∀ (chunks : List (List Datum)),
    (∀ c ∈ chunks, qtysOk t c = true) → qtysOk t chunks.flatten = true
  | [], _ => by
    rw [Np.qtysOk_eq_allK]
    refine allK_mono (p := fun _ => true) (fun k _ => ?_) t ?_
    · rfl
    · refine P3.Agg.ind_a (P := fun t => Np.allK (fun _ => true) t = true) ?_ t
      intro k e st tmpl kids iht ihk
      rw [Np.allK_node]
      exact ⟨rfl, iht, ihk⟩
  | c :: cs, h => by
    rw [List.flatten_cons, Np.qtysOk_append]
    exact ⟨h c (List.mem_cons_self ..), qtysOk_flatten t cs (fun x hx => h x (List.mem_cons_of_mem _ hx))⟩

/-- the root of `mkTree` has no entries -/
theorem mkTree_entries (axes : List (Nat × AxisSpec)) : (mkTree axes).entries = 0 := by
  cases axes with
  | nil => rfl
  | cons a rest =>
    obtain ⟨pos, s⟩ := a
    show (s.wrap pos (mkTree rest)).entries = 0
    rw [wrap_eq]
    rfl

/-- the vectorised fill adds the weights of the batch to `entries` (Count leaves and containers) -/
theorem fillNp_entries {k : Kind} {e : Val} {st : St} {tm : Option Agg} {kids : List (Key × Agg)}
    (hc : cntK k = true) {rows : List Datum} {ws : List Val} {h : Agg}
    (hf : fillNp (.node k e st tm kids) rows ws = some h) : h.entries = e + sumW ws := by
  by_cases hl : k.isLeaf = true
  · have hkc : k = .count := by
      cases k <;> simp [cntK] at hc <;> simp [Kind.isLeaf] at hl <;> rfl
    subst hkc
    rw [Np.fillNp_leaf rfl] at hf
    simp only [leafNp] at hf
    cases hf
    rfl
  · have hl' : k.isLeaf = false := by simpa using hl
    by_cases hs : k.isSparse = true
    · rw [Np.fillNp_sparse hl' hs] at hf
      split at hf
      · cases hf
      · split at hf
        · cases hf
        · split at hf
          · cases hf
          · cases hf; rfl
    · have hs' : k.isSparse = false := by simpa using hs
      rw [Np.fillNp_fixed hl' hs'] at hf
      split at hf
      · cases hf
      · cases hf; rfl

/-- the vectorised fill of every chunk succeeds and is the row-wise state up to zero-weight bins -/
theorem mapM_Zrel {f : List Datum → Option Agg} {g : List Datum → Agg} :
    ∀ (chunks : List (List Datum)), (∀ c ∈ chunks, ∃ a, f c = some a ∧ Zrel a (g c)) →
      ∃ parts, chunks.mapM f = some parts ∧ parts.length = chunks.length ∧
        ∀ i (hi : i < chunks.length), ∃ a, parts[i]? = some a ∧ Zrel a (g chunks[i])
  | [], _ => ⟨[], rfl, rfl, fun i hi => absurd hi (Nat.not_lt_zero _)⟩
  | c :: cs, h => by
    obtain ⟨a, ha, hZ⟩ := h c (List.mem_cons_self ..)
    obtain ⟨parts, hp, hlen, hi⟩ := mapM_Zrel cs (fun x hx => h x (List.mem_cons_of_mem _ hx))
    refine ⟨a :: parts, ?_, by simp [hlen], ?_⟩
    · rw [List.mapM_cons, ha, hp]; rfl
    · intro i hlt
      cases i with
      | zero => exact ⟨a, rfl, hZ⟩
      | succ i =>
        simp only [List.length_cons, Nat.add_lt_add_iff_right] at hlt
        obtain ⟨a', h1, h2⟩ := hi i hlt
        exact ⟨a', by simpa using h1, by simpa using h2⟩

end Hg.Frame

namespace Hg

open Hg.Frame
open Np (Zrel)

/-- the tree of a feature is a well-formed empty tree with templates, in which a record follows one path -/
theorem mkTree_wf (axes : List (Nat × AxisSpec)) (hv : axesValid axes = true) :
    isZeroTree (mkTree axes) = true ∧ good (mkTree axes) = true ∧ hasTmpl (mkTree axes) = true ∧
    noBins (mkTree axes) = true ∧ singlePath (mkTree axes) = true := by
  have h := WF_mkTree axes hv
  exact ⟨h.zero, h.good, h.tmpl, h.nobins, h.single⟩

/-- no `Sum` in the tree -/
theorem mkTree_noNanForSums (axes : List (Nat × AxisSpec)) (rows : List Datum) :
    noNanForSums (mkTree axes) rows = true :=
  noNan_of_cnt rows _ (cnt_mkTree axes)

/-- every record-by-record fill of rows whose columns evaluate succeeds and keeps the state `good` -/
theorem mkTree_goodRun (axes : List (Nat × AxisSpec)) (hv : axesValid axes = true) (rows : List Datum)
    (hq : qtysOk (mkTree axes) rows = true) :
    goodRun (mkTree axes) (rows.zip (unitWeights rows)) = true := by
  have h := WF_mkTree axes hv
  apply goodRun_of_singles _ _ h.zero h.tmpl h.nobins h.good
  intro dw hdw
  obtain ⟨d, w⟩ := dw
  have hd : d ∈ rows := (List.of_mem_zip hdw).1
  have hw : w = 1 := by
    have := (List.of_mem_zip hdw).2
    simp only [unitWeights, List.mem_map] at this
    obtain ⟨_, _, h⟩ := this
    exact h.symm
  subst hw
  exact goodRun_single _ h d (qtysOk_single hq hd)

/-- `entries` of the histogram of a feature is the number of rows -/
theorem make_entries (axes : List (Nat × AxisSpec)) (rows : List Datum) (h : Agg)
    (hf : fillNp (mkTree axes) rows (unitWeights rows) = some h) :
    h.entries = .fin (rows.length : Rat) := by
  have he := mkTree_entries axes
  have hc := cnt_mkTree axes
  revert hf he hc
  generalize mkTree axes = t
  obtain ⟨k, e, st, tm, kids⟩ := t
  intro hf he hc
  have he' : e = 0 := he
  subst he'
  rw [fillNp_entries (Np.allK_node.1 hc).1 hf, sumW_unit]
  show Val.fin ((0 : Nat) : Rat) + _ = _
  rw [Val.fin_add_fin]
  congr 1
  push_cast
  ring

/-- the histogram `make_histograms` returns equals the direct record-by-record fill of the same tree
(up to zero-weight sparse bins) and the vectorised fill does not raise -/
theorem make_eq_direct (bs : BinSpecs) (feature : List Column) (rows : List Datum) (axes : List (Nat × AxisSpec))
    (ha : axesOf bs feature = some axes) (hv : axesValid axes = true) (hq : qtysOk (mkTree axes) rows = true) :
    (makeHist bs feature rows).isSome = true ∧
    (makeHist bs feature rows).map prune = (directHist bs feature rows).map prune := by
  have hW := WF_mkTree axes hv
  have h := fillNp_eq_rows (mkTree axes) rows (unitWeights rows) (length_unitWeights rows)
    (nonNegW_unit rows) (mkTree_goodRun axes hv rows hq) hW.tmpl (mkTree_noNanForSums axes rows) hq
  unfold makeHist directHist
  rw [ha, Option.bind_some, Option.map_some, Option.map_some]
  refine ⟨?_, h⟩
  cases hf : fillNp (mkTree axes) rows (unitWeights rows) with
  | none => rw [hf] at h; cases h
  | some a => rfl

/-- **chunks add up**: for every partition of the rows into chunks and every order / bracketing of the
`+` that combines the per-chunk histograms (made with the same features / bin_specs / var_dtype), the
sum is the histogram of the whole frame (up to zero-weight sparse bins) -/
theorem chunks_add_up (bs : BinSpecs) (feature : List Column) (chunks : List (List Datum)) (σ : Sched)
    (axes : List (Nat × AxisSpec)) (ha : axesOf bs feature = some axes) (hv : axesValid axes = true)
    (hq : ∀ c ∈ chunks, qtysOk (mkTree axes) c = true) (hσ : σ.leaves.Perm (List.range chunks.length)) :
    ∃ parts whole, chunks.mapM (makeHist bs feature) = some parts ∧
      makeHist bs feature chunks.flatten = some whole ∧
      (reduce parts σ).map prune = some (prune whole) := by
  have hW := WF_mkTree axes hv
  have hz := hW.zero
  have hg := hW.good
  have ht := hW.tmpl
  have hn := hW.nobins
  have hmk : ∀ rows, makeHist bs feature rows = fillNp (mkTree axes) rows (unitWeights rows) := by
    intro rows; unfold makeHist; rw [ha, Option.bind_some]
  -- every vectorised fill
  have hnp : ∀ rows, qtysOk (mkTree axes) rows = true →
      ∃ a, makeHist bs feature rows = some a ∧
        Zrel a (fillAll (mkTree axes) (rows.zip (unitWeights rows))) := by
    intro rows hqr
    rw [hmk]
    exact Np.main_all (mkTree axes) rows (unitWeights rows) (length_unitWeights rows)
      (nonNegW_unit rows) (mkTree_goodRun axes hv rows hqr) ht (mkTree_noNanForSums axes rows) hqr
  obtain ⟨parts, hparts, hlen, hpi⟩ := mapM_Zrel (f := makeHist bs feature)
    (g := fun c => fillAll (mkTree axes) (c.zip (unitWeights c))) chunks (fun c hc => hnp c (hq c hc))
  obtain ⟨whole, hwhole, hZw⟩ := hnp chunks.flatten (qtysOk_flatten _ chunks hq)
  refine ⟨parts, whole, hparts, hwhole, ?_⟩
  -- the row-wise side
  set z := mkTree axes with hzdef
  set zc : List (List (Datum × Val)) := chunks.map (fun c => c.zip (unitWeights c)) with hzc
  have hruns : ∀ c ∈ zc, goodRun z c = true := by
    intro c hc
    rw [hzc, List.mem_map] at hc
    obtain ⟨c0, hc0, rfl⟩ := hc
    exact mkTree_goodRun axes hv c0 (hq c0 hc0)
  have hzlen : zc.length = chunks.length := by rw [hzc, List.length_map]
  -- along the schedule
  have key : ∀ τ : Sched, (∀ i ∈ τ.leaves, i < chunks.length) →
      ∃ X, reduce parts τ = some X ∧
        Zrel X (fillAll z (τ.leaves.map (fun i => zc.getD i [])).flatten) := by
    intro τ
    induction τ with
    | leaf i =>
      intro hτ
      have hi : i < chunks.length := hτ i (by simp [Sched.leaves])
      obtain ⟨a, ha1, ha2⟩ := hpi i hi
      refine ⟨a, ha1, ?_⟩
      have e : zc.getD i [] = chunks[i].zip (unitWeights chunks[i]) := by
        simp [hzc, hi]
      simp only [Sched.leaves, List.map_cons, List.map_nil, List.flatten_cons, List.flatten_nil,
        List.append_nil]
      rw [e]
      exact ha2
    | node l r ihl ihr =>
      intro hτ
      have hl : ∀ i ∈ l.leaves, i < chunks.length :=
        fun i hi => hτ i (by simp [Sched.leaves, hi])
      have hr : ∀ i ∈ r.leaves, i < chunks.length :=
        fun i hi => hτ i (by simp [Sched.leaves, hi])
      obtain ⟨Xl, hXl, hZl⟩ := ihl hl
      obtain ⟨Xr, hXr, hZr⟩ := ihr hr
      obtain ⟨_, gl⟩ := reduce_eq z zc l hz ht hn hg hruns (fun i hi => hzlen ▸ hl i hi)
      obtain ⟨_, gr⟩ := reduce_eq z zc r hz ht hn hg hruns (fun i hi => hzlen ▸ hr i hi)
      have hrl := goodRun_flatten z _ hz ht hn hg gl
      have hrr := goodRun_flatten z _ hz ht hn hg gr
      have gYl := good_fillAll _ _ hrl
      have gYr := good_fillAll _ _ hrr
      have tYl := hasTmpl_fillAll z (l.leaves.map (fun i => zc.getD i [])).flatten ht
      have tYr := hasTmpl_fillAll z (r.leaves.map (fun i => zc.getD i [])).flatten ht
      have sYl := sameBase_fillAll _ _ hrl
      have sYr := sameBase_fillAll _ _ hrr
      have sY := sameBase_trans _ _ _ gYl hg gYr (sameBase_symm _ _ hg gYl sYl) sYr
      obtain ⟨hadd, hZ⟩ := add_Zrel hZl hZr gYl gYr tYl tYr sY
      have happ := fillAll_append z _ _ hz ht hn hrl hrr
      rw [add_eq_some_addRaw _ _ gYl gYr tYl tYr sY] at happ
      refine ⟨addRaw Xl Xr, ?_, ?_⟩
      · simp only [reduce, hXl, hXr, Option.bind_some]
        exact hadd
      · simp only [Sched.leaves, List.map_append, List.flatten_append]
        rw [← Option.some.inj happ]
        exact hZ
  have hlt : ∀ i ∈ σ.leaves, i < chunks.length :=
    fun i hi => List.mem_range.1 (hσ.mem_iff.1 hi)
  obtain ⟨X, hX, hZX⟩ := key σ hlt
  -- the leaves of `σ` cover every chunk once
  have hσ' : σ.leaves.Perm (List.range zc.length) := by rw [hzlen]; exact hσ
  have hflat := goodRun_flatten z zc hz ht hn hg hruns
  have hpi' := partition_invariant z zc σ hz ht hn hruns hflat hσ'
  obtain ⟨hre, _⟩ := reduce_eq z zc σ hz ht hn hg hruns (fun i hi => hzlen ▸ hlt i hi)
  rw [hre] at hpi'
  rw [Option.some.inj hpi', hzc, zip_flatten] at hZX
  rw [hX, Option.map_some, hZX.prune_eq, hZw.prune_eq]

end Hg
