/-
  Hg.Proofs.FrameZrel — "equal up to zero-weight bins" (`Np.Zrel`) is a congruence for `+`:
  * `Zrel a r` transports `good` / `hasTmpl` / `sameBase` from the row-wise state `r` to `a`;
  * `Zrel a r → Zrel b s → Zrel (addRaw a b) (addRaw r s)` for states of one live tree.
-/
import Hg.Proofs.FrameFill
import Hg.Proofs.NpTree6
import Hg.Proofs.InvLawsA
import Hg.Proofs.InvLawsB

namespace Hg.Frame

open Np (Zrel)

/-! ### fixed layouts by lookup -/

theorem sameBaseZip_of_lookup : ∀ (l1 l2 : List (Key × Agg)), keysOf l1 = keysOf l2 → (keysOf l1).Nodup →
    (∀ key x y, lookupK key l1 = some x → lookupK key l2 = some y → sameBase x y = true) →
    sameBaseZip l1 l2 = true
  | [], [], _, _, _ => by rw [sameBaseZip]
  | [], _ :: _, h, _, _ => by cases h
  | _ :: _, [], h, _, _ => by cases h
  | (k1, a) :: r1, (k2, b) :: r2, hk, hn, h => by
    rw [P3.keysOf_cons, P3.keysOf_cons] at hk
    injection hk with hk1 hk2
    subst hk1
    rw [P3.keysOf_cons, List.nodup_cons] at hn
    rw [sameBaseZip]
    simp only [Bool.and_eq_true, decide_eq_true_eq]
    refine ⟨⟨trivial, h k1 a b (by rw [P3.lookupK_cons, if_pos rfl]) (by rw [P3.lookupK_cons, if_pos rfl])⟩,
      sameBaseZip_of_lookup r1 r2 hk2 hn.2 ?_⟩
    intro key x y hx hy
    have hne : ¬ k1 = key := by
      intro e; subst e
      exact hn.1 (P3.mem_keysOf (P3.lookupK_mem hx))
    exact h key x y (by rw [P3.lookupK_cons, if_neg hne]; exact hx)
      (by rw [P3.lookupK_cons, if_neg hne]; exact hy)

theorem sameBaseZip_lookup : ∀ (l1 l2 : List (Key × Agg)), sameBaseZip l1 l2 = true →
    ∀ key x y, lookupK key l1 = some x → lookupK key l2 = some y → sameBase x y = true
  | [], _, _, key, x, y, hx, _ => by cases hx
  | _ :: _, [], h, _, _, _, _, _ => by simp [sameBaseZip] at h
  | (k1, a) :: r1, (k2, b) :: r2, h, key, x, y, hx, hy => by
    rw [sameBaseZip] at h
    simp only [Bool.and_eq_true, decide_eq_true_eq] at h
    obtain ⟨⟨rfl, hab⟩, hr⟩ := h
    rw [P3.lookupK_cons] at hx hy
    by_cases hk : k1 = key
    · rw [if_pos hk] at hx hy
      cases hx; cases hy
      exact hab
    · rw [if_neg hk] at hx hy
      exact sameBaseZip_lookup r1 r2 hr key x y hx hy

/-! ### `Zrel` transports the invariants -/

/-- what `Zrel a r` transports from `r` to `a` -/
def TrP (a r : Agg) : Prop :=
  good r = true → hasTmpl r = true → good a = true ∧ hasTmpl a = true ∧ sameBase r a = true

theorem hasTmpl_node_mk {k : Kind} {e e' : Val} {st st' : St} {tm : Option Agg} {kids kids' : List (Key × Agg)}
    (h : hasTmpl (.node k e st tm kids) = true) (hk : ∀ p ∈ kids', hasTmpl p.2 = true) :
    hasTmpl (.node k e' st' tm kids') = true := by
  rw [hasTmpl] at h ⊢
  simp only [Bool.and_eq_true] at h ⊢
  exact ⟨h.1, P3.hasTmplKids_iff.2 hk⟩

theorem Zrel_transfer {a r : Agg} (h : Zrel a r) : TrP a r := by
  induction h with
  | refl a => exact fun hg ht => ⟨hg, ht, sameBase_refl a hg⟩
  | fixed k e st tm kidsA kidsR hk hkeys hnd _ ih =>
    intro hg ht
    obtain ⟨hsc, hlay, hgk, hgt, _, hct⟩ := (good_node k e st tm kidsR).1 hg
    have T := P3.hasTmpl_node ht
    have hkid : ∀ p ∈ kidsA, ∃ y, lookupK p.1 kidsR = some y ∧ good p.2 = true ∧ hasTmpl p.2 = true ∧
        sameBase y p.2 = true := by
      intro p hp
      have hpl := Np.lookupK_of_mem_nodup hnd hp
      have hm : p.1 ∈ keysOf kidsR := hkeys ▸ P3.mem_keysOf hp
      obtain ⟨y, hy⟩ := Np.lookupK_some_of_mem_keys hm
      have my := P3.lookupK_mem hy
      obtain ⟨h1, h2, h3⟩ := ih p.1 p.2 y hpl hy (hgk _ my) (T.hkids _ my)
      exact ⟨y, hy, h1, h2, h3⟩
    refine ⟨?_, ?_, ?_⟩
    · rw [good_node]
      refine ⟨hsc, by rw [hkeys]; exact hlay, ?_, hgt, fun h => ?_, hct⟩
      · intro p hp
        obtain ⟨_, _, h1, _⟩ := hkid p hp
        exact h1
      · rw [hk] at h; cases h
    · apply hasTmpl_node_mk ht
      intro p hp
      obtain ⟨_, _, _, h2, _⟩ := hkid p hp
      exact h2
    · rw [sameBase_node]
      refine ⟨rfl, rfl, fun h => ?_, fun _ => ?_⟩
      · rw [hk] at h; cases h
      · apply sameBaseZip_of_lookup kidsR kidsA hkeys.symm (hkeys ▸ hnd)
        intro key y x hy hx
        obtain ⟨y', hy', _, _, h3⟩ := hkid (key, x) (P3.lookupK_mem hx)
        rw [hy] at hy'
        cases hy'
        exact h3
  | sparse k e st tm kidsA kidsR hk hsA hsR _ _ hextra hnone ih1 ih2 =>
    intro hg ht
    obtain ⟨hsc, hlay, hgk, hgt, hsb, hct⟩ := (good_node k e st tm kidsR).1 hg
    have T := P3.hasTmpl_node ht
    obtain ⟨t, rfl⟩ := T.hsome hk
    obtain ⟨gt, _⟩ := (goodTmpl_iff _).1 hgt t rfl
    have tt := (T.htmpl t rfl).1
    have hbinsR := (P3.sameBaseBins_iff t).1 (by simpa [sameBaseTmpl] using hsb hk)
    have hkid : ∀ p ∈ kidsA, good p.2 = true ∧ hasTmpl p.2 = true ∧
        (p.1 ≠ .nanflow → sameBase t p.2 = true) ∧
        (∀ y, lookupK p.1 kidsR = some y → sameBase y p.2 = true) := by
      intro p hp
      have hpl := P3.lookupK_of_mem hsA hp
      cases hR : lookupK p.1 kidsR with
      | some y =>
        have my := P3.lookupK_mem hR
        have gy := hgk _ my
        obtain ⟨h1, h2, h3⟩ := ih1 p.1 p.2 y hpl hR gy (T.hkids _ my)
        exact ⟨h1, h2, fun hne => sameBase_trans t y p.2 gt gy h1 (hbinsR _ my hne) h3,
          fun y' hy' => by cases hy'; exact h3⟩
      | none =>
        obtain ⟨h1, h2, h3⟩ := ih2 p.1 p.2 t hpl hR rfl gt tt
        exact ⟨h1, h2, fun _ => h3, fun y hy => by cases hy⟩
    have hflow : ∀ y, lookupK .nanflow kidsR = some y →
        ∃ x, lookupK .nanflow kidsA = some x ∧ sameBase y x = true := by
      intro y hy
      cases hA : lookupK .nanflow kidsA with
      | none => rw [hnone _ hA] at hy; cases hy
      | some x => exact ⟨x, rfl, (hkid _ (P3.lookupK_mem hA)).2.2.2 y hy⟩
    have hbinsA : sameBaseTmpl (some t) kidsA = true := by
      rw [sameBaseTmpl, P3.sameBaseBins_iff]
      exact fun p hp hne => (hkid p hp).2.2.1 hne
    refine ⟨?_, ?_, ?_⟩
    · rw [good_node]
      refine ⟨hsc, ?_, fun p hp => (hkid p hp).1, hgt, fun _ => hbinsA, hct⟩
      apply layoutOk_of_SLk hk hlay hsA
      intro hc
      obtain ⟨y, hy⟩ := Np.lookupK_some_of_mem_keys (P3.nanflow_mem_of_cls hc hlay)
      obtain ⟨x, hx, _⟩ := hflow y hy
      exact Np.mem_keys_of_lookupK hx
    · exact hasTmpl_node_mk ht (fun p hp => (hkid p hp).2.1)
    · rw [sameBase_node]
      refine ⟨rfl, rfl, fun _ => ⟨?_, hsb hk, hbinsA⟩, fun h => ?_⟩
      · rw [P3.sameBaseFlow_iff]
        intro p hp hpn
        have hpl := P3.lookupK_of_mem hsR hp
        rw [hpn] at hpl
        exact hflow p.2 hpl
      · rw [hk] at h; cases h

/-! ### inversion -/

theorem Zrel_node_inv {k : Kind} {e : Val} {st : St} {tm : Option Agg} {kA : List (Key × Agg)} {r : Agg}
    (h : Zrel (.node k e st tm kA) r) : ∃ kR, r = .node k e st tm kR := by
  cases h <;> exact ⟨_, rfl⟩

theorem Zrel_fixed_inv {k : Kind} {e : Val} {st : St} {tm : Option Agg} {kA kR : List (Key × Agg)}
    (hs : k.isSparse = false) (h : Zrel (.node k e st tm kA) (.node k e st tm kR)) :
    keysOf kA = keysOf kR ∧
      (∀ key x y, lookupK key kA = some x → lookupK key kR = some y → Zrel x y) := by
  cases h with
  | refl =>
    refine ⟨rfl, fun key x y hx hy => ?_⟩
    rw [hx] at hy; cases hy; exact Zrel.refl _
  | fixed _ _ _ _ _ _ _ hkeys _ hZ => exact ⟨hkeys, hZ⟩
  | sparse _ _ _ _ _ _ hk => rw [hs] at hk; cases hk

theorem Zrel_sparse_inv {k : Kind} {e : Val} {st : St} {tm : Option Agg} {kA kR : List (Key × Agg)}
    (hs : k.isSparse = true) (h : Zrel (.node k e st tm kA) (.node k e st tm kR)) :
    (∀ key x y, lookupK key kA = some x → lookupK key kR = some y → Zrel x y) ∧
    (∀ key x t, lookupK key kA = some x → lookupK key kR = none → tm = some t → Zrel x t) ∧
    (∀ key x, lookupK key kA = some x → lookupK key kR = none →
        key ≠ .nanflow ∧ x.entries.isZero = true) ∧
    (∀ key, lookupK key kA = none → lookupK key kR = none) := by
  cases h with
  | refl =>
    refine ⟨fun key x y hx hy => ?_, fun key x t hx hy => ?_, fun key x hx hy => ?_, fun key h => h⟩
    · rw [hx] at hy; cases hy; exact Zrel.refl _
    · rw [hx] at hy; cases hy
    · rw [hx] at hy; cases hy
  | fixed _ _ _ _ _ _ hk => rw [hs] at hk; cases hk
  | sparse _ _ _ _ _ _ _ _ _ h1 h2 h3 h4 =>
    exact ⟨h1, h2, fun key x hx hy => ⟨(h3 key x hx hy).1, (h3 key x hx hy).2.1⟩, h4⟩

/-! ### `+` respects `Zrel` -/

def AddP (a : Agg) : Prop :=
  ∀ r b s, Zrel a r → Zrel b s → good r = true → good s = true → hasTmpl r = true →
    hasTmpl s = true → sameBase r s = true → Zrel (addRaw a b) (addRaw r s)

/-- a template is a right identity on the states of its structure -/
theorem addRaw_tmpl_right (x t : Agg) (gx : good x = true) (gt : good t = true)
    (tx : hasTmpl x = true) (tt : hasTmpl t = true) (zt : isZeroTree t = true) (nt : noBins t = true)
    (h : sameBase t x = true) : addRaw x t = x := by
  rw [addRaw_comm x t gx gt tx tt (sameBase_symm t x gt gx h)]
  exact P3.addRaw_zero_left t x gt gx zt nt h

theorem isZero_add {a b : Val} (ha : a.isZero = true) (hb : b.isZero = true) : (a + b).isZero = true := by
  rw [InvB.isZero_eq ha, InvB.isZero_eq hb, Val.fin_add_fin]
  simp [Val.isZero]

theorem addRaw_Zrel_node (k : Kind) (e : Val) (st : St) (tm : Option Agg) (kA : List (Key × Agg))
    (ihk : ∀ p ∈ kA, AddP p.2) : AddP (.node k e st tm kA) := by
  intro r b s hZa hZb gr gs tr ts hrs
  obtain ⟨ga, ta, hra⟩ := Zrel_transfer hZa gr tr
  obtain ⟨gb, tb, hsb⟩ := Zrel_transfer hZb gs ts
  obtain ⟨k2, e2, s2, t2, kB⟩ := b
  obtain ⟨kR, rfl⟩ := Zrel_node_inv hZa
  obtain ⟨kS, rfl⟩ := Zrel_node_inv hZb
  have SB := P3.sameBase_node hrs
  obtain rfl := SB.kind
  obtain rfl := SB.tmplEq
  have GA := P3.good_node ga
  have GB := P3.good_node gb
  have GR := P3.good_node gr
  have GS := P3.good_node gs
  have TA := P3.hasTmpl_node ta
  have TB := P3.hasTmpl_node tb
  have TR := P3.hasTmpl_node tr
  have TS := P3.hasTmpl_node ts
  by_cases hl : k.isLeaf = true
  · -- leaves: the two sides are equal
    have h1 : kA = [] := P3.kids_nil_of_keys (P3.keys_nil_of_leaf hl GA.layout)
    have h2 : kR = [] := P3.kids_nil_of_keys (P3.keys_nil_of_leaf hl GR.layout)
    subst h1 h2
    rw [addRaw_leaf hl, addRaw_leaf hl]
    exact Zrel.refl _
  · have hl' : k.isLeaf = false := by simpa using hl
    by_cases hs : k.isSparse = true
    · -- sparse: the keyed union
      obtain ⟨a1, a2, a3, a4⟩ := Zrel_sparse_inv hs hZa
      obtain ⟨b1, b2, b3, b4⟩ := Zrel_sparse_inv hs hZb
      have sA := P3.SL_of_good GA hs
      have sB := P3.SL_of_good GB hs
      have sR := P3.SL_of_good GR hs
      have sS := P3.SL_of_good GS hs
      obtain ⟨t, rfl⟩ := TR.hsome hs
      obtain ⟨gt, zt⟩ := GR.gtmpl t rfl
      obtain ⟨tt, nt⟩ := TR.htmpl t rfl
      have stt : sameBase t t = true := sameBase_refl t gt
      -- facts about the bins of `r` and `s`
      have hbinR : ∀ j y, lookupK j kR = some y → j ≠ .nanflow → sameBase t y = true :=
        fun j y hy hj => GR.bins hs t rfl _ (P3.lookupK_mem hy) hj
      have hbinS : ∀ j y, lookupK j kS = some y → j ≠ .nanflow → sameBase t y = true :=
        fun j y hy hj => GS.bins hs t rfl _ (P3.lookupK_mem hy) hj
      rw [addRaw_sparse hs, addRaw_sparse hs]
      refine Zrel.sparse k (e + e2) st (some t) _ _ hs (P3.SL_unionKids _ _ sA sB)
        (P3.SL_unionKids _ _ sR sS) ?_ ?_ ?_ ?_
      · -- keys on both sides
        intro j X Y hX hY
        rw [P3.lookupK_unionKids _ _ sA sB] at hX
        rw [P3.lookupK_unionKids _ _ sR sS] at hY
        cases hA : lookupK j kA with
        | none =>
          have hR := a4 j hA
          rw [hA, P3.merge2_none_left] at hX
          rw [hR, P3.merge2_none_left] at hY
          exact b1 j X Y hX hY
        | some x =>
          have mx := P3.lookupK_mem hA
          have ihx := ihk _ mx
          rw [hA] at hX
          cases hB : lookupK j kB with
          | none =>
            have hS := b4 j hB
            rw [hB] at hX
            rw [hS, P3.merge2_none_right] at hY
            have hXe : x = X := Option.some.inj hX
            subst hXe
            exact a1 j x Y hA hY
          | some y =>
            rw [hB] at hX
            cases hX
            cases hR : lookupK j kR with
            | none =>
              obtain ⟨hj, _⟩ := a3 j x hA hR
              rw [hR, P3.merge2_none_left] at hY
              -- `x` is an extra bin
              have hy' := hbinS j Y hY hj
              have gY := GS.gkids _ (P3.lookupK_mem hY)
              have tY := TS.hkids _ (P3.lookupK_mem hY)
              have := ihx t y Y (a2 j x t hA hR rfl) (b1 j y Y hB hY) gt gY tt tY hy'
              rwa [P3.addRaw_zero_left t Y gt gY zt nt hy'] at this
            | some x' =>
              have gx' := GR.gkids _ (P3.lookupK_mem hR)
              have tx' := TR.hkids _ (P3.lookupK_mem hR)
              rw [hR] at hY
              cases hS : lookupK j kS with
              | none =>
                obtain ⟨hj, _⟩ := b3 j y hB hS
                rw [hS] at hY
                have hYe : x' = Y := Option.some.inj hY
                subst hYe
                have hx' := hbinR j x' hR hj
                have := ihx x' y t (a1 j x x' hA hR) (b2 j y t hB hS rfl) gx' gt tx' tt
                  (sameBase_symm t x' gt gx' hx')
                rwa [addRaw_tmpl_right x' t gx' gt tx' tt zt nt hx'] at this
              | some y' =>
                rw [hS] at hY
                cases hY
                have gy' := GS.gkids _ (P3.lookupK_mem hS)
                have ty' := TS.hkids _ (P3.lookupK_mem hS)
                exact ihx x' y y' (a1 j x x' hA hR) (b1 j y y' hB hS) gx' gy' tx' ty'
                  (P3.shared_kids gr gs tr ts hrs hs hR hS)
      · -- extra keys: related to the template
        intro j X t' hX hY ht'
        cases ht'
        rw [P3.lookupK_unionKids _ _ sA sB] at hX
        rw [P3.lookupK_unionKids _ _ sR sS] at hY
        cases hR : lookupK j kR with
        | some x' =>
          rw [hR] at hY
          cases hS : lookupK j kS <;> rw [hS] at hY <;> cases hY
        | none =>
          rw [hR, P3.merge2_none_left] at hY
          cases hA : lookupK j kA with
          | none =>
            rw [hA, P3.merge2_none_left] at hX
            exact b2 j X t hX hY rfl
          | some x =>
            rw [hA] at hX
            cases hB : lookupK j kB with
            | none =>
              rw [hB] at hX
              have hXe : x = X := Option.some.inj hX
              subst hXe
              exact a2 j x t hA hR rfl
            | some y =>
              rw [hB] at hX
              cases hX
              have := ihk _ (P3.lookupK_mem hA) t y t (a2 j x t hA hR rfl) (b2 j y t hB hY rfl)
                gt gt tt tt stt
              rwa [P3.addRaw_zero_left t t gt gt zt nt stt] at this
      · -- extra keys: zero weight
        intro j X hX hY
        rw [P3.lookupK_unionKids _ _ sA sB] at hX
        rw [P3.lookupK_unionKids _ _ sR sS] at hY
        cases hR : lookupK j kR with
        | some x' =>
          rw [hR] at hY
          cases hS : lookupK j kS <;> rw [hS] at hY <;> cases hY
        | none =>
          rw [hR, P3.merge2_none_left] at hY
          cases hA : lookupK j kA with
          | none =>
            rw [hA, P3.merge2_none_left] at hX
            obtain ⟨h1, h2⟩ := b3 j X hX hY
            exact ⟨h1, h2, rfl⟩
          | some x =>
            rw [hA] at hX
            obtain ⟨h1, h2⟩ := a3 j x hA hR
            cases hB : lookupK j kB with
            | none =>
              rw [hB] at hX
              have hXe : x = X := Option.some.inj hX
              subst hXe
              exact ⟨h1, h2, rfl⟩
            | some y =>
              rw [hB] at hX
              cases hX
              obtain ⟨_, h4⟩ := b3 j y hB hY
              refine ⟨h1, ?_, rfl⟩
              rw [InvA.entries_addRaw]
              exact isZero_add h2 h4
      · -- absent keys
        intro j hX
        rw [P3.lookupK_unionKids _ _ sA sB] at hX
        rw [P3.lookupK_unionKids _ _ sR sS]
        cases hA : lookupK j kA with
        | some x =>
          rw [hA] at hX
          cases hB : lookupK j kB <;> rw [hB] at hX <;> cases hX
        | none =>
          rw [hA, P3.merge2_none_left] at hX
          rw [a4 j hA, b4 j hX]
          rfl
    · -- fixed layouts: position by position
      have hs' : k.isSparse = false := by simpa using hs
      obtain ⟨hkAR, a1⟩ := Zrel_fixed_inv hs' hZa
      obtain ⟨hkBS, b1⟩ := Zrel_fixed_inv hs' hZb
      have hkRS : keysOf kR = keysOf kS := InvA.sameBaseZip_keys _ _ (SB.zip hs')
      have hkAB : keysOf kA = keysOf kB := by rw [hkAR, hkRS, hkBS]
      have hnd : (keysOf kA).Nodup := KF.layoutOk_nodup k _ GA.layout
      rw [addRaw_fixed hl' hs', addRaw_fixed hl' hs']
      refine Zrel.fixed k (e + e2) st tm _ _ hs' ?_ ?_ ?_
      · rw [InvA.keysOf_zip, InvA.keysOf_zip, hkAR]
      · rw [InvA.keysOf_zip]; exact hnd
      · intro j X Y hX hY
        have hjA : j ∈ keysOf kA := by
          have := Np.mem_keys_of_lookupK hX
          rwa [InvA.keysOf_zip] at this
        obtain ⟨x, hA⟩ := Np.lookupK_some_of_mem_keys hjA
        obtain ⟨y, hB⟩ := Np.lookupK_some_of_mem_keys (hkAB ▸ hjA)
        obtain ⟨x', hR⟩ := Np.lookupK_some_of_mem_keys (hkAR ▸ hjA)
        obtain ⟨y', hS⟩ := Np.lookupK_some_of_mem_keys (hkRS ▸ hkAR ▸ hjA)
        rw [InvA.lookupK_zip j kA kB hkAB x y hA hB] at hX
        rw [InvA.lookupK_zip j kR kS hkRS x' y' hR hS] at hY
        cases hX; cases hY
        exact ihk _ (P3.lookupK_mem hA) x' y y' (a1 j x x' hA hR) (b1 j y y' hB hS)
          (GR.gkids _ (P3.lookupK_mem hR)) (GS.gkids _ (P3.lookupK_mem hS))
          (TR.hkids _ (P3.lookupK_mem hR)) (TS.hkids _ (P3.lookupK_mem hS))
          (sameBaseZip_lookup kR kS (SB.zip hs') j x' y' hR hS)

theorem addRaw_Zrel_all : ∀ a, AddP a :=
  P3.Agg.ind_a (P := AddP) (fun k e st tm kA _ ihk => addRaw_Zrel_node k e st tm kA ihk)

/-- **`+` respects "equal up to zero-weight bins"** on the states of one live tree; the sum on the
left is defined -/
theorem add_Zrel {a r b s : Agg} (hZa : Zrel a r) (hZb : Zrel b s) (gr : good r = true)
    (gs : good s = true) (tr : hasTmpl r = true) (ts : hasTmpl s = true) (hrs : sameBase r s = true) :
    add a b = some (addRaw a b) ∧ Zrel (addRaw a b) (addRaw r s) := by
  obtain ⟨ga, ta, hra⟩ := Zrel_transfer hZa gr tr
  obtain ⟨gb, tb, hsb⟩ := Zrel_transfer hZb gs ts
  refine ⟨?_, addRaw_Zrel_all a r b s hZa hZb gr gs tr ts hrs⟩
  apply add_eq_some_addRaw a b ga gb ta tb
  exact sameBase_trans a r b ga gr gb (sameBase_symm r a gr ga hra)
    (sameBase_trans r s b gr gs gb hrs hsb)

end Hg.Frame
