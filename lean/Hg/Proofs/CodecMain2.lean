import Hg.Proofs.CodecMain

namespace Hg
namespace CodecAux
open Json

/-! ### CentrallyBin / IrregularlyBin / Stack -/

theorem central_layout (q : Qty) (kids : List (Key × Agg)) (h : Kind.layoutOk (.central q) (keysOf kids) = true) :
    ∃ nf bins, kids = (.nanflow, nf) :: bins ∧ (keysOf bins).all Key.isCtr = true ∧ 2 ≤ bins.length := by
  cases kids with
  | nil => simp [Kind.layoutOk, keysOf] at h
  | cons p rest =>
    obtain ⟨k, nf⟩ := p
    cases k <;> simp only [Kind.layoutOk, keysOf, List.map_cons] at h <;> try cases h
    simp only [Bool.and_eq_true, decide_eq_true_eq, List.length_map] at h
    exact ⟨nf, rest, rfl, h.1.1, h.1.2⟩

theorem irregular_layout (q : Qty) (kids : List (Key × Agg)) (h : Kind.layoutOk (.irregular q) (keysOf kids) = true) :
    ∃ nf bins, kids = (.nanflow, nf) :: bins ∧ (keysOf bins).all Key.isThr = true ∧ bins ≠ [] := by
  cases kids with
  | nil => simp [Kind.layoutOk, keysOf] at h
  | cons p rest =>
    obtain ⟨k, nf⟩ := p
    cases rest with
    | nil => cases k <;> simp [Kind.layoutOk, keysOf] at h
    | cons p2 rest2 =>
      obtain ⟨k2, b0⟩ := p2
      cases k <;> simp only [Kind.layoutOk, keysOf, List.map_cons] at h <;> try cases h
      cases k2 <;> try (simp at h; done)
      rename_i t
      cases t <;> try (simp at h; done)
      simp only [Bool.and_eq_true] at h
      refine ⟨nf, _, rfl, ?_, by simp⟩
      simp only [keysOf, List.map_cons, List.all_cons, Key.isThr, Bool.true_and]
      exact h.1.1

theorem stack_layout (q : Qty) (kids : List (Key × Agg)) (h : Kind.layoutOk (.stack q) (keysOf kids) = true) :
    ∃ nf bins, kids = (.nanflow, nf) :: bins ∧ (keysOf bins).all Key.isThr = true ∧ bins ≠ [] := by
  cases kids with
  | nil => simp [Kind.layoutOk, keysOf] at h
  | cons p rest =>
    obtain ⟨k, nf⟩ := p
    cases rest with
    | nil => cases k <;> simp [Kind.layoutOk, keysOf] at h
    | cons p2 rest2 =>
      obtain ⟨k2, b0⟩ := p2
      cases k <;> simp only [Kind.layoutOk, keysOf, List.map_cons] at h <;> try cases h
      cases k2 <;> try (simp at h; done)
      rename_i t
      cases t <;> try (simp at h; done)
      simp only [Bool.and_eq_true] at h
      refine ⟨nf, _, rfl, ?_, by simp⟩
      simp only [keysOf, List.map_cons, List.all_cons, Key.isThr, Bool.true_and]
      exact h.1.1

theorem nonFlow_ctr (l : List (Key × Agg)) (h : (keysOf l).all Key.isCtr = true) : nonFlow l :=
  nonFlow_of_all Key.isCtr (fun k hk => by cases k <;> first | rfl | cases hk) l h

theorem nonFlow_thr (l : List (Key × Agg)) (h : (keysOf l).all Key.isThr = true) : nonFlow l :=
  nonFlow_of_all Key.isThr (fun k hk => by cases k <;> first | rfl | cases hk) l h

theorem depth_pair (field : String) (p : Key × Agg) (h : (p.1.isCtr || p.1.isThr) = true) :
    (encodeFrag p.2 true).depth ≤ (pairJson field p).depth := by
  obtain ⟨k, a⟩ := p
  cases k <;> simp [Key.isCtr, Key.isThr] at h <;>
    simp only [pairJson, Json.depth, Json.depthMembers] <;>
    exact Nat.le_succ_of_le (Nat.le_trans (Nat.le_max_left _ _) (Nat.le_max_right _ _))

theorem centralItem_round (fuel : Nat) (bt : String) (bn : Option String) (p : Key × Agg)
    (hc : p.1.isCtr = true) (hdec : decodeFrag fuel bt (encodeFrag p.2 true) bn = some (immut p.2)) :
    centralItem fuel bt bn (pairJson "center" p) = some (p.1, immut p.2) := by
  obtain ⟨k, a⟩ := p
  cases k <;> try cases hc
  rename_i c
  have hk : Json.hasKeys [("center", Json.num c), ("data", encodeFrag a true)] ["center", "data"] [] = true := rfl
  have g1 : Json.get? "center" [("center", Json.num c), ("data", encodeFrag a true)] = some (.num c) := rfl
  have g2 : Json.get? "data" [("center", Json.num c), ("data", encodeFrag a true)] = some (encodeFrag a true) := rfl
  simp only [pairJson, centralItem, hk, g1, g2]
  simp [Json.toRat?, hdec]

theorem thrItem_round (fuel : Nat) (bt : String) (bn : Option String) (p : Key × Agg)
    (hc : p.1.isThr = true) (hdec : decodeFrag fuel bt (encodeFrag p.2 true) bn = some (immut p.2)) :
    thrItem fuel bt bn (pairJson "atleast" p) = some (p.1, immut p.2) := by
  obtain ⟨k, a⟩ := p
  cases k <;> try cases hc
  rename_i c
  have hk : Json.hasKeys [("atleast", Json.ofVal c), ("data", encodeFrag a true)] ["atleast", "data"] [] = true := rfl
  have g1 : Json.get? "atleast" [("atleast", Json.ofVal c), ("data", encodeFrag a true)] = some (Json.ofVal c) := rfl
  have g2 : Json.get? "data" [("atleast", Json.ofVal c), ("data", encodeFrag a true)] = some (encodeFrag a true) := rfl
  simp only [pairJson, thrItem, hk, g1, g2]
  simp [toVal?_ofVal, hdec]

theorem encodePairs_nanflow (field : String) (a : Agg) (l : List (Key × Agg)) :
    encodePairs field ((.nanflow, a) :: l) = encodePairs field l := by
  simp [encodePairs]

theorem step_central (K : Agg → Prop) (HK : CtypeOK K) (fuel : Nat) (IH : DecOK K fuel) (q : Qty) (e : Val) (st : St)
    (tmpl : Option Agg) (kids : List (Key × Agg)) (s : Bool) (pn : Option String)
    (hg : good (.node (.central q) e st tmpl kids) = true)
    (hu : uniform (.node (.central q) e st tmpl kids) = true)
    (hk : K (.node (.central q) e st tmpl kids))
    (hn : nameOk (.node (.central q) e st tmpl kids) s pn)
    (hd : (encodeFrag (.node (.central q) e st tmpl kids) s).depth ≤ fuel + 1) :
    decodeFrag (fuel+1) "CentrallyBin" (encodeFrag (.node (.central q) e st tmpl kids) s) pn
      = some (immut (.node (.central q) e st tmpl kids)) := by
  have he := entries_ok _ _ _ _ _ hg
  have hkk := HK.kids _ _ _ _ _ hk
  obtain ⟨rfl, hlay, hgk⟩ := good_nonleaf _ _ _ _ _ rfl hg
  obtain ⟨nf, bins, rfl, hctr, hlen⟩ := central_layout q kids hlay
  have hnf : nonFlow bins := nonFlow_ctr bins hctr
  have hct := mem_keys_all _ _ hctr
  simp only [uniform, uniformKids, Bool.and_eq_true, binsOf_nanflow, binsOf_nonFlow bins hnf] at hu
  simp only [goodKids, Bool.and_eq_true] at hgk
  simp only [encodeFrag, Kind.qty?, Option.bind_some, binsOf_nanflow,
    binsOf_nonFlow bins hnf, encodePairs_nanflow, encodeAt, flowOf, lookupK, typeOfOpt,
    encodePairs_eq "center" bins (fun p hp => by simp [hct p hp]), ↓reduceIte] at hd ⊢
  generalize hM : Json.maybeAdd (Json.maybeAdd _ _ _) _ _ = M at hd ⊢
  have gent : Json.get? "entries" M = some (Json.ofVal e) := by getm hM
  have gbt : Json.get? "bins:type" M = some (.str (firstType bins)) := by getm hM
  have gbins : Json.get? "bins" M = some (.arr (bins.map (pairJson "center"))) := by getm hM
  have gnt : Json.get? "nanflow:type" M = some (.str nf.typeName) := by getm hM
  have gn : Json.get? "nanflow" M = some (encodeFrag nf false) := by getm hM
  have hname : Json.optStr? M "name" = some (if s = true then none else q.name) := by
    rw [← hM, optStr?_maybeAdd_ne _ _ _ _ (by decide)]
    exact optStr?_maybeAdd_self _ _ _ rfl
  have hbn : Json.optStr? M "bins:name" = some (firstName bins) := by
    rw [← hM]
    apply optStr?_maybeAdd_self
    rw [get?_maybeAdd_ne _ _ _ _ (by decide)]; rfl
  have hkeys : Json.hasKeys M ["entries", "bins:type", "bins", "nanflow:type", "nanflow"] ["name", "bins:name"] = true := by
    rw [← hM]
    exact hasKeys_maybeAdd _ _ _ _ _ (hasKeys_maybeAdd _ _ _ _ _ rfl rfl) rfl
  have dn := depth_get? _ _ _ _ gn hd
  have dvals := depth_get? _ _ _ _ gbins hd
  have dbins : ∀ p ∈ bins, (encodeFrag p.2 true).depth ≤ fuel := fun p hp =>
    Nat.le_trans (depth_pair "center" p (by simp [hct p hp]))
      (depth_arr_mem _ _ _ (List.mem_map.2 ⟨p, hp, rfl⟩) dvals)
  have ub := uniform_bins bins hu.2
  have hdec := kids_decode K fuel IH bins _ _ true hgk.2 hu.1.2 (fun p hp => hkk p (by simp [hp]))
      (fun p hp => (ub p hp).1) (fun p hp => Or.inl (ub p hp).2.symm) dbins
  have hbins := mapM_map_some bins (pairJson "center") (centralItem fuel (firstType bins) (firstName bins))
    (fun p => (p.1, immut p.2)) (fun p hp => centralItem_round fuel _ _ p (hct p hp) (hdec p hp))
  rw [dec_central fuel M pn e _ _ _ _ _ _ _ (immut nf) hkeys (entriesOf?_ok _ _ gent he) hname gbt hbn gbins hbins
      gnt gn (IH nf false none hgk.1 hu.1.1 (hkk (Key.nanflow, nf) (by simp)) (Or.inr ⟨rfl, rfl⟩) dn)
      (by simpa using hlen)]
  rw [resolve_ok q.name pn s hn, ← immutKids_eq_map]
  rfl

theorem step_irregular (K : Agg → Prop) (HK : CtypeOK K) (fuel : Nat) (IH : DecOK K fuel) (q : Qty) (e : Val) (st : St)
    (tmpl : Option Agg) (kids : List (Key × Agg)) (s : Bool) (pn : Option String)
    (hg : good (.node (.irregular q) e st tmpl kids) = true)
    (hu : uniform (.node (.irregular q) e st tmpl kids) = true)
    (hk : K (.node (.irregular q) e st tmpl kids))
    (hn : nameOk (.node (.irregular q) e st tmpl kids) s pn)
    (hd : (encodeFrag (.node (.irregular q) e st tmpl kids) s).depth ≤ fuel + 1) :
    decodeFrag (fuel+1) "IrregularlyBin" (encodeFrag (.node (.irregular q) e st tmpl kids) s) pn
      = some (immut (.node (.irregular q) e st tmpl kids)) := by
  have he := entries_ok _ _ _ _ _ hg
  have hkk := HK.kids _ _ _ _ _ hk
  obtain ⟨rfl, hlay, hgk⟩ := good_nonleaf _ _ _ _ _ rfl hg
  obtain ⟨nf, bins, rfl, hctr, hlen⟩ := irregular_layout q kids hlay
  have hnf : nonFlow bins := nonFlow_thr bins hctr
  have hct := mem_keys_all _ _ hctr
  simp only [uniform, uniformKids, Bool.and_eq_true, binsOf_nanflow, binsOf_nonFlow bins hnf] at hu
  simp only [goodKids, Bool.and_eq_true] at hgk
  simp only [encodeFrag, Kind.qty?, Option.bind_some, binsOf_nanflow,
    binsOf_nonFlow bins hnf, encodePairs_nanflow, encodeAt, flowOf, lookupK, typeOfOpt,
    encodePairs_eq "atleast" bins (fun p hp => by simp [hct p hp]), ↓reduceIte] at hd ⊢
  generalize hM : Json.maybeAdd (Json.maybeAdd _ _ _) _ _ = M at hd ⊢
  have gent : Json.get? "entries" M = some (Json.ofVal e) := by getm hM
  have gbt : Json.get? "bins:type" M = some (.str (firstType bins)) := by getm hM
  have gbins : Json.get? "bins" M = some (.arr (bins.map (pairJson "atleast"))) := by getm hM
  have gnt : Json.get? "nanflow:type" M = some (.str nf.typeName) := by getm hM
  have gn : Json.get? "nanflow" M = some (encodeFrag nf false) := by getm hM
  have hname : Json.optStr? M "name" = some (if s = true then none else q.name) := by
    rw [← hM, optStr?_maybeAdd_ne _ _ _ _ (by decide)]
    exact optStr?_maybeAdd_self _ _ _ rfl
  have hbn : Json.optStr? M "bins:name" = some (firstName bins) := by
    rw [← hM]
    apply optStr?_maybeAdd_self
    rw [get?_maybeAdd_ne _ _ _ _ (by decide)]; rfl
  have hkeys : Json.hasKeys M ["entries", "bins:type", "bins", "nanflow:type", "nanflow"] ["name", "bins:name"] = true := by
    rw [← hM]
    exact hasKeys_maybeAdd _ _ _ _ _ (hasKeys_maybeAdd _ _ _ _ _ rfl rfl) rfl
  have dn := depth_get? _ _ _ _ gn hd
  have dvals := depth_get? _ _ _ _ gbins hd
  have dbins : ∀ p ∈ bins, (encodeFrag p.2 true).depth ≤ fuel := fun p hp =>
    Nat.le_trans (depth_pair "atleast" p (by simp [hct p hp]))
      (depth_arr_mem _ _ _ (List.mem_map.2 ⟨p, hp, rfl⟩) dvals)
  have ub := uniform_bins bins hu.2
  have hdec := kids_decode K fuel IH bins _ _ true hgk.2 hu.1.2 (fun p hp => hkk p (by simp [hp]))
      (fun p hp => (ub p hp).1) (fun p hp => Or.inl (ub p hp).2.symm) dbins
  have hbins := mapM_map_some bins (pairJson "atleast") (thrItem fuel (firstType bins) (firstName bins))
    (fun p => (p.1, immut p.2)) (fun p hp => thrItem_round fuel _ _ p (hct p hp) (hdec p hp))
  rw [dec_irregular fuel M pn e _ _ _ _ _ _ _ (immut nf) hkeys (entriesOf?_ok _ _ gent he) hname gbt hbn gbins hbins
      gnt gn (IH nf false none hgk.1 hu.1.1 (hkk (Key.nanflow, nf) (by simp)) (Or.inr ⟨rfl, rfl⟩) dn)
      (by intro h; rw [List.map_eq_nil_iff] at h; exact hlen h)]
  rw [resolve_ok q.name pn s hn, ← immutKids_eq_map]
  rfl

theorem step_stack (K : Agg → Prop) (HK : CtypeOK K) (fuel : Nat) (IH : DecOK K fuel) (q : Qty) (e : Val) (st : St)
    (tmpl : Option Agg) (kids : List (Key × Agg)) (s : Bool) (pn : Option String)
    (hg : good (.node (.stack q) e st tmpl kids) = true)
    (hu : uniform (.node (.stack q) e st tmpl kids) = true)
    (hk : K (.node (.stack q) e st tmpl kids))
    (hn : nameOk (.node (.stack q) e st tmpl kids) s pn)
    (hd : (encodeFrag (.node (.stack q) e st tmpl kids) s).depth ≤ fuel + 1) :
    decodeFrag (fuel+1) "Stack" (encodeFrag (.node (.stack q) e st tmpl kids) s) pn
      = some (immut (.node (.stack q) e st tmpl kids)) := by
  have he := entries_ok _ _ _ _ _ hg
  have hkk := HK.kids _ _ _ _ _ hk
  obtain ⟨rfl, hlay, hgk⟩ := good_nonleaf _ _ _ _ _ rfl hg
  obtain ⟨nf, bins, rfl, hctr, hlen⟩ := stack_layout q kids hlay
  have hnf : nonFlow bins := nonFlow_thr bins hctr
  have hct := mem_keys_all _ _ hctr
  simp only [uniform, uniformKids, Bool.and_eq_true, binsOf_nanflow, binsOf_nonFlow bins hnf] at hu
  simp only [goodKids, Bool.and_eq_true] at hgk
  simp only [encodeFrag, Kind.qty?, Option.bind_some, binsOf_nanflow,
    binsOf_nonFlow bins hnf, encodePairs_nanflow, encodeAt, flowOf, lookupK, typeOfOpt,
    encodePairs_eq "atleast" bins (fun p hp => by simp [hct p hp]), ↓reduceIte] at hd ⊢
  generalize hM : Json.maybeAdd (Json.maybeAdd _ _ _) _ _ = M at hd ⊢
  have gent : Json.get? "entries" M = some (Json.ofVal e) := by getm hM
  have gbt : Json.get? "bins:type" M = some (.str (firstType bins)) := by getm hM
  have gbins : Json.get? "bins" M = some (.arr (bins.map (pairJson "atleast"))) := by getm hM
  have gnt : Json.get? "nanflow:type" M = some (.str nf.typeName) := by getm hM
  have gn : Json.get? "nanflow" M = some (encodeFrag nf false) := by getm hM
  have hname : Json.optStr? M "name" = some (if s = true then none else q.name) := by
    rw [← hM, optStr?_maybeAdd_ne _ _ _ _ (by decide)]
    exact optStr?_maybeAdd_self _ _ _ rfl
  have hbn : Json.optStr? M "bins:name" = some (firstName bins) := by
    rw [← hM]
    apply optStr?_maybeAdd_self
    rw [get?_maybeAdd_ne _ _ _ _ (by decide)]; rfl
  have hkeys : Json.hasKeys M ["entries", "bins:type", "bins", "nanflow:type", "nanflow"] ["name", "bins:name"] = true := by
    rw [← hM]
    exact hasKeys_maybeAdd _ _ _ _ _ (hasKeys_maybeAdd _ _ _ _ _ rfl rfl) rfl
  have dn := depth_get? _ _ _ _ gn hd
  have dvals := depth_get? _ _ _ _ gbins hd
  have dbins : ∀ p ∈ bins, (encodeFrag p.2 true).depth ≤ fuel := fun p hp =>
    Nat.le_trans (depth_pair "atleast" p (by simp [hct p hp]))
      (depth_arr_mem _ _ _ (List.mem_map.2 ⟨p, hp, rfl⟩) dvals)
  have ub := uniform_bins bins hu.2
  have hdec := kids_decode K fuel IH bins _ _ true hgk.2 hu.1.2 (fun p hp => hkk p (by simp [hp]))
      (fun p hp => (ub p hp).1) (fun p hp => Or.inl (ub p hp).2.symm) dbins
  have hbins := mapM_map_some bins (pairJson "atleast") (thrItem fuel (firstType bins) (firstName bins))
    (fun p => (p.1, immut p.2)) (fun p hp => thrItem_round fuel _ _ p (hct p hp) (hdec p hp))
  rw [dec_stack fuel M pn e _ _ _ _ _ _ _ (immut nf) hkeys (entriesOf?_ok _ _ gent he) hname gbt hbn gbins hbins
      gnt gn (IH nf false none hgk.1 hu.1.1 (hkk (Key.nanflow, nf) (by simp)) (Or.inr ⟨rfl, rfl⟩) dn)
      (by intro h; rw [List.map_eq_nil_iff] at h; exact hlen h)]
  rw [resolve_ok q.name pn s hn, ← immutKids_eq_map]
  rfl

end CodecAux
end Hg
