/-
  Hg.Proofs.NpTree2 — the relation "equal up to zero-weight bins" between the result of the
  vectorised fill and the row-wise state, and its consequence `prune a = prune r`.
-/
import Hg.Proofs.NpTree1

namespace Hg.Np

/-- `Zrel a r`: `a` is `r` plus sparse bins of zero weight — everywhere in the tree the same kind,
entries, scalar state and template; fixed layouts correspond child by child; in a sparse container
every bin of `r` is a bin of `a`, and a bin `a` holds in excess has zero entries (and is itself the
template plus zero-weight bins). -/
inductive Zrel : Agg → Agg → Prop
  | refl (a : Agg) : Zrel a a
  | fixed (k : Kind) (e : Val) (st : St) (tm : Option Agg) (kidsA kidsR : List (Key × Agg)) :
      k.isSparse = false → keysOf kidsA = keysOf kidsR → (keysOf kidsA).Nodup →
      (∀ key x y, lookupK key kidsA = some x → lookupK key kidsR = some y → Zrel x y) →
      Zrel (.node k e st tm kidsA) (.node k e st tm kidsR)
  | sparse (k : Kind) (e : Val) (st : St) (tm : Option Agg) (kidsA kidsR : List (Key × Agg)) :
      k.isSparse = true → P3.SL k.cls kidsA → P3.SL k.cls kidsR →
      (∀ key x y, lookupK key kidsA = some x → lookupK key kidsR = some y → Zrel x y) →
      (∀ key x t, lookupK key kidsA = some x → lookupK key kidsR = none → tm = some t → Zrel x t) →
      (∀ key x, lookupK key kidsA = some x → lookupK key kidsR = none →
          key ≠ .nanflow ∧ x.entries.isZero = true ∧ tm.isSome = true) →
      (∀ key, lookupK key kidsA = none → lookupK key kidsR = none) →
      Zrel (.node k e st tm kidsA) (.node k e st tm kidsR)

theorem Zrel.entries_eq {a r : Agg} (h : Zrel a r) : a.entries = r.entries := by
  cases h <;> rfl

theorem Zrel.kind_eq {a r : Agg} (h : Zrel a r) : a.kind = r.kind := by
  cases h <;> rfl

/-! ### `prune` -/

def pruneSt : St → St
  | .bag m => St.bag (m.filter (fun kv => !kv.2.isZero))
  | s => s

theorem prune_sparse {k : Kind} (hk : k.isSparse = true) (e : Val) (st : St) (tm : Option Agg)
    (kids : List (Key × Agg)) :
    prune (.node k e st tm kids) = .node k e (pruneSt st) tm (pruneBins kids) := by
  cases st <;> simp [prune, pruneSt, hk]

theorem prune_fixed {k : Kind} (hk : k.isSparse = false) (e : Val) (st : St) (tm : Option Agg)
    (kids : List (Key × Agg)) :
    prune (.node k e st tm kids) = .node k e (pruneSt st) tm (pruneKids kids) := by
  cases st <;> simp [prune, pruneSt, hk]

theorem prune_entries (a : Agg) : (prune a).entries = a.entries := by
  obtain ⟨k, e, st, tm, kids⟩ := a
  by_cases hk : k.isSparse = true
  · rw [prune_sparse hk]; rfl
  · rw [prune_fixed (by simpa using hk)]; rfl

theorem pruneKids_ext : ∀ (l1 l2 : List (Key × Agg)), keysOf l1 = keysOf l2 → (keysOf l1).Nodup →
    (∀ key x y, lookupK key l1 = some x → lookupK key l2 = some y → prune x = prune y) →
    pruneKids l1 = pruneKids l2
  | [], [], _, _, _ => rfl
  | [], _ :: _, h, _, _ => by cases h
  | _ :: _, [], h, _, _ => by cases h
  | (k1, a) :: r1, (k2, b) :: r2, hk, hn, h => by
    rw [P3.keysOf_cons, P3.keysOf_cons] at hk
    injection hk with hk1 hk2
    subst hk1
    rw [P3.keysOf_cons, List.nodup_cons] at hn
    rw [pruneKids, pruneKids]
    have hab : prune a = prune b :=
      h k1 a b (by rw [P3.lookupK_cons, if_pos rfl]) (by rw [P3.lookupK_cons, if_pos rfl])
    rw [hab, pruneKids_ext r1 r2 hk2 hn.2]
    intro key x y hx hy
    have hne : ¬ k1 = key := by
      intro e; subst e
      exact hn.1 (P3.mem_keysOf (P3.lookupK_mem hx))
    exact h key x y (by rw [P3.lookupK_cons, if_neg hne]; exact hx)
      (by rw [P3.lookupK_cons, if_neg hne]; exact hy)

theorem pruneBins_cons (key : Key) (a : Agg) (rest : List (Key × Agg)) :
    pruneBins ((key, a) :: rest) =
      if (key != .nanflow && a.entries.isZero) = true then pruneBins rest
      else (key, prune a) :: pruneBins rest := by
  rw [pruneBins]

theorem keysOf_pruneBins_sub : ∀ (l : List (Key × Agg)), ∀ k ∈ keysOf (pruneBins l), k ∈ keysOf l
  | [], k, hk => by rw [pruneBins] at hk; exact hk
  | (k', a) :: rest, k, hk => by
    rw [pruneBins_cons] at hk
    rw [P3.keysOf_cons]
    split at hk
    · exact List.mem_cons_of_mem _ (keysOf_pruneBins_sub rest k hk)
    · rw [P3.keysOf_cons, List.mem_cons] at hk
      rcases hk with rfl | hk
      · exact List.mem_cons_self ..
      · exact List.mem_cons_of_mem _ (keysOf_pruneBins_sub rest k hk)

theorem SL_pruneBins {c : Bool} : ∀ (l : List (Key × Agg)), P3.SL c l → P3.SL c (pruneBins l)
  | [], h => by rw [pruneBins]; exact h
  | (k', a) :: rest, h => by
    have h' := P3.SL_cons.1 h
    rw [pruneBins_cons]
    split
    · exact SL_pruneBins rest h'.2.2
    · exact P3.SL_cons.2 ⟨h'.1, fun k hk => h'.2.1 k (keysOf_pruneBins_sub rest k hk),
        SL_pruneBins rest h'.2.2⟩

/-- what `pruneBins` keeps of a bin -/
def keepBin (key : Key) (a : Agg) : Option Agg :=
  if (key != .nanflow && a.entries.isZero) = true then none else some (prune a)

theorem lookupK_pruneBins {c : Bool} : ∀ (l : List (Key × Agg)), P3.SL c l → ∀ key,
    lookupK key (pruneBins l) = (lookupK key l).bind (keepBin key)
  | [], _, key => by rw [pruneBins]; rfl
  | (k', a) :: rest, h, key => by
    have h' := P3.SL_cons.1 h
    have ih := lookupK_pruneBins rest h'.2.2 key
    rw [pruneBins_cons, P3.lookupK_cons]
    by_cases hk : k' = key
    · subst hk
      rw [if_pos rfl]
      have hnone : lookupK k' rest = none := P3.lookupK_none_of_lt h'.2.1
      by_cases hz : (k' != .nanflow && a.entries.isZero) = true
      · rw [if_pos hz, ih, hnone]
        simp only [Option.bind, keepBin, hz, if_true]
      · rw [if_neg hz, P3.lookupK_cons, if_pos rfl]
        simp only [Option.bind, keepBin, hz]
        rfl
    · rw [if_neg hk]
      split
      · exact ih
      · rw [P3.lookupK_cons, if_neg hk]; exact ih

/-- **equal up to zero-weight bins ⇒ equal after `prune`** -/
theorem Zrel.prune_eq {a r : Agg} (h : Zrel a r) : prune a = prune r := by
  induction h with
  | refl a => rfl
  | fixed k e st tm kidsA kidsR hk hkeys hnd _ ih =>
    rw [prune_fixed hk, prune_fixed hk, pruneKids_ext kidsA kidsR hkeys hnd ih]
  | sparse k e st tm kidsA kidsR hk hsA hsR _ _ hextra hnone ih _ =>
    rw [prune_sparse hk, prune_sparse hk]
    congr 1
    apply P3.SL_ext (SL_pruneBins _ hsA) (SL_pruneBins _ hsR)
    intro key
    rw [lookupK_pruneBins _ hsA, lookupK_pruneBins _ hsR]
    cases hA : lookupK key kidsA with
    | none => rw [hnone key hA]
    | some x =>
      cases hR : lookupK key kidsR with
      | none =>
        obtain ⟨h1, h2, _⟩ := hextra key x hA hR
        have : (key != Key.nanflow) = true := by simpa using h1
        simp only [Option.bind, keepBin, this, h2, Bool.and_self, if_true]
      | some y =>
        have hxy := ih key x y hA hR
        have he : x.entries = y.entries := by
          rw [← prune_entries x, ← prune_entries y, hxy]
        simp only [Option.bind, keepBin, he, hxy]

end Hg.Np
