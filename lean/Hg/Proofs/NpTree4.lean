/-
  Hg.Proofs.NpTree4 — the vectorised side: what `fillNpKids` / `fillNpSparse` / `fillNpNew` and the
  insertion of the created bins compute, by lookup.
-/
import Hg.Proofs.NpTree3
import Hg.Proofs.KeyFacts

namespace Hg.Np

/-! ### membership-style unfolding of the Bool predicates -/

theorem noNanForSumsKids_iff : ∀ {l : List (Key × Agg)} {rows : List Datum},
    noNanForSumsKids l rows = true ↔ ∀ p ∈ l, noNanForSums p.2 rows = true
  | [], _ => by simp [noNanForSumsKids]
  | (k, a) :: r, rows => by
    simp only [noNanForSumsKids, Bool.and_eq_true, List.forall_mem_cons,
      noNanForSumsKids_iff (l := r)]

theorem qtysOkKids_iff : ∀ {l : List (Key × Agg)} {rows : List Datum},
    qtysOkKids l rows = true ↔ ∀ p ∈ l, qtysOk p.2 rows = true
  | [], _ => by simp [qtysOkKids]
  | (k, a) :: r, rows => by
    simp only [qtysOkKids, Bool.and_eq_true, List.forall_mem_cons, qtysOkKids_iff (l := r)]

structure NoNanNode (k : Kind) (tmpl : Option Agg) (kids : List (Key × Agg)) (rows : List Datum) : Prop where
  here : ∀ q, k = .sum q → ∀ d ∈ rows, ∀ v, q.evalNum d = .ok v → v.isNaN = false
  tmpl : ∀ t, tmpl = some t → noNanForSums t rows = true
  kids : ∀ p ∈ kids, noNanForSums p.2 rows = true

theorem noNan_node {k e st tmpl kids rows} (h : noNanForSums (.node k e st tmpl kids) rows = true) :
    NoNanNode k tmpl kids rows := by
  unfold noNanForSums at h
  simp only [Bool.and_eq_true] at h
  obtain ⟨⟨h1, h2⟩, h3⟩ := h
  refine ⟨?_, ?_, noNanForSumsKids_iff.1 h3⟩
  · intro q hq d hd v hv
    subst hq
    simp only [List.all_eq_true] at h1
    have := h1 d hd
    rw [hv] at this
    simpa using this
  · intro t ht; subst ht
    simpa [noNanForSumsOpt] using h2

structure QtysOkNode (k : Kind) (tmpl : Option Agg) (kids : List (Key × Agg)) (rows : List Datum) : Prop where
  here : ∀ d ∈ rows, k.evalOk d = true
  tmpl : ∀ t, tmpl = some t → qtysOk t rows = true
  kids : ∀ p ∈ kids, qtysOk p.2 rows = true

theorem qtysOk_node {k e st tmpl kids rows} (h : qtysOk (.node k e st tmpl kids) rows = true) :
    QtysOkNode k tmpl kids rows := by
  rw [qtysOk] at h
  simp only [Bool.and_eq_true] at h
  obtain ⟨⟨h1, h2⟩, h3⟩ := h
  refine ⟨?_, ?_, qtysOkKids_iff.1 h3⟩
  · exact List.all_eq_true.1 h1
  · intro t ht; subst ht
    simpa [qtysOkOpt] using h2

/-! ### entries -/

theorem foldl_add_shift (ws : List Val) (acc : Val) :
    ws.foldl (fun a w => a + w) acc = acc + ws.foldl (fun a w => a + w) 0 := by
  induction ws generalizing acc with
  | nil => simp
  | cons w ws ih =>
    rw [List.foldl_cons, List.foldl_cons, ih (acc + w), ih (0 + w), Val.zero_add, Val.add_assoc]

theorem sumW_cons (w : Val) (ws : List Val) : sumW (w :: ws) = w + sumW ws := by
  unfold sumW
  rw [List.foldl_cons, foldl_add_shift, Val.zero_add]

theorem entAfter_eq : ∀ (rows : List Datum) (ws : List Val) (e : Val), rows.length = ws.length →
    nonNegW ws = true → entAfter e (rows.zip ws) = e + sumW ws
  | [], [], e, _, _ => by simp [entAfter, sumW]
  | [], _ :: _, _, h, _ => by cases h
  | _ :: _, [], _, h, _ => by cases h
  | d :: rows, w :: ws, e, hl, hw => by
    rw [nonNegW_cons] at hw
    rw [List.zip_cons_cons, entAfter_cons, entAfter_eq rows ws _ (by simpa using hl) hw.2, sumW_cons]
    simp only
    rcases nonNeg_cases hw.1 with rfl | ⟨hp, _⟩
    · rw [if_neg (by rw [pos_zero]; simp), Val.zero_add]
    · rw [if_pos hp, Val.add_assoc]

/-! ### lookups -/

theorem lookupK_of_mem_nodup {α : Type} : ∀ {l : List (Key × α)} {p : Key × α}, (keysOf l).Nodup → p ∈ l →
    lookupK p.1 l = some p.2
  | [], _, _, h => by cases h
  | (k, a) :: r, p, hn, h => by
    rw [P3.keysOf_cons, List.nodup_cons] at hn
    rw [P3.lookupK_cons]
    rcases List.mem_cons.1 h with rfl | h
    · rw [if_pos rfl]
    · have : ¬ k = p.1 := by
        intro e; exact hn.1 (e ▸ P3.mem_keysOf h)
      rw [if_neg this]
      exact lookupK_of_mem_nodup hn.2 h

theorem lookupK_some_of_mem_keys {α : Type} {j : Key} {l : List (Key × α)} (h : j ∈ keysOf l) :
    ∃ a, lookupK j l = some a := P3.lookupK_isSome_of_mem h

theorem mem_keys_of_lookupK {α : Type} {j : Key} {l : List (Key × α)} {a : α} (h : lookupK j l = some a) :
    j ∈ keysOf l := P3.mem_keysOf (P3.lookupK_mem h)

/-! ### `fillNpKids` -/

theorem fillNpKids_spec {k : Kind} {keys : List Key} {rows : List Datum} {ws : List Val}
    (Q : Key → Agg → Agg → Prop) : ∀ (l : List (Key × Agg)),
    (∀ p ∈ l, ∃ m a', maskFor k keys p.1 rows ws = .ok m ∧ fillNp p.2 rows m = some a' ∧ Q p.1 p.2 a') →
    ∃ lV, fillNpKids l k keys rows ws = some lV ∧ keysOf lV = keysOf l ∧
      ∀ key a, lookupK key l = some a → ∃ a', lookupK key lV = some a' ∧ Q key a a'
  | [], _ => ⟨[], by rw [fillNpKids], rfl, fun key a h => by cases h⟩
  | (k1, a1) :: rest, h => by
    obtain ⟨m, a', hm, ha', hq⟩ := h (k1, a1) (List.mem_cons_self ..)
    obtain ⟨lV, hl, hk, hlook⟩ := fillNpKids_spec Q rest (fun p hp => h p (List.mem_cons_of_mem _ hp))
    refine ⟨(k1, a') :: lV, ?_, ?_, ?_⟩
    · rw [fillNpKids]
      simp only at hm ha'
      simp only [hm, ha', hl]
    · rw [P3.keysOf_cons, P3.keysOf_cons, hk]
    · intro key a hka
      rw [P3.lookupK_cons] at hka ⊢
      by_cases hkk : k1 = key
      · rw [if_pos hkk] at hka ⊢
        cases hka
        subst hkk
        exact ⟨a', rfl, hq⟩
      · rw [if_neg hkk] at hka ⊢
        exact hlook key a hka

/-! ### `fillNpSparse` -/

theorem fillNpSparse_spec {k : Kind} {keys : List Key} {touched : List Key} {rows : List Datum} {ws : List Val}
    (Q : Key → Agg → Agg → Prop) : ∀ (l : List (Key × Agg)),
    (∀ p ∈ l, (p.1 = .nanflow ∨ p.1 ∈ touched) →
      ∃ m a', maskFor k keys p.1 rows ws = .ok m ∧ fillNp p.2 rows m = some a' ∧ Q p.1 p.2 a') →
    ∃ lV, fillNpSparse l k keys touched rows ws = some lV ∧ keysOf lV = keysOf l ∧
      ∀ key a, lookupK key l = some a →
        ((key = .nanflow ∨ key ∈ touched) → ∃ a', lookupK key lV = some a' ∧ Q key a a') ∧
        (¬ (key = .nanflow ∨ key ∈ touched) → lookupK key lV = some a)
  | [], _ => ⟨[], by rw [fillNpSparse], rfl, fun key a h => by cases h⟩
  | (k1, a1) :: rest, h => by
    obtain ⟨lV, hl, hk, hlook⟩ := fillNpSparse_spec Q rest (fun p hp => h p (List.mem_cons_of_mem _ hp))
    by_cases hc : k1 = .nanflow ∨ k1 ∈ touched
    · obtain ⟨m, a', hm, ha', hq⟩ := h (k1, a1) (List.mem_cons_self ..) hc
      refine ⟨(k1, a') :: lV, ?_, ?_, ?_⟩
      · rw [fillNpSparse]
        have : (decide (k1 = Key.nanflow) || touched.contains k1) = true := by
          simpa using hc
        simp only at hm ha'
        simp only [this, if_true, hm, ha', hl]
      · rw [P3.keysOf_cons, P3.keysOf_cons, hk]
      · intro key a hka
        rw [P3.lookupK_cons] at hka
        rw [P3.lookupK_cons]
        by_cases hkk : k1 = key
        · rw [if_pos hkk] at hka ⊢
          cases hka
          subst hkk
          exact ⟨fun _ => ⟨a', rfl, hq⟩, fun hn => absurd hc hn⟩
        · rw [if_neg hkk] at hka ⊢
          exact hlook key a hka
    · refine ⟨(k1, a1) :: lV, ?_, ?_, ?_⟩
      · rw [fillNpSparse]
        have : (decide (k1 = Key.nanflow) || touched.contains k1) = false := by
          simpa using hc
        simp only [this, Bool.false_eq_true, if_false, hl]
      · rw [P3.keysOf_cons, P3.keysOf_cons, hk]
      · intro key a hka
        rw [P3.lookupK_cons] at hka
        rw [P3.lookupK_cons]
        by_cases hkk : k1 = key
        · rw [if_pos hkk] at hka ⊢
          cases hka
          subst hkk
          exact ⟨fun hy => absurd hy hc, fun _ => rfl⟩
        · rw [if_neg hkk] at hka ⊢
          exact hlook key a hka

/-! ### `fillNpNew` -/

theorem fillNpNew_spec {t : Agg} {k : Kind} {keys : List Key} {rows : List Datum} {ws : List Val}
    (Q : Key → Agg → Prop) : ∀ (newKeys : List Key),
    (∀ key ∈ newKeys, ∃ m b, maskFor k keys key rows ws = .ok m ∧ fillNp t rows m = some b ∧ Q key b) →
    ∃ created, fillNpNew (some t) k keys newKeys rows ws = some created ∧ keysOf created = newKeys ∧
      ∀ p ∈ created, Q p.1 p.2
  | [], _ => ⟨[], by rw [fillNpNew]; rfl, rfl, fun p hp => by cases hp⟩
  | key :: rest, h => by
    obtain ⟨m, b, hm, hb, hq⟩ := h key (List.mem_cons_self ..)
    obtain ⟨created, hc, hk, hQ⟩ := fillNpNew_spec Q rest (fun k' hk' => h k' (List.mem_cons_of_mem _ hk'))
    refine ⟨(key, b) :: created, ?_, ?_, ?_⟩
    · rw [fillNpNew] at hc ⊢
      rw [List.mapM_cons, hc]
      simp only [hm, hb, Option.map, bind, Option.bind, pure]
    · rw [P3.keysOf_cons, hk]
    · intro p hp
      rcases List.mem_cons.1 hp with rfl | hp
      · exact hq
      · exact hQ p hp

/-! ### inserting the created bins -/

theorem foldl_insertK_spec {c : Bool} : ∀ (created base : List (Key × Agg)), P3.SL c base →
    (keysOf created).Nodup →
    (∀ key ∈ keysOf created, lookupK key base = none ∧ Key.inCls c key = true) →
    P3.SL c (created.foldl (fun acc p => insertK p.1 p.2 acc) base) ∧
    ∀ j, lookupK j (created.foldl (fun acc p => insertK p.1 p.2 acc) base) =
      (match lookupK j created with
       | some b => some b
       | none => lookupK j base)
  | [], base, hs, _, _ => ⟨hs, fun j => rfl⟩
  | (k1, b1) :: rest, base, hs, hn, hb => by
    rw [P3.keysOf_cons, List.nodup_cons] at hn
    obtain ⟨hb1, hc1⟩ := hb k1 (List.mem_cons_self ..)
    have hs' := P3.SL_insertK k1 b1 hc1 base hs hb1
    have hb' : ∀ key ∈ keysOf rest, lookupK key (insertK k1 b1 base) = none ∧ Key.inCls c key = true := by
      intro key hkey
      obtain ⟨h1, h2⟩ := hb key (List.mem_cons_of_mem _ hkey)
      refine ⟨?_, h2⟩
      rw [P3.lookupK_insertK k1 b1 base hb1]
      have : ¬ key = k1 := by intro e; subst e; exact hn.1 hkey
      rw [if_neg this]; exact h1
    obtain ⟨ih1, ih2⟩ := foldl_insertK_spec rest (insertK k1 b1 base) hs' hn.2 hb'
    rw [List.foldl_cons]
    refine ⟨ih1, ?_⟩
    intro j
    rw [ih2 j, P3.lookupK_cons, P3.lookupK_insertK k1 b1 base hb1]
    by_cases hj : k1 = j
    · subst hj
      rw [if_pos rfl, if_pos rfl, lookupK_none_iff.2 hn.1]
    · rw [if_neg hj, if_neg (fun e => hj e.symm)]

end Hg.Np
