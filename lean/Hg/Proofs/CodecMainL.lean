/-
  Hg.Proofs.CodecMain — decode ∘ encode, assembled kind by kind.
-/
import Hg.Proofs.CodecDecT
import Hg.Proofs.BagLemmas

namespace Hg.CodecAux
open Hg Json

def nameOk (t : Agg) (s : Bool) (pn : Option String) : Prop :=
  pn = t.qtyName ∨ (s = false ∧ pn = none)

theorem resolve_ok (qn pn : Option String) (s : Bool) (h : pn = qn ∨ (s = false ∧ pn = none)) :
    resolveName (if s = true then none else qn) pn = qn := by
  cases s <;> cases qn <;> rcases h with h | ⟨h1, h2⟩ <;> simp_all [resolveName]

theorem lt_zero_of_nonneg (q : Rat) (h : 0 ≤ q) : Val.lt (.fin q) 0 = false := by
  show decide (q < ((0 : Nat) : Rat)) = false
  simp only [decide_eq_false_iff_not]
  intro h'
  have : ((0 : Nat) : Rat) = 0 := rfl
  rw [this] at h'
  exact absurd h (Rat.not_le.2 h')

theorem entries_ok (k : Kind) (e : Val) (st : St) (tmpl : Option Agg) (kids : List (Key × Agg))
    (h : good (.node k e st tmpl kids) = true) : Val.lt e 0 = false := by
  simp only [good, Bool.and_eq_true] at h
  obtain ⟨⟨⟨⟨⟨h, _⟩, _⟩, _⟩, _⟩, _⟩ := h
  split at h
  · simp only [leafGood, leafGoodCore, Bool.and_eq_true] at h
    obtain ⟨⟨_, h⟩, _⟩ := h
    cases e with
    | fin q =>
      simp only [Bool.and_eq_true, decide_eq_true_eq] at h
      exact lt_zero_of_nonneg q h.1
    | _ => cases h
  · simp only [Bool.and_eq_true] at h
    cases e with
    | fin q =>
      simp only [decide_eq_true_eq] at h
      exact lt_zero_of_nonneg q h.2
    | _ => cases h.2

/-- what `good` says about a leaf -/
theorem good_leaf (k : Kind) (e : Val) (st : St) (tmpl : Option Agg) (kids : List (Key × Agg))
    (hk : k.isLeaf = true) (h : good (.node k e st tmpl kids) = true) :
    leafGood k e st = true ∧ kids = [] := by
  simp only [good, Bool.and_eq_true, hk, if_true] at h
  obtain ⟨⟨⟨⟨⟨h1, h2⟩, _⟩, _⟩, _⟩, _⟩ := h
  refine ⟨h1, ?_⟩
  cases k <;> simp_all [Kind.isLeaf, Kind.layoutOk, keysOf]

theorem fits_of_leafGood (k : Kind) (e : Val) (st : St) (h : leafGood k e st = true) : St.fits k st = true := by
  simp only [leafGood, leafGoodCore, Bool.and_eq_true] at h
  exact h.1.1

macro "getq" : tactic =>
  `(tactic| (repeat (rw [get?_maybeAdd_ne _ _ _ _ (by decide)])) <;> rfl)

theorem step_sum (fuel : Nat) (q : Qty) (e : Val) (st : St) (tmpl : Option Agg) (kids : List (Key × Agg))
    (s : Bool) (pn : Option String)
    (hg : good (.node (.sum q) e st tmpl kids) = true)
    (hn : nameOk (.node (.sum q) e st tmpl kids) s pn) :
    decodeFrag (fuel+1) "Sum" (encodeFrag (.node (.sum q) e st tmpl kids) s) pn
      = some (immut (.node (.sum q) e st tmpl kids)) := by
  have he := entries_ok _ _ _ _ _ hg
  obtain ⟨hl, rfl⟩ := good_leaf _ _ _ _ _ rfl hg
  have hf := fits_of_leafGood _ _ _ hl
  cases st <;> simp only [St.fits] at hf <;> try cases hf
  rename_i x
  simp only [encodeFrag, Kind.qty?, Option.bind_some]
  rw [dec_sum fuel _ pn e x (if s = true then none else q.name)]
  · rw [resolve_ok q.name pn s hn]; rfl
  · cases s <;> cases q.name <;> rfl
  · apply entriesOf?_ok _ _ _ he
    getq
  · exact optStr?_maybeAdd_self _ _ _ rfl
  · getq


theorem step_average (fuel : Nat) (q : Qty) (e : Val) (st : St) (tmpl : Option Agg) (kids : List (Key × Agg))
    (s : Bool) (pn : Option String)
    (hg : good (.node (.average q) e st tmpl kids) = true)
    (hn : nameOk (.node (.average q) e st tmpl kids) s pn) :
    decodeFrag (fuel+1) "Average" (encodeFrag (.node (.average q) e st tmpl kids) s) pn
      = some (immut (.node (.average q) e st tmpl kids)) := by
  have he := entries_ok _ _ _ _ _ hg
  obtain ⟨hl, rfl⟩ := good_leaf _ _ _ _ _ rfl hg
  have hf := fits_of_leafGood _ _ _ hl
  cases st <;> simp only [St.fits] at hf <;> try cases hf
  rename_i x
  simp only [encodeFrag, Kind.qty?, Option.bind_some]
  rw [dec_avg fuel _ pn e x (if s = true then none else q.name)]
  · rw [resolve_ok q.name pn s hn]; rfl
  · cases s <;> cases q.name <;> rfl
  · apply entriesOf?_ok _ _ _ he
    getq
  · exact optStr?_maybeAdd_self _ _ _ rfl
  · getq

theorem step_minimize (fuel : Nat) (q : Qty) (e : Val) (st : St) (tmpl : Option Agg) (kids : List (Key × Agg))
    (s : Bool) (pn : Option String)
    (hg : good (.node (.minimize q) e st tmpl kids) = true)
    (hn : nameOk (.node (.minimize q) e st tmpl kids) s pn) :
    decodeFrag (fuel+1) "Minimize" (encodeFrag (.node (.minimize q) e st tmpl kids) s) pn
      = some (immut (.node (.minimize q) e st tmpl kids)) := by
  have he := entries_ok _ _ _ _ _ hg
  obtain ⟨hl, rfl⟩ := good_leaf _ _ _ _ _ rfl hg
  have hf := fits_of_leafGood _ _ _ hl
  cases st <;> simp only [St.fits] at hf <;> try cases hf
  rename_i x
  simp only [encodeFrag, Kind.qty?, Option.bind_some]
  rw [dec_min fuel _ pn e x (if s = true then none else q.name)]
  · rw [resolve_ok q.name pn s hn]; rfl
  · cases s <;> cases q.name <;> rfl
  · apply entriesOf?_ok _ _ _ he
    getq
  · exact optStr?_maybeAdd_self _ _ _ rfl
  · getq

theorem step_maximize (fuel : Nat) (q : Qty) (e : Val) (st : St) (tmpl : Option Agg) (kids : List (Key × Agg))
    (s : Bool) (pn : Option String)
    (hg : good (.node (.maximize q) e st tmpl kids) = true)
    (hn : nameOk (.node (.maximize q) e st tmpl kids) s pn) :
    decodeFrag (fuel+1) "Maximize" (encodeFrag (.node (.maximize q) e st tmpl kids) s) pn
      = some (immut (.node (.maximize q) e st tmpl kids)) := by
  have he := entries_ok _ _ _ _ _ hg
  obtain ⟨hl, rfl⟩ := good_leaf _ _ _ _ _ rfl hg
  have hf := fits_of_leafGood _ _ _ hl
  cases st <;> simp only [St.fits] at hf <;> try cases hf
  rename_i x
  simp only [encodeFrag, Kind.qty?, Option.bind_some]
  rw [dec_max fuel _ pn e x (if s = true then none else q.name)]
  · rw [resolve_ok q.name pn s hn]; rfl
  · cases s <;> cases q.name <;> rfl
  · apply entriesOf?_ok _ _ _ he
    getq
  · exact optStr?_maybeAdd_self _ _ _ rfl
  · getq

theorem step_count (fuel : Nat) (e : Val) (st : St) (tmpl : Option Agg) (kids : List (Key × Agg))
    (s : Bool) (pn : Option String)
    (hg : good (.node .count e st tmpl kids) = true) :
    decodeFrag (fuel+1) "Count" (encodeFrag (.node .count e st tmpl kids) s) pn
      = some (immut (.node .count e st tmpl kids)) := by
  have he := entries_ok _ _ _ _ _ hg
  obtain ⟨hl, rfl⟩ := good_leaf _ _ _ _ _ rfl hg
  have hf := fits_of_leafGood _ _ _ hl
  cases st <;> simp only [St.fits] at hf <;> try cases hf
  simp only [encodeFrag]
  rw [dec_count fuel e pn he]
  rfl

theorem step_deviate (fuel : Nat) (q : Qty) (e : Val) (st : St) (tmpl : Option Agg) (kids : List (Key × Agg))
    (s : Bool) (pn : Option String)
    (hg : good (.node (.deviate q) e st tmpl kids) = true)
    (hn : nameOk (.node (.deviate q) e st tmpl kids) s pn) :
    decodeFrag (fuel+1) "Deviate" (encodeFrag (.node (.deviate q) e st tmpl kids) s) pn
      = some (immut (.node (.deviate q) e st tmpl kids)) := by
  have he := entries_ok _ _ _ _ _ hg
  obtain ⟨hl, rfl⟩ := good_leaf _ _ _ _ _ rfl hg
  have hf := fits_of_leafGood _ _ _ hl
  cases st <;> simp only [St.fits] at hf <;> try cases hf
  rename_i x v
  simp only [encodeFrag, Kind.qty?, Option.bind_some]
  rw [dec_dev fuel _ pn e x (varianceOf e v) (if s = true then none else q.name)]
  · rw [resolve_ok q.name pn s hn, dev_round q e x v hl]; rfl
  · cases s <;> cases q.name <;> rfl
  · apply entriesOf?_ok _ _ _ he
    getq
  · exact optStr?_maybeAdd_self _ _ _ rfl
  · getq
  · getq

theorem step_bag (fuel : Nat) (q : Qty) (r : BagRange) (e : Val) (st : St) (tmpl : Option Agg) (kids : List (Key × Agg))
    (s : Bool) (pn : Option String)
    (hg : good (.node (.bag q r) e st tmpl kids) = true)
    (hn : nameOk (.node (.bag q r) e st tmpl kids) s pn) :
    decodeFrag (fuel+1) "Bag" (encodeFrag (.node (.bag q r) e st tmpl kids) s) pn
      = some (immut (.node (.bag q r) e st tmpl kids)) := by
  have he := entries_ok _ _ _ _ _ hg
  obtain ⟨hl, rfl⟩ := good_leaf _ _ _ _ _ rfl hg
  have hf := fits_of_leafGood _ _ _ hl
  cases st <;> simp only [St.fits] at hf <;> try cases hf
  rename_i m
  have hkeys : bagKeysOk r m = true := by
    simp only [leafGood, leafKeysOk, Bool.and_eq_true] at hl
    exact hl.2
  simp only [encodeFrag, Kind.qty?, Option.bind_some]
  rw [dec_bag fuel _ pn e (if s = true then none else q.name) r.toString _ m]
  · rw [resolve_ok q.name pn s hn, parseRange_toString]; rfl
  · cases s <;> cases q.name <;> rfl
  · apply entriesOf?_ok _ _ _ he
    getq
  · exact optStr?_maybeAdd_self _ _ _ rfl
  · getq
  · getq
  · rw [parseRange_toString]; exact bag_round r m hkeys
  · simp only [leafGood, Bool.and_eq_true] at hl
    exact bagSorted_nodup_keys (bagSorted_of_leafGoodCore hl.1)

end Hg.CodecAux
