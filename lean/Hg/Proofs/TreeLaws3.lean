import Hg.Proofs.TreeLaws2
import Mathlib.Data.List.Perm.Basic
import Mathlib.Data.List.Basic
import Mathlib.Data.List.Flatten

namespace Hg

/-! ### streams, partitions, schedules -/

/-! #### bookkeeping about `fillAll` / `goodRun` -/

-- `Outcome.isOk_iff` comes from Hg.Proofs.FillBasics

theorem fillAll_nil (t : Agg) : fillAll t [] = t := rfl

theorem fillAll_cons (t : Agg) (dw : Datum × Val) (s : List (Datum × Val)) :
    fillAll t (dw :: s) = fillAll (fill t dw.1 dw.2).1 s := rfl

theorem fillAll_app (t : Agg) (xs ys : List (Datum × Val)) :
    fillAll t (xs ++ ys) = fillAll (fillAll t xs) ys := by
  unfold fillAll; exact List.foldl_append ..

theorem goodRun_nil (t : Agg) : goodRun t [] = good t := rfl

theorem goodRun_cons (t : Agg) (dw : Datum × Val) (s : List (Datum × Val)) :
    goodRun t (dw :: s) = true ↔
      good t = true ∧ dw.2.okWeight = true ∧ (fill t dw.1 dw.2).2 = .ok ∧
        goodRun (fill t dw.1 dw.2).1 s = true := by
  simp only [goodRun, Bool.and_eq_true, Outcome.isOk_iff, and_assoc]

theorem goodRun_good (t : Agg) (s : List (Datum × Val)) (h : goodRun t s = true) :
    good t = true := by
  cases s with
  | nil => exact h
  | cons dw s => exact ((goodRun_cons t dw s).1 h).1

theorem goodRun_append (t : Agg) (xs ys : List (Datum × Val)) :
    goodRun t (xs ++ ys) = true ↔ goodRun t xs = true ∧ goodRun (fillAll t xs) ys = true := by
  induction xs generalizing t with
  | nil =>
    simp only [List.nil_append, goodRun_nil, fillAll_nil]
    exact ⟨fun h => ⟨goodRun_good _ _ h, h⟩, fun h => h.2⟩
  | cons dw xs ih =>
    simp only [List.cons_append, goodRun_cons, fillAll_cons, ih, and_assoc]

theorem good_fillAll (t : Agg) (xs : List (Datum × Val)) (h : goodRun t xs = true) :
    good (fillAll t xs) = true := by
  have := (goodRun_append t xs []).1 (by simpa using h)
  exact this.2

theorem hasTmpl_fillAll (t : Agg) (xs : List (Datum × Val)) (h : hasTmpl t = true) :
    hasTmpl (fillAll t xs) = true := by
  induction xs generalizing t with
  | nil => exact h
  | cons dw xs ih => exact ih _ (hasTmpl_fill t dw.1 dw.2 h)

theorem sameBase_fillAll (t : Agg) (xs : List (Datum × Val)) (h : goodRun t xs = true) :
    sameBase t (fillAll t xs) = true := by
  induction xs generalizing t with
  | nil => exact sameBase_refl t h
  | cons dw xs ih =>
    obtain ⟨hg, _, hok, hr⟩ := (goodRun_cons t dw xs).1 h
    rw [fillAll_cons]
    exact sameBase_trans _ _ _ hg (goodRun_good _ _ hr) (good_fillAll _ _ hr)
      (sameBase_fill t dw.1 dw.2 hg hok) (ih _ hr)

theorem add_eq_some_addRaw (a b : Agg) (ha : good a = true) (hb : good b = true)
    (hta : hasTmpl a = true) (htb : hasTmpl b = true)
    (h : sameBase a b = true) : add a b = some (addRaw a b) := by
  unfold add
  rw [compat_of_sameBase a b ha hb hta htb h]; rfl

theorem addRaw_comm (a b : Agg) (ha : good a = true) (hb : good b = true)
    (hta : hasTmpl a = true) (htb : hasTmpl b = true)
    (h : sameBase a b = true) : addRaw a b = addRaw b a := by
  have h' := sameBase_symm a b ha hb h
  have := add_comm' a b ha hb hta htb h
  rw [add_eq_some_addRaw a b ha hb hta htb h, add_eq_some_addRaw b a hb ha htb hta h'] at this
  exact Option.some.inj this

/-- Running a stream on `t` and merging `A` afterwards is the same as merging `A` first and running
the stream on the merged tree; the latter run is again a good run. -/
theorem merge_run (A t : Agg) (ys : List (Datum × Val)) (hA : good A = true)
    (htA : hasTmpl A = true) (hr : goodRun t ys = true) (htt : hasTmpl t = true)
    (hs : sameBase t A = true) :
    addRaw (fillAll t ys) A = fillAll (addRaw t A) ys ∧ goodRun (addRaw t A) ys = true := by
  induction ys generalizing t with
  | nil =>
    exact ⟨rfl, (good_addRaw t A hr hA htt htA hs).1⟩
  | cons dw ys ih =>
    obtain ⟨hg, hw, hok, hr'⟩ := (goodRun_cons t dw ys).1 hr
    have hg' := goodRun_good _ _ hr'
    have hsf := sameBase_fill t dw.1 dw.2 hg hok
    have hs' : sameBase (fill t dw.1 dw.2).1 A = true :=
      sameBase_trans _ _ _ hg' hg hA (sameBase_symm _ _ hg hg' hsf) hs
    obtain ⟨hok2, heq⟩ := fill_add_hom t A dw.1 dw.2 hg hA htt htA hs hw hg' hok
    obtain ⟨ih1, ih2⟩ := ih _ hr' (hasTmpl_fill t dw.1 dw.2 htt) hs'
    rw [heq] at ih1 ih2
    refine ⟨by rw [fillAll_cons, fillAll_cons, ih1], ?_⟩
    rw [goodRun_cons]
    exact ⟨(good_addRaw t A hg hA htt htA hs).1, hw, hok2, ih2⟩

theorem addRaw_zeroTree_self (z : Agg) (hg : good z = true) (hz : isZeroTree z = true)
    (ht : hasTmpl z = true) (hn : noBins z = true) : addRaw z z = z := by
  have h := add_zero_right z hg
  rw [zero_of_isZeroTree z hg hz hn,
    add_eq_some_addRaw z z hg hg ht ht (sameBase_refl z hg)] at h
  exact Option.some.inj h

/-- the empty tree is a left identity for every state reached from it -/
theorem addRaw_zeroTree_left (z : Agg) (xs : List (Datum × Val))
    (hz : isZeroTree z = true) (ht : hasTmpl z = true) (hn : noBins z = true)
    (hx : goodRun z xs = true) :
    addRaw z (fillAll z xs) = fillAll z xs := by
  have hg := goodRun_good _ _ hx
  have h := (merge_run z z xs hg ht hx ht (sameBase_refl z hg)).1
  rw [addRaw_zeroTree_self z hg hz ht hn] at h
  rw [addRaw_comm z _ hg (good_fillAll _ _ hx) ht (hasTmpl_fillAll _ _ ht)
    (sameBase_fillAll _ _ hx)]
  exact h

/-- both conclusions one gets from merging two runs started at the same empty tree: the merge is
the aggregate of the concatenation, and the concatenation is again a good run -/
theorem fillAll_append_aux (z : Agg) (xs ys : List (Datum × Val))
    (hz : isZeroTree z = true) (ht : hasTmpl z = true) (hn : noBins z = true)
    (hx : goodRun z xs = true) (hy : goodRun z ys = true) :
    add (fillAll z xs) (fillAll z ys) = some (fillAll z (xs ++ ys)) ∧
      goodRun z (xs ++ ys) = true := by
  have hg := goodRun_good _ _ hx
  have hA := good_fillAll _ _ hx
  have hB := good_fillAll _ _ hy
  have htA := hasTmpl_fillAll z xs ht
  have htB := hasTmpl_fillAll z ys ht
  have hzA := sameBase_fillAll _ _ hx
  have hzB := sameBase_fillAll _ _ hy
  have hAB : sameBase (fillAll z xs) (fillAll z ys) = true :=
    sameBase_trans _ _ _ hA hg hB (sameBase_symm _ _ hg hA hzA) hzB
  obtain ⟨h1, h2⟩ := merge_run (fillAll z xs) z ys hA htA hy ht hzA
  rw [addRaw_zeroTree_left z xs hz ht hn hx] at h1 h2
  refine ⟨?_, (goodRun_append z xs ys).2 ⟨hx, h2⟩⟩
  rw [add_eq_some_addRaw _ _ hA hB htA htB hAB, addRaw_comm _ _ hA hB htA htB hAB, h1,
    fillAll_app]

theorem fillAll_append (z : Agg) (xs ys : List (Datum × Val))
    (hz : isZeroTree z = true) (ht : hasTmpl z = true) (hn : noBins z = true)
    (hx : goodRun z xs = true) (hy : goodRun z ys = true) :
    add (fillAll z xs) (fillAll z ys) = some (fillAll z (xs ++ ys)) :=
  (fillAll_append_aux z xs ys hz ht hn hx hy).1

/-! #### concatenations and permutations of good chunks -/

/-- the concatenation of chunks that are good runs from the empty tree is a good run -/
theorem goodRun_flatten (z : Agg) (cs : List (List (Datum × Val)))
    (hz : isZeroTree z = true) (ht : hasTmpl z = true) (hn : noBins z = true)
    (hg : good z = true) (h : ∀ c ∈ cs, goodRun z c = true) : goodRun z cs.flatten = true := by
  induction cs with
  | nil => exact hg
  | cons c cs ih =>
    rw [List.flatten_cons]
    exact (fillAll_append_aux z c cs.flatten hz ht hn (h c (List.mem_cons_self ..))
      (ih (fun x hx => h x (List.mem_cons_of_mem _ hx)))).2

/-- Chunk-wise order independence: permuting chunks, each of which is a good run from the empty
tree, does not change the aggregate of the concatenation. -/
theorem fillAll_perm_chunks (z : Agg) (cs1 cs2 : List (List (Datum × Val)))
    (hz : isZeroTree z = true) (ht : hasTmpl z = true) (hn : noBins z = true)
    (hg : good z = true) (h : ∀ c ∈ cs1, goodRun z c = true) (hp : cs1.Perm cs2) :
    fillAll z cs2.flatten = fillAll z cs1.flatten := by
  induction hp with
  | nil => rfl
  | @cons c l1 l2 hp ih =>
    have hc := h c (List.mem_cons_self ..)
    have h1 : ∀ x ∈ l1, goodRun z x = true := fun x hx => h x (List.mem_cons_of_mem _ hx)
    have h2 : ∀ x ∈ l2, goodRun z x = true := fun x hx => h1 x (hp.mem_iff.2 hx)
    have e1 := fillAll_append z c l1.flatten hz ht hn hc (goodRun_flatten z l1 hz ht hn hg h1)
    have e2 := fillAll_append z c l2.flatten hz ht hn hc (goodRun_flatten z l2 hz ht hn hg h2)
    rw [ih h1, e1] at e2
    rw [List.flatten_cons, List.flatten_cons]
    exact (Option.some.inj e2).symm
  | swap x y l =>
    have hx := h x (by simp)
    have hy := h y (by simp)
    have hgx := good_fillAll _ _ hx
    have hgy := good_fillAll _ _ hy
    have htx := hasTmpl_fillAll z x ht
    have hty := hasTmpl_fillAll z y ht
    have hxy : sameBase (fillAll z x) (fillAll z y) = true :=
      sameBase_trans _ _ _ hgx hg hgy
        (sameBase_symm _ _ hg hgx (sameBase_fillAll _ _ hx)) (sameBase_fillAll _ _ hy)
    have e1 := fillAll_append z x y hz ht hn hx hy
    have e2 := fillAll_append z y x hz ht hn hy hx
    rw [add_comm' _ _ hgx hgy htx hty hxy, e2] at e1
    have e3 : fillAll z (y ++ x) = fillAll z (x ++ y) := Option.some.inj e1
    simp only [List.flatten_cons]
    rw [← List.append_assoc, ← List.append_assoc, fillAll_app, fillAll_app z (y ++ x), e3]
  | @trans l1 l2 l3 hp1 _ ih1 ih2 =>
    rw [ih2 (fun x hx => h x (hp1.mem_iff.2 hx)), ih1 h]

/-- Order independence (C02): any permutation of a stream gives the same aggregate, and the
permuted stream is again a good run.

CHANGED STATEMENT (see report): the original hypothesis `goodRun z xs = true` is replaced by the
stronger `hs`: every datum of the stream, filled alone into the empty tree, gives a good run
(`goodRun z xs` follows, see `goodRun_of_singles`).  `good` is not preserved by `fill` in general
and nothing in the interface yields goodness of the states of a *sub*-stream, which the permuted
run passes through. -/
theorem fillAll_perm (z : Agg) (xs ys : List (Datum × Val))
    (hz : isZeroTree z = true) (ht : hasTmpl z = true) (hn : noBins z = true)
    (hg : good z = true) (hs : ∀ dw ∈ xs, goodRun z [dw] = true) (hp : xs.Perm ys) :
    fillAll z ys = fillAll z xs ∧ goodRun z ys = true := by
  have hflat : ∀ l : List (Datum × Val), (l.map (fun x => [x])).flatten = l := by
    intro l; induction l with
    | nil => rfl
    | cons a l ih => simp [ih]
  have h1 : ∀ c ∈ xs.map (fun x => [x]), goodRun z c = true := by
    intro c hc
    obtain ⟨dw, hdw, rfl⟩ := List.mem_map.1 hc
    exact hs dw hdw
  have h2 : ∀ c ∈ ys.map (fun x => [x]), goodRun z c = true := by
    intro c hc
    obtain ⟨dw, hdw, rfl⟩ := List.mem_map.1 hc
    exact hs dw (hp.mem_iff.2 hdw)
  have e := fillAll_perm_chunks z _ _ hz ht hn hg h1 (hp.map (fun x => [x]))
  have r := goodRun_flatten z _ hz ht hn hg h2
  rw [hflat] at r
  rw [hflat, hflat] at e
  exact ⟨e, r⟩

/-- a stream all of whose elements can be filled alone into the empty tree is a good run -/
theorem goodRun_of_singles (z : Agg) (s : List (Datum × Val))
    (hz : isZeroTree z = true) (ht : hasTmpl z = true) (hn : noBins z = true)
    (hg : good z = true) (h : ∀ dw ∈ s, goodRun z [dw] = true) : goodRun z s = true :=
  (fillAll_perm z s s hz ht hn hg h (List.Perm.refl s)).2

/-- a reduction schedule: a binary tree whose leaves name chunks -/
inductive Sched where
  | leaf (i : Nat)
  | node (l r : Sched)

def Sched.leaves : Sched → List Nat
  | .leaf i => [i]
  | .node l r => l.leaves ++ r.leaves

/-- combine partial results with `+` following the schedule -/
def reduce (parts : List Agg) : Sched → Option Agg
  | .leaf i => parts[i]?
  | .node l r => (reduce parts l).bind (fun a => (reduce parts r).bind (fun b => add a b))

/-- The partial result a schedule computes is the aggregate of the concatenation of the chunks its
leaves name, in leaf order. -/
theorem reduce_eq (z : Agg) (chunks : List (List (Datum × Val))) (σ : Sched)
    (hz : isZeroTree z = true) (ht : hasTmpl z = true) (hn : noBins z = true)
    (hg : good z = true) (hruns : ∀ c ∈ chunks, goodRun z c = true)
    (hσ : ∀ i ∈ σ.leaves, i < chunks.length) :
    reduce (chunks.map (fillAll z)) σ
        = some (fillAll z (σ.leaves.map (fun i => chunks.getD i [])).flatten) ∧
      ∀ c ∈ σ.leaves.map (fun i => chunks.getD i []), goodRun z c = true := by
  induction σ with
  | leaf i =>
    have hi : i < chunks.length := hσ i (by simp [Sched.leaves])
    refine ⟨?_, ?_⟩
    · simp [reduce, Sched.leaves, hi]
    · intro c hc
      simp only [Sched.leaves, List.map_cons, List.map_nil, List.mem_singleton] at hc
      subst hc
      have e : chunks.getD i [] = chunks[i] := by simp [hi]
      rw [e]
      exact hruns _ (List.getElem_mem hi)
  | node l r ihl ihr =>
    have hl : ∀ i ∈ l.leaves, i < chunks.length :=
      fun i hi => hσ i (by simp [Sched.leaves, hi])
    have hr : ∀ i ∈ r.leaves, i < chunks.length :=
      fun i hi => hσ i (by simp [Sched.leaves, hi])
    obtain ⟨el, gl⟩ := ihl hl
    obtain ⟨er, gr⟩ := ihr hr
    refine ⟨?_, ?_⟩
    · simp only [reduce, el, er, Option.bind_some, Sched.leaves, List.map_append,
        List.flatten_append]
      exact fillAll_append z _ _ hz ht hn (goodRun_flatten z _ hz ht hn hg gl)
        (goodRun_flatten z _ hz ht hn hg gr)
    · intro c hc
      simp only [Sched.leaves, List.map_append, List.mem_append] at hc
      exact hc.elim (gl c) (gr c)

/-- Partition invariance (C01): for any split of the data into chunks (empty ones included), filling
each chunk into a fresh empty tree and combining the partial results with `+` in any order and any
grouping gives the aggregate of the whole dataset.

CHANGED STATEMENT (see report): `hruns` (each chunk, run from the empty tree, is a good run) is
added; `hrun` is kept as requested although it follows from `hruns` (`goodRun_flatten`). -/
theorem partition_invariant (z : Agg) (chunks : List (List (Datum × Val))) (σ : Sched)
    (hz : isZeroTree z = true) (ht : hasTmpl z = true) (hn : noBins z = true)
    (hruns : ∀ c ∈ chunks, goodRun z c = true)
    (hrun : goodRun z chunks.flatten = true)
    (hσ : σ.leaves.Perm (List.range chunks.length)) :
    reduce (chunks.map (fillAll z)) σ = some (fillAll z chunks.flatten) := by
  have hg := goodRun_good _ _ hrun
  have hlt : ∀ i ∈ σ.leaves, i < chunks.length :=
    fun i hi => List.mem_range.1 (hσ.mem_iff.1 hi)
  obtain ⟨e, g⟩ := reduce_eq z chunks σ hz ht hn hg hruns hlt
  have hchunks : (List.range chunks.length).map (fun i => chunks.getD i []) = chunks := by
    apply List.ext_getElem
    · simp
    · intro i h1 h2
      simp only [List.length_map, List.length_range] at h1
      simp [h1]
  have hp : (σ.leaves.map (fun i => chunks.getD i [])).Perm chunks := by
    have := hσ.map (fun i => chunks.getD i [])
    rwa [hchunks] at this
  rw [e, fillAll_perm_chunks z _ _ hz ht hn hg g hp]

end Hg
