/-
  Hg.Proofs.AccessLaws — derived views agree with fill (C13), exact arithmetic.
-/
import Hg.Model.Access
import Hg.Model.WF
import Mathlib.Data.Rat.Floor
import Mathlib.Algebra.Order.Field.Rat
import Mathlib.Tactic.Ring
import Mathlib.Tactic.FieldSimp
import Mathlib.Tactic.Linarith
import Mathlib.Tactic.NormNum

namespace Hg

/-! ### helpers -/

private theorem ratFloor_le (q : Rat) : ((q.floor : Int) : Rat) ≤ q := Int.floor_le q

private theorem ratLt_floor_add_one (q : Rat) : q < ((q.floor : Int) : Rat) + 1 := Int.lt_floor_add_one q

private theorem grid_le (m d L x k : Rat) (hm : 0 < m) (hd : 0 < d) (h : k ≤ m * (x - L) / d) :
    L + d / m * k ≤ x := by
  rw [le_div_iff₀ hd] at h
  have : d / m * k = k * d / m := by field_simp
  rw [this]
  have : k * d / m ≤ x - L := by
    rw [div_le_iff₀ hm]; linarith
  linarith

private theorem grid_lt (m d L x k : Rat) (hm : 0 < m) (hd : 0 < d) (h : m * (x - L) / d < k) :
    x < L + d / m * k := by
  rw [div_lt_iff₀ hd] at h
  have : d / m * k = k * d / m := by field_simp
  rw [this]
  have : x - L < k * d / m := by
    rw [lt_div_iff₀ hm]; linarith
  linarith

/-! ### the partition `fill` uses -/

/-- `Bin.bin`: for `low ≤ x < high` the index `i` returned satisfies `low + i·w ≤ x < low + (i+1)·w`
with `w = (high - low)/n`, and `i < n` -/
theorem binIndex_spec (n : Nat) (L H x : Rat) (hn : 0 < n) (hLH : L < H) (h1 : L ≤ x) (h2 : x < H) :
    binIndex n L H x < n ∧
    L + Bin.width n L H * (binIndex n L H x : Nat) ≤ x ∧
    x < L + Bin.width n L H * ((binIndex n L H x : Nat) + 1) := by
  have hd : (0 : Rat) < H - L := by linarith
  have hm : (0 : Rat) < (n : Rat) := by exact_mod_cast hn
  obtain ⟨t, ht⟩ : ∃ t, t = (n : Rat) * (x - L) / (H - L) := ⟨_, rfl⟩
  have ht0 : 0 ≤ t := by
    rw [ht]; apply div_nonneg _ hd.le
    exact mul_nonneg hm.le (by linarith)
  have htn : t < n := by
    rw [ht, div_lt_iff₀ hd]
    have : x - L < H - L := by linarith
    exact mul_lt_mul_of_pos_left this hm
  have hf0 : 0 ≤ t.floor := Rat.le_floor_iff.mpr (by simpa using ht0)
  have hfn : t.floor < (n : Int) := by
    have : ((t.floor : Int) : Rat) < ((n : Int) : Rat) := lt_of_le_of_lt (ratFloor_le t) (by simpa using htn)
    exact_mod_cast this
  obtain ⟨k, hk⟩ : ∃ k : Nat, t.floor = (k : Int) := ⟨t.floor.toNat, (Int.toNat_of_nonneg hf0).symm⟩
  have hkn : k < n := by omega
  have hidx : binIndex n L H x = k := by
    unfold binIndex
    simp only [← ht, hk, Int.toNat_natCast]
    omega
  have hle : (k : Rat) ≤ t := by
    have := ratFloor_le t; rw [hk] at this; simpa using this
  have hlt : t < (k : Rat) + 1 := by
    have := ratLt_floor_add_one t; rw [hk] at this; simpa using this
  rw [hidx]
  refine ⟨hkn, ?_, ?_⟩
  · unfold Bin.width
    exact grid_le n (H - L) L x k hm hd (ht ▸ hle)
  · unfold Bin.width
    exact grid_lt n (H - L) L x (k + 1) hm hd (ht ▸ hlt)

/-- SparselyBin: bin `i = ⌊(x - origin)/width⌋` is the half-open interval
`[origin + i·width, origin + (i+1)·width)` -/
theorem Sparse.idx_spec (width origin x : Rat) (hw : 0 < width) :
    origin + width * (Sparse.idx width origin x : Int) ≤ x ∧
    x < origin + width * ((Sparse.idx width origin x : Int) + 1) := by
  unfold Sparse.idx
  have h1 := ratFloor_le ((x - origin) / width)
  have h2 := ratLt_floor_add_one ((x - origin) / width)
  rw [le_div_iff₀ hw] at h1
  rw [div_lt_iff₀ hw] at h2
  constructor <;> linarith

/-! ### Bin views are mutually consistent -/

private theorem Bin.edges_eq (n : Nat) (L H : Rat) (low high : Option Rat) (a b : Nat)
    (hs : Bin.span n L H low high = some (a, b)) :
    Bin.edges n L H low high =
      (List.range (b + 2 - a)).map (fun i => L + Bin.width n L H * ((a + i : Nat) : Rat)) := by
  unfold Bin.edges; rw [hs]

private theorem Bin.centers_eq (n : Nat) (L H : Rat) (low high : Option Rat) (a b : Nat)
    (hs : Bin.span n L H low high = some (a, b)) :
    Bin.centers n L H low high =
      (List.range (b + 1 - a)).map (fun i => L + Bin.width n L H * (((a + i : Nat) : Rat) + 1 / 2)) := by
  unfold Bin.centers; rw [hs]

theorem Bin.edges_length (n : Nat) (L H : Rat) (low high : Option Rat) (a b : Nat)
    (hs : Bin.span n L H low high = some (a, b)) (hab : a ≤ b + 1) :
    (Bin.edges n L H low high).length = Bin.numBins n L H low high + 1 := by
  unfold Bin.edges Bin.numBins
  rw [hs]
  simp only [List.length_map, List.length_range]
  omega

theorem Bin.centers_length (n : Nat) (L H : Rat) (low high : Option Rat) :
    (Bin.centers n L H low high).length = Bin.numBins n L H low high := by
  unfold Bin.centers Bin.numBins
  cases hs : Bin.span n L H low high with
  | none => rfl
  | some p =>
    obtain ⟨a, b⟩ := p
    simp only [List.length_map, List.length_range]

/-- one entry per bin (the node has its `n` regular bins and the query's last bin exists) -/
theorem Bin.entriesIn_length (n : Nat) (L H : Rat) (kids : List (Key × Agg)) (low high : Option Rat) (a b : Nat)
    (hk : (binEntriesAll kids).length = n) (hs : Bin.span n L H low high = some (a, b)) (hb : b < n) (hab : a ≤ b + 1) :
    (Bin.entriesIn n L H kids low high).length = Bin.numBins n L H low high := by
  unfold Bin.entriesIn Bin.numBins
  rw [hs]
  simp only [List.length_take, List.length_drop, hk]
  omega

/-- every centre lies strictly between its two edges, and edges are strictly increasing -/
theorem Bin.center_between (n : Nat) (L H : Rat) (low high : Option Rat) (hn : 0 < n) (hLH : L < H) (i : Nat)
    (hi : i < (Bin.centers n L H low high).length) :
    ∃ e0 e1 c, (Bin.edges n L H low high)[i]? = some e0 ∧ (Bin.edges n L H low high)[i + 1]? = some e1 ∧
      (Bin.centers n L H low high)[i]? = some c ∧ e0 < c ∧ c < e1 := by
  have hw : 0 < Bin.width n L H := by
    unfold Bin.width
    have hm : (0 : Rat) < (n : Rat) := by exact_mod_cast hn
    exact div_pos (by linarith) hm
  cases hs : Bin.span n L H low high with
  | none =>
    unfold Bin.centers at hi
    rw [hs] at hi; simp at hi
  | some p =>
    obtain ⟨a, b⟩ := p
    rw [Bin.centers_eq n L H low high a b hs] at hi ⊢
    rw [Bin.edges_eq n L H low high a b hs]
    simp only [List.length_map, List.length_range] at hi
    have h0 : i < b + 2 - a := by omega
    have h1 : i + 1 < b + 2 - a := by omega
    refine ⟨L + Bin.width n L H * ((a + i : Nat) : Rat), L + Bin.width n L H * ((a + (i + 1) : Nat) : Rat),
      L + Bin.width n L H * (((a + i : Nat) : Rat) + 1 / 2), ?_, ?_, ?_, ?_, ?_⟩
    · simp only [List.getElem?_map, List.getElem?_range h0, Option.map_some]
    · simp only [List.getElem?_map, List.getElem?_range h1, Option.map_some]
    · simp only [List.getElem?_map, List.getElem?_range hi, Option.map_some]
    · have : Bin.width n L H * ((a + i : Nat) : Rat) < Bin.width n L H * (((a + i : Nat) : Rat) + 1 / 2) :=
        mul_lt_mul_of_pos_left (by linarith) hw
      linarith
    · have : Bin.width n L H * (((a + i : Nat) : Rat) + 1 / 2) < Bin.width n L H * ((a + (i + 1) : Nat) : Rat) := by
        apply mul_lt_mul_of_pos_left _ hw
        push_cast; linarith
      linarith

/-- the full-range views describe exactly the partition `fill` uses: a value routed to regular bin `i`
lies between the `i`-th and `(i+1)`-th full-range edge -/
theorem Bin.route_in_edges (n : Nat) (L H x : Rat) (hn : 0 < n) (hLH : L < H) (i : Nat)
    (hr : routeBin n L H (.fin x) = .pos i) :
    ∃ e0 e1, (Bin.edges n L H none none)[i]? = some e0 ∧ (Bin.edges n L H none none)[i + 1]? = some e1 ∧
      e0 ≤ x ∧ x < e1 := by
  unfold routeBin at hr
  simp only at hr
  split at hr
  · cases hr
  · split at hr
    · cases hr
    · rename_i hxl hxh
      have hi : binIndex n L H x = i := by injection hr
      obtain ⟨hlt, hle, hlt'⟩ := binIndex_spec n L H x hn hLH (not_lt.mp hxl) (not_le.mp hxh)
      rw [hi] at hlt hle hlt'
      have hs : Bin.span n L H none none = some (0, n - 1) := by
        unfold Bin.span; simp
      rw [Bin.edges_eq n L H none none 0 (n - 1) hs]
      have h0 : i < n - 1 + 2 - 0 := by omega
      have h1 : i + 1 < n - 1 + 2 - 0 := by omega
      refine ⟨L + Bin.width n L H * ((0 + i : Nat) : Rat), L + Bin.width n L H * ((0 + (i + 1) : Nat) : Rat),
        ?_, ?_, ?_, ?_⟩
      · simp only [List.getElem?_map, List.getElem?_range h0, Option.map_some]
      · simp only [List.getElem?_map, List.getElem?_range h1, Option.map_some]
      · simpa using hle
      · simpa using hlt'

/-- `bin_entries(xvalues=[x])` returns the content of the bin `fill` routes `x` to -/
theorem Bin.entryAt_route (n : Nat) (L H x : Rat) (kids : List (Key × Agg)) (i : Nat)
    (hr : routeBin n L H (.fin x) = .pos i) :
    Bin.entryAt n L H kids x = ((binEntriesAll kids)[i]?).getD 0 := by
  unfold Bin.entryAt
  rw [hr]

end Hg
