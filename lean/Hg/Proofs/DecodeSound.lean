/-
  Hg.Proofs.DecodeSound — what an ACCEPTED document loads as (C15: "never loaded as a corrupted aggregator").

  `decode_encode` (Hg.Proofs.CodecLaws) goes from aggregators to documents and back.  This file goes the other way,
  for an arbitrary document `j` (not necessarily produced by `encode`) that the decoder accepts as `t`.

  The unconditional statement `decode j = some t → decode (encode t) = some t` is FALSE (`Counter` below):
    * a Deviate with `entries = "inf"` and a finite non-zero variance loads with accumulator `variance * inf = inf`,
      is written back with variance `inf / inf = nan`, and reloads with accumulator `nan`;
    * a child that carries its own `"name"` different from the one shared key of its parent (`values:name`,
      `bins:name`, `sub:name`) — or a `bins:name` next to nameless `Count` bins — loses / changes that name on the
      way out (`toJsonFragment(suppressName=True)`), so the result is not `uniform`.
  What does hold for every accepted document: the result is immutable (`decode_immut_fixed`) and names only
  registered content types (`decode_knownCtype`); with `good t` and `uniform t` it is a fixed point of the round trip
  (`decode_stable_of_good`).  Neither `good` nor `uniform` follows from acceptance, and neither can be dropped.
-/
import Hg.Proofs.CodecLaws
import Hg.Proofs.DecodeLaws
import Hg.Proofs.FillBasics

namespace Hg
namespace DecodeSound

/-! ### generic helpers -/

theorem mapM_forall {α β : Type} {f : α → Option β} {Q : β → Prop} (hf : ∀ x y, f x = some y → Q y) :
    ∀ (l : List α) (ys : List β), l.mapM f = some ys → ∀ y ∈ ys, Q y := by
  intro l
  induction l with
  | nil => intro ys h; simp at h; subst h; simp
  | cons x r ih =>
    intro ys h
    simp only [List.mapM_cons, Option.bind_eq_bind, Option.pure_def, Option.bind_eq_some_iff] at h
    obtain ⟨y, hy, ys', hys, heq⟩ := h
    cases heq
    intro z hz
    rcases List.mem_cons.1 hz with rfl | hz
    · exact hf _ _ hy
    · exact ih ys' hys z hz

/-- all children satisfy `R` -/
def AllR (R : Agg → Prop) (kids : List (Key × Agg)) : Prop := ∀ p ∈ kids, R p.2

theorem AllR.nil {R} : AllR R [] := by intro p hp; cases hp
theorem AllR.cons {R k a rest} (ha : R a) (hr : AllR R rest) : AllR R ((k, a) :: rest) := by
  intro p hp
  rcases List.mem_cons.1 hp with rfl | hp
  · exact ha
  · exact hr p hp
theorem AllR.append {R l1 l2} (h1 : AllR R l1) (h2 : AllR R l2) : AllR R (l1 ++ l2) := by
  intro p hp
  rcases List.mem_append.1 hp with hp | hp
  · exact h1 p hp
  · exact h2 p hp
theorem AllR.zipIdx {R} {mk : Nat → Key} {vals : List Agg} (h : ∀ a ∈ vals, R a) :
    AllR R (vals.zipIdx.map (fun p => (mk p.2, p.1))) := by
  intro p hp
  obtain ⟨q, hq, rfl⟩ := List.mem_map.1 hp
  obtain ⟨a, i⟩ := q
  obtain ⟨_, hlt, heq⟩ := List.mem_zipIdx hq
  show R a
  rw [heq]
  exact h _ (List.getElem_mem _)
theorem AllR.foldl {R} {bins : List (Key × Agg)} (h : AllR R bins) :
    AllR R (bins.foldl (fun acc p => insertK p.1 p.2 acc) []) := by
  suffices ∀ (bins acc : List (Key × Agg)), AllR R bins → AllR R acc →
      AllR R (bins.foldl (fun acc p => insertK p.1 p.2 acc) acc) from this bins [] h AllR.nil
  intro bins
  induction bins with
  | nil => intro acc _ ha; exact ha
  | cons b r ih =>
    intro acc hb ha
    simp only [List.foldl_cons]
    apply ih
    · intro p hp; exact hb p (List.mem_cons_of_mem _ hp)
    · intro p hp
      rcases mem_insertK.1 hp with rfl | hp
      · exact hb _ (List.mem_cons_self)
      · exact ha p hp

/-- local shape of an accepted fragment: no template, dead quantities, a registered content type, and
children satisfying `R` -/
def KnownK : Kind → Prop
  | .sparse _ _ _ c _ => isKnownType c = true
  | .categorize _ c _ => isKnownType c = true
  | _ => True

def Shape (R : Agg → Prop) (t : Agg) : Prop :=
  ∃ k e st kids, t = .node k e st Option.none kids ∧ k.mapQty Qty.dead = k ∧ KnownK k ∧ AllR R kids

def SGood (R : Agg → Prop) (o : Option Agg) : Prop := ∀ t, o = some t → Shape R t

theorem SGood.none {R} : SGood R none := by intro t h; cases h
theorem SGood.bind {α R} {o : Option α} {f : α → Option Agg}
    (hf : ∀ a, o = some a → SGood R (f a)) : SGood R (o.bind f) := by
  intro t h
  cases o with
  | none => cases h
  | some a => exact hf a rfl t h
theorem SGood.ite {R} {c : Prop} [Decidable c] {a b : Option Agg}
    (ha : SGood R a) (hb : ¬ c → SGood R b) : SGood R (if c then a else b) := by
  split
  · exact ha
  · exact hb ‹_›
theorem SGood.some {R k e st kids} (hq : Kind.mapQty Qty.dead k = k)
    (hk : KnownK k)
    (hkids : AllR R kids) :
    SGood R (Option.some (.node k e st Option.none kids)) := by
  intro t h; cases h; exact ⟨_, _, _, _, rfl, hq, hk, hkids⟩

theorem SGood.bind' {α R} {o : Option α} {f : α → Option Agg}
    (hf : ∀ a, o = Option.some a → SGood R (f a)) : SGood R (o >>= f) := SGood.bind hf
theorem SGood.pure {R k e st kids} (hq : Kind.mapQty Qty.dead k = k) (hk : KnownK k) (hkids : AllR R kids) :
    SGood R (Pure.pure (.node k e st Option.none kids)) := SGood.some hq hk hkids

def OGood {β : Type} (Q : β → Prop) (o : Option β) : Prop := ∀ y, o = Option.some y → Q y
theorem OGood.none {β} {Q : β → Prop} : OGood Q Option.none := by intro t h; cases h
theorem OGood.bind {α β} {Q : β → Prop} {o : Option α} {f : α → Option β}
    (hf : ∀ a, o = Option.some a → OGood Q (f a)) : OGood Q (o.bind f) := by
  intro t h
  cases o with
  | none => cases h
  | some a => exact hf a rfl t h
theorem OGood.bind' {α β} {Q : β → Prop} {o : Option α} {f : α → Option β}
    (hf : ∀ a, o = Option.some a → OGood Q (f a)) : OGood Q (o >>= f) := OGood.bind hf
theorem OGood.ite {β} {Q : β → Prop} {c : Prop} [Decidable c] {a b : Option β}
    (ha : OGood Q a) (hb : ¬ c → OGood Q b) : OGood Q (if c then a else b) := by
  split
  · exact ha
  · exact hb ‹_›
theorem OGood.pure {β} {Q : β → Prop} {y : β} (h : Q y) : OGood Q (Pure.pure y) := by
  intro t ht; cases ht; exact h

theorem AllR.mapM {α : Type} {R : Agg → Prop} {f : α → Option (Key × Agg)} {l : List α} {ys : List (Key × Agg)}
    (h : l.mapM f = Option.some ys) (hf : ∀ x, OGood (fun p => R p.2) (f x)) : AllR R ys :=
  fun p hp => mapM_forall (Q := fun p => R p.2) (fun x y hx => hf x y hx) l ys h p hp
theorem forall_mapM {α : Type} {R : Agg → Prop} {f : α → Option Agg} {l : List α} {ys : List Agg}
    (h : l.mapM f = Option.some ys) (hf : ∀ x, OGood R (f x)) : ∀ a ∈ ys, R a :=
  mapM_forall (Q := R) (fun x y hx => hf x y hx) l ys h

theorem OGood.ih {R : Agg → Prop} {fuel : Nat}
    (ih : ∀ ty x nm a, decodeFrag fuel ty x nm = Option.some a → R a) {ty x nm} :
    OGood R (decodeFrag fuel ty x nm) := fun y hy => ih _ _ _ _ hy

theorem R_of_bind {R : Agg → Prop} {fuel : Nat}
    (ih : ∀ ty x nm a, decodeFrag fuel ty x nm = some a → R a)
    {o : Option Json} {ty nm a} (h : o.bind (fun x => decodeFrag fuel ty x nm) = some a) : R a := by
  cases o with
  | none => cases h
  | some x => exact ih _ _ _ _ h

attribute [local irreducible] decodeFrag in
theorem step (R : Agg → Prop) (fuel : Nat)
    (ih : ∀ ty x nm a, decodeFrag fuel ty x nm = some a → R a)
    (ty : String) (j : Json) (pn : Option String) (t : Agg)
    (h : decodeFrag (fuel + 1) ty j pn = some t) : Shape R t := by
  unfold decodeFrag at h
  simp only at h
  split at h
  · -- Count
    split at h
    · split at h
      · cases h
      · cases h; exact ⟨_, _, _, _, rfl, rfl, trivial, AllR.nil⟩
    · cases h
  all_goals first
    | (cases h; done)
    | (split at h
       · cases h
       · revert t
         show SGood _ _
         repeat' first
           | exact SGood.none
           | (apply SGood.ite; exact SGood.none; intro _)
           | (apply SGood.bind; intro _ _)
           | (apply SGood.bind'; intro _ _)
           | split
         all_goals apply SGood.pure
         all_goals first
           | (simp [Kind.mapQty, Qty.dead, deadQty]; done)
           | (simp_all [KnownK]; done)
           | skip
         all_goals repeat' first
           | exact AllR.nil
           | apply AllR.cons
           | apply AllR.append
           | apply AllR.zipIdx
           | apply AllR.foldl
         all_goals first
           | exact R_of_bind ih (by assumption)
           | exact mapM_forall (fun x y h => ih _ _ _ _ h) _ _ (by assumption)
           | skip
         all_goals first
           | refine AllR.mapM (by assumption) ?_
           | refine forall_mapM (by assumption) ?_
         all_goals
           intro x
           beta_reduce
           repeat' first
             | exact OGood.none
             | exact OGood.ih ih
             | (apply OGood.pure
                first
                  | exact ih _ _ _ _ (by assumption)
                  | exact R_of_bind ih (by assumption))
             | split
             | (apply OGood.bind'; intro _ _)
             | (apply OGood.bind; intro _ _)
)

theorem immutKids_fixed : ∀ (kids : List (Key × Agg)), AllR (fun a => immut a = a ∧ knownCtype a = true) kids →
    immutKids kids = kids ∧ knownCtypeKids kids = true
  | [], _ => by simp [immutKids, knownCtypeKids]
  | (k, a) :: rest, h => by
    have h1 := h (k, a) List.mem_cons_self
    have h2 := immutKids_fixed rest (fun p hp => h p (List.mem_cons_of_mem _ hp))
    simp only [immutKids, knownCtypeKids, h1.1, h1.2, h2.1, h2.2, Bool.and_self, and_self]

/-- every accepted fragment is immutable (a fixed point of `immut`) and names registered content types -/
theorem decodeFrag_sound : ∀ (fuel : Nat) (ty : String) (j : Json) (pn : Option String) (t : Agg),
    decodeFrag fuel ty j pn = some t → immut t = t ∧ knownCtype t = true := by
  intro fuel
  induction fuel with
  | zero => intro ty j pn t h; simp [decodeFrag] at h
  | succ fuel ih =>
    intro ty j pn t h
    obtain ⟨k, e, st, kids, rfl, hq, hk, hkids⟩ := step _ fuel ih ty j pn t h
    obtain ⟨h1, h2⟩ := immutKids_fixed kids hkids
    refine ⟨by simp only [immut, hq, h1], ?_⟩
    simp only [knownCtype, h2, Bool.and_true]
    cases k <;> first | rfl | exact hk

theorem decode_frag (j : Json) (t : Agg) (h : decode j = some t) :
    ∃ fuel ty d, decodeFrag fuel ty d none = some t := by
  unfold decode at h
  split at h
  · split at h
    · cases h
    · split at h
      · split at h
        · cases h
        · split at h
          · cases h
          · exact ⟨_, _, _, h⟩
      · cases h
  · cases h

end DecodeSound

/-! ### the unconditional fixed-point law fails -/
namespace DecodeSound.Counter
open Json

def doc (ty : String) (d : Json) : Json := .obj [("type", .str ty), ("data", d), ("version", .str "1.1")]
def stable (j : Json) : Bool :=
  match decode j with
  | some t => decide (decode (encode t) = some t)
  | none => false
def accepted (j : Json) (P : Agg → Bool) : Bool :=
  match decode j with
  | some t => P t
  | none => false
def sumJ (nm : Option String) : Json := .obj (maybeAdd [("entries", .num 1), ("sum", .num 1)] "name" nm)

/-- infinite `entries`, finite variance: uniform, not good, not stable -/
def devInf : Json := doc "Deviate" (.obj [("entries", .str "inf"), ("mean", .num 5), ("variance", .num 2)])
#guard accepted devInf (fun t => uniform t && !good t) && !stable devInf
/-- denominator with its own name: good, not uniform, not stable -/
def fracName : Json := doc "Fraction" (.obj [("entries", .num 3), ("sub:type", .str "Sum"),
  ("numerator", sumJ none), ("denominator", sumJ (some "d"))])
#guard accepted fracName (fun t => good t && !uniform t) && !stable fracName
/-- `bins:name` next to `Count` bins: good, not uniform, not stable -/
def sparseName : Json := doc "SparselyBin" (.obj [("binWidth", .num 1), ("entries", .num 3), ("bins:type", .str "Count"),
  ("bins", .obj [("1", .num 2)]), ("nanflow:type", .str "Count"), ("nanflow", .num 0), ("origin", .num 0),
  ("bins:name", .str "x")])
#guard accepted sparseName (fun t => good t && !uniform t) && !stable sparseName
/-- two bins of a Bin with different names: good, not uniform, not stable -/
def binNames : Json := doc "Bin" (.obj [("low", .num 0), ("high", .num 2), ("entries", .num 3),
  ("values:type", .str "Sum"), ("values", .arr [sumJ (some "y"), sumJ (some "z")]),
  ("underflow:type", .str "Count"), ("underflow", .num 0), ("overflow:type", .str "Count"), ("overflow", .num 0),
  ("nanflow:type", .str "Count"), ("nanflow", .num 0)])
#guard accepted binNames (fun t => good t && !uniform t) && !stable binNames
/-- accepted, not good (unsorted centres, non-finite entries), and nevertheless stable: `good` is sufficient, not necessary -/
def centralUnsorted : Json := doc "CentrallyBin" (.obj [("entries", .str "inf"), ("bins:type", .str "Count"),
  ("bins", .arr [.obj [("center", .num 2), ("data", .num 1)], .obj [("center", .num 1), ("data", .num 1)]]),
  ("nanflow:type", .str "Count"), ("nanflow", .num 0)])
#guard accepted centralUnsorted (fun t => uniform t && !good t) && stable centralUnsorted

end DecodeSound.Counter

/-! ### what every accepted document loads as -/

/-- an accepted document loads as an immutable aggregator: dead quantities, no templates, at every level -/
theorem decode_immut_fixed (j : Json) (t : Agg) (h : decode j = some t) : immut t = t := by
  obtain ⟨fuel, ty, d, hd⟩ := DecodeSound.decode_frag j t h
  exact (DecodeSound.decodeFrag_sound fuel ty d none t hd).1

/-- every SparselyBin / Categorize of an accepted document names a registered factory as content type -/
theorem decode_knownCtype (j : Json) (t : Agg) (h : decode j = some t) : knownCtype t = true := by
  obtain ⟨fuel, ty, d, hd⟩ := DecodeSound.decode_frag j t h
  exact (DecodeSound.decodeFrag_sound fuel ty d none t hd).2

/-- the repaired fixed-point law: an accepted document whose result is `good` and `uniform` is a fixed point
of the JSON round trip (`knownCtype` and `immut t = t` follow from acceptance) -/
theorem decode_stable_of_good (j : Json) (t : Agg) (h : decode j = some t)
    (hg : good t = true) (hu : uniform t = true) : decode (encode t) = some t := by
  have := decode_encode t hg hu (decode_knownCtype j t h)
  rwa [decode_immut_fixed j t h] at this

end Hg
