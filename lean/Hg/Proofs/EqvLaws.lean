/-
  Hg.Proofs.EqvLaws — `==` is exactly equality of aggregated content (C09).
  `content` (Hg.Model.Spec) is the normal form of what `==` compares; `liveOk` says that a sparse
  container has a template exactly when its quantity is live (true of every state of the library).
-/
import Hg.Model.Spec
import Hg.Model.Eqv
import Hg.Proofs.TreeLaws1
import Mathlib.Algebra.Order.Field.Rat
import Mathlib.Tactic.Linarith

namespace Hg

theorem numeq_zero_iff (x y : Val) : Val.numeq 0 0 x y = true ↔ x = y := by
  cases x <;> cases y <;> simp [Val.numeq, Val.isNaN, Val.isInf]

/-! ### per-node pieces at zero tolerance -/

theorem Qty.eqv_iff (a b : Qty) : Qty.eqv a b = true ↔ a.content = b.content := by
  simp [Qty.eqv, Qty.content]

theorem Kind.eqv_zero_iff (k1 k2 : Kind) : Kind.eqv 0 0 k1 k2 = true ↔ k1.content = k2.content := by
  cases k1 <;> cases k2 <;>
    simp [Kind.eqv, Kind.content, Kind.mapQty, Qty.eqv_iff, numeq_zero_iff, and_assoc]

theorem vec_eqv_zero_iff : ∀ (a b : List Val),
    (a.length == b.length && (a.zip b).all (fun p => Val.numeq 0 0 p.1 p.2)) = true ↔ a = b
  | [], [] => by simp
  | [], _ :: _ => by simp
  | _ :: _, [] => by simp
  | x :: a, y :: b => by
    have ih := vec_eqv_zero_iff a b
    simp only [Bool.and_eq_true, beq_iff_eq] at ih
    simp only [List.length_cons, List.zip_cons_cons, List.all_cons, Bool.and_eq_true, beq_iff_eq,
      Nat.add_right_cancel_iff, numeq_zero_iff, List.cons.injEq]
    constructor
    · rintro ⟨h1, h2, h3⟩; exact ⟨h2, ih.1 ⟨h1, h3⟩⟩
    · rintro ⟨h1, h2⟩; have := ih.2 h2; exact ⟨this.1, h1, this.2⟩

theorem BKey.eqv_zero_iff (a b : BKey) : BKey.eqv 0 0 a b = true ↔ a = b := by
  cases a <;> cases b <;> simp only [BKey.eqv, numeq_zero_iff, vec_eqv_zero_iff] <;> simp

theorem bag_eqv_zero_iff : ∀ (a b : List (BKey × Val)),
    (a.length == b.length &&
      (a.zip b).all (fun p => BKey.eqv 0 0 p.1.1 p.2.1 && Val.numeq 0 0 p.1.2 p.2.2)) = true ↔ a = b
  | [], [] => by simp
  | [], _ :: _ => by simp
  | _ :: _, [] => by simp
  | (x1, x2) :: a, (y1, y2) :: b => by
    have ih := bag_eqv_zero_iff a b
    simp only [Bool.and_eq_true, beq_iff_eq] at ih
    simp only [List.length_cons, List.zip_cons_cons, List.all_cons, Bool.and_eq_true, beq_iff_eq,
      Nat.add_right_cancel_iff, numeq_zero_iff, BKey.eqv_zero_iff, List.cons.injEq, Prod.mk.injEq]
    constructor
    · rintro ⟨h1, ⟨h2, h2'⟩, h3⟩; exact ⟨⟨h2, h2'⟩, ih.1 ⟨h1, h3⟩⟩
    · rintro ⟨h1, h2⟩; have := ih.2 h2; exact ⟨this.1, h1, this.2⟩

theorem St.eqv_zero_iff (e : Val) (s1 s2 : St) :
    St.eqv 0 0 e s1 e s2 = true ↔ St.content e s1 = St.content e s2 := by
  cases s1 <;> cases s2 <;> simp only [St.eqv, St.content, bag_eqv_zero_iff] <;>
    simp [numeq_zero_iff]

theorem Key.eqv_zero_iff (k1 k2 : Key) : Key.eqv 0 0 k1 k2 = true ↔ k1 = k2 := by
  cases k1 <;> cases k2 <;> simp [Key.eqv, numeq_zero_iff]

/-! ### templates: `liveOk` makes the two sides agree on the presence of a template -/

/-- liveness of the quantity of a node (false for quantity-free kinds) -/
def Kind.qlive (k : Kind) : Bool :=
  match k.qty? with
  | some q => q.live
  | none => false

theorem liveOk_node {k : Kind} {e : Val} {s : St} {t : Option Agg} {kids : List (Key × Agg)}
    (h : liveOk (.node k e s t kids) = true) :
    (k.isSparse = true → t.isSome = k.qlive) ∧ liveOkOpt t = true ∧ liveOkKids kids = true := by
  cases k <;> simp_all [liveOk, Kind.isSparse, Kind.qlive, Kind.qty?]

theorem Kind.content_isSparse {k1 k2 : Kind} (h : k1.content = k2.content) :
    k1.isSparse = k2.isSparse := by
  cases k1 <;> cases k2 <;> simp_all [Kind.content, Kind.mapQty, Kind.isSparse]

theorem Kind.content_qlive {k1 k2 : Kind} (h : k1.content = k2.content) (hs : k1.isSparse = true) :
    k1.qlive = k2.qlive := by
  cases k1 <;> cases k2 <;>
    simp_all [Kind.content, Kind.mapQty, Kind.isSparse, Kind.qlive, Kind.qty?, Qty.content]

/-- the template comparison inside `eqv` -/
def eqvTmpl (rel tol : Rat) (sp : Bool) : Option Agg → Option Agg → Bool
  | some x, some y => if sp then eqv rel tol x y else true
  | _, _ => true

theorem eqv_node (rel tol : Rat) (k1 : Kind) (e1 : Val) (s1 : St) (t1 : Option Agg)
    (kids1 : List (Key × Agg)) (k2 : Kind) (e2 : Val) (s2 : St) (t2 : Option Agg)
    (kids2 : List (Key × Agg)) :
    eqv rel tol (.node k1 e1 s1 t1 kids1) (.node k2 e2 s2 t2 kids2) =
      (Kind.eqv rel tol k1 k2 && Val.numeq rel tol e1 e2 && St.eqv rel tol e1 s1 e2 s2 &&
        eqvTmpl rel tol k1.isSparse t1 t2 && eqvKids rel tol kids1 kids2) := by
  cases t1 <;> cases t2 <;> simp [eqv, eqvTmpl]

mutual
theorem eqv_iff_content_aux : ∀ (a b : Agg), liveOk a = true → liveOk b = true →
    (eqv 0 0 a b = true ↔ content a = content b)
  | .node k1 e1 s1 t1 kids1, .node k2 e2 s2 t2 kids2, ha, hb => by
    obtain ⟨ha1, ha2, ha3⟩ := liveOk_node ha
    obtain ⟨hb1, hb2, hb3⟩ := liveOk_node hb
    have hk := eqvKids_iff_content kids1 kids2 ha3 hb3
    have ht := eqvOpt_iff_content t1 t2 ha2 hb2
    simp only [eqv_node, content, Bool.and_eq_true, Agg.node.injEq, Kind.eqv_zero_iff, numeq_zero_iff, hk]
    constructor
    · rintro ⟨⟨⟨⟨h1, h2⟩, h3⟩, h4⟩, h5⟩
      subst h2
      refine ⟨h1, rfl, (St.eqv_zero_iff e1 s1 s2).1 h3, ?_, h5⟩
      have hsp := Kind.content_isSparse h1
      cases hs : k1.isSparse
      · rw [← hsp, hs]; simp
      · rw [← hsp, hs]
        have hsome : t1.isSome = t2.isSome := by
          rw [ha1 hs, hb1 (hsp ▸ hs), Kind.content_qlive h1 hs]
        simp only [hs, if_true] at h4 ⊢
        exact (ht hsome).1 h4
    · rintro ⟨h1, h2, h3, h4, h5⟩
      subst h2
      refine ⟨⟨⟨⟨h1, rfl⟩, (St.eqv_zero_iff e1 s1 s2).2 h3⟩, ?_⟩, h5⟩
      have hsp := Kind.content_isSparse h1
      cases hs : k1.isSparse
      · cases t1 <;> cases t2 <;> simp [eqvTmpl]
      · rw [← hsp, hs] at h4
        have hsome : t1.isSome = t2.isSome := by
          rw [ha1 hs, hb1 (hsp ▸ hs), Kind.content_qlive h1 hs]
        simp only [if_true] at h4 ⊢
        exact (ht hsome).2 h4
theorem eqvOpt_iff_content : ∀ (t1 t2 : Option Agg), liveOkOpt t1 = true → liveOkOpt t2 = true →
    t1.isSome = t2.isSome →
    (eqvTmpl 0 0 true t1 t2 = true ↔ contentOpt t1 = contentOpt t2)
  | none, none, _, _, _ => by simp [contentOpt, eqvTmpl]
  | some _, none, _, _, h => by simp at h
  | none, some _, _, _, h => by simp at h
  | some x, some y, hx, hy, _ => by
    simp only [liveOkOpt] at hx hy
    simp only [contentOpt, Option.some.injEq, eqvTmpl, if_true]
    exact eqv_iff_content_aux x y hx hy
theorem eqvKids_iff_content : ∀ (l1 l2 : List (Key × Agg)), liveOkKids l1 = true →
    liveOkKids l2 = true → (eqvKids 0 0 l1 l2 = true ↔ contentKids l1 = contentKids l2)
  | [], [], _, _ => by simp [eqvKids, contentKids]
  | [], _ :: _, _, _ => by simp [eqvKids, contentKids]
  | _ :: _, [], _, _ => by simp [eqvKids, contentKids]
  | (k1, a) :: r1, (k2, b) :: r2, h1, h2 => by
    simp only [liveOkKids, Bool.and_eq_true] at h1 h2
    simp only [eqvKids, contentKids, Bool.and_eq_true, Key.eqv_zero_iff,
      eqv_iff_content_aux a b h1.1 h2.1, eqvKids_iff_content r1 r2 h1.2 h2.2, List.cons.injEq,
      Prod.mk.injEq, and_assoc]
end

/-- With zero tolerances `a == b` holds iff `a` and `b` have the same type, the same structural
parameters and the same aggregated content at every node (NaN equal to NaN). -/
theorem eqv_iff_content (a b : Agg) (ha : liveOk a = true) (hb : liveOk b = true) :
    eqv 0 0 a b = true ↔ content a = content b :=
  eqv_iff_content_aux a b ha hb

theorem eqv_refl (a : Agg) (ha : liveOk a = true) : eqv 0 0 a a = true :=
  (eqv_iff_content a a ha ha).2 rfl

theorem eqv_symm (a b : Agg) (ha : liveOk a = true) (hb : liveOk b = true) :
    eqv 0 0 a b = eqv 0 0 b a := by
  rw [Bool.eq_iff_iff, eqv_iff_content a b ha hb, eqv_iff_content b a hb ha]
  exact eq_comm

theorem eqv_trans (a b c : Agg) (ha : liveOk a = true) (hb : liveOk b = true) (hc : liveOk c = true)
    (h1 : eqv 0 0 a b = true) (h2 : eqv 0 0 b c = true) : eqv 0 0 a c = true :=
  (eqv_iff_content a c ha hc).2
    (((eqv_iff_content a b ha hb).1 h1).trans ((eqv_iff_content b c hb hc).1 h2))

theorem numeq_self (rel tol : Rat) (hr : 0 ≤ rel) (ht : 0 ≤ tol) (x : Val) :
    Val.numeq rel tol x x = true := by
  cases x with
  | nan => simp [Val.numeq, Val.isNaN]
  | pinf => simp [Val.numeq, Val.isNaN, Val.isInf]
  | ninf => simp [Val.numeq, Val.isNaN, Val.isInf]
  | fin a =>
    have hm : (0 : Rat) ≤ (if a < 0 then -a else a) := by split_ifs <;> linarith
    simp only [Val.numeq, Val.isNaN, Val.isInf, Bool.and_self, Bool.false_eq_true, if_false,
      sub_self, lt_irrefl]
    split_ifs <;> simp <;> nlinarith

/-- positive tolerances only widen the comparison -/
theorem numeq_mono (rel tol : Rat) (hr : 0 ≤ rel) (ht : 0 ≤ tol) (x y : Val)
    (h : Val.numeq 0 0 x y = true) : Val.numeq rel tol x y = true := by
  rw [(numeq_zero_iff x y).1 h]
  exact numeq_self rel tol hr ht y

/-! ### monotonicity in the tolerances -/

theorem zip_all_mono {α : Type} (f g : α × α → Bool) (hfg : ∀ p, f p = true → g p = true)
    (a b : List α) (h : (a.zip b).all f = true) : (a.zip b).all g = true := by
  rw [List.all_eq_true] at h ⊢
  exact fun p hp => hfg p (h p hp)

theorem BKey.eqv_mono (rel tol : Rat) (hr : 0 ≤ rel) (ht : 0 ≤ tol) (a b : BKey) (h : BKey.eqv 0 0 a b = true) : BKey.eqv rel tol a b = true := by
  cases a <;> cases b <;> simp only [BKey.eqv, Bool.and_eq_true] at h ⊢ <;> try exact h
  · exact numeq_mono rel tol hr ht _ _ h
  · exact ⟨h.1, zip_all_mono _ _ (fun p hp => numeq_mono rel tol hr ht _ _ hp) _ _ h.2⟩

theorem Kind.eqv_mono (rel tol : Rat) (hr : 0 ≤ rel) (ht : 0 ≤ tol) (k1 k2 : Kind) (h : Kind.eqv 0 0 k1 k2 = true) :
    Kind.eqv rel tol k1 k2 = true := by
  cases k1 <;> cases k2 <;> simp only [Kind.eqv, Bool.and_eq_true] at h ⊢ <;> try exact h
  · exact ⟨⟨h.1.1, numeq_mono rel tol hr ht _ _ h.1.2⟩, numeq_mono rel tol hr ht _ _ h.2⟩
  · exact ⟨⟨⟨h.1.1.1, numeq_mono rel tol hr ht _ _ h.1.1.2⟩, numeq_mono rel tol hr ht _ _ h.1.2⟩, h.2⟩

theorem St.eqv_mono (rel tol : Rat) (hr : 0 ≤ rel) (ht : 0 ≤ tol) (e1 e2 : Val) (s1 s2 : St) (h : St.eqv 0 0 e1 s1 e2 s2 = true) :
    St.eqv rel tol e1 s1 e2 s2 = true := by
  cases s1 <;> cases s2 <;> simp only [St.eqv, Bool.and_eq_true] at h ⊢ <;> try exact h
  · exact numeq_mono rel tol hr ht _ _ h
  · exact numeq_mono rel tol hr ht _ _ h
  · exact ⟨numeq_mono rel tol hr ht _ _ h.1, numeq_mono rel tol hr ht _ _ h.2⟩
  · exact numeq_mono rel tol hr ht _ _ h
  · refine ⟨h.1, zip_all_mono _ _ (fun p hp => ?_) _ _ h.2⟩
    simp only [Bool.and_eq_true] at hp ⊢
    exact ⟨BKey.eqv_mono rel tol hr ht _ _ hp.1, numeq_mono rel tol hr ht _ _ hp.2⟩

theorem Key.eqv_mono (rel tol : Rat) (hr : 0 ≤ rel) (ht : 0 ≤ tol) (k1 k2 : Key) (h : Key.eqv 0 0 k1 k2 = true) : Key.eqv rel tol k1 k2 = true := by
  cases k1 <;> cases k2 <;> simp only [Key.eqv] at h ⊢ <;> try exact h
  exact numeq_mono rel tol hr ht _ _ h

mutual
theorem eqv_mono_aux (rel tol : Rat) (hr : 0 ≤ rel) (ht : 0 ≤ tol) : ∀ (a b : Agg), eqv 0 0 a b = true → eqv rel tol a b = true
  | .node k1 e1 s1 t1 kids1, .node k2 e2 s2 t2 kids2, h => by
    simp only [eqv_node, Bool.and_eq_true] at h ⊢
    obtain ⟨⟨⟨⟨h1, h2⟩, h3⟩, h4⟩, h5⟩ := h
    exact ⟨⟨⟨⟨Kind.eqv_mono rel tol hr ht _ _ h1, numeq_mono rel tol hr ht _ _ h2⟩,
      St.eqv_mono rel tol hr ht _ _ _ _ h3⟩, eqvTmpl_mono_aux rel tol hr ht k1.isSparse t1 t2 h4⟩,
      eqvKids_mono_aux rel tol hr ht kids1 kids2 h5⟩
theorem eqvTmpl_mono_aux (rel tol : Rat) (hr : 0 ≤ rel) (ht : 0 ≤ tol) : ∀ (sp : Bool) (t1 t2 : Option Agg), eqvTmpl 0 0 sp t1 t2 = true →
    eqvTmpl rel tol sp t1 t2 = true
  | _, none, none, _ => by simp [eqvTmpl]
  | _, some _, none, _ => by simp [eqvTmpl]
  | _, none, some _, _ => by simp [eqvTmpl]
  | false, some _, some _, _ => by simp [eqvTmpl]
  | true, some x, some y, h => by
    simp only [eqvTmpl, if_true] at h ⊢
    exact eqv_mono_aux rel tol hr ht x y h
theorem eqvKids_mono_aux (rel tol : Rat) (hr : 0 ≤ rel) (ht : 0 ≤ tol) : ∀ (l1 l2 : List (Key × Agg)), eqvKids 0 0 l1 l2 = true →
    eqvKids rel tol l1 l2 = true
  | [], [], _ => by simp [eqvKids]
  | [], _ :: _, h => by simp [eqvKids] at h
  | _ :: _, [], h => by simp [eqvKids] at h
  | (k1, a) :: r1, (k2, b) :: r2, h => by
    simp only [eqvKids, Bool.and_eq_true] at h ⊢
    exact ⟨⟨Key.eqv_mono rel tol hr ht _ _ h.1.1, eqv_mono_aux rel tol hr ht a b h.1.2⟩,
      eqvKids_mono_aux rel tol hr ht r1 r2 h.2⟩
end

theorem eqv_mono_tol (rel tol : Rat) (hr : 0 ≤ rel) (ht : 0 ≤ tol) (a b : Agg)
    (h : eqv 0 0 a b = true) : eqv rel tol a b = true :=
  eqv_mono_aux rel tol hr ht a b h

/-- an aggregator equals its copy -/
theorem eqv_copy (a c : Agg) (ha : good a = true) (hl : liveOk a = true) (hc : copy a = some c) :
    eqv 0 0 a c = true := by
  have h : copy a = some a := add_zero_right a ha
  rw [h, Option.some.injEq] at hc
  subst hc
  exact eqv_refl a hl

theorem content_entries (a : Agg) : (content a).entries = a.entries := by
  cases a; simp [content, Agg.entries]

theorem contentKids_length : ∀ (l : List (Key × Agg)), (contentKids l).length = l.length
  | [] => by simp [contentKids]
  | (_, _) :: r => by simp [contentKids, contentKids_length r]

theorem content_kids_length (a : Agg) : (content a).kids.length = a.kids.length := by
  cases a; simp [content, Agg.kids, contentKids_length]

/-- a difference in any single numeric field, key, number of children or nested child makes the
contents — hence the aggregators — unequal: direct corollaries of `eqv_iff_content` -/
theorem eqv_false_of_entries (a b : Agg) (ha : liveOk a = true) (hb : liveOk b = true)
    (h : a.entries ≠ b.entries) : eqv 0 0 a b = false := by
  rw [Bool.eq_false_iff]
  intro he
  apply h
  rw [← content_entries a, ← content_entries b, (eqv_iff_content a b ha hb).1 he]

theorem eqv_false_of_kids_length (a b : Agg) (ha : liveOk a = true) (hb : liveOk b = true)
    (h : a.kids.length ≠ b.kids.length) : eqv 0 0 a b = false := by
  rw [Bool.eq_false_iff]
  intro he
  apply h
  rw [← content_kids_length a, ← content_kids_length b, (eqv_iff_content a b ha hb).1 he]

theorem eqvKids_getElem? (rel tol : Rat) : ∀ (l1 l2 : List (Key × Agg)) (i : Nat) (x y : Key × Agg),
    eqvKids rel tol l1 l2 = true → l1[i]? = some x → l2[i]? = some y →
    Key.eqv rel tol x.1 y.1 = true ∧ eqv rel tol x.2 y.2 = true
  | [], _, _, _, _, _, hx, _ => by simp at hx
  | _ :: _, [], _, _, _, _, _, hy => by simp at hy
  | (k1, a) :: r1, (k2, b) :: r2, 0, x, y, h, hx, hy => by
    simp only [eqvKids, Bool.and_eq_true] at h
    simp only [List.getElem?_cons_zero, Option.some.injEq] at hx hy
    subst hx; subst hy
    exact h.1
  | (k1, a) :: r1, (k2, b) :: r2, i + 1, x, y, h, hx, hy => by
    simp only [eqvKids, Bool.and_eq_true] at h
    simp only [List.getElem?_cons_succ] at hx hy
    exact eqvKids_getElem? rel tol r1 r2 i x y h.2 hx hy

theorem eqv_child (a b : Agg) (i : Nat) (x y : Key × Agg)
    (h : eqv 0 0 a b = true) (hx : a.kids[i]? = some x) (hy : b.kids[i]? = some y) :
    Key.eqv 0 0 x.1 y.1 = true ∧ eqv 0 0 x.2 y.2 = true := by
  cases a; cases b
  simp only [eqv_node, Bool.and_eq_true] at h
  exact eqvKids_getElem? 0 0 _ _ i x y h.2 hx hy

end Hg
