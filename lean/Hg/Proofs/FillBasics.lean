/-
  Hg.Proofs.FillBasics — node-level unfolding of `fill`, facts about `route`, `fillKids`, `insertK`.
-/
import Hg.Proofs.TreeBasics

namespace Hg

/-! ### unfolding `fill` at a node -/

theorem fill_leaf {k : Kind} {w : Val} (hw : w.pos = true) (hl : k.isLeaf = true) (e : Val) (st : St)
    (tmpl : Option Agg) (kids : List (Key × Agg)) (d : Datum) :
    fill (.node k e st tmpl kids) d w =
      (match leafFill k e st d w with
       | .ok (e', st') => (.node k e' st' tmpl kids, .ok)
       | .error f => (.node k e st tmpl kids, .raised f)) := by
  rw [fill]; simp only [hw, hl, Bool.not_true, Bool.false_eq_true, if_false, if_true]
  cases leafFill k e st d w with
  | error f => rfl
  | ok r => cases r; rfl

theorem fill_route_err {k : Kind} {w : Val} (hw : w.pos = true) (hl : k.isLeaf = false) (e : Val) (st : St)
    (tmpl : Option Agg) (kids : List (Key × Agg)) (d : Datum) (f : Fault)
    (hr : route k (keysOf kids) d w = .error f) :
    fill (.node k e st tmpl kids) d w = (.node k e st tmpl kids, .raised f) := by
  rw [fill]; simp [hw, hl, hr]

theorem fill_fixed {k : Kind} {w : Val} (hw : w.pos = true) (hl : k.isLeaf = false) (hs : k.isSparse = false)
    (e : Val) (st : St) (tmpl : Option Agg) (kids : List (Key × Agg)) (d : Datum) (tg : List (Key × Val))
    (hr : route k (keysOf kids) d w = .ok tg) :
    fill (.node k e st tmpl kids) d w =
      (.node k (if (fillKids kids tg d).2.isOk then e + w else e) st tmpl (fillKids kids tg d).1,
        (fillKids kids tg d).2) := by
  rw [fill]; simp [hw, hl, hr, hs]

theorem fill_sparse_has {k : Kind} {w : Val} (hw : w.pos = true) (hs : k.isSparse = true)
    (e : Val) (st : St) (tmpl : Option Agg) (kids : List (Key × Agg)) (d : Datum) (key : Key) (w' : Val)
    (hr : route k (keysOf kids) d w = .ok [(key, w')]) (hh : hasKey key kids = true) :
    fill (.node k e st tmpl kids) d w =
      (.node k (if (fillKids kids [(key, w')] d).2.isOk then e + w else e) st tmpl (fillKids kids [(key, w')] d).1,
        (fillKids kids [(key, w')] d).2) := by
  rw [fill]; simp [hw, Kind.isSparse_not_leaf hs, hr, hs, hh]

theorem fill_sparse_new {k : Kind} {w : Val} (hw : w.pos = true) (hs : k.isSparse = true)
    (e : Val) (st : St) (tmpl : Option Agg) (kids : List (Key × Agg)) (d : Datum) (key : Key) (w' : Val)
    (hr : route k (keysOf kids) d w = .ok [(key, w')]) (hh : hasKey key kids = false) :
    fill (.node k e st tmpl kids) d w =
      (match fillTmpl tmpl d w' with
       | some (nb, .ok) => (.node k (e + w) st tmpl (insertK key nb kids), .ok)
       | some (_, .raised f) => (.node k e st tmpl kids, .raised f)
       | none => (.node k e st tmpl kids, .raised .typeErr)) := by
  rw [fill]; simp only [hw, Kind.isSparse_not_leaf hs, hr, hs, hh, Bool.not_true, Bool.false_eq_true, if_false]
  cases fillTmpl tmpl d w' with
  | none => rfl
  | some r => obtain ⟨nb, o⟩ := r; cases o <;> rfl

theorem fill_nopos {w : Val} (hw : w.pos = false) (t : Agg) (d : Datum) : fill t d w = (t, .ok) := by
  cases t with
  | node k e st tmpl kids => simp [fill, hw]

theorem Outcome.isOk_iff (o : Outcome) : o.isOk = true ↔ o = .ok := by
  cases o <;> simp [Outcome.isOk]

/-! ### route -/

theorem route_sparse_single {k : Kind} (hs : k.isSparse = true) {keys : List Key} {d : Datum} {w : Val}
    {tg : List (Key × Val)} (h : route k keys d w = .ok tg) : ∃ key, tg = [(key, w)] := by
  rcases Kind.sparse_cases hs with ⟨q, wd, o, c, n, rfl⟩ | ⟨q, c, n, rfl⟩
  · simp only [route, bind, Except.bind, pure, Except.pure] at h
    cases hq : q.evalNum d with
    | error f => rw [hq] at h; cases h
    | ok x => rw [hq] at h; cases h; exact ⟨_, rfl⟩
  · simp only [route, pure, Except.pure] at h
    split at h
    · cases h
    · split at h <;> first | (cases h; exact ⟨_, rfl⟩) | cases h

theorem route_sparse_keys {k : Kind} (hs : k.isSparse = true) (ks1 ks2 : List Key) (d : Datum) (w : Val) :
    route k ks1 d w = route k ks2 d w := by
  rcases Kind.sparse_cases hs with ⟨q, wd, o, c, n, rfl⟩ | ⟨q, c, n, rfl⟩ <;> rfl

/-! ### insertK, lookupK -/

theorem mem_insertK {key : Key} {a : Agg} {l : List (Key × Agg)} {p : Key × Agg} :
    p ∈ insertK key a l ↔ p = (key, a) ∨ p ∈ l := by
  induction l with
  | nil => simp [insertK]
  | cons x r ih =>
    obtain ⟨k, b⟩ := x
    cases h : Key.lt key k with
    | true => simp [insertK, h]
    | false =>
      simp only [insertK, h, Bool.false_eq_true, if_false, List.mem_cons, ih]
      exact or_left_comm

theorem lookupK_insertK_ne {key key' : Key} (hne : key ≠ key') (a : Agg) (l : List (Key × Agg)) :
    lookupK key' (insertK key a l) = lookupK key' l := by
  induction l with
  | nil => simp [insertK, lookupK, hne]
  | cons x r ih =>
    obtain ⟨k, b⟩ := x
    cases h : Key.lt key k with
    | true => simp [insertK, h, lookupK, hne]
    | false => simp only [insertK, h, Bool.false_eq_true, if_false, lookupK, ih]

theorem hasKey_of_mem {key : Key} {l : List (Key × Agg)} {p : Key × Agg} (hp : p ∈ l) (hk : p.1 = key) :
    hasKey key l = true := by
  induction l with
  | nil => cases hp
  | cons x r ih =>
    obtain ⟨k, b⟩ := x
    simp only [hasKey, lookupK]
    by_cases h : k = key
    · simp [h]
    · simp only [h, if_false]
      rcases List.mem_cons.1 hp with rfl | hp
      · exact absurd hk h
      · exact ih hp

theorem hasKey_iff {key : Key} {l : List (Key × Agg)} : hasKey key l = true ↔ ∃ a, lookupK key l = some a := by
  simp only [hasKey, Option.isSome_iff_exists]

/-! ### consequences of sameBaseZip -/

theorem keysOf_eq_of_sameBaseZip {l l' : List (Key × Agg)} (h : sameBaseZip l l' = true) :
    keysOf l = keysOf l' := by
  induction l generalizing l' with
  | nil => cases l' <;> simp_all [sameBaseZip]
  | cons p r ih =>
    obtain ⟨k, a⟩ := p
    cases l' with
    | nil => simp [sameBaseZip] at h
    | cons p' r' =>
      obtain ⟨k', a'⟩ := p'
      simp only [sameBaseZip, Bool.and_eq_true, decide_eq_true_eq] at h
      simp only [keysOf_cons, h.1.1, ih h.2]

theorem lookupK_of_sameBaseZip {l l' : List (Key × Agg)} (h : sameBaseZip l l' = true) {key : Key} {a : Agg}
    (ha : lookupK key l = some a) : ∃ a', lookupK key l' = some a' ∧ sameBase a a' = true := by
  induction l generalizing l' with
  | nil => simp [lookupK] at ha
  | cons p r ih =>
    obtain ⟨k, b⟩ := p
    cases l' with
    | nil => simp [sameBaseZip] at h
    | cons p' r' =>
      obtain ⟨k', b'⟩ := p'
      simp only [sameBaseZip, Bool.and_eq_true, decide_eq_true_eq] at h
      obtain ⟨⟨rfl, hb⟩, hr⟩ := h
      simp only [lookupK] at ha ⊢
      by_cases hk : k = key
      · simp only [hk, if_true, Option.some.injEq] at ha ⊢
        subst ha; exact ⟨b', rfl, hb⟩
      · simp only [hk, if_false] at ha ⊢
        exact ih hr ha

theorem mem_right_of_sameBaseZip {l l' : List (Key × Agg)} (h : sameBaseZip l l' = true) {p' : Key × Agg}
    (hp : p' ∈ l') : ∃ p ∈ l, p.1 = p'.1 ∧ sameBase p.2 p'.2 = true := by
  induction l generalizing l' with
  | nil => cases l' <;> simp_all [sameBaseZip]
  | cons p r ih =>
    obtain ⟨k, b⟩ := p
    cases l' with
    | nil => cases hp
    | cons q r' =>
      obtain ⟨k', b'⟩ := q
      simp only [sameBaseZip, Bool.and_eq_true, decide_eq_true_eq] at h
      obtain ⟨⟨rfl, hb⟩, hr⟩ := h
      rcases List.mem_cons.1 hp with rfl | hp
      · exact ⟨(k, b), by simp, rfl, hb⟩
      · obtain ⟨p, hp1, hp2⟩ := ih hr hp
        exact ⟨p, by simp [hp1], hp2⟩

/-! ### fillKids -/

theorem fillKids_cons_none {key : Key} {a : Agg} {rest : List (Key × Agg)} {tg : List (Key × Val)} {d : Datum}
    (h : lookupK key tg = none) :
    fillKids ((key, a) :: rest) tg d = ((key, a) :: (fillKids rest tg d).1, (fillKids rest tg d).2) := by
  simp [fillKids, h]

theorem fillKids_cons_ok {key : Key} {a : Agg} {rest : List (Key × Agg)} {tg : List (Key × Val)} {d : Datum}
    {w' : Val} (h : lookupK key tg = some w') (hok : (fill a d w').2 = .ok) :
    fillKids ((key, a) :: rest) tg d
      = ((key, (fill a d w').1) :: (fillKids rest tg d).1, (fillKids rest tg d).2) := by
  simp [fillKids, h, hok, Outcome.isOk]

theorem fillKids_cons_raised {key : Key} {a : Agg} {rest : List (Key × Agg)} {tg : List (Key × Val)} {d : Datum}
    {w' : Val} (h : lookupK key tg = some w') (hok : (fill a d w').2 ≠ .ok) :
    fillKids ((key, a) :: rest) tg d = ((key, (fill a d w').1) :: rest, (fill a d w').2) := by
  have : (fill a d w').2.isOk = false := by
    cases h2 : (fill a d w').2 <;> simp_all [Outcome.isOk]
  simp [fillKids, h, this]

theorem fillKids_zip (l : List (Key × Agg)) (tg : List (Key × Val)) (d : Datum)
    (ih : ∀ p ∈ l, ∀ w, (fill p.2 d w).2 = .ok → sameBase p.2 (fill p.2 d w).1 = true)
    (hrefl : ∀ p ∈ l, sameBase p.2 p.2 = true)
    (hok : (fillKids l tg d).2 = .ok) : sameBaseZip l (fillKids l tg d).1 = true := by
  induction l with
  | nil => simp [fillKids, sameBaseZip]
  | cons p r ihr =>
    obtain ⟨k, a⟩ := p
    have ihr' := ihr (fun p hp => ih p (by simp [hp])) (fun p hp => hrefl p (by simp [hp]))
    cases hl : lookupK k tg with
    | none =>
      rw [fillKids_cons_none hl] at hok ⊢
      simp only [sameBaseZip, Bool.and_eq_true, decide_eq_true_eq, true_and]
      exact ⟨hrefl (k, a) (by simp), ihr' hok⟩
    | some w' =>
      by_cases ho : (fill a d w').2 = .ok
      · rw [fillKids_cons_ok hl ho] at hok ⊢
        simp only [sameBaseZip, Bool.and_eq_true, decide_eq_true_eq, true_and]
        exact ⟨ih (k, a) (by simp) w' ho, ihr' hok⟩
      · rw [fillKids_cons_raised hl ho] at hok
        exact absurd hok ho

theorem mem_fillKids {l : List (Key × Agg)} {tg : List (Key × Val)} {d : Datum} {p' : Key × Agg}
    (h : p' ∈ (fillKids l tg d).1) :
    ∃ p ∈ l, p'.1 = p.1 ∧ (p'.2 = p.2 ∨ ∃ w, p'.2 = (fill p.2 d w).1) := by
  induction l with
  | nil => simp [fillKids] at h
  | cons p r ihr =>
    obtain ⟨k, a⟩ := p
    have lift : (∃ p ∈ r, p'.1 = p.1 ∧ (p'.2 = p.2 ∨ ∃ w, p'.2 = (fill p.2 d w).1)) →
        ∃ p ∈ (k, a) :: r, p'.1 = p.1 ∧ (p'.2 = p.2 ∨ ∃ w, p'.2 = (fill p.2 d w).1) := by
      rintro ⟨p, hp, h1⟩; exact ⟨p, by simp [hp], h1⟩
    cases hl : lookupK k tg with
    | none =>
      rw [fillKids_cons_none hl] at h
      rcases List.mem_cons.1 h with rfl | h
      · exact ⟨(k, a), by simp, rfl, Or.inl rfl⟩
      · exact lift (ihr h)
    | some w' =>
      by_cases ho : (fill a d w').2 = .ok
      · rw [fillKids_cons_ok hl ho] at h
        rcases List.mem_cons.1 h with rfl | h
        · exact ⟨(k, a), by simp, rfl, Or.inr ⟨w', rfl⟩⟩
        · exact lift (ihr h)
      · rw [fillKids_cons_raised hl ho] at h
        rcases List.mem_cons.1 h with rfl | h
        · exact ⟨(k, a), by simp, rfl, Or.inr ⟨w', rfl⟩⟩
        · exact ⟨p', by simp [h], rfl, Or.inl rfl⟩

theorem fillKids_ok_indep (l1 l2 : List (Key × Agg)) (tg : List (Key × Val)) (d : Datum)
    (ih : ∀ p ∈ l1, ∀ b w, good b = true → sameBase p.2 b = true → (fill p.2 d w).2 = (fill b d w).2)
    (h2 : ∀ q ∈ l2, good q.2 = true)
    (hz : sameBaseZip l1 l2 = true) : (fillKids l1 tg d).2 = (fillKids l2 tg d).2 := by
  induction l1 generalizing l2 with
  | nil => cases l2 <;> simp_all [sameBaseZip, fillKids]
  | cons p r ihr =>
    obtain ⟨k, a⟩ := p
    cases l2 with
    | nil => simp [sameBaseZip] at hz
    | cons p2 r2 =>
      obtain ⟨k2, b⟩ := p2
      simp only [sameBaseZip, Bool.and_eq_true, decide_eq_true_eq] at hz
      obtain ⟨⟨rfl, hab⟩, hr⟩ := hz
      have ihr' := ihr r2 (fun p hp => ih p (by simp [hp])) (fun q hq => h2 q (by simp [hq])) hr
      cases hl : lookupK k tg with
      | none => rw [fillKids_cons_none hl, fillKids_cons_none hl]; exact ihr'
      | some w' =>
        have hab' := ih (k, a) (by simp) b w' (h2 (k, b) (by simp)) hab
        by_cases ho : (fill a d w').2 = .ok
        · have ho2 : (fill b d w').2 = .ok := by rw [← hab']; exact ho
          rw [fillKids_cons_ok hl ho, fillKids_cons_ok hl ho2]; exact ihr'
        · have ho2 : (fill b d w').2 ≠ .ok := by rw [← hab']; exact ho
          rw [fillKids_cons_raised hl ho, fillKids_cons_raised hl ho2]; exact hab'

theorem fillKids_nokey (l : List (Key × Agg)) (tg : List (Key × Val)) (d : Datum)
    (h : ∀ p ∈ l, lookupK p.1 tg = none) : (fillKids l tg d).2 = .ok := by
  induction l with
  | nil => simp [fillKids]
  | cons p r ihr =>
    obtain ⟨k, a⟩ := p
    rw [fillKids_cons_none (h (k, a) (by simp))]
    exact ihr (fun p hp => h p (by simp [hp]))

theorem lookupK_single {key k : Key} {w : Val} : lookupK k [(key, w)] = if key = k then some w else none := by
  simp [lookupK]

/-- outcome of filling the children with a single target all of whose holders behave alike -/
theorem fillKids_single (l : List (Key × Agg)) (key : Key) (w : Val) (d : Datum) (o : Outcome)
    (hh : hasKey key l = true) (hall : ∀ p ∈ l, p.1 = key → (fill p.2 d w).2 = o) :
    (fillKids l [(key, w)] d).2 = o := by
  induction l with
  | nil => simp [hasKey, lookupK] at hh
  | cons p r ihr =>
    obtain ⟨k, a⟩ := p
    by_cases hk : k = key
    · subst hk
      have hl : lookupK k [(k, w)] = some w := by simp [lookupK]
      have ho := hall (k, a) (by simp) rfl
      by_cases hok : (fill a d w).2 = .ok
      · rw [fillKids_cons_ok hl hok]
        by_cases hh' : hasKey k r = true
        · exact ihr hh' (fun p hp => hall p (by simp [hp]))
        · have : (fillKids r [(k, w)] d).2 = .ok := by
            apply fillKids_nokey
            intro p hp
            rw [lookupK_single]
            have : k ≠ p.1 := fun e => hh' (hasKey_of_mem hp e.symm)
            simp [this]
          show (fillKids r [(k, w)] d).2 = o
          rw [this, ← ho, hok]
      · rw [fillKids_cons_raised hl hok]; exact ho
    · have hne : ¬ key = k := fun e => hk e.symm
      have hl : lookupK k [(key, w)] = none := by
        rw [lookupK_single]; simp [hne]
      rw [fillKids_cons_none hl]
      have hh' : hasKey key r = true := by
        simp only [hasKey, lookupK, hk, if_false] at hh; exact hh
      exact ihr hh' (fun p hp => hall p (by simp [hp]))

/-! ### leaves -/

/-- whether, and with which fault, a leaf fill raises depends on the kind and the datum only -/
theorem leafFill_fault_indep (k : Kind) (e1 : Val) (s1 : St) (e2 : Val) (s2 : St) (d : Datum) (w : Val)
    (hk : k.isLeaf = true) (h1 : leafGood k e1 s1 = true) (h2 : leafGood k e2 s2 = true) :
    (∃ r1 r2, leafFill k e1 s1 d w = .ok r1 ∧ leafFill k e2 s2 d w = .ok r2) ∨
    (∃ f, leafFill k e1 s1 d w = .error f ∧ leafFill k e2 s2 d w = .error f) := by
  simp only [leafGood, leafGoodCore, Bool.and_eq_true] at h1 h2
  have f1 := h1.1.1
  have f2 := h2.1.1
  cases k <;> simp [Kind.isLeaf] at hk <;> cases s1 <;> simp [St.fits, Kind.isLeaf] at f1 <;>
    cases s2 <;> simp [St.fits, Kind.isLeaf] at f2 <;>
    simp only [leafFill, bind, Except.bind, pure, Except.pure]
  all_goals first
    | exact Or.inl ⟨_, _, rfl, rfl⟩
    | (cases Qty.evalNum ‹Qty› d with
       | error f => exact Or.inr ⟨f, rfl, rfl⟩
       | ok x => exact Or.inl ⟨_, _, rfl, rfl⟩)
    | (cases Qty.evalBag ‹Qty› ‹BagRange› d with
       | error f => exact Or.inr ⟨f, rfl, rfl⟩
       | ok x => exact Or.inl ⟨_, _, rfl, rfl⟩)

end Hg
