/-
  Hg.Proofs.DecodeLaws — `Factory.fromJson` rejects malformed documents (C15): every record the
  decoder accepts passes the key-set gate of its row in the schema table, carries a non-negative
  `entries`, a known type and a compatible version.
-/
import Hg.Model.Schema

namespace Hg

/-! ### helpers -/

/-- every result of the option computation `o` carries the `entries` of `m` and has type `ty` -/
def DGood (m : List (String × Json)) (ty : String) (o : Option Agg) : Prop :=
  ∀ t, o = some t → entriesOf? m = some t.entries ∧ t.typeName = ty

theorem DGood.none {m ty} : DGood m ty none := by intro t h; cases h
theorem DGood.bind {α m ty} {o : Option α} {f : α → Option Agg}
    (hf : ∀ a, o = some a → DGood m ty (f a)) : DGood m ty (o.bind f) := by
  intro t h
  cases o with
  | none => cases h
  | some a => exact hf a rfl t h
theorem DGood.ite {m ty} {c : Prop} [Decidable c] {a b : Option Agg}
    (ha : DGood m ty a) (hb : DGood m ty b) : DGood m ty (if c then a else b) := by
  split <;> assumption
theorem DGood.some {m ty k e st tmpl kids} (he : entriesOf? m = some e) (hk : Kind.typeName k = ty) :
    DGood m ty (some (.node k e st tmpl kids)) := by
  intro t h; cases h; exact ⟨he, hk⟩

/-- all facts about an accepted non-`Count` record at once: it is an object, passes the key gate of its
schema row, carries the document's `entries`, and has the named type -/
theorem decodeFrag_master (fuel : Nat) (ty : String) (j : Json) (pn : Option String) (t : Agg)
    (h : decodeFrag (fuel + 1) ty j pn = some t) (hty : ty ≠ "Count") :
    ∃ m, j = .obj m ∧ (∃ req opt, schemaOf ty = some (req, opt) ∧ Json.hasKeys m req opt = true) ∧
      entriesOf? m = some t.entries ∧ t.typeName = ty := by
  unfold decodeFrag at h
  simp only at h
  split at h
  · exact absurd rfl hty
  all_goals first
    | (cases h; done)
    | (refine ⟨_, rfl, ?_⟩
       split at h
       · cases h
       · rename_i hk
         refine ⟨⟨_, _, ?_, (by simpa using hk : Json.hasKeys _ _ _ = true)⟩, ?_⟩
         · decide
         · revert t
           show DGood _ _ _
           simp only [Option.bind_eq_bind, Option.pure_def]
           repeat' first
             | exact DGood.none
             | (apply DGood.some; assumption; simp [Kind.typeName])
             | apply DGood.ite
             | (apply DGood.bind; intro _ _)
             | split)

/-! ### the package -/

/-- `hasKeys(test, required, optional)`: every required key is present and every present key is
required or optional — a missing or an extra key fails it -/
theorem hasKeys_spec (m : List (String × Json)) (req opt : List String) :
    Json.hasKeys m req opt = true ↔
      (∀ k ∈ req, k ∈ Json.keys m) ∧ (∀ k ∈ Json.keys m, k ∈ req ∨ k ∈ opt) := by
  simp only [Json.hasKeys, Bool.and_eq_true, List.all_eq_true, Bool.or_eq_true, List.contains_iff_mem]

/-- every record `decodeFrag` accepts (all 18 object-shaped primitives; `Count` is a bare number)
satisfies the key-set gate of its row of the schema table: no missing key, no extra key -/
theorem decode_keys_gate (fuel : Nat) (ty : String) (m : List (String × Json)) (pn : Option String) (t : Agg)
    (h : decodeFrag (fuel + 1) ty (.obj m) pn = some t) (hty : ty ≠ "Count") :
    ∃ req opt, schemaOf ty = some (req, opt) ∧ Json.hasKeys m req opt = true := by
  obtain ⟨m', hm, hg, -, -⟩ := decodeFrag_master fuel ty _ pn t h hty
  cases hm
  exact hg

/-- an accepted record never has negative `entries`, and the container carries exactly the document's
`entries` (nothing defaulted) -/
theorem decode_entries (fuel : Nat) (ty : String) (m : List (String × Json)) (pn : Option String) (t : Agg)
    (h : decodeFrag (fuel + 1) ty (.obj m) pn = some t) (hty : ty ≠ "Count") :
    ∃ e, (Json.get? "entries" m).bind Json.toVal? = some e ∧ Val.lt e 0 = false ∧ t.entries = e := by
  obtain ⟨m', hm, -, he, -⟩ := decodeFrag_master fuel ty _ pn t h hty
  cases hm
  unfold entriesOf? at he
  split at he
  · rename_i e hb
    split at he
    · cases he
    · rename_i hlt
      cases he
      exact ⟨_, hb, by simpa using hlt, rfl⟩
  · cases he

theorem decode_count (fuel : Nat) (x : Json) (pn : Option String) (t : Agg)
    (h : decodeFrag (fuel + 1) "Count" x pn = some t) :
    ∃ e, Json.toVal? x = some e ∧ Val.lt e 0 = false ∧ t = .node .count e .unit none [] := by
  simp only [decodeFrag] at h
  split at h
  · rename_i e he
    split at h
    · cases h
    · rename_i hlt
      cases h
      exact ⟨e, he, by simpa using hlt, rfl⟩
  · cases h

/-- every result of the option computation `o` is a Bag leaf whose values are pairwise distinct -/
def BagGood (o : Option Agg) : Prop :=
  ∀ t, o = some t → ∃ q r vals, t.kind = .bag q r ∧ t.st = .bag vals ∧ (vals.map (·.1)).Nodup

theorem BagGood.none : BagGood none := by intro t h; cases h
theorem BagGood.bind {α} {o : Option α} {f : α → Option Agg}
    (hf : ∀ a, o = some a → BagGood (f a)) : BagGood (o.bind f) := by
  intro t h
  cases o with
  | none => cases h
  | some a => exact hf a rfl t h

theorem BagGood.guard {q r e} {vals : List (BKey × Val)} :
    BagGood (if (!decide (vals.map (·.1)).Nodup) = true then Option.none
             else Option.some (.node (.bag q r) e (.bag vals) Option.none [])) := by
  intro t h
  split at h
  · cases h
  · rename_i hnd
    cases h
    exact ⟨_, _, _, rfl, rfl, by simpa using hnd⟩

/-- a Bag document that lists the same value twice is rejected -/
theorem decode_bag_nodup (fuel : Nat) (m : List (String × Json)) (pn : Option String) (t : Agg)
    (h : decodeFrag (fuel + 1) "Bag" (.obj m) pn = some t) :
    ∃ q r vals, t.kind = .bag q r ∧ t.st = .bag vals ∧ (vals.map (·.1)).Nodup := by
  unfold decodeFrag at h
  simp only at h
  split at h
  · cases h
  · revert t
    show BagGood _
    simp only [Option.bind_eq_bind, Option.pure_def]
    repeat' first
      | exact BagGood.none
      | (apply BagGood.bind; intro _ _)
      | (apply BagGood.guard)
      | split

/-! ### SparselyBin: two keys for one bin index -/

theorem insertK_perm (key : Key) (a : Agg) : ∀ l : List (Key × Agg), (insertK key a l).Perm ((key, a) :: l)
  | [] => List.Perm.refl _
  | (k, b) :: rest => by
    unfold insertK
    split
    · exact List.Perm.refl _
    · exact ((insertK_perm key a rest).cons (k, b)).trans (List.Perm.swap _ _ _)

theorem foldl_insertK_perm : ∀ (l acc : List (Key × Agg)),
    (l.foldl (fun acc p => insertK p.1 p.2 acc) acc).Perm (l.reverse ++ acc)
  | [], acc => by simp
  | p :: rest, acc => by
    rw [List.foldl_cons]
    refine (foldl_insertK_perm rest (insertK p.1 p.2 acc)).trans ?_
    rw [List.reverse_cons, List.append_assoc]
    exact (insertK_perm p.1 p.2 acc).append_left _

/-- `insertK` keeps every pair it is given: the keys of the sorted bins are the parsed keys, up to order -/
theorem keysOf_foldl_insertK_perm (l : List (Key × Agg)) :
    (keysOf (l.foldl (fun acc p => insertK p.1 p.2 acc) [])).Perm (l.map (·.1)) := by
  have h := (foldl_insertK_perm l []).map (·.1)
  rw [List.append_nil] at h
  exact h.trans ((List.reverse_perm l).map _)

/-- every result of the option computation `o` has pairwise distinct non-flow keys -/
def SparseGood (o : Option Agg) : Prop :=
  ∀ t, o = some t → ((keysOf t.kids).filter (fun k => k != .nanflow)).Nodup

theorem SparseGood.none : SparseGood none := by intro t h; cases h
theorem SparseGood.bind {α} {o : Option α} {f : α → Option Agg}
    (hf : ∀ a, o = some a → SparseGood (f a)) : SparseGood (o.bind f) := by
  intro t h
  cases o with
  | none => cases h
  | some a => exact hf a rfl t h

theorem SparseGood.guard {k e st tmpl n} {bins : List (Key × Agg)} :
    SparseGood (if (!decide (bins.map (·.1)).Nodup) = true then Option.none
             else Option.some (.node k e st tmpl
                    ((.nanflow, n) :: bins.foldl (fun acc p => insertK p.1 p.2 acc) []))) := by
  intro t h
  split at h
  · cases h
  · rename_i hnd
    cases h
    have hnd' : (bins.map (·.1)).Nodup := by simpa using hnd
    have h2 : (keysOf (bins.foldl (fun acc p => insertK p.1 p.2 acc) [])).Nodup :=
      (keysOf_foldl_insertK_perm bins).nodup_iff.2 hnd'
    have h3 : (keysOf ((Key.nanflow, n) :: bins.foldl (fun acc p => insertK p.1 p.2 acc) [])).filter
        (fun k => k != Key.nanflow) =
        (keysOf (bins.foldl (fun acc p => insertK p.1 p.2 acc) [])).filter (fun k => k != Key.nanflow) := by
      simp [keysOf]
    show ((keysOf ((Key.nanflow, n) :: bins.foldl (fun acc p => insertK p.1 p.2 acc) [])).filter
        (fun k => k != Key.nanflow)).Nodup
    rw [h3]
    exact List.Pairwise.sublist List.filter_sublist h2

/-- a SparselyBin document in which two keys denote the same bin index is rejected: the bins of a loaded
SparselyBin have pairwise distinct indices -/
theorem decode_sparse_nodup (fuel : Nat) (m : List (String × Json)) (pn : Option String) (t : Agg)
    (h : decodeFrag (fuel + 1) "SparselyBin" (.obj m) pn = some t) :
    ((keysOf t.kids).filter (fun k => k != .nanflow)).Nodup := by
  unfold decodeFrag at h
  simp only at h
  split at h
  · cases h
  · revert t
    show SparseGood _
    simp only [Option.bind_eq_bind, Option.pure_def]
    repeat' first
      | exact SparseGood.none
      | (apply SparseGood.bind; intro _ _)
      | (apply SparseGood.guard)
      | split

/-- the decoded container has the primitive type the document names -/
theorem decode_typeName (fuel : Nat) (ty : String) (j : Json) (pn : Option String) (t : Agg)
    (h : decodeFrag fuel ty j pn = some t) : t.typeName = ty := by
  cases fuel with
  | zero => simp [decodeFrag] at h
  | succ fuel =>
    by_cases hty : ty = "Count"
    · subst hty
      obtain ⟨e, -, -, rfl⟩ := decode_count fuel j pn t h
      rfl
    · obtain ⟨_, -, -, -, ht⟩ := decodeFrag_master fuel ty j pn t h hty
      exact ht

/-- an unknown primitive name is rejected at every level -/
theorem decode_unknown_type (fuel : Nat) (ty : String) (j : Json) (pn : Option String)
    (h : isKnownType ty = false) : decodeFrag fuel ty j pn = none := by
  cases hd : decodeFrag fuel ty j pn with
  | none => rfl
  | some t =>
    have ht := decode_typeName fuel ty j pn t hd
    have hk : isKnownType t.typeName = true := by
      cases t with
      | node k e st tmpl kids => cases k <;> (simp only [Agg.typeName, Agg.kind, Kind.typeName]; decide)
    rw [ht, h] at hk
    cases hk

/-- the header gate of `Factory.fromJson`: an object with exactly the keys type / data / version, a
string version that `version.compatible` accepts, and a registered type name -/
theorem decode_header_gate (j : Json) (t : Agg) (h : decode j = some t) :
    ∃ m, j = .obj m ∧ Json.hasKeys m ["type", "data", "version"] [] = true ∧
      (∃ v, Json.get? "version" m = some (.str v) ∧ versionOk v = true) ∧
      (∃ ty, Json.get? "type" m = some (.str ty) ∧ isKnownType ty = true ∧ t.typeName = ty) := by
  unfold decode at h
  split at h
  · rename_i m
    refine ⟨m, rfl, ?_⟩
    split at h
    · cases h
    · rename_i hk
      split at h
      · rename_i v ty d hv hty hd
        split at h
        · cases h
        · rename_i hver
          split at h
          · cases h
          · rename_i hkn
            exact ⟨by simpa using hk, ⟨v, hv, by simpa using hver⟩,
              ⟨ty, hty, by simpa using hkn, decode_typeName _ _ _ _ _ h⟩⟩
      · cases h
  · cases h

/-! non-vacuity (`decode` goes through `String.split`, which the kernel does not unfold, hence `#guard`):
the keys "1" and "01" denote the same bin index, the document is rejected; with distinct indices it loads -/
#guard (decode (.obj [("type", .str "SparselyBin"), ("data", .obj [("binWidth", .num 1), ("entries", .num 2),
    ("bins:type", .str "Count"), ("bins", .obj [("1", .num 1), ("01", .num 1)]),
    ("nanflow:type", .str "Count"), ("nanflow", .num 0), ("origin", .num 0)]), ("version", .str "1.1")])).isNone
#guard (decode (.obj [("type", .str "SparselyBin"), ("data", .obj [("binWidth", .num 1), ("entries", .num 2),
    ("bins:type", .str "Count"), ("bins", .obj [("1", .num 1), ("02", .num 1)]),
    ("nanflow:type", .str "Count"), ("nanflow", .num 0), ("origin", .num 0)]), ("version", .str "1.1")])).isSome

end Hg
