/-
  Hg.Proofs.ValLemmas — algebra of the number domain `Val` (extended rationals with IEEE-style
  special values) needed by the leaf laws.
-/
import Mathlib.Tactic.Ring
import Mathlib.Tactic.FieldSimp
import Mathlib.Tactic.Linarith
import Mathlib.Algebra.Order.Field.Rat
import Hg.Model.Leaf

namespace Hg
namespace Val

/-! ### unfolding the notation -/

theorem zero_eq : (0 : Val) = fin 0 := rfl
theorem one_eq : (1 : Val) = fin 1 := rfl
theorem two_eq : (2 : Val) = fin 2 := rfl
theorem add_eq (a b : Val) : a + b = Val.add a b := rfl
theorem mul_eq (a b : Val) : a * b = Val.mul a b := rfl
theorem sub_eq (a b : Val) : a - b = Val.add a (Val.neg b) := rfl
theorem div_eq (a b : Val) : a / b = Val.div a b := rfl

@[simp] theorem fin_add_fin (a b : Rat) : fin a + fin b = fin (a + b) := rfl
@[simp] theorem fin_mul_fin (a b : Rat) : fin a * fin b = fin (a * b) := rfl
@[simp] theorem fin_sub_fin (a b : Rat) : fin a - fin b = fin (a - b) := by
  simp [sub_eq, Val.add, Val.neg, sub_eq_add_neg]
@[simp] theorem nan_add (a : Val) : nan + a = nan := by cases a <;> rfl
@[simp] theorem add_nan (a : Val) : a + nan = nan := by cases a <;> rfl
@[simp] theorem nan_sub (a : Val) : nan - a = nan := by cases a <;> rfl
@[simp] theorem sub_nan (a : Val) : a - nan = nan := by cases a <;> rfl
@[simp] theorem nan_mul (a : Val) : nan * a = nan := by cases a <;> rfl
@[simp] theorem mul_nan (a : Val) : a * nan = nan := by cases a <;> rfl
@[simp] theorem nan_div (a : Val) : nan / a = nan := by cases a <;> rfl
@[simp] theorem div_nan (a : Val) : a / nan = nan := by cases a <;> rfl

theorem fin_div_fin (a b : Rat) (hb : b ≠ 0) : fin a / fin b = fin (a / b) := by
  simp [div_eq, Val.div, hb]

@[simp] theorem isZero_fin (q : Rat) : (fin q).isZero = decide (q = 0) := rfl
@[simp] theorem isFin_fin (q : Rat) : (fin q).isFin = true := rfl
@[simp] theorem isNaN_fin (q : Rat) : (fin q).isNaN = false := rfl
@[simp] theorem isInf_fin (q : Rat) : (fin q).isInf = false := rfl

theorem isFin_iff (v : Val) : v.isFin = true ↔ ∃ q, v = fin q := by
  cases v <;> simp [isFin]

/-! ### addition -/

protected theorem add_comm (a b : Val) : a + b = b + a := by
  cases a <;> cases b <;> simp [add_eq, Val.add, Rat.add_comm]

protected theorem add_assoc (a b c : Val) : a + b + c = a + (b + c) := by
  cases a <;> cases b <;> cases c <;> simp [add_eq, Val.add, Rat.add_assoc]

theorem add_left_comm (a b c : Val) : a + (b + c) = b + (a + c) := by
  rw [← Val.add_assoc, ← Val.add_assoc, Val.add_comm a b]

theorem add_right_comm (a b c : Val) : a + b + c = a + c + b := by
  rw [Val.add_assoc, Val.add_assoc, Val.add_comm b c]

@[simp] theorem fin_zero_add (a : Val) : fin 0 + a = a := by
  cases a <;> simp [add_eq, Val.add]

@[simp] theorem add_fin_zero (a : Val) : a + fin 0 = a := by
  cases a <;> simp [add_eq, Val.add]

@[simp] theorem zero_add (a : Val) : (0 : Val) + a = a := fin_zero_add a
@[simp] theorem add_zero (a : Val) : a + (0 : Val) = a := add_fin_zero a

theorem isFin_add (a b : Val) : (a + b).isFin = (a.isFin && b.isFin) := by
  cases a <;> cases b <;> simp [add_eq, Val.add, isFin]

/-! ### multiplication by a positive finite factor -/

protected theorem mul_comm (a b : Val) : a * b = b * a := by
  cases a <;> cases b <;> simp [mul_eq, Val.mul, Rat.mul_comm]

theorem fin_mul_add {f : Rat} (hf : 0 < f) (a b : Val) :
    fin f * (a + b) = fin f * a + fin f * b := by
  cases a <;> cases b <;> simp [add_eq, Val.add, mul_eq, Val.mul, infTimes, hf, hf.ne', mul_add]

theorem fin_mul_sub {f : Rat} (hf : 0 < f) (a b : Val) :
    fin f * (a - b) = fin f * a - fin f * b := by
  cases a <;> cases b <;>
    simp [sub_eq, Val.add, Val.neg, mul_eq, Val.mul, infTimes, hf, hf.ne', mul_add]

theorem fin_mul_fin_mul {f g : Rat} (hf : 0 < f) (hg : 0 < g) (v : Val) :
    fin g * (fin f * v) = fin (f * g) * v := by
  have hfg : 0 < f * g := mul_pos hf hg
  cases v <;> simp [mul_eq, Val.mul, infTimes, hf, hf.ne', hg, hg.ne', hfg, hfg.ne']
  ring

@[simp] theorem fin_one_mul (v : Val) : fin 1 * v = v := by
  cases v <;> simp [mul_eq, Val.mul, infTimes]

theorem fin_two_mul (v : Val) : fin 2 * v = v + v := by
  cases v <;> simp [mul_eq, Val.mul, infTimes, add_eq, Val.add]
  ring

theorem mul_fin_mul_fin {f w : Rat} (hf : 0 < f) (hw : 0 < w) (x : Val) :
    x * (fin f * fin w) = fin f * (x * fin w) := by
  have hfw : 0 < f * w := mul_pos hf hw
  cases x <;> simp [mul_eq, Val.mul, infTimes, hf, hf.ne', hw, hw.ne', hfw, hfw.ne']
  ring

theorem isFin_fin_mul {q : Rat} (hq : 0 < q) (v : Val) : (fin q * v).isFin = v.isFin := by
  cases v <;> simp [mul_eq, Val.mul, infTimes, hq, hq.ne', isFin]

theorem isNaN_fin_mul {q : Rat} (hq : 0 < q) (v : Val) : (fin q * v).isNaN = v.isNaN := by
  cases v <;> simp [mul_eq, Val.mul, infTimes, hq, hq.ne', isNaN]

theorem isFin_div_fin {q : Rat} (hq : 0 < q) (v : Val) : (v / fin q).isFin = v.isFin := by
  cases v <;> simp [div_eq, Val.div, hq, hq.ne', isFin]

theorem fin_mul_div_cancel {q : Rat} (hq : 0 < q) (v : Val) : fin q * (v / fin q) = v := by
  cases v <;> simp [div_eq, Val.div, mul_eq, Val.mul, infTimes, hq, hq.ne']
  field_simp

theorem fin_mul_div_fin_mul {f q : Rat} (hf : 0 < f) (hq : 0 < q) (v : Val) :
    (fin f * v) / fin (f * q) = v / fin q := by
  have hfq : 0 < f * q := mul_pos hf hq
  cases v <;> simp [div_eq, Val.div, mul_eq, Val.mul, infTimes, hf, hf.ne', hq, hq.ne', hfq, hfq.ne']
  field_simp

/-! ### `minplus` / `maxplus` -/

@[simp] theorem nan_minplus (y : Val) : minplus nan y = y := by
  cases y <;> simp [minplus, isNaN]
@[simp] theorem minplus_nan (x : Val) : minplus x nan = x := by
  cases x <;> simp [minplus, isNaN]
@[simp] theorem nan_maxplus (y : Val) : maxplus nan y = y := by
  cases y <;> simp [maxplus, isNaN]
@[simp] theorem maxplus_nan (x : Val) : maxplus x nan = x := by
  cases x <;> simp [maxplus, isNaN]

theorem minplus_fin_fin (a b : Rat) : minplus (fin a) (fin b) = fin (min a b) := by
  simp only [minplus, isNaN, lt, Bool.and_self, Bool.false_or, decide_eq_true_eq]
  by_cases h : a < b
  · simp [h, min_eq_left (le_of_lt h)]
  · simp [h, min_eq_right (not_lt.mp h)]

theorem maxplus_fin_fin (a b : Rat) : maxplus (fin a) (fin b) = fin (Max.max a b) := by
  simp only [maxplus, isNaN, lt, Bool.and_self, Bool.false_or, decide_eq_true_eq]
  by_cases h : b < a
  · simp [h, max_eq_left (le_of_lt h)]
  · simp [h, max_eq_right (not_lt.mp h)]

@[simp] theorem minplus_pinf_fin (a : Rat) : minplus pinf (fin a) = fin a := by simp [minplus, isNaN, lt]
@[simp] theorem minplus_fin_pinf (a : Rat) : minplus (fin a) pinf = fin a := by simp [minplus, isNaN, lt]
@[simp] theorem minplus_ninf_fin (a : Rat) : minplus ninf (fin a) = ninf := by simp [minplus, isNaN, lt]
@[simp] theorem minplus_fin_ninf (a : Rat) : minplus (fin a) ninf = ninf := by simp [minplus, isNaN, lt]
@[simp] theorem minplus_pinf_pinf : minplus pinf pinf = pinf := by simp [minplus, isNaN, lt]
@[simp] theorem minplus_ninf_ninf : minplus ninf ninf = ninf := by simp [minplus, isNaN, lt]
@[simp] theorem minplus_pinf_ninf : minplus pinf ninf = ninf := by simp [minplus, isNaN, lt]
@[simp] theorem minplus_ninf_pinf : minplus ninf pinf = ninf := by simp [minplus, isNaN, lt]

@[simp] theorem maxplus_pinf_fin (a : Rat) : maxplus pinf (fin a) = pinf := by simp [maxplus, isNaN, lt]
@[simp] theorem maxplus_fin_pinf (a : Rat) : maxplus (fin a) pinf = pinf := by simp [maxplus, isNaN, lt]
@[simp] theorem maxplus_ninf_fin (a : Rat) : maxplus ninf (fin a) = fin a := by simp [maxplus, isNaN, lt]
@[simp] theorem maxplus_fin_ninf (a : Rat) : maxplus (fin a) ninf = fin a := by simp [maxplus, isNaN, lt]
@[simp] theorem maxplus_pinf_pinf : maxplus pinf pinf = pinf := by simp [maxplus, isNaN, lt]
@[simp] theorem maxplus_ninf_ninf : maxplus ninf ninf = ninf := by simp [maxplus, isNaN, lt]
@[simp] theorem maxplus_pinf_ninf : maxplus pinf ninf = pinf := by simp [maxplus, isNaN, lt]
@[simp] theorem maxplus_ninf_pinf : maxplus ninf pinf = pinf := by simp [maxplus, isNaN, lt]

theorem minplus_comm (a b : Val) : minplus a b = minplus b a := by
  cases a <;> cases b <;> simp [minplus_fin_fin, min_comm]

theorem maxplus_comm (a b : Val) : maxplus a b = maxplus b a := by
  cases a <;> cases b <;> simp [maxplus_fin_fin, max_comm]

theorem minplus_assoc (a b c : Val) : minplus (minplus a b) c = minplus a (minplus b c) := by
  cases a <;> cases b <;> cases c <;> simp [minplus_fin_fin, min_assoc]

theorem maxplus_assoc (a b c : Val) : maxplus (maxplus a b) c = maxplus a (maxplus b c) := by
  cases a <;> cases b <;> cases c <;> simp [maxplus_fin_fin, max_assoc]

@[simp] theorem minplus_self (a : Val) : minplus a a = a := by
  cases a <;> simp [minplus_fin_fin]

@[simp] theorem maxplus_self (a : Val) : maxplus a a = a := by
  cases a <;> simp [maxplus_fin_fin]

/-- the update of `Minimize.fill` is `minplus` with the new value -/
theorem fillMin_eq (x m : Val) : (if m.isNaN || Val.lt x m then x else m) = minplus x m := by
  cases x <;> cases m <;> simp [minplus, isNaN, lt]

/-- the update of `Maximize.fill` is `maxplus` with the new value -/
theorem fillMax_eq (x m : Val) : (if m.isNaN || Val.lt m x then x else m) = maxplus x m := by
  cases x <;> cases m <;> simp [maxplus, isNaN, lt]

/-! ### weighted mean -/

/-- `(q1*m1 + q2*m2) / (q1+q2)` -/
def wmean (q1 : Rat) (m1 : Val) (q2 : Rat) (m2 : Val) : Val :=
  (fin q1 * m1 + fin q2 * m2) / fin (q1 + q2)

theorem wmean_comm (q1 : Rat) (m1 : Val) (q2 : Rat) (m2 : Val) :
    wmean q1 m1 q2 m2 = wmean q2 m2 q1 m1 := by
  unfold wmean; rw [Val.add_comm, Rat.add_comm]

theorem wmean_assoc {q1 q2 q3 : Rat} (h1 : 0 < q1) (h2 : 0 < q2) (h3 : 0 < q3) (m1 m2 m3 : Val) :
    wmean (q1 + q2) (wmean q1 m1 q2 m2) q3 m3 = wmean q1 m1 (q2 + q3) (wmean q2 m2 q3 m3) := by
  have h12 : 0 < q1 + q2 := by linarith
  have h23 : 0 < q2 + q3 := by linarith
  unfold wmean
  rw [fin_mul_div_cancel h12, fin_mul_div_cancel h23, Val.add_assoc, Rat.add_assoc]

theorem wmean_fin {q1 q2 : Rat} (h : q1 + q2 ≠ 0) (a1 a2 : Rat) :
    wmean q1 (fin a1) q2 (fin a2) = fin ((q1 * a1 + q2 * a2) / (q1 + q2)) := by
  simp [wmean, fin_div_fin _ _ h]

theorem isFin_wmean {q1 q2 : Rat} (h1 : 0 < q1) (h2 : 0 < q2) (m1 m2 : Val) :
    (wmean q1 m1 q2 m2).isFin = (m1.isFin && m2.isFin) := by
  have h12 : 0 < q1 + q2 := by linarith
  unfold wmean
  rw [isFin_div_fin h12, isFin_add, isFin_fin_mul h1, isFin_fin_mul h2]

theorem wmean_scale {f q1 q2 : Rat} (hf : 0 < f) (h1 : 0 < q1) (h2 : 0 < q2) (m1 m2 : Val) :
    wmean (f * q1) m1 (f * q2) m2 = wmean q1 m1 q2 m2 := by
  have h12 : 0 < q1 + q2 := by linarith
  unfold wmean
  have e1 : fin (f * q1) * m1 = fin f * (fin q1 * m1) := by rw [fin_mul_fin_mul h1 hf, mul_comm]
  have e2 : fin (f * q2) * m2 = fin f * (fin q2 * m2) := by rw [fin_mul_fin_mul h2 hf, mul_comm]
  rw [e1, e2, ← fin_mul_add hf, ← mul_add, fin_mul_div_fin_mul hf h12]

theorem wmean_self {q : Rat} (hq : 0 < q) (m : Val) : wmean q m q m = m := by
  have hqq : 0 < q + q := by linarith
  cases m <;> simp [wmean, mul_eq, Val.mul, infTimes, add_eq, Val.add, div_eq, Val.div, hq, hq.ne',
    hqq, hqq.ne']
  field_simp

/-! ### the mean update of `Average.fill` / `Deviate.fill` -/

theorem meanUpdate_pos {q w : Rat} (hq : 0 < q) (hw : 0 < w) (m x : Val) :
    meanUpdate (fin q) m x (fin w) = (fin (q + w), wmean q m w x) := by
  have hqw : 0 < q + w := by linarith
  cases m <;> cases x <;>
    simp [meanUpdate, wmean, hq.ne', isNaN, isInf, mul_eq, Val.mul, infTimes, add_eq, Val.add,
      div_eq, Val.div, sub_eq, Val.neg, Val.lt, zero_eq, hq, hw, hw.ne', hqw, hqw.ne']
  field_simp
  ring

theorem meanUpdate_zero {w : Rat} (hw : 0 < w) (m x : Val) :
    meanUpdate (fin 0) m x (fin w) = (fin (0 + w), x) := by
  cases x <;>
    simp [meanUpdate, isNaN, isInf, mul_eq, Val.mul, add_eq, Val.add,
      div_eq, Val.div, sub_eq, Val.neg, Val.lt, zero_eq, hw.ne']

end Val
end Hg
