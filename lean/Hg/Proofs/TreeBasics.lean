/-
  Hg.Proofs.TreeBasics — infrastructure for proofs about whole trees: a single induction principle
  for `Agg`, `∀ ∈` characterisations of the list-level mutual functions, facts about keys.
-/
import Hg.Model.WF
import Hg.Model.Live

namespace Hg

/-! ### induction over the rose tree -/

theorem Agg.ind {P : Agg → Prop}
    (h : ∀ k e st tmpl kids, (∀ t, tmpl = some t → P t) → (∀ p ∈ kids, P p.2) →
      P (.node k e st tmpl kids)) (a : Agg) : P a :=
  Agg.rec (motive_1 := P) (motive_2 := fun o => ∀ t, o = some t → P t)
    (motive_3 := fun l => ∀ p ∈ l, P p.2) (motive_4 := fun p => P p.2)
    (fun k e st tmpl kids h2 h3 => h k e st tmpl kids h2 h3)
    (fun t ht => by cases ht)
    (fun v hv t ht => by cases ht; exact hv)
    (fun p hp => by cases hp)
    (fun hd tl h4 h3 p hp => by
      rcases List.mem_cons.1 hp with rfl | hp
      · exact h4
      · exact h3 p hp)
    (fun k a h1 => h1) a

/-! ### numbers -/

theorem Val.zero_eq : (0 : Val) = Val.fin 0 := rfl

theorem Val.fin_add_zero (q : Rat) : Val.fin q + Val.fin 0 = Val.fin q := by
  show Val.add _ _ = _
  simp [Val.add, Rat.add_zero]

theorem Val.zero_add_fin (q : Rat) : Val.fin 0 + Val.fin q = Val.fin q := by
  show Val.add _ _ = _
  simp [Val.add, Rat.zero_add]

theorem Val.fin_add_fin (p q : Rat) : Val.fin p + Val.fin q = Val.fin (p + q) := by
  show Val.add _ _ = _
  simp [Val.add]

end Hg

namespace Hg

/-! ### keys -/

theorem keysOf_cons {α : Type} (p : Key × α) (l : List (Key × α)) : keysOf (p :: l) = p.1 :: keysOf l := rfl
theorem keysOf_nil {α : Type} : keysOf ([] : List (Key × α)) = [] := rfl

theorem mem_keysOf {α : Type} {l : List (Key × α)} {k : Key} : k ∈ keysOf l ↔ ∃ p ∈ l, p.1 = k := by
  simp [keysOf]

theorem layout_sparse {q : Qty} {w o : Rat} {c : String} {n : Option String} {kids : List (Key × Agg)}
    (h : Kind.layoutOk (.sparse q w o c n) (keysOf kids) = true) :
    0 < w ∧ ∃ a0 r, kids = (.nanflow, a0) :: r ∧ (∀ p ∈ r, p.1.isIdx = true) ∧ sortedKeys (keysOf r) = true := by
  simp only [Kind.layoutOk, Bool.and_eq_true, decide_eq_true_eq] at h
  refine ⟨h.1, ?_⟩
  have h2 := h.2
  cases kids with
  | nil => simp [keysOf] at h2
  | cons p r =>
    obtain ⟨k, a⟩ := p
    rw [show keysOf ((k, a) :: r) = k :: keysOf r from rfl] at h2
    cases k <;> simp at h2
    refine ⟨a, r, rfl, ?_, h2.2⟩
    intro p hp
    have := h2.1
    exact this p.1 (mem_keysOf.2 ⟨p, hp, rfl⟩)

theorem layout_cat {q : Qty} {c : String} {n : Option String} {kids : List (Key × Agg)}
    (h : Kind.layoutOk (.categorize q c n) (keysOf kids) = true) :
    (∀ p ∈ kids, p.1.isCat = true) ∧ sortedKeys (keysOf kids) = true := by
  simp only [Kind.layoutOk, Bool.and_eq_true, List.all_eq_true] at h
  exact ⟨fun p hp => h.1 p.1 (mem_keysOf.2 ⟨p, hp, rfl⟩), h.2⟩

theorem Key.ne_nan_of_isIdx {k : Key} (h : k.isIdx = true) : k ≠ .nanflow := by
  cases k <;> simp [Key.isIdx] at h ⊢
theorem Key.ne_nan_of_isCat {k : Key} (h : k.isCat = true) : k ≠ .nanflow := by
  cases k <;> simp [Key.isCat] at h ⊢

/-! ### list-level characterisations -/

theorem goodKids_iff (l : List (Key × Agg)) : goodKids l = true ↔ ∀ p ∈ l, good p.2 = true := by
  induction l with
  | nil => simp [goodKids]
  | cons p r ih => obtain ⟨k, a⟩ := p; simp [goodKids, ih]

theorem isZeroKids_iff (l : List (Key × Agg)) : isZeroKids l = true ↔ ∀ p ∈ l, isZeroTree p.2 = true := by
  induction l with
  | nil => simp [isZeroKids]
  | cons p r ih => obtain ⟨k, a⟩ := p; simp [isZeroKids, ih]

theorem zeroKids_eq_map (l : List (Key × Agg)) : zeroKids l = l.map (fun p => (p.1, zero p.2)) := by
  induction l with
  | nil => simp [zeroKids]
  | cons p r ih => obtain ⟨k, a⟩ := p; simp [zeroKids, ih]

theorem keysOf_zeroKids (l : List (Key × Agg)) : keysOf (zeroKids l) = keysOf l := by
  simp [zeroKids_eq_map, keysOf, List.map_map, Function.comp_def]

theorem zeroFlows_noNan (l : List (Key × Agg)) (h : ∀ p ∈ l, p.1 ≠ .nanflow) : zeroFlows l = [] := by
  induction l with
  | nil => simp [zeroFlows]
  | cons p r ih =>
    obtain ⟨k, a⟩ := p
    have hk : k ≠ .nanflow := h (k, a) (by simp)
    simp only [zeroFlows, hk, if_false]
    exact ih (fun p hp => h p (by simp [hp]))

theorem sameBaseBins_iff (t : Agg) (l : List (Key × Agg)) :
    sameBaseBins t l = true ↔ ∀ p ∈ l, p.1 ≠ .nanflow → sameBase t p.2 = true := by
  induction l with
  | nil => simp [sameBaseBins]
  | cons p r ih =>
    obtain ⟨k, a⟩ := p
    simp only [sameBaseBins, Bool.and_eq_true, ih, List.mem_cons, forall_eq_or_imp]
    by_cases hk : k = .nanflow <;> simp [hk]

theorem sameBaseTmpl_iff (t : Option Agg) (l : List (Key × Agg)) :
    sameBaseTmpl t l = true ↔ ∀ tm, t = some tm → ∀ p ∈ l, p.1 ≠ .nanflow → sameBase tm p.2 = true := by
  cases t with
  | none => simp [sameBaseTmpl]
  | some tm => simp [sameBaseTmpl, sameBaseBins_iff]

theorem sameBaseFlow_iff (l1 l2 : List (Key × Agg)) :
    sameBaseFlow l1 l2 = true ↔
      ∀ p ∈ l1, p.1 = .nanflow → ∃ b, lookupK .nanflow l2 = some b ∧ sameBase p.2 b = true := by
  induction l1 with
  | nil => simp [sameBaseFlow]
  | cons p r ih =>
    obtain ⟨k, a⟩ := p
    simp only [sameBaseFlow, Bool.and_eq_true, ih, List.mem_cons, forall_eq_or_imp]
    by_cases hk : k = .nanflow
    · subst hk
      cases hl : lookupK Key.nanflow l2 <;> simp
    · simp [hk]

theorem compatShared_iff (l1 l2 : List (Key × Agg)) :
    compatShared l1 l2 = true ↔ ∀ p ∈ l1, ∀ b, lookupK p.1 l2 = some b → compat p.2 b = true := by
  induction l1 with
  | nil => simp [compatShared]
  | cons p r ih =>
    obtain ⟨k, a⟩ := p
    simp only [compatShared, Bool.and_eq_true, ih, List.mem_cons, forall_eq_or_imp]
    cases hl : lookupK k l2 <;> simp

theorem compatFirst_eq (l : List (Key × Agg)) (th : Agg) :
    compatFirst l th = (match firstBin l with | none => true | some a => compat a th) := by
  induction l with
  | nil => simp [compatFirst, firstBin]
  | cons p r ih =>
    obtain ⟨k, a⟩ := p
    by_cases hk : k = .nanflow <;> simp [compatFirst, firstBin, hk, ih]

theorem lookupK_mem {α : Type} {k : Key} {l : List (Key × α)} {a : α} (h : lookupK k l = some a) : (k, a) ∈ l := by
  induction l with
  | nil => simp [lookupK] at h
  | cons p r ih =>
    obtain ⟨k', a'⟩ := p
    simp only [lookupK] at h
    by_cases hk : k' = k
    · simp [hk] at h; simp [hk, h]
    · simp [hk] at h; simp [ih h]

theorem lookupK_none {α : Type} {k : Key} {l : List (Key × α)} (h : ∀ p ∈ l, p.1 ≠ k) : lookupK k l = none := by
  induction l with
  | nil => simp [lookupK]
  | cons p r ih =>
    obtain ⟨k', a'⟩ := p
    have : k' ≠ k := h (k', a') (by simp)
    simp only [lookupK, this, if_false]
    exact ih (fun p hp => h p (by simp [hp]))

end Hg

namespace Hg

/-! ### node-level unfolding -/

def ctypeOk (k : Kind) (tmpl : Option Agg) : Bool :=
  match k, tmpl with
  | .sparse _ _ _ ctype cname, some t => ctype == t.typeName && cname == t.qtyName
  | .categorize _ ctype cname, some t => ctype == t.typeName && cname == t.qtyName
  | _, _ => true

def scalarOk (k : Kind) (e : Val) (st : St) : Bool :=
  if k.isLeaf then leafGood k e st
  else St.fits k st && (match e with | .fin q => decide (0 ≤ q) | _ => false)

theorem good_node (k : Kind) (e : Val) (st : St) (tmpl : Option Agg) (kids : List (Key × Agg)) :
    good (.node k e st tmpl kids) = true ↔
      scalarOk k e st = true ∧ k.layoutOk (keysOf kids) = true ∧ (∀ p ∈ kids, good p.2 = true) ∧
      goodTmpl tmpl = true ∧ (k.isSparse = true → sameBaseTmpl tmpl kids = true) ∧ ctypeOk k tmpl = true := by
  simp only [good, Bool.and_eq_true, goodKids_iff, and_assoc]
  have : ((if k.isSparse = true then sameBaseTmpl tmpl kids else true) = true) ↔
      (k.isSparse = true → sameBaseTmpl tmpl kids = true) := by
    cases k.isSparse <;> simp
  rw [this]
  exact Iff.rfl

theorem goodTmpl_iff (tmpl : Option Agg) :
    goodTmpl tmpl = true ↔ ∀ t, tmpl = some t → good t = true ∧ isZeroTree t = true := by
  cases tmpl <;> simp [goodTmpl]

theorem scalarOk_nonleaf {k : Kind} {e : Val} {st : St} (hk : k.isLeaf = false) (h : scalarOk k e st = true) :
    st = .unit ∧ ∃ q : Rat, e = .fin q ∧ 0 ≤ q := by
  simp only [scalarOk, hk, Bool.false_eq_true, if_false, Bool.and_eq_true] at h
  obtain ⟨h1, h2⟩ := h
  constructor
  · cases k <;> cases st <;> simp_all [St.fits, Kind.isLeaf]
  · cases e <;> simp_all

theorem scalarOk_nonleaf_mk {k : Kind} {q : Rat} (hk : k.isLeaf = false) (hq : 0 ≤ q) :
    scalarOk k (.fin q) .unit = true := by
  simp only [scalarOk, hk, Bool.false_eq_true, if_false, Bool.and_eq_true, decide_eq_true_eq]
  refine ⟨?_, hq⟩
  cases k <;> simp_all [St.fits, Kind.isLeaf]

theorem St.zero_nonleaf {k : Kind} (hk : k.isLeaf = false) : St.zero k = .unit := by
  cases k <;> simp_all [St.zero, Kind.isLeaf]

theorem Kind.isSparse_not_leaf {k : Kind} (h : k.isSparse = true) : k.isLeaf = false := by
  cases k <;> simp_all [Kind.isSparse, Kind.isLeaf]

theorem Kind.sparse_cases {k : Kind} (h : k.isSparse = true) :
    (∃ q w o c n, k = .sparse q w o c n) ∨ (∃ q c n, k = .categorize q c n) := by
  cases k <;> simp_all [Kind.isSparse]

theorem layout_leaf {k : Kind} {kids : List (Key × Agg)} (hk : k.isLeaf = true)
    (h : k.layoutOk (keysOf kids) = true) : kids = [] := by
  cases k <;> simp_all [Kind.isLeaf, Kind.layoutOk, keysOf]

/-- the sparse layout seen through `Kind.isSparse`: at most the head is the nanflow, every other key
is a bin key -/
theorem layout_isSparse {k : Kind} {kids : List (Key × Agg)} (hk : k.isSparse = true)
    (h : k.layoutOk (keysOf kids) = true) :
    (∃ a0 r, kids = (.nanflow, a0) :: r ∧ (∀ p ∈ r, p.1 ≠ .nanflow)) ∨ (∀ p ∈ kids, p.1 ≠ .nanflow) := by
  rcases Kind.sparse_cases hk with ⟨q, w, o, c, n, rfl⟩ | ⟨q, c, n, rfl⟩
  · obtain ⟨_, a0, r, h1, h2, _⟩ := layout_sparse h
    exact Or.inl ⟨a0, r, h1, fun p hp => Key.ne_nan_of_isIdx (h2 p hp)⟩
  · exact Or.inr (fun p hp => Key.ne_nan_of_isCat ((layout_cat h).1 p hp))

end Hg

namespace Hg

/-! ### the key order -/

theorem Key.lt_irrefl (k : Key) : Key.lt k k = false := by
  cases k <;> simp [Key.lt]

theorem Key.lt_trans {a b c : Key} (h1 : Key.lt a b = true) (h2 : Key.lt b c = true) : Key.lt a c = true := by
  cases a <;> cases b <;> simp [Key.lt] at h1 <;> cases c <;> simp [Key.lt] at h2 ⊢ <;>
    first | omega | exact String.lt_trans h1 h2

theorem Key.ne_of_lt {a b : Key} (h : Key.lt a b = true) : a ≠ b := by
  intro hab; subst hab; rw [Key.lt_irrefl] at h; cases h

theorem Key.lt_total_idx {a b : Key} (ha : a.isIdx = true) (hb : b.isIdx = true)
    (h : Key.lt a b = false) (hne : a ≠ b) : Key.lt b a = true := by
  cases a <;> simp [Key.isIdx] at ha
  cases b <;> simp [Key.isIdx] at hb
  simp [Key.lt] at h hne ⊢
  omega

theorem Key.lt_total_cat {a b : Key} (ha : a.isCat = true) (hb : b.isCat = true)
    (h : Key.lt a b = false) (hne : a ≠ b) : Key.lt b a = true := by
  cases a <;> simp [Key.isCat] at ha
  cases b <;> simp [Key.isCat] at hb
  rename_i s t
  simp [Key.lt] at h hne ⊢
  -- h : t ≤ s
  apply Decidable.byContradiction
  intro hts
  exact hne (String.le_antisymm (String.not_lt.1 hts) h)

theorem sortedKeys_cons (k : Key) (ks : List Key) :
    sortedKeys (k :: ks) = true ↔ (∀ k' ∈ ks, Key.lt k k' = true) ∧ sortedKeys ks = true := by
  induction ks generalizing k with
  | nil => simp [sortedKeys]
  | cons k1 r ih =>
    simp only [sortedKeys, Bool.and_eq_true, List.mem_cons, forall_eq_or_imp]
    constructor
    · rintro ⟨h1, h2⟩
      refine ⟨⟨h1, ?_⟩, h2⟩
      intro k' hk'
      exact Key.lt_trans h1 (((ih k1).1 h2).1 k' hk')
    · rintro ⟨⟨h1, _⟩, h2⟩
      exact ⟨h1, h2⟩

theorem lookupK_self_of_sorted {l : List (Key × Agg)} (h : sortedKeys (keysOf l) = true) :
    ∀ p ∈ l, lookupK p.1 l = some p.2 := by
  induction l with
  | nil => simp
  | cons p0 r ih =>
    obtain ⟨k0, a0⟩ := p0
    rw [keysOf_cons, sortedKeys_cons] at h
    intro p hp
    simp only [List.mem_cons] at hp
    rcases hp with rfl | hp
    · simp [lookupK]
    · have hlt := h.1 p.1 (mem_keysOf.2 ⟨p, hp, rfl⟩)
      simp only [lookupK, Key.ne_of_lt hlt, if_false]
      exact ih h.2 p hp

/-- keys of a good sparse container are unique -/
theorem lookupK_self_of_layout {k : Kind} {kids : List (Key × Agg)} (hk : k.isSparse = true)
    (h : k.layoutOk (keysOf kids) = true) : ∀ p ∈ kids, lookupK p.1 kids = some p.2 := by
  rcases Kind.sparse_cases hk with ⟨q, w, o, c, n, rfl⟩ | ⟨q, c, n, rfl⟩
  · obtain ⟨_, a0, r, rfl, hidx, hs⟩ := layout_sparse h
    intro p hp
    simp only [List.mem_cons] at hp
    rcases hp with rfl | hp
    · simp [lookupK]
    · have : Key.nanflow ≠ p.1 := fun e => Key.ne_nan_of_isIdx (hidx p hp) e.symm
      simp only [lookupK, this, if_false]
      exact lookupK_self_of_sorted hs p hp
  · exact lookupK_self_of_sorted (layout_cat h).2

end Hg
