/-
  Hg.Proofs.FillLaws — a raising fill leaves no trace on single-path trees (C12); bookkeeping
  invariants are preserved by every operation (C05); scaling laws (C08).
-/
import Hg.Model.Spec
import Hg.Proofs.TreeLaws1
import Hg.Proofs.KeyFacts
import Hg.Proofs.Rollback
import Hg.Proofs.ScaleLaws
import Hg.Proofs.ScaleFill
import Hg.Proofs.ScaleAdd
import Hg.Proofs.InvLawsA
import Hg.Proofs.InvLawsB

namespace Hg

/-! ### C12

REPAIRED STATEMENTS.  `fill_fault_rollback` and `skip_on_fault` as originally stated (with
`singlePath t` only) are FALSE: `singlePath` does not exclude two children under the same key, and
`fillKids` fills every child whose key is a target, so the first may succeed and the second raise:

    t = .node (.bin ⟨0,none,true⟩ 1 0 1) 0 .unit none
          [(.under, .node .count 0 .unit none []), (.under, .node (.sum ⟨0,none,false⟩) 0 (.sum 0) none [])]
    d = [.num (.fin (-1))],  w = 1
    singlePath t = true, (fill t d w).2 = .raised .typeErr, (fill t d w).1 ≠ t      (`decide +kernel`)

(and `fillAll t [(d,w)] ≠ t = fillAll t (survivors t [(d,w)])`).  The repair is the extra executable
hypothesis `good t = true` (only its consequence "children keys are pairwise distinct",
`KF.distinctKeys`, is used: see `Rb.rollback`, `Rb.skip_on_fault'` for the sharper versions; distinct
keys are preserved by every fill, good or not, so no hypothesis on the weights is needed). -/

/-- If `fill` raises on a single-path tree, the tree is left exactly as before the call. -/
theorem fill_fault_rollback (t : Agg) (d : Datum) (w : Val) (hs : singlePath t = true)
    (hg : good t = true)
    (hr : (fill t d w).2 ≠ .ok) : (fill t d w).1 = t :=
  Rb.rollback t d w hs (KF.good_distinctKeys t hg) hr

theorem singlePath_fill (t : Agg) (d : Datum) (w : Val) (hs : singlePath t = true) :
    singlePath (fill t d w).1 = true :=
  Rb.singlePath_fill' t d w hs

/-- processing a stream with `try: h.fill(d) except: continue` yields exactly the aggregate of the
records that did not fail -/
theorem skip_on_fault (t : Agg) (s : List (Datum × Val)) (hs : singlePath t = true)
    (hg : good t = true) :
    fillAll t s = fillAll t (survivors t s) ∧ fillsOk t (survivors t s) = true :=
  Rb.skip_on_fault' s t hs (KF.good_distinctKeys t hg)

/-! ### C05

Proved in the imported files (in `namespace Hg`, statements exactly as specified); restated here
verbatim as `example`s so that the match is checked.

* `Hg.Proofs.InvLawsA`: `inv_zero`, `inv_addRaw`, `inv_scale`
* `Hg.Proofs.InvLawsB`: `inv_fill`, `inv_fillAll`
-/

example (t : Agg) (hg : good t = true) : inv (zero t) = true := inv_zero t hg

example (t : Agg) (d : Datum) (w : Val) (hg : good t = true) (hi : inv t = true)
    (hw : w.okWeight = true) (hg' : good (fill t d w).1 = true) (hok : (fill t d w).2 = .ok) :
    inv (fill t d w).1 = true := inv_fill t d w hg hi hw hg' hok

example (a b : Agg) (ha : good a = true) (hb : good b = true)
    (hta : hasTmpl a = true) (htb : hasTmpl b = true) (h : sameBase a b = true)
    (hia : inv a = true) (hib : inv b = true) : inv (addRaw a b) = true :=
  inv_addRaw a b ha hb hta htb h hia hib

example (t : Agg) (f : Val) (hg : good t = true) (hi : inv t = true) (hf : f.posFin) :
    inv (scale t f) = true := inv_scale t f hg hi hf

/-- every state reached from an empty tree by a run of fills satisfies the invariants -/
example (z : Agg) (s : List (Datum × Val)) (hz : isZeroTree z = true)
    (hrun : goodRun z s = true) : inv (fillAll z s) = true := inv_fillAll z s hz hrun

/-! ### C08

The C08 theorems are proved in the imported files (all in `namespace Hg`, statements exactly as
specified); the `example`s below restate every statement verbatim so that the match is checked.

* `Hg.Proofs.ScaleLaws`: `mul_nonpos`, `scale_one`, `scale_scale`, `good_scale`
* `Hg.Proofs.ScaleAdd`:  `scale_two_eq_add_self`, `scale_addRaw`
* `Hg.Proofs.ScaleFill`: `scale_zeroTree`, `scale_fill`, `mul_eq_refill`
-/

example (t : Agg) (f : Val) (h : f.pos = false) : mul t f = zero t := mul_nonpos t f h

example (t : Agg) (hg : good t = true) : scale t 1 = t := scale_one t hg

example (t : Agg) (f g : Val) (hg : good t = true) (hf : f.posFin) (hgp : g.posFin) :
    scale (scale t f) g = scale t (f * g) := scale_scale t f g hg hf hgp

example (t : Agg) (f : Val) (hg : good t = true) (hf : f.posFin) :
    good (scale t f) = true ∧ sameBase t (scale t f) = true := good_scale t f hg hf

/-- `h * 2 == h + h` -/
example (t : Agg) (hg : good t = true) (ht : hasTmpl t = true) :
    add t t = some (scale t 2) := scale_two_eq_add_self t hg ht

/-- scaling distributes over merge -/
example (a b : Agg) (f : Val) (ha : good a = true) (hb : good b = true)
    (hta : hasTmpl a = true) (htb : hasTmpl b = true) (h : sameBase a b = true) (hf : f.posFin) :
    scale (addRaw a b) f = addRaw (scale a f) (scale b f) := scale_addRaw a b f ha hb hta htb h hf

/-- scaling an empty tree changes nothing -/
example (z : Agg) (f : Val) (hg : good z = true) (hz : isZeroTree z = true) (hf : f.posFin) :
    scale z f = z := scale_zeroTree z f hg hz hf

/-- one fill commutes with scaling: scaling after the fill equals filling the scaled tree with the
scaled weight -/
example (t : Agg) (d : Datum) (w f : Val) (hg : good t = true) (hw : w.okWeight = true)
    (hg' : good (fill t d w).1 = true) (hok : (fill t d w).2 = .ok) (hf : f.posFin) :
    fill (scale t f) d (f * w) = (scale (fill t d w).1 f, .ok) := scale_fill t d w f hg hw hg' hok hf

/-- `h * f` equals refilling the same data with every weight multiplied by `f` -/
example (z : Agg) (s : List (Datum × Val)) (f : Val) (hz : isZeroTree z = true)
    (hrun : goodRun z s = true) (hf : f.posFin) :
    mul (fillAll z s) f = fillAll z (s.map (fun dw => (dw.1, f * dw.2))) := mul_eq_refill z s f hz hrun hf

end Hg
