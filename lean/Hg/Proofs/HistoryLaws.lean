/-
  Hg.Proofs.HistoryLaws — C05 lifted to arbitrary operation histories.

  The pool invariant and its preservation by each operation are in Hg.Proofs.HistoryAux (`Hg.Hist`).
-/
import Hg.Model.History
import Hg.Proofs.All
import Hg.Proofs.FillLaws
import Hg.Proofs.HistoryAux
import Hg.Props.Examples

namespace Hg

/-- every fill of the history lands in a `good` state — the history counterpart of the `good` conjunct
of `goodRun` (Hg.Model.WF).  It is not implied by `okRun`: a `Select` / `Fraction` whose quantity
evaluates to `+inf` passes an infinite weight to its child without raising (`Hist.Counter` below). -/
def goodFills : List Agg → List HOp → Bool
  | _, [] => true
  | pool, op :: rest => Hist.goodStep pool op && goodFills (stepH pool op) rest

namespace Hist

theorem ok_run {z : Agg} (hg : good z = true) : ∀ (ops : List HOp) (pool : List Agg),
    (∀ a ∈ pool, Ok z a) → okRun pool ops = true → goodFills pool ops = true →
    ∀ a ∈ ops.foldl stepH pool, Ok z a
  | [], _, hp, _, _ => hp
  | op :: rest, pool, hp, hok, hgf => by
    simp only [okRun, goodFills, Bool.and_eq_true] at hok hgf
    exact ok_run hg rest (stepH pool op) (ok_step hg hp op hok.1 hgf.1) hok.2 hgf.2

/-! ### `inv_history` is false without `goodFills`

`Select(q0, Count)` filled once with a record whose `q0` is `+inf` and weight 1: the fill returns
normally, the weight is finite, so the history is admissible (`okRun`), but the cut has been filled
with weight `+inf * 1`, its `entries` is `+inf`, and the state is not `good`.  (`#guard`, as in
TreeLaws1Counterexamples: `good` is compiled by well-founded recursion and does not reduce in the
kernel.) -/
namespace Counter

def q0 : Qty := ⟨0, none, true⟩
def cnt : Agg := .node .count 0 .unit none []
def sel : Agg := .node (.select q0) 0 .unit none [(.cut, cnt)]
def ops : List HOp := [.fill 0 [.num .pinf] 1]

#guard isZeroTree sel && good sel && hasTmpl sel && noBins sel && okRun [sel] ops
#guard (runH sel ops).any (fun a => !good a)
#guard !goodFills [sel] ops

/-- the state the history reaches -/
def bad : Agg := .node (.select q0) 1 .unit none [(.cut, .node .count .pinf .unit none [])]

theorem run_eq : runH sel ops = [bad] := by decide +kernel

theorem good_sel : good sel = true := by
  rw [sel, good_node]
  refine ⟨by decide +kernel, by decide +kernel, ?_, by decide +kernel, by decide +kernel, by decide +kernel⟩
  intro p hp
  rw [List.mem_singleton.1 hp, cnt, good_node]
  refine ⟨by decide +kernel, by decide +kernel, ?_, by decide +kernel, by decide +kernel, by decide +kernel⟩
  intro p hp
  cases hp

theorem not_good_bad : good bad = false := by
  rw [Bool.eq_false_iff]
  intro h
  have h1 := ((good_node _ _ _ _ _).1 h).2.2.1 _ (List.mem_singleton.2 rfl)
  have h2 := ((good_node _ _ _ _ _).1 h1).1
  revert h2
  decide +kernel

/-- the statement of `inv_history` without `goodFills` is refuted (kernel-checked) -/
theorem needs_goodFills :
    ¬ ∀ (z : Agg) (ops : List HOp), isZeroTree z = true → good z = true → hasTmpl z = true →
      noBins z = true → okRun [z] ops = true →
      ∀ a ∈ runH z ops, inv a = true ∧ good a = true ∧ sameBase z a = true := by
  intro h
  have := (h sel ops (by decide +kernel) good_sel (by decide +kernel) (by decide +kernel) (by decide +kernel)
    bad (by rw [run_eq]; exact List.mem_singleton.2 rfl)).2.1
  rw [not_good_bad] at this
  cases this

end Counter

end Hist

/-- **every reachable state satisfies the bookkeeping invariants**: after any history of fill / fill.numpy / + / += /
* / zero() / copy() over a pool derived from one empty live tree, in which every fill is an admissible step that lands
in a well-formed state and every vectorised fill satisfies the executable hypotheses of C03 on the state it is applied
to, every aggregator of the pool satisfies `inv` (and is a well-formed state of the same tree).
`hgf` is necessary (`Hist.Counter`); `hn` is not used. -/
theorem inv_history (z : Agg) (ops : List HOp)
    (hz : isZeroTree z = true) (hg : good z = true) (ht : hasTmpl z = true) (_hn : noBins z = true)
    (hok : okRun [z] ops = true) (hgf : goodFills [z] ops = true) :
    ∀ a ∈ runH z ops, inv a = true ∧ good a = true ∧ sameBase z a = true := by
  intro a ha
  have hp : ∀ a ∈ [z], Hist.Ok z a := by
    intro a ha
    rw [List.mem_singleton.1 ha]
    exact Hist.ok_start z hz hg ht
  have := Hist.ok_run hg ops [z] hp hok hgf a ha
  exact ⟨this.inv, this.good, this.base⟩

/-- the same, with live templates in the conclusion (what the next operation of a history needs) -/
theorem inv_history_tmpl (z : Agg) (ops : List HOp)
    (hz : isZeroTree z = true) (hg : good z = true) (ht : hasTmpl z = true)
    (hok : okRun [z] ops = true) (hgf : goodFills [z] ops = true) :
    ∀ a ∈ runH z ops, inv a = true ∧ good a = true ∧ sameBase z a = true ∧ hasTmpl a = true := by
  intro a ha
  have hp : ∀ a ∈ [z], Hist.Ok z a := by
    intro a ha
    rw [List.mem_singleton.1 ha]
    exact Hist.ok_start z hz hg ht
  have := Hist.ok_run hg ops [z] hp hok hgf a ha
  exact ⟨this.inv, this.good, this.base, this.tmpl⟩

/-- non-vacuity: a history using every operation that satisfies both hypotheses -/
def Hist.exOps : List HOp :=
  [.fill 0 [.num (.fin (1/2)), .num (.fin 3)] 1, .copy 0, .fill 1 [.num .nan, .num (.fin 1)] 2, .add 0 1,
   .mul 2 (.fin (1/2)), .mul 2 .nan, .iadd 0 3, .zero 0, .fill 5 [.num (.fin 5), .num .pinf] (.fin (1/2)), .iadd 5 0,
   .fill 0 [.num (.fin 1), .num (.fin 1)] (.fin (-1)),
   .fillnp 0 (Ex.s2.map (·.1)) (Ex.s2.map (·.2)), .fillnp 4 (Ex.s1.map (·.1)) [0, 3], .iadd 4 0,
   .fillnp 4 ((Ex.s1 ++ Ex.s2).map (·.1)) ((Ex.s1 ++ Ex.s2).map (·.2)), .fillnp 9 [] [], .fillnp 1 [] []]

#guard okRun [Ex.z] Hist.exOps && goodFills [Ex.z] Hist.exOps && (runH Ex.z Hist.exOps).length == 6 &&
  (runH Ex.z Hist.exOps).all (fun a => inv a && good a && sameBase Ex.z a && hasTmpl a)

/- the vectorised fills of `exOps` do change the pool (they are not no-ops), and a vectorised fill that raises is not
an admissible step -/
#guard runH Ex.z Hist.exOps != runH Ex.z (Hist.exOps.filter (fun op => match op with | .fillnp .. => false | _ => true))
#guard !okRun [Ex.z] [.fillnp 0 [[.raises, .raises]] [1]] && !okRun [Ex.z] [.fillnp 0 (Ex.s1.map (·.1)) [1]] &&
  !okRun [Ex.z] [.fillnp 0 (Ex.s1.map (·.1)) [1, .fin (-1)]]

end Hg
