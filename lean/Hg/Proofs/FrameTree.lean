/-
  Hg.Proofs.FrameTree — the tree `construct_empty_hist` builds (`mkTree`): shape of one wrapping
  step, well-formedness of the result.
-/
import Hg.Model.Frame
import Hg.Model.Spec
import Hg.Proofs.All
import Hg.Proofs.NpPres

namespace Hg.Frame

/-- the kinds `mkTree` uses -/
def cntK : Kind → Bool
  | .count | .bin .. | .sparse .. | .central _ | .irregular _ | .categorize .. => true
  | _ => false

/-- kind, template and children of one wrapping step -/
def wrapKind (pos : Nat) (s : AxisSpec) (v : Agg) : Kind :=
  let q : Qty := ⟨pos, none, true⟩
  match s with
  | .sparse w o => .sparse q w o v.typeName v.qtyName
  | .bin n l h => .bin q n l h
  | .irregular _ => .irregular q
  | .central _ => .central q
  | .categorize => .categorize q v.typeName v.qtyName

def wrapTmpl (s : AxisSpec) (v : Agg) : Option Agg :=
  match s with
  | .sparse .. | .categorize => some v
  | _ => none

def wrapKids (s : AxisSpec) (v : Agg) : List (Key × Agg) :=
  match s with
  | .sparse _ _ => [(.nanflow, countZero)]
  | .bin n _ _ => [(.under, countZero), (.over, countZero), (.nanflow, countZero)] ++
      (List.range n).map (fun i => (.pos i, v))
  | .irregular es => (.nanflow, countZero) :: (.thr .ninf, v) :: es.map (fun e => (.thr (.fin e), v))
  | .central cs => (.nanflow, countZero) :: cs.map (fun c => (.ctr c, v))
  | .categorize => []

theorem wrap_eq (pos : Nat) (s : AxisSpec) (v : Agg) :
    s.wrap pos v = .node (wrapKind pos s v) 0 .unit (wrapTmpl s v) (wrapKids s v) := by
  cases s <;> rfl

theorem wrapKind_nonleaf (pos : Nat) (s : AxisSpec) (v : Agg) : (wrapKind pos s v).isLeaf = false := by
  cases s <;> rfl

theorem wrapKind_cntK (pos : Nat) (s : AxisSpec) (v : Agg) : cntK (wrapKind pos s v) = true := by
  cases s <;> rfl

theorem wrapTmpl_eq {s : AxisSpec} {v t : Agg} (h : wrapTmpl s v = some t) : t = v := by
  cases s <;> simp [wrapTmpl] at h <;> exact h.symm

theorem wrapTmpl_sparse (pos : Nat) (s : AxisSpec) (v : Agg) (h : (wrapKind pos s v).isSparse = true) :
    wrapTmpl s v = some v := by
  cases s <;> simp [wrapKind, Kind.isSparse] at h <;> rfl

theorem wrapKids_mem {s : AxisSpec} {v : Agg} {p : Key × Agg} (h : p ∈ wrapKids s v) :
    p.2 = countZero ∨ p.2 = v := by
  cases s <;> simp only [wrapKids, List.mem_cons, List.mem_append, List.mem_map, List.mem_range,
    List.not_mem_nil, or_false] at h
  case sparse => left; rw [h]
  case bin =>
    rcases h with (h | h | h) | ⟨i, _, h⟩
    · left; rw [h]
    · left; rw [h]
    · left; rw [h]
    · right; rw [← h]
  case irregular =>
    rcases h with h | h | ⟨i, _, h⟩
    · left; rw [h]
    · right; rw [h]
    · right; rw [← h]
  case central =>
    rcases h with h | ⟨i, _, h⟩
    · left; rw [h]
    · right; rw [← h]

theorem wrapKids_sparse (pos : Nat) {s : AxisSpec} {v : Agg} (hs : (wrapKind pos s v).isSparse = true)
    {p : Key × Agg} (h : p ∈ wrapKids s v) : p.1 = .nanflow := by
  cases s <;> simp [wrapKind, Kind.isSparse] at hs
  · simp only [wrapKids, List.mem_singleton] at h; rw [h]
  · simp [wrapKids] at h

/-! ### layout -/

theorem thresholdsOf_map (es : List Rat) :
    thresholdsOf (es.map (fun e => Key.thr (.fin e))) = es.map Val.fin := by
  induction es with
  | nil => rfl
  | cons e es ih => simp only [List.map_cons, thresholdsOf, ih]

theorem centersOf_map (cs : List Rat) : centersOf (cs.map Key.ctr) = cs := by
  induction cs with
  | nil => rfl
  | cons e es ih => simp only [List.map_cons, centersOf, ih]

theorem ratsIncreasing_eq : ∀ (l : List Rat), ratsIncreasing l = strictSorted l
  | [] => rfl
  | [_] => rfl
  | a :: b :: rest => by rw [ratsIncreasing, strictSorted, ratsIncreasing_eq (b :: rest)]

theorem valsIncreasing_fin : ∀ (l : List Rat), strictSorted l = true → valsIncreasing (l.map Val.fin) = true
  | [], _ => rfl
  | [_], _ => rfl
  | a :: b :: rest, h => by
    rw [strictSorted, Bool.and_eq_true] at h
    simp only [List.map_cons, valsIncreasing, Bool.and_eq_true]
    exact ⟨by simpa [Val.lt] using h.1, by simpa using valsIncreasing_fin (b :: rest) h.2⟩

theorem valsIncreasing_ninf (l : List Rat) (h : strictSorted l = true) :
    valsIncreasing (.ninf :: l.map Val.fin) = true := by
  cases l with
  | nil => rfl
  | cons a rest =>
    simp only [List.map_cons, valsIncreasing, Bool.and_eq_true]
    exact ⟨rfl, by simpa using valsIncreasing_fin (a :: rest) h⟩

theorem wrap_layout (pos : Nat) (s : AxisSpec) (v : Agg) (hv : s.valid = true) :
    (wrapKind pos s v).layoutOk (keysOf (wrapKids s v)) = true := by
  cases s with
  | sparse w o =>
    simp only [AxisSpec.valid] at hv
    simp [wrapKind, wrapKids, Kind.layoutOk, keysOf, sortedKeys, hv]
  | bin n l h =>
    simp only [AxisSpec.valid, Bool.and_eq_true, decide_eq_true_eq] at hv
    simp only [wrapKind, wrapKids, Kind.layoutOk, keysOf, Bool.and_eq_true, decide_eq_true_eq,
      List.map_append, List.map_cons, List.map_nil, List.map_map]
    refine ⟨⟨hv.1, hv.2⟩, ?_⟩
    congr 1
  | irregular es =>
    simp only [AxisSpec.valid, Bool.and_eq_true] at hv
    simp only [wrapKind, wrapKids, Kind.layoutOk, keysOf, List.map_cons, List.map_map, Bool.and_eq_true]
    have e : List.map ((fun x : Key × Agg => x.1) ∘ fun e => (Key.thr (Val.fin e), v)) es
        = es.map (fun e => Key.thr (.fin e)) := rfl
    rw [e, thresholdsOf_map]
    refine ⟨⟨?_, valsIncreasing_ninf es hv.2⟩, ?_⟩
    · simp [Key.isThr]
    · simp [Val.isFin]
  | central cs =>
    simp only [AxisSpec.valid, Bool.and_eq_true, decide_eq_true_eq] at hv
    simp only [wrapKind, wrapKids, Kind.layoutOk, keysOf, List.map_cons, List.map_map, Bool.and_eq_true,
      decide_eq_true_eq]
    have e : List.map ((fun x : Key × Agg => x.1) ∘ fun c => (Key.ctr c, v)) cs = cs.map Key.ctr := rfl
    rw [e, centersOf_map, ratsIncreasing_eq]
    refine ⟨⟨?_, ?_⟩, hv.2⟩
    · simp [Key.isCtr]
    · simpa using hv.1
  | categorize => rfl

/-! ### the five structural predicates of `mkTree` -/

theorem singlePathKids_iff : ∀ {l : List (Key × Agg)},
    singlePathKids l = true ↔ ∀ p ∈ l, singlePath p.2 = true
  | [] => by simp [singlePathKids]
  | (k, a) :: r => by
    simp only [singlePathKids, Bool.and_eq_true, List.forall_mem_cons, singlePathKids_iff (l := r)]

/-- the well-formedness bundle of `mkTree_wf`, plus "only the kinds `mkTree` uses" -/
structure WF (v : Agg) : Prop where
  zero : isZeroTree v = true
  good : good v = true
  tmpl : hasTmpl v = true
  nobins : noBins v = true
  single : singlePath v = true
  cnt : Np.allK cntK v = true

theorem WF_countZero : WF countZero := by
  refine ⟨?_, ?_, ?_, ?_, ?_, ?_⟩ <;> decide

theorem WF_wrap (pos : Nat) (s : AxisSpec) (v : Agg) (hs : s.valid = true) (hv : WF v) :
    WF (s.wrap pos v) := by
  have hc := WF_countZero
  have hkids : ∀ p ∈ wrapKids s v, WF p.2 := by
    intro p hp
    rcases wrapKids_mem hp with h | h <;> rw [h] <;> assumption
  have hl := wrapKind_nonleaf pos s v
  rw [wrap_eq]
  refine ⟨?_, ?_, ?_, ?_, ?_, ?_⟩
  · -- zero
    rw [isZeroTree]
    simp only [Bool.and_eq_true, decide_eq_true_eq]
    refine ⟨⟨⟨rfl, (St.zero_nonleaf hl).symm⟩, ?_⟩, P3.isZeroKids_iff.2 (fun p hp => (hkids p hp).zero)⟩
    cases h : wrapTmpl s v with
    | none => rfl
    | some t => rw [wrapTmpl_eq h]; exact hv.zero
  · -- good
    rw [Hg.good_node]
    refine ⟨scalarOk_nonleaf_mk hl (le_refl _), wrap_layout pos s v hs, fun p hp => (hkids p hp).good,
      ?_, ?_, ?_⟩
    · rw [goodTmpl_iff]
      intro t ht
      rw [wrapTmpl_eq ht]
      exact ⟨hv.good, hv.zero⟩
    · intro hsp
      rw [wrapTmpl_sparse pos s v hsp, sameBaseTmpl, P3.sameBaseBins_iff]
      intro p hp hne
      exact absurd (wrapKids_sparse pos hsp hp) hne
    · cases s <;> simp [ctypeOk, wrapKind, wrapTmpl]
  · -- hasTmpl
    rw [hasTmpl]
    simp only [Bool.and_eq_true]
    refine ⟨⟨?_, ?_⟩, P3.hasTmplKids_iff.2 (fun p hp => (hkids p hp).tmpl)⟩
    · by_cases hsp : (wrapKind pos s v).isSparse = true
      · rw [if_pos hsp, wrapTmpl_sparse pos s v hsp]; rfl
      · rw [if_neg hsp]
    · cases h : wrapTmpl s v with
      | none => rfl
      | some t =>
        rw [wrapTmpl_eq h, hasTmplOpt, Bool.and_eq_true]
        exact ⟨hv.tmpl, hv.nobins⟩
  · -- noBins
    rw [noBins]
    simp only [Bool.and_eq_true]
    refine ⟨?_, P3.noBinsKids_iff.2 (fun p hp => (hkids p hp).nobins)⟩
    by_cases hsp : (wrapKind pos s v).isSparse = true
    · rw [if_pos hsp, List.all_eq_true]
      intro p hp
      simpa using wrapKids_sparse pos hsp hp
    · rw [if_neg hsp]
  · -- singlePath
    have h1 : singlePathOpt (wrapTmpl s v) = true := by
      cases h : wrapTmpl s v with
      | none => rfl
      | some t => rw [wrapTmpl_eq h]; exact hv.single
    have h2 : singlePathKids (wrapKids s v) = true :=
      singlePathKids_iff.2 (fun p hp => (hkids p hp).single)
    cases s <;> simp [wrapKind, singlePath, h1, h2]
  · -- kinds
    rw [Np.allK_node]
    refine ⟨wrapKind_cntK pos s v, ?_, fun p hp => (hkids p hp).cnt⟩
    intro t ht
    rw [wrapTmpl_eq ht]; exact hv.cnt

theorem WF_mkTree : ∀ (axes : List (Nat × AxisSpec)), axesValid axes = true → WF (mkTree axes)
  | [], _ => WF_countZero
  | (pos, s) :: rest, h => by
    rw [axesValid, List.all_cons, Bool.and_eq_true] at h
    exact WF_wrap pos s _ h.1 (WF_mkTree rest h.2)

/-- only the kinds `mkTree` uses occur (no validity needed) -/
theorem cnt_mkTree : ∀ (axes : List (Nat × AxisSpec)), Np.allK cntK (mkTree axes) = true
  | [] => by decide
  | (pos, s) :: rest => by
    have ih := cnt_mkTree rest
    show Np.allK cntK (s.wrap pos (mkTree rest)) = true
    rw [wrap_eq, Np.allK_node]
    refine ⟨wrapKind_cntK pos s _, ?_, ?_⟩
    · intro t ht; rw [wrapTmpl_eq ht]; exact ih
    · intro p hp
      rcases wrapKids_mem hp with h | h <;> rw [h]
      · decide
      · exact ih

/-- a tree of `mkTree` kinds has no `Sum` -/
theorem noNan_of_cnt (rows : List Datum) (t : Agg) (h : Np.allK cntK t = true) :
    noNanForSums t rows = true := by
  rw [Np.noNan_eq_allK]
  revert h
  refine P3.Agg.ind_a (P := fun t => Np.allK cntK t = true → Np.allK (Np.nanK rows) t = true) ?_ t
  intro k e st tmpl kids iht ihk h
  rw [Np.allK_node] at h ⊢
  refine ⟨?_, fun t ht => iht t ht (h.2.1 t ht), fun p hp => ihk p hp (h.2.2 p hp)⟩
  have := h.1
  cases k <;> simp [cntK] at this <;> rfl

end Hg.Frame
