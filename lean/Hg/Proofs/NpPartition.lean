/-
  Hg.Proofs.NpPartition — partition invariance with vectorised chunk fills (C01 with C03): every chunk of a
  partition is filled into an empty copy of the tree with ONE vectorised fill (its own weight vector), the partial
  results are combined with `+` in any order and grouping; the result is the record-by-record fill of the whole
  dataset, up to zero-weight sparse bins.  Generalises `Hg.chunks_add_up` (Hg.Proofs.FrameLaws), which is the
  special case of the trees the dataframe interface builds, filled with unit weights.
-/
import Hg.Proofs.FrameLaws
import Hg.Props.Examples

namespace Hg

open Np (Zrel)

/-- a chunk: its records and its weight vector -/
abbrev NpChunk := List Datum × List Val

def NpChunk.stream (c : NpChunk) : List (Datum × Val) := c.1.zip c.2

/-- the vectorised fill of every chunk succeeds and is the row-wise state up to zero-weight bins
(`Hg.Frame.mapM_Zrel` for chunks of any type) -/
theorem mapM_Zrel_gen {α : Type} {f : α → Option Agg} {g : α → Agg} :
    ∀ (chunks : List α), (∀ c ∈ chunks, ∃ a, f c = some a ∧ Zrel a (g c)) →
      ∃ parts, chunks.mapM f = some parts ∧ parts.length = chunks.length ∧
        ∀ i (hi : i < chunks.length), ∃ a, parts[i]? = some a ∧ Zrel a (g chunks[i])
  | [], _ => ⟨[], rfl, rfl, fun i hi => absurd hi (Nat.not_lt_zero _)⟩
  | c :: cs, h => by
    obtain ⟨a, ha, hZ⟩ := h c (List.mem_cons_self ..)
    obtain ⟨parts, hp, hlen, hi⟩ := mapM_Zrel_gen cs (fun x hx => h x (List.mem_cons_of_mem _ hx))
    refine ⟨a :: parts, ?_, by simp [hlen], ?_⟩
    · rw [List.mapM_cons, ha, hp]; rfl
    · intro i hlt
      cases i with
      | zero => exact ⟨a, rfl, hZ⟩
      | succ i =>
        simp only [List.length_cons, Nat.add_lt_add_iff_right] at hlt
        obtain ⟨a', h1, h2⟩ := hi i hlt
        exact ⟨a', by simpa using h1, by simpa using h2⟩

theorem np_partition_invariant (z : Agg) (chunks : List NpChunk) (σ : Sched)
    (hz : isZeroTree z = true) (hg : good z = true) (ht : hasTmpl z = true) (hn : noBins z = true)
    (hc : ∀ c ∈ chunks, c.1.length = c.2.length ∧ nonNegW c.2 = true ∧ goodRun z c.stream = true ∧
        noNanForSums z c.1 = true ∧ qtysOk z c.1 = true)
    (hrun : goodRun z (chunks.map NpChunk.stream).flatten = true)
    (hσ : σ.leaves.Perm (List.range chunks.length)) :
    ∃ parts, chunks.mapM (fun c => fillNp z c.1 c.2) = some parts ∧
      (reduce parts σ).map prune = some (prune (fillAll z (chunks.map NpChunk.stream).flatten)) := by
  -- every vectorised fill
  have hnp : ∀ c ∈ chunks, ∃ a, fillNp z c.1 c.2 = some a ∧ Zrel a (fillAll z c.stream) := by
    intro c hcm
    obtain ⟨h1, h2, h3, h4, h5⟩ := hc c hcm
    exact Np.main_all z c.1 c.2 h1 h2 h3 ht h4 h5
  obtain ⟨parts, hparts, hlen, hpi⟩ := mapM_Zrel_gen (f := fun c : NpChunk => fillNp z c.1 c.2)
    (g := fun c => fillAll z c.stream) chunks hnp
  refine ⟨parts, hparts, ?_⟩
  -- the row-wise side
  set zc : List (List (Datum × Val)) := chunks.map NpChunk.stream with hzc
  have hruns : ∀ c ∈ zc, goodRun z c = true := by
    intro c hcm
    rw [hzc, List.mem_map] at hcm
    obtain ⟨c0, hc0, rfl⟩ := hcm
    exact (hc c0 hc0).2.2.1
  have hzlen : zc.length = chunks.length := by rw [hzc, List.length_map]
  -- along the schedule
  have key : ∀ τ : Sched, (∀ i ∈ τ.leaves, i < chunks.length) →
      ∃ X, reduce parts τ = some X ∧
        Zrel X (fillAll z (τ.leaves.map (fun i => zc.getD i [])).flatten) := by
    intro τ
    induction τ with
    | leaf i =>
      intro hτ
      have hi : i < chunks.length := hτ i (by simp [Sched.leaves])
      obtain ⟨a, ha1, ha2⟩ := hpi i hi
      refine ⟨a, ha1, ?_⟩
      have e : zc.getD i [] = chunks[i].stream := by
        simp [hzc, hi]
      simp only [Sched.leaves, List.map_cons, List.map_nil, List.flatten_cons, List.flatten_nil,
        List.append_nil]
      rw [e]
      exact ha2
    | node l r ihl ihr =>
      intro hτ
      have hl : ∀ i ∈ l.leaves, i < chunks.length :=
        fun i hi => hτ i (by simp [Sched.leaves, hi])
      have hr : ∀ i ∈ r.leaves, i < chunks.length :=
        fun i hi => hτ i (by simp [Sched.leaves, hi])
      obtain ⟨Xl, hXl, hZl⟩ := ihl hl
      obtain ⟨Xr, hXr, hZr⟩ := ihr hr
      obtain ⟨_, gl⟩ := reduce_eq z zc l hz ht hn hg hruns (fun i hi => hzlen ▸ hl i hi)
      obtain ⟨_, gr⟩ := reduce_eq z zc r hz ht hn hg hruns (fun i hi => hzlen ▸ hr i hi)
      have hrl := goodRun_flatten z _ hz ht hn hg gl
      have hrr := goodRun_flatten z _ hz ht hn hg gr
      have gYl := good_fillAll _ _ hrl
      have gYr := good_fillAll _ _ hrr
      have tYl := hasTmpl_fillAll z (l.leaves.map (fun i => zc.getD i [])).flatten ht
      have tYr := hasTmpl_fillAll z (r.leaves.map (fun i => zc.getD i [])).flatten ht
      have sYl := sameBase_fillAll _ _ hrl
      have sYr := sameBase_fillAll _ _ hrr
      have sY := sameBase_trans _ _ _ gYl hg gYr (sameBase_symm _ _ hg gYl sYl) sYr
      obtain ⟨hadd, hZ⟩ := Frame.add_Zrel hZl hZr gYl gYr tYl tYr sY
      have happ := fillAll_append z _ _ hz ht hn hrl hrr
      rw [add_eq_some_addRaw _ _ gYl gYr tYl tYr sY] at happ
      refine ⟨addRaw Xl Xr, ?_, ?_⟩
      · simp only [reduce, hXl, hXr, Option.bind_some]
        exact hadd
      · simp only [Sched.leaves, List.map_append, List.flatten_append]
        rw [← Option.some.inj happ]
        exact hZ
  have hlt : ∀ i ∈ σ.leaves, i < chunks.length :=
    fun i hi => List.mem_range.1 (hσ.mem_iff.1 hi)
  obtain ⟨X, hX, hZX⟩ := key σ hlt
  -- the leaves of `σ` cover every chunk once
  have hσ' : σ.leaves.Perm (List.range zc.length) := by rw [hzlen]; exact hσ
  have hpi' := partition_invariant z zc σ hz ht hn hruns hrun hσ'
  obtain ⟨hre, _⟩ := reduce_eq z zc σ hz ht hn hg hruns (fun i hi => hzlen ▸ hlt i hi)
  rw [hre] at hpi'
  rw [Option.some.inj hpi'] at hZX
  rw [hX, Option.map_some, hZX.prune_eq]

/-! ### non-vacuity: the hypotheses hold together and the conclusion is observed by evaluation

`Branch(SparselyBin(Average), Bin)` of `Hg.Props.Examples`, three chunks (the middle one empty) with their own weight
vectors (weights 1, 2 and 1, 1/2), combined as `p2 + (p0 + p1)`.  `good` and `goodRun` go through a well-founded
recursion the kernel does not unfold, so this is `#guard` (the interpreter evaluates the same definitions): a
sanity check that the theorem is not vacuous, not a theorem. -/

namespace NpPartitionEx

def chunks : List NpChunk :=
  [(Ex.s1.map (·.1), Ex.s1.map (·.2)), ([], []), (Ex.s2.map (·.1), Ex.s2.map (·.2))]

def sched : Sched := .node (.leaf 2) (.node (.leaf 0) (.leaf 1))

/-- the streams are the example streams again (so no row is lost by `zip`) -/
example : chunks.map NpChunk.stream = [Ex.s1, [], Ex.s2] := rfl

example : sched.leaves.Perm (List.range chunks.length) := by decide

-- the hypotheses on the tree
#guard isZeroTree Ex.z && good Ex.z && hasTmpl Ex.z && noBins Ex.z
-- the five hypotheses on every chunk
#guard chunks.all (fun c => decide (c.1.length = c.2.length) && nonNegW c.2 && goodRun Ex.z c.stream &&
  noNanForSums Ex.z c.1 && qtysOk Ex.z c.1)
-- the whole stream
#guard goodRun Ex.z (chunks.map NpChunk.stream).flatten
-- the conclusion: every vectorised fill succeeds and the combination is the row-wise fill of the whole
#guard (chunks.mapM (fun c => fillNp Ex.z c.1 c.2)).isSome
#guard ((chunks.mapM (fun c => fillNp Ex.z c.1 c.2)).bind (fun parts => (reduce parts sched).map prune))
  == some (prune (fillAll Ex.z (chunks.map NpChunk.stream).flatten))
-- the check is not trivial: the whole is not the empty tree and has the four weights (1 + 2 + 1 + 1/2) in `entries`
-- (on this example the results are even equal before `prune`; `prune` only matters when a sparse bin gets weight 0)
#guard prune (fillAll Ex.z (chunks.map NpChunk.stream).flatten) != prune Ex.z
#guard (fillAll Ex.z (chunks.map NpChunk.stream).flatten).entries == .fin (9/2)
#guard ((chunks.mapM (fun c => fillNp Ex.z c.1 c.2)).bind (fun parts => reduce parts sched))
  == some (fillAll Ex.z (chunks.map NpChunk.stream).flatten)

end NpPartitionEx

end Hg
