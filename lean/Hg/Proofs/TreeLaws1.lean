/-
  Hg.Proofs.TreeLaws1 — merge/fill algebra on whole aggregator trees (behind C01, C02).

  Hypotheses are the executable predicates of Hg.Model.WF (`good`, `sameBase`, `isZeroTree`,
  `goodRun`), which the correspondence run evaluates on every state of the real library.
-/
import Hg.Model.WF
import Hg.Model.Live
import Hg.Proofs.LeafLaws
import Hg.Proofs.TreeBasics
import Hg.Proofs.UnionKids
import Hg.Proofs.FillBasics

namespace Hg

/-! ### zero is a two-sided identity -/

theorem zero_nonsparse {k : Kind} (hk : k.isSparse = false) (e : Val) (st : St) (tmpl : Option Agg)
    (kids : List (Key × Agg)) :
    zero (.node k e st tmpl kids) = .node k 0 (St.zero k) tmpl (zeroKids kids) := by
  cases k <;> simp_all [zero, Kind.isSparse]

theorem zero_sparse_kind (q : Qty) (w o : Rat) (c : String) (n : Option String) (e : Val) (st : St)
    (tmpl : Option Agg) (a0 : Agg) (r : List (Key × Agg)) (hr : ∀ p ∈ r, p.1 ≠ .nanflow) :
    zero (.node (.sparse q w o c n) e st tmpl ((.nanflow, a0) :: r))
      = .node (.sparse q w o c n) 0 .unit tmpl [(.nanflow, zero a0)] := by
  simp [zero, zeroFlows, zeroFlows_noNan r hr, St.zero]

theorem zero_cat_kind (q : Qty) (c : String) (n : Option String) (e : Val) (st : St)
    (tmpl : Option Agg) (kids : List (Key × Agg)) :
    zero (.node (.categorize q c n) e st tmpl kids) = .node (.categorize q c n) 0 .unit tmpl [] := by
  simp [zero, St.zero]

theorem isZeroTree_node (k : Kind) (e : Val) (st : St) (tmpl : Option Agg) (kids : List (Key × Agg)) :
    isZeroTree (.node k e st tmpl kids) = true ↔
      e = .fin 0 ∧ st = St.zero k ∧ (∀ t, tmpl = some t → isZeroTree t = true) ∧
      (∀ p ∈ kids, isZeroTree p.2 = true) := by
  simp only [isZeroTree, Bool.and_eq_true, decide_eq_true_eq, isZeroKids_iff, and_assoc]
  have h1 : e.isZero = true ↔ e = .fin 0 := by
    cases e <;> simp [Val.isZero]
  have h2 : isZeroTmpl tmpl = true ↔ ∀ t, tmpl = some t → isZeroTree t = true := by
    cases tmpl <;> simp [isZeroTmpl]
  rw [h1, h2]

theorem sameBase_node (k1 : Kind) (e1 : Val) (s1 : St) (t1 : Option Agg) (kids1 : List (Key × Agg))
    (k2 : Kind) (e2 : Val) (s2 : St) (t2 : Option Agg) (kids2 : List (Key × Agg)) :
    sameBase (.node k1 e1 s1 t1 kids1) (.node k2 e2 s2 t2 kids2) = true ↔
      k1 = k2 ∧ t1 = t2 ∧
      (k1.isSparse = true → sameBaseFlow kids1 kids2 = true ∧ sameBaseTmpl t1 kids1 = true ∧ sameBaseTmpl t1 kids2 = true) ∧
      (k1.isSparse = false → sameBaseZip kids1 kids2 = true) := by
  simp only [sameBase, Bool.and_eq_true, decide_eq_true_eq, and_assoc]
  cases k1.isSparse <;> simp [and_assoc]

theorem sameBaseZip_zeroKids (kids : List (Key × Agg)) (h : ∀ p ∈ kids, sameBase p.2 (zero p.2) = true) :
    sameBaseZip kids (zeroKids kids) = true := by
  induction kids with
  | nil => simp [zeroKids, sameBaseZip]
  | cons p r ih =>
    obtain ⟨k, a⟩ := p
    simp only [zeroKids, sameBaseZip, Bool.and_eq_true, decide_eq_true_eq, true_and]
    exact ⟨h (k, a) (by simp), ih (fun p hp => h p (by simp [hp]))⟩

theorem good_zero (t : Agg) (h : good t = true) :
    good (zero t) = true ∧ isZeroTree (zero t) = true ∧ sameBase t (zero t) = true := by
  induction t using Agg.ind with
  | h k e st tmpl kids iht ihk =>
    rw [good_node] at h
    obtain ⟨hsc, hlay, hkids, htm, hsb, hct⟩ := h
    have htz := (goodTmpl_iff tmpl).1 htm
    cases hsp : k.isSparse with
    | false =>
      rw [zero_nonsparse hsp]
      have hk' : ∀ p ∈ kids, good (zero p.2) = true ∧ isZeroTree (zero p.2) = true ∧
          sameBase p.2 (zero p.2) = true := fun p hp => ihk p hp (hkids p hp)
      refine ⟨?_, ?_, ?_⟩
      · rw [good_node]
        refine ⟨?_, by rw [keysOf_zeroKids]; exact hlay, ?_, htm, by simp [hsp], hct⟩
        · cases hl : k.isLeaf with
          | true => simp only [scalarOk, hl, if_true]; exact leafGood_zero k hl
          | false => rw [St.zero_nonleaf hl]; exact scalarOk_nonleaf_mk hl (by decide)
        · intro p hp
          rw [zeroKids_eq_map] at hp
          obtain ⟨p', hp', rfl⟩ := List.mem_map.1 hp
          exact (hk' p' hp').1
      · rw [isZeroTree_node]
        refine ⟨rfl, rfl, fun t ht => (htz t ht).2, ?_⟩
        intro p hp
        rw [zeroKids_eq_map] at hp
        obtain ⟨p', hp', rfl⟩ := List.mem_map.1 hp
        exact (hk' p' hp').2.1
      · rw [sameBase_node]
        refine ⟨rfl, rfl, by simp [hsp], fun _ => ?_⟩
        exact sameBaseZip_zeroKids kids (fun p hp => (hk' p hp).2.2)
    | true =>
      have hsb' := hsb hsp
      rcases Kind.sparse_cases hsp with ⟨q, w, o, c, n, rfl⟩ | ⟨q, c, n, rfl⟩
      · obtain ⟨hw, a0, r, rfl, hidx, hsorted⟩ := layout_sparse hlay
        have hr : ∀ p ∈ r, p.1 ≠ .nanflow := fun p hp => Key.ne_nan_of_isIdx (hidx p hp)
        rw [zero_sparse_kind _ _ _ _ _ _ _ _ _ _ hr]
        obtain ⟨g0, z0, sb0⟩ := ihk (.nanflow, a0) (by simp) (hkids _ (by simp))
        refine ⟨?_, ?_, ?_⟩
        · rw [good_node]
          refine ⟨scalarOk_nonleaf_mk rfl (by decide), ?_, ?_, htm, ?_, hct⟩
          · simp [Kind.layoutOk, keysOf, hw, sortedKeys]
          · simpa using g0
          · intro _
            rw [sameBaseTmpl_iff]; intro tm _ p hp hne
            simp at hp; subst hp; simp at hne
        · rw [isZeroTree_node]
          refine ⟨rfl, rfl, fun t ht => (htz t ht).2, ?_⟩
          simpa using z0
        · rw [sameBase_node]
          refine ⟨rfl, rfl, fun _ => ⟨?_, hsb', ?_⟩, by simp [Kind.isSparse]⟩
          · rw [sameBaseFlow_iff]
            intro p hp hpn
            simp at hp
            rcases hp with rfl | hp
            · exact ⟨zero a0, by simp [lookupK], sb0⟩
            · exact absurd hpn (hr p hp)
          · rw [sameBaseTmpl_iff]; intro tm _ p hp hne
            simp at hp; subst hp; simp at hne
      · obtain ⟨hcat, hsorted⟩ := layout_cat hlay
        have hr : ∀ p ∈ kids, p.1 ≠ .nanflow := fun p hp => Key.ne_nan_of_isCat (hcat p hp)
        rw [zero_cat_kind]
        refine ⟨?_, ?_, ?_⟩
        · rw [good_node]
          refine ⟨scalarOk_nonleaf_mk rfl (by decide), ?_, by simp, htm, ?_, hct⟩
          · simp [Kind.layoutOk, keysOf, sortedKeys]
          · intro _
            rw [sameBaseTmpl_iff]; intro tm _ p hp; simp at hp
        · rw [isZeroTree_node]
          exact ⟨rfl, rfl, fun t ht => (htz t ht).2, by simp⟩
        · rw [sameBase_node]
          refine ⟨rfl, rfl, fun _ => ⟨?_, hsb', ?_⟩, by simp [Kind.isSparse]⟩
          · rw [sameBaseFlow_iff]
            intro p hp hpn
            exact absurd hpn (hr p hp)
          · rw [sameBaseTmpl_iff]; intro tm _ p hp; simp at hp

/-! ### the two extra executable hypotheses of Hg.Model.Live -/

theorem hasTmplKids_iff (l : List (Key × Agg)) : hasTmplKids l = true ↔ ∀ p ∈ l, hasTmpl p.2 = true := by
  induction l with
  | nil => simp [hasTmplKids]
  | cons p r ih => obtain ⟨k, a⟩ := p; simp [hasTmplKids, ih]

theorem noBinsKids_iff (l : List (Key × Agg)) : noBinsKids l = true ↔ ∀ p ∈ l, noBins p.2 = true := by
  induction l with
  | nil => simp [noBinsKids]
  | cons p r ih => obtain ⟨k, a⟩ := p; simp [noBinsKids, ih]

theorem hasTmpl_node (k : Kind) (e : Val) (st : St) (tmpl : Option Agg) (kids : List (Key × Agg)) :
    hasTmpl (.node k e st tmpl kids) = true ↔
      (k.isSparse = true → ∃ t, tmpl = some t) ∧
      (∀ t, tmpl = some t → hasTmpl t = true ∧ noBins t = true) ∧
      (∀ p ∈ kids, hasTmpl p.2 = true) := by
  simp only [hasTmpl, Bool.and_eq_true, hasTmplKids_iff, and_assoc]
  have h2 : hasTmplOpt tmpl = true ↔ ∀ t, tmpl = some t → hasTmpl t = true ∧ noBins t = true := by
    cases tmpl <;> simp [hasTmplOpt]
  rw [h2]
  cases k.isSparse <;> cases tmpl <;> simp

theorem noBins_node (k : Kind) (e : Val) (st : St) (tmpl : Option Agg) (kids : List (Key × Agg)) :
    noBins (.node k e st tmpl kids) = true ↔
      (k.isSparse = true → ∀ p ∈ kids, p.1 = .nanflow) ∧ (∀ p ∈ kids, noBins p.2 = true) := by
  simp only [noBins, Bool.and_eq_true, noBinsKids_iff]
  cases k.isSparse <;> simp

theorem zero_sparse_gen (q : Qty) (w o : Rat) (c : String) (n : Option String) (e : Val) (st : St)
    (tmpl : Option Agg) (kids : List (Key × Agg)) :
    zero (.node (.sparse q w o c n) e st tmpl kids)
      = .node (.sparse q w o c n) 0 .unit tmpl (zeroFlows kids) := by
  simp [zero, St.zero]

theorem mem_zeroFlows {l : List (Key × Agg)} {p : Key × Agg} (h : p ∈ zeroFlows l) :
    ∃ a, (Key.nanflow, a) ∈ l ∧ p = (.nanflow, zero a) := by
  induction l with
  | nil => simp [zeroFlows] at h
  | cons p' r ih =>
    obtain ⟨k, a⟩ := p'
    by_cases hk : k = .nanflow
    · subst hk
      simp only [zeroFlows, if_true, List.mem_cons] at h
      rcases h with rfl | h
      · exact ⟨a, by simp, rfl⟩
      · obtain ⟨a', h1, h2⟩ := ih h
        exact ⟨a', by simp [h1], h2⟩
    · simp only [zeroFlows, hk, if_false] at h
      obtain ⟨a', h1, h2⟩ := ih h
      exact ⟨a', by simp [h1], h2⟩

theorem mem_zeroKids {l : List (Key × Agg)} {p : Key × Agg} (h : p ∈ zeroKids l) :
    ∃ p' ∈ l, p = (p'.1, zero p'.2) := by
  rw [zeroKids_eq_map] at h
  obtain ⟨p', hp', rfl⟩ := List.mem_map.1 h
  exact ⟨p', hp', rfl⟩

theorem noBins_zero (t : Agg) : noBins (zero t) = true := by
  induction t using Agg.ind with
  | h k e st tmpl kids iht ihk =>
    cases hsp : k.isSparse with
    | false =>
      rw [zero_nonsparse hsp, noBins_node]
      refine ⟨by simp [hsp], fun p hp => ?_⟩
      obtain ⟨p', hp', rfl⟩ := mem_zeroKids hp
      exact ihk p' hp'
    | true =>
      rcases Kind.sparse_cases hsp with ⟨q, w, o, c, n, rfl⟩ | ⟨q, c, n, rfl⟩
      · rw [zero_sparse_gen, noBins_node]
        refine ⟨fun _ p hp => ?_, fun p hp => ?_⟩
        · obtain ⟨a, _, rfl⟩ := mem_zeroFlows hp; rfl
        · obtain ⟨a, ha, rfl⟩ := mem_zeroFlows hp; exact ihk _ ha
      · rw [zero_cat_kind, noBins_node]; simp

theorem hasTmpl_zero (t : Agg) (h : hasTmpl t = true) : hasTmpl (zero t) = true := by
  induction t using Agg.ind with
  | h k e st tmpl kids iht ihk =>
    rw [hasTmpl_node] at h
    obtain ⟨h1, h2, h3⟩ := h
    cases hsp : k.isSparse with
    | false =>
      rw [zero_nonsparse hsp, hasTmpl_node]
      refine ⟨h1, h2, fun p hp => ?_⟩
      obtain ⟨p', hp', rfl⟩ := mem_zeroKids hp
      exact ihk p' hp' (h3 p' hp')
    | true =>
      rcases Kind.sparse_cases hsp with ⟨q, w, o, c, n, rfl⟩ | ⟨q, c, n, rfl⟩
      · rw [zero_sparse_gen, hasTmpl_node]
        refine ⟨h1, h2, fun p hp => ?_⟩
        obtain ⟨a, ha, rfl⟩ := mem_zeroFlows hp; exact ihk _ ha (h3 _ ha)
      · rw [zero_cat_kind, hasTmpl_node]; exact ⟨h1, h2, by simp⟩

theorem zeroKids_id (kids : List (Key × Agg)) (h : ∀ p ∈ kids, zero p.2 = p.2) : zeroKids kids = kids := by
  induction kids with
  | nil => simp [zeroKids]
  | cons p r ih =>
    obtain ⟨k, a⟩ := p
    simp only [zeroKids]
    rw [h (k, a) (by simp), ih (fun p hp => h p (by simp [hp]))]

/-- an empty tree without bins is its own `zero`.
(The original statement, without `hn`, is false: `isZeroTree` admits sparse nodes holding empty
bins, which `zero` drops.) -/
theorem zero_of_isZeroTree (z : Agg) (hg : good z = true) (hz : isZeroTree z = true)
    (hn : noBins z = true) : zero z = z := by
  induction z using Agg.ind with
  | h k e st tmpl kids iht ihk =>
    rw [good_node] at hg
    obtain ⟨hsc, hlay, hkids, htm, hsb, hct⟩ := hg
    rw [isZeroTree_node] at hz
    obtain ⟨rfl, rfl, _, hzk⟩ := hz
    rw [noBins_node] at hn
    obtain ⟨hn1, hn2⟩ := hn
    have hk' : ∀ p ∈ kids, zero p.2 = p.2 := fun p hp => ihk p hp (hkids p hp) (hzk p hp) (hn2 p hp)
    cases hsp : k.isSparse with
    | false => rw [zero_nonsparse hsp, zeroKids_id kids hk']; rfl
    | true =>
      rcases Kind.sparse_cases hsp with ⟨q, w, o, c, n, rfl⟩ | ⟨q, c, n, rfl⟩
      · obtain ⟨hw, a0, r, rfl, hidx, hsorted⟩ := layout_sparse hlay
        have hr : ∀ p ∈ r, p.1 ≠ .nanflow := fun p hp => Key.ne_nan_of_isIdx (hidx p hp)
        have : r = [] := by
          cases r with
          | nil => rfl
          | cons p r' => exact absurd (hn1 hsp p (by simp)) (hr p (by simp))
        subst this
        rw [zero_sparse_kind _ _ _ _ _ _ _ _ _ _ hr, hk' (.nanflow, a0) (by simp)]; rfl
      · obtain ⟨hcat, hsorted⟩ := layout_cat hlay
        have : kids = [] := by
          cases kids with
          | nil => rfl
          | cons p r' => exact absurd (hn1 hsp p (by simp)) (Key.ne_nan_of_isCat (hcat p (by simp)))
        subst this
        rw [zero_cat_kind]; rfl

/-! ### sameBase is an equivalence on good trees, and implies mergeability -/

theorem nanUniq_of_layout {k : Kind} {kids : List (Key × Agg)} (hk : k.isSparse = true)
    (h : k.layoutOk (keysOf kids) = true) :
    ∀ p ∈ kids, p.1 = .nanflow → lookupK .nanflow kids = some p.2 := by
  intro p hp hpn
  rcases layout_isSparse hk h with ⟨a0, r, rfl, hr⟩ | hr
  · simp only [List.mem_cons] at hp
    rcases hp with rfl | hp
    · simp [lookupK]
    · exact absurd hpn (hr p hp)
  · exact absurd hpn (hr p hp)

theorem hasNan_of_layout {k : Kind} {kids1 kids2 : List (Key × Agg)} (hk : k.isSparse = true)
    (h1 : k.layoutOk (keysOf kids1) = true) (h2 : k.layoutOk (keysOf kids2) = true)
    {x : Agg} (hx : lookupK .nanflow kids1 = some x) : ∃ y, lookupK .nanflow kids2 = some y := by
  rcases Kind.sparse_cases hk with ⟨q, w, o, c, n, rfl⟩ | ⟨q, c, n, rfl⟩
  · obtain ⟨_, b0, r, rfl, _, _⟩ := layout_sparse h2
    exact ⟨b0, by simp [lookupK]⟩
  · have := lookupK_mem hx
    exact absurd rfl (Key.ne_nan_of_isCat ((layout_cat h1).1 _ this))

theorem sameBaseZip_self (kids : List (Key × Agg)) (h : ∀ p ∈ kids, sameBase p.2 p.2 = true) :
    sameBaseZip kids kids = true := by
  induction kids with
  | nil => simp [sameBaseZip]
  | cons p r ih =>
    obtain ⟨k, a⟩ := p
    simp only [sameBaseZip, Bool.and_eq_true, decide_eq_true_eq, true_and]
    exact ⟨h (k, a) (by simp), ih (fun p hp => h p (by simp [hp]))⟩

theorem sameBase_refl (a : Agg) (ha : good a = true) : sameBase a a = true := by
  induction a using Agg.ind with
  | h k e st tmpl kids iht ihk =>
    rw [good_node] at ha
    obtain ⟨hsc, hlay, hkids, htm, hsb, hct⟩ := ha
    rw [sameBase_node]
    refine ⟨rfl, rfl, fun hsp => ⟨?_, hsb hsp, hsb hsp⟩, fun _ => ?_⟩
    · rw [sameBaseFlow_iff]
      intro p hp hpn
      exact ⟨p.2, nanUniq_of_layout hsp hlay p hp hpn, ihk p hp (hkids p hp)⟩
    · exact sameBaseZip_self kids (fun p hp => ihk p hp (hkids p hp))

theorem sameBaseZip_symm (l1 l2 : List (Key × Agg))
    (ih : ∀ p ∈ l1, ∀ b, good p.2 = true → good b = true → sameBase p.2 b = true → sameBase b p.2 = true)
    (h1 : ∀ p ∈ l1, good p.2 = true) (h2 : ∀ p ∈ l2, good p.2 = true)
    (h : sameBaseZip l1 l2 = true) : sameBaseZip l2 l1 = true := by
  induction l1 generalizing l2 with
  | nil => cases l2 <;> simp_all [sameBaseZip]
  | cons p r ihr =>
    obtain ⟨k, a⟩ := p
    cases l2 with
    | nil => simp [sameBaseZip] at h
    | cons p2 r2 =>
      obtain ⟨k2, b⟩ := p2
      simp only [sameBaseZip, Bool.and_eq_true, decide_eq_true_eq] at h ⊢
      obtain ⟨⟨hk, hab⟩, hr⟩ := h
      refine ⟨⟨hk.symm, ih (k, a) (by simp) b (h1 (k, a) (by simp)) (h2 (k2, b) (by simp)) hab⟩, ?_⟩
      exact ihr r2 (fun p hp => ih p (by simp [hp])) (fun p hp => h1 p (by simp [hp]))
        (fun p hp => h2 p (by simp [hp])) hr

theorem sameBase_symm (a b : Agg) (ha : good a = true) (hb : good b = true)
    (h : sameBase a b = true) : sameBase b a = true := by
  induction a using Agg.ind generalizing b with
  | h k e st tmpl kids iht ihk =>
    obtain ⟨k2, e2, st2, tmpl2, kids2⟩ := b
    rw [good_node] at ha hb
    obtain ⟨hsc, hlay, hkids, htm, hsb, hct⟩ := ha
    obtain ⟨hsc2, hlay2, hkids2, htm2, hsb2, hct2⟩ := hb
    rw [sameBase_node] at h
    obtain ⟨rfl, rfl, hS, hZ⟩ := h
    rw [sameBase_node]
    refine ⟨rfl, rfl, fun hsp => ?_, fun hsp => ?_⟩
    · obtain ⟨hf, ht1, ht2⟩ := hS hsp
      refine ⟨?_, ht2, ht1⟩
      rw [sameBaseFlow_iff] at hf ⊢
      intro p hp hpn
      have hlp := nanUniq_of_layout hsp hlay2 p hp hpn
      obtain ⟨x, hx⟩ := hasNan_of_layout hsp hlay2 hlay hlp
      have hxm := lookupK_mem hx
      obtain ⟨y, hy, hxy⟩ := hf _ hxm rfl
      rw [hlp] at hy
      cases hy
      exact ⟨x, hx, ihk _ hxm p.2 (hkids _ hxm) (hkids2 p hp) hxy⟩
    · exact sameBaseZip_symm kids kids2 (fun p hp b' => ihk p hp b') hkids hkids2 (hZ hsp)

theorem sameBaseZip_trans (l1 l2 l3 : List (Key × Agg))
    (ih : ∀ p ∈ l1, ∀ b c, sameBase p.2 b = true → sameBase b c = true → sameBase p.2 c = true)
    (h12 : sameBaseZip l1 l2 = true) (h23 : sameBaseZip l2 l3 = true) : sameBaseZip l1 l3 = true := by
  induction l1 generalizing l2 l3 with
  | nil => cases l2 <;> cases l3 <;> simp_all [sameBaseZip]
  | cons p r ihr =>
    obtain ⟨k, a⟩ := p
    cases l2 with
    | nil => simp [sameBaseZip] at h12
    | cons p2 r2 =>
      obtain ⟨k2, b⟩ := p2
      cases l3 with
      | nil => simp [sameBaseZip] at h23
      | cons p3 r3 =>
        obtain ⟨k3, c⟩ := p3
        simp only [sameBaseZip, Bool.and_eq_true, decide_eq_true_eq] at h12 h23 ⊢
        obtain ⟨⟨hk, hab⟩, hr⟩ := h12
        obtain ⟨⟨hk', hbc⟩, hr'⟩ := h23
        exact ⟨⟨hk.trans hk', ih (k, a) (by simp) b c hab hbc⟩,
          ihr r2 r3 (fun p hp => ih p (by simp [hp])) hr hr'⟩

/-- transitivity of `sameBase` needs no well-formedness at all -/
theorem sameBase_trans' (a b c : Agg) (h1 : sameBase a b = true) (h2 : sameBase b c = true) :
    sameBase a c = true := by
  induction a using Agg.ind generalizing b c with
  | h k e st tmpl kids iht ihk =>
    obtain ⟨k2, e2, st2, tmpl2, kids2⟩ := b
    obtain ⟨k3, e3, st3, tmpl3, kids3⟩ := c
    rw [sameBase_node] at h1 h2
    obtain ⟨rfl, rfl, hS, hZ⟩ := h1
    obtain ⟨rfl, rfl, hS', hZ'⟩ := h2
    rw [sameBase_node]
    refine ⟨rfl, rfl, fun hsp => ?_, fun hsp => ?_⟩
    · obtain ⟨hf, ht1, ht2⟩ := hS hsp
      obtain ⟨hf', ht1', ht2'⟩ := hS' hsp
      refine ⟨?_, ht1, ht2'⟩
      rw [sameBaseFlow_iff] at hf hf' ⊢
      intro p hp hpn
      obtain ⟨y, hy, hpy⟩ := hf p hp hpn
      obtain ⟨z, hz, hyz⟩ := hf' _ (lookupK_mem hy) rfl
      exact ⟨z, hz, ihk p hp y z hpy hyz⟩
    · exact sameBaseZip_trans kids kids2 kids3 (fun p hp => ihk p hp) (hZ hsp) (hZ' hsp)

theorem sameBase_trans (a b c : Agg) (ha : good a = true) (hb : good b = true) (hc : good c = true)
    (h1 : sameBase a b = true) (h2 : sameBase b c = true) : sameBase a c = true :=
  sameBase_trans' a b c h1 h2

/-- the representative `_checkContentCompatible` uses: the template, else the first bin -/
def rep (t : Option Agg) (kids : List (Key × Agg)) : Option Agg :=
  match t with
  | some t => some t
  | none => firstBin kids

theorem compat_node (k1 : Kind) (e1 : Val) (s1 : St) (t1 : Option Agg) (kids1 : List (Key × Agg))
    (k2 : Kind) (e2 : Val) (s2 : St) (t2 : Option Agg) (kids2 : List (Key × Agg)) :
    compat (.node k1 e1 s1 t1 kids1) (.node k2 e2 s2 t2 kids2) = true ↔
      k1.sameShape k2 = true ∧
      (k1.isSparse = true → compatShared kids1 kids2 = true ∧
        ∀ th m, rep t2 kids2 = some th → rep t1 kids1 = some m → compat m th = true) ∧
      (k1.isSparse = false → compatZip kids1 kids2 = true) := by
  cases t2 <;> cases t1 <;> simp only [compat, Bool.and_eq_true] <;>
    cases k1.isSparse <;> simp [rep, compatFirst_eq] <;>
    intro _ _ <;> cases firstBin kids2 <;> cases firstBin kids1 <;> simp

theorem sameShape_self {k : Kind} {keys : List Key} (h : k.layoutOk keys = true) : k.sameShape k = true := by
  cases k <;> simp_all [Kind.sameShape, Kind.layoutOk]
  omega

theorem compatZip_of_sameBaseZip (l1 l2 : List (Key × Agg))
    (ih : ∀ p ∈ l1, ∀ b, good b = true → sameBase p.2 b = true → compat p.2 b = true)
    (h2 : ∀ q ∈ l2, good q.2 = true)
    (h : sameBaseZip l1 l2 = true) : compatZip l1 l2 = true := by
  induction l1 generalizing l2 with
  | nil => cases l2 <;> simp_all [sameBaseZip, compatZip]
  | cons p r ihr =>
    obtain ⟨k, a⟩ := p
    cases l2 with
    | nil => simp [sameBaseZip] at h
    | cons p2 r2 =>
      obtain ⟨k2, b⟩ := p2
      simp only [sameBaseZip, compatZip, Bool.and_eq_true, decide_eq_true_eq] at h ⊢
      obtain ⟨⟨hk, hab⟩, hr⟩ := h
      exact ⟨⟨hk, ih (k, a) (by simp) b (h2 (k2, b) (by simp)) hab⟩,
        ihr r2 (fun p hp => ih p (by simp [hp])) (fun q hq => h2 q (by simp [hq])) hr⟩

theorem firstBin_mem {l : List (Key × Agg)} {a : Agg} (h : firstBin l = some a) : ∃ k, (k, a) ∈ l := by
  induction l with
  | nil => simp [firstBin] at h
  | cons p r ih =>
    obtain ⟨k, b⟩ := p
    by_cases hk : k = .nanflow
    · simp only [firstBin, hk, if_true] at h
      obtain ⟨k', hk'⟩ := ih h
      exact ⟨k', by simp [hk']⟩
    · simp only [firstBin, hk, if_false, Option.some.injEq] at h
      exact ⟨k, by simp [h]⟩

theorem compatZip_self (kids : List (Key × Agg)) (h : ∀ p ∈ kids, compat p.2 p.2 = true) :
    compatZip kids kids = true := by
  induction kids with
  | nil => simp [compatZip]
  | cons p r ih =>
    obtain ⟨k, a⟩ := p
    simp only [compatZip, Bool.and_eq_true, decide_eq_true_eq, true_and]
    exact ⟨h (k, a) (by simp), ih (fun p hp => h p (by simp [hp]))⟩

/-- every good tree can be merged with itself (no template needed) -/
theorem compat_self (a : Agg) (ha : good a = true) : compat a a = true := by
  induction a using Agg.ind with
  | h k e st tmpl kids iht ihk =>
    rw [good_node] at ha
    obtain ⟨hsc, hlay, hkids, htm, hsb, hct⟩ := ha
    have htz := (goodTmpl_iff tmpl).1 htm
    rw [compat_node]
    refine ⟨sameShape_self hlay, fun hsp => ⟨?_, ?_⟩, fun hsp => ?_⟩
    · rw [compatShared_iff]
      intro p hp b hb
      rw [lookupK_self_of_layout hsp hlay p hp] at hb
      cases hb
      exact ihk p hp (hkids p hp)
    · intro th m h1 h2
      rw [h1] at h2; cases h2
      cases tmpl with
      | some tm => simp only [rep, Option.some.injEq] at h1; subst h1; exact iht _ rfl (htz _ rfl).1
      | none =>
        simp only [rep] at h1
        obtain ⟨k', hk'⟩ := firstBin_mem h1
        exact ihk _ hk' (hkids _ hk')
    · exact compatZip_self kids (fun p hp => ihk p hp (hkids p hp))

theorem compat_of_sameBase_aux (a b : Agg) (ha : good a = true) (hb : good b = true)
    (hta : hasTmpl a = true) (h : sameBase a b = true) : compat a b = true := by
  induction a using Agg.ind generalizing b with
  | h k e st tmpl kids iht ihk =>
    obtain ⟨k2, e2, st2, tmpl2, kids2⟩ := b
    rw [good_node] at ha hb
    obtain ⟨hsc, hlay, hkids, htm, hsb, hct⟩ := ha
    obtain ⟨hsc2, hlay2, hkids2, htm2, hsb2, hct2⟩ := hb
    have htz := (goodTmpl_iff tmpl).1 htm
    rw [hasTmpl_node] at hta
    obtain ⟨hT1, hT2, hT3⟩ := hta
    rw [sameBase_node] at h
    obtain ⟨rfl, rfl, hS, hZ⟩ := h
    rw [compat_node]
    refine ⟨sameShape_self hlay, fun hsp => ?_, fun hsp => ?_⟩
    · obtain ⟨tm, rfl⟩ := hT1 hsp
      obtain ⟨hf, ht1, ht2⟩ := hS hsp
      rw [sameBaseFlow_iff] at hf
      rw [sameBaseTmpl_iff] at ht1 ht2
      obtain ⟨gtm, ztm⟩ := htz tm rfl
      refine ⟨?_, ?_⟩
      · rw [compatShared_iff]
        intro p hp b' hb'
        have hm := lookupK_mem hb'
        by_cases hpn : p.1 = .nanflow
        · obtain ⟨y, hy, hpy⟩ := hf p hp hpn
          rw [hpn] at hb'
          rw [hb'] at hy; cases hy
          exact ihk p hp b' (hkids p hp) (hkids2 _ hm) (hT3 p hp) hpy
        · have s1 := ht1 tm rfl p hp hpn
          have s2 := ht2 tm rfl _ hm hpn
          have s1' := sameBase_symm tm p.2 gtm (hkids p hp) s1
          exact ihk p hp b' (hkids p hp) (hkids2 _ hm) (hT3 p hp) (sameBase_trans' _ _ _ s1' s2)
      · intro th m h1 h2
        simp only [rep, Option.some.injEq] at h1 h2
        subst h1; subst h2
        exact iht _ rfl _ gtm gtm (hT2 _ rfl).1 (sameBase_refl _ gtm)
    · exact compatZip_of_sameBaseZip kids kids2
        (fun p hp b' gb' sb' => ihk p hp b' (hkids p hp) gb' (hT3 p hp) sb') hkids2 (hZ hsp)

/-- (The original statement, without `hta`, is false for template-less sparse containers:
`sameBaseTmpl none _ = true` and `good` do not relate the bins of the two sides.) -/
theorem compat_of_sameBase (a b : Agg) (ha : good a = true) (hb : good b = true)
    (hta : hasTmpl a = true) (htb : hasTmpl b = true)
    (h : sameBase a b = true) : compat a b = true :=
  compat_of_sameBase_aux a b ha hb hta h

/-! ### zero is a two-sided identity of `add` -/

theorem addRaw_leaf {k1 : Kind} (hk : k1.isLeaf = true) (e1 : Val) (s1 : St) (t1 : Option Agg)
    (kids1 : List (Key × Agg)) (k2 : Kind) (e2 : Val) (s2 : St) (t2 : Option Agg) (kids2 : List (Key × Agg)) :
    addRaw (.node k1 e1 s1 t1 kids1) (.node k2 e2 s2 t2 kids2)
      = .node k1 (leafAdd k1 e1 s1 e2 s2).1 (leafAdd k1 e1 s1 e2 s2).2 t1 kids1 := by
  simp [addRaw, hk]

theorem addRaw_sparse {k1 : Kind} (hk : k1.isSparse = true) (e1 : Val) (s1 : St) (t1 : Option Agg)
    (kids1 : List (Key × Agg)) (k2 : Kind) (e2 : Val) (s2 : St) (t2 : Option Agg) (kids2 : List (Key × Agg)) :
    addRaw (.node k1 e1 s1 t1 kids1) (.node k2 e2 s2 t2 kids2)
      = .node k1 (e1 + e2) s1 t1 (unionKids kids1 kids2) := by
  simp [addRaw, hk, Kind.isSparse_not_leaf hk]

theorem addRaw_fixed {k1 : Kind} (hl : k1.isLeaf = false) (hk : k1.isSparse = false) (e1 : Val) (s1 : St)
    (t1 : Option Agg) (kids1 : List (Key × Agg)) (k2 : Kind) (e2 : Val) (s2 : St) (t2 : Option Agg)
    (kids2 : List (Key × Agg)) :
    addRaw (.node k1 e1 s1 t1 kids1) (.node k2 e2 s2 t2 kids2)
      = .node k1 (e1 + e2) s1 t1 (zipKids kids1 kids2) := by
  simp [addRaw, hk, hl]

theorem compatZip_zeroKids (kids : List (Key × Agg)) (h : ∀ p ∈ kids, compat p.2 (zero p.2) = true) :
    compatZip kids (zeroKids kids) = true := by
  induction kids with
  | nil => simp [compatZip, zeroKids]
  | cons p r ih =>
    obtain ⟨k, a⟩ := p
    simp only [compatZip, zeroKids, Bool.and_eq_true, decide_eq_true_eq, true_and]
    exact ⟨h (k, a) (by simp), ih (fun p hp => h p (by simp [hp]))⟩

theorem compatZip_zeroKids_left (kids : List (Key × Agg)) (h : ∀ p ∈ kids, compat (zero p.2) p.2 = true) :
    compatZip (zeroKids kids) kids = true := by
  induction kids with
  | nil => simp [compatZip, zeroKids]
  | cons p r ih =>
    obtain ⟨k, a⟩ := p
    simp only [compatZip, zeroKids, Bool.and_eq_true, decide_eq_true_eq, true_and]
    exact ⟨h (k, a) (by simp), ih (fun p hp => h p (by simp [hp]))⟩

theorem zipKids_zeroKids (kids : List (Key × Agg)) (h : ∀ p ∈ kids, addRaw p.2 (zero p.2) = p.2) :
    zipKids kids (zeroKids kids) = kids := by
  induction kids with
  | nil => simp [zipKids]
  | cons p r ih =>
    obtain ⟨k, a⟩ := p
    simp only [zipKids, zeroKids]
    rw [h (k, a) (by simp), ih (fun p hp => h p (by simp [hp]))]

theorem zipKids_zeroKids_left (kids : List (Key × Agg)) (h : ∀ p ∈ kids, addRaw (zero p.2) p.2 = p.2) :
    zipKids (zeroKids kids) kids = kids := by
  induction kids with
  | nil => simp [zipKids, zeroKids]
  | cons p r ih =>
    obtain ⟨k, a⟩ := p
    simp only [zipKids, zeroKids]
    rw [h (k, a) (by simp), ih (fun p hp => h p (by simp [hp]))]

theorem add_zero_aux (t : Agg) (h : good t = true) :
    compat t (zero t) = true ∧ addRaw t (zero t) = t ∧ compat (zero t) t = true ∧ addRaw (zero t) t = t := by
  induction t using Agg.ind with
  | h k e st tmpl kids iht ihk =>
    have hg := h
    rw [good_node] at h
    obtain ⟨hsc, hlay, hkids, htm, hsb, hct⟩ := h
    have htz := (goodTmpl_iff tmpl).1 htm
    have hk' := fun p hp => ihk p hp (hkids p hp)
    have hshape := sameShape_self hlay
    cases hsp : k.isSparse with
    | false =>
      rw [zero_nonsparse hsp]
      cases hl : k.isLeaf with
      | true =>
        have hlg : leafGood k e st = true := by simpa [scalarOk, hl] using hsc
        have hkn := layout_leaf hl hlay
        subst hkn
        refine ⟨?_, ?_, ?_, ?_⟩
        · rw [compat_node]; exact ⟨hshape, by simp [hsp], fun _ => by simp [zeroKids, compatZip]⟩
        · rw [addRaw_leaf hl, leafAdd_zero_right k e st hl hlg]
        · rw [compat_node]; exact ⟨hshape, by simp [hsp], fun _ => by simp [zeroKids, compatZip]⟩
        · rw [addRaw_leaf hl, leafAdd_zero_left k e st hl hlg]; simp [zeroKids]
      | false =>
        obtain ⟨rfl, q, rfl, hq⟩ := scalarOk_nonleaf hl hsc
        refine ⟨?_, ?_, ?_, ?_⟩
        · rw [compat_node]
          exact ⟨hshape, by simp [hsp], fun _ => compatZip_zeroKids kids (fun p hp => (hk' p hp).1)⟩
        · rw [addRaw_fixed hl hsp, zipKids_zeroKids kids (fun p hp => (hk' p hp).2.1), Val.zero_eq,
            Val.fin_add_zero]
        · rw [compat_node]
          exact ⟨hshape, by simp [hsp], fun _ => compatZip_zeroKids_left kids (fun p hp => (hk' p hp).2.2.1)⟩
        · rw [addRaw_fixed hl hsp, zipKids_zeroKids_left kids (fun p hp => (hk' p hp).2.2.2), Val.zero_eq,
            Val.zero_add_fin, St.zero_nonleaf hl]
    | true =>
      have hl := Kind.isSparse_not_leaf hsp
      obtain ⟨rfl, qe, rfl, hq⟩ := scalarOk_nonleaf hl hsc
      have hrepT : ∀ (l1 l2 : List (Key × Agg)) th m, rep tmpl l1 = some th → rep tmpl l2 = some m →
          (tmpl = none → firstBin l1 = none ∨ firstBin l2 = none) → compat m th = true := by
        intro l1 l2 th m h1 h2 hnone
        cases tmpl with
        | some tm =>
          simp only [rep, Option.some.injEq] at h1 h2
          subst h1; subst h2
          exact compat_self _ (htz _ rfl).1
        | none =>
          simp only [rep] at h1 h2
          rcases hnone rfl with h | h
          · rw [h] at h1; cases h1
          · rw [h] at h2; cases h2
      rcases Kind.sparse_cases hsp with ⟨q, w, o, c, n, rfl⟩ | ⟨q, c, n, rfl⟩
      · obtain ⟨hw, a0, r, rfl, hidx, hsorted⟩ := layout_sparse hlay
        have hr : ∀ p ∈ r, p.1 ≠ .nanflow := fun p hp => Key.ne_nan_of_isIdx (hidx p hp)
        rw [zero_sparse_kind _ _ _ _ _ _ _ _ _ _ hr]
        obtain ⟨c1, a1, c2, a2⟩ := hk' (.nanflow, a0) (by simp)
        refine ⟨?_, ?_, ?_, ?_⟩
        · rw [compat_node]
          refine ⟨hshape, fun _ => ⟨?_, ?_⟩, by simp [Kind.isSparse]⟩
          · rw [compatShared_iff]
            intro p hp b hb
            simp only [List.mem_cons] at hp
            rcases hp with rfl | hp
            · simp [lookupK] at hb; subst hb; exact c1
            · have : Key.nanflow ≠ p.1 := fun e => hr p hp e.symm
              simp [lookupK, this] at hb
          · intro th m h1 h2
            exact hrepT _ _ th m h1 h2 (fun _ => Or.inl (by simp [firstBin]))
        · rw [addRaw_sparse hsp]
          simp only [unionKids, Key.lt, List.takeWhile, List.dropWhile, unionKids_nil_right, a1,
            Val.zero_eq, Val.fin_add_zero]
          simp
        · rw [compat_node]
          refine ⟨hshape, fun _ => ⟨?_, ?_⟩, by simp [Kind.isSparse]⟩
          · rw [compatShared_iff]
            intro p hp b hb
            simp only [List.mem_singleton] at hp
            subst hp
            simp [lookupK] at hb; subst hb; exact c2
          · intro th m h1 h2
            exact hrepT _ _ th m h1 h2 (fun _ => Or.inr (by simp [firstBin]))
        · rw [addRaw_sparse hsp]
          simp only [unionKids, Key.lt, List.takeWhile, List.dropWhile, a2,
            Val.zero_eq, Val.zero_add_fin]
          simp
      · rw [zero_cat_kind]
        refine ⟨?_, ?_, ?_, ?_⟩
        · rw [compat_node]
          refine ⟨hshape, fun _ => ⟨?_, ?_⟩, by simp [Kind.isSparse]⟩
          · rw [compatShared_iff]
            intro p hp b hb
            simp [lookupK] at hb
          · intro th m h1 h2
            exact hrepT _ _ th m h1 h2 (fun _ => Or.inl (by simp [firstBin]))
        · rw [addRaw_sparse hsp, unionKids_nil_right, Val.zero_eq, Val.fin_add_zero]
        · rw [compat_node]
          refine ⟨hshape, fun _ => ⟨?_, ?_⟩, by simp [Kind.isSparse]⟩
          · simp [compatShared]
          · intro th m h1 h2
            exact hrepT _ _ th m h1 h2 (fun _ => Or.inr (by simp [firstBin]))
        · rw [addRaw_sparse hsp, unionKids_nil_left, Val.zero_eq, Val.zero_add_fin]

theorem add_zero_right (t : Agg) (h : good t = true) : add t (zero t) = some t := by
  obtain ⟨h1, h2, _, _⟩ := add_zero_aux t h
  simp [add, h1, h2]

theorem add_zero_left (t : Agg) (h : good t = true) : add (zero t) t = some t := by
  obtain ⟨_, _, h1, h2⟩ := add_zero_aux t h
  simp [add, h1, h2]

/-! ### merging two trees with the same base -/

theorem unionKids_nan (a0 b0 : Agg) (r1 r2 : List (Key × Agg)) :
    unionKids ((.nanflow, a0) :: r1) ((.nanflow, b0) :: r2) = (.nanflow, addRaw a0 b0) :: unionKids r1 r2 := by
  simp [unionKids, Key.lt]

theorem layout_sparse_mk {q : Qty} {w o : Rat} {c : String} {n : Option String} {a : Agg}
    {r : List (Key × Agg)} (hw : 0 < w) (hidx : ∀ p ∈ r, p.1.isIdx = true)
    (hs : sortedKeys (keysOf r) = true) :
    Kind.layoutOk (.sparse q w o c n) (keysOf ((.nanflow, a) :: r)) = true := by
  simp only [Kind.layoutOk, keysOf_cons, Bool.and_eq_true, decide_eq_true_eq, List.all_eq_true]
  exact ⟨hw, fun k hk => by obtain ⟨p, hp, rfl⟩ := mem_keysOf.1 hk; exact hidx p hp, hs⟩

theorem layout_cat_mk {q : Qty} {c : String} {n : Option String} {kids : List (Key × Agg)}
    (hcat : ∀ p ∈ kids, p.1.isCat = true) (hs : sortedKeys (keysOf kids) = true) :
    Kind.layoutOk (.categorize q c n) (keysOf kids) = true := by
  simp only [Kind.layoutOk, Bool.and_eq_true, List.all_eq_true]
  exact ⟨fun k hk => by obtain ⟨p, hp, rfl⟩ := mem_keysOf.1 hk; exact hcat p hp, hs⟩

theorem zipKids_spec (l1 l2 : List (Key × Agg)) (hz : sameBaseZip l1 l2 = true)
    (ih : ∀ p ∈ l1, ∀ b, good b = true → sameBase p.2 b = true →
      good (addRaw p.2 b) = true ∧ sameBase p.2 (addRaw p.2 b) = true)
    (h2 : ∀ q ∈ l2, good q.2 = true) :
    keysOf (zipKids l1 l2) = keysOf l1 ∧ (∀ p ∈ zipKids l1 l2, good p.2 = true) ∧
      sameBaseZip l1 (zipKids l1 l2) = true := by
  induction l1 generalizing l2 with
  | nil => simp [zipKids, sameBaseZip]
  | cons p r ihr =>
    obtain ⟨k, a⟩ := p
    cases l2 with
    | nil => simp [sameBaseZip] at hz
    | cons p2 r2 =>
      obtain ⟨k2, b⟩ := p2
      simp only [sameBaseZip, Bool.and_eq_true, decide_eq_true_eq] at hz
      obtain ⟨⟨hk, hab⟩, hr⟩ := hz
      obtain ⟨i1, i2, i3⟩ := ihr r2 hr (fun p hp => ih p (by simp [hp])) (fun q hq => h2 q (by simp [hq]))
      obtain ⟨g, sb⟩ := ih (k, a) (by simp) b (h2 (k2, b) (by simp)) hab
      simp only [zipKids, keysOf_cons, i1, List.mem_cons, forall_eq_or_imp, sameBaseZip,
        Bool.and_eq_true, decide_eq_true_eq, true_and]
      exact ⟨⟨g, i2⟩, sb, i3⟩

theorem union_bins_spec (tm : Agg) (T : Key → Prop)
    (tot : ∀ a b, T a → T b → Key.lt a b = false → a ≠ b → Key.lt b a = true)
    (r1 r2 : List (Key × Agg))
    (hT1 : ∀ p ∈ r1, T p.1) (hT2 : ∀ p ∈ r2, T p.1) (hs1 : SortedK r1) (hs2 : SortedK r2)
    (g1 : ∀ p ∈ r1, good p.2 = true) (g2 : ∀ p ∈ r2, good p.2 = true) (gtm : good tm = true)
    (b1 : ∀ p ∈ r1, sameBase tm p.2 = true) (b2 : ∀ p ∈ r2, sameBase tm p.2 = true)
    (ih : ∀ p ∈ r1, ∀ b, good b = true → sameBase p.2 b = true →
      good (addRaw p.2 b) = true ∧ sameBase p.2 (addRaw p.2 b) = true) :
    SortedK (unionKids r1 r2) ∧
      ∀ p ∈ unionKids r1 r2, T p.1 ∧ good p.2 = true ∧ sameBase tm p.2 = true := by
  refine ⟨sorted_unionKids T tot r1 r2 hT1 hT2 hs1 hs2, ?_⟩
  intro p hp
  rcases mem_unionKids hp with h | h | ⟨a, b, ha, hb, hab⟩
  · exact ⟨hT1 p h, g1 p h, b1 p h⟩
  · exact ⟨hT2 p h, g2 p h, b2 p h⟩
  · have sa := b1 _ ha
    have sb := b2 _ hb
    have sab : sameBase a b = true :=
      sameBase_trans' _ _ _ (sameBase_symm tm a gtm (g1 _ ha) sa) sb
    obtain ⟨g, s⟩ := ih _ ha b (g2 _ hb) sab
    rw [hab]
    exact ⟨hT1 (p.1, a) ha, g, sameBase_trans' _ _ _ sa s⟩

theorem good_addRaw_aux (a b : Agg) (ha : good a = true) (hb : good b = true) (hta : hasTmpl a = true)
    (h : sameBase a b = true) : good (addRaw a b) = true ∧ sameBase a (addRaw a b) = true := by
  induction a using Agg.ind generalizing b with
  | h k e st tmpl kids iht ihk =>
    obtain ⟨k2, e2, st2, tmpl2, kids2⟩ := b
    rw [good_node] at ha hb
    obtain ⟨hsc, hlay, hkids, htm, hsb, hct⟩ := ha
    obtain ⟨hsc2, hlay2, hkids2, htm2, hsb2, hct2⟩ := hb
    have htz := (goodTmpl_iff tmpl).1 htm
    rw [hasTmpl_node] at hta
    obtain ⟨hT1, hT2, hT3⟩ := hta
    rw [sameBase_node] at h
    obtain ⟨rfl, rfl, hS, hZ⟩ := h
    have ih' : ∀ p ∈ kids, ∀ b, good b = true → sameBase p.2 b = true →
        good (addRaw p.2 b) = true ∧ sameBase p.2 (addRaw p.2 b) = true :=
      fun p hp b gb sb => ihk p hp b (hkids p hp) gb (hT3 p hp) sb
    cases hsp : k.isSparse with
    | false =>
      cases hl : k.isLeaf with
      | true =>
        have hlg : leafGood k e st = true := by simpa [scalarOk, hl] using hsc
        have hlg2 : leafGood k e2 st2 = true := by simpa [scalarOk, hl] using hsc2
        rw [addRaw_leaf hl, good_node, sameBase_node]
        refine ⟨⟨?_, hlay, hkids, htm, hsb, hct⟩, rfl, rfl, by simp [hsp], fun _ => ?_⟩
        · simp only [scalarOk, hl, if_true]
          exact leafGood_add k e st e2 st2 hl hlg hlg2
        · exact sameBaseZip_self kids (fun p hp => sameBase_refl _ (hkids p hp))
      | false =>
        obtain ⟨rfl, q1, rfl, hq1⟩ := scalarOk_nonleaf hl hsc
        obtain ⟨rfl, q2, rfl, hq2⟩ := scalarOk_nonleaf hl hsc2
        obtain ⟨z1, z2, z3⟩ := zipKids_spec kids kids2 (hZ hsp) ih' hkids2
        rw [addRaw_fixed hl hsp, good_node, sameBase_node, Val.fin_add_fin]
        refine ⟨⟨scalarOk_nonleaf_mk hl (Rat.add_nonneg hq1 hq2), by rw [z1]; exact hlay, z2, htm,
          by simp [hsp], hct⟩, rfl, rfl, by simp [hsp], fun _ => z3⟩
    | true =>
      have hl := Kind.isSparse_not_leaf hsp
      obtain ⟨rfl, q1, rfl, hq1⟩ := scalarOk_nonleaf hl hsc
      obtain ⟨rfl, q2, rfl, hq2⟩ := scalarOk_nonleaf hl hsc2
      obtain ⟨tm, rfl⟩ := hT1 hsp
      obtain ⟨hf, ht1, ht2⟩ := hS hsp
      rw [sameBaseFlow_iff] at hf
      have ht1' := (sameBaseTmpl_iff _ _).1 ht1 tm rfl
      have ht2' := (sameBaseTmpl_iff _ _).1 ht2 tm rfl
      obtain ⟨gtm, ztm⟩ := htz tm rfl
      rw [addRaw_sparse hsp, good_node, sameBase_node, Val.fin_add_fin]
      rcases Kind.sparse_cases hsp with ⟨q, w, o, c, n, rfl⟩ | ⟨q, c, n, rfl⟩
      · obtain ⟨hw, a0, r1, rfl, hidx1, hsorted1⟩ := layout_sparse hlay
        obtain ⟨_, b0, r2, rfl, hidx2, hsorted2⟩ := layout_sparse hlay2
        have hr1 : ∀ p ∈ r1, p.1 ≠ .nanflow := fun p hp => Key.ne_nan_of_isIdx (hidx1 p hp)
        have hr2 : ∀ p ∈ r2, p.1 ≠ .nanflow := fun p hp => Key.ne_nan_of_isIdx (hidx2 p hp)
        obtain ⟨y, hy, hay⟩ := hf (.nanflow, a0) (by simp) rfl
        simp only [lookupK, if_true, Option.some.injEq] at hy
        subst hy
        obtain ⟨g0, s0⟩ := ih' (.nanflow, a0) (by simp) b0 (hkids2 (.nanflow, b0) (by simp)) hay
        obtain ⟨us, uall⟩ := union_bins_spec tm (fun k => k.isIdx = true)
          (fun a b ha hb => Key.lt_total_idx ha hb) r1 r2 hidx1 hidx2
          ((sortedKeys_keysOf _).1 hsorted1) ((sortedKeys_keysOf _).1 hsorted2)
          (fun p hp => hkids p (by simp [hp])) (fun p hp => hkids2 p (by simp [hp])) gtm
          (fun p hp => ht1' p (by simp [hp]) (hr1 p hp)) (fun p hp => ht2' p (by simp [hp]) (hr2 p hp))
          (fun p hp => ih' p (by simp [hp]))
        rw [unionKids_nan]
        have hTu : sameBaseTmpl (some tm) ((Key.nanflow, addRaw a0 b0) :: unionKids r1 r2) = true := by
          rw [sameBaseTmpl_iff]
          intro tm' htm' p hp hpn
          cases htm'
          simp only [List.mem_cons] at hp
          rcases hp with rfl | hp
          · exact absurd rfl hpn
          · exact (uall p hp).2.2
        refine ⟨⟨scalarOk_nonleaf_mk hl (Rat.add_nonneg hq1 hq2), ?_, ?_, htm, fun _ => hTu, hct⟩,
          rfl, rfl, fun _ => ⟨?_, ht1, hTu⟩, by simp [hsp]⟩
        · exact layout_sparse_mk hw (fun p hp => (uall p hp).1) ((sortedKeys_keysOf _).2 us)
        · intro p hp
          simp only [List.mem_cons] at hp
          rcases hp with rfl | hp
          · exact g0
          · exact (uall p hp).2.1
        · rw [sameBaseFlow_iff]
          intro p hp hpn
          simp only [List.mem_cons] at hp
          rcases hp with rfl | hp
          · exact ⟨_, by simp [lookupK], s0⟩
          · exact absurd hpn (hr1 p hp)
      · obtain ⟨hcat1, hsorted1⟩ := layout_cat hlay
        obtain ⟨hcat2, hsorted2⟩ := layout_cat hlay2
        have hr1 : ∀ p ∈ kids, p.1 ≠ .nanflow := fun p hp => Key.ne_nan_of_isCat (hcat1 p hp)
        have hr2 : ∀ p ∈ kids2, p.1 ≠ .nanflow := fun p hp => Key.ne_nan_of_isCat (hcat2 p hp)
        obtain ⟨us, uall⟩ := union_bins_spec tm (fun k => k.isCat = true)
          (fun a b ha hb => Key.lt_total_cat ha hb) kids kids2 hcat1 hcat2
          ((sortedKeys_keysOf _).1 hsorted1) ((sortedKeys_keysOf _).1 hsorted2)
          hkids hkids2 gtm
          (fun p hp => ht1' p hp (hr1 p hp)) (fun p hp => ht2' p hp (hr2 p hp)) ih'
        have hTu : sameBaseTmpl (some tm) (unionKids kids kids2) = true := by
          rw [sameBaseTmpl_iff]
          intro tm' htm' p hp hpn
          cases htm'
          exact (uall p hp).2.2
        refine ⟨⟨scalarOk_nonleaf_mk hl (Rat.add_nonneg hq1 hq2), ?_, fun p hp => (uall p hp).2.1, htm,
          fun _ => hTu, hct⟩, rfl, rfl, fun _ => ⟨?_, ht1, hTu⟩, by simp [hsp]⟩
        · exact layout_cat_mk (fun p hp => (uall p hp).1) ((sortedKeys_keysOf _).2 us)
        · rw [sameBaseFlow_iff]
          intro p hp hpn
          exact absurd hpn (hr1 p hp)

/-- (The original statement, without `hta`, is false for template-less sparse containers.) -/
theorem good_addRaw (a b : Agg) (ha : good a = true) (hb : good b = true)
    (hta : hasTmpl a = true) (htb : hasTmpl b = true) (h : sameBase a b = true) :
    good (addRaw a b) = true ∧ sameBase a (addRaw a b) = true :=
  good_addRaw_aux a b ha hb hta h

/-! ### fill -/

theorem sameBase_fill (t : Agg) (d : Datum) (w : Val) (h : good t = true)
    (hok : (fill t d w).2 = .ok) : sameBase t (fill t d w).1 = true := by
  induction t using Agg.ind generalizing w with
  | h k e st tmpl kids iht ihk =>
    have hg := h
    rw [good_node] at h
    obtain ⟨hsc, hlay, hkids, htm, hsb, hct⟩ := h
    have htz := (goodTmpl_iff tmpl).1 htm
    have hrefl : ∀ p ∈ kids, sameBase p.2 p.2 = true := fun p hp => sameBase_refl _ (hkids p hp)
    have ih' : ∀ p ∈ kids, ∀ w, (fill p.2 d w).2 = .ok → sameBase p.2 (fill p.2 d w).1 = true :=
      fun p hp w => ihk p hp w (hkids p hp)
    cases hw : w.pos with
    | false => rw [fill_nopos hw]; exact sameBase_refl _ hg
    | true =>
      cases hl : k.isLeaf with
      | true =>
        rw [fill_leaf hw hl]
        cases leafFill k e st d w with
        | error f => exact sameBase_refl _ hg
        | ok r =>
          obtain ⟨e', st'⟩ := r
          have := sameBase_refl _ hg
          rw [sameBase_node] at this ⊢
          exact this
      | false =>
        cases hr : route k (keysOf kids) d w with
        | error f => rw [fill_route_err hw hl _ _ _ _ _ f hr] at hok; cases hok
        | ok tg =>
          cases hsp : k.isSparse with
          | false =>
            rw [fill_fixed hw hl hsp _ _ _ _ _ tg hr] at hok ⊢
            have hz := fillKids_zip kids tg d ih' hrefl hok
            rw [sameBase_node]
            exact ⟨rfl, rfl, by simp [hsp], fun _ => hz⟩
          | true =>
            obtain ⟨key, rfl⟩ := route_sparse_single hsp hr
            have hsb' := hsb hsp
            cases hh : hasKey key kids with
            | true =>
              rw [fill_sparse_has hw hsp _ _ _ _ _ key w hr hh] at hok ⊢
              have hz := fillKids_zip kids [(key, w)] d ih' hrefl hok
              rw [sameBase_node]
              refine ⟨rfl, rfl, fun _ => ⟨?_, hsb', ?_⟩, by simp [hsp]⟩
              · rw [sameBaseFlow_iff]
                intro p hp hpn
                exact lookupK_of_sameBaseZip hz (nanUniq_of_layout hsp hlay p hp hpn)
              · rw [sameBaseTmpl_iff] at hsb' ⊢
                intro tm htm' p' hp' hpn'
                obtain ⟨p, hp, hk1, hs1⟩ := mem_right_of_sameBaseZip hz hp'
                exact sameBase_trans' _ _ _ (hsb' tm htm' p hp (by rw [hk1]; exact hpn')) hs1
            | false =>
              rw [fill_sparse_new hw hsp _ _ _ _ _ key w hr hh] at hok ⊢
              cases tmpl with
              | none => simp [fillTmpl] at hok
              | some tm =>
                simp only [fillTmpl] at hok ⊢
                have ihtm := iht tm rfl w (htz tm rfl).1
                rcases hf : fill tm d w with ⟨nb, o⟩
                rw [hf] at hok ihtm
                cases o with
                | raised f => simp at hok
                | ok =>
                  simp only at ihtm ⊢
                  have hnb := ihtm trivial
                  rw [sameBase_node]
                  refine ⟨rfl, rfl, fun _ => ⟨?_, hsb', ?_⟩, by simp [hsp]⟩
                  · rw [sameBaseFlow_iff]
                    intro p hp hpn
                    have hkn : key ≠ .nanflow := by
                      intro e
                      rw [hasKey_of_mem hp (hpn.trans e.symm)] at hh; cases hh
                    refine ⟨p.2, ?_, hrefl p hp⟩
                    rw [lookupK_insertK_ne hkn]
                    exact nanUniq_of_layout hsp hlay p hp hpn
                  · rw [sameBaseTmpl_iff] at hsb' ⊢
                    intro tm' htm' p hp hpn
                    cases htm'
                    rcases mem_insertK.1 hp with rfl | hp
                    · exact hnb
                    · exact hsb' _ rfl p hp hpn

/-- what a fill that has to create a new bin returns as outcome -/
def newOutcome : Option (Agg × Outcome) → Outcome
  | some (_, o) => o
  | none => .raised .typeErr

theorem fill_sparse_new_outcome {k : Kind} {w : Val} (hw : w.pos = true) (hs : k.isSparse = true)
    (e : Val) (st : St) (tmpl : Option Agg) (kids : List (Key × Agg)) (d : Datum) (key : Key) (w' : Val)
    (hr : route k (keysOf kids) d w = .ok [(key, w')]) (hh : hasKey key kids = false) :
    (fill (.node k e st tmpl kids) d w).2 = newOutcome (fillTmpl tmpl d w') := by
  rw [fill_sparse_new hw hs _ _ _ _ _ key w' hr hh]
  cases fillTmpl tmpl d w' with
  | none => rfl
  | some r => obtain ⟨nb, o⟩ := r; cases o <;> rfl

theorem fill_ok_indep_aux (a b : Agg) (d : Datum) (w : Val)
    (ha : good a = true) (hb : good b = true) (hta : hasTmpl a = true) (h : sameBase a b = true) :
    (fill a d w).2 = (fill b d w).2 := by
  induction a using Agg.ind generalizing b w with
  | h k e st tmpl kids iht ihk =>
    obtain ⟨k2, e2, st2, tmpl2, kids2⟩ := b
    rw [good_node] at ha hb
    obtain ⟨hsc, hlay, hkids, htm, hsb, hct⟩ := ha
    obtain ⟨hsc2, hlay2, hkids2, htm2, hsb2, hct2⟩ := hb
    have htz := (goodTmpl_iff tmpl).1 htm
    rw [hasTmpl_node] at hta
    obtain ⟨hT1, hT2, hT3⟩ := hta
    rw [sameBase_node] at h
    obtain ⟨rfl, rfl, hS, hZ⟩ := h
    have ih' : ∀ p ∈ kids, ∀ b w, good b = true → sameBase p.2 b = true →
        (fill p.2 d w).2 = (fill b d w).2 :=
      fun p hp b w gb sb => ihk p hp b w (hkids p hp) gb (hT3 p hp) sb
    cases hw : w.pos with
    | false => rw [fill_nopos hw, fill_nopos hw]
    | true =>
      cases hl : k.isLeaf with
      | true =>
        have hlg : leafGood k e st = true := by simpa [scalarOk, hl] using hsc
        have hlg2 : leafGood k e2 st2 = true := by simpa [scalarOk, hl] using hsc2
        rw [fill_leaf hw hl, fill_leaf hw hl]
        rcases leafFill_fault_indep k e st e2 st2 d w hl hlg hlg2 with ⟨r1, r2, h1, h2⟩ | ⟨f, h1, h2⟩
        · rw [h1, h2]
        · rw [h1, h2]
      | false =>
        cases hsp : k.isSparse with
        | false =>
          have hkeys := keysOf_eq_of_sameBaseZip (hZ hsp)
          cases hr : route k (keysOf kids) d w with
          | error f =>
            rw [fill_route_err hw hl _ _ _ _ _ f hr, fill_route_err hw hl _ _ _ _ _ f (hkeys ▸ hr)]
          | ok tg =>
            rw [fill_fixed hw hl hsp _ _ _ _ _ tg hr, fill_fixed hw hl hsp _ _ _ _ _ tg (hkeys ▸ hr)]
            exact fillKids_ok_indep kids kids2 tg d ih' hkids2 (hZ hsp)
        | true =>
          have hr2 := route_sparse_keys hsp (keysOf kids) (keysOf kids2) d w
          cases hr : route k (keysOf kids) d w with
          | error f =>
            rw [fill_route_err hw hl _ _ _ _ _ f hr, fill_route_err hw hl _ _ _ _ _ f (hr2 ▸ hr)]
          | ok tg =>
            obtain ⟨key, rfl⟩ := route_sparse_single hsp hr
            have hr' : route k (keysOf kids2) d w = .ok [(key, w)] := hr2 ▸ hr
            obtain ⟨tm, rfl⟩ := hT1 hsp
            obtain ⟨hf, ht1, ht2⟩ := hS hsp
            rw [sameBaseFlow_iff] at hf
            have ht1' := (sameBaseTmpl_iff _ _).1 ht1 tm rfl
            have ht2' := (sameBaseTmpl_iff _ _).1 ht2 tm rfl
            obtain ⟨gtm, ztm⟩ := htz tm rfl
            have htm_out : ∀ x, good x = true → sameBase tm x = true →
                (fill x d w).2 = (fill tm d w).2 :=
              fun x gx sx => (iht tm rfl x w gtm gx (hT2 tm rfl).1 sx).symm
            -- outcome on a side that holds the key, when the key is a bin key
            have side : ∀ (l : List (Key × Agg)), key ≠ .nanflow → hasKey key l = true →
                (∀ p ∈ l, good p.2 = true) → (∀ p ∈ l, p.1 ≠ .nanflow → sameBase tm p.2 = true) →
                (fillKids l [(key, w)] d).2 = (fill tm d w).2 := by
              intro l hkn hh gl sl
              apply fillKids_single l key w d _ hh
              intro p hp hpk
              exact htm_out p.2 (gl p hp) (sl p hp (by rw [hpk]; exact hkn))
            have hnew : newOutcome (fillTmpl (some tm) d w) = (fill tm d w).2 := by
              simp only [fillTmpl]; rcases fill tm d w with ⟨nb, o⟩; rfl
            cases hh1 : hasKey key kids with
            | false =>
              cases hh2 : hasKey key kids2 with
              | false =>
                rw [fill_sparse_new_outcome hw hsp _ _ _ _ _ key w hr hh1,
                  fill_sparse_new_outcome hw hsp _ _ _ _ _ key w hr' hh2]
              | true =>
                have hkn : key ≠ .nanflow := by
                  intro e; subst e
                  obtain ⟨y, hy⟩ := hasKey_iff.1 hh2
                  obtain ⟨x, hx⟩ := hasNan_of_layout hsp hlay2 hlay hy
                  rw [hasKey_iff.2 ⟨x, hx⟩] at hh1; cases hh1
                rw [fill_sparse_new_outcome hw hsp _ _ _ _ _ key w hr hh1,
                  fill_sparse_has hw hsp _ _ _ _ _ key w hr' hh2, hnew]
                exact (side kids2 hkn hh2 hkids2 ht2').symm
            | true =>
              cases hh2 : hasKey key kids2 with
              | false =>
                have hkn : key ≠ .nanflow := by
                  intro e; subst e
                  obtain ⟨x, hx⟩ := hasKey_iff.1 hh1
                  obtain ⟨y, hy⟩ := hasNan_of_layout hsp hlay hlay2 hx
                  rw [hasKey_iff.2 ⟨y, hy⟩] at hh2; cases hh2
                rw [fill_sparse_has hw hsp _ _ _ _ _ key w hr hh1,
                  fill_sparse_new_outcome hw hsp _ _ _ _ _ key w hr' hh2, hnew]
                exact side kids hkn hh1 hkids ht1'
              | true =>
                rw [fill_sparse_has hw hsp _ _ _ _ _ key w hr hh1,
                  fill_sparse_has hw hsp _ _ _ _ _ key w hr' hh2]
                by_cases hkn : key = .nanflow
                · subst hkn
                  obtain ⟨x, hx⟩ := hasKey_iff.1 hh1
                  have hxm := lookupK_mem hx
                  obtain ⟨y, hy, hxy⟩ := hf _ hxm rfl
                  have hym := lookupK_mem hy
                  have e1 : (fillKids kids [(Key.nanflow, w)] d).2 = (fill x d w).2 := by
                    apply fillKids_single kids _ w d _ hh1
                    intro p hp hpk
                    have := nanUniq_of_layout hsp hlay p hp hpk
                    rw [hx] at this; cases this; rfl
                  have e2 : (fillKids kids2 [(Key.nanflow, w)] d).2 = (fill y d w).2 := by
                    apply fillKids_single kids2 _ w d _ hh2
                    intro p hp hpk
                    have := nanUniq_of_layout hsp hlay2 p hp hpk
                    rw [hy] at this; cases this; rfl
                  rw [e1, e2]
                  exact ih' _ hxm y w (hkids2 _ hym) hxy
                · rw [side kids hkn hh1 hkids ht1', side kids2 hkn hh2 hkids2 ht2']

/-- whether a fill raises (and with which fault) depends on the static structure and the datum only.
(The original statement, without `hta`, is false for template-less sparse containers: an existing
bin is filled on one side while the other side cannot create it.) -/
theorem fill_ok_indep (a b : Agg) (d : Datum) (w : Val)
    (ha : good a = true) (hb : good b = true) (hta : hasTmpl a = true) (htb : hasTmpl b = true)
    (h : sameBase a b = true) :
    (fill a d w).2 = (fill b d w).2 :=
  fill_ok_indep_aux a b d w ha hb hta h

/-! ### `hasTmpl` is preserved by merge and fill -/

theorem mem_zipKids {l1 l2 : List (Key × Agg)} {p : Key × Agg} (h : p ∈ zipKids l1 l2) :
    p ∈ l1 ∨ ∃ a q, (p.1, a) ∈ l1 ∧ q ∈ l2 ∧ p.2 = addRaw a q.2 := by
  induction l1 generalizing l2 with
  | nil => simp [zipKids] at h
  | cons x r ih =>
    obtain ⟨k, a⟩ := x
    cases l2 with
    | nil => simp only [zipKids] at h; exact Or.inl h
    | cons y r2 =>
      obtain ⟨k2, b⟩ := y
      simp only [zipKids, List.mem_cons] at h
      rcases h with rfl | h
      · exact Or.inr ⟨a, (k2, b), by simp, by simp, rfl⟩
      · rcases ih h with h | ⟨a', q, h1, h2, h3⟩
        · exact Or.inl (by simp [h])
        · exact Or.inr ⟨a', q, by simp [h1], by simp [h2], h3⟩

theorem hasTmpl_addRaw (a b : Agg) (hta : hasTmpl a = true) (htb : hasTmpl b = true) :
    hasTmpl (addRaw a b) = true := by
  induction a using Agg.ind generalizing b with
  | h k e st tmpl kids iht ihk =>
    obtain ⟨k2, e2, st2, tmpl2, kids2⟩ := b
    have hta' := hta
    rw [hasTmpl_node] at hta htb
    obtain ⟨hT1, hT2, hT3⟩ := hta
    obtain ⟨hU1, hU2, hU3⟩ := htb
    cases hl : k.isLeaf with
    | true => rw [addRaw_leaf hl, hasTmpl_node]; exact ⟨hT1, hT2, hT3⟩
    | false =>
      cases hsp : k.isSparse with
      | true =>
        rw [addRaw_sparse hsp, hasTmpl_node]
        refine ⟨hT1, hT2, fun p hp => ?_⟩
        rcases mem_unionKids hp with h | h | ⟨a', b', h1, h2, h3⟩
        · exact hT3 p h
        · exact hU3 p h
        · rw [h3]; exact ihk _ h1 b' (hT3 _ h1) (hU3 _ h2)
      | false =>
        rw [addRaw_fixed hl hsp, hasTmpl_node]
        refine ⟨hT1, hT2, fun p hp => ?_⟩
        rcases mem_zipKids hp with h | ⟨a', q, h1, h2, h3⟩
        · exact hT3 p h
        · rw [h3]; exact ihk _ h1 q.2 (hT3 _ h1) (hU3 _ h2)

theorem hasTmpl_fill (t : Agg) (d : Datum) (w : Val) (ht : hasTmpl t = true) :
    hasTmpl (fill t d w).1 = true := by
  induction t using Agg.ind generalizing w with
  | h k e st tmpl kids iht ihk =>
    have ht' := ht
    rw [hasTmpl_node] at ht
    obtain ⟨hT1, hT2, hT3⟩ := ht
    have hkids' : ∀ (tg : List (Key × Val)), ∀ p' ∈ (fillKids kids tg d).1, hasTmpl p'.2 = true := by
      intro tg p' hp'
      obtain ⟨p, hp, _, h | ⟨w', h⟩⟩ := mem_fillKids hp'
      · rw [h]; exact hT3 p hp
      · rw [h]; exact ihk p hp w' (hT3 p hp)
    cases hw : w.pos with
    | false => rw [fill_nopos hw]; exact ht'
    | true =>
      cases hl : k.isLeaf with
      | true =>
        rw [fill_leaf hw hl]
        cases leafFill k e st d w with
        | error f => exact ht'
        | ok r => obtain ⟨e', st'⟩ := r; rw [hasTmpl_node]; exact ⟨hT1, hT2, hT3⟩
      | false =>
        cases hr : route k (keysOf kids) d w with
        | error f => rw [fill_route_err hw hl _ _ _ _ _ f hr]; exact ht'
        | ok tg =>
          cases hsp : k.isSparse with
          | false =>
            rw [fill_fixed hw hl hsp _ _ _ _ _ tg hr, hasTmpl_node]
            exact ⟨hT1, hT2, hkids' tg⟩
          | true =>
            obtain ⟨key, rfl⟩ := route_sparse_single hsp hr
            cases hh : hasKey key kids with
            | true =>
              rw [fill_sparse_has hw hsp _ _ _ _ _ key w hr hh, hasTmpl_node]
              exact ⟨hT1, hT2, hkids' _⟩
            | false =>
              rw [fill_sparse_new hw hsp _ _ _ _ _ key w hr hh]
              cases tmpl with
              | none => exact ht'
              | some tm =>
                simp only [fillTmpl]
                have ihtm := iht tm rfl w (hT2 tm rfl).1
                rcases hf : fill tm d w with ⟨nb, o⟩
                rw [hf] at ihtm
                cases o with
                | raised f => exact ht'
                | ok =>
                  simp only at ihtm ⊢
                  rw [hasTmpl_node]
                  refine ⟨hT1, hT2, fun p hp => ?_⟩
                  rcases mem_insertK.1 hp with rfl | hp
                  · exact ihtm
                  · exact hT3 p hp

/-- a fill with weight `<= 0` or NaN changes nothing (C02) -/
theorem fill_gate (t : Agg) (d : Datum) (w : Val) (hw : w.pos = false) : fill t d w = (t, .ok) := by
  cases t with
  | node k e st tmpl kids => simp [fill, hw]

end Hg
