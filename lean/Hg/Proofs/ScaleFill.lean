/-
  Hg.Proofs.ScaleFill — scaling commutes with fill (C08): `scale_zeroTree`, `scale_fill`,
  `mul_eq_refill`.  All helpers live in `Hg.ScF`.
-/
import Hg.Model.Spec
import Hg.Proofs.TreeLaws1
import Mathlib.Tactic.Ring
import Mathlib.Tactic.Linarith

namespace Hg
namespace ScF

/-! ### structural induction on `Agg` -/

mutual
theorem aggInd {P : Agg → Prop}
    (h : ∀ k e st tmpl kids, (∀ t, tmpl = some t → P t) → (∀ p ∈ kids, P p.2) → P (.node k e st tmpl kids)) :
    ∀ t : Agg, P t
  | .node k e st tmpl kids => h k e st tmpl kids (aggIndTmpl h tmpl) (aggIndKids h kids)
theorem aggIndTmpl {P : Agg → Prop}
    (h : ∀ k e st tmpl kids, (∀ t, tmpl = some t → P t) → (∀ p ∈ kids, P p.2) → P (.node k e st tmpl kids)) :
    ∀ (o : Option Agg) (t : Agg), o = some t → P t
  | none, _, ho => by cases ho
  | some a, t, ho => by cases ho; exact aggInd h a
theorem aggIndKids {P : Agg → Prop}
    (h : ∀ k e st tmpl kids, (∀ t, tmpl = some t → P t) → (∀ p ∈ kids, P p.2) → P (.node k e st tmpl kids)) :
    ∀ (l : List (Key × Agg)) (p : Key × Agg), p ∈ l → P p.2
  | [], _, hp => by cases hp
  | (key, a) :: rest, p, hp => by
    rcases List.mem_cons.1 hp with rfl | hp
    · exact aggInd h a
    · exact aggIndKids h rest p hp
end

/-! ### arithmetic on `Val` -/

theorem fin_mul_fin (a b : Rat) : (Val.fin a * Val.fin b : Val) = .fin (a * b) := rfl
theorem fin_add_fin (a b : Rat) : (Val.fin a + Val.fin b : Val) = .fin (a + b) := rfl
theorem zero_eq : (0 : Val) = .fin 0 := by
  show Val.fin ((0 : Nat) : Rat) = .fin 0
  simp

theorem mul_nan (f : Val) : f * Val.nan = .nan := by
  cases f <;> rfl

theorem posFin_pos {f : Val} (hf : f.posFin) : f.pos = true := by
  obtain ⟨q, rfl, hq⟩ := hf
  simp [Val.pos, Val.lt, hq]

theorem posFin_mul_pinf {f : Val} (hf : f.posFin) : f * Val.pinf = .pinf := by
  obtain ⟨q, rfl, hq⟩ := hf
  show Val.infTimes true q = _
  have : q ≠ 0 := ne_of_gt hq
  simp [Val.infTimes, this, hq]

theorem posFin_mul_ninf {f : Val} (hf : f.posFin) : f * Val.ninf = .ninf := by
  obtain ⟨q, rfl, hq⟩ := hf
  show Val.infTimes false q = _
  have : q ≠ 0 := ne_of_gt hq
  simp [Val.infTimes, this, hq]

/-- the gate is invariant under a positive finite factor -/
theorem pos_mul {f : Val} (hf : f.posFin) (w : Val) : (f * w).pos = w.pos := by
  cases w with
  | fin b =>
    obtain ⟨q, rfl, hq⟩ := hf
    simp only [fin_mul_fin, Val.pos, Val.lt]
    by_cases hb : 0 < b
    · have : 0 < q * b := mul_pos hq hb
      simp [hb, this]
    · have : ¬ 0 < q * b := by
        intro h
        have hb' : b ≤ 0 := not_lt.1 hb
        have := mul_nonpos_of_nonneg_of_nonpos (le_of_lt hq) hb'
        linarith
      simp [hb, this]
  | pinf => rw [posFin_mul_pinf hf]
  | ninf => rw [posFin_mul_ninf hf]
  | nan => rw [mul_nan]

theorem posFin_mul {f w : Val} (hf : f.posFin) (hw : w.posFin) : (f * w).posFin := by
  obtain ⟨q, rfl, hq⟩ := hf
  obtain ⟨b, rfl, hb⟩ := hw
  exact ⟨q * b, rfl, mul_pos hq hb⟩

/-- `x * (f * w) = f * (x * w)` for positive finite `f`, `w` and any `x` -/
theorem mul_left_comm' {f w : Val} (hf : f.posFin) (hw : w.posFin) (x : Val) :
    x * (f * w) = f * (x * w) := by
  obtain ⟨q, rfl, hq⟩ := hf
  obtain ⟨b, rfl, hb⟩ := hw
  have hqb : 0 < q * b := mul_pos hq hb
  have hqb0 : q * b ≠ 0 := ne_of_gt hqb
  have hb0 : b ≠ 0 := ne_of_gt hb
  have hq0 : q ≠ 0 := ne_of_gt hq
  cases x with
  | fin a => simp only [fin_mul_fin]; congr 1; ring
  | pinf =>
    show Val.infTimes true (q * b) = Val.fin q * Val.infTimes true b
    simp only [Val.infTimes, hqb0, hb0, hqb, hb, if_false, decide_true, if_true]
    show _ = Val.infTimes true q
    simp [Val.infTimes, hq0, hq]
  | ninf =>
    show Val.infTimes false (q * b) = Val.fin q * Val.infTimes false b
    simp only [Val.infTimes, hqb0, hb0, hqb, hb, if_false, decide_true]
    show _ = Val.infTimes false q
    simp [Val.infTimes, hq0, hq]
  | nan => rfl

theorem mul_add_fin {f : Val} (hf : f.posFin) (a b : Rat) :
    f * (Val.fin a + Val.fin b) = f * Val.fin a + f * Val.fin b := by
  obtain ⟨q, rfl, _⟩ := hf
  simp only [fin_mul_fin, fin_add_fin]
  congr 1; ring

theorem isOk_eq {o : Outcome} (h : o.isOk = true) : o = .ok := by
  cases o <;> simp_all [Outcome.isOk]

theorem isZero_eq {e : Val} (h : e.isZero = true) : e = .fin 0 := by
  cases e <;> simp_all [Val.isZero]

/-! ### `scale` basics -/

theorem leafMul_zero (k : Kind) {f : Val} (hf : f.posFin) : leafMul k (St.zero k) f = St.zero k := by
  obtain ⟨q, rfl, _⟩ := hf
  cases k <;> simp [leafMul, St.zero, zero_eq, fin_mul_fin, mul_nan]

theorem scaleKids_id (f : Val) : ∀ (kids : List (Key × Agg)), (∀ p ∈ kids, scale p.2 f = p.2) →
    scaleKids kids f = kids
  | [], _ => by simp [scaleKids]
  | (key, a) :: rest, h => by
    have h1 : scale a f = a := h (key, a) (by simp)
    have h2 := scaleKids_id f rest (fun p hp => h p (by simp [hp]))
    simp [scaleKids, h1, h2]

theorem isZeroKids_mem : ∀ (kids : List (Key × Agg)), isZeroKids kids = true → ∀ p ∈ kids, isZeroTree p.2 = true
  | [], _, p, hp => by cases hp
  | (key, a) :: rest, h, p, hp => by
    simp only [isZeroKids, Bool.and_eq_true] at h
    rcases List.mem_cons.1 hp with rfl | hp
    · exact h.1
    · exact isZeroKids_mem rest h.2 p hp

theorem scale_zeroTree' {f : Val} (hf : f.posFin) : ∀ z : Agg, isZeroTree z = true → scale z f = z := by
  apply aggInd
  intro k e st tmpl kids _ ihk hz
  simp only [isZeroTree, Bool.and_eq_true, decide_eq_true_eq] at hz
  obtain ⟨⟨⟨he, hst⟩, _⟩, hkids⟩ := hz
  have he' := isZero_eq he
  subst he' hst
  have hk : scaleKids kids f = kids :=
    scaleKids_id f kids (fun p hp => ihk p hp (isZeroKids_mem kids hkids p hp))
  obtain ⟨q, rfl, hq⟩ := hf
  simp only [scale, hk, leafMul_zero k ⟨q, rfl, hq⟩, fin_mul_fin, mul_zero]

end ScF

set_option linter.unusedVariables false in
/-- scaling an empty tree changes nothing -/
theorem scale_zeroTree (z : Agg) (f : Val) (hg : good z = true) (hz : isZeroTree z = true) (hf : f.posFin) :
    scale z f = z :=
  ScF.scale_zeroTree' hf z hz

namespace ScF

/-! ### `scaleKids` bookkeeping -/

theorem keysOf_scaleKids (f : Val) : ∀ kids : List (Key × Agg), keysOf (scaleKids kids f) = keysOf kids
  | [] => by simp [scaleKids, keysOf]
  | (key, a) :: rest => by
    have := keysOf_scaleKids f rest
    simp only [keysOf] at this
    simp [scaleKids, keysOf, this]

theorem lookupK_scaleKids (f : Val) (key : Key) : ∀ kids : List (Key × Agg),
    lookupK key (scaleKids kids f) = (lookupK key kids).map (fun a => scale a f)
  | [] => by simp [scaleKids, lookupK]
  | (k', a) :: rest => by
    simp only [scaleKids, lookupK]
    split
    · simp
    · exact lookupK_scaleKids f key rest

theorem hasKey_scaleKids (f : Val) (key : Key) (kids : List (Key × Agg)) :
    hasKey key (scaleKids kids f) = hasKey key kids := by
  simp [hasKey, lookupK_scaleKids]

theorem insertK_scaleKids (f : Val) (key : Key) (nb : Agg) : ∀ kids : List (Key × Agg),
    insertK key (scale nb f) (scaleKids kids f) = scaleKids (insertK key nb kids) f
  | [] => by simp [scaleKids, insertK]
  | (k', a) :: rest => by
    simp only [scaleKids, insertK]
    split
    · simp [scaleKids]
    · simp [scaleKids, insertK_scaleKids f key nb rest]

/-- the scaled target list -/
def scT (f : Val) (targets : List (Key × Val)) : List (Key × Val) := targets.map (fun kw => (kw.1, f * kw.2))

theorem lookupK_scT (f : Val) (key : Key) : ∀ targets : List (Key × Val),
    lookupK key (scT f targets) = (lookupK key targets).map (fun w => f * w)
  | [] => by simp [scT, lookupK]
  | (k', a) :: rest => by
    have ih := lookupK_scT f key rest
    simp only [scT, List.map_cons, lookupK] at ih ⊢
    split
    · simp
    · exact ih


/-! ### entries after a fill -/

theorem meanUpdate_fst (e m x w : Val) : (meanUpdate e m x w).1 = e + w := by
  simp only [meanUpdate]
  split_ifs <;> rfl

theorem leafFill_entries (k : Kind) (e : Val) (st : St) (d : Datum) (w e' : Val) (st' : St)
    (h : leafFill k e st d w = .ok (e', st')) : e' = e + w := by
  unfold leafFill at h
  split at h
  · simp at h; exact h.1.symm
  · cases hx : Qty.evalNum ‹Qty› d <;> simp [hx, bind, Except.bind, pure, Except.pure] at h
    exact h.1.symm
  · cases hx : Qty.evalNum ‹Qty› d <;> simp [hx, bind, Except.bind, pure, Except.pure] at h
    rw [← h.1]; exact meanUpdate_fst ..
  · cases hx : Qty.evalNum ‹Qty› d <;> simp [hx, bind, Except.bind, pure, Except.pure] at h
    rw [← h.1]; exact meanUpdate_fst ..
  · cases hx : Qty.evalNum ‹Qty› d <;> simp [hx, bind, Except.bind, pure, Except.pure] at h
    exact h.1.symm
  · cases hx : Qty.evalNum ‹Qty› d <;> simp [hx, bind, Except.bind, pure, Except.pure] at h
    exact h.1.symm
  · cases hx : Qty.evalBag ‹Qty› ‹BagRange› d <;> simp [hx, bind, Except.bind, pure, Except.pure] at h
    exact h.1.symm
  · simp at h

/-! ### unfolding `fill` -/

theorem fill_closed (t : Agg) (d : Datum) (w : Val) (hw : w.pos = false) : fill t d w = (t, .ok) := by
  cases t; simp [fill, hw]

theorem fill_leaf_ok (k : Kind) (e : Val) (st : St) (tmpl : Option Agg) (kids : List (Key × Agg)) (d : Datum) (w : Val)
    (e' : Val) (st' : St)
    (hw : w.pos = true) (hk : k.isLeaf = true) (hl : leafFill k e st d w = .ok (e', st')) :
    fill (.node k e st tmpl kids) d w = (.node k e' st' tmpl kids, .ok) := by
  simp [fill, hw, hk, hl]

theorem fill_leaf_err (k : Kind) (e : Val) (st : St) (tmpl : Option Agg) (kids : List (Key × Agg)) (d : Datum) (w : Val)
    (f : Fault)
    (hw : w.pos = true) (hk : k.isLeaf = true) (hl : leafFill k e st d w = .error f) :
    fill (.node k e st tmpl kids) d w = (.node k e st tmpl kids, .raised f) := by
  simp [fill, hw, hk, hl]

theorem fill_route_err (k : Kind) (e : Val) (st : St) (tmpl : Option Agg) (kids : List (Key × Agg)) (d : Datum) (w : Val)
    (f : Fault)
    (hw : w.pos = true) (hk : k.isLeaf = false) (hr : route k (keysOf kids) d w = .error f) :
    fill (.node k e st tmpl kids) d w = (.node k e st tmpl kids, .raised f) := by
  simp [fill, hw, hk, hr]

theorem fill_dense (k : Kind) (e : Val) (st : St) (tmpl : Option Agg) (kids : List (Key × Agg)) (d : Datum) (w : Val)
    (targets : List (Key × Val))
    (hw : w.pos = true) (hk : k.isLeaf = false) (hs : k.isSparse = false)
    (hr : route k (keysOf kids) d w = .ok targets) :
    fill (.node k e st tmpl kids) d w =
      (.node k (if (fillKids kids targets d).2.isOk then e + w else e) st tmpl (fillKids kids targets d).1,
        (fillKids kids targets d).2) := by
  simp [fill, hw, hk, hr, hs]

theorem fill_sparse_old (k : Kind) (e : Val) (st : St) (tmpl : Option Agg) (kids : List (Key × Agg)) (d : Datum) (w : Val)
    (key : Key) (w' : Val)
    (hw : w.pos = true) (hk : k.isLeaf = false)
    (hr : route k (keysOf kids) d w = .ok [(key, w')]) (hh : hasKey key kids = true) :
    fill (.node k e st tmpl kids) d w =
      (.node k (if (fillKids kids [(key, w')] d).2.isOk then e + w else e) st tmpl (fillKids kids [(key, w')] d).1,
        (fillKids kids [(key, w')] d).2) := by
  cases hs : k.isSparse <;> simp [fill, hw, hk, hr, hs, hh]

theorem fill_sparse_new_ok (k : Kind) (e : Val) (st : St) (tmpl : Option Agg) (kids : List (Key × Agg)) (d : Datum) (w : Val)
    (key : Key) (w' : Val) (nb : Agg)
    (hw : w.pos = true) (hk : k.isLeaf = false) (hs : k.isSparse = true)
    (hr : route k (keysOf kids) d w = .ok [(key, w')]) (hh : hasKey key kids = false)
    (ht : fillTmpl tmpl d w' = some (nb, .ok)) :
    fill (.node k e st tmpl kids) d w = (.node k (e + w) st tmpl (insertK key nb kids), .ok) := by
  simp [fill, hw, hk, hr, hs, hh, ht]

theorem fill_sparse_new_inv (k : Kind) (e : Val) (st : St) (tmpl : Option Agg) (kids : List (Key × Agg)) (d : Datum) (w : Val)
    (key : Key) (w' : Val)
    (hw : w.pos = true) (hk : k.isLeaf = false) (hs : k.isSparse = true)
    (hr : route k (keysOf kids) d w = .ok [(key, w')]) (hh : hasKey key kids = false)
    (hok : (fill (.node k e st tmpl kids) d w).2 = .ok) :
    ∃ nb, fillTmpl tmpl d w' = some (nb, .ok) := by
  simp [fill, hw, hk, hr, hs, hh] at hok
  split at hok
  · exact ⟨_, ‹_›⟩
  · simp at hok
  · simp at hok

theorem route_sparse_single (k : Kind) (keys : List Key) (d : Datum) (w : Val) (targets : List (Key × Val))
    (hs : k.isSparse = true) (hr : route k keys d w = .ok targets) : ∃ key, targets = [(key, w)] := by
  cases k <;> simp [Kind.isSparse] at hs
  · simp only [route] at hr
    cases hx : Qty.evalNum ‹Qty› d <;> simp [hx, bind, Except.bind, pure, Except.pure] at hr
    exact ⟨_, hr.symm⟩
  · simp only [route] at hr
    split at hr
    · simp at hr
    · split at hr <;> simp [pure, Except.pure] at hr <;> exact ⟨_, hr.symm⟩

/-! ### routing a scaled weight -/

theorem route_scale (k : Kind) (keys : List Key) (d : Datum) {w f : Val} (targets : List (Key × Val))
    (hw : w.posFin) (hf : f.posFin) (hr : route k keys d w = .ok targets) :
    route k keys d (f * w) = .ok (scT f targets) := by
  cases k
  case bin q n lo hi =>
    simp only [route] at hr ⊢
    cases hx : Qty.evalNum q d <;> simp [hx, bind, Except.bind, pure, Except.pure] at hr ⊢
    subst hr; simp [scT]
  case sparse q wd o c n =>
    simp only [route] at hr ⊢
    cases hx : Qty.evalNum q d <;> simp [hx, bind, Except.bind, pure, Except.pure] at hr ⊢
    subst hr; simp [scT]
  case central q =>
    simp only [route] at hr ⊢
    cases hx : Qty.evalNum q d <;> simp [hx, bind, Except.bind, pure, Except.pure] at hr ⊢
    split at hr
    · simp at hr; subst hr; simp [scT, *]
    · split at hr
      · simp at hr; subst hr; simp [scT, *]
      · simp at hr
  case irregular q =>
    simp only [route] at hr ⊢
    cases hx : Qty.evalNum q d <;> simp [hx, bind, Except.bind, pure, Except.pure] at hr ⊢
    split at hr
    · simp at hr; subst hr; simp [scT, *]
    · split at hr
      · simp at hr; subst hr; simp [scT, *]
      · simp at hr; subst hr; simp [scT, *]
  case stack q =>
    simp only [route] at hr ⊢
    cases hx : Qty.evalNum q d <;> simp [hx, bind, Except.bind, pure, Except.pure] at hr ⊢
    split at hr
    · simp at hr; subst hr; simp [scT, *]
    · simp at hr; subst hr; simp [scT, *, List.map_filterMap]
  case fraction q =>
    simp only [route] at hr ⊢
    cases hx : Qty.evalNum q d <;> simp [hx, bind, Except.bind, pure, Except.pure] at hr ⊢
    subst hr
    rename_i x
    rw [mul_left_comm' hf hw x, pos_mul hf]
    split <;> simp [scT]
  case select q =>
    simp only [route] at hr ⊢
    cases hx : Qty.evalNum q d <;> simp [hx, bind, Except.bind, pure, Except.pure] at hr ⊢
    subst hr
    rename_i x
    rw [mul_left_comm' hf hw x, pos_mul hf]
    split <;> simp [scT]
  case categorize q c n =>
    simp only [route] at hr ⊢
    split at hr
    · simp at hr
    · rename_i hl
      simp only [hl]
      split at hr <;> simp [pure, Except.pure] at hr ⊢ <;> subst hr <;> simp [scT]
  case label => simp [route, pure, Except.pure] at hr ⊢; subst hr; simp [scT]
  case untypedLabel => simp [route, pure, Except.pure] at hr ⊢; subst hr; simp [scT]
  case index => simp [route, pure, Except.pure] at hr ⊢; subst hr; simp [scT]
  case branch => simp [route, pure, Except.pure] at hr ⊢; subst hr; simp [scT]
  all_goals simp [route] at hr

end ScF

namespace ScF

/-! ### consequences of `good` -/

theorem good_entries {k : Kind} {e : Val} {st : St} {tmpl : Option Agg} {kids : List (Key × Agg)}
    (h : good (.node k e st tmpl kids) = true) : ∃ q, e = .fin q := by
  simp only [good, Bool.and_eq_true] at h
  obtain ⟨⟨⟨⟨⟨h1, _⟩, _⟩, _⟩, _⟩, _⟩ := h
  cases e with
  | fin q => exact ⟨q, rfl⟩
  | _ => cases hk : k.isLeaf <;> simp [hk, leafGood, leafGoodCore] at h1

theorem good_kids {k : Kind} {e : Val} {st : St} {tmpl : Option Agg} {kids : List (Key × Agg)}
    (h : good (.node k e st tmpl kids) = true) : goodKids kids = true := by
  simp only [good, Bool.and_eq_true] at h
  exact h.1.1.1.2

theorem good_tmpl {k : Kind} {e : Val} {st : St} {tmpl : Option Agg} {kids : List (Key × Agg)}
    (h : good (.node k e st tmpl kids) = true) : goodTmpl tmpl = true := by
  simp only [good, Bool.and_eq_true] at h
  exact h.1.1.2

theorem good_leaf {k : Kind} {e : Val} {st : St} {tmpl : Option Agg} {kids : List (Key × Agg)}
    (h : good (.node k e st tmpl kids) = true) (hk : k.isLeaf = true) : leafGood k e st = true := by
  simp only [good, Bool.and_eq_true, hk, if_true] at h
  exact h.1.1.1.1.1

theorem goodKids_insertK (key : Key) (nb : Agg) : ∀ kids : List (Key × Agg),
    goodKids (insertK key nb kids) = true → good nb = true
  | [], h => by simpa [insertK, goodKids] using h
  | (k', a) :: rest, h => by
    simp only [insertK] at h
    split at h
    · simp only [goodKids, Bool.and_eq_true] at h; exact h.1
    · simp only [goodKids, Bool.and_eq_true] at h; exact goodKids_insertK key nb rest h.2

theorem fill_entries (k : Kind) (e : Val) (st : St) (tmpl : Option Agg) (kids : List (Key × Agg)) (d : Datum) (w : Val)
    (hw : w.pos = true) (hok : (fill (.node k e st tmpl kids) d w).2 = .ok) :
    (fill (.node k e st tmpl kids) d w).1.entries = e + w := by
  cases hk : k.isLeaf
  · cases hr : route k (keysOf kids) d w with
    | error f => rw [fill_route_err k e st tmpl kids d w f hw hk hr] at hok; simp at hok
    | ok targets =>
      cases hs : k.isSparse
      · rw [fill_dense k e st tmpl kids d w targets hw hk hs hr] at hok ⊢
        simp only at hok
        simp [hok, Outcome.isOk, Agg.entries]
      · obtain ⟨key, rfl⟩ := route_sparse_single k _ d w targets hs hr
        cases hh : hasKey key kids
        · obtain ⟨nb, hnb⟩ := fill_sparse_new_inv k e st tmpl kids d w key w hw hk hs hr hh hok
          rw [fill_sparse_new_ok k e st tmpl kids d w key w nb hw hk hs hr hh hnb]
          rfl
        · rw [fill_sparse_old k e st tmpl kids d w key w hw hk hr hh] at hok ⊢
          simp only at hok
          simp [hok, Outcome.isOk, Agg.entries]
  · cases hl : leafFill k e st d w with
    | error f => rw [fill_leaf_err k e st tmpl kids d w f hw hk hl] at hok; simp at hok
    | ok r =>
      obtain ⟨e', st'⟩ := r
      rw [fill_leaf_ok k e st tmpl kids d w e' st' hw hk hl]
      exact leafFill_entries k e st d w e' st' hl

/-- an open gate together with a good result forces a finite weight -/
theorem posFin_of_good (t : Agg) (d : Datum) (w : Val) (hg : good t = true)
    (hg' : good (fill t d w).1 = true) (hok : (fill t d w).2 = .ok) (hw : w.pos = true) : w.posFin := by
  obtain ⟨k, e, st, tmpl, kids⟩ := t
  have he := fill_entries k e st tmpl kids d w hw hok
  obtain ⟨a, rfl⟩ := good_entries hg
  generalize fill (.node k (.fin a) st tmpl kids) d w = r at he hg'
  obtain ⟨⟨k', e', st', tmpl', kids'⟩, o⟩ := r
  obtain ⟨c, rfl⟩ := good_entries hg'
  simp only [Agg.entries] at he
  cases w with
  | fin b => exact ⟨b, rfl, by simpa [Val.pos, Val.lt] using hw⟩
  | _ => cases he

/-- the induction predicate of `scale_fill` (no hypothesis on the weight) -/
def PAgg (f : Val) (t : Agg) : Prop :=
  ∀ (d : Datum) (w : Val), good t = true → good (fill t d w).1 = true → (fill t d w).2 = .ok →
    fill (scale t f) d (f * w) = (scale (fill t d w).1 f, .ok)

theorem fillKids_scale (f : Val) : ∀ (kids : List (Key × Agg)) (targets : List (Key × Val)) (d : Datum),
    (∀ p ∈ kids, PAgg f p.2) → goodKids kids = true → goodKids (fillKids kids targets d).1 = true →
    (fillKids kids targets d).2 = .ok →
    fillKids (scaleKids kids f) (scT f targets) d = (scaleKids (fillKids kids targets d).1 f, .ok)
  | [], _, _, _, _, _, _ => by simp [fillKids, scaleKids]
  | (key, a) :: rest, targets, d, ih, hg, hg', hok => by
    have iha : PAgg f a := ih (key, a) (by simp)
    have ihr := fillKids_scale f rest targets d (fun p hp => ih p (by simp [hp]))
    simp only [goodKids, Bool.and_eq_true] at hg
    simp only [scaleKids, fillKids, lookupK_scT] at hg' hok ⊢
    cases hl : lookupK key targets with
    | none =>
      simp only [hl, goodKids, Bool.and_eq_true] at hg' hok
      have := ihr hg.2 hg'.2 hok
      simp [this, scaleKids]
    | some w' =>
      simp only [hl, Option.map_some] at hg' hok ⊢
      cases hra : (fill a d w').2.isOk
      · simp [hra] at hok
        rw [hok] at hra; simp [Outcome.isOk] at hra
      · simp only [hra, if_true, goodKids, Bool.and_eq_true] at hg' hok
        have h1 := iha d w' hg.1 hg'.1 (isOk_eq hra)
        have h2 := ihr hg.2 hg'.2 hok
        simp only [if_true, h1]
        simp [h2, Outcome.isOk, scaleKids]

end ScF

namespace ScF

/-! ### the induction -/

theorem pAgg_all {f : Val} (hf : f.posFin) : ∀ t : Agg, PAgg f t := by
  apply aggInd
  intro k e st tmpl kids iht ihk d w hg hg' hok
  cases hwp : w.pos
  · -- gate closed on both sides
    have hfw : (f * w).pos = false := by rw [pos_mul hf, hwp]
    rw [fill_closed _ d w hwp, fill_closed _ d (f * w) hfw]
  · have hw : w.posFin := posFin_of_good _ d w hg hg' hok hwp
    have hfw : (f * w).pos = true := posFin_pos (posFin_mul hf hw)
    obtain ⟨a, rfl⟩ := good_entries hg
    obtain ⟨b, rfl, hb⟩ := hw
    have hw : (Val.fin b).posFin := ⟨b, rfl, hb⟩
    have hgk := good_kids hg
    have hm : f * Val.fin (a + b) = f * Val.fin a + f * Val.fin b := by
      rw [← mul_add_fin hf, fin_add_fin]
    cases hk : k.isLeaf
    · cases hr : route k (keysOf kids) d (.fin b) with
      | error ft => rw [fill_route_err k _ st tmpl kids d _ ft hwp hk hr] at hok; simp at hok
      | ok targets =>
        have hr' : route k (keysOf (scaleKids kids f)) d (f * .fin b) = .ok (scT f targets) := by
          rw [keysOf_scaleKids]; exact route_scale k _ d targets hw hf hr
        cases hs : k.isSparse
        · rw [fill_dense k _ st tmpl kids d _ targets hwp hk hs hr] at hok hg' ⊢
          simp only at hok hg'
          have hkids := fillKids_scale f kids targets d ihk hgk (good_kids hg') hok
          simp only [scale]
          rw [fill_dense k _ _ tmpl _ d _ (scT f targets) hfw hk hs hr', hkids]
          simp [hok, Outcome.isOk, hm]
        · obtain ⟨key, rfl⟩ := route_sparse_single k _ d _ targets hs hr
          cases hh : hasKey key kids
          · obtain ⟨nb, hnb⟩ := fill_sparse_new_inv k _ st tmpl kids d _ key _ hwp hk hs hr hh hok
            rw [fill_sparse_new_ok k _ st tmpl kids d _ key _ nb hwp hk hs hr hh hnb] at hg' ⊢
            simp only at hg'
            have hgnb : good nb = true := goodKids_insertK key nb kids (good_kids hg')
            cases tmpl with
            | none => simp [fillTmpl] at hnb
            | some tm =>
              simp only [fillTmpl, Option.some.injEq] at hnb
              have hgt := good_tmpl hg
              simp only [goodTmpl, Bool.and_eq_true] at hgt
              have h1 := iht tm rfl d (.fin b) hgt.1 (by rw [hnb]; exact hgnb) (by rw [hnb])
              rw [scale_zeroTree' hf tm hgt.2, hnb] at h1
              simp only at h1
              simp only [scale]
              have hh' : hasKey key (scaleKids kids f) = false := by rw [hasKey_scaleKids]; exact hh
              rw [fill_sparse_new_ok k _ _ (some tm) _ d _ key _ (scale nb f) hfw hk hs hr' hh'
                (by simp only [fillTmpl, h1])]
              simp [insertK_scaleKids, hm]
          · rw [fill_sparse_old k _ st tmpl kids d _ key _ hwp hk hr hh] at hok hg' ⊢
            simp only at hok hg'
            have hkids := fillKids_scale f kids _ d ihk hgk (good_kids hg') hok
            simp only [scale]
            have hh' : hasKey key (scaleKids kids f) = true := by rw [hasKey_scaleKids]; exact hh
            rw [fill_sparse_old k _ _ tmpl _ d _ key _ hfw hk hr' hh']
            simp only [scT, List.map_cons, List.map_nil] at hkids
            rw [hkids]
            simp [hok, Outcome.isOk, hm]
    · cases hl : leafFill k (.fin a) st d (.fin b) with
      | error ft => rw [fill_leaf_err k _ st tmpl kids d _ ft hwp hk hl] at hok; simp at hok
      | ok r =>
        obtain ⟨e', st'⟩ := r
        rw [fill_leaf_ok k _ st tmpl kids d _ e' st' hwp hk hl]
        have := leafMul_fill k _ st d _ f e' st' hk (good_leaf hg hk) hw hf hl
        simp only [scale]
        rw [fill_leaf_ok k _ _ tmpl _ d _ _ _ hfw hk this]

end ScF

set_option linter.unusedVariables false in
/-- one fill commutes with scaling: scaling after the fill equals filling the scaled tree with the
scaled weight -/
theorem scale_fill (t : Agg) (d : Datum) (w f : Val) (hg : good t = true) (hw : w.okWeight = true)
    (hg' : good (fill t d w).1 = true) (hok : (fill t d w).2 = .ok) (hf : f.posFin) :
    fill (scale t f) d (f * w) = (scale (fill t d w).1 f, .ok) :=
  ScF.pAgg_all hf t d w hg hg' hok

namespace ScF

theorem goodRun_good : ∀ (t : Agg) (s : List (Datum × Val)), goodRun t s = true → good t = true
  | _, [], h => by simpa [goodRun] using h
  | _, _ :: _, h => by
    simp only [goodRun, Bool.and_eq_true] at h
    exact h.1.1.1

theorem scale_fillAll {f : Val} (hf : f.posFin) : ∀ (s : List (Datum × Val)) (t : Agg), goodRun t s = true →
    scale (fillAll t s) f = fillAll (scale t f) (s.map (fun dw => (dw.1, f * dw.2)))
  | [], t, _ => by simp [fillAll]
  | dw :: rest, t, h => by
    have h' := h
    simp only [goodRun, Bool.and_eq_true] at h'
    obtain ⟨⟨⟨hg, hw⟩, hok⟩, hrest⟩ := h'
    have hsf := scale_fill t dw.1 dw.2 f hg hw (goodRun_good _ _ hrest) (isOk_eq hok) hf
    have ih := scale_fillAll hf rest _ hrest
    simp only [fillAll, List.foldl_cons, List.map_cons] at ih ⊢
    rw [hsf]
    exact ih

end ScF

/-- `h * f` equals refilling the same data with every weight multiplied by `f` -/
theorem mul_eq_refill (z : Agg) (s : List (Datum × Val)) (f : Val) (hz : isZeroTree z = true)
    (hrun : goodRun z s = true) (hf : f.posFin) :
    mul (fillAll z s) f = fillAll z (s.map (fun dw => (dw.1, f * dw.2))) := by
  have h := ScF.scale_fillAll hf s z hrun
  rw [scale_zeroTree z f (ScF.goodRun_good z s hrun) hz hf] at h
  simp only [mul, ScF.posFin_pos hf, if_true]
  exact h

end Hg
