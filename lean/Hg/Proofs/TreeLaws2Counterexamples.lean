/-
  Hg.Proofs.TreeLaws2Counterexamples — why the TreeLaws2 statements carry the extra hypothesis
  `hasTmpl` (Hg/Model/Live.lean).  Each block refutes a statement as originally given
  (hypotheses `good`, `sameBase`, `okWeight` only).  (`sameBase`/`good` are defined by well-founded
  recursion and do not reduce in the kernel, hence the `simp` unfolding instead of a bare `decide`.)
-/
import Hg.Model.WF
import Hg.Model.Live

namespace Hg.TreeLaws2Counterexamples

def q1 : Qty := ⟨0, none, true⟩
def q2 : Qty := ⟨1, none, true⟩
def cnt : Agg := .node .count 0 .unit none []
def cnt1 : Agg := .node .count 1 .unit none []
def sm (q : Qty) : Agg := .node (.sum q) 1 (.sum 1) none []

/-! #### 1. template-less sparse nodes: `good`/`sameBase` say nothing about their bins -/

def A : Agg := .node (.sparse q1 1 0 "Sum" none) 1 .unit none [(.nanflow, cnt), (.idx 0, sm q1)]
def B : Agg := .node (.sparse q1 1 0 "Sum" none) 1 .unit none [(.nanflow, cnt), (.idx 0, sm q2)]
def B2 : Agg := .node (.sparse q1 1 0 "Sum" none) 1 .unit none [(.nanflow, cnt), (.idx 0, cnt)]

theorem good_A : good A = true := by
  simp [A, cnt, sm, good, goodKids, goodTmpl, sameBaseTmpl, Kind.isSparse, Kind.isLeaf, keysOf]
  decide +kernel
theorem good_B : good B = true := by
  simp [B, cnt, sm, good, goodKids, goodTmpl, sameBaseTmpl, Kind.isSparse, Kind.isLeaf, keysOf]
  decide +kernel
theorem good_B2 : good B2 = true := by
  simp [B2, cnt, good, goodKids, goodTmpl, sameBaseTmpl, Kind.isSparse, Kind.isLeaf, keysOf]
  decide +kernel
theorem sameBase_A_B : sameBase A B = true := by
  simp [A, B, cnt, sm, sameBase, sameBaseFlow, sameBaseTmpl, sameBaseZip, lookupK, Kind.isSparse]
theorem sameBase_A_B2 : sameBase A B2 = true := by
  simp [A, B2, cnt, sm, sameBase, sameBaseFlow, sameBaseTmpl, sameBaseZip, lookupK, Kind.isSparse]

/-- original `add_comm'` fails: the shared bin keeps the kind (quantity) of the left operand -/
theorem add_comm_fails : good A = true ∧ good B = true ∧ sameBase A B = true ∧ add A B ≠ add B A :=
  ⟨good_A, good_B, sameBase_A_B, by decide +kernel⟩

/-- (`compat_of_sameBase` of TreeLaws1 fails for the same reason) -/
theorem compat_fails : good A = true ∧ good B2 = true ∧ sameBase A B2 = true ∧ compat A B2 = false :=
  ⟨good_A, good_B2, sameBase_A_B2, by decide +kernel⟩

/-! #### 2. a template that itself holds an (empty) bin: allowed by `goodTmpl`/`isZeroTree` -/

def K0 : Kind := .sparse q1 1 0 "Count" none
def K1 : Kind := .sparse q1 1 0 "SparselyBin" none
def T : Agg := .node K0 0 .unit (some cnt) [(.nanflow, cnt), (.idx 5, cnt)]
def Bi : Agg := .node K0 1 .unit (some cnt) [(.nanflow, cnt), (.idx 0, cnt1)]
def A' : Agg := .node K1 0 .unit (some T) [(.nanflow, T)]
def B' : Agg := .node K1 1 .unit (some T) [(.nanflow, T), (.idx 0, Bi)]
def d : Datum := [.num (.fin 0)]
/-- `A'` after `fill d 1`: a new bin `idx 0`, copied from the template `T` and filled -/
def NB : Agg := .node K0 1 .unit (some cnt) [(.nanflow, cnt), (.idx 0, cnt1), (.idx 5, cnt)]
def FA : Agg := .node K1 1 .unit (some T) [(.nanflow, T), (.idx 0, NB)]

theorem fill_A' : fill A' d 1 = (FA, .ok) := by decide +kernel

theorem sb_cnt : sameBase cnt cnt = true := by simp [cnt, sameBase, sameBaseZip, Kind.isSparse]
theorem sb_cnt1 : sameBase cnt cnt1 = true := by simp [cnt, cnt1, sameBase, sameBaseZip, Kind.isSparse]
theorem sb_T_T : sameBase T T = true := by
  simp [T, K0, sameBase, sameBaseFlow, sameBaseTmpl, sameBaseBins, lookupK, Kind.isSparse, sb_cnt]
theorem sb_T_Bi : sameBase T Bi = true := by
  simp [T, Bi, K0, sameBase, sameBaseFlow, sameBaseTmpl, sameBaseBins, lookupK, Kind.isSparse, sb_cnt, sb_cnt1]
theorem sb_T_NB : sameBase T NB = true := by
  simp [T, NB, K0, sameBase, sameBaseFlow, sameBaseTmpl, sameBaseBins, lookupK, Kind.isSparse, sb_cnt, sb_cnt1]
theorem good_cnt : good cnt = true := by decide +kernel
theorem good_cnt1 : good cnt1 = true := by decide +kernel
theorem zero_cnt : isZeroTree cnt = true := by decide +kernel
theorem good_T : good T = true := by
  simp [T, K0, good, goodKids, goodTmpl, sameBaseTmpl, sameBaseBins, Kind.isSparse, Kind.isLeaf, keysOf,
    good_cnt, zero_cnt, sb_cnt]
  decide +kernel
theorem good_Bi : good Bi = true := by
  simp [Bi, K0, good, goodKids, goodTmpl, sameBaseTmpl, sameBaseBins, Kind.isSparse, Kind.isLeaf, keysOf,
    good_cnt, good_cnt1, zero_cnt, sb_cnt1]
  decide +kernel
theorem good_NB : good NB = true := by
  simp [NB, K0, good, goodKids, goodTmpl, sameBaseTmpl, sameBaseBins, Kind.isSparse, Kind.isLeaf, keysOf,
    good_cnt, good_cnt1, zero_cnt, sb_cnt, sb_cnt1]
  decide +kernel
theorem zero_T : isZeroTree T = true := by decide +kernel
theorem good_A' : good A' = true := by
  simp [A', K1, good, goodKids, goodTmpl, sameBaseTmpl, sameBaseBins, Kind.isSparse, Kind.isLeaf, keysOf,
    good_T, zero_T]
  decide +kernel
theorem good_B' : good B' = true := by
  simp [B', K1, good, goodKids, goodTmpl, sameBaseTmpl, sameBaseBins, Kind.isSparse, Kind.isLeaf, keysOf,
    good_T, good_Bi, zero_T, sb_T_Bi]
  decide +kernel
theorem good_FA : good FA = true := by
  simp [FA, K1, good, goodKids, goodTmpl, sameBaseTmpl, sameBaseBins, Kind.isSparse, Kind.isLeaf, keysOf,
    good_T, good_NB, zero_T, sb_T_NB]
  decide +kernel
theorem sameBase_A'_B' : sameBase A' B' = true := by
  simp [A', B', K1, sameBase, sameBaseFlow, sameBaseTmpl, sameBaseBins, lookupK, Kind.isSparse, sb_T_T, sb_T_Bi]

/-- original `fill_add_hom` fails even when every sparse node has its template: the fresh bin
copied from `T` holds the empty bin `idx 5`, the corresponding bin of `B'` does not -/
theorem fill_add_hom_fails : good A' = true ∧ good B' = true ∧ sameBase A' B' = true ∧
    (1 : Val).okWeight = true ∧ good (fill A' d 1).1 = true ∧ (fill A' d 1).2 = .ok ∧
    addRaw (fill A' d 1).1 B' ≠ (fill (addRaw A' B') d 1).1 := by
  refine ⟨good_A', good_B', sameBase_A'_B', by decide +kernel, ?_, ?_, by decide +kernel⟩
  · rw [fill_A']; exact good_FA
  · rw [fill_A']

/-- both situations are excluded by `hasTmpl` (templates present, and templates hold no bins) -/
theorem excluded : hasTmpl A = false ∧ hasTmpl A' = false := by decide +kernel

end Hg.TreeLaws2Counterexamples
