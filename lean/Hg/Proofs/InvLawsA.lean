import Hg.Model.Spec
import Hg.Proofs.TreeLaws1
import Mathlib.Tactic.Linarith
import Mathlib.Algebra.Order.Field.Rat

namespace Hg
namespace InvA

/-! ### arithmetic of `Val` -/

theorem val_zero : (0 : Val) = .fin 0 := rfl
theorem add_def (a b : Val) : a + b = Val.add a b := rfl
theorem mul_def (a b : Val) : a * b = Val.mul a b := rfl

theorem vadd_comm (a b : Val) : a + b = b + a := by
  cases a <;> cases b <;> simp [add_def, Val.add, add_comm]

theorem vadd_assoc (a b c : Val) : a + b + c = a + (b + c) := by
  cases a <;> cases b <;> cases c <;> simp [add_def, Val.add, add_assoc]

theorem vzero_add (a : Val) : (0 : Val) + a = a := by
  cases a <;> simp [add_def, val_zero, Val.add]

theorem vadd_zero (a : Val) : a + (0 : Val) = a := by
  cases a <;> simp [add_def, val_zero, Val.add]

/-- `(a + b) + (c + d) = (a + c) + (b + d)` -/
theorem vadd_swap (a b c d : Val) : (a + b) + (c + d) = (a + c) + (b + d) := by
  rw [vadd_assoc, vadd_assoc, ← vadd_assoc b c d, vadd_comm b c, vadd_assoc c b d]

theorem le_zero_add (a b : Val) (ha : Val.le 0 a = true) (hb : Val.le 0 b = true) :
    Val.le 0 (a + b) = true := by
  cases a <;> cases b <;> simp_all [add_def, val_zero, Val.add, Val.le]
  exact add_nonneg ha hb

theorem vmul_add (f a b : Val) (hf : f.posFin) : f * (a + b) = f * a + f * b := by
  obtain ⟨q, rfl, hq⟩ := hf
  have hq' : q ≠ 0 := ne_of_gt hq
  cases a <;> cases b <;> simp [add_def, mul_def, Val.add, Val.mul, Val.infTimes, hq, hq', mul_add]

theorem vmul_zero (f : Val) (hf : f.posFin) : f * (0 : Val) = 0 := by
  obtain ⟨q, rfl, hq⟩ := hf
  simp [mul_def, val_zero, Val.mul]

theorem le_zero_mul (f a : Val) (hf : f.posFin) (ha : Val.le 0 a = true) :
    Val.le 0 (f * a) = true := by
  obtain ⟨q, rfl, hq⟩ := hf
  have hq' : q ≠ 0 := ne_of_gt hq
  cases a <;> simp_all [mul_def, val_zero, Val.mul, Val.le, Val.infTimes]

theorem le_mul_mono (f a b : Val) (hf : f.posFin) (h : Val.le a b = true) :
    Val.le (f * a) (f * b) = true := by
  obtain ⟨q, rfl, hq⟩ := hf
  have hq' : q ≠ 0 := ne_of_gt hq
  cases a <;> cases b <;> simp_all [mul_def, Val.mul, Val.le, Val.infTimes]


/-! ### structure -/

mutual
theorem agg_ind {P : Agg → Prop}
    (h : ∀ k e st tmpl kids, (∀ p ∈ kids, P p.2) → P (.node k e st tmpl kids)) : ∀ a, P a
  | .node k e st tmpl kids => h k e st tmpl kids (agg_ind_kids h kids)
theorem agg_ind_kids {P : Agg → Prop}
    (h : ∀ k e st tmpl kids, (∀ p ∈ kids, P p.2) → P (.node k e st tmpl kids)) :
    ∀ (kids : List (Key × Agg)), ∀ p ∈ kids, P p.2
  | [] => by simp
  | (key, a) :: rest => by
    intro p hp
    rcases List.mem_cons.1 hp with rfl | hp
    · exact agg_ind h a
    · exact agg_ind_kids h rest p hp
end

theorem goodKids_iff (kids : List (Key × Agg)) :
    goodKids kids = true ↔ ∀ p ∈ kids, good p.2 = true := by
  induction kids with
  | nil => simp [goodKids]
  | cons p rest ih => obtain ⟨k, a⟩ := p; simp [goodKids, ih]

theorem invKids_iff (kids : List (Key × Agg)) :
    invKids kids = true ↔ ∀ p ∈ kids, inv p.2 = true := by
  induction kids with
  | nil => simp [invKids]
  | cons p rest ih => obtain ⟨k, a⟩ := p; simp [invKids, ih]

theorem hasTmplKids_iff (kids : List (Key × Agg)) :
    hasTmplKids kids = true ↔ ∀ p ∈ kids, hasTmpl p.2 = true := by
  induction kids with
  | nil => simp [hasTmplKids]
  | cons p rest ih => obtain ⟨k, a⟩ := p; simp [hasTmplKids, ih]

theorem zeroKids_eq (kids : List (Key × Agg)) :
    zeroKids kids = kids.map (fun p => (p.1, zero p.2)) := by
  induction kids with
  | nil => simp [zeroKids]
  | cons p rest ih => obtain ⟨k, a⟩ := p; simp [zeroKids, ih]

theorem zeroFlows_eq (kids : List (Key × Agg)) :
    zeroFlows kids = (kids.filter (fun p => decide (p.1 = .nanflow))).map (fun p => (p.1, zero p.2)) := by
  induction kids with
  | nil => simp [zeroFlows]
  | cons p rest ih =>
    obtain ⟨k, a⟩ := p
    by_cases hk : k = .nanflow <;> simp [zeroFlows, ih, hk]

theorem scaleKids_eq (kids : List (Key × Agg)) (f : Val) :
    scaleKids kids f = kids.map (fun p => (p.1, scale p.2 f)) := by
  induction kids with
  | nil => simp [scaleKids]
  | cons p rest ih => obtain ⟨k, a⟩ := p; simp [scaleKids, ih]

/-- the local (non-recursive) part of `inv` -/
def invLocal (k : Kind) (e : Val) (st : St) (kids : List (Key × Agg)) : Bool :=
  match k, st with
  | .bin .., _ | .sparse .., _ | .central _, _ | .irregular _, _ | .categorize .., _ =>
      decide (sumEntries kids = e)
  | .label, _ | .untypedLabel, _ | .index, _ | .branch, _ =>
      kids.all (fun p => decide (p.2.entries = e))
  | .fraction _, _ =>
      (match lookupK .den kids with
       | some d => decide (d.entries = e)
       | none => false)
  | .stack _, _ =>
      antitoneEntries (binsOf kids) &&
      (match binsOf kids, lookupK .nanflow kids with
       | l0 :: _, some nf => decide (l0.2.entries + nf.entries = e)
       | _, _ => false)
  | .bag _ _, .bag m => decide (bagTotal m = e)
  | _, _ => true

theorem inv_node (k : Kind) (e : Val) (st : St) (t : Option Agg) (kids : List (Key × Agg)) :
    inv (.node k e st t kids) = (Val.le 0 e && invLocal k e st kids && invKids kids) := by
  rw [inv.eq_def]; rfl

theorem entries_zero (t : Agg) : (zero t).entries = 0 := by
  obtain ⟨k, e, st, tmpl, kids⟩ := t
  cases k <;> simp [zero, Agg.entries]

theorem sumEntries_zero (l : List (Key × Agg)) (h : ∀ p ∈ l, p.2.entries = 0) :
    sumEntries l = 0 := by
  induction l with
  | nil => simp [sumEntries]
  | cons p rest ih =>
    obtain ⟨k, a⟩ := p
    simp only [List.mem_cons, forall_eq_or_imp] at h
    simp [sumEntries, h.1, ih h.2, vzero_add]

theorem antitone_zero (l : List (Key × Agg)) (h : ∀ p ∈ l, p.2.entries = 0) :
    antitoneEntries l = true := by
  induction l with
  | nil => simp [antitoneEntries]
  | cons p rest ih =>
    simp only [List.mem_cons, forall_eq_or_imp] at h
    cases rest with
    | nil => simp [antitoneEntries]
    | cons q rest' =>
      have := ih h.2
      simp only [List.mem_cons, forall_eq_or_imp] at h
      simp [antitoneEntries, h.1, h.2.1, this, val_zero, Val.le]


theorem good_parts (k : Kind) (e : Val) (st : St) (tmpl : Option Agg) (kids : List (Key × Agg))
    (hg : good (.node k e st tmpl kids) = true) :
    k.layoutOk (keysOf kids) = true ∧ goodKids kids = true ∧ goodTmpl tmpl = true ∧
    (k.isSparse = true → sameBaseTmpl tmpl kids = true) := by
  rw [good.eq_def] at hg
  simp only [Bool.and_eq_true] at hg
  refine ⟨hg.1.1.1.1.2, hg.1.1.1.2, hg.1.1.2, ?_⟩
  intro hs
  have := hg.1.2
  simpa [hs] using this

theorem keysOf_cons_eq {α : Type} (l : List (Key × α)) (k : Key) (ks : List Key)
    (h : keysOf l = k :: ks) : ∃ a rest, l = (k, a) :: rest ∧ keysOf rest = ks := by
  cases l with
  | nil => simp [keysOf] at h
  | cons p rest =>
    obtain ⟨k', a⟩ := p
    simp only [keysOf, List.map_cons, List.cons.injEq] at h
    exact ⟨a, rest, by rw [h.1], h.2⟩

theorem inv_zero_aux : ∀ t, good t = true → inv (zero t) = true := by
  intro t
  induction t using agg_ind with
  | h k e st tmpl kids ih =>
  intro hg
  obtain ⟨hlay, hgk, -, -⟩ := good_parts k e st tmpl kids hg
  rw [goodKids_iff] at hgk
  have ez : ∀ p ∈ zeroKids kids, p.2.entries = 0 := by
    rw [zeroKids_eq]; intro p hp
    simp only [List.mem_map] at hp
    obtain ⟨q, _, rfl⟩ := hp
    exact entries_zero _
  have ezf : ∀ p ∈ zeroFlows kids, p.2.entries = 0 := by
    rw [zeroFlows_eq]; intro p hp
    simp only [List.mem_map] at hp
    obtain ⟨q, _, rfl⟩ := hp
    exact entries_zero _
  have ihk : invKids (zeroKids kids) = true := by
    rw [invKids_iff, zeroKids_eq]; intro p hp
    simp only [List.mem_map] at hp
    obtain ⟨q, hq, rfl⟩ := hp
    exact ih q hq (hgk q hq)
  have ihf : invKids (zeroFlows kids) = true := by
    rw [invKids_iff, zeroFlows_eq]; intro p hp
    simp only [List.mem_map, List.mem_filter] at hp
    obtain ⟨q, hq, rfl⟩ := hp
    exact ih q hq.1 (hgk q hq.1)
  have h00 : Val.le 0 0 = true := by decide
  cases k <;> simp only [zero, inv_node, h00, ihk, ihf, Bool.and_true, Bool.true_and, invLocal, St.zero,
    sumEntries_zero _ ez, sumEntries_zero _ ezf, decide_true, bagTotal, invKids, sumEntries]
  case label => simpa [List.all_eq_true] using ez
  case untypedLabel => simpa [List.all_eq_true] using ez
  case index => simpa [List.all_eq_true] using ez
  case branch => simpa [List.all_eq_true] using ez
  case fraction =>
    simp only [Kind.layoutOk, decide_eq_true_eq] at hlay
    obtain ⟨a, r1, rfl, h1⟩ := keysOf_cons_eq _ _ _ hlay
    simp [zeroKids, lookupK, entries_zero]
  case stack =>
    simp only [Kind.layoutOk] at hlay
    split at hlay
    · rename_i rest hk
      obtain ⟨a, r1, rfl, h1⟩ := keysOf_cons_eq _ _ _ hk
      obtain ⟨b, r2, rfl, h2⟩ := keysOf_cons_eq _ _ _ h1
      have hz := antitone_zero (binsOf (zeroKids ((Key.nanflow, a) :: (Key.thr Val.ninf, b) :: r2)))
        (fun p hp => ez p (List.mem_filter.1 hp).1)
      rw [hz]
      simp [zeroKids, lookupK, binsOf, entries_zero, vzero_add]
    · simp at hlay


/-! ### scale -/

theorem entries_scale (t : Agg) (f : Val) : (scale t f).entries = f * t.entries := by
  obtain ⟨k, e, st, tmpl, kids⟩ := t
  simp [scale, Agg.entries]

theorem sumEntries_scale (kids : List (Key × Agg)) (f : Val) (hf : f.posFin) :
    sumEntries (scaleKids kids f) = f * sumEntries kids := by
  induction kids with
  | nil => simp [scaleKids, sumEntries, vmul_zero f hf]
  | cons p rest ih =>
    obtain ⟨k, a⟩ := p
    simp [scaleKids, sumEntries, ih, entries_scale, vmul_add f _ _ hf]

theorem lookupK_scale (key : Key) (kids : List (Key × Agg)) (f : Val) :
    lookupK key (scaleKids kids f) = (lookupK key kids).map (fun a => scale a f) := by
  induction kids with
  | nil => simp [scaleKids, lookupK]
  | cons p rest ih =>
    obtain ⟨k, a⟩ := p
    by_cases hk : k = key <;> simp [scaleKids, lookupK, hk, ih]

theorem binsOf_scale (kids : List (Key × Agg)) (f : Val) :
    binsOf (scaleKids kids f) = scaleKids (binsOf kids) f := by
  induction kids with
  | nil => simp [scaleKids, binsOf]
  | cons p rest ih =>
    obtain ⟨k, a⟩ := p
    simp only [binsOf] at ih
    cases k <;> simp [scaleKids, binsOf, ih]

theorem antitone_scale (l : List (Key × Agg)) (f : Val) (hf : f.posFin)
    (h : antitoneEntries l = true) : antitoneEntries (scaleKids l f) = true := by
  induction l with
  | nil => simp [scaleKids, antitoneEntries]
  | cons p rest ih =>
    obtain ⟨k, a⟩ := p
    cases rest with
    | nil => simp [scaleKids, antitoneEntries]
    | cons q rest' =>
      obtain ⟨k', b⟩ := q
      simp only [antitoneEntries, Bool.and_eq_true] at h
      have := ih h.2
      simp only [scaleKids] at this
      simp [scaleKids, antitoneEntries, this, entries_scale, le_mul_mono f _ _ hf h.1]

theorem bagTotal_scale (m : List (BKey × Val)) (f : Val) (hf : f.posFin) :
    bagTotal (m.map (fun kv => (kv.1, f * kv.2))) = f * bagTotal m := by
  induction m with
  | nil => simp [bagTotal, vmul_zero f hf]
  | cons p rest ih => simp [bagTotal, ih, vmul_add f _ _ hf]

theorem inv_scale_aux (f : Val) (hf : f.posFin) : ∀ t, inv t = true → inv (scale t f) = true := by
  intro t
  induction t using agg_ind with
  | h k e st tmpl kids ih =>
  intro hi
  rw [inv_node] at hi
  simp only [Bool.and_eq_true] at hi
  obtain ⟨⟨h0, hl⟩, hk⟩ := hi
  rw [invKids_iff] at hk
  have ihk : invKids (scaleKids kids f) = true := by
    rw [invKids_iff, scaleKids_eq]; intro p hp
    simp only [List.mem_map] at hp
    obtain ⟨q, hq, rfl⟩ := hp
    exact ih q hq (hk q hq)
  rw [scale, inv_node, le_zero_mul f e hf h0, ihk]
  simp only [Bool.true_and, Bool.and_true]
  have hsum : decide (sumEntries kids = e) = true →
      decide (sumEntries (scaleKids kids f) = f * e) = true := by
    intro h
    simp only [decide_eq_true_eq] at h ⊢
    rw [sumEntries_scale kids f hf, h]
  have hall : (kids.all fun p => decide (p.2.entries = e)) = true →
      ((scaleKids kids f).all fun p => decide (p.2.entries = f * e)) = true := by
    intro h
    simp only [List.all_eq_true, decide_eq_true_eq, scaleKids_eq, List.mem_map] at h ⊢
    rintro p ⟨q, hq, rfl⟩
    simp [entries_scale, h q hq]
  cases k <;> simp only [invLocal, leafMul] at hl ⊢
  case bin => exact hsum hl
  case sparse => exact hsum hl
  case central => exact hsum hl
  case irregular => exact hsum hl
  case categorize => exact hsum hl
  case label => exact hall hl
  case untypedLabel => exact hall hl
  case index => exact hall hl
  case branch => exact hall hl
  case bag =>
    cases st <;> simp only [decide_eq_true_eq] at hl ⊢
    rw [bagTotal_scale _ f hf, hl]
  case fraction =>
    rw [lookupK_scale]
    cases hd : lookupK Key.den kids with
    | none => simp [hd] at hl
    | some d =>
      simp only [hd, decide_eq_true_eq] at hl
      simp [entries_scale, hl]
  case stack =>
    simp only [Bool.and_eq_true] at hl
    rw [binsOf_scale, antitone_scale _ f hf hl.1, lookupK_scale]
    have h2 := hl.2
    cases hb : binsOf kids with
    | nil => simp [hb] at h2
    | cons l0 rest =>
      obtain ⟨k0, a0⟩ := l0
      cases hn : lookupK Key.nanflow kids with
      | none => simp [hb, hn] at h2
      | some nf =>
        simp only [hb, hn, decide_eq_true_eq] at h2
        simp [scaleKids, entries_scale, ← vmul_add f _ _ hf, h2]


/-! ### addRaw -/

theorem leafAdd_fst (k : Kind) (e1 : Val) (s1 : St) (e2 : Val) (s2 : St) :
    (leafAdd k e1 s1 e2 s2).1 = e1 + e2 := by
  unfold leafAdd
  split <;> try rfl
  split
  · rfl
  · split <;> rfl

theorem entries_addRaw (a b : Agg) : (addRaw a b).entries = a.entries + b.entries := by
  obtain ⟨k1, e1, s1, t1, kids1⟩ := a
  obtain ⟨k2, e2, s2, t2, kids2⟩ := b
  rw [addRaw]
  split
  · simp [Agg.entries, leafAdd_fst]
  · split <;> simp [Agg.entries]

theorem entriesFin (t : Agg) (hg : good t = true) : ∃ q, t.entries = .fin q ∧ 0 ≤ q := by
  obtain ⟨k, e, st, tmpl, kids⟩ := t
  rw [good.eq_def] at hg
  simp only [Bool.and_eq_true] at hg
  have h := hg.1.1.1.1.1
  cases e with
  | fin q =>
    refine ⟨q, rfl, ?_⟩
    by_cases hl : k.isLeaf = true
    · simp only [hl, if_true, leafGood, leafGoodCore, Bool.and_eq_true, decide_eq_true_eq] at h
      exact h.1.2.1
    · simp only [hl, Bool.false_eq_true, if_false, Bool.and_eq_true, decide_eq_true_eq] at h
      exact h.2
  | _ =>
    by_cases hl : k.isLeaf = true <;> simp [hl, leafGood, leafGoodCore] at h

theorem bagTotal_insert (k : BKey) (w : Val) (m : List (BKey × Val)) :
    bagTotal (bagInsert k w m) = bagTotal m + w := by
  induction m with
  | nil => simp [bagInsert, bagTotal, vadd_comm]
  | cons p rest ih =>
    obtain ⟨k', v⟩ := p
    unfold bagInsert
    split
    · simp only [bagTotal]
      rw [vadd_assoc, vadd_comm w, ← vadd_assoc]
    · split
      · simp only [bagTotal]
        rw [vadd_comm]
      · simp only [bagTotal, ih, vadd_assoc]

theorem bagTotal_merge (a b : List (BKey × Val)) :
    bagTotal (bagMerge a b) = bagTotal a + bagTotal b := by
  unfold bagMerge
  induction b generalizing a with
  | nil => simp [bagTotal, vadd_zero]
  | cons p rest ih =>
    simp only [List.foldl_cons, ih, bagTotal_insert, bagTotal, vadd_assoc]


theorem sameBaseZip_keys (xs ys : List (Key × Agg)) (h : sameBaseZip xs ys = true) :
    keysOf xs = keysOf ys := by
  induction xs generalizing ys with
  | nil => cases ys <;> simp_all [sameBaseZip, keysOf]
  | cons p rest ih =>
    obtain ⟨k, a⟩ := p
    cases ys with
    | nil => simp [sameBaseZip] at h
    | cons q rest' =>
      obtain ⟨k', b⟩ := q
      simp only [sameBaseZip, Bool.and_eq_true, decide_eq_true_eq] at h
      have := ih rest' h.2
      simp only [keysOf] at this ⊢
      simp [h.1.1, this]

theorem keysOf_length {α : Type} (xs : List (Key × α)) : (keysOf xs).length = xs.length := by
  simp [keysOf]

theorem keysOf_zip (xs ys : List (Key × Agg)) : keysOf (zipKids xs ys) = keysOf xs := by
  induction xs generalizing ys with
  | nil => simp [zipKids, keysOf]
  | cons p rest ih =>
    obtain ⟨k, a⟩ := p
    cases ys with
    | nil => simp [zipKids]
    | cons q rest' =>
      have := ih rest'
      simp only [keysOf] at this ⊢
      simp [zipKids, this]

theorem sumEntries_zip (xs ys : List (Key × Agg)) (h : xs.length = ys.length) :
    sumEntries (zipKids xs ys) = sumEntries xs + sumEntries ys := by
  induction xs generalizing ys with
  | nil =>
    cases ys with
    | nil => simp [zipKids, sumEntries, vzero_add]
    | cons q r => simp at h
  | cons p rest ih =>
    obtain ⟨k, a⟩ := p
    cases ys with
    | nil => simp at h
    | cons q rest' =>
      obtain ⟨k', b⟩ := q
      simp only [List.length_cons, Nat.add_right_cancel_iff] at h
      simp only [zipKids, sumEntries, ih rest' h, entries_addRaw]
      exact vadd_swap _ _ _ _

theorem all_zip (xs ys : List (Key × Agg)) (e1 e2 : Val) (h : xs.length = ys.length)
    (hx : ∀ p ∈ xs, p.2.entries = e1) (hy : ∀ p ∈ ys, p.2.entries = e2) :
    ∀ p ∈ zipKids xs ys, p.2.entries = e1 + e2 := by
  induction xs generalizing ys with
  | nil => simp [zipKids]
  | cons p rest ih =>
    obtain ⟨k, a⟩ := p
    cases ys with
    | nil => simp at h
    | cons q rest' =>
      obtain ⟨k', b⟩ := q
      simp only [List.length_cons, Nat.add_right_cancel_iff] at h
      simp only [List.mem_cons, forall_eq_or_imp] at hx hy
      simp only [zipKids, List.mem_cons, forall_eq_or_imp, entries_addRaw, hx.1, hy.1, true_and]
      exact ih rest' h hx.2 hy.2

theorem lookupK_zip (key : Key) (xs ys : List (Key × Agg)) (h : keysOf xs = keysOf ys)
    (a b : Agg) (hx : lookupK key xs = some a) (hy : lookupK key ys = some b) :
    lookupK key (zipKids xs ys) = some (addRaw a b) := by
  induction xs generalizing ys with
  | nil => simp [lookupK] at hx
  | cons p rest ih =>
    obtain ⟨k, x⟩ := p
    cases ys with
    | nil => simp [keysOf] at h
    | cons q rest' =>
      obtain ⟨k', y⟩ := q
      simp only [keysOf, List.map_cons, List.cons.injEq] at h
      obtain ⟨rfl, h2⟩ := h
      by_cases hk : k = key
      · simp only [lookupK, hk, if_true, Option.some.injEq] at hx hy
        simp [zipKids, lookupK, hk, hx, hy]
      · simp only [lookupK, hk, if_false] at hx hy
        simp only [zipKids, lookupK, hk, if_false]
        exact ih rest' h2 hx hy

theorem binsOf_cons_flow (a : Agg) (l : List (Key × Agg)) :
    binsOf ((Key.nanflow, a) :: l) = binsOf l := by
  simp [binsOf]

theorem binsOf_eq_self (l : List (Key × Agg)) (h : (keysOf l).all Key.isThr = true) :
    binsOf l = l := by
  simp only [binsOf, List.filter_eq_self]
  intro p hp
  simp only [keysOf, List.all_map, List.all_eq_true] at h
  have := h p hp
  obtain ⟨k, a⟩ := p
  cases k <;> simp_all [Key.isThr]

theorem le_add_mono (a1 b1 a2 b2 : Rat) (h1 : Val.le (.fin b1) (.fin a1) = true)
    (h2 : Val.le (.fin b2) (.fin a2) = true) :
    Val.le (Val.fin b1 + Val.fin b2) (Val.fin a1 + Val.fin a2) = true := by
  simp only [Val.le, decide_eq_true_eq, add_def, Val.add] at *
  linarith

theorem antitone_zip (xs ys : List (Key × Agg)) (h : xs.length = ys.length)
    (hx : ∀ p ∈ xs, ∃ q, p.2.entries = Val.fin q) (hy : ∀ p ∈ ys, ∃ q, p.2.entries = Val.fin q)
    (ax : antitoneEntries xs = true) (ay : antitoneEntries ys = true) :
    antitoneEntries (zipKids xs ys) = true := by
  induction xs generalizing ys with
  | nil => simp [zipKids, antitoneEntries]
  | cons p rest ih =>
    obtain ⟨k, a⟩ := p
    cases ys with
    | nil => simp at h
    | cons q rest' =>
      obtain ⟨k', b⟩ := q
      simp only [List.length_cons, Nat.add_right_cancel_iff] at h
      cases rest with
      | nil =>
        cases rest' with
        | nil => simp [zipKids, antitoneEntries]
        | cons _ _ => simp at h
      | cons p2 r2 =>
        cases rest' with
        | nil => simp at h
        | cons q2 s2 =>
          obtain ⟨k2, a2⟩ := p2
          obtain ⟨k2', b2⟩ := q2
          simp only [antitoneEntries, Bool.and_eq_true] at ax ay
          have hx' : ∀ p ∈ (k2, a2) :: r2, ∃ q, p.2.entries = Val.fin q :=
            fun p hp => hx p (List.mem_cons_of_mem _ hp)
          have hy' : ∀ p ∈ (k2', b2) :: s2, ∃ q, p.2.entries = Val.fin q :=
            fun p hp => hy p (List.mem_cons_of_mem _ hp)
          have := ih ((k2', b2) :: s2) h hx' hy' ax.2 ay.2
          simp only [zipKids] at this
          simp only [zipKids, antitoneEntries, this, Bool.and_true, entries_addRaw]
          obtain ⟨qa, ha⟩ := hx (k, a) (by simp)
          obtain ⟨qb, hb⟩ := hy (k', b) (by simp)
          obtain ⟨qa2, ha2⟩ := hx' (k2, a2) (by simp)
          obtain ⟨qb2, hb2⟩ := hy' (k2', b2) (by simp)
          have h1 := ax.1
          have h2 := ay.1
          simp only at ha hb ha2 hb2 h1 h2
          rw [ha, ha2] at h1
          rw [hb, hb2] at h2
          rw [ha, hb, ha2, hb2]
          exact le_add_mono _ _ _ _ h1 h2

theorem sumEntries_append (xs ys : List (Key × Agg)) :
    sumEntries (xs ++ ys) = sumEntries xs + sumEntries ys := by
  induction xs with
  | nil => simp [sumEntries, vzero_add]
  | cons p rest ih =>
    obtain ⟨k, a⟩ := p
    simp [sumEntries, ih, vadd_assoc]

theorem sumEntries_union (xs ys : List (Key × Agg)) :
    sumEntries (unionKids xs ys) = sumEntries xs + sumEntries ys := by
  induction xs generalizing ys with
  | nil => simp [unionKids, sumEntries, vzero_add]
  | cons p rest ih =>
    obtain ⟨k, a⟩ := p
    have hsplit := List.takeWhile_append_dropWhile (p := fun p : Key × Agg => Key.lt p.1 k) (l := ys)
    have hys : sumEntries ys = sumEntries (ys.takeWhile (fun p => Key.lt p.1 k)) +
        sumEntries (ys.dropWhile (fun p => Key.lt p.1 k)) := by
      rw [← sumEntries_append, hsplit]
    rw [unionKids]
    split
    · rename_i hd
      rw [hd] at hys
      simp only [sumEntries_append, sumEntries, ih, hys, vadd_zero]
      rw [vadd_comm]
    · rename_i k2 b rest' hd
      rw [hd] at hys
      split
      · simp only [sumEntries_append, sumEntries, ih, hys, entries_addRaw]
        generalize sumEntries (List.takeWhile _ ys) = L
        rw [vadd_comm L, vadd_swap, vadd_assoc, vadd_comm _ L]
      · simp only [sumEntries_append, sumEntries, ih, hys, hd]
        generalize sumEntries (List.takeWhile _ ys) = L
        rw [vadd_comm L, vadd_assoc, vadd_assoc, vadd_comm _ L]
        exact (vadd_assoc _ _ _).symm

theorem union_all (P : Agg → Prop) (xs ys : List (Key × Agg))
    (hx : ∀ p ∈ xs, P p.2) (hy : ∀ p ∈ ys, P p.2)
    (hxy : ∀ p ∈ xs, ∀ q ∈ ys, q.1 = p.1 → P (addRaw p.2 q.2)) :
    ∀ r ∈ unionKids xs ys, P r.2 := by
  induction xs generalizing ys with
  | nil => simpa [unionKids] using hy
  | cons p rest ih =>
    obtain ⟨k, a⟩ := p
    have hsplit := List.takeWhile_append_dropWhile (p := fun p : Key × Agg => Key.lt p.1 k) (l := ys)
    have hlo : ∀ r ∈ ys.takeWhile (fun p => Key.lt p.1 k), P r.2 :=
      fun r hr => hy r (by rw [← hsplit]; exact List.mem_append_left _ hr)
    have hdr : ∀ r ∈ ys.dropWhile (fun p => Key.lt p.1 k), r ∈ ys :=
      fun r hr => by rw [← hsplit]; exact List.mem_append_right _ hr
    have hx' : ∀ p ∈ rest, P p.2 := fun p hp => hx p (List.mem_cons_of_mem _ hp)
    rw [unionKids]
    split
    · rename_i hd
      intro r hr
      rcases List.mem_append.1 hr with hr | hr
      · exact hlo r hr
      · rcases List.mem_cons.1 hr with rfl | hr
        · exact hx _ (by simp)
        · exact ih [] hx' (by simp) (by simp) r hr
    · rename_i k2 b rest' hd
      rw [hd] at hdr
      split
      · rename_i hk
        intro r hr
        rcases List.mem_append.1 hr with hr | hr
        · exact hlo r hr
        · rcases List.mem_cons.1 hr with rfl | hr
          · exact hxy (k, a) (by simp) (k2, b) (hdr _ (by simp)) hk
          · exact ih rest' hx' (fun q hq => hy q (hdr q (List.mem_cons_of_mem _ hq)))
              (fun p hp q hq => hxy p (List.mem_cons_of_mem _ hp) q (hdr q (List.mem_cons_of_mem _ hq))) r hr
      · rw [hd]
        intro r hr
        rcases List.mem_append.1 hr with hr | hr
        · exact hlo r hr
        · rcases List.mem_cons.1 hr with rfl | hr
          · exact hx _ (by simp)
          · exact ih ((k2, b) :: rest') hx' (fun q hq => hy q (hdr q hq))
              (fun p hp q hq => hxy p (List.mem_cons_of_mem _ hp) q (hdr q hq)) r hr


theorem flow_sameBase (xs ys : List (Key × Agg)) (h : sameBaseFlow xs ys = true) (a : Agg)
    (ha : (Key.nanflow, a) ∈ xs) : ∃ b, lookupK Key.nanflow ys = some b ∧ sameBase a b = true := by
  induction xs with
  | nil => simp at ha
  | cons p rest ih =>
    obtain ⟨k, x⟩ := p
    simp only [sameBaseFlow, Bool.and_eq_true] at h
    rcases List.mem_cons.1 ha with heq | hm
    · simp only [Prod.mk.injEq] at heq
      obtain ⟨rfl, rfl⟩ := heq
      have h1 := h.1
      simp only [if_true] at h1
      cases hl : lookupK Key.nanflow ys with
      | none => simp [hl] at h1
      | some b => exact ⟨b, rfl, by simpa [hl] using h1⟩
    · exact ih h.2 hm

theorem bins_sameBase (t : Agg) (xs : List (Key × Agg)) (h : sameBaseBins t xs = true)
    (p : Key × Agg) (hp : p ∈ xs) (hk : p.1 ≠ Key.nanflow) : sameBase t p.2 = true := by
  induction xs with
  | nil => simp at hp
  | cons q rest ih =>
    obtain ⟨k, x⟩ := q
    simp only [sameBaseBins, Bool.and_eq_true] at h
    rcases List.mem_cons.1 hp with rfl | hm
    · have h1 := h.1
      simpa [hk] using h1
    · exact ih h.2 hm

theorem zip_inv (xs ys : List (Key × Agg))
    (ih : ∀ p ∈ xs, ∀ b, good p.2 = true → good b = true → hasTmpl p.2 = true → hasTmpl b = true →
      sameBase p.2 b = true → inv p.2 = true → inv b = true → inv (addRaw p.2 b) = true)
    (gx : goodKids xs = true) (gy : goodKids ys = true)
    (tx : hasTmplKids xs = true) (ty : hasTmplKids ys = true)
    (sb : sameBaseZip xs ys = true) (ix : invKids xs = true) (iy : invKids ys = true) :
    invKids (zipKids xs ys) = true := by
  induction xs generalizing ys with
  | nil => simp [zipKids, invKids]
  | cons p rest ihr =>
    obtain ⟨k, a⟩ := p
    cases ys with
    | nil => simp [sameBaseZip] at sb
    | cons q rest' =>
      obtain ⟨k', b⟩ := q
      simp only [goodKids, hasTmplKids, sameBaseZip, invKids, Bool.and_eq_true] at gx gy tx ty sb ix iy
      simp only [zipKids, invKids, Bool.and_eq_true]
      refine ⟨ih (k, a) (by simp) b gx.1 gy.1 tx.1 ty.1 sb.1.2 ix.1 iy.1, ?_⟩
      exact ihr rest' (fun p hp => ih p (List.mem_cons_of_mem _ hp)) gx.2 gy.2 tx.2 ty.2 sb.2 ix.2 iy.2

theorem sameBase_parts (k1 : Kind) (e1 : Val) (s1 : St) (t1 : Option Agg) (kids1 : List (Key × Agg))
    (k2 : Kind) (e2 : Val) (s2 : St) (t2 : Option Agg) (kids2 : List (Key × Agg))
    (h : sameBase (.node k1 e1 s1 t1 kids1) (.node k2 e2 s2 t2 kids2) = true) :
    k1 = k2 ∧ t1 = t2 ∧
    (k1.isSparse = true → sameBaseFlow kids1 kids2 = true ∧ sameBaseTmpl t1 kids1 = true ∧
      sameBaseTmpl t1 kids2 = true) ∧
    (k1.isSparse = false → sameBaseZip kids1 kids2 = true) := by
  rw [sameBase] at h
  simp only [Bool.and_eq_true, decide_eq_true_eq] at h
  refine ⟨h.1.1, h.1.2, ?_, ?_⟩
  · intro hs
    have := h.2
    simpa [hs, and_assoc] using this
  · intro hs
    have := h.2
    simpa [hs] using this

theorem hasTmpl_parts (k : Kind) (e : Val) (st : St) (tmpl : Option Agg) (kids : List (Key × Agg))
    (h : hasTmpl (.node k e st tmpl kids) = true) :
    (k.isSparse = true → tmpl.isSome = true) ∧ hasTmplKids kids = true := by
  rw [hasTmpl] at h
  simp only [Bool.and_eq_true] at h
  refine ⟨?_, h.2⟩
  intro hs
  simpa [hs] using h.1.1

theorem leaf_fits (k : Kind) (e : Val) (st : St) (tmpl : Option Agg) (kids : List (Key × Agg))
    (hl : k.isLeaf = true) (hg : good (.node k e st tmpl kids) = true) : St.fits k st = true := by
  rw [good.eq_def] at hg
  simp only [Bool.and_eq_true] at hg
  have h := hg.1.1.1.1.1
  simp only [hl, if_true, leafGood, leafGoodCore, Bool.and_eq_true] at h
  exact h.1.1

theorem union_inv (t : Agg) (xs ys : List (Key × Agg))
    (ih : ∀ p ∈ xs, ∀ b, good p.2 = true → good b = true → hasTmpl p.2 = true → hasTmpl b = true →
      sameBase p.2 b = true → inv p.2 = true → inv b = true → inv (addRaw p.2 b) = true)
    (gt : good t = true)
    (gx : goodKids xs = true) (gy : goodKids ys = true)
    (tx : hasTmplKids xs = true) (ty : hasTmplKids ys = true)
    (ix : invKids xs = true) (iy : invKids ys = true)
    (bx : sameBaseBins t xs = true) (bY : sameBaseBins t ys = true)
    (hfl : ∀ p ∈ xs, ∀ q ∈ ys, p.1 = Key.nanflow → q.1 = Key.nanflow → sameBase p.2 q.2 = true) :
    invKids (unionKids xs ys) = true := by
  rw [goodKids_iff] at gx gy
  rw [hasTmplKids_iff] at tx ty
  rw [invKids_iff] at ix iy ⊢
  apply union_all (fun a => inv a = true) xs ys ix iy
  intro p hp q hq hpq
  have gp := gx p hp
  have gq := gy q hq
  have sb : sameBase p.2 q.2 = true := by
    by_cases hn : p.1 = Key.nanflow
    · exact hfl p hp q hq hn (hpq.trans hn)
    · have s1 := bins_sameBase t xs bx p hp hn
      have s2 := bins_sameBase t ys bY q hq (by rw [hpq]; exact hn)
      exact sameBase_trans _ _ _ gp gt gq (sameBase_symm _ _ gt gp s1) s2
  exact ih p hp q.2 gp gq (tx p hp) (ty q hq) sb (ix p hp) (iy q hq)

theorem mem_keysOf {α : Type} (l : List (Key × α)) (p : Key × α) (hp : p ∈ l) : p.1 ∈ keysOf l := by
  simp only [keysOf, List.mem_map]
  exact ⟨p, hp, rfl⟩

theorem sparse_flow_unique (ys : List (Key × Agg)) (rest : List Key)
    (hk : keysOf ys = Key.nanflow :: rest) (hr : rest.all Key.isIdx = true)
    (q : Key × Agg) (hq : q ∈ ys) (hq1 : q.1 = Key.nanflow) :
    lookupK Key.nanflow ys = some q.2 := by
  obtain ⟨n2, B2, rfl, hB⟩ := keysOf_cons_eq _ _ _ hk
  rcases List.mem_cons.1 hq with rfl | hm
  · simp [lookupK]
  · have := mem_keysOf _ _ hm
    rw [hB] at this
    simp only [List.all_eq_true] at hr
    have := hr _ this
    rw [hq1] at this
    simp [Key.isIdx] at this

theorem inv_addRaw_aux : ∀ a b, good a = true → good b = true → hasTmpl a = true →
    hasTmpl b = true → sameBase a b = true → inv a = true → inv b = true →
    inv (addRaw a b) = true := by
  intro a
  induction a using agg_ind with
  | h k e1 s1 t1 kids1 ih =>
  intro b
  obtain ⟨k2, e2, s2, t2, kids2⟩ := b
  intro ha hb hta htb hsb hia hib
  obtain ⟨rfl, rfl, hsS, hsZ⟩ := sameBase_parts _ _ _ _ _ _ _ _ _ _ hsb
  obtain ⟨hlay1, hgk1, hgt, -⟩ := good_parts _ _ _ _ _ ha
  obtain ⟨hlay2, hgk2, -, -⟩ := good_parts _ _ _ _ _ hb
  obtain ⟨hsome, htk1⟩ := hasTmpl_parts _ _ _ _ _ hta
  obtain ⟨-, htk2⟩ := hasTmpl_parts _ _ _ _ _ htb
  rw [inv_node] at hia hib
  simp only [Bool.and_eq_true] at hia hib
  obtain ⟨⟨h01, hl1⟩, hik1⟩ := hia
  obtain ⟨⟨h02, hl2⟩, hik2⟩ := hib
  have h0 : Val.le 0 (e1 + e2) = true := le_zero_add _ _ h01 h02
  have hzip : k.isSparse = false → invKids (zipKids kids1 kids2) = true := fun hs =>
    zip_inv kids1 kids2 ih hgk1 hgk2 htk1 htk2 (hsZ hs) hik1 hik2
  have hkeys : k.isSparse = false → keysOf kids1 = keysOf kids2 := fun hs =>
    sameBaseZip_keys _ _ (hsZ hs)
  have hlen : k.isSparse = false → kids1.length = kids2.length := by
    intro hs; rw [← keysOf_length kids1, hkeys hs, keysOf_length]
  have hsum : k.isSparse = false → decide (sumEntries kids1 = e1) = true →
      decide (sumEntries kids2 = e2) = true →
      decide (sumEntries (zipKids kids1 kids2) = e1 + e2) = true := by
    intro hs h1 h2
    simp only [decide_eq_true_eq] at h1 h2 ⊢
    rw [sumEntries_zip _ _ (hlen hs), h1, h2]
  have hall : k.isSparse = false → (kids1.all fun p => decide (p.2.entries = e1)) = true →
      (kids2.all fun p => decide (p.2.entries = e2)) = true →
      ((zipKids kids1 kids2).all fun p => decide (p.2.entries = e1 + e2)) = true := by
    intro hs h1 h2
    simp only [List.all_eq_true, decide_eq_true_eq] at h1 h2 ⊢
    exact all_zip _ _ _ _ (hlen hs) h1 h2
  cases k
  case count =>
    simp only [addRaw, Kind.isLeaf, if_true]; rw [inv_node, leafAdd_fst, h0, hik1]; rfl
  case sum =>
    simp only [addRaw, Kind.isLeaf, if_true]; rw [inv_node, leafAdd_fst, h0, hik1]; rfl
  case average =>
    simp only [addRaw, Kind.isLeaf, if_true]; rw [inv_node, leafAdd_fst, h0, hik1]; rfl
  case deviate =>
    simp only [addRaw, Kind.isLeaf, if_true]; rw [inv_node, leafAdd_fst, h0, hik1]; rfl
  case minimize =>
    simp only [addRaw, Kind.isLeaf, if_true]; rw [inv_node, leafAdd_fst, h0, hik1]; rfl
  case maximize =>
    simp only [addRaw, Kind.isLeaf, if_true]; rw [inv_node, leafAdd_fst, h0, hik1]; rfl
  case bag q r =>
    have f1 := leaf_fits _ _ _ _ _ rfl ha
    have f2 := leaf_fits _ _ _ _ _ rfl hb
    cases s1 <;> simp [St.fits, Kind.isLeaf] at f1
    cases s2 <;> simp [St.fits, Kind.isLeaf] at f2
    simp only [addRaw, Kind.isLeaf, if_true, leafAdd]
    rw [inv_node, h0, hik1]
    simp only [invLocal, decide_eq_true_eq] at hl1 hl2 ⊢
    simp [bagTotal_merge, hl1, hl2]
  case bin =>
    simp only [addRaw, Kind.isLeaf, Kind.isSparse, Bool.false_eq_true, if_false]
    rw [inv_node, h0, hzip rfl]
    simp only [invLocal] at hl1 hl2 ⊢
    simp [hsum rfl hl1 hl2]
  case central =>
    simp only [addRaw, Kind.isLeaf, Kind.isSparse, Bool.false_eq_true, if_false]
    rw [inv_node, h0, hzip rfl]
    simp only [invLocal] at hl1 hl2 ⊢
    simp [hsum rfl hl1 hl2]
  case irregular =>
    simp only [addRaw, Kind.isLeaf, Kind.isSparse, Bool.false_eq_true, if_false]
    rw [inv_node, h0, hzip rfl]
    simp only [invLocal] at hl1 hl2 ⊢
    simp [hsum rfl hl1 hl2]
  case label =>
    simp only [addRaw, Kind.isLeaf, Kind.isSparse, Bool.false_eq_true, if_false]
    rw [inv_node, h0, hzip rfl]
    simp only [invLocal] at hl1 hl2 ⊢
    simp [hall rfl hl1 hl2]
  case untypedLabel =>
    simp only [addRaw, Kind.isLeaf, Kind.isSparse, Bool.false_eq_true, if_false]
    rw [inv_node, h0, hzip rfl]
    simp only [invLocal] at hl1 hl2 ⊢
    simp [hall rfl hl1 hl2]
  case index =>
    simp only [addRaw, Kind.isLeaf, Kind.isSparse, Bool.false_eq_true, if_false]
    rw [inv_node, h0, hzip rfl]
    simp only [invLocal] at hl1 hl2 ⊢
    simp [hall rfl hl1 hl2]
  case branch =>
    simp only [addRaw, Kind.isLeaf, Kind.isSparse, Bool.false_eq_true, if_false]
    rw [inv_node, h0, hzip rfl]
    simp only [invLocal] at hl1 hl2 ⊢
    simp [hall rfl hl1 hl2]
  case select =>
    simp only [addRaw, Kind.isLeaf, Kind.isSparse, Bool.false_eq_true, if_false]
    rw [inv_node, h0, hzip rfl]
    rfl
  case fraction =>
    simp only [addRaw, Kind.isLeaf, Kind.isSparse, Bool.false_eq_true, if_false]
    rw [inv_node, h0, hzip rfl]
    simp only [invLocal] at hl1 hl2 ⊢
    cases hd1 : lookupK Key.den kids1 with
    | none => simp [hd1] at hl1
    | some d1 =>
      cases hd2 : lookupK Key.den kids2 with
      | none => simp [hd2] at hl2
      | some d2 =>
        simp only [hd1, hd2, decide_eq_true_eq] at hl1 hl2
        rw [lookupK_zip _ _ _ (hkeys rfl) d1 d2 hd1 hd2]
        simp [entries_addRaw, hl1, hl2]
  case stack =>
    simp only [addRaw, Kind.isLeaf, Kind.isSparse, Bool.false_eq_true, if_false]
    rw [inv_node, h0, hzip rfl]
    simp only [invLocal, Bool.and_eq_true] at hl1 hl2 ⊢
    simp only [Kind.layoutOk] at hlay1
    split at hlay1
    · rename_i rest hk1
      simp only [Bool.and_eq_true] at hlay1
      have hk2 : keysOf kids2 = Key.nanflow :: Key.thr Val.ninf :: rest := by
        rw [← hkeys rfl, hk1]
      obtain ⟨n1, L1, rfl, hL1⟩ := keysOf_cons_eq _ _ _ hk1
      obtain ⟨n2, L2, rfl, hL2⟩ := keysOf_cons_eq _ _ _ hk2
      have hthr1 : (keysOf L1).all Key.isThr = true := by
        rw [hL1]; simp [Key.isThr, hlay1.1.1]
      have hthr2 : (keysOf L2).all Key.isThr = true := by
        rw [hL2]; simp [Key.isThr, hlay1.1.1]
      have hthrz : (keysOf (zipKids L1 L2)).all Key.isThr = true := by
        rw [keysOf_zip]; exact hthr1
      have hlenL : L1.length = L2.length := by
        rw [← keysOf_length L1, hL1, ← hL2, keysOf_length]
      rw [binsOf_cons_flow, binsOf_eq_self _ hthr1] at hl1
      rw [binsOf_cons_flow, binsOf_eq_self _ hthr2] at hl2
      simp only [zipKids]
      rw [binsOf_cons_flow, binsOf_eq_self _ hthrz]
      rw [goodKids_iff] at hgk1 hgk2
      have hf1 : ∀ p ∈ L1, ∃ q, p.2.entries = Val.fin q := fun p hp => by
        obtain ⟨q, hq, _⟩ := entriesFin p.2 (hgk1 p (List.mem_cons_of_mem _ hp))
        exact ⟨q, hq⟩
      have hf2 : ∀ p ∈ L2, ∃ q, p.2.entries = Val.fin q := fun p hp => by
        obtain ⟨q, hq, _⟩ := entriesFin p.2 (hgk2 p (List.mem_cons_of_mem _ hp))
        exact ⟨q, hq⟩
      refine ⟨⟨trivial, antitone_zip L1 L2 hlenL hf1 hf2 hl1.1 hl2.1, ?_⟩, trivial⟩
      obtain ⟨b1, r1, rfl, -⟩ := keysOf_cons_eq _ _ _ hL1
      obtain ⟨b2, r2, rfl, -⟩ := keysOf_cons_eq _ _ _ hL2
      have h1 := hl1.2
      have h2 := hl2.2
      simp only [lookupK, if_true, decide_eq_true_eq] at h1 h2
      simp only [zipKids, lookupK, if_true, decide_eq_true_eq, entries_addRaw]
      rw [vadd_swap, h1, h2]
    · simp at hlay1
  case sparse =>
    simp only [addRaw, Kind.isLeaf, Kind.isSparse, Bool.false_eq_true, if_false, if_true]
    obtain ⟨hflow, htm1, htm2⟩ := hsS rfl
    obtain ⟨t, rfl⟩ := Option.isSome_iff_exists.1 (hsome rfl)
    simp only [goodTmpl, Bool.and_eq_true] at hgt
    simp only [sameBaseTmpl] at htm1 htm2
    simp only [Kind.layoutOk, Bool.and_eq_true] at hlay2
    have hun : invKids (unionKids kids1 kids2) = true := by
      apply union_inv t kids1 kids2 ih hgt.1 hgk1 hgk2 htk1 htk2 hik1 hik2 htm1 htm2
      intro p hp q hq hp1 hq1
      obtain ⟨k, a⟩ := p
      simp only at hp1
      subst hp1
      obtain ⟨b, hb1, hb2⟩ := flow_sameBase kids1 kids2 hflow a hp
      have h2 := hlay2.2
      split at h2
      · rename_i rest hk2
        simp only [Bool.and_eq_true] at h2
        have := sparse_flow_unique kids2 rest hk2 h2.1 q hq hq1
        rw [hb1] at this
        simp only [Option.some.injEq] at this
        rw [← this]; exact hb2
      · simp at h2
    rw [inv_node, h0, hun]
    simp only [invLocal, decide_eq_true_eq] at hl1 hl2 ⊢
    simp [sumEntries_union, hl1, hl2]
  case categorize =>
    simp only [addRaw, Kind.isLeaf, Kind.isSparse, Bool.false_eq_true, if_false, if_true]
    obtain ⟨hflow, htm1, htm2⟩ := hsS rfl
    obtain ⟨t, rfl⟩ := Option.isSome_iff_exists.1 (hsome rfl)
    simp only [goodTmpl, Bool.and_eq_true] at hgt
    simp only [sameBaseTmpl] at htm1 htm2
    simp only [Kind.layoutOk, Bool.and_eq_true] at hlay1
    have hun : invKids (unionKids kids1 kids2) = true := by
      apply union_inv t kids1 kids2 ih hgt.1 hgk1 hgk2 htk1 htk2 hik1 hik2 htm1 htm2
      intro p hp q hq hp1 hq1
      have := mem_keysOf _ _ hp
      have h1 := hlay1.1
      simp only [List.all_eq_true] at h1
      have := h1 _ this
      rw [hp1] at this
      simp [Key.isCat] at this
    rw [inv_node, h0, hun]
    simp only [invLocal, decide_eq_true_eq] at hl1 hl2 ⊢
    simp [sumEntries_union, hl1, hl2]

end InvA

/-! ### the deliverables -/

theorem inv_zero (t : Agg) (hg : good t = true) : inv (zero t) = true :=
  InvA.inv_zero_aux t hg

theorem inv_addRaw (a b : Agg) (ha : good a = true) (hb : good b = true)
    (hta : hasTmpl a = true) (htb : hasTmpl b = true) (h : sameBase a b = true)
    (hia : inv a = true) (hib : inv b = true) : inv (addRaw a b) = true :=
  InvA.inv_addRaw_aux a b ha hb hta htb h hia hib

/- `hg` is not needed: the bookkeeping invariants alone are preserved by scaling -/
set_option linter.unusedVariables false in
theorem inv_scale (t : Agg) (f : Val) (hg : good t = true) (hi : inv t = true) (hf : f.posFin) :
    inv (scale t f) = true :=
  InvA.inv_scale_aux f hf t hi

end Hg
