/-
  Hg.Proofs.DenoteTree — tree level of `fillAll_eq_denote`: a container hands every child the routed
  sub-stream (`Np.run_decomp`), sparse containers hold exactly the touched keys in key order.
-/
import Hg.Model.Denote
import Hg.Proofs.NpTree1
import Hg.Proofs.KeyFacts
import Hg.Proofs.DenoteSort
import Hg.Proofs.DenoteLeaf

set_option linter.unusedSimpArgs false
set_option linter.unusedVariables false

namespace Hg.Den

open Np

/-! ### unfolding `denote` -/

theorem denote_node (k : Kind) (e : Val) (st : St) (tmpl : Option Agg) (kids : List (Key × Agg))
    (s : List (Datum × Val)) :
    denote (.node k e st tmpl kids) s =
      if k.isLeaf then .node k (leafDenote k (gated s)).1 (leafDenote k (gated s)).2 tmpl kids
      else if k.isSparse then
        .node k (totalW (gated s)) st tmpl
          (denoteKids kids k (keysOf kids) (gated s) ++
            denoteNew tmpl k (keysOf kids) (touchedKeys k (keysOf kids) (gated s)) (gated s))
      else .node k (totalW (gated s)) st tmpl (denoteKids kids k (keysOf kids) (gated s)) := by
  rw [denote]

theorem denoteKids_eq_map (k : Kind) (keys : List Key) (g : List (Datum × Val)) :
    ∀ kids : List (Key × Agg),
      denoteKids kids k keys g = kids.map (fun p => (p.1, denote p.2 (routed k keys p.1 g)))
  | [] => by rw [denoteKids]; rfl
  | (key, a) :: rest => by rw [denoteKids, denoteKids_eq_map k keys g rest]; rfl

theorem denoteNew_some (t : Agg) (k : Kind) (keys new : List Key) (g : List (Datum × Val)) :
    denoteNew (some t) k keys new g = new.map (fun key => (key, denote t (routed k keys key g))) := by
  rw [denoteNew]

/-- records that do not pass the weight gate do not matter -/
theorem denote_gated' (z : Agg) (s : List (Datum × Val)) : denote z (gated s) = denote z s := by
  obtain ⟨k, e, st, tmpl, kids⟩ := z
  rw [denote_node, denote_node, gated_gated]

theorem denote_congr_gated (z : Agg) {s s' : List (Datum × Val)} (h : gated s = gated s') :
    denote z s = denote z s' := by
  rw [← denote_gated' z s, h, denote_gated']

/-! ### the masked stream of `run_decomp` and the routed stream of `denote` -/

theorem routed_cons_err {k : Kind} {keys : List Key} {key : Key} {d : Datum} {w : Val} {f : Fault}
    (hr : route k keys d w = .error f) (g : List (Datum × Val)) :
    routed k keys key ((d, w) :: g) = routed k keys key g := by
  unfold routed; rw [List.filterMap_cons]; simp only [hr]

theorem routed_cons_none {k : Kind} {keys : List Key} {key : Key} {d : Datum} {w : Val}
    {tg : List (Key × Val)} (hr : route k keys d w = .ok tg) (hl : lookupK key tg = none)
    (g : List (Datum × Val)) :
    routed k keys key ((d, w) :: g) = routed k keys key g := by
  unfold routed; rw [List.filterMap_cons]; simp only [hr, hl, Option.map_none]

theorem routed_cons_some {k : Kind} {keys : List Key} {key : Key} {d : Datum} {w w' : Val}
    {tg : List (Key × Val)} (hr : route k keys d w = .ok tg) (hl : lookupK key tg = some w')
    (g : List (Datum × Val)) :
    routed k keys key ((d, w) :: g) = (d, w') :: routed k keys key g := by
  unfold routed; rw [List.filterMap_cons]; simp only [hr, hl, Option.map_some]

theorem gated_maskS (k : Kind) (keys : List Key) (key : Key) :
    ∀ S : List (Datum × Val), gated (maskS k keys key S) = gated (routed k keys key (gated S))
  | [] => rfl
  | (d, w) :: S => by
    have ih := gated_maskS k keys key S
    rw [maskS_cons]
    by_cases hp : w.pos = true
    · rw [gated_cons_pos (p := (d, w)) hp]
      cases hr : route k keys d w with
      | error f =>
        have : rowMask k keys key d w = 0 := by unfold rowMask; rw [if_pos hp, hr]
        simp only
        rw [this, gated_cons_neg (by exact pos_zero), routed_cons_err hr]
        exact ih
      | ok tg =>
        have hrm : rowMask k keys key d w = tgW tg key := by unfold rowMask; rw [if_pos hp, hr]
        simp only
        rw [hrm]
        cases hl : lookupK key tg with
        | none =>
          have : tgW tg key = 0 := by unfold tgW; rw [hl]
          rw [this, gated_cons_neg (by exact pos_zero), routed_cons_none hr hl]
          exact ih
        | some w' =>
          have : tgW tg key = w' := by unfold tgW; rw [hl]
          rw [this, routed_cons_some hr hl]
          by_cases hp' : w'.pos = true
          · rw [gated_cons_pos (p := (d, w')) hp', gated_cons_pos (p := (d, w')) hp', ih]
          · have hp'' : w'.pos = false := by simpa using hp'
            rw [gated_cons_neg (p := (d, w')) hp'', gated_cons_neg (p := (d, w')) hp'', ih]
    · have hp' : w.pos = false := by simpa using hp
      have : rowMask k keys key d w = 0 := by unfold rowMask; rw [if_neg hp]
      simp only
      rw [this, gated_cons_neg (p := (d, w)) hp', gated_cons_neg (by exact pos_zero)]
      exact ih

theorem entAfter_eq (S : List (Datum × Val)) (e : Val) : entAfter e S = e + totalW (gated S) := by
  induction S generalizing e with
  | nil => simp [entAfter, gated_nil, totalW, sumVal_nil]
  | cons p S ih =>
    rw [entAfter_cons, ih]
    by_cases hp : p.2.pos = true
    · rw [if_pos hp, gated_cons_pos hp, totalW_cons, Val.add_assoc]
    · have hp' : p.2.pos = false := by simpa using hp
      rw [if_neg hp, gated_cons_neg hp']

/-! ### association lists -/

theorem lookupK_map_val {α β : Type} (f : Key → α → β) (j : Key) :
    ∀ l : List (Key × α), lookupK j (l.map (fun p => (p.1, f p.1 p.2))) = (lookupK j l).map (f j)
  | [] => rfl
  | (k, a) :: r => by
    rw [List.map_cons, P3.lookupK_cons, P3.lookupK_cons]
    by_cases h : k = j
    · subst h; rw [if_pos rfl, if_pos rfl]; rfl
    · rw [if_neg h, if_neg h]; exact lookupK_map_val f j r

theorem lookupK_append {α : Type} (j : Key) (l1 l2 : List (Key × α)) :
    lookupK j (l1 ++ l2) = match lookupK j l1 with | some a => some a | none => lookupK j l2 := by
  induction l1 with
  | nil => rfl
  | cons p r ih =>
    obtain ⟨k, a⟩ := p
    rw [List.cons_append, P3.lookupK_cons, P3.lookupK_cons]
    by_cases h : k = j
    · rw [if_pos h, if_pos h]
    · rw [if_neg h, if_neg h]; exact ih

theorem lookupK_keymap {α : Type} (f : Key → α) (j : Key) :
    ∀ l : List Key, lookupK j (l.map (fun key => (key, f key))) = if j ∈ l then some (f j) else none
  | [] => rfl
  | k :: r => by
    rw [List.map_cons, P3.lookupK_cons, lookupK_keymap f j r]
    by_cases h : k = j
    · subst h; simp
    · rw [if_neg h]
      have : (j ∈ k :: r) ↔ j ∈ r := by
        rw [List.mem_cons]
        exact ⟨fun h' => h'.resolve_left (fun e => h e.symm), Or.inr⟩
      simp only [this]

theorem keysOf_map_val {α β : Type} (f : Key → α → β) (l : List (Key × α)) :
    keysOf (l.map (fun p => (p.1, f p.1 p.2))) = keysOf l := by
  unfold keysOf; rw [List.map_map]; rfl

theorem keysOf_keymap {α : Type} (f : Key → α) (l : List Key) :
    keysOf (l.map (fun key => (key, f key))) = l := by
  unfold keysOf; rw [List.map_map]; exact List.map_id _

/-- fixed layouts: same keys, no duplicate key, same `lookupK` ⇒ equal -/
theorem kids_ext {α : Type} : ∀ (xs ys : List (Key × α)), keysOf xs = keysOf ys → (keysOf xs).Nodup →
    (∀ j, lookupK j xs = lookupK j ys) → xs = ys
  | [], [], _, _, _ => rfl
  | [], _ :: _, h, _, _ => by cases h
  | _ :: _, [], h, _, _ => by cases h
  | (k, a) :: r, (k', b) :: r', hk, hn, hl => by
    rw [P3.keysOf_cons, P3.keysOf_cons] at hk
    injection hk with hk1 hk2
    subst hk1
    rw [P3.keysOf_cons, List.nodup_cons] at hn
    have h1 := hl k
    rw [P3.lookupK_cons, if_pos rfl, P3.lookupK_cons, if_pos rfl] at h1
    injection h1 with h1
    subst h1
    have : r = r' := by
      apply kids_ext r r' hk2 hn.2
      intro j
      by_cases hj : k = j
      · subst hj
        rw [P3.lookupK_none_of_not_mem hn.1, P3.lookupK_none_of_not_mem (hk2 ▸ hn.1)]
      · have h2 := hl j
        rw [P3.lookupK_cons, if_neg hj, P3.lookupK_cons, if_neg hj] at h2
        exact h2
    rw [this]


/-! ### the touched keys -/

/-- the keys `touchedKeys` sorts -/
def hitKeys (k : Kind) (keys : List Key) (g : List (Datum × Val)) : List Key :=
  g.filterMap (fun dw =>
    match route k keys dw.1 dw.2 with
    | .ok [(key, _)] => if key = .nanflow then none else some key
    | _ => none)

theorem touchedKeys_eq (k : Kind) (keys : List Key) (g : List (Datum × Val)) :
    touchedKeys k keys g = (hitKeys k keys g).eraseDups.mergeSort (fun a b => !Key.lt b a) := rfl

theorem mem_hitKeys {k : Kind} (hs : k.isSparse = true) (keys : List Key) (g : List (Datum × Val))
    (j : Key) :
    j ∈ hitKeys k keys g ↔ j ≠ .nanflow ∧ ∃ p ∈ g, route k keys p.1 p.2 = .ok [(j, p.2)] := by
  unfold hitKeys
  rw [List.mem_filterMap]
  constructor
  · rintro ⟨p, hp, h⟩
    cases hr : route k keys p.1 p.2 with
    | error f => rw [hr] at h; cases h
    | ok tg =>
      obtain ⟨key0, rfl, _⟩ := P3.route_sparse hs hr
      rw [hr] at h
      simp only at h
      split at h
      · cases h
      · next hne =>
        cases h
        exact ⟨hne, p, hp, hr⟩
  · rintro ⟨hne, p, hp, hr⟩
    refine ⟨p, hp, ?_⟩
    rw [hr]
    simp only [if_neg hne]

theorem hitKeys_cls {k : Kind} (hs : k.isSparse = true) (keys : List Key) (g : List (Datum × Val)) :
    ∀ a ∈ hitKeys k keys g, Key.inCls k.cls a = true := by
  intro a ha
  obtain ⟨_, p, _, hr⟩ := (mem_hitKeys hs keys g a).1 ha
  obtain ⟨key0, h1, h2⟩ := P3.route_sparse hs hr
  injection h1 with h1
  injection h1 with h1
  subst h1
  exact h2

theorem SLk_append {c : Bool} {l1 l2 : List Key} (h1 : P3.SLk c l1) (h2 : P3.SLk c l2)
    (h : ∀ a ∈ l1, ∀ b ∈ l2, Key.lt a b = true) : P3.SLk c (l1 ++ l2) := by
  refine ⟨?_, List.pairwise_append.2 ⟨h1.2, h2.2, h⟩⟩
  intro x hx
  rcases List.mem_append.1 hx with hx | hx
  · exact h1.1 x hx
  · exact h2.1 x hx

/-! ### the induction on the tree -/

/-- the statement proved by induction on the tree -/
def MainP (z : Agg) : Prop :=
  isZeroTree z = true → hasTmpl z = true → noBins z = true →
    ∀ s, goodRun z s = true → fillAll z s = denote z s

theorem child_eq {a : Agg} (ha : MainP a) (hz : isZeroTree a = true) (ht : hasTmpl a = true)
    (hn : noBins a = true) {k : Kind} {keys : List Key} {key : Key} {S : List (Datum × Val)}
    (hrun : goodRun a (maskS k keys key S) = true) :
    fillAll a (maskS k keys key S) = denote a (routed k keys key (gated S)) := by
  rw [ha hz ht hn _ hrun]
  exact denote_congr_gated a (gated_maskS k keys key S)

theorem main_leaf {k : Kind} (hk : k.isLeaf = true) (e : Val) (st : St) (tmpl : Option Agg)
    (kids : List (Key × Agg)) : MainP (.node k e st tmpl kids) := by
  intro hz _ _ s hrun
  obtain ⟨he, hst, _⟩ := P3.isZeroTree_node hz
  subst he hst
  rw [NpLeaf.fillAll_leaf k hk, leafSeq_gated,
    leaf_fold_eq_denote k hk _ (clean_of_goodRun hk tmpl kids s _ _ hrun), denote_node, if_pos hk]

theorem main_fixed {k : Kind} (hk : k.isLeaf = false) (hs : k.isSparse = false) (e : Val) (st : St)
    (tmpl : Option Agg) (kids : List (Key × Agg)) (ihk : ∀ p ∈ kids, MainP p.2) :
    MainP (.node k e st tmpl kids) := by
  intro hz ht hn s hrun
  obtain ⟨he, hst, hzk⟩ := P3.isZeroTree_node hz
  have htn := P3.hasTmpl_node ht
  obtain ⟨_, hnk⟩ := P3.noBins_node hn
  obtain ⟨kidsF, hF, f1, f2, f3, f4⟩ := run_decomp (st := st) (tmpl := tmpl) hk (keysOf kids) s kids e
    (fun _ _ => rfl) hrun
  rw [hF, denote_node, if_neg (by simp [hk]), if_neg (by simp [hs]), entAfter_eq, he,
    Val.fin_zero_add, denoteKids_eq_map]
  congr 1
  apply kids_ext
  · rw [f4 hs, keysOf_map_val (fun key a => denote a (routed k (keysOf kids) key (gated s)))]
  · rw [f4 hs]; exact KF.good_nodup _ _ _ _ _ (goodRun_good _ _ hrun)
  · intro j
    rw [lookupK_map_val (fun key a => denote a (routed k (keysOf kids) key (gated s)))]
    cases hl : lookupK j kids with
    | none =>
      rw [f3 j hl (fun hh => by obtain ⟨p, _, hp1⟩ := hh; rw [hp1.1] at hs; cases hs)]
      rfl
    | some a =>
      obtain ⟨h1, h2⟩ := f1 j a hl
      have hm := P3.lookupK_mem hl
      rw [h1, child_eq (ihk _ hm) (hzk _ hm) (htn.hkids _ hm) (hnk _ hm) h2]
      rfl

theorem lt_nanflow {b : Key} (h : b ≠ .nanflow) : Key.lt .nanflow b = true := by
  cases b <;> first | rfl | exact absurd rfl h

theorem main_sparse {k : Kind} (hs : k.isSparse = true) (e : Val) (st : St)
    (tmpl : Option Agg) (kids : List (Key × Agg)) (iht : ∀ t, tmpl = some t → MainP t)
    (ihk : ∀ p ∈ kids, MainP p.2) : MainP (.node k e st tmpl kids) := by
  intro hz ht hn s hrun
  have hk := P3.Kind.not_leaf_of_sparse hs
  obtain ⟨he, hst, hzk⟩ := P3.isZeroTree_node hz
  have htn := P3.hasTmpl_node ht
  have hg := goodRun_good _ _ hrun
  have gn := P3.good_node hg
  obtain ⟨t, rfl⟩ := htn.hsome hs
  obtain ⟨htt, hnt⟩ := htn.htmpl t rfl
  obtain ⟨hgt, hzt⟩ := gn.gtmpl t rfl
  obtain ⟨hnan, hnk⟩ := P3.noBins_node hn
  obtain ⟨kidsF, hF, f1, f2, f3, _⟩ := run_decomp (st := st) (tmpl := some t) hk (keysOf kids) s kids e
    (fun _ _ => rfl) hrun
  have hgF := good_fillAll _ _ hrun
  rw [hF] at hgF
  have hSLF : P3.SL k.cls kidsF := P3.SL_of_good (P3.good_node hgF) hs
  have hSLk : P3.SL k.cls kids := P3.SL_of_good gn hs
  rw [hF, denote_node, if_neg (by simp [hk]), if_pos hs, entAfter_eq, he, Val.fin_zero_add,
    denoteKids_eq_map, denoteNew_some]
  congr 1
  have hT : P3.SLk k.cls (touchedKeys k (keysOf kids) (gated s)) := by
    rw [touchedKeys_eq]; exact sortKeys_SLk _ (hitKeys_cls hs _ _)
  have hmemT : ∀ j, j ∈ touchedKeys k (keysOf kids) (gated s) ↔
      j ≠ .nanflow ∧ ∃ p ∈ gated s, route k (keysOf kids) p.1 p.2 = .ok [(j, p.2)] := by
    intro j
    rw [touchedKeys_eq, mem_sortKeys, mem_hitKeys hs]
  -- a key that is hit and is not a child yet is not the nanflow
  have hne : ∀ j, lookupK j kids = none → hit k (keysOf kids) j s → j ≠ .nanflow := by
    intro j hl ⟨p, _, _, _, hr⟩ hj
    subst hj
    obtain ⟨key0, h1, h2⟩ := P3.route_sparse hs hr
    injection h1 with h1
    injection h1 with h1
    subst h1
    rcases Kind.sparse_cases hs with ⟨q, w, o, c, n, rfl⟩ | ⟨q, c, n, rfl⟩
    · obtain ⟨_, a0, r, h1, _, _⟩ := layout_sparse gn.layout
      rw [h1, P3.lookupK_cons, if_pos rfl] at hl
      cases hl
    · cases h2
  have hhit : ∀ j, lookupK j kids = none →
      (hit k (keysOf kids) j s ↔ j ∈ touchedKeys k (keysOf kids) (gated s)) := by
    intro j hl
    rw [hmemT]
    constructor
    · intro hh
      refine ⟨hne j hl hh, ?_⟩
      obtain ⟨p, hp, _, hpos, hr⟩ := hh
      exact ⟨p, mem_gated.2 ⟨hp, hpos⟩, hr⟩
    · rintro ⟨_, p, hp, hr⟩
      obtain ⟨hp1, hp2⟩ := mem_gated.1 hp
      exact ⟨p, hp1, hs, hp2, hr⟩
  apply P3.SL_ext hSLF
  · -- the specification lists a strictly sorted key list
    unfold P3.SL
    unfold keysOf
    rw [List.map_append]
    have e1 : List.map (fun p : Key × Agg => p.1)
        (List.map (fun p : Key × Agg => (p.1, denote p.2 (routed k (List.map (fun p => p.1) kids) p.1 (gated s)))) kids)
        = keysOf kids := keysOf_map_val (fun key a => denote a (routed k (keysOf kids) key (gated s))) kids
    have e2 : List.map (fun p : Key × Agg => p.1)
        (List.map (fun key => (key, denote t (routed k (List.map (fun p => p.1) kids) key (gated s))))
          (touchedKeys k (List.map (fun p => p.1) kids) (gated s)))
        = touchedKeys k (keysOf kids) (gated s) :=
      keysOf_keymap (fun key => denote t (routed k (keysOf kids) key (gated s))) _
    rw [e1, e2]
    refine SLk_append hSLk hT ?_
    intro a ha b hb
    obtain ⟨p, hp, rfl⟩ := mem_keysOf.1 ha
    rw [hnan hs p hp]
    exact lt_nanflow ((hmemT b).1 hb).1
  · intro j
    rw [lookupK_append, lookupK_map_val (fun key a => denote a (routed k (keysOf kids) key (gated s))),
      lookupK_keymap (fun key => denote t (routed k (keysOf kids) key (gated s)))]
    cases hl : lookupK j kids with
    | some a =>
      obtain ⟨h1, h2⟩ := f1 j a hl
      have hm := P3.lookupK_mem hl
      rw [h1, child_eq (ihk _ hm) (hzk _ hm) (htn.hkids _ hm) (hnk _ hm) h2]
      rfl
    | none =>
      simp only [Option.map_none]
      by_cases hh : hit k (keysOf kids) j s
      · obtain ⟨t', ht', h1, h2⟩ := f2 j hl hh
        cases ht'
        rw [h1, child_eq (iht t rfl) hzt htt hnt h2, if_pos ((hhit j hl).1 hh)]
      · rw [f3 j hl hh, if_neg (fun hm => hh ((hhit j hl).2 hm))]

theorem main_all : ∀ z : Agg, MainP z :=
  P3.Agg.ind_a (fun k e st tmpl kids iht ihk => by
    by_cases hk : k.isLeaf = true
    · exact main_leaf hk e st tmpl kids
    · have hk' : k.isLeaf = false := by simpa using hk
      by_cases hs : k.isSparse = true
      · exact main_sparse hs e st tmpl kids iht ihk
      · exact main_fixed hk' (by simpa using hs) e st tmpl kids ihk)

end Hg.Den
