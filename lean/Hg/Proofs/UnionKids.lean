/-
  Hg.Proofs.UnionKids — the keyed union of two sorted child lists (`unionKids`): membership and
  sortedness of the result.
-/
import Hg.Proofs.TreeBasics

namespace Hg

theorem takeDrop_spec {α : Type} (p : α → Bool) (l : List α) :
    (∀ x ∈ l.takeWhile p, p x = true) ∧ (∀ x r, l.dropWhile p = x :: r → p x = false) := by
  induction l with
  | nil => simp
  | cons a r ih =>
    by_cases h : p a = true
    · simp only [List.takeWhile_cons_of_pos h, List.dropWhile_cons_of_pos h, List.mem_cons, forall_eq_or_imp]
      exact ⟨⟨h, ih.1⟩, ih.2⟩
    · simp only [List.takeWhile_cons_of_neg h, List.dropWhile_cons_of_neg h]
      refine ⟨by simp, ?_⟩
      intro x r' hx
      simp only [List.cons.injEq] at hx
      rw [← hx.1]; simpa using h

theorem unionKids_nil_right (xs : List (Key × Agg)) : unionKids xs [] = xs := by
  induction xs with
  | nil => simp [unionKids]
  | cons p r ih => obtain ⟨k, a⟩ := p; simp [unionKids, ih]

theorem unionKids_nil_left (ys : List (Key × Agg)) : unionKids [] ys = ys := by
  simp [unionKids]

theorem unionKids_cons_nil {k1 : Key} {a : Agg} {r1 ys : List (Key × Agg)}
    (h : ys.dropWhile (fun p => Key.lt p.1 k1) = []) :
    unionKids ((k1, a) :: r1) ys = ys.takeWhile (fun p => Key.lt p.1 k1) ++ (k1, a) :: r1 := by
  simp only [unionKids, h, unionKids_nil_right]

theorem unionKids_cons_eq {k1 : Key} {a b : Agg} {r1 ys rest' : List (Key × Agg)}
    (h : ys.dropWhile (fun p => Key.lt p.1 k1) = (k1, b) :: rest') :
    unionKids ((k1, a) :: r1) ys
      = ys.takeWhile (fun p => Key.lt p.1 k1) ++ (k1, addRaw a b) :: unionKids r1 rest' := by
  simp only [unionKids, h, if_true]

theorem unionKids_cons_ne {k1 k2 : Key} {a b : Agg} {r1 ys rest' : List (Key × Agg)}
    (h : ys.dropWhile (fun p => Key.lt p.1 k1) = (k2, b) :: rest') (hne : k2 ≠ k1) :
    unionKids ((k1, a) :: r1) ys
      = ys.takeWhile (fun p => Key.lt p.1 k1) ++ (k1, a) :: unionKids r1 ((k2, b) :: rest') := by
  simp only [unionKids, h, hne, if_false]

/-- every child of the union comes from one side, or is the merge of two children with the same key -/
theorem mem_unionKids {xs ys : List (Key × Agg)} {p : Key × Agg} (h : p ∈ unionKids xs ys) :
    p ∈ xs ∨ p ∈ ys ∨ ∃ a b, (p.1, a) ∈ xs ∧ (p.1, b) ∈ ys ∧ p.2 = addRaw a b := by
  induction xs generalizing ys with
  | nil => rw [unionKids_nil_left] at h; exact Or.inr (Or.inl h)
  | cons x r1 ih =>
    obtain ⟨k1, a⟩ := x
    have hlo : ∀ x ∈ ys.takeWhile (fun p => Key.lt p.1 k1), x ∈ ys :=
      fun x hx => List.takeWhile_subset _ hx
    have hdr : ∀ x ∈ ys.dropWhile (fun p => Key.lt p.1 k1), x ∈ ys :=
      fun x hx => (List.dropWhile_sublist _).subset hx
    cases hrest : ys.dropWhile (fun p => Key.lt p.1 k1) with
    | nil =>
      rw [unionKids_cons_nil hrest, List.mem_append] at h
      rcases h with h | h
      · exact Or.inr (Or.inl (hlo _ h))
      · exact Or.inl h
    | cons y rest' =>
      obtain ⟨k2, b⟩ := y
      rw [hrest] at hdr
      by_cases hk : k2 = k1
      · subst hk
        rw [unionKids_cons_eq hrest, List.mem_append, List.mem_cons] at h
        rcases h with h | rfl | h
        · exact Or.inr (Or.inl (hlo _ h))
        · exact Or.inr (Or.inr ⟨a, b, by simp, hdr _ (by simp), rfl⟩)
        · rcases ih h with h | h | ⟨a', b', h1, h2, h3⟩
          · exact Or.inl (by simp [h])
          · exact Or.inr (Or.inl (hdr _ (by simp [h])))
          · exact Or.inr (Or.inr ⟨a', b', by simp [h1], hdr _ (by simp [h2]), h3⟩)
      · rw [unionKids_cons_ne hrest hk, List.mem_append, List.mem_cons] at h
        rcases h with h | rfl | h
        · exact Or.inr (Or.inl (hlo _ h))
        · exact Or.inl (by simp)
        · rcases ih h with h | h | ⟨a', b', h1, h2, h3⟩
          · exact Or.inl (by simp [h])
          · exact Or.inr (Or.inl (hdr _ h))
          · exact Or.inr (Or.inr ⟨a', b', by simp [h1], hdr _ h2, h3⟩)

theorem mem_unionKids_key {xs ys : List (Key × Agg)} {p : Key × Agg} (h : p ∈ unionKids xs ys) :
    (∃ p' ∈ xs, p'.1 = p.1) ∨ (∃ p' ∈ ys, p'.1 = p.1) := by
  rcases mem_unionKids h with h | h | ⟨a, b, h1, _, _⟩
  · exact Or.inl ⟨p, h, rfl⟩
  · exact Or.inr ⟨p, h, rfl⟩
  · exact Or.inl ⟨_, h1, rfl⟩

/-- sortedness on the child list itself -/
def SortedK (l : List (Key × Agg)) : Prop := l.Pairwise (fun p q => Key.lt p.1 q.1 = true)

theorem sortedKeys_iff_pairwise (ks : List Key) :
    sortedKeys ks = true ↔ ks.Pairwise (fun a b => Key.lt a b = true) := by
  induction ks with
  | nil => simp [sortedKeys]
  | cons k r ih => rw [sortedKeys_cons, List.pairwise_cons, ih]

theorem sortedKeys_keysOf (l : List (Key × Agg)) : sortedKeys (keysOf l) = true ↔ SortedK l := by
  rw [sortedKeys_iff_pairwise, keysOf, List.pairwise_map]; rfl

theorem sorted_unionKids (T : Key → Prop)
    (tot : ∀ a b, T a → T b → Key.lt a b = false → a ≠ b → Key.lt b a = true)
    (xs ys : List (Key × Agg)) (hx : ∀ p ∈ xs, T p.1) (hy : ∀ p ∈ ys, T p.1)
    (sx : SortedK xs) (sy : SortedK ys) : SortedK (unionKids xs ys) := by
  induction xs generalizing ys with
  | nil => rw [unionKids_nil_left]; exact sy
  | cons x r1 ih =>
    obtain ⟨k1, a⟩ := x
    obtain ⟨hlt, hhd⟩ := takeDrop_spec (fun p : Key × Agg => Key.lt p.1 k1) ys
    have hsplit := (List.takeWhile_append_dropWhile (p := fun p : Key × Agg => Key.lt p.1 k1) (l := ys)).symm
    unfold SortedK at sx sy ⊢
    rw [List.pairwise_cons] at sx
    obtain ⟨sx1, sx2⟩ := sx
    rw [hsplit, List.pairwise_append] at sy
    obtain ⟨sylo, sydr, sycross⟩ := sy
    have hTr1 : ∀ p ∈ r1, T p.1 := fun p hp => hx p (by simp [hp])
    cases hrest : ys.dropWhile (fun p => Key.lt p.1 k1) with
    | nil =>
      rw [unionKids_cons_nil hrest, List.pairwise_append]
      refine ⟨sylo, List.pairwise_cons.2 ⟨sx1, sx2⟩, ?_⟩
      intro x hx' y hy'
      rcases List.mem_cons.1 hy' with rfl | hy'
      · exact hlt x hx'
      · exact Key.lt_trans (hlt x hx') (sx1 y hy')
    | cons y rest' =>
      obtain ⟨k2, b⟩ := y
      have hk2 : Key.lt k2 k1 = false := hhd _ _ hrest
      rw [hrest] at sydr sycross
      have hmem : ∀ z ∈ (k2, b) :: rest', z ∈ ys := by
        intro z hz
        have : z ∈ ys.dropWhile (fun p => Key.lt p.1 k1) := by rw [hrest]; exact hz
        exact (List.dropWhile_sublist _).subset this
      rw [List.pairwise_cons] at sydr
      obtain ⟨sy1, sy2⟩ := sydr
      by_cases hk : k2 = k1
      · subst hk
        rw [unionKids_cons_eq hrest, List.pairwise_append]
        have hall : ∀ z ∈ unionKids r1 rest', Key.lt k2 z.1 = true := by
          intro z hz
          rcases mem_unionKids_key hz with ⟨p', hp', e⟩ | ⟨p', hp', e⟩
          · rw [← e]; exact sx1 p' hp'
          · rw [← e]; exact sy1 p' hp'
        refine ⟨sylo, List.pairwise_cons.2 ⟨hall, ?_⟩, ?_⟩
        · exact ih rest' hTr1 (fun p hp => hy p (hmem p (by simp [hp]))) sx2 sy2
        · intro x hx' y hy'
          rcases List.mem_cons.1 hy' with rfl | hy'
          · exact hlt x hx'
          · exact Key.lt_trans (hlt x hx') (hall y hy')
      · have hk12 : Key.lt k1 k2 = true :=
          tot k2 k1 (hy (k2, b) (hmem _ (by simp))) (hx (k1, a) (by simp)) hk2 hk
        rw [unionKids_cons_ne hrest hk, List.pairwise_append]
        have hall : ∀ z ∈ unionKids r1 ((k2, b) :: rest'), Key.lt k1 z.1 = true := by
          intro z hz
          rcases mem_unionKids_key hz with ⟨p', hp', e⟩ | ⟨p', hp', e⟩
          · rw [← e]; exact sx1 p' hp'
          · rw [← e]
            rcases List.mem_cons.1 hp' with rfl | hp'
            · exact hk12
            · exact Key.lt_trans hk12 (sy1 p' hp')
        refine ⟨sylo, List.pairwise_cons.2 ⟨hall, ?_⟩, ?_⟩
        · exact ih ((k2, b) :: rest') hTr1 (fun p hp => hy p (hmem p hp)) sx2
            (List.pairwise_cons.2 ⟨sy1, sy2⟩)
        · intro x hx' y hy'
          rcases List.mem_cons.1 hy' with rfl | hy'
          · exact hlt x hx'
          · exact Key.lt_trans (hlt x hx') (hall y hy')

end Hg
