/-
  Hg.Proofs.CodecDecS — support lemmas for the decode∘encode round trip: strings, numbers, Bag keys,
  and the shape of the encoders on well-laid-out child lists.
-/
import Hg.Proofs.CodecDecK
import Hg.Proofs.CodecEnc

namespace Hg.CodecAux
open Hg Json

/-! ### strings -/

theorem toInt?_toString (i : Int) : (toString i).toInt? = some i := by
  show (Int.repr i).toInt? = some i
  exact Int.toInt?_repr i

theorem parseRange_toString (r : BagRange) : parseRange r.toString = r := by
  cases r with
  | S => rfl
  | N => rfl
  | Nn n =>
    simp only [BagRange.toString, parseRange]
    have h1 : ("N" ++ Nat.repr n) ≠ "S" := by
      intro h
      have := congrArg String.toList h
      simp at this
    have h2 : ("N" ++ Nat.repr n) ≠ "N" := by
      intro h
      have := congrArg String.toList h
      simp at this
    have h3 : (("N" ++ Nat.repr n).drop 1).toString = Nat.repr n := by
      apply String.toList_injective
      simp [String.toList_copy_drop]
    have h4 : ("N" ++ Nat.repr n).startsWith "N" = true := by
      simp
    simp only [h1, h2, h3, h4, if_false, Nat.toNat?_repr]
    simp

/-! ### numbers -/

theorem variance_round (e v : Val) (q : Rat) (he : e = .fin q) (hq : q ≠ 0) (hv : v.isFin = true ∨ v = .nan) :
    varianceOf e v * e = v := by
  subst he
  have hz : (Val.fin q).isZero = false := by simp [Val.isZero, hq]
  simp only [varianceOf, hz]
  cases v with
  | fin a =>
    show Val.mul (Val.div (.fin a) (.fin q)) (.fin q) = .fin a
    simp only [Val.div, hq, if_false, Val.mul, Rat.div_mul_cancel hq]
  | nan => rfl
  | pinf => rcases hv with h | h <;> cases h
  | ninf => rcases hv with h | h <;> cases h

theorem dev_round (q : Qty) (e m v : Val) (h : leafGood (.deviate q) e (.dev m v) = true) :
    varianceOf e v * e = v := by
  simp only [leafGood, leafGoodCore, Bool.and_eq_true] at h
  obtain ⟨⟨_, h⟩, _⟩ := h
  cases e with
  | fin r =>
    simp only [Bool.and_eq_true, decide_eq_true_eq] at h
    obtain ⟨_, h⟩ := h
    by_cases hr : r = 0
    · subst hr
      have h' : St.dev m v = St.dev .nan .nan := by simpa [St.zero] using h
      cases h'
      rfl
    · simp only [hr, if_false, Bool.or_eq_true, Bool.and_eq_true] at h
      apply variance_round _ _ r rfl hr
      rcases h with h | h
      · exact Or.inl h.2
      · right
        cases v <;> simp_all [Val.isNaN]
  | pinf => cases h
  | ninf => cases h
  | nan => cases h

/-! ### Bag -/

theorem mapM_toVal?_comp (l : List Val) : l.mapM (Json.toVal? ∘ Json.ofVal) = some l := by
  induction l with
  | nil => rfl
  | cons a l ih => simp [List.mapM_cons, toVal?_ofVal, ih]

theorem bkeyOf?_toJson (r : BagRange) (k : BKey) (h : k.inRange r = true) : bkeyOf? r k.toJson = some k := by
  cases r with
  | S =>
    cases k with
    | str s =>
      simp only [BKey.toJson]
      unfold bkeyOf?
      split <;> simp_all
    | num v => cases h
    | vec l => cases h
  | N =>
    cases k with
    | num v => cases v <;> rfl
    | str s => cases h
    | vec l => cases h
  | Nn n =>
    cases k with
    | vec l =>
      simp only [BKey.inRange, decide_eq_true_eq] at h
      simp [BKey.toJson, bkeyOf?, h, mapM_toVal?_comp]
    | str s => cases h
    | num v => cases h

theorem bagItem_round (r : BagRange) (k : BKey) (w : Val) (h : k.inRange r = true) :
    bagItem r (.obj [("w", Json.ofVal w), ("v", k.toJson)]) = some (k, w) := by
  have hk : Json.hasKeys [("w", Json.ofVal w), ("v", k.toJson)] ["w", "v"] [] = true := by rfl
  have h1 : Json.get? "w" [("w", Json.ofVal w), ("v", k.toJson)] = some (Json.ofVal w) := by
    simp [Json.get?]
  have h2 : Json.get? "v" [("w", Json.ofVal w), ("v", k.toJson)] = some k.toJson := by
    simp [Json.get?]
  simp [bagItem, hk, h1, h2, toVal?_ofVal, bkeyOf?_toJson r k h]

theorem mapM_map_some {α β γ : Type} (l : List α) (g : α → β) (F : β → Option γ) (h : α → γ)
    (hh : ∀ x ∈ l, F (g x) = some (h x)) : (l.map g).mapM F = some (l.map h) := by
  induction l with
  | nil => rfl
  | cons a l ih =>
    have h1 := hh a List.mem_cons_self
    have h2 := ih (fun x hx => hh x (List.mem_cons_of_mem _ hx))
    simp [List.mapM_cons, h1, h2]

theorem bag_round (r : BagRange) (m : List (BKey × Val)) (h : bagKeysOk r m = true) :
    (m.map (fun kv => Json.obj [("w", Json.ofVal kv.2), ("v", kv.1.toJson)])).mapM (bagItem r) = some m := by
  have := mapM_map_some m (fun kv => Json.obj [("w", Json.ofVal kv.2), ("v", kv.1.toJson)]) (bagItem r)
    (fun kv => (kv.1, kv.2)) (fun kv hkv => by
      simp only [bagKeysOk, List.all_eq_true] at h
      exact bagItem_round r kv.1 kv.2 (h kv hkv))
  simpa using this

end Hg.CodecAux
