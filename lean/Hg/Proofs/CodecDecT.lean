/-
  Hg.Proofs.CodecDecT — shape of child lists and of the list encoders; re-sorting an already sorted
  list of bins; `zipIdx` against positional keys.
-/
import Hg.Proofs.CodecDecS

namespace Hg.CodecAux
open Hg Json

/-! ### child lists -/

theorem keysOf_cons_inv (kids : List (Key × Agg)) (a : Key) (r : List Key) (h : keysOf kids = a :: r) :
    ∃ x rest, kids = (a, x) :: rest ∧ keysOf rest = r := by
  cases kids with
  | nil => cases h
  | cons p rest =>
    obtain ⟨k, x⟩ := p
    simp only [keysOf, List.map_cons, List.cons.injEq] at h
    obtain ⟨rfl, h2⟩ := h
    exact ⟨x, rest, rfl, h2⟩

theorem keysOf_nil_inv (kids : List (Key × Agg)) (h : keysOf kids = []) : kids = [] := by
  cases kids with
  | nil => rfl
  | cons p rest => cases h

theorem immutKids_eq_map (l : List (Key × Agg)) : immutKids l = l.map (fun p => (p.1, immut p.2)) := by
  induction l with
  | nil => rfl
  | cons p l ih => obtain ⟨k, a⟩ := p; simp [immutKids, ih]

theorem goodKids_mem (l : List (Key × Agg)) (h : goodKids l = true) : ∀ p ∈ l, good p.2 = true := by
  induction l with
  | nil => intro p hp; cases hp
  | cons q l ih =>
    obtain ⟨k, a⟩ := q
    simp only [goodKids, Bool.and_eq_true] at h
    intro p hp
    rcases List.mem_cons.1 hp with rfl | hp
    · exact h.1
    · exact ih h.2 p hp

theorem uniformKids_mem (l : List (Key × Agg)) (h : uniformKids l = true) : ∀ p ∈ l, uniform p.2 = true := by
  induction l with
  | nil => intro p hp; cases hp
  | cons q l ih =>
    obtain ⟨k, a⟩ := q
    simp only [uniformKids, Bool.and_eq_true] at h
    intro p hp
    rcases List.mem_cons.1 hp with rfl | hp
    · exact h.1
    · exact ih h.2 p hp

def nonFlow (l : List (Key × Agg)) : Prop := ∀ p ∈ l, isFlow p.1 = false

theorem nonFlow_of_all (P : Key → Bool) (hP : ∀ k, P k = true → isFlow k = false) (l : List (Key × Agg))
    (h : (keysOf l).all P = true) : nonFlow l := by
  intro p hp
  apply hP
  simp only [keysOf, List.all_eq_true, List.mem_map] at h
  exact h p.1 ⟨p, hp, rfl⟩

theorem mem_keys_all (P : Key → Bool) (l : List (Key × Agg)) (h : (keysOf l).all P = true) :
    ∀ p ∈ l, P p.1 = true := by
  intro p hp
  simp only [keysOf, List.all_eq_true, List.mem_map] at h
  exact h p.1 ⟨p, hp, rfl⟩

theorem nonFlow_tail (p : Key × Agg) (l : List (Key × Agg)) (h : nonFlow (p :: l)) : nonFlow l :=
  fun q hq => h q (List.mem_cons_of_mem _ hq)

theorem binsOf_nonFlow (l : List (Key × Agg)) (h : nonFlow l) : binsOf l = l := by
  induction l with
  | nil => rfl
  | cons p l ih =>
    have hp := h p List.mem_cons_self
    have := ih (nonFlow_tail p l h)
    obtain ⟨k, a⟩ := p
    have e : binsOf ((k, a) :: l) = (k, a) :: binsOf l := by
      cases k <;> first | (simp [isFlow] at hp; done) | simp [binsOf]
    rw [e, this]

theorem encodeList_nonFlow (l : List (Key × Agg)) (s : Bool) (h : nonFlow l) :
    encodeList l s = l.map (fun p => encodeFrag p.2 s) := by
  induction l with
  | nil => simp [encodeList]
  | cons p l ih =>
    have hp := h p List.mem_cons_self
    obtain ⟨k, a⟩ := p
    simp only [encodeList, hp, List.map_cons, ih (nonFlow_tail _ l h)]
    simp

theorem encodeMembers_nonFlow (l : List (Key × Agg)) (s : Bool) (h : nonFlow l) :
    encodeMembers l s = l.map (fun p => (p.1.toJsonKey, encodeFrag p.2 s)) := by
  induction l with
  | nil => simp [encodeMembers]
  | cons p l ih =>
    have hp := h p List.mem_cons_self
    obtain ⟨k, a⟩ := p
    simp only [encodeMembers, hp, List.map_cons, ih (nonFlow_tail _ l h)]
    simp

theorem encodeTypedMembers_eq (l : List (Key × Agg)) :
    encodeTypedMembers l = l.map (fun p => (p.1.toJsonKey,
      Json.obj [("type", .str p.2.typeName), ("data", encodeFrag p.2 false)])) := by
  induction l with
  | nil => simp [encodeTypedMembers]
  | cons p l ih => obtain ⟨k, a⟩ := p; simp [encodeTypedMembers, ih]

theorem encodeTypedList_eq (l : List (Key × Agg)) :
    encodeTypedList l = l.map (fun p =>
      Json.obj [("type", .str p.2.typeName), ("data", encodeFrag p.2 false)]) := by
  induction l with
  | nil => simp [encodeTypedList]
  | cons p l ih => obtain ⟨k, a⟩ := p; simp [encodeTypedList, ih]

def pairJson (field : String) (p : Key × Agg) : Json :=
  match p.1 with
  | .ctr c => .obj [(field, .num c), ("data", encodeFrag p.2 true)]
  | .thr t => .obj [(field, Json.ofVal t), ("data", encodeFrag p.2 true)]
  | _ => .null

theorem encodePairs_eq (field : String) (l : List (Key × Agg))
    (h : ∀ p ∈ l, (p.1.isCtr || p.1.isThr) = true) : encodePairs field l = l.map (pairJson field) := by
  induction l with
  | nil => simp [encodePairs]
  | cons p l ih =>
    have hp := h p List.mem_cons_self
    have := ih (fun q hq => h q (List.mem_cons_of_mem _ hq))
    obtain ⟨k, a⟩ := p
    cases k <;> simp_all [encodePairs, pairJson, Key.isCtr, Key.isThr]

/-! ### positional keys -/

theorem zipIdx_keys (mk : Nat → Key) (l : List (Key × Agg)) (k : Nat)
    (h : keysOf l = (List.range' k l.length).map mk) :
    ((l.map (fun p => immut p.2)).zipIdx k).map (fun p => (mk p.2, p.1)) = immutKids l := by
  induction l generalizing k with
  | nil => rfl
  | cons p l ih =>
    obtain ⟨key, a⟩ := p
    simp only [keysOf, List.map_cons, List.length_cons, List.range'_succ, List.cons.injEq] at h
    obtain ⟨h1, h2⟩ := h
    have := ih (k + 1) h2
    simp only [List.map_cons, List.zipIdx_cons, immutKids, this, ← h1]

theorem keys_range_length (mk : Nat → Key) (l : List (Key × Agg)) (n : Nat)
    (h : keysOf l = (List.range n).map mk) : l.length = n := by
  have := congrArg List.length h
  simpa [keysOf] using this

theorem zipIdx_keys0 (mk : Nat → Key) (l : List (Key × Agg)) (n : Nat)
    (h : keysOf l = (List.range n).map mk) :
    ((l.map (fun p => immut p.2)).zipIdx).map (fun p => (mk p.2, p.1)) = immutKids l := by
  have hn := keys_range_length mk l n h
  apply zipIdx_keys mk l 0
  rw [h, hn, List.range_eq_range']

/-! ### re-sorting a sorted list -/

theorem sortedKeys_tail (a : Key) (l : List Key) (h : sortedKeys (a :: l) = true) : sortedKeys l = true := by
  cases l with
  | nil => rfl
  | cons b l => simp only [sortedKeys, Bool.and_eq_true] at h; exact h.2

theorem sortedKeys_prefix (l1 l2 : List Key) (h : sortedKeys (l1 ++ l2) = true) : sortedKeys l1 = true := by
  induction l1 with
  | nil => rfl
  | cons a l1 ih =>
    cases l1 with
    | nil => rfl
    | cons b l1 =>
      simp only [List.cons_append, sortedKeys, Bool.and_eq_true] at h ⊢
      exact ⟨h.1, ih h.2⟩

/-- `Key.lt` is a strict order on the keys satisfying `P` -/
def StrictOn (P : Key → Bool) : Prop :=
  (∀ a b c, P a = true → P b = true → P c = true → Key.lt a b = true → Key.lt b c = true → Key.lt a c = true) ∧
  (∀ a b, P a = true → P b = true → Key.lt a b = true → Key.lt b a = false)

theorem strictOn_idx : StrictOn Key.isIdx := by
  constructor
  · intro a b c ha hb hc
    cases a <;> try cases ha
    cases b <;> try cases hb
    cases c <;> try cases hc
    simp only [Key.lt, decide_eq_true_eq]
    omega
  · intro a b ha hb
    cases a <;> try cases ha
    cases b <;> try cases hb
    simp only [Key.lt, decide_eq_true_eq, decide_eq_false_iff_not]
    omega

theorem strictOn_cat : StrictOn Key.isCat := by
  constructor
  · intro a b c ha hb hc
    cases a <;> try cases ha
    cases b <;> try cases hb
    cases c <;> try cases hc
    simp only [Key.lt, decide_eq_true_eq]
    exact String.lt_trans
  · intro a b ha hb
    cases a <;> try cases ha
    cases b <;> try cases hb
    simp only [Key.lt, decide_eq_true_eq, decide_eq_false_iff_not]
    exact String.lt_asymm

theorem sorted_head_lt (P : Key → Bool) (hc : StrictOn P) :
    ∀ (l : List Key) (a x : Key), P a = true → l.all P = true → P x = true →
      sortedKeys (a :: (l ++ [x])) = true → Key.lt a x = true := by
  intro l
  induction l with
  | nil =>
    intro a x _ _ _ h
    simp only [List.nil_append, sortedKeys, Bool.and_eq_true] at h
    exact h.1
  | cons b l ih =>
    intro a x ha hl hx h
    simp only [List.cons_append, sortedKeys, Bool.and_eq_true] at h
    simp only [List.all_cons, Bool.and_eq_true] at hl
    exact hc.1 a b x ha hl.1 hx h.1 (ih b x hl.1 hl.2 hx h.2)

theorem insertK_last (P : Key → Bool) (hc : StrictOn P) :
    ∀ (l : List (Key × Agg)) (k : Key) (a : Agg), (keysOf l).all P = true → P k = true →
      sortedKeys (keysOf l ++ [k]) = true → insertK k a l = l ++ [(k, a)] := by
  intro l
  induction l with
  | nil => intro k a _ _ _; rfl
  | cons p l ih =>
    intro k a hl hk hs
    obtain ⟨k', b⟩ := p
    simp only [keysOf, List.map_cons, List.all_cons, Bool.and_eq_true] at hl
    have hlt : Key.lt k' k = true := sorted_head_lt P hc (keysOf l) k' k hl.1 hl.2 hk hs
    have hnl : Key.lt k k' = false := hc.2 k' k hl.1 hk hlt
    have := ih k a hl.2 hk (sortedKeys_tail k' _ hs)
    simp [insertK, hnl, this]

theorem foldl_insertK (P : Key → Bool) (hc : StrictOn P) :
    ∀ (rest acc : List (Key × Agg)), (keysOf (acc ++ rest)).all P = true →
      sortedKeys (keysOf (acc ++ rest)) = true →
      rest.foldl (fun acc p => insertK p.1 p.2 acc) acc = acc ++ rest := by
  intro rest
  induction rest with
  | nil => intro acc _ _; simp
  | cons p rest ih =>
    intro acc hall hs
    have e : acc ++ p :: rest = (acc ++ [p]) ++ rest := by simp
    rw [e] at hall hs
    have hall' : (keysOf (acc ++ [p])).all P = true := by
      simp only [keysOf, List.map_append, List.all_append, Bool.and_eq_true] at hall ⊢
      exact hall.1
    have hs' : sortedKeys (keysOf (acc ++ [p])) = true := by
      simp only [keysOf, List.map_append] at hs ⊢
      exact sortedKeys_prefix _ _ hs
    have hins : insertK p.1 p.2 acc = acc ++ [p] := by
      apply insertK_last P hc
      · simp only [keysOf, List.map_append, List.all_append, Bool.and_eq_true] at hall' ⊢
        exact hall'.1
      · simp only [keysOf, List.map_append, List.all_append, Bool.and_eq_true, List.map_cons,
          List.map_nil, List.all_cons, List.all_nil, Bool.and_true] at hall'
        exact hall'.2
      · simpa [keysOf] using hs'
    simp only [List.foldl_cons, hins]
    rw [ih (acc ++ [p]) hall hs, e]

theorem foldl_insertK_sorted (P : Key → Bool) (hc : StrictOn P) (l : List (Key × Agg))
    (hall : (keysOf l).all P = true) (hs : sortedKeys (keysOf l) = true) :
    l.foldl (fun acc p => insertK p.1 p.2 acc) [] = l := by
  simpa using foldl_insertK P hc l [] (by simpa using hall) (by simpa using hs)

end Hg.CodecAux
