/-
  Hg.Proofs.TreeFacts — the Bool-valued predicates of WF/Live as Prop-level facts, and the
  case-by-case unfolding of `fill`, used by TreeLaws2.
-/
import Hg.Proofs.SortedKids
import Hg.Model.Live

/- Helper lemmas of the TreeLaws2 package live in `Hg.P3` so that they do not clash with the
   (independently developed) helpers of the TreeLaws1 package. -/
namespace Hg.P3

/-! ### list predicates -/

theorem goodKids_iff : ∀ {l : List (Key × Agg)}, goodKids l = true ↔ ∀ p ∈ l, good p.2 = true
  | [] => by simp [goodKids]
  | (k, a) :: r => by
    simp only [goodKids, Bool.and_eq_true, List.forall_mem_cons, goodKids_iff (l := r)]

theorem hasTmplKids_iff : ∀ {l : List (Key × Agg)}, hasTmplKids l = true ↔ ∀ p ∈ l, hasTmpl p.2 = true
  | [] => by simp [hasTmplKids]
  | (k, a) :: r => by
    simp only [hasTmplKids, Bool.and_eq_true, List.forall_mem_cons, hasTmplKids_iff (l := r)]

theorem noBinsKids_iff : ∀ {l : List (Key × Agg)}, noBinsKids l = true ↔ ∀ p ∈ l, noBins p.2 = true
  | [] => by simp [noBinsKids]
  | (k, a) :: r => by
    simp only [noBinsKids, Bool.and_eq_true, List.forall_mem_cons, noBinsKids_iff (l := r)]

theorem isZeroKids_iff : ∀ {l : List (Key × Agg)}, isZeroKids l = true ↔ ∀ p ∈ l, isZeroTree p.2 = true
  | [] => by simp [isZeroKids]
  | (k, a) :: r => by
    simp only [isZeroKids, Bool.and_eq_true, List.forall_mem_cons, isZeroKids_iff (l := r)]

theorem sameBaseBins_iff (t : Agg) : ∀ {l : List (Key × Agg)},
    sameBaseBins t l = true ↔ ∀ p ∈ l, p.1 ≠ .nanflow → sameBase t p.2 = true
  | [] => by simp [sameBaseBins]
  | (k, a) :: r => by
    simp only [sameBaseBins, Bool.and_eq_true, List.forall_mem_cons, sameBaseBins_iff t (l := r)]
    by_cases hk : k = .nanflow <;> simp [hk]

theorem sameBaseFlow_iff (ys : List (Key × Agg)) : ∀ {l : List (Key × Agg)},
    sameBaseFlow l ys = true ↔
      ∀ p ∈ l, p.1 = .nanflow → ∃ b, lookupK .nanflow ys = some b ∧ sameBase p.2 b = true
  | [] => by simp [sameBaseFlow]
  | (k, a) :: r => by
    simp only [sameBaseFlow, Bool.and_eq_true, List.forall_mem_cons, sameBaseFlow_iff ys (l := r)]
    by_cases hk : k = .nanflow
    · simp only [hk, if_true, true_imp_iff]
      cases lookupK Key.nanflow ys <;> simp
    · simp [hk]

/-! ### node-level facts -/

theorem St.unit_of_fits {k : Kind} {st : St} (hk : k.isLeaf = false) (h : St.fits k st = true) :
    st = .unit := by
  cases k <;> cases st <;> simp_all [St.fits, Kind.isLeaf]

theorem keys_nil_of_leaf {k : Kind} {ks : List Key} (hk : k.isLeaf = true)
    (h : k.layoutOk ks = true) : ks = [] := by
  cases k <;> simp only [Kind.isLeaf, Bool.false_eq_true] at hk <;>
    simpa [Kind.layoutOk] using h

theorem kids_nil_of_keys {α : Type} {l : List (Key × α)} (h : keysOf l = []) : l = [] := by
  cases l with
  | nil => rfl
  | cons p r => cases h

structure GoodNode (k : Kind) (e : Val) (st : St) (tmpl : Option Agg) (kids : List (Key × Agg)) : Prop where
  leaf : k.isLeaf = true → leafGood k e st = true
  st_unit : k.isLeaf = false → st = .unit
  efin : ∃ q : Rat, e = .fin q
  layout : k.layoutOk (keysOf kids) = true
  gkids : ∀ p ∈ kids, good p.2 = true
  gtmpl : ∀ t, tmpl = some t → good t = true ∧ isZeroTree t = true
  bins : k.isSparse = true → ∀ t, tmpl = some t → ∀ p ∈ kids, p.1 ≠ .nanflow → sameBase t p.2 = true

theorem leafGood_efin {k : Kind} {e : Val} {st : St} (h : leafGood k e st = true) : ∃ q : Rat, e = .fin q := by
  unfold leafGood at h
  rw [Bool.and_eq_true] at h
  replace h := h.1
  unfold leafGoodCore at h
  cases e with
  | fin q => exact ⟨q, rfl⟩
  | _ => simp at h

theorem good_node {k : Kind} {e : Val} {st : St} {tmpl : Option Agg} {kids : List (Key × Agg)}
    (h : good (.node k e st tmpl kids) = true) : GoodNode k e st tmpl kids := by
  unfold good at h
  simp only [Bool.and_eq_true] at h
  obtain ⟨⟨⟨⟨⟨h1, h2⟩, h3⟩, h4⟩, h5⟩, _⟩ := h
  refine ⟨?_, ?_, ?_, h2, goodKids_iff.1 h3, ?_, ?_⟩
  · intro hk; rw [if_pos hk] at h1; exact h1
  · intro hk
    rw [if_neg (by rw [hk]; simp), Bool.and_eq_true] at h1
    exact St.unit_of_fits hk h1.1
  · by_cases hk : k.isLeaf = true
    · rw [if_pos hk] at h1; exact leafGood_efin h1
    · rw [if_neg hk, Bool.and_eq_true] at h1
      cases e with
      | fin q => exact ⟨q, rfl⟩
      | _ => simp at h1
  · intro t ht
    subst ht
    simpa [goodTmpl] using h4
  · intro hk t ht
    subst ht
    rw [if_pos hk] at h5
    simp only [sameBaseTmpl] at h5
    exact (sameBaseBins_iff t).1 h5

structure SameBaseNode (k1 : Kind) (t1 : Option Agg) (kids1 : List (Key × Agg))
    (k2 : Kind) (t2 : Option Agg) (kids2 : List (Key × Agg)) : Prop where
  kind : k1 = k2
  tmplEq : t1 = t2
  zip : k1.isSparse = false → sameBaseZip kids1 kids2 = true
  flow : k1.isSparse = true →
    ∀ p ∈ kids1, p.1 = .nanflow → ∃ b, lookupK .nanflow kids2 = some b ∧ sameBase p.2 b = true
  bins1 : k1.isSparse = true → ∀ t, t1 = some t → ∀ p ∈ kids1, p.1 ≠ .nanflow → sameBase t p.2 = true
  bins2 : k1.isSparse = true → ∀ t, t1 = some t → ∀ p ∈ kids2, p.1 ≠ .nanflow → sameBase t p.2 = true

theorem sameBase_node {k1 e1 s1 t1 kids1 k2 e2 s2 t2 kids2}
    (h : sameBase (.node k1 e1 s1 t1 kids1) (.node k2 e2 s2 t2 kids2) = true) :
    SameBaseNode k1 t1 kids1 k2 t2 kids2 := by
  rw [sameBase] at h
  simp only [Bool.and_eq_true, decide_eq_true_eq] at h
  obtain ⟨⟨h1, h2⟩, h3⟩ := h
  refine ⟨h1, h2, ?_, ?_, ?_, ?_⟩
  · intro hk; rw [if_neg (by rw [hk]; simp)] at h3; exact h3
  · intro hk; rw [if_pos hk] at h3
    simp only [Bool.and_eq_true] at h3
    exact (sameBaseFlow_iff kids2).1 h3.1.1
  · intro hk t ht; rw [if_pos hk] at h3
    simp only [Bool.and_eq_true] at h3
    subst ht
    exact (sameBaseBins_iff t).1 (by simpa [sameBaseTmpl] using h3.1.2)
  · intro hk t ht; rw [if_pos hk] at h3
    simp only [Bool.and_eq_true] at h3
    subst ht
    exact (sameBaseBins_iff t).1 (by simpa [sameBaseTmpl] using h3.2)

structure HasTmplNode (k : Kind) (tmpl : Option Agg) (kids : List (Key × Agg)) : Prop where
  hsome : k.isSparse = true → ∃ t, tmpl = some t
  htmpl : ∀ t, tmpl = some t → hasTmpl t = true ∧ noBins t = true
  hkids : ∀ p ∈ kids, hasTmpl p.2 = true

theorem hasTmpl_node {k e st tmpl kids} (h : hasTmpl (.node k e st tmpl kids) = true) :
    HasTmplNode k tmpl kids := by
  rw [hasTmpl] at h
  simp only [Bool.and_eq_true] at h
  obtain ⟨⟨h1, h2⟩, h3⟩ := h
  refine ⟨?_, ?_, hasTmplKids_iff.1 h3⟩
  · intro hk; rw [if_pos hk] at h1
    cases tmpl with
    | none => simp at h1
    | some t => exact ⟨t, rfl⟩
  · intro t ht; subst ht
    simpa [hasTmplOpt] using h2

theorem noBins_node {k e st tmpl kids} (h : noBins (.node k e st tmpl kids) = true) :
    (k.isSparse = true → ∀ p ∈ kids, p.1 = .nanflow) ∧ ∀ p ∈ kids, noBins p.2 = true := by
  rw [noBins] at h
  simp only [Bool.and_eq_true] at h
  refine ⟨?_, noBinsKids_iff.1 h.2⟩
  intro hk; have h1 := h.1; rw [if_pos hk] at h1
  simpa using h1

theorem isZeroTree_node {k e st tmpl kids} (h : isZeroTree (.node k e st tmpl kids) = true) :
    e = .fin 0 ∧ st = St.zero k ∧ ∀ p ∈ kids, isZeroTree p.2 = true := by
  rw [isZeroTree] at h
  simp only [Bool.and_eq_true, decide_eq_true_eq] at h
  refine ⟨?_, h.1.1.2, isZeroKids_iff.1 h.2⟩
  have := h.1.1.1
  cases e <;> simp [Val.isZero] at this
  rw [this]

/-- the keys of a good sparse node are strictly sorted -/
theorem SL_of_good {k e st tmpl kids} (h : GoodNode k e st tmpl kids) (hk : k.isSparse = true) :
    SL k.cls kids := SLk_of_layoutOk hk h.layout

/-! ### numbers -/

theorem Val.fin_add (a b : Rat) : (Val.fin a + Val.fin b) = Val.fin (a + b) := rfl

theorem Val.add_right_comm_fin (a b c : Rat) :
    Val.fin a + Val.fin b + Val.fin c = Val.fin a + Val.fin c + Val.fin b := by
  simp only [Val.fin_add, Rat.add_assoc, Rat.add_comm b c]

theorem Val.pos_fin {w : Val} (hw : w.okWeight = true) (hp : w.pos = true) :
    ∃ q : Rat, w = .fin q ∧ 0 < q := by
  unfold Val.okWeight at hw
  rw [hp] at hw
  cases w with
  | fin q => exact ⟨q, rfl, by simpa [Val.pos, Val.lt] using hp⟩
  | _ => simp [Val.isFin] at hw

theorem Val.fin_of_add_fin {q : Rat} {w : Val} {r : Rat} (h : Val.fin q + w = Val.fin r) :
    ∃ x, w = .fin x := by
  cases w with
  | fin x => exact ⟨x, rfl⟩
  | _ => cases h

/-! ### unfolding `fill` -/

theorem fill_gate' (t : Agg) (d : Datum) (w : Val) (hw : w.pos = false) : fill t d w = (t, .ok) := by
  cases t
  rw [fill]
  simp only [hw, Bool.not_false, if_true]

theorem fill_leaf {k e st tmpl kids} (d : Datum) {w : Val} (hw : w.pos = true) (hk : k.isLeaf = true) :
    fill (.node k e st tmpl kids) d w =
      match leafFill k e st d w with
      | .ok (e', st') => (.node k e' st' tmpl kids, .ok)
      | .error f => (.node k e st tmpl kids, .raised f) := by
  rw [fill]
  simp only [hw, Bool.not_true, Bool.false_eq_true, if_false, hk, if_true]
  rfl

theorem fill_route_err {k e st tmpl kids} {d : Datum} {w : Val} {f : Fault} (hw : w.pos = true)
    (hk : k.isLeaf = false) (hr : route k (keysOf kids) d w = .error f) :
    fill (.node k e st tmpl kids) d w = (.node k e st tmpl kids, .raised f) := by
  rw [fill]
  simp only [hw, Bool.not_true, Bool.false_eq_true, if_false, hk, hr]

theorem fill_fixed {k e st tmpl kids} {d : Datum} {w : Val} {tg : List (Key × Val)} (hw : w.pos = true)
    (hk : k.isLeaf = false) (hs : k.isSparse = false) (hr : route k (keysOf kids) d w = .ok tg) :
    fill (.node k e st tmpl kids) d w =
      (.node k (if (fillKids kids tg d).2.isOk = true then e + w else e) st tmpl (fillKids kids tg d).1,
       (fillKids kids tg d).2) := by
  rw [fill]
  simp only [hw, Bool.not_true, Bool.false_eq_true, if_false, hk, hr, hs]

theorem fill_sparse_has {k e st tmpl kids} {d : Datum} {w w' : Val} {key : Key} (hw : w.pos = true)
    (hk : k.isLeaf = false) (hs : k.isSparse = true) (hr : route k (keysOf kids) d w = .ok [(key, w')])
    (hh : hasKey key kids = true) :
    fill (.node k e st tmpl kids) d w =
      (.node k (if (fillKids kids [(key, w')] d).2.isOk = true then e + w else e) st tmpl
          (fillKids kids [(key, w')] d).1,
       (fillKids kids [(key, w')] d).2) := by
  rw [fill]
  simp only [hw, Bool.not_true, Bool.false_eq_true, if_false, hk, hr, hs, hh, if_true]

theorem fill_sparse_new {k e st tmpl kids} {d : Datum} {w w' : Val} {key : Key} (hw : w.pos = true)
    (hk : k.isLeaf = false) (hs : k.isSparse = true) (hr : route k (keysOf kids) d w = .ok [(key, w')])
    (hh : hasKey key kids = false) :
    fill (.node k e st tmpl kids) d w =
      match fillTmpl tmpl d w' with
      | some (nb, .ok) => (.node k (e + w) st tmpl (insertK key nb kids), .ok)
      | some (_, .raised f) => (.node k e st tmpl kids, .raised f)
      | none => (.node k e st tmpl kids, .raised .typeErr) := by
  rw [fill]
  simp only [hw, Bool.not_true, Bool.false_eq_true, if_false, hk, hr, hs, hh]
  rfl

/-! ### `route` -/

theorem Kind.not_leaf_of_sparse {k : Kind} (h : k.isSparse = true) : k.isLeaf = false := by
  cases k <;> simp_all [Kind.isSparse, Kind.isLeaf]

theorem route_sparse_keys {k : Kind} (hs : k.isSparse = true) (keys keys' : List Key) (d : Datum) (w : Val) :
    route k keys d w = route k keys' d w := by
  cases k <;> simp only [Kind.isSparse, Bool.false_eq_true] at hs <;> rfl

theorem sparseIndex_cls (width origin : Rat) (x : Val) : Key.inCls true (sparseIndex width origin x) = true := by
  unfold sparseIndex
  cases x <;> simp only [] <;> (try split_ifs) <;> rfl

theorem route_sparse {k : Kind} (hs : k.isSparse = true) {keys : List Key} {d : Datum} {w : Val}
    {tg : List (Key × Val)} (h : route k keys d w = .ok tg) :
    ∃ key, tg = [(key, w)] ∧ Key.inCls k.cls key = true := by
  cases k <;> simp only [Kind.isSparse, Bool.false_eq_true] at hs
  · -- sparse
    rename_i q width origin ct cn
    simp only [route, bind, Except.bind, pure, Except.pure] at h
    cases hx : q.evalNum d with
    | error f => rw [hx] at h; cases h
    | ok x =>
      rw [hx] at h
      injection h with h
      exact ⟨_, h.symm, sparseIndex_cls _ _ _⟩
  · -- categorize
    rename_i q ct cn
    simp only [route, pure, Except.pure] at h
    split at h
    · cases h
    · split at h <;> cases h <;> exact ⟨_, rfl, rfl⟩

theorem keysOf_zipKids : ∀ (xs ys : List (Key × Agg)), keysOf (zipKids xs ys) = keysOf xs
  | [], _ => by rw [zipKids]
  | (k, a) :: r, [] => by rw [zipKids]
  | (k, a) :: r, (k2, b) :: r2 => by
    rw [zipKids, keysOf_cons, keysOf_cons, keysOf_zipKids r r2]

/-! ### entries after a fill -/

theorem meanUpdate_fst (e0 m q w : Val) : (meanUpdate e0 m q w).1 = e0 + w := by
  unfold meanUpdate
  simp only []
  split_ifs <;> rfl

theorem leafFill_entries {k : Kind} {e : Val} {st : St} {d : Datum} {w e' : Val} {st' : St}
    (h : leafFill k e st d w = .ok (e', st')) : e' = e + w := by
  unfold leafFill at h
  split at h
  · injection h with h; injection h with h1 h2; exact h1.symm
  all_goals
    first
    | cases h
    | (simp only [bind, Except.bind, pure, Except.pure] at h
       split at h
       · cases h
       · injection h with h; injection h with h1 h2
         first | exact h1.symm | (rw [← h1]; exact meanUpdate_fst _ _ _ _))

theorem Agg.entries_node {k e st tmpl kids} : (Agg.node k e st tmpl kids).entries = e := rfl

theorem fill_entries (a : Agg) (d : Datum) (w : Val) (hp : w.pos = true)
    (hok : (fill a d w).2 = .ok) : (fill a d w).1.entries = a.entries + w := by
  obtain ⟨k, e, st, tmpl, kids⟩ := a
  by_cases hk : k.isLeaf = true
  · rw [fill_leaf d hp hk] at hok ⊢
    cases hl : leafFill k e st d w with
    | error f => rw [hl] at hok; cases hok
    | ok r =>
      obtain ⟨e', st'⟩ := r
      simp only [Agg.entries_node]
      exact leafFill_entries hl
  · have hk' : k.isLeaf = false := by simpa using hk
    cases hr : route k (keysOf kids) d w with
    | error f => rw [fill_route_err hp hk' hr] at hok; cases hok
    | ok tg =>
      by_cases hs : k.isSparse = true
      · obtain ⟨key, rfl, _⟩ := route_sparse hs hr
        by_cases hh : hasKey key kids = true
        · rw [fill_sparse_has hp hk' hs hr hh] at hok ⊢
          simp only at hok
          simp only [Agg.entries_node, hok, Outcome.isOk, if_true]
        · have hh' : hasKey key kids = false := by simpa using hh
          rw [fill_sparse_new hp hk' hs hr hh'] at hok ⊢
          split at hok
          · simp only [Agg.entries_node]
          · cases hok
          · cases hok
      · have hs' : k.isSparse = false := by simpa using hs
        rw [fill_fixed hp hk' hs' hr] at hok ⊢
        simp only at hok
        simp only [Agg.entries_node, hok, Outcome.isOk, if_true]

theorem good_entries_fin {a : Agg} (h : good a = true) : ∃ q : Rat, a.entries = .fin q := by
  obtain ⟨k, e, st, tmpl, kids⟩ := a
  exact (good_node h).efin

/-- a fill that returns normally and leaves a good tree was made with an acceptable weight -/
theorem okWeight_of_good_fill {a : Agg} {d : Datum} {w : Val} (ha : good a = true)
    (hok : (fill a d w).2 = .ok) (hg : good (fill a d w).1 = true) : w.okWeight = true := by
  unfold Val.okWeight
  by_cases hp : w.pos = true
  · have h1 := fill_entries a d w hp hok
    obtain ⟨q, hq⟩ := good_entries_fin ha
    obtain ⟨r, hr⟩ := good_entries_fin hg
    rw [hq, hr] at h1
    obtain ⟨x, rfl⟩ := Val.fin_of_add_fin h1.symm
    simp [Val.isFin]
  · simp [hp]

end Hg.P3
