import Hg.Proofs.CodecMain3

namespace Hg
namespace CodecAux
open Json

/-! ### Label / UntypedLabel / Index / Branch -/

theorem allSameType_cons_eq (k : Key) (a : Agg) (rest : List (Key × Agg)) :
    allSameType ((k, a) :: rest) = rest.all (fun p => sameTypeAs a p.2) := by
  simp only [allSameType]
  congr 1
  funext p
  simp only [sameTypeAs]
  have e1 : (p.2.typeName == a.typeName) = (a.typeName == p.2.typeName) := BEq.comm
  rw [e1]
  congr 1

theorem allSameType_immutKids (kids : List (Key × Agg))
    (h : ∃ p rest, kids = p :: rest ∧ rest.all (fun r => sameTypeAs p.2 r.2) = true) :
    allSameType (immutKids kids) = true ∧ ∀ p ∈ kids, p.2.typeName = firstType kids := by
  obtain ⟨p, rest, rfl, h⟩ := h
  obtain ⟨k, a⟩ := p
  simp only [List.all_eq_true] at h
  constructor
  · simp only [immutKids, allSameType_cons_eq, immutKids_eq_map, List.all_map, List.all_eq_true,
      Function.comp]
    intro r hr
    rw [sameTypeAs_immut]
    exact h r hr
  · intro r hr
    rcases List.mem_cons.1 hr with rfl | hr
    · rfl
    · have := h r hr
      simp only [sameTypeAs, Bool.and_eq_true, beq_iff_eq] at this
      exact this.1.symm

theorem label_uniform (e : Val) (st : St) (tmpl : Option Agg) (kids : List (Key × Agg))
    (h : uniform (.node .label e st tmpl kids) = true) :
    uniformKids kids = true ∧ allSameType (immutKids kids) = true ∧ ∀ p ∈ kids, p.2.typeName = firstType kids := by
  simp only [uniform, Bool.and_eq_true] at h
  refine ⟨h.1, allSameType_immutKids kids ?_⟩
  cases kids with
  | nil => cases h.2
  | cons p rest => exact ⟨p, rest, rfl, h.2⟩

theorem index_uniform (e : Val) (st : St) (tmpl : Option Agg) (kids : List (Key × Agg))
    (h : uniform (.node .index e st tmpl kids) = true) :
    uniformKids kids = true ∧ allSameType (immutKids kids) = true ∧ ∀ p ∈ kids, p.2.typeName = firstType kids := by
  simp only [uniform, Bool.and_eq_true] at h
  refine ⟨h.1, allSameType_immutKids kids ?_⟩
  cases kids with
  | nil => cases h.2
  | cons p rest => exact ⟨p, rest, rfl, h.2⟩

theorem nonFlow_lbl (l : List (Key × Agg)) (h : (keysOf l).all Key.isLbl = true) : nonFlow l :=
  nonFlow_of_all Key.isLbl (fun k hk => by cases k <;> first | rfl | cases hk) l h

theorem lblItem_round (fuel : Nat) (stp : String) (p : Key × Agg)
    (hc : p.1.isLbl = true) (hdec : decodeFrag fuel stp (encodeFrag p.2 false) none = some (immut p.2)) :
    lblItem fuel stp (p.1.toJsonKey, encodeFrag p.2 false) = some (p.1, immut p.2) := by
  obtain ⟨k, a⟩ := p
  cases k <;> try cases hc
  simp [lblItem, Key.toJsonKey, hdec]

theorem typedVal_round (fuel : Nat) (a : Agg)
    (hdec : decodeFrag fuel a.typeName (encodeFrag a false) none = some (immut a)) :
    typedVal fuel (.obj [("type", .str a.typeName), ("data", encodeFrag a false)]) = some (immut a) := by
  have hk : Json.hasKeys [("type", Json.str a.typeName), ("data", encodeFrag a false)] ["type", "data"] [] = true := rfl
  have g1 : Json.get? "type" [("type", Json.str a.typeName), ("data", encodeFrag a false)] = some (.str a.typeName) := rfl
  have g2 : Json.get? "data" [("type", Json.str a.typeName), ("data", encodeFrag a false)] = some (encodeFrag a false) := rfl
  simp only [typedVal, hk, g1, g2]
  simp [hdec]

theorem depth_typed (a : Agg) :
    (encodeFrag a false).depth ≤ (Json.obj [("type", .str a.typeName), ("data", encodeFrag a false)]).depth := by
  simp only [Json.depth, Json.depthMembers]
  exact Nat.le_succ_of_le (Nat.le_trans (Nat.le_max_left _ _) (Nat.le_max_right _ _))

theorem ulblItem_round (fuel : Nat) (p : Key × Agg)
    (hc : p.1.isLbl = true) (hdec : decodeFrag fuel p.2.typeName (encodeFrag p.2 false) none = some (immut p.2)) :
    ulblItem fuel (p.1.toJsonKey, .obj [("type", .str p.2.typeName), ("data", encodeFrag p.2 false)])
      = some (p.1, immut p.2) := by
  obtain ⟨k, a⟩ := p
  cases k <;> try cases hc
  simp [ulblItem, Key.toJsonKey, typedVal_round fuel a hdec]

theorem step_label (K : Agg → Prop) (HK : CtypeOK K) (fuel : Nat) (IH : DecOK K fuel) (e : Val) (st : St)
    (tmpl : Option Agg) (kids : List (Key × Agg)) (s : Bool) (pn : Option String)
    (hg : good (.node .label e st tmpl kids) = true)
    (hu : uniform (.node .label e st tmpl kids) = true)
    (hk : K (.node .label e st tmpl kids))
    (hd : (encodeFrag (.node .label e st tmpl kids) s).depth ≤ fuel + 1) :
    decodeFrag (fuel+1) "Label" (encodeFrag (.node .label e st tmpl kids) s) pn
      = some (immut (.node .label e st tmpl kids)) := by
  have he := entries_ok _ _ _ _ _ hg
  have hkk := HK.kids _ _ _ _ _ hk
  obtain ⟨rfl, hlay, hgk⟩ := good_nonleaf _ _ _ _ _ rfl hg
  simp only [Kind.layoutOk, Bool.and_eq_true, Bool.not_eq_true', List.isEmpty_eq_false_iff] at hlay
  obtain ⟨⟨hlbl, hsorted⟩, hne⟩ := hlay
  have hnf : nonFlow kids := nonFlow_lbl kids hlbl
  have hix := mem_keys_all _ _ hlbl
  obtain ⟨huk, hsame, hty⟩ := label_uniform _ _ _ _ hu
  simp only [encodeFrag, encodeMembers_nonFlow kids false hnf] at hd ⊢
  generalize hM : ([_, _, _] : List (String × Json)) = M at hd ⊢
  have gent : Json.get? "entries" M = some (Json.ofVal e) := by rw [← hM]; rfl
  have gst : Json.get? "sub:type" M = some (.str (firstType kids)) := by rw [← hM]; rfl
  have gdata : Json.get? "data" M = some (.obj (kids.map (fun p => (p.1.toJsonKey, encodeFrag p.2 false)))) := by
    rw [← hM]; rfl
  have hkeys : Json.hasKeys M ["entries", "sub:type", "data"] [] = true := by rw [← hM]; rfl
  have dvals := depth_get? _ _ _ _ gdata hd
  have dkids : ∀ p ∈ kids, (encodeFrag p.2 false).depth ≤ fuel := fun p hp =>
    depth_obj_mem _ (p.1.toJsonKey, encodeFrag p.2 false) _ (List.mem_map.2 ⟨p, hp, rfl⟩) dvals
  have hdec := kids_decode K fuel IH kids (firstType kids) none false hgk huk hkk
      hty (fun p hp => Or.inr ⟨rfl, rfl⟩) dkids
  have hpairs := mapM_map_some kids (fun p => (p.1.toJsonKey, encodeFrag p.2 false)) (lblItem fuel (firstType kids))
    (fun p => (p.1, immut p.2)) (fun p hp => lblItem_round fuel _ p (hix p hp) (hdec p hp))
  rw [← immutKids_eq_map] at hpairs
  rw [dec_label fuel M pn e _ _ (immutKids kids) hkeys (entriesOf?_ok _ _ gent he) gst gdata hpairs
      (by intro h; apply hne; have := congrArg keysOf h; rw [keysOf_immutKids] at this; simpa [keysOf] using this)
      hsame]
  rfl

theorem step_untypedLabel (K : Agg → Prop) (HK : CtypeOK K) (fuel : Nat) (IH : DecOK K fuel) (e : Val) (st : St)
    (tmpl : Option Agg) (kids : List (Key × Agg)) (s : Bool) (pn : Option String)
    (hg : good (.node .untypedLabel e st tmpl kids) = true)
    (hu : uniform (.node .untypedLabel e st tmpl kids) = true)
    (hk : K (.node .untypedLabel e st tmpl kids))
    (hd : (encodeFrag (.node .untypedLabel e st tmpl kids) s).depth ≤ fuel + 1) :
    decodeFrag (fuel+1) "UntypedLabel" (encodeFrag (.node .untypedLabel e st tmpl kids) s) pn
      = some (immut (.node .untypedLabel e st tmpl kids)) := by
  have he := entries_ok _ _ _ _ _ hg
  have hkk := HK.kids _ _ _ _ _ hk
  obtain ⟨rfl, hlay, hgk⟩ := good_nonleaf _ _ _ _ _ rfl hg
  simp only [Kind.layoutOk, Bool.and_eq_true] at hlay
  obtain ⟨hlbl, hsorted⟩ := hlay
  have hix := mem_keys_all _ _ hlbl
  simp only [uniform, Bool.and_eq_true, and_true] at hu
  simp only [encodeFrag, encodeTypedMembers_eq] at hd ⊢
  generalize hM : ([_, _] : List (String × Json)) = M at hd ⊢
  have gent : Json.get? "entries" M = some (Json.ofVal e) := by rw [← hM]; rfl
  have gdata : Json.get? "data" M = some (.obj (kids.map (fun p => (p.1.toJsonKey,
      Json.obj [("type", .str p.2.typeName), ("data", encodeFrag p.2 false)])))) := by
    rw [← hM]; rfl
  have hkeys : Json.hasKeys M ["entries", "data"] [] = true := by rw [← hM]; rfl
  have dvals := depth_get? _ _ _ _ gdata hd
  have dkids : ∀ p ∈ kids, (encodeFrag p.2 false).depth ≤ fuel := fun p hp =>
    Nat.le_trans (depth_typed p.2)
      (depth_obj_mem _ (p.1.toJsonKey, Json.obj [("type", .str p.2.typeName), ("data", encodeFrag p.2 false)]) _
        (List.mem_map.2 ⟨p, hp, rfl⟩) dvals)
  have hdec : ∀ p ∈ kids, decodeFrag fuel p.2.typeName (encodeFrag p.2 false) none = some (immut p.2) :=
    fun p hp => IH p.2 false none (goodKids_mem kids hgk p hp) (uniformKids_mem kids hu p hp) (hkk p hp)
      (Or.inr ⟨rfl, rfl⟩) (dkids p hp)
  have hpairs := mapM_map_some kids (fun p => (p.1.toJsonKey,
      Json.obj [("type", .str p.2.typeName), ("data", encodeFrag p.2 false)])) (ulblItem fuel)
    (fun p => (p.1, immut p.2)) (fun p hp => ulblItem_round fuel p (hix p hp) (hdec p hp))
  rw [← immutKids_eq_map] at hpairs
  rw [dec_untypedLabel fuel M pn e _ (immutKids kids) hkeys (entriesOf?_ok _ _ gent he) gdata hpairs]
  rfl

theorem index_layout (k : Kind) (hk : k = .index ∨ k = .branch) (kids : List (Key × Agg))
    (h : Kind.layoutOk k (keysOf kids) = true) :
    keysOf kids = (List.range kids.length).map Key.ith ∧ kids ≠ [] := by
  rcases hk with rfl | rfl <;>
  · simp only [Kind.layoutOk, Bool.and_eq_true, decide_eq_true_eq, Bool.not_eq_true',
      List.isEmpty_eq_false_iff] at h
    refine ⟨by simpa [keysOf] using h.1, ?_⟩
    intro hn; subst hn; exact h.2 rfl

theorem step_index (K : Agg → Prop) (HK : CtypeOK K) (fuel : Nat) (IH : DecOK K fuel) (e : Val) (st : St)
    (tmpl : Option Agg) (kids : List (Key × Agg)) (s : Bool) (pn : Option String)
    (hg : good (.node .index e st tmpl kids) = true)
    (hu : uniform (.node .index e st tmpl kids) = true)
    (hk : K (.node .index e st tmpl kids))
    (hd : (encodeFrag (.node .index e st tmpl kids) s).depth ≤ fuel + 1) :
    decodeFrag (fuel+1) "Index" (encodeFrag (.node .index e st tmpl kids) s) pn
      = some (immut (.node .index e st tmpl kids)) := by
  have he := entries_ok _ _ _ _ _ hg
  have hkk := HK.kids _ _ _ _ _ hk
  obtain ⟨rfl, hlay, hgk⟩ := good_nonleaf _ _ _ _ _ rfl hg
  obtain ⟨hkeysI, hne⟩ := index_layout _ (Or.inl rfl) kids hlay
  have hnf : nonFlow kids := nonFlow_range Key.ith (fun _ => rfl) kids _ hkeysI
  obtain ⟨huk, hsame, hty⟩ := index_uniform _ _ _ _ hu
  simp only [encodeFrag, encodeList_nonFlow kids false hnf] at hd ⊢
  generalize hM : ([_, _, _] : List (String × Json)) = M at hd ⊢
  have gent : Json.get? "entries" M = some (Json.ofVal e) := by rw [← hM]; rfl
  have gst : Json.get? "sub:type" M = some (.str (firstType kids)) := by rw [← hM]; rfl
  have gdata : Json.get? "data" M = some (.arr (kids.map (fun p => encodeFrag p.2 false))) := by
    rw [← hM]; rfl
  have hkeys : Json.hasKeys M ["entries", "sub:type", "data"] [] = true := by rw [← hM]; rfl
  have dvals := depth_get? _ _ _ _ gdata hd
  have dkids : ∀ p ∈ kids, (encodeFrag p.2 false).depth ≤ fuel := fun p hp =>
    depth_arr_mem _ _ _ (List.mem_map.2 ⟨p, hp, rfl⟩) dvals
  have hdec := kids_decode K fuel IH kids (firstType kids) none false hgk huk hkk
      hty (fun p hp => Or.inr ⟨rfl, rfl⟩) dkids
  have hvals := mapM_map_some kids (fun p => encodeFrag p.2 false)
    (fun x => decodeFrag fuel (firstType kids) x none) (fun p => immut p.2) hdec
  have hz := zipIdx_keys0 Key.ith kids kids.length hkeysI
  rw [dec_index fuel M pn e _ _ (kids.map (fun p => immut p.2)) hkeys (entriesOf?_ok _ _ gent he) gst gdata hvals
      (by intro h; rw [List.map_eq_nil_iff] at h; exact hne h) (by rw [hz]; exact hsame)]
  rw [hz]
  rfl

theorem step_branch (K : Agg → Prop) (HK : CtypeOK K) (fuel : Nat) (IH : DecOK K fuel) (e : Val) (st : St)
    (tmpl : Option Agg) (kids : List (Key × Agg)) (s : Bool) (pn : Option String)
    (hg : good (.node .branch e st tmpl kids) = true)
    (hu : uniform (.node .branch e st tmpl kids) = true)
    (hk : K (.node .branch e st tmpl kids))
    (hd : (encodeFrag (.node .branch e st tmpl kids) s).depth ≤ fuel + 1) :
    decodeFrag (fuel+1) "Branch" (encodeFrag (.node .branch e st tmpl kids) s) pn
      = some (immut (.node .branch e st tmpl kids)) := by
  have he := entries_ok _ _ _ _ _ hg
  have hkk := HK.kids _ _ _ _ _ hk
  obtain ⟨rfl, hlay, hgk⟩ := good_nonleaf _ _ _ _ _ rfl hg
  obtain ⟨hkeysI, hne⟩ := index_layout _ (Or.inr rfl) kids hlay
  simp only [uniform, Bool.and_eq_true, and_true] at hu
  simp only [encodeFrag, encodeTypedList_eq] at hd ⊢
  generalize hM : ([_, _] : List (String × Json)) = M at hd ⊢
  have gent : Json.get? "entries" M = some (Json.ofVal e) := by rw [← hM]; rfl
  have gdata : Json.get? "data" M = some (.arr (kids.map (fun p =>
      Json.obj [("type", .str p.2.typeName), ("data", encodeFrag p.2 false)]))) := by
    rw [← hM]; rfl
  have hkeys : Json.hasKeys M ["entries", "data"] [] = true := by rw [← hM]; rfl
  have dvals := depth_get? _ _ _ _ gdata hd
  have dkids : ∀ p ∈ kids, (encodeFrag p.2 false).depth ≤ fuel := fun p hp =>
    Nat.le_trans (depth_typed p.2)
      (depth_arr_mem _ (Json.obj [("type", .str p.2.typeName), ("data", encodeFrag p.2 false)]) _
        (List.mem_map.2 ⟨p, hp, rfl⟩) dvals)
  have hdec : ∀ p ∈ kids, decodeFrag fuel p.2.typeName (encodeFrag p.2 false) none = some (immut p.2) :=
    fun p hp => IH p.2 false none (goodKids_mem kids hgk p hp) (uniformKids_mem kids hu p hp) (hkk p hp)
      (Or.inr ⟨rfl, rfl⟩) (dkids p hp)
  have hvals := mapM_map_some kids (fun p =>
      Json.obj [("type", .str p.2.typeName), ("data", encodeFrag p.2 false)]) (typedVal fuel)
    (fun p => immut p.2) (fun p hp => typedVal_round fuel p.2 (hdec p hp))
  have hz := zipIdx_keys0 Key.ith kids kids.length hkeysI
  rw [dec_branch fuel M pn e _ (kids.map (fun p => immut p.2)) hkeys (entriesOf?_ok _ _ gent he) gdata hvals
      (by intro h; rw [List.map_eq_nil_iff] at h; exact hne h)]
  rw [hz]
  rfl

end CodecAux
end Hg
