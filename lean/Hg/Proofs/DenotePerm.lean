/-
  Hg.Proofs.DenotePerm — the specification `denote` depends on the multiset of records only
  (no hypothesis on the tree or on the stream is needed).
-/
import Hg.Model.Denote
import Hg.Proofs.DenoteTree

set_option linter.unusedSimpArgs false
set_option linter.unusedVariables false

namespace Hg.Den

open Val

/-! ### sums, extrema -/

theorem sumVal_perm {α : Type} (f : α → Val) {l l' : List α} (h : l.Perm l') :
    sumVal f l = sumVal f l' := by
  unfold sumVal
  exact h.foldl_eq' (fun x _ y _ z => Val.add_right_comm z (f x) (f y)) 0

theorem gated_perm {s s' : List (Datum × Val)} (h : s.Perm s') : (gated s).Perm (gated s') :=
  h.filter _

theorem valuesOf_perm (q : Qty) {g g' : List (Datum × Val)} (h : g.Perm g') :
    (valuesOf q g).Perm (valuesOf q g') := h.filterMap _

theorem routed_perm (k : Kind) (keys : List Key) (key : Key) {g g' : List (Datum × Val)}
    (h : g.Perm g') : (routed k keys key g).Perm (routed k keys key g') := h.filterMap _

theorem specMean_perm {xs xs' : List (Val × Val)} (h : xs.Perm xs') : specMean xs = specMean xs' := by
  unfold specMean
  rw [h.isEmpty_eq, h.any_eq (f := fun p => p.1.isNaN), h.any_eq (f := fun p => p.1 == pinf),
    h.any_eq (f := fun p => p.1 == ninf), sumVal_perm _ h, sumVal_perm _ h]

theorem specVte_perm {xs xs' : List (Val × Val)} (h : xs.Perm xs') : specVte xs = specVte xs' := by
  unfold specVte
  rw [h.isEmpty_eq, h.any_eq (f := fun p => p.1.isNaN || p.1.isInf)]
  simp only [sumVal_perm _ h]

theorem specExt_min_perm {xs xs' : List (Val × Val)} (h : xs.Perm xs') :
    specExt (fun a b => Val.lt a b) xs = specExt (fun a b => Val.lt a b) xs' := by
  unfold specExt
  refine ((h.map _).filter _).foldl_eq' ?_ _
  intro x _ y _ z
  simp only [fillMin_eq]
  rw [← minplus_assoc, ← minplus_assoc, minplus_comm y x]

theorem specExt_max_perm {xs xs' : List (Val × Val)} (h : xs.Perm xs') :
    specExt (fun a b => Val.lt b a) xs = specExt (fun a b => Val.lt b a) xs' := by
  unfold specExt
  refine ((h.map _).filter _).foldl_eq' ?_ _
  intro x _ y _ z
  simp only [fillMax_eq]
  rw [← maxplus_assoc, ← maxplus_assoc, maxplus_comm y x]

/-! ### Bag -/

theorem bagPairs_perm (q : Qty) (r : BagRange) {g g' : List (Datum × Val)} (h : g.Perm g') :
    (bagPairs q r g).Perm (bagPairs q r g') := h.filterMap _

theorem sortBKeys_perm (r : BagRange) {l l' : List BKey} (hl : ∀ k ∈ l, k.inRange r = true)
    (h : l.Perm l') : sortBKeys l = sortBKeys l' := by
  have hl' : ∀ k ∈ l', k.inRange r = true := fun k hk => hl k (h.mem_iff.2 hk)
  have p1 := DenBag.sortBKeys_pairwise r l hl
  have p2 := DenBag.sortBKeys_pairwise r l' hl'
  have nd : ∀ {m : List BKey}, m.Pairwise (fun a b => BKey.lt a b = true) → m.Nodup :=
    fun hm => hm.imp (fun hab => BKey.ne_of_lt hab)
  have hperm : (sortBKeys l).Perm (sortBKeys l') := by
    rw [List.perm_ext_iff_of_nodup (nd p1) (nd p2)]
    intro a
    rw [DenBag.mem_sortBKeys, DenBag.mem_sortBKeys]
    exact h.mem_iff
  refine hperm.eq_of_pairwise (le := fun a b => BKey.lt a b = true) ?_ p1 p2
  intro a b _ _ hab hba
  rw [BKey.lt_asymm hab] at hba
  cases hba

theorem specBag_perm (q : Qty) (r : BagRange) {g g' : List (Datum × Val)} (h : g.Perm g') :
    specBag q r g = specBag q r g' := by
  have hk := bagPairs_perm q r h
  show (sortBKeys ((bagPairs q r g).map (·.1))).map
      (fun key => (key, sumVal (fun p => p.2) ((bagPairs q r g).filter (fun p => p.1 = key))))
    = (sortBKeys ((bagPairs q r g').map (·.1))).map
      (fun key => (key, sumVal (fun p => p.2) ((bagPairs q r g').filter (fun p => p.1 = key))))
  rw [sortBKeys_perm r (l' := (bagPairs q r g').map (·.1)) ?_ (hk.map _)]
  · apply List.map_congr_left
    intro key _
    rw [sumVal_perm _ (hk.filter _)]
  · intro key hkey
    obtain ⟨p, hp, rfl⟩ := List.mem_map.1 hkey
    exact bagPairs_inRange q r g p hp

theorem leafDenote_perm (k : Kind) {g g' : List (Datum × Val)} (h : g.Perm g') :
    leafDenote k g = leafDenote k g' := by
  have hw : totalW g = totalW g' := sumVal_perm _ h
  cases k <;> simp only [leafDenote, hw]
  · rename_i q; rw [sumVal_perm _ (valuesOf_perm q h)]
  · rename_i q; rw [specMean_perm (valuesOf_perm q h)]
  · rename_i q; rw [specMean_perm (valuesOf_perm q h), specVte_perm (valuesOf_perm q h)]
  · rename_i q; rw [specExt_min_perm (valuesOf_perm q h)]
  · rename_i q; rw [specExt_max_perm (valuesOf_perm q h)]
  · rename_i q r; rw [specBag_perm q r h]

/-! ### touched keys -/

theorem touchedKeys_perm {k : Kind} (hs : k.isSparse = true) (keys : List Key)
    {g g' : List (Datum × Val)} (h : g.Perm g') : touchedKeys k keys g = touchedKeys k keys g' := by
  have hh : (hitKeys k keys g).Perm (hitKeys k keys g') := h.filterMap _
  have s1 := sortKeys_SLk _ (hitKeys_cls hs keys g)
  have s2 := sortKeys_SLk _ (hitKeys_cls hs keys g')
  rw [touchedKeys_eq, touchedKeys_eq]
  have nd : ∀ {m : List Key}, m.Pairwise (fun a b => Key.lt a b = true) → m.Nodup :=
    fun hm => hm.imp (fun hab => P3.Key.lt_ne hab)
  have hperm : ((hitKeys k keys g).eraseDups.mergeSort (fun a b => !Key.lt b a)).Perm
      ((hitKeys k keys g').eraseDups.mergeSort (fun a b => !Key.lt b a)) := by
    rw [List.perm_ext_iff_of_nodup (nd s1.2) (nd s2.2)]
    intro a
    rw [mem_sortKeys, mem_sortKeys]
    exact hh.mem_iff
  refine hperm.eq_of_pairwise (le := fun a b => Key.lt a b = true) ?_ s1.2 s2.2
  intro a b _ _ hab hba
  rw [P3.Key.lt_asymm hab] at hba
  cases hba

/-! ### the tree -/

theorem denoteNew_none (k : Kind) (keys new : List Key) (g : List (Datum × Val)) :
    denoteNew none k keys new g = [] := by
  rw [denoteNew]

/-- the specification depends on the multiset of records only -/
theorem denote_perm' : ∀ (z : Agg) (s s' : List (Datum × Val)), s.Perm s' → denote z s' = denote z s :=
  P3.Agg.ind_a (P := fun z => ∀ (s s' : List (Datum × Val)), s.Perm s' → denote z s' = denote z s)
    (fun k e st tmpl kids iht ihk => by
      intro s s' hp
      have hg := gated_perm hp
      have hw : totalW (gated s') = totalW (gated s) := (sumVal_perm _ hg).symm
      have hK : denoteKids kids k (keysOf kids) (gated s') = denoteKids kids k (keysOf kids) (gated s) := by
        rw [denoteKids_eq_map, denoteKids_eq_map]
        apply List.map_congr_left
        intro p hp'
        rw [ihk p hp' _ _ (routed_perm k _ p.1 hg)]
      rw [denote_node, denote_node, (leafDenote_perm k hg).symm, hw, hK]
      by_cases hs : k.isSparse = true
      · have hN : denoteNew tmpl k (keysOf kids) (touchedKeys k (keysOf kids) (gated s')) (gated s')
            = denoteNew tmpl k (keysOf kids) (touchedKeys k (keysOf kids) (gated s)) (gated s) := by
          cases tmpl with
          | none => rw [denoteNew_none, denoteNew_none]
          | some t =>
            rw [denoteNew_some, denoteNew_some, (touchedKeys_perm hs _ hg).symm]
            apply List.map_congr_left
            intro key _
            rw [iht t rfl _ _ (routed_perm k _ key hg)]
        rw [hN]
      · simp only [hs, Bool.false_eq_true, if_false])

end Hg.Den
