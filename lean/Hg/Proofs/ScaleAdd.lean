/-
  Hg.Proofs.ScaleAdd — two scaling laws of C08 on the aggregator tree:
  `h * 2 == h + h` (`scale_two_eq_add_self`) and scaling distributes over merge (`scale_addRaw`).
  Helper lemmas live in the namespace `Hg.ScA`.
-/
import Hg.Model.Spec
import Hg.Proofs.TreeLaws1
import Mathlib.Tactic.Ring

namespace Hg
namespace ScA

/-! ### generalities -/

theorem Key_lt_irrefl (k : Key) : Key.lt k k = false := by
  cases k <;> simp [Key.lt, String.lt_irrefl]

theorem kids_nil_of_leaf {k : Kind} {kids : List (Key × Agg)} (hk : k.isLeaf = true)
    (hl : k.layoutOk (keysOf kids) = true) : kids = [] := by
  cases kids with
  | nil => rfl
  | cons x r => cases k <;> simp_all [Kind.isLeaf, Kind.layoutOk, keysOf]

theorem leafMul_nonleaf {k : Kind} (hk : k.isLeaf = false) (s : St) (f : Val) : leafMul k s f = s := by
  cases k <;> simp_all [Kind.isLeaf, leafMul]

/-- the numeric part of `good` for a non-leaf node -/
theorem entries_fin_of_good {k : Kind} {e : Val} {st : St} {tmpl : Option Agg} {kids : List (Key × Agg)}
    (hg : good (.node k e st tmpl kids) = true) : ∃ q : Rat, e = .fin q := by
  by_cases hk : k.isLeaf = true
  · simp only [good, hk, if_true, Bool.and_eq_true, leafGood, leafGoodCore] at hg
    cases e <;> simp_all
  · simp only [good, hk, Bool.and_eq_true] at hg
    cases e <;> simp_all

theorem two_mul_fin (q : Rat) : (2 : Val) * Val.fin q = Val.fin q + Val.fin q := by
  show Val.mul (Val.fin ((2 : Nat) : Rat)) (Val.fin q) = Val.add (Val.fin q) (Val.fin q)
  simp only [Val.mul, Val.add]
  congr 1
  push_cast
  ring

theorem good_parts {k : Kind} {e : Val} {st : St} {tmpl : Option Agg} {kids : List (Key × Agg)}
    (hg : good (.node k e st tmpl kids) = true) :
    (if k.isLeaf then leafGood k e st = true else True) ∧ k.layoutOk (keysOf kids) = true ∧
      goodKids kids = true ∧ goodTmpl tmpl = true ∧ (k.isSparse = true → sameBaseTmpl tmpl kids = true) := by
  simp only [good, Bool.and_eq_true] at hg
  obtain ⟨⟨⟨⟨⟨h1, h2⟩, h3⟩, h4⟩, h5⟩, _⟩ := hg
  refine ⟨?_, h2, h3, h4, ?_⟩
  · split
    · next hk => simpa [hk] using h1
    · trivial
  · intro hs; simpa [hs] using h5

/-! ### `h + h = h * 2` -/

mutual
theorem addRaw_self : ∀ (a : Agg), good a = true → addRaw a a = scale a 2
  | .node k e st tmpl kids, hg => by
    obtain ⟨hleaf, hlay, hkids, -, -⟩ := good_parts hg
    by_cases hk : k.isLeaf = true
    · have hnil := kids_nil_of_leaf hk hlay
      subst hnil
      simp only [hk, if_true] at hleaf
      have h2 := leafMul_two k e st hk hleaf
      simp only [addRaw, hk, if_true, scale, scaleKids, ← h2]
    · have hk' : k.isLeaf = false := by simpa using hk
      obtain ⟨q, rfl⟩ := entries_fin_of_good hg
      by_cases hs : k.isSparse = true
      · simp only [addRaw, hk', hs, if_true, scale, leafMul_nonleaf hk', two_mul_fin,
          unionKids_self kids hkids, Bool.false_eq_true, if_false]
      · simp only [addRaw, hk', hs, scale, leafMul_nonleaf hk', two_mul_fin,
          zipKids_self kids hkids, Bool.false_eq_true, if_false]
theorem zipKids_self : ∀ (xs : List (Key × Agg)), goodKids xs = true → zipKids xs xs = scaleKids xs 2
  | [], _ => by simp [zipKids, scaleKids]
  | (k1, a) :: r1, hg => by
    simp only [goodKids, Bool.and_eq_true] at hg
    simp only [zipKids, scaleKids, addRaw_self a hg.1, zipKids_self r1 hg.2]
theorem unionKids_self : ∀ (xs : List (Key × Agg)), goodKids xs = true → unionKids xs xs = scaleKids xs 2
  | [], _ => by simp [unionKids, scaleKids]
  | (k1, a) :: r1, hg => by
    simp only [goodKids, Bool.and_eq_true] at hg
    simp only [unionKids, List.takeWhile, List.dropWhile, Key_lt_irrefl, scaleKids, if_true,
      List.nil_append, addRaw_self a hg.1, unionKids_self r1 hg.2]
end

/-! ### scaling distributes over merge -/

theorem mul_add_fin (f e1 e2 : Val) (hf : ∃ q, f = .fin q) (h1 : ∃ q, e1 = .fin q) (h2 : ∃ q, e2 = .fin q) :
    f * (e1 + e2) = f * e1 + f * e2 := by
  obtain ⟨q, rfl⟩ := hf
  obtain ⟨q1, rfl⟩ := h1
  obtain ⟨q2, rfl⟩ := h2
  show Val.mul (Val.fin q) (Val.add (Val.fin q1) (Val.fin q2))
    = Val.add (Val.mul (Val.fin q) (Val.fin q1)) (Val.mul (Val.fin q) (Val.fin q2))
  simp only [Val.mul, Val.add]
  congr 1
  ring

theorem scaleKids_append (l1 l2 : List (Key × Agg)) (f : Val) :
    scaleKids (l1 ++ l2) f = scaleKids l1 f ++ scaleKids l2 f := by
  induction l1 with
  | nil => simp [scaleKids]
  | cons x r ih => obtain ⟨k, a⟩ := x; simp [scaleKids, ih]

theorem scaleKids_takeWhile (ys : List (Key × Agg)) (f : Val) (k1 : Key) :
    (scaleKids ys f).takeWhile (fun p => Key.lt p.1 k1)
      = scaleKids (ys.takeWhile (fun p => Key.lt p.1 k1)) f := by
  induction ys with
  | nil => simp [scaleKids]
  | cons x r ih =>
    obtain ⟨k, a⟩ := x
    simp only [scaleKids, List.takeWhile]
    cases Key.lt k k1 <;> simp [scaleKids, ih]

theorem scaleKids_dropWhile (ys : List (Key × Agg)) (f : Val) (k1 : Key) :
    (scaleKids ys f).dropWhile (fun p => Key.lt p.1 k1)
      = scaleKids (ys.dropWhile (fun p => Key.lt p.1 k1)) f := by
  induction ys with
  | nil => simp [scaleKids]
  | cons x r ih =>
    obtain ⟨k, a⟩ := x
    simp only [scaleKids, List.dropWhile]
    cases Key.lt k k1 <;> simp [scaleKids, ih]

theorem unionKids_cons_nil {k1 : Key} {a : Agg} {r1 ys : List (Key × Agg)}
    (h : ys.dropWhile (fun p => Key.lt p.1 k1) = []) :
    unionKids ((k1, a) :: r1) ys = ys.takeWhile (fun p => Key.lt p.1 k1) ++ (k1, a) :: unionKids r1 [] := by
  simp only [unionKids, h]

theorem unionKids_cons_eq {k1 : Key} {a b : Agg} {r1 ys rest' : List (Key × Agg)}
    (h : ys.dropWhile (fun p => Key.lt p.1 k1) = (k1, b) :: rest') :
    unionKids ((k1, a) :: r1) ys
      = ys.takeWhile (fun p => Key.lt p.1 k1) ++ (k1, addRaw a b) :: unionKids r1 rest' := by
  simp only [unionKids, h, if_true]

theorem unionKids_cons_ne {k1 k2 : Key} {a b : Agg} {r1 ys rest' : List (Key × Agg)}
    (h : ys.dropWhile (fun p => Key.lt p.1 k1) = (k2, b) :: rest') (hne : k2 ≠ k1) :
    unionKids ((k1, a) :: r1) ys
      = ys.takeWhile (fun p => Key.lt p.1 k1) ++ (k1, a) :: unionKids r1 ((k2, b) :: rest') := by
  simp only [unionKids, h, hne, if_false]

/-- what the induction hypothesis needs of a pair of children that get merged -/
def Ok (a b : Agg) : Prop :=
  good a = true ∧ good b = true ∧ hasTmpl a = true ∧ hasTmpl b = true ∧ sameBase a b = true

/-- children with the same key on both sides are mergeable -/
def Pair (xs ys : List (Key × Agg)) : Prop :=
  ∀ k a b, (k, a) ∈ xs → (k, b) ∈ ys → Ok a b

theorem Pair.tail {x : Key × Agg} {xs ys : List (Key × Agg)} (h : Pair (x :: xs) ys) : Pair xs ys :=
  fun k a b ha hb => h k a b (List.mem_cons_of_mem _ ha) hb

theorem Pair.sub {xs ys ys' : List (Key × Agg)} (h : Pair xs ys) (hs : ∀ p, p ∈ ys' → p ∈ ys) : Pair xs ys' :=
  fun k a b ha hb => h k a b ha (hs _ hb)

theorem good_of_mem {xs : List (Key × Agg)} {k : Key} {x : Agg} (h : goodKids xs = true)
    (hm : (k, x) ∈ xs) : good x = true := by
  induction xs with
  | nil => cases hm
  | cons p r ih =>
    obtain ⟨k', a⟩ := p
    simp only [goodKids, Bool.and_eq_true] at h
    rcases List.mem_cons.1 hm with he | hm'
    · cases he; exact h.1
    · exact ih h.2 hm'

theorem hasTmpl_of_mem {xs : List (Key × Agg)} {k : Key} {x : Agg} (h : hasTmplKids xs = true)
    (hm : (k, x) ∈ xs) : hasTmpl x = true := by
  induction xs with
  | nil => cases hm
  | cons p r ih =>
    obtain ⟨k', a⟩ := p
    simp only [hasTmplKids, Bool.and_eq_true] at h
    rcases List.mem_cons.1 hm with he | hm'
    · cases he; exact h.1
    · exact ih h.2 hm'

theorem sameBaseBins_mem {t : Agg} {xs : List (Key × Agg)} {k : Key} {x : Agg}
    (h : sameBaseBins t xs = true) (hm : (k, x) ∈ xs) (hk : k ≠ .nanflow) : sameBase t x = true := by
  induction xs with
  | nil => cases hm
  | cons p r ih =>
    obtain ⟨k', a⟩ := p
    simp only [sameBaseBins, Bool.and_eq_true] at h
    rcases List.mem_cons.1 hm with he | hm'
    · cases he; simpa [hk] using h.1
    · exact ih h.2 hm'

theorem sameBaseFlow_mem {xs ys : List (Key × Agg)} {x : Agg}
    (h : sameBaseFlow xs ys = true) (hm : (Key.nanflow, x) ∈ xs) :
    ∃ b, lookupK .nanflow ys = some b ∧ sameBase x b = true := by
  induction xs with
  | nil => cases hm
  | cons p r ih =>
    obtain ⟨k', a⟩ := p
    simp only [sameBaseFlow, Bool.and_eq_true] at h
    rcases List.mem_cons.1 hm with he | hm'
    · cases he
      have h1 := h.1
      simp only [if_true] at h1
      split at h1
      · next b hb => exact ⟨b, hb, h1⟩
      · cases h1
    · exact ih h.2 hm'

theorem mem_keysOf {xs : List (Key × Agg)} {k : Key} {x : Agg} (hm : (k, x) ∈ xs) : k ∈ keysOf xs :=
  List.mem_map.2 ⟨(k, x), hm, rfl⟩

/-- the nanflow child of a sparse container is unique -/
theorem flow_unique {k : Kind} {kids : List (Key × Agg)} {y : Agg} (hs : k.isSparse = true)
    (hl : k.layoutOk (keysOf kids) = true) (hm : (Key.nanflow, y) ∈ kids) :
    lookupK .nanflow kids = some y := by
  cases k <;> simp only [Kind.isSparse, Bool.false_eq_true] at hs
  · -- sparse
    cases kids with
    | nil => cases hm
    | cons p r =>
      obtain ⟨k', a⟩ := p
      simp only [Kind.layoutOk, keysOf, List.map_cons, Bool.and_eq_true] at hl
      obtain ⟨_, hl⟩ := hl
      split at hl
      · next rest heq =>
        simp only [List.cons.injEq] at heq
        obtain ⟨hk', hrest⟩ := heq
        subst hk'
        rcases List.mem_cons.1 hm with he | hm'
        · cases he; simp [lookupK]
        · exfalso
          have : Key.nanflow ∈ rest := hrest ▸ mem_keysOf hm'
          simp only [Bool.and_eq_true] at hl
          have := List.all_eq_true.1 hl.1 _ this
          simp [Key.isIdx] at this
      · cases hl
  · -- categorize
    exfalso
    simp only [Kind.layoutOk, Bool.and_eq_true] at hl
    have := List.all_eq_true.1 hl.1 _ (mem_keysOf hm)
    simp [Key.isCat] at this

theorem pair_of_sparse {k : Kind} {e1 e2 : Val} {s1 s2 : St} {t : Option Agg} {kids1 kids2 : List (Key × Agg)}
    (hs : k.isSparse = true)
    (hg1 : good (.node k e1 s1 t kids1) = true) (hg2 : good (.node k e2 s2 t kids2) = true)
    (ht1 : hasTmpl (.node k e1 s1 t kids1) = true) (ht2 : hasTmpl (.node k e2 s2 t kids2) = true)
    (hfl : sameBaseFlow kids1 kids2 = true) : Pair kids1 kids2 := by
  obtain ⟨-, -, hk1, hgt, hb1⟩ := good_parts hg1
  obtain ⟨-, hl2, hk2, -, hb2⟩ := good_parts hg2
  simp only [hasTmpl, hs, if_true, Bool.and_eq_true] at ht1 ht2
  obtain ⟨⟨hsome, -⟩, hkt1⟩ := ht1
  obtain ⟨-, hkt2⟩ := ht2
  intro key x y hx hy
  refine ⟨good_of_mem hk1 hx, good_of_mem hk2 hy, hasTmpl_of_mem hkt1 hx, hasTmpl_of_mem hkt2 hy, ?_⟩
  by_cases hkey : key = .nanflow
  · subst hkey
    obtain ⟨b, hb, hsb⟩ := sameBaseFlow_mem hfl hx
    rw [flow_unique hs hl2 hy] at hb
    cases hb
    exact hsb
  · cases t with
    | none => simp at hsome
    | some tm =>
      simp only [goodTmpl, Bool.and_eq_true] at hgt
      have h1 := sameBaseBins_mem (by simpa [sameBaseTmpl] using hb1 hs) hx hkey
      have h2 := sameBaseBins_mem (by simpa [sameBaseTmpl] using hb2 hs) hy hkey
      have gx := good_of_mem hk1 hx
      have gy := good_of_mem hk2 hy
      exact sameBase_trans x tm y gx hgt.1 gy (sameBase_symm tm x hgt.1 gx h1) h2

mutual
theorem scale_addRaw' (f : Val) (hf : f.posFin) : ∀ (a b : Agg), Ok a b →
    scale (addRaw a b) f = addRaw (scale a f) (scale b f)
  | .node k1 e1 s1 t1 kids1, .node k2 e2 s2 t2 kids2, hok => by
    obtain ⟨hg1, hg2, ht1, ht2, hsb⟩ := hok
    simp only [sameBase, Bool.and_eq_true, decide_eq_true_eq] at hsb
    obtain ⟨⟨hkk, htt⟩, hsb⟩ := hsb
    subst hkk
    subst htt
    obtain ⟨hleaf1, hlay1, hkids1, -, -⟩ := good_parts hg1
    obtain ⟨hleaf2, -, hkids2, -, -⟩ := good_parts hg2
    by_cases hk : k1.isLeaf = true
    · simp only [hk, if_true] at hleaf1 hleaf2
      have h := leafMul_add k1 e1 s1 e2 s2 f hk hleaf1 hleaf2 hf
      simp only [addRaw, scale, hk, if_true, h]
    · have hk' : k1.isLeaf = false := by simpa using hk
      have he := mul_add_fin f e1 e2 (by obtain ⟨q, hq, _⟩ := hf; exact ⟨q, hq⟩)
        (entries_fin_of_good hg1) (entries_fin_of_good hg2)
      by_cases hs : k1.isSparse = true
      · simp only [hs, if_true, Bool.and_eq_true] at hsb
        have hp := pair_of_sparse hs hg1 hg2 ht1 ht2 hsb.1.1
        simp only [addRaw, scale, hk', hs, if_true, Bool.false_eq_true, if_false, he,
          scale_unionKids f hf kids1 kids2 hp]
      · simp only [hs, Bool.false_eq_true, if_false] at hsb
        simp only [hasTmpl, Bool.and_eq_true] at ht1 ht2
        simp only [addRaw, scale, hk', hs, Bool.false_eq_true, if_false, he,
          scale_zipKids f hf kids1 kids2 hkids1 hkids2 ht1.2 ht2.2 hsb]
theorem scale_zipKids (f : Val) (hf : f.posFin) : ∀ (xs ys : List (Key × Agg)),
    goodKids xs = true → goodKids ys = true → hasTmplKids xs = true → hasTmplKids ys = true →
    sameBaseZip xs ys = true →
    scaleKids (zipKids xs ys) f = zipKids (scaleKids xs f) (scaleKids ys f)
  | [], _, _, _, _, _, _ => by simp [zipKids, scaleKids]
  | (k1, a) :: r1, [], _, _, _, _, h => by simp [sameBaseZip] at h
  | (k1, a) :: r1, (k2, b) :: r2, hg1, hg2, ht1, ht2, h => by
    simp only [goodKids, hasTmplKids, sameBaseZip, Bool.and_eq_true] at hg1 hg2 ht1 ht2 h
    simp only [zipKids, scaleKids,
      scale_addRaw' f hf a b ⟨hg1.1, hg2.1, ht1.1, ht2.1, h.1.2⟩,
      scale_zipKids f hf r1 r2 hg1.2 hg2.2 ht1.2 ht2.2 h.2]
theorem scale_unionKids (f : Val) (hf : f.posFin) : ∀ (xs ys : List (Key × Agg)), Pair xs ys →
    scaleKids (unionKids xs ys) f = unionKids (scaleKids xs f) (scaleKids ys f)
  | [], ys, _ => by simp [unionKids, scaleKids]
  | (k1, a) :: r1, ys, hp => by
    have hdrop := scaleKids_dropWhile ys f k1
    have htake := scaleKids_takeWhile ys f k1
    have hsub : ∀ p, p ∈ ys.dropWhile (fun p => Key.lt p.1 k1) → p ∈ ys :=
      fun p hp => (List.dropWhile_sublist _).subset hp
    match hrest : ys.dropWhile (fun p => Key.lt p.1 k1) with
    | [] =>
      rw [hrest] at hdrop
      have ih := scale_unionKids f hf r1 [] (hp.tail.sub (by simp))
      simp only [scaleKids] at ih hdrop ⊢
      rw [unionKids_cons_nil hrest, unionKids_cons_nil hdrop, scaleKids_append, htake]
      simp only [scaleKids, ih]
    | (k2, b) :: rest' =>
      rw [hrest] at hdrop hsub
      by_cases hk : k2 = k1
      · subst hk
        have hab : Ok a b := hp k2 a b (List.mem_cons_self) (hsub _ List.mem_cons_self)
        have ih := scale_unionKids f hf r1 rest'
          (hp.tail.sub (fun p hp => hsub _ (List.mem_cons_of_mem _ hp)))
        simp only [scaleKids] at hdrop ⊢
        rw [unionKids_cons_eq hrest, unionKids_cons_eq hdrop, scaleKids_append, htake]
        simp only [scaleKids, ih, scale_addRaw' f hf a b hab]
      · have ih := scale_unionKids f hf r1 ((k2, b) :: rest') (hp.tail.sub hsub)
        simp only [scaleKids] at hdrop ih ⊢
        rw [unionKids_cons_ne hrest hk, unionKids_cons_ne hdrop hk, scaleKids_append, htake]
        simp only [scaleKids, ih]
end

end ScA

/-- scaling distributes over merge -/
theorem scale_addRaw (a b : Agg) (f : Val) (ha : good a = true) (hb : good b = true)
    (hta : hasTmpl a = true) (htb : hasTmpl b = true) (h : sameBase a b = true) (hf : f.posFin) :
    scale (addRaw a b) f = addRaw (scale a f) (scale b f) :=
  ScA.scale_addRaw' f hf a b ⟨ha, hb, hta, htb, h⟩

set_option linter.unusedVariables false in
/-- `h * 2 == h + h` -/
theorem scale_two_eq_add_self (t : Agg) (hg : good t = true) (ht : hasTmpl t = true) :
    add t t = some (scale t 2) := by
  simp only [add, compat_self t hg, if_true, ScA.addRaw_self t hg]

end Hg
