/-
  Hg.Proofs.InvLawsB — C05: the bookkeeping invariants `inv` are preserved by `fill`, and hold on
  every state reached from an empty tree by a good run of fills.
-/
import Hg.Model.Spec
import Hg.Proofs.TreeLaws1
import Hg.Proofs.KeyFacts
import Mathlib.Tactic.Ring
import Mathlib.Tactic.Linarith

namespace Hg
namespace InvB

/-! ### numbers -/

theorem zero_eq : (0 : Val) = .fin 0 := rfl

theorem fin_add (a b : Rat) : (Val.fin a) + (Val.fin b) = Val.fin (a + b) := rfl

theorem le_zero_fin (q : Rat) : Val.le 0 (.fin q) = decide (0 ≤ q) := rfl

theorem pos_fin (q : Rat) : (Val.fin q).pos = decide (0 < q) := rfl

theorem okWeight_pos {w : Val} (hw : w.okWeight = true) (hp : w.pos = true) :
    ∃ q : Rat, w = .fin q ∧ 0 < q := by
  cases w with
  | fin q => exact ⟨q, rfl, by simpa [pos_fin] using hp⟩
  | pinf => simp [Val.okWeight, hp, Val.isFin] at hw
  | ninf => simp [Val.okWeight, hp, Val.isFin] at hw
  | nan => simp [Val.okWeight, hp, Val.isFin] at hw

theorem add_fin_inv {a w : Val} {q c : Rat} (ha : a = .fin q) (h : a + w = .fin c) :
    ∃ r, w = .fin r := by
  subst ha
  cases w with
  | fin r => exact ⟨r, rfl⟩
  | pinf => exact absurd h (by simp [HAdd.hAdd, Add.add, Val.add])
  | ninf => exact absurd h (by simp [HAdd.hAdd, Add.add, Val.add])
  | nan => exact absurd h (by simp [HAdd.hAdd, Add.add, Val.add])

theorem add_eq_fin {a b : Val} {c : Rat} (h : a + b = .fin c) :
    ∃ x y, a = .fin x ∧ b = .fin y ∧ c = x + y := by
  cases a <;> cases b <;> simp [HAdd.hAdd, Add.add, Val.add] at h
  rename_i x y
  exact ⟨x, y, rfl, rfl, h.symm⟩

theorem isOk_iff (o : Outcome) : o.isOk = true ↔ o = .ok := by
  cases o <;> simp [Outcome.isOk]

/-! ### consequences of `good` -/

theorem good_entries : ∀ (t : Agg), good t = true → ∃ q : Rat, t.entries = .fin q ∧ 0 ≤ q
  | .node k e st tmpl kids, h => by
    simp only [good, Bool.and_eq_true] at h
    obtain ⟨⟨⟨⟨⟨h, _⟩, _⟩, _⟩, _⟩, _⟩ := h
    cases e with
    | fin q =>
      refine ⟨q, rfl, ?_⟩
      split at h
      · simp only [leafGood, leafGoodCore, Bool.and_eq_true, decide_eq_true_eq] at h
        exact h.1.2.1
      · simp only [Bool.and_eq_true, decide_eq_true_eq] at h
        exact h.2
    | pinf => split at h <;> simp [leafGood, leafGoodCore] at h
    | ninf => split at h <;> simp [leafGood, leafGoodCore] at h
    | nan => split at h <;> simp [leafGood, leafGoodCore] at h

theorem good_parts {k e st tmpl kids} (h : good (.node k e st tmpl kids) = true) :
    k.layoutOk (keysOf kids) = true ∧ goodKids kids = true ∧ goodTmpl tmpl = true := by
  simp only [good, Bool.and_eq_true] at h
  obtain ⟨⟨⟨⟨⟨_, h1⟩, h2⟩, h3⟩, _⟩, _⟩ := h
  exact ⟨h1, h2, h3⟩

/-- all children have finite non-negative entries -/
def FinKids (kids : List (Key × Agg)) : Prop := ∀ p ∈ kids, ∃ q : Rat, p.2.entries = .fin q ∧ 0 ≤ q

theorem finKids_of_good : ∀ (kids : List (Key × Agg)), goodKids kids = true → FinKids kids
  | [], _ => by intro p hp; cases hp
  | (key, a) :: rest, h => by
    simp only [goodKids, Bool.and_eq_true] at h
    intro p hp
    rcases List.mem_cons.mp hp with rfl | hp
    · exact good_entries a h.1
    · exact finKids_of_good rest h.2 p hp

theorem goodKids_mem : ∀ (kids : List (Key × Agg)), goodKids kids = true → ∀ p ∈ kids, good p.2 = true
  | [], _ => by intro p hp; cases hp
  | (key, a) :: rest, h => by
    simp only [goodKids, Bool.and_eq_true] at h
    intro p hp
    rcases List.mem_cons.mp hp with rfl | hp
    · exact h.1
    · exact goodKids_mem rest h.2 p hp

/-! ### `entries` after a fill -/

theorem meanUpdate_fst (e m x w : Val) : (meanUpdate e m x w).1 = e + w := by
  unfold meanUpdate
  simp only
  split_ifs <;> rfl

theorem leafFill_entries {k e st d w e' st'} (h : leafFill k e st d w = .ok (e', st')) : e' = e + w := by
  cases k <;> cases st <;> simp only [leafFill] at h
  all_goals first
    | (cases h; done)
    | (cases h; rfl)
    | skip
  all_goals
    simp only [bind, Except.bind, pure, Except.pure] at h
    split at h
    · cases h
    · cases h
      first | rfl | exact meanUpdate_fst _ _ _ _

theorem leafFill_bag {q r e m d w e' st'} (h : leafFill (.bag q r) e (.bag m) d w = .ok (e', st')) :
    ∃ key, st' = .bag (bagInsert key w m) := by
  simp only [leafFill, bind, Except.bind, pure, Except.pure] at h
  split at h
  · cases h
  · cases h; exact ⟨_, rfl⟩

/-! ### unfolding `fill` -/

theorem fill_closed (k e st tmpl kids d w) (hp : Val.pos w = false) :
    fill (.node k e st tmpl kids) d w = (.node k e st tmpl kids, .ok) := by
  rw [fill]; simp [hp]

theorem fill_leaf (k e st tmpl kids d w) (hp : Val.pos w = true) (hl : k.isLeaf = true) :
    fill (.node k e st tmpl kids) d w =
      (match leafFill k e st d w with
       | .ok (e', st') => (.node k e' st' tmpl kids, .ok)
       | .error f => (.node k e st tmpl kids, .raised f)) := by
  rw [fill]; simp [hp, hl]; rfl

theorem fill_route_err (k e st tmpl kids d w f) (hp : Val.pos w = true) (hl : k.isLeaf = false)
    (hr : route k (keysOf kids) d w = .error f) :
    fill (.node k e st tmpl kids) d w = (.node k e st tmpl kids, .raised f) := by
  rw [fill]; simp [hp, hl, hr]

theorem fill_generic (k e st tmpl kids d w targets) (hp : Val.pos w = true) (hl : k.isLeaf = false)
    (hr : route k (keysOf kids) d w = .ok targets)
    (hs : k.isSparse = true → ∃ key w', targets = [(key, w')] ∧ hasKey key kids = true) :
    fill (.node k e st tmpl kids) d w =
      (.node k (if (fillKids kids targets d).2.isOk then e + w else e) st tmpl (fillKids kids targets d).1,
        (fillKids kids targets d).2) := by
  rw [fill]
  simp only [hp, hl, hr, Bool.not_true, Bool.false_eq_true, if_false]
  split
  · rename_i key w' hsp
    obtain ⟨key', w'', h1, h2⟩ := hs hsp
    cases h1
    simp [h2]
  · rfl

theorem fill_sparse_new (k e st tmpl kids d w key w') (hp : Val.pos w = true) (hl : k.isLeaf = false)
    (hs : k.isSparse = true) (hr : route k (keysOf kids) d w = .ok [(key, w')])
    (hk : hasKey key kids = false) :
    fill (.node k e st tmpl kids) d w =
      (match fillTmpl tmpl d w' with
       | some (nb, .ok) => (.node k (e + w) st tmpl (insertK key nb kids), .ok)
       | some (_, .raised f) => (.node k e st tmpl kids, .raised f)
       | none => (.node k e st tmpl kids, .raised .typeErr)) := by
  rw [fill]
  simp only [hp, hl, hr, hs, hk, Bool.not_true, Bool.false_eq_true, if_false]
  rfl

theorem route_sparse_single {k keys d w targets} (hs : k.isSparse = true)
    (hr : route k keys d w = .ok targets) : ∃ key, targets = [(key, w)] := by
  cases k <;> simp [Kind.isSparse] at hs
  · simp only [route, bind, Except.bind, pure, Except.pure] at hr
    split at hr
    · cases hr
    · cases hr; exact ⟨_, rfl⟩
  · simp only [route, pure, Except.pure] at hr
    split at hr
    · cases hr
    · split at hr <;> first | (cases hr; done) | (cases hr; exact ⟨_, rfl⟩)

/-- `entries` grows by the weight on every fill that passes the gate and returns normally -/
theorem fill_entries : ∀ (t : Agg) (d : Datum) (w : Val), Val.pos w = true → (fill t d w).2 = .ok →
    (fill t d w).1.entries = t.entries + w
  | .node k e st tmpl kids, d, w, hp, hok => by
    by_cases hl : k.isLeaf = true
    · rw [fill_leaf _ _ _ _ _ _ _ hp hl] at hok ⊢
      split at hok
      · rename_i e' st' heq
        exact leafFill_entries heq
      · cases hok
    · simp only [Bool.not_eq_true] at hl
      cases hr : route k (keysOf kids) d w with
      | error f => rw [fill_route_err _ _ _ _ _ _ _ _ hp hl hr] at hok; cases hok
      | ok targets =>
        by_cases hs : k.isSparse = true ∧ ∃ key w', targets = [(key, w')] ∧ hasKey key kids = false
        · obtain ⟨hs, key, w', rfl, hk⟩ := hs
          rw [fill_sparse_new _ _ _ _ _ _ _ _ _ hp hl hs hr hk] at hok ⊢
          split at hok
          · rfl
          · cases hok
          · cases hok
        · have hs' : k.isSparse = true → ∃ key w', targets = [(key, w')] ∧ hasKey key kids = true := by
            intro hsp
            obtain ⟨key, rfl⟩ := route_sparse_single hsp hr
            refine ⟨key, w, rfl, ?_⟩
            by_contra hk
            exact hs ⟨hsp, key, w, rfl, by simpa using hk⟩
          rw [fill_generic _ _ _ _ _ _ _ _ hp hl hr hs'] at hok ⊢
          simp only at hok
          simp only [hok, Outcome.isOk, if_true]
          rfl

/-- a weight that kept a good tree good (and did not raise) is a legal weight -/
theorem okWeight_of_good_fill (a : Agg) (d : Datum) (w : Val) (hg : good a = true)
    (hg' : good (fill a d w).1 = true) (hok : (fill a d w).2 = .ok) : w.okWeight = true := by
  by_cases hp : w.pos = true
  · obtain ⟨q, hq, _⟩ := good_entries a hg
    obtain ⟨c, hc, _⟩ := good_entries _ hg'
    rw [fill_entries a d w hp hok] at hc
    obtain ⟨r, rfl⟩ := add_fin_inv hq hc
    simp [Val.okWeight, Val.isFin]
  · simp only [Bool.not_eq_true] at hp
    simp [Val.okWeight, hp]

/-! ### the node-level part of `inv` -/

def kindOk (k : Kind) (st : St) (e : Val) (kids : List (Key × Agg)) : Bool :=
  match k, st with
  | .bin .., _ | .sparse .., _ | .central _, _ | .irregular _, _ | .categorize .., _ =>
      decide (sumEntries kids = e)
  | .label, _ | .untypedLabel, _ | .index, _ | .branch, _ =>
      kids.all (fun p => decide (p.2.entries = e))
  | .fraction _, _ =>
      (match lookupK .den kids with
       | some d => decide (d.entries = e)
       | none => false)
  | .stack _, _ =>
      antitoneEntries (binsOf kids) &&
      (match binsOf kids, lookupK .nanflow kids with
       | l0 :: _, some nf => decide (l0.2.entries + nf.entries = e)
       | _, _ => false)
  | .bag _ _, .bag m => decide (bagTotal m = e)
  | _, _ => true

theorem inv_node (k e st tmpl kids) :
    inv (.node k e st tmpl kids) = (Val.le 0 e && kindOk k st e kids && invKids kids) := by
  cases k <;> cases st <;> simp only [inv, kindOk] <;> rfl

theorem inv_node_iff (k e st tmpl kids) :
    inv (.node k e st tmpl kids) = true ↔
      (Val.le 0 e = true ∧ kindOk k st e kids = true ∧ invKids kids = true) := by
  rw [inv_node]; simp only [Bool.and_eq_true, and_assoc]

/-! ### how the children change: `Bumped` -/

def bumpE (g : Key → Option Val) (k : Key) (e : Val) : Val :=
  match g k with
  | some w' => e + w'
  | none => e

/-- `kids'` has the keys of `kids`, and the entries of each child grew by the weight `g` assigns
to its key -/
def Bumped (g : Key → Option Val) : List (Key × Agg) → List (Key × Agg) → Prop
  | [], [] => True
  | p :: r, p' :: r' => p'.1 = p.1 ∧ p'.2.entries = bumpE g p.1 p.2.entries ∧ Bumped g r r'
  | _, _ => False

theorem Bumped.keys {g} : ∀ {l l' : List (Key × Agg)}, Bumped g l l' → keysOf l' = keysOf l
  | [], [], _ => rfl
  | p :: r, p' :: r', h => by
    simp only [Bumped] at h
    simp only [keysOf, List.map_cons, h.1]
    congr 1
    exact Bumped.keys h.2.2
  | [], _ :: _, h => by simp [Bumped] at h
  | _ :: _, [], h => by simp [Bumped] at h

theorem Bumped.congr {g g'} : ∀ {l l' : List (Key × Agg)}, (∀ k ∈ keysOf l, g k = g' k) →
    Bumped g l l' → Bumped g' l l'
  | [], [], _, _ => trivial
  | p :: r, p' :: r', hg, h => by
    simp only [Bumped] at h ⊢
    refine ⟨h.1, ?_, Bumped.congr (fun k hk => hg k (List.mem_cons_of_mem _ hk)) h.2.2⟩
    rw [h.2.1]
    simp only [bumpE, hg p.1 (by simp [keysOf])]
  | [], _ :: _, _, h => by simp [Bumped] at h
  | _ :: _, [], _, h => by simp [Bumped] at h

theorem Bumped.filter {g} (f : Key → Bool) : ∀ {l l' : List (Key × Agg)}, Bumped g l l' →
    Bumped g (l.filter (fun p => f p.1)) (l'.filter (fun p => f p.1))
  | [], [], _ => by simp [Bumped]
  | p :: r, p' :: r', h => by
    simp only [Bumped] at h
    have ih := Bumped.filter f h.2.2
    simp only [List.filter_cons, h.1]
    split
    · exact ⟨h.1, h.2.1, ih⟩
    · exact ih
  | [], _ :: _, h => by simp [Bumped] at h
  | _ :: _, [], h => by simp [Bumped] at h

theorem fillKids_bumped : ∀ (kids : List (Key × Agg)) (targets : List (Key × Val)) (d : Datum),
    (∀ key w', lookupK key targets = some w' → Val.pos w' = true) →
    (fillKids kids targets d).2 = .ok →
    Bumped (fun key => lookupK key targets) kids (fillKids kids targets d).1
  | [], _, _, _, _ => by simp [fillKids, Bumped]
  | (key, a) :: rest, targets, d, hpos, hok => by
    rw [fillKids] at hok ⊢
    split at hok
    · rename_i hl
      simp only at hok ⊢
      refine ⟨rfl, ?_, fillKids_bumped rest targets d hpos hok⟩
      simp [bumpE, hl]
    · rename_i w' hl
      simp only at hok ⊢
      by_cases hra : (fill a d w').2.isOk = true
      · simp only [hra, if_true] at hok ⊢
        refine ⟨rfl, ?_, fillKids_bumped rest targets d hpos hok⟩
        simp only [bumpE, hl]
        exact fill_entries a d w' (hpos key w' hl) ((isOk_iff _).mp hra)
      · rw [if_neg hra] at hok
        simp only at hok
        rw [hok] at hra
        exact absurd rfl hra

/-! ### sums of entries -/

theorem finKids_tail {p : Key × Agg} {r} (h : FinKids (p :: r)) : FinKids r :=
  fun x hx => h x (List.mem_cons_of_mem _ hx)

theorem sumEntries_fin : ∀ (kids : List (Key × Agg)), FinKids kids → ∃ s : Rat, sumEntries kids = .fin s
  | [], _ => ⟨0, rfl⟩
  | p :: r, h => by
    obtain ⟨s, hs⟩ := sumEntries_fin r (finKids_tail h)
    obtain ⟨q, hq, _⟩ := h p (List.mem_cons_self ..)
    exact ⟨q + s, by simp only [sumEntries, hq, hs, fin_add]⟩

theorem sum_bump_none {g} : ∀ {l l' : List (Key × Agg)}, Bumped g l l' → (∀ k ∈ keysOf l, g k = none) →
    sumEntries l' = sumEntries l
  | [], [], _, _ => rfl
  | p :: r, p' :: r', h, hg => by
    simp only [Bumped] at h
    have ih := sum_bump_none h.2.2 (fun k hk => hg k (List.mem_cons_of_mem _ hk))
    simp only [sumEntries, ih, h.2.1, bumpE, hg p.1 (by simp [keysOf])]
  | [], _ :: _, h, _ => by simp [Bumped] at h
  | _ :: _, [], h, _ => by simp [Bumped] at h

theorem sum_bump_single {g} {key : Key} {c : Rat} (hgk : g key = some (.fin c)) :
    ∀ {l l' : List (Key × Agg)}, Bumped g l l' → FinKids l → (keysOf l).Nodup → key ∈ keysOf l →
    (∀ k ∈ keysOf l, k ≠ key → g k = none) → sumEntries l' = sumEntries l + .fin c
  | [], [], _, _, _, hm, _ => by simp [keysOf] at hm
  | p :: r, p' :: r', h, hf, hnd, hm, hg => by
    simp only [Bumped] at h
    obtain ⟨s, hs⟩ := sumEntries_fin r (finKids_tail hf)
    obtain ⟨q, hq, _⟩ := hf p (List.mem_cons_self ..)
    have hnd' : p.1 ∉ keysOf r ∧ (keysOf r).Nodup := List.nodup_cons.mp hnd
    by_cases hk : p.1 = key
    · have hnot : ∀ k ∈ keysOf r, g k = none := by
        intro k hkr
        refine hg k (List.mem_cons_of_mem _ hkr) ?_
        rintro rfl
        exact hnd'.1 (hk ▸ hkr)
      have ih := sum_bump_none h.2.2 hnot
      simp only [sumEntries, ih, h.2.1, bumpE, hk, hgk, hq, hs, fin_add]
      congr 1; ring
    · have hm' : key ∈ keysOf r := by
        rcases List.mem_cons.mp hm with h' | h'
        · exact absurd h'.symm hk
        · exact h'
      have ih := sum_bump_single hgk h.2.2 (finKids_tail hf) hnd'.2 hm'
        (fun k hkr => hg k (List.mem_cons_of_mem _ hkr))
      simp only [sumEntries, ih, h.2.1, bumpE, hg p.1 (by simp [keysOf]) hk, hq, hs, fin_add]
      congr 1; ring
  | [], _ :: _, h, _, _, _, _ => by simp [Bumped] at h
  | _ :: _, [], h, _, _, _, _ => by simp [Bumped] at h

theorem lookupK_single (k key : Key) (w : Val) :
    lookupK k [(key, w)] = if key = k then some w else none := by
  simp [lookupK]

theorem sumEntries_insertK (key : Key) (nb : Agg) {x : Rat} (hx : nb.entries = .fin x) :
    ∀ (kids : List (Key × Agg)), FinKids kids →
    sumEntries (insertK key nb kids) = sumEntries kids + .fin x
  | [], _ => by simp only [insertK, sumEntries, hx, zero_eq, fin_add]; congr 1; ring
  | p :: r, hf => by
    obtain ⟨s, hs⟩ := sumEntries_fin r (finKids_tail hf)
    obtain ⟨q, hq, _⟩ := hf p (List.mem_cons_self ..)
    simp only [insertK]
    split
    · simp only [sumEntries, hx, hq, hs, fin_add]; congr 1; ring
    · simp only [sumEntries, sumEntries_insertK key nb hx r (finKids_tail hf), hq, hs, fin_add]
      congr 1; ring

theorem goodKids_insertK (key : Key) (nb : Agg) : ∀ (kids : List (Key × Agg)),
    goodKids (insertK key nb kids) = true → good nb = true
  | [], h => by simpa [insertK, goodKids] using h
  | (k, b) :: r, h => by
    simp only [insertK] at h
    split at h
    · simp only [goodKids, Bool.and_eq_true] at h; exact h.1
    · simp only [goodKids, Bool.and_eq_true] at h; exact goodKids_insertK key nb r h.2

theorem invKids_insertK (key : Key) (nb : Agg) (hnb : inv nb = true) : ∀ (kids : List (Key × Agg)),
    invKids kids = true → invKids (insertK key nb kids) = true
  | [], _ => by simp [insertK, invKids, hnb]
  | (k, b) :: r, h => by
    simp only [invKids, Bool.and_eq_true] at h
    simp only [insertK]
    split
    · simp [invKids, hnb, h.1, h.2]
    · simp [invKids, h.1, invKids_insertK key nb hnb r h.2]

/-! ### routing facts -/

theorem lookupK_mem {α : Type} {key : Key} {v : α} : ∀ {l : List (Key × α)}, lookupK key l = some v → (key, v) ∈ l
  | [], h => by simp [lookupK] at h
  | (k', a) :: rest, h => by
    simp only [lookupK] at h
    split at h
    · rename_i hk; cases h; subst hk; exact List.mem_cons_self ..
    · exact List.mem_cons_of_mem _ (lookupK_mem h)

theorem route_pos {k keys d w targets} (hp : Val.pos w = true) (hr : route k keys d w = .ok targets) :
    ∀ key w', lookupK key targets = some w' → Val.pos w' = true := by
  intro key w' hl
  have hm := lookupK_mem hl
  clear hl
  cases k <;> simp only [route, bind, Except.bind, pure, Except.pure] at hr
  all_goals
    repeat' split at hr
  all_goals first
    | (cases hr; done)
    | (cases hr
       simp only [List.mem_singleton, Prod.mk.injEq] at hm
       rw [hm.2]; exact hp)
    | (cases hr
       simp only [List.mem_map, Prod.mk.injEq] at hm
       obtain ⟨_, _, _, rfl⟩ := hm
       exact hp)
    | (cases hr
       simp only [List.mem_filterMap] at hm
       obtain ⟨t, _, h⟩ := hm
       split at h
       · cases h; exact hp
       · cases h)
    | (cases hr
       simp at hm; done)
    | (cases hr
       rename_i hpos
       simp only [List.mem_cons, Prod.mk.injEq, List.mem_nil_iff, or_false] at hm
       rcases hm with hm | hm
       · rw [hm.2]; exact hp
       · rw [hm.2]; exact hpos)
    | (cases hr
       rename_i hpos
       simp only [List.mem_cons, Prod.mk.injEq, List.mem_nil_iff, or_false] at hm
       rw [hm.2]; exact hpos)

/-! ### bags -/

theorem bagTotal_insert (key : BKey) (r : Rat) : ∀ (m : List (BKey × Val)) (a : Rat), bagTotal m = .fin a →
    bagTotal (bagInsert key (.fin r) m) = .fin (a + r)
  | [], a, h => by
    simp only [bagTotal, zero_eq, Val.fin.injEq] at h
    simp only [bagInsert, bagTotal, zero_eq, fin_add, ← h]
    congr 1; ring
  | (k, v) :: rest, a, h => by
    simp only [bagTotal] at h
    obtain ⟨x, y, hx, hy, rfl⟩ := add_eq_fin h
    have hx' : v = .fin x := hx
    subst hx'
    simp only [bagInsert]
    split
    · simp only [bagTotal, hy, fin_add]; congr 1; ring
    · split
      · simp only [bagTotal, hy, fin_add]; congr 1; ring
      · simp only [bagTotal, bagTotal_insert key r rest y hy, fin_add]; congr 1; ring

/-! ### one node -/

theorem le_zero_add {e w : Val} {a c : Rat} (he : e = .fin a) (ha : 0 ≤ a) (hw : w = .fin c) (hc : 0 ≤ c) :
    Val.le 0 (e + w) = true := by
  subst he hw
  simp only [fin_add, le_zero_fin, decide_eq_true_eq]
  linarith

theorem leaf_step {k e st tmpl kids d w} (hl : k.isLeaf = true) (hp : Val.pos w = true)
    (hg : good (.node k e st tmpl kids) = true) (hi : inv (.node k e st tmpl kids) = true)
    (hw : w.okWeight = true) (hok : (fill (.node k e st tmpl kids) d w).2 = .ok) :
    inv (fill (.node k e st tmpl kids) d w).1 = true := by
  obtain ⟨c, rfl, hc⟩ := okWeight_pos hw hp
  obtain ⟨a, ha, ha0⟩ := good_entries _ hg
  simp only [Agg.entries] at ha
  rw [fill_leaf _ _ _ _ _ _ _ hp hl] at hok ⊢
  split at hok
  · rename_i e' st' heq
    have he' := leafFill_entries heq
    subst he'
    obtain ⟨_, hko, hik⟩ := (inv_node_iff ..).mp hi
    simp only
    rw [inv_node_iff]
    refine ⟨le_zero_add ha ha0 rfl (le_of_lt hc), ?_, hik⟩
    cases k
    all_goals first
      | (simp [Kind.isLeaf] at hl; done)
      | (cases st' <;> rfl)
      | skip
    · rename_i q r
      cases st <;> try (simp [leafFill] at heq; done)
      rename_i m
      obtain ⟨key, rfl⟩ := leafFill_bag heq
      simp only [kindOk, decide_eq_true_eq] at hko ⊢
      subst ha
      exact bagTotal_insert key c m a hko
  · cases hok

theorem generic_step {k e st tmpl kids d w targets} (hp : Val.pos w = true) (hl : k.isLeaf = false)
    (hr : route k (keysOf kids) d w = .ok targets)
    (hs : k.isSparse = true → ∃ key w', targets = [(key, w')] ∧ hasKey key kids = true)
    (hK : ∀ targets d, goodKids kids = true → invKids kids = true →
      goodKids (fillKids kids targets d).1 = true → (fillKids kids targets d).2 = .ok →
      invKids (fillKids kids targets d).1 = true)
    (hg : good (.node k e st tmpl kids) = true) (hi : inv (.node k e st tmpl kids) = true)
    (hw : w.okWeight = true) (hg' : good (fill (.node k e st tmpl kids) d w).1 = true)
    (hok : (fill (.node k e st tmpl kids) d w).2 = .ok)
    (hkind : ∀ kids', Bumped (fun key => lookupK key targets) kids kids' → goodKids kids' = true →
      kindOk k st (e + w) kids' = true) :
    inv (fill (.node k e st tmpl kids) d w).1 = true := by
  obtain ⟨c, rfl, hc⟩ := okWeight_pos hw hp
  obtain ⟨a, ha, ha0⟩ := good_entries _ hg
  simp only [Agg.entries] at ha
  rw [fill_generic _ _ _ _ _ _ _ _ hp hl hr hs] at hg' hok ⊢
  simp only at hok
  simp only [hok, Outcome.isOk, if_true] at hg' ⊢
  obtain ⟨_, _, hik⟩ := (inv_node_iff ..).mp hi
  rw [inv_node_iff]
  have hgk' := (good_parts hg').2.1
  exact ⟨le_zero_add ha ha0 rfl (le_of_lt hc),
    hkind _ (fillKids_bumped kids targets d (route_pos hp hr) hok) hgk',
    hK targets d (good_parts hg).2.1 hik hgk' hok⟩

/-! ### shapes of the fixed layouts -/

theorem keysOf_eq_cons {kids : List (Key × Agg)} {k : Key} {ks : List Key} (h : keysOf kids = k :: ks) :
    ∃ a rest, kids = (k, a) :: rest ∧ keysOf rest = ks := by
  cases kids with
  | nil => simp [keysOf] at h
  | cons p rest =>
    obtain ⟨k', a⟩ := p
    simp only [keysOf, List.map_cons, List.cons.injEq] at h
    exact ⟨a, rest, by rw [h.1], h.2⟩

theorem keysOf_eq_nil {kids : List (Key × Agg)} (h : keysOf kids = []) : kids = [] := by
  cases kids with
  | nil => rfl
  | cons p rest => simp [keysOf] at h

theorem stack_shape {q : Qty} {kids : List (Key × Agg)} (h : (Kind.stack q).layoutOk (keysOf kids) = true) :
    ∃ nf l0 restK, kids = (.nanflow, nf) :: (.thr .ninf, l0) :: restK ∧
      (keysOf restK).all Key.isThr = true ∧
      valsIncreasing (.ninf :: thresholdsOf (keysOf restK)) = true := by
  simp only [Kind.layoutOk] at h
  split at h
  · rename_i rest heq
    obtain ⟨nf, r1, rfl, h1⟩ := keysOf_eq_cons heq
    obtain ⟨l0, restK, rfl, h2⟩ := keysOf_eq_cons h1
    subst h2
    simp only [Bool.and_eq_true] at h
    exact ⟨nf, l0, restK, rfl, h.1.1, h.1.2⟩
  · cases h

theorem fraction_shape {q : Qty} {kids : List (Key × Agg)} (h : (Kind.fraction q).layoutOk (keysOf kids) = true) :
    ∃ a b, kids = [(.den, a), (.num, b)] := by
  simp only [Kind.layoutOk, decide_eq_true_eq] at h
  obtain ⟨a, r1, rfl, h1⟩ := keysOf_eq_cons h
  obtain ⟨b, r2, rfl, h2⟩ := keysOf_eq_cons h1
  rw [keysOf_eq_nil h2]
  exact ⟨a, b, rfl⟩

theorem binsOf_thr : ∀ (l : List (Key × Agg)), (keysOf l).all Key.isThr = true → binsOf l = l
  | [], _ => rfl
  | (k, a) :: r, h => by
    simp only [keysOf, List.map_cons, List.all_cons, Bool.and_eq_true] at h
    have ih := binsOf_thr r h.2
    simp only [binsOf] at ih ⊢
    cases k <;> simp [Key.isThr] at h
    simp only [List.filter_cons, if_true, ih]

theorem binsOf_stack (nf l0 : Agg) (restK : List (Key × Agg)) (h : (keysOf restK).all Key.isThr = true) :
    binsOf ((.nanflow, nf) :: (.thr .ninf, l0) :: restK) = (.thr .ninf, l0) :: restK := by
  have ih := binsOf_thr restK h
  simp only [binsOf] at ih ⊢
  simp only [List.filter_cons, ih]
  simp

/-! ### empty trees -/

theorem isZero_eq {e : Val} (h : e.isZero = true) : e = .fin 0 := by
  cases e <;> simp [Val.isZero] at h
  rw [h]

theorem zeroKids_entries : ∀ (kids : List (Key × Agg)), isZeroKids kids = true →
    ∀ p ∈ kids, p.2.entries = .fin 0
  | [], _ => by intro p hp; cases hp
  | (k, .node kk e st t ks) :: r, h => by
    simp only [isZeroKids, isZeroTree, Bool.and_eq_true] at h
    intro p hp
    rcases List.mem_cons.mp hp with rfl | hp
    · exact isZero_eq h.1.1.1.1
    · exact zeroKids_entries r h.2 p hp

theorem sum_zero : ∀ (kids : List (Key × Agg)), (∀ p ∈ kids, p.2.entries = .fin 0) →
    sumEntries kids = .fin 0
  | [], _ => rfl
  | p :: r, h => by
    simp only [sumEntries, h p (List.mem_cons_self ..),
      sum_zero r (fun x hx => h x (List.mem_cons_of_mem _ hx)), fin_add]
    congr 1; ring

theorem antitone_zero : ∀ (l : List (Key × Agg)), (∀ p ∈ l, p.2.entries = .fin 0) →
    antitoneEntries l = true
  | [], _ => rfl
  | [_], _ => rfl
  | a :: b :: r, h => by
    simp only [antitoneEntries, Bool.and_eq_true]
    refine ⟨?_, antitone_zero (b :: r) (fun x hx => h x (List.mem_cons_of_mem _ hx))⟩
    rw [h a (by simp), h b (by simp)]
    decide

theorem kindOk_zero {k st kids} (hl : k.layoutOk (keysOf kids) = true)
    (hz : ∀ p ∈ kids, p.2.entries = .fin 0) (hst : st = St.zero k) :
    kindOk k st (.fin 0) kids = true := by
  subst hst
  cases k
  case bag q r => simp [kindOk, St.zero, bagTotal, zero_eq]
  case stack q =>
    obtain ⟨nf, l0, restK, rfl, h1, _⟩ := stack_shape hl
    simp only [kindOk, binsOf_stack nf l0 restK h1, Bool.and_eq_true]
    refine ⟨antitone_zero _ (fun p hp => hz p (List.mem_cons_of_mem _ hp)), ?_⟩
    simp only [lookupK, if_true, decide_eq_true_eq]
    rw [hz (.nanflow, nf) (by simp), hz (.thr .ninf, l0) (by simp), fin_add]
    congr 1; ring
  case fraction q =>
    obtain ⟨a, b, rfl⟩ := fraction_shape hl
    simp only [kindOk, lookupK, if_true, decide_eq_true_eq]
    exact hz (.den, a) (by simp)
  all_goals first
    | (simp only [kindOk, decide_eq_true_eq]; exact sum_zero kids hz)
    | (simp only [kindOk, List.all_eq_true, decide_eq_true_eq]; exact hz)
    | rfl

mutual
theorem inv_of_zero : ∀ (t : Agg), good t = true → isZeroTree t = true → inv t = true
  | .node k e st tmpl kids, hg, hz => by
    simp only [isZeroTree, Bool.and_eq_true, decide_eq_true_eq] at hz
    obtain ⟨⟨⟨he, hst⟩, _⟩, hzk⟩ := hz
    have he' := isZero_eq he
    subst he'
    rw [inv_node_iff]
    exact ⟨by decide, kindOk_zero (good_parts hg).1 (zeroKids_entries kids hzk) hst,
      invKids_of_zero kids (good_parts hg).2.1 hzk⟩
theorem invKids_of_zero : ∀ (kids : List (Key × Agg)), goodKids kids = true → isZeroKids kids = true →
    invKids kids = true
  | [], _, _ => rfl
  | (k, a) :: r, hg, hz => by
    simp only [goodKids, isZeroKids, Bool.and_eq_true] at hg hz
    simp only [invKids, Bool.and_eq_true]
    exact ⟨inv_of_zero a hg.1 hz.1, invKids_of_zero r hg.2 hz.2⟩
end

/-! ### partitioning containers -/

def isPartition : Kind → Bool
  | .bin .. | .sparse .. | .central _ | .irregular _ | .categorize .. => true
  | _ => false

theorem kindOk_partition {k st e kids} (h : isPartition k = true) :
    kindOk k st e kids = decide (sumEntries kids = e) := by
  cases k <;> first | rfl | (simp [isPartition] at h)

theorem kindOk_partition_step {k st e kids kids' key} {c : Rat} (hpk : isPartition k = true)
    (hko : kindOk k st e kids = true) (hf : FinKids kids) (hnd : (keysOf kids).Nodup)
    (hm : key ∈ keysOf kids) (hb : Bumped (fun k' => lookupK k' [(key, Val.fin c)]) kids kids') :
    kindOk k st (e + .fin c) kids' = true := by
  rw [kindOk_partition hpk, decide_eq_true_eq] at hko ⊢
  rw [← hko]
  refine sum_bump_single (g := fun k' => lookupK k' [(key, Val.fin c)]) (key := key) ?_ hb hf hnd hm ?_
  · simp [lookupK]
  · intro k' _ hne
    simp only [lookupK_single]
    rw [if_neg (fun h => hne h.symm)]

theorem centralPick_mem {x : Val} : ∀ {cs : List Rat} {c : Rat}, centralPick x cs = some c → c ∈ cs
  | [], _, h => by simp [centralPick] at h
  | [c0], c, h => by simp only [centralPick, Option.some.injEq] at h; simp [h]
  | c0 :: c1 :: rest, c, h => by
    simp only [centralPick] at h
    split at h
    · cases h; simp
    · exact List.mem_cons_of_mem _ (centralPick_mem h)

theorem irregularPick_mem {x : Val} : ∀ {ts : List Val} {t : Val}, irregularPick x ts = some t → t ∈ ts
  | [], _, h => by simp [irregularPick] at h
  | [t0], t, h => by
    simp only [irregularPick] at h
    split at h
    · cases h; simp
    · cases h
  | t0 :: t1 :: rest, t, h => by
    simp only [irregularPick] at h
    split at h
    · cases h; simp
    · exact List.mem_cons_of_mem _ (irregularPick_mem h)

theorem irregularPick_some {x : Val} : ∀ (t0 : Val) (ts : List Val), Val.ge x t0 = true →
    irregularPick x (t0 :: ts) ≠ none
  | t0, [], h => by simp [irregularPick, h]
  | t0, t1 :: rest, h => by
    simp only [irregularPick, h, Bool.true_and]
    by_cases h1 : Val.ge x t1 = true
    · simp only [h1, Bool.not_true, Bool.false_eq_true, if_false]
      exact irregularPick_some t1 rest h1
    · simp [h1]

theorem ge_ninf {x : Val} (h : x.isNaN = false) : Val.ge x .ninf = true := by
  cases x <;> simp [Val.isNaN] at h <;> rfl

theorem binIndex_lt (n : Nat) (low high x : Rat) (hn : 1 ≤ n) : binIndex n low high x < n := by
  unfold binIndex
  simp only
  omega

/-- for Bin, CentrallyBin and IrregularlyBin the datum goes to exactly one existing child -/
theorem route_fixed_partition {k keys d w targets} (hk : isPartition k = true) (hs : k.isSparse = false)
    (hl : k.layoutOk keys = true) (hr : route k keys d w = .ok targets) :
    ∃ key, targets = [(key, w)] ∧ key ∈ keys := by
  cases k
  case bin q n low high =>
    simp only [route, bind, Except.bind, pure, Except.pure] at hr
    simp only [Kind.layoutOk, Bool.and_eq_true, decide_eq_true_eq] at hl
    split at hr
    · cases hr
    · rename_i x _
      cases hr
      refine ⟨_, rfl, ?_⟩
      rw [hl.2]
      cases x <;> simp only [routeBin]
      · split
        · simp
        · split
          · simp
          · simp only [List.cons_append, List.nil_append, List.mem_cons, List.mem_map, List.mem_range,
              reduceCtorEq, false_or]
            exact ⟨_, binIndex_lt n low high _ hl.1.1, rfl⟩
      all_goals simp
  case central q =>
    simp only [route, bind, Except.bind, pure, Except.pure] at hr
    simp only [Kind.layoutOk] at hl
    split at hl
    · rename_i rest
      simp only [Bool.and_eq_true] at hl
      split at hr
      · cases hr
      · split at hr
        · cases hr; exact ⟨_, rfl, by simp⟩
        · split at hr
          · rename_i c hc
            cases hr
            refine ⟨_, rfl, ?_⟩
            simp only [centersOf] at hc
            have := centralPick_mem hc
            rw [KF.allCtr_eq rest hl.1.1]
            exact List.mem_cons_of_mem _ (List.mem_map_of_mem this)
          · cases hr
    · cases hl
  case irregular q =>
    simp only [route, bind, Except.bind, pure, Except.pure] at hr
    simp only [Kind.layoutOk] at hl
    split at hl
    · rename_i rest
      simp only [Bool.and_eq_true] at hl
      split at hr
      · cases hr
      · rename_i x _
        split at hr
        · cases hr; exact ⟨_, rfl, by simp⟩
        · rename_i hnan
          simp only [thresholdsOf] at hr
          split at hr
          · rename_i t ht
            cases hr
            refine ⟨_, rfl, ?_⟩
            have := irregularPick_mem ht
            rcases List.mem_cons.mp this with rfl | hm
            · simp
            · rw [KF.allThr_eq rest hl.1.1]
              exact List.mem_cons_of_mem _ (List.mem_cons_of_mem _ (List.mem_map_of_mem hm))
          · rename_i hnone
            exact absurd hnone (irregularPick_some _ _ (ge_ninf (by simpa using hnan)))
    · cases hl
  all_goals first
    | (simp [isPartition] at hk; done)
    | (simp [Kind.isSparse] at hs)

/-! ### collections -/

theorem kindOk_collection {k st e kids} (h : k.isCollection = true) :
    kindOk k st e kids = kids.all (fun p => decide (p.2.entries = e)) := by
  cases k <;> first | rfl | (simp [Kind.isCollection] at h)

theorem route_collection {k keys d w targets} (h : k.isCollection = true)
    (hr : route k keys d w = .ok targets) : targets = keys.map (fun key => (key, w)) := by
  cases k <;> first | (simp [Kind.isCollection] at h; done) | skip
  all_goals
    simp only [route, pure, Except.pure] at hr
    cases hr; rfl

theorem lookupK_map_const (w : Val) (key : Key) : ∀ (keys : List Key), key ∈ keys →
    lookupK key (keys.map (fun k => (k, w))) = some w
  | [], h => by cases h
  | k :: ks, h => by
    simp only [List.map_cons, lookupK]
    split
    · rfl
    · rename_i hne
      rcases List.mem_cons.mp h with rfl | h
      · exact absurd rfl hne
      · exact lookupK_map_const w key ks h

theorem all_bump {g} {e w : Val} : ∀ {l l' : List (Key × Agg)}, Bumped g l l' →
    (∀ k ∈ keysOf l, g k = some w) → l.all (fun p => decide (p.2.entries = e)) = true →
    l'.all (fun p => decide (p.2.entries = e + w)) = true
  | [], [], _, _, _ => rfl
  | p :: r, p' :: r', h, hg, ha => by
    simp only [Bumped] at h
    simp only [List.all_cons, Bool.and_eq_true, decide_eq_true_eq] at ha ⊢
    refine ⟨?_, all_bump h.2.2 (fun k hk => hg k (List.mem_cons_of_mem _ hk)) ha.2⟩
    rw [h.2.1, bumpE, hg p.1 (by simp [keysOf]), ha.1]
  | [], _ :: _, h, _, _ => by simp [Bumped] at h
  | _ :: _, [], h, _, _ => by simp [Bumped] at h

theorem kindOk_collection_step {k st e w kids kids'} (hc : k.isCollection = true)
    (hko : kindOk k st e kids = true)
    (hb : Bumped (fun key => lookupK key ((keysOf kids).map (fun key => (key, w)))) kids kids') :
    kindOk k st (e + w) kids' = true := by
  rw [kindOk_collection hc] at hko ⊢
  exact all_bump hb (fun k hk => lookupK_map_const w k _ hk) hko

/-! ### Fraction -/

theorem kindOk_fraction_step {q st e w kids kids'} {tl : List (Key × Val)}
    (hl : (Kind.fraction q).layoutOk (keysOf kids) = true)
    (hko : kindOk (.fraction q) st e kids = true)
    (hb : Bumped (fun key => lookupK key ((Key.den, w) :: tl)) kids kids') :
    kindOk (.fraction q) st (e + w) kids' = true := by
  obtain ⟨a, b, rfl⟩ := fraction_shape hl
  match kids', hb with
  | [p1, p2], hb =>
    simp only [Bumped] at hb
    obtain ⟨k1, a'⟩ := p1
    obtain ⟨h1, h2, _⟩ := hb
    simp only at h1 h2
    subst h1
    simp only [kindOk, lookupK, if_true, decide_eq_true_eq] at hko ⊢
    rw [h2, bumpE]
    simp only [lookupK, if_true, hko]
  | [], hb => simp [Bumped] at hb
  | [_], hb => simp [Bumped] at hb
  | _ :: _ :: _ :: _, hb => simp [Bumped] at hb

/-! ### Stack -/

def downClosed (sel : Key → Bool) : List Key → Prop
  | [] => True
  | [_] => True
  | a :: b :: r => (sel b = true → sel a = true) ∧ downClosed sel (b :: r)

theorem downClosed_false {sel : Key → Bool} : ∀ (l : List Key), (∀ k ∈ l, sel k = false) → downClosed sel l
  | [], _ => trivial
  | [_], _ => trivial
  | a :: b :: r, h => by
    refine ⟨?_, downClosed_false (b :: r) (fun k hk => h k (List.mem_cons_of_mem _ hk))⟩
    intro hb
    rw [h b (by simp)] at hb
    cases hb

theorem le_of_lt_of_le {t t' x : Val} (h1 : Val.lt t t' = true) (h2 : Val.le t' x = true) :
    Val.le t x = true := by
  cases t <;> cases t' <;> simp [Val.lt] at h1 <;> cases x <;> simp [Val.le] at h2 ⊢
  linarith

def selThr (x : Val) : Key → Bool
  | .thr t => Val.ge x t
  | _ => false

theorem downClosed_thr (x : Val) : ∀ (ts : List Val), valsIncreasing ts = true →
    downClosed (selThr x) (ts.map Key.thr)
  | [], _ => trivial
  | [_], _ => trivial
  | a :: b :: r, h => by
    simp only [valsIncreasing, Bool.and_eq_true] at h
    refine ⟨?_, downClosed_thr x (b :: r) h.2⟩
    simp only [selThr, Val.ge]
    exact le_of_lt_of_le h.1

theorem antitone_bump {sel : Key → Bool} {c : Rat} (hc : 0 ≤ c) :
    ∀ {l l' : List (Key × Agg)}, Bumped (fun k => if sel k then some (Val.fin c) else none) l l' →
    FinKids l → downClosed sel (keysOf l) → antitoneEntries l = true → antitoneEntries l' = true
  | [], [], _, _, _, _ => rfl
  | [_], [_], _, _, _, _ => rfl
  | p :: p2 :: r, p' :: p2' :: r', hb, hf, hd, ha => by
    have hb' : Bumped (fun k => if sel k then some (Val.fin c) else none) (p2 :: r) (p2' :: r') := by
      simp only [Bumped] at hb ⊢; exact hb.2.2
    simp only [keysOf, List.map_cons] at hd
    simp only [antitoneEntries, Bool.and_eq_true] at ha ⊢
    refine ⟨?_, antitone_bump hc hb' (finKids_tail hf) hd.2 ha.2⟩
    simp only [Bumped] at hb
    obtain ⟨a, hpa, _⟩ := hf p (by simp)
    obtain ⟨b, hpb, _⟩ := hf p2 (by simp)
    rw [hb.2.1, hb.2.2.2.1, bumpE, bumpE, hpa, hpb]
    have hle := ha.1
    rw [hpa, hpb] at hle
    simp only [Val.le, decide_eq_true_eq] at hle
    have hd1 := hd.1
    cases h1 : sel p.1 <;> cases h2 : sel p2.1 <;>
      simp only [h1, h2, if_true, Bool.false_eq_true, if_false, fin_add, Val.le, decide_eq_true_eq,
        forall_const] at hd1 ⊢ <;> linarith
  | [], _ :: _, h, _, _, _ => by simp [Bumped] at h
  | _ :: _, [], h, _, _, _ => by simp [Bumped] at h
  | [_], _ :: _ :: _, h, _, _, _ => by simp [Bumped] at h
  | _ :: _ :: _, [_], h, _, _, _ => by simp [Bumped] at h

theorem binsOf_eq_filter (l : List (Key × Agg)) :
    binsOf l = l.filter (fun p => (fun k : Key => match k with | .under | .over | .nanflow => false | _ => true) p.1) :=
  rfl

theorem kindOk_stack_step {q st e kids kids'} {sel : Key → Bool} {c : Rat} (hc : 0 ≤ c)
    (hl : (Kind.stack q).layoutOk (keysOf kids) = true) (hf : FinKids kids)
    (hb : Bumped (fun k => if sel k then some (Val.fin c) else none) kids kids')
    (hdc : downClosed sel (keysOf (binsOf kids)))
    (hx : sel .nanflow = !sel (.thr .ninf))
    (hko : kindOk (.stack q) st e kids = true) :
    kindOk (.stack q) st (e + .fin c) kids' = true := by
  obtain ⟨nf, l0, restK, rfl, hthr, _⟩ := stack_shape hl
  have hbins := Bumped.filter (fun k : Key => match k with | .under | .over | .nanflow => false | _ => true) hb
  rw [← binsOf_eq_filter, ← binsOf_eq_filter] at hbins
  have hfb : FinKids (binsOf ((Key.nanflow, nf) :: (Key.thr Val.ninf, l0) :: restK)) := by
    rw [binsOf_stack nf l0 restK hthr]; exact finKids_tail hf
  simp only [kindOk, Bool.and_eq_true] at hko ⊢
  refine ⟨antitone_bump hc hbins hfb hdc hko.1, ?_⟩
  have hko2 := hko.2
  rw [binsOf_stack nf l0 restK hthr] at hbins hko2
  simp only [lookupK, if_true, decide_eq_true_eq] at hko2
  obtain ⟨a, ha, _⟩ := hf (.nanflow, nf) (by simp)
  obtain ⟨b, hb0, _⟩ := hf (.thr .ninf, l0) (by simp)
  simp only at ha hb0
  match kids', hb with
  | p0' :: rest', hb =>
    simp only [Bumped] at hb
    obtain ⟨k0, nf'⟩ := p0'
    obtain ⟨h1, h2, _⟩ := hb
    simp only at h1 h2
    subst h1
    match hB : binsOf ((Key.nanflow, nf') :: rest'), hbins with
    | b0' :: restB', hbins =>
      simp only [Bumped] at hbins
      simp only [lookupK, if_true, decide_eq_true_eq]
      rw [hbins.2.1, h2, bumpE, bumpE, ← hko2, ha, hb0]
      simp only [hx]
      cases sel (.thr .ninf)
      · simp only [Bool.not_false, if_true, fin_add, Bool.false_eq_true, if_false]; congr 1; ring
      · simp only [Bool.not_true, if_true, fin_add, Bool.false_eq_true, if_false]; congr 1; ring
    | [], hbins => simp [Bumped] at hbins
  | [], hb => simp [Bumped] at hb

theorem route_stack {q keys d w targets} (hr : route (.stack q) keys d w = .ok targets) :
    ∃ x : Val, (x.isNaN = true ∧ targets = [(.nanflow, w)]) ∨
      (x.isNaN = false ∧
        targets = (thresholdsOf keys).filterMap (fun t => if Val.ge x t then some (Key.thr t, w) else none)) := by
  simp only [route, bind, Except.bind, pure, Except.pure] at hr
  split at hr
  · cases hr
  · rename_i x _
    refine ⟨x, ?_⟩
    split at hr
    · rename_i h; cases hr; exact Or.inl ⟨h, rfl⟩
    · rename_i h; cases hr; exact Or.inr ⟨by simpa using h, rfl⟩

theorem lookup_stack_thr (x w : Val) (t : Val) : ∀ (ts : List Val),
    lookupK (.thr t) (ts.filterMap (fun t => if Val.ge x t then some (Key.thr t, w) else none)) =
      if (Val.ge x t && decide (t ∈ ts)) = true then some w else none
  | [] => by simp [lookupK]
  | t0 :: r => by
    have ih := lookup_stack_thr x w t r
    simp only [List.filterMap_cons]
    by_cases h0 : Val.ge x t0 = true
    · simp only [h0, if_true, lookupK, Key.thr.injEq, ih]
      by_cases ht : t0 = t
      · subst ht; simp [h0]
      · simp [ht, Ne.symm ht]
    · simp only [h0, Bool.false_eq_true, if_false, ih]
      by_cases ht : t0 = t
      · subst ht; simp [h0]
      · simp [Ne.symm ht]

theorem lookup_stack_other (x w : Val) (k : Key) (hk : ∀ t, k ≠ .thr t) : ∀ (ts : List Val),
    lookupK k (ts.filterMap (fun t => if Val.ge x t then some (Key.thr t, w) else none)) = none
  | [] => by simp [lookupK]
  | t0 :: r => by
    have ih := lookup_stack_other x w k hk r
    simp only [List.filterMap_cons]
    by_cases h0 : Val.ge x t0 = true
    · simp only [h0, if_true, lookupK, ih]
      rw [if_neg (fun h => hk _ h.symm)]
    · simp only [h0, Bool.false_eq_true, if_false, ih]

theorem kindOk_stack_route {q st e kids kids' d w targets} {c : Rat} (hw : w = .fin c) (hc : 0 ≤ c)
    (hl : (Kind.stack q).layoutOk (keysOf kids) = true) (hf : FinKids kids)
    (hr : route (.stack q) (keysOf kids) d w = .ok targets)
    (hb : Bumped (fun key => lookupK key targets) kids kids')
    (hko : kindOk (.stack q) st e kids = true) :
    kindOk (.stack q) st (e + w) kids' = true := by
  subst hw
  obtain ⟨nf, l0, restK, rfl, hthr, hinc⟩ := stack_shape hl
  have hkeys : keysOf ((Key.nanflow, nf) :: (Key.thr Val.ninf, l0) :: restK) =
      .nanflow :: .thr .ninf :: keysOf restK := rfl
  have hbk : keysOf (binsOf ((Key.nanflow, nf) :: (Key.thr Val.ninf, l0) :: restK)) =
      (Val.ninf :: thresholdsOf (keysOf restK)).map Key.thr := by
    rw [binsOf_stack nf l0 restK hthr]
    show Key.thr Val.ninf :: keysOf restK = _
    rw [List.map_cons, ← KF.allThr_eq _ hthr]
  obtain ⟨x, ⟨hnan, rfl⟩ | ⟨hnan, rfl⟩⟩ := route_stack hr
  · refine kindOk_stack_step (sel := fun k => decide (k = Key.nanflow)) hc hl hf
      (Bumped.congr ?_ hb) ?_ (by simp) hko
    · intro k _
      simp only [lookupK_single]
      by_cases h : Key.nanflow = k
      · subst h; simp
      · simp [h, Ne.symm h]
    · rw [hbk]
      apply downClosed_false
      intro k hk
      obtain ⟨t, _, rfl⟩ := List.mem_map.mp hk
      simp
  · have hth : thresholdsOf (keysOf ((Key.nanflow, nf) :: (Key.thr Val.ninf, l0) :: restK)) =
        .ninf :: thresholdsOf (keysOf restK) := rfl
    refine kindOk_stack_step (sel := selThr x) hc hl hf (Bumped.congr ?_ hb) ?_ ?_ hko
    · intro k hk
      rw [hkeys, KF.allThr_eq _ hthr] at hk
      rw [hth]
      rcases List.mem_cons.mp hk with rfl | hk
      · rw [lookup_stack_other x _ _ (by intro t h; cases h)]; rfl
      · have hk' : k ∈ (Val.ninf :: thresholdsOf (keysOf restK)).map Key.thr := by
          rw [List.map_cons]; exact hk
        obtain ⟨t, ht, rfl⟩ := List.mem_map.mp hk'
        rw [lookup_stack_thr]
        have hs : selThr x (.thr t) = Val.ge x t := rfl
        rw [hs]
        simp only [ht, decide_true, Bool.and_true]
    · rw [hbk]
      exact downClosed_thr x _ hinc
    · simp only [selThr, ge_ninf hnan]; rfl

/-! ### assembling one node -/

theorem isPartition_of_sparse {k : Kind} (h : k.isSparse = true) : isPartition k = true := by
  cases k <;> first | rfl | (simp [Kind.isSparse] at h)

theorem zeroTree_entries : ∀ (t : Agg), isZeroTree t = true → t.entries = .fin 0
  | .node k e st tmpl kids, h => by
    simp only [isZeroTree, Bool.and_eq_true] at h
    exact isZero_eq h.1.1.1

theorem route_fraction {q keys d w targets} (hr : route (.fraction q) keys d w = .ok targets) :
    ∃ tl, targets = (Key.den, w) :: tl := by
  simp only [route, bind, Except.bind, pure, Except.pure] at hr
  split at hr
  · cases hr
  · cases hr; exact ⟨_, rfl⟩

/-- the induction hypothesis for the children of a node -/
def KidsIH (kids : List (Key × Agg)) : Prop :=
  ∀ targets d, goodKids kids = true → invKids kids = true →
    goodKids (fillKids kids targets d).1 = true → (fillKids kids targets d).2 = .ok →
    invKids (fillKids kids targets d).1 = true

/-- the induction hypothesis for one tree -/
def TreeIH (t : Agg) : Prop :=
  ∀ d w, good t = true → inv t = true → Val.okWeight w = true → good (fill t d w).1 = true →
    (fill t d w).2 = .ok → inv (fill t d w).1 = true

theorem sparse_new_step {k e st tmpl kids d w key} (hp : Val.pos w = true) (hl : k.isLeaf = false)
    (hs : k.isSparse = true) (hr : route k (keysOf kids) d w = .ok [(key, w)])
    (hk : hasKey key kids = false) (hT : ∀ t, tmpl = some t → TreeIH t)
    (hg : good (.node k e st tmpl kids) = true) (hi : inv (.node k e st tmpl kids) = true)
    (hw : w.okWeight = true) (hg' : good (fill (.node k e st tmpl kids) d w).1 = true)
    (hok : (fill (.node k e st tmpl kids) d w).2 = .ok) :
    inv (fill (.node k e st tmpl kids) d w).1 = true := by
  obtain ⟨c, rfl, hc⟩ := okWeight_pos hw hp
  obtain ⟨a, ha, ha0⟩ := good_entries _ hg
  simp only [Agg.entries] at ha
  obtain ⟨_, hko, hik⟩ := (inv_node_iff ..).mp hi
  rw [fill_sparse_new _ _ _ _ _ _ _ _ _ hp hl hs hr hk] at hg' hok ⊢
  cases tmpl with
  | none => simp [fillTmpl] at hok
  | some t =>
    simp only [fillTmpl] at hg' hok ⊢
    have hgt := (good_parts hg).2.2
    simp only [goodTmpl, Bool.and_eq_true] at hgt
    have hTt := hT t rfl d (.fin c) hgt.1 (inv_of_zero t hgt.1 hgt.2) hw
    have hent := fill_entries t d (.fin c) hp
    generalize fill t d (.fin c) = r at hg' hok hTt hent ⊢
    obtain ⟨nb, o⟩ := r
    cases o with
    | raised f => simp at hok
    | ok =>
      simp only at hg' hTt hent ⊢
      have hgnb := goodKids_insertK key nb kids (good_parts hg').2.1
      have hinb := hTt hgnb trivial
      have hx : nb.entries = .fin (0 + c) := by rw [hent trivial, zeroTree_entries t hgt.2, fin_add]
      rw [inv_node_iff]
      refine ⟨le_zero_add ha ha0 rfl (le_of_lt hc), ?_, invKids_insertK key nb hinb kids hik⟩
      rw [kindOk_partition (isPartition_of_sparse hs), decide_eq_true_eq] at hko ⊢
      rw [sumEntries_insertK key nb hx kids (finKids_of_good kids (good_parts hg).2.1), hko, zero_add]

theorem container_step {k e st tmpl kids d w} (hp : Val.pos w = true) (hl : k.isLeaf = false)
    (hK : KidsIH kids) (hT : ∀ t, tmpl = some t → TreeIH t)
    (hg : good (.node k e st tmpl kids) = true) (hi : inv (.node k e st tmpl kids) = true)
    (hw : w.okWeight = true) (hg' : good (fill (.node k e st tmpl kids) d w).1 = true)
    (hok : (fill (.node k e st tmpl kids) d w).2 = .ok) :
    inv (fill (.node k e st tmpl kids) d w).1 = true := by
  obtain ⟨c, hwc, hc⟩ := okWeight_pos hw hp
  obtain ⟨_, hko, hik⟩ := (inv_node_iff ..).mp hi
  obtain ⟨hlay, hgk, _⟩ := good_parts hg
  have hf := finKids_of_good kids hgk
  have hnd := KF.good_nodup _ _ _ _ _ hg
  cases hr : route k (keysOf kids) d w with
  | error f => rw [fill_route_err _ _ _ _ _ _ _ _ hp hl hr] at hok; cases hok
  | ok targets =>
    by_cases hsp : k.isSparse = true
    · obtain ⟨key, rfl⟩ := route_sparse_single hsp hr
      by_cases hk : hasKey key kids = true
      · refine generic_step hp hl hr (fun _ => ⟨key, w, rfl, hk⟩) hK hg hi hw hg' hok ?_
        intro kids' hb _
        subst hwc
        exact kindOk_partition_step (isPartition_of_sparse hsp) hko hf hnd
          ((KF.hasKey_iff_mem key kids).mp hk) hb
      · exact sparse_new_step hp hl hsp hr (by simpa using hk) hT hg hi hw hg' hok
    · have hsp' : k.isSparse = false := by simpa using hsp
      refine generic_step hp hl hr (fun h => absurd h hsp) hK hg hi hw hg' hok ?_
      intro kids' hb _
      cases k
      case bin q n low high =>
        obtain ⟨key, rfl, hm⟩ := route_fixed_partition rfl rfl hlay hr
        subst hwc
        exact kindOk_partition_step rfl hko hf hnd hm hb
      case central q =>
        obtain ⟨key, rfl, hm⟩ := route_fixed_partition rfl rfl hlay hr
        subst hwc
        exact kindOk_partition_step rfl hko hf hnd hm hb
      case irregular q =>
        obtain ⟨key, rfl, hm⟩ := route_fixed_partition rfl rfl hlay hr
        subst hwc
        exact kindOk_partition_step rfl hko hf hnd hm hb
      case stack q => exact kindOk_stack_route hwc (le_of_lt hc) hlay hf hr hb hko
      case fraction q =>
        obtain ⟨tl, rfl⟩ := route_fraction hr
        exact kindOk_fraction_step hlay hko hb
      case select q => rfl
      case label =>
        rw [route_collection rfl hr] at hb
        exact kindOk_collection_step rfl hko hb
      case untypedLabel =>
        rw [route_collection rfl hr] at hb
        exact kindOk_collection_step rfl hko hb
      case index =>
        rw [route_collection rfl hr] at hb
        exact kindOk_collection_step rfl hko hb
      case branch =>
        rw [route_collection rfl hr] at hb
        exact kindOk_collection_step rfl hko hb
      all_goals first
        | (simp [Kind.isLeaf] at hl; done)
        | (simp [Kind.isSparse] at hsp)

theorem node_step {k e st tmpl kids} (hK : KidsIH kids) (hT : ∀ t, tmpl = some t → TreeIH t) :
    TreeIH (.node k e st tmpl kids) := by
  intro d w hg hi hw hg' hok
  by_cases hp : Val.pos w = true
  · by_cases hl : k.isLeaf = true
    · exact leaf_step hl hp hg hi hw hok
    · exact container_step hp (by simpa using hl) hK hT hg hi hw hg' hok
  · rw [fill_closed _ _ _ _ _ _ _ (by simpa using hp)]
    exact hi

mutual
theorem inv_fill_aux : ∀ (t : Agg), TreeIH t
  | .node _ _ _ tmpl kids =>
    node_step (inv_fillKids_aux kids) (inv_fillTmpl_aux tmpl)
theorem inv_fillTmpl_aux : ∀ (tmpl : Option Agg), ∀ t, tmpl = some t → TreeIH t
  | none => fun _ h => by cases h
  | some t0 => fun t h => by cases h; exact inv_fill_aux t0
theorem inv_fillKids_aux : ∀ (kids : List (Key × Agg)), KidsIH kids
  | [] => by
    intro targets d _ _ _ _
    simp [fillKids, invKids]
  | (key, a) :: rest => by
    intro targets d hg hi hg' hok
    have iha := inv_fill_aux a
    have ihr := inv_fillKids_aux rest
    simp only [goodKids, invKids, Bool.and_eq_true] at hg hi
    rw [fillKids] at hg' hok ⊢
    cases hlk : lookupK key targets with
    | none =>
      simp only [hlk] at hg' hok ⊢
      simp only [goodKids, invKids, Bool.and_eq_true] at hg' ⊢
      exact ⟨hi.1, ihr targets d hg.2 hi.2 hg'.2 hok⟩
    | some w' =>
      simp only [hlk] at hg' hok ⊢
      by_cases hra : (fill a d w').2.isOk = true
      · simp only [hra, if_true] at hg' hok ⊢
        simp only [goodKids, invKids, Bool.and_eq_true] at hg' ⊢
        have hra' := (isOk_iff _).mp hra
        exact ⟨iha d w' hg.1 hi.1 (okWeight_of_good_fill a d w' hg.1 hg'.1 hra') hg'.1 hra',
          ihr targets d hg.2 hi.2 hg'.2 hok⟩
      · rw [if_neg hra] at hok
        simp only at hok
        rw [hok] at hra
        exact absurd rfl hra
end

theorem goodRun_good (t : Agg) : ∀ (s : List (Datum × Val)), goodRun t s = true → good t = true
  | [], h => h
  | dw :: rest, h => by
    simp only [goodRun, Bool.and_eq_true] at h
    exact h.1.1.1

theorem inv_fillAll_aux : ∀ (s : List (Datum × Val)) (t : Agg), good t = true → inv t = true →
    goodRun t s = true → inv (fillAll t s) = true
  | [], t, _, hi, _ => hi
  | dw :: rest, t, hg, hi, hrun => by
    simp only [goodRun, Bool.and_eq_true] at hrun
    obtain ⟨⟨⟨_, hw⟩, hok⟩, hrest⟩ := hrun
    have hg' := goodRun_good _ rest hrest
    have hok' := (isOk_iff _).mp hok
    have hi' := inv_fill_aux t dw.1 dw.2 hg hi hw hg' hok'
    have := inv_fillAll_aux rest (fill t dw.1 dw.2).1 hg' hi' hrest
    simpa [fillAll, List.foldl_cons] using this

end InvB

theorem inv_fill (t : Agg) (d : Datum) (w : Val) (hg : good t = true) (hi : inv t = true)
    (hw : w.okWeight = true) (hg' : good (fill t d w).1 = true) (hok : (fill t d w).2 = .ok) :
    inv (fill t d w).1 = true :=
  InvB.inv_fill_aux t d w hg hi hw hg' hok

/-- every state reached from an empty tree by a run of fills satisfies the invariants -/
theorem inv_fillAll (z : Agg) (s : List (Datum × Val)) (hz : isZeroTree z = true)
    (hrun : goodRun z s = true) : inv (fillAll z s) = true :=
  have hg := InvB.goodRun_good z s hrun
  InvB.inv_fillAll_aux s z hg (InvB.inv_of_zero z hg hz) hrun

end Hg
