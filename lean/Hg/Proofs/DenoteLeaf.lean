/-
  Hg.Proofs.DenoteLeaf — leaf level of `fillAll_eq_denote`: the row-wise fills of each of the seven
  leaf primitives, started from the empty state, compute `leafDenote`.
-/
import Hg.Model.Denote
import Hg.Proofs.NpLeaf
import Hg.Proofs.DenoteBag

set_option linter.unusedSimpArgs false
set_option linter.unusedVariables false

namespace Hg.Den

open Val NpLeaf

/-! ### sums -/

theorem foldl_add_shift {α : Type} (f : α → Val) (l : List α) (a : Val) :
    l.foldl (fun acc x => acc + f x) a = a + sumVal f l := by
  unfold sumVal
  induction l generalizing a with
  | nil => simp
  | cons x l ih =>
    rw [List.foldl_cons, List.foldl_cons, ih (a + f x), ih (0 + f x), Val.zero_add, Val.add_assoc]

theorem sumVal_nil {α : Type} (f : α → Val) : sumVal f [] = 0 := rfl

theorem sumVal_cons {α : Type} (f : α → Val) (x : α) (l : List α) :
    sumVal f (x :: l) = f x + sumVal f l := by
  show (x :: l).foldl (fun acc x => acc + f x) 0 = _
  rw [List.foldl_cons, foldl_add_shift, Val.zero_add]

theorem sumVal_map {α β : Type} (f : β → Val) (g : α → β) (l : List α) :
    sumVal f (l.map g) = sumVal (fun a => f (g a)) l := by
  unfold sumVal
  rw [List.foldl_map]

/-! ### the gate -/

theorem gated_nil : gated [] = [] := rfl

theorem gated_cons_pos {p : Datum × Val} (h : p.2.pos = true) (s : List (Datum × Val)) :
    gated (p :: s) = p :: gated s := by
  unfold gated; rw [List.filter_cons_of_pos (by simpa using h)]

theorem gated_cons_neg {p : Datum × Val} (h : p.2.pos = false) (s : List (Datum × Val)) :
    gated (p :: s) = gated s := by
  unfold gated; rw [List.filter_cons_of_neg (by simp [h])]

theorem mem_gated {p : Datum × Val} {s : List (Datum × Val)} : p ∈ gated s ↔ p ∈ s ∧ p.2.pos = true := by
  unfold gated; rw [List.mem_filter]

theorem gated_gated (s : List (Datum × Val)) : gated (gated s) = gated s := by
  unfold gated; rw [List.filter_filter]; simp

theorem leafSeq_gated (k : Kind) (s : List (Datum × Val)) (r : Val × St) :
    leafSeq k r s = leafSeq k r (gated s) := by
  induction s generalizing r with
  | nil => rfl
  | cons p s ih =>
    by_cases hp : p.2.pos = true
    · rw [gated_cons_pos hp, leafSeq_cons, leafSeq_cons, ih]
    · have hp' : p.2.pos = false := by simpa using hp
      rw [gated_cons_neg hp', leafSeq_cons, ← ih]
      congr 1
      simp [leafStep, hp']

/-! ### what a good run says about the records a leaf receives -/

/-- every record passes the gate with a finite weight and the quantity of the leaf evaluates -/
def Clean (k : Kind) (g : List (Datum × Val)) : Prop :=
  ∀ p ∈ g, (∃ r, p.2 = fin r ∧ 0 < r) ∧ k.evalOk p.1 = true

theorem Clean.tail {k : Kind} {p : Datum × Val} {g : List (Datum × Val)} (h : Clean k (p :: g)) :
    Clean k g := fun x hx => h x (List.mem_cons_of_mem _ hx)

theorem Clean.pos {k : Kind} {g : List (Datum × Val)} (h : Clean k g) {p : Datum × Val} (hp : p ∈ g) :
    p.2.pos = true := by
  obtain ⟨⟨r, hr, h0⟩, _⟩ := h p hp
  rw [hr, pos_fin]; simpa using h0

theorem evalOk_of_leafFill {k : Kind} (hk : k.isLeaf = true) {e : Val} {st : St} {d : Datum} {w : Val}
    {r : Val × St} (h : leafFill k e st d w = .ok r) : k.evalOk d = true := by
  cases k <;> simp only [Kind.isLeaf, Bool.false_eq_true] at hk <;> cases st <;>
    simp only [leafFill, Kind.evalOk, bind, Except.bind, reduceCtorEq] at h ⊢
  all_goals
    first
    | rfl
    | (split at h
       · cases h
       · rename_i hx; rw [hx])

theorem clean_of_goodRun {k : Kind} (hk : k.isLeaf = true) (tmpl : Option Agg) (kids : List (Key × Agg)) :
    ∀ (s : List (Datum × Val)) (e : Val) (st : St),
      goodRun (.node k e st tmpl kids) s = true → Clean k (gated s)
  | [], _, _, _ => by intro p hp; cases hp
  | (d, w) :: s, e, st, hrun => by
    obtain ⟨hg, how, hok, hrun1⟩ := (goodRun_cons _ _ _).1 hrun
    simp only at how hok hrun1
    by_cases hp : w.pos = true
    · rw [gated_cons_pos (p := (d, w)) hp]
      rw [P3.fill_leaf d hp hk] at hok hrun1
      cases hl : leafFill k e st d w with
      | error f => rw [hl] at hok; cases hok
      | ok r =>
        obtain ⟨e', st'⟩ := r
        rw [hl] at hrun1
        simp only at hrun1
        intro p hp'
        rcases List.mem_cons.1 hp' with rfl | hp'
        · exact ⟨P3.Val.pos_fin how hp, evalOk_of_leafFill hk hl⟩
        · exact clean_of_goodRun hk tmpl kids s e' st' hrun1 p hp'
    · have hp' : w.pos = false := by simpa using hp
      rw [gated_cons_neg (p := (d, w)) hp']
      rw [P3.fill_gate' _ d w hp'] at hrun1
      exact clean_of_goodRun hk tmpl kids s e st hrun1


/-! ### the quantity on a clean stream -/

/-- numeric leaf kinds: the kind's `evalOk` is about `q.evalNum` -/
def NumKind (k : Kind) (q : Qty) : Prop :=
  ∀ d, k.evalOk d = (match q.evalNum d with | .ok _ => true | .error _ => false)

theorem Clean.evalNum {k : Kind} {q : Qty} (hk : NumKind k q) {g : List (Datum × Val)} (h : Clean k g)
    {p : Datum × Val} (hp : p ∈ g) : q.evalNum p.1 = .ok (xOf q p.1) := by
  have := (h p hp).2
  rw [hk] at this
  exact evalNum_xOf this

theorem valuesOf_cons {q : Qty} {p : Datum × Val} (hp : q.evalNum p.1 = .ok (xOf q p.1))
    (g : List (Datum × Val)) : valuesOf q (p :: g) = (xOf q p.1, p.2) :: valuesOf q g := by
  unfold valuesOf
  rw [List.filterMap_cons]
  simp only [hp]

theorem totalW_cons (p : Datum × Val) (g : List (Datum × Val)) : totalW (p :: g) = p.2 + totalW g :=
  sumVal_cons _ _ _

/-- the records as (value, rational weight) pairs -/
def pairs (q : Qty) (g : List (Datum × Val)) : List (Val × Rat) :=
  g.map (fun p => (xOf q p.1, toRat p.2))

theorem pairs_cons (q : Qty) (p : Datum × Val) (g : List (Datum × Val)) :
    pairs q (p :: g) = (xOf q p.1, toRat p.2) :: pairs q g := rfl

theorem posL_pairs {k : Kind} (q : Qty) {g : List (Datum × Val)} (h : Clean k g) : PosL (pairs q g) := by
  intro x hx
  unfold pairs at hx
  rw [List.mem_map] at hx
  obtain ⟨p, hp, rfl⟩ := hx
  obtain ⟨⟨r, hr, h0⟩, _⟩ := h p hp
  simp only [hr, toRat_fin]
  exact h0

theorem valuesOf_pairs {k : Kind} {q : Qty} (hk : NumKind k q) {g : List (Datum × Val)} (h : Clean k g) :
    valuesOf q g = (pairs q g).map (fun p => (p.1, fin p.2)) := by
  induction g with
  | nil => rfl
  | cons p g ih =>
    rw [valuesOf_cons (h.evalNum hk (List.mem_cons_self ..)), ih h.tail, pairs_cons, List.map_cons]
    obtain ⟨⟨r, hr, _⟩, _⟩ := h p (List.mem_cons_self ..)
    simp only [hr, toRat_fin]

theorem totalW_pairs {k : Kind} (q : Qty) {g : List (Datum × Val)} (h : Clean k g) :
    totalW g = fin (SW (pairs q g)) := by
  induction g with
  | nil => rfl
  | cons p g ih =>
    rw [totalW_cons, ih h.tail, pairs_cons, SW]
    obtain ⟨⟨r, hr, _⟩, _⟩ := h p (List.mem_cons_self ..)
    simp only [hr, toRat_fin, fin_add_fin]

/-! ### Count, Sum -/

theorem count_seq (g : List (Datum × Val)) (hpos : ∀ p ∈ g, p.2.pos = true) (e : Val) (st : St) :
    leafSeq .count (e, st) g = (e + totalW g, st) := by
  induction g generalizing e with
  | nil => simp [leafSeq, totalW, sumVal_nil]
  | cons p g ih =>
    obtain ⟨d, w⟩ := p
    have hw : w.pos = true := hpos (d, w) (List.mem_cons_self ..)
    rw [leafSeq_cons, leafStep_count, if_pos hw, ih (fun x hx => hpos x (List.mem_cons_of_mem _ hx)),
      totalW_cons, Val.add_assoc]

theorem sum_seq (q : Qty) (g : List (Datum × Val)) (h : Clean (.sum q) g) (e s : Val) :
    leafSeq (.sum q) (e, .sum s) g
      = (e + totalW g, .sum (s + sumVal (fun p => p.1 * p.2) (valuesOf q g))) := by
  induction g generalizing e s with
  | nil => simp [leafSeq, totalW, valuesOf, sumVal_nil]
  | cons p g ih =>
    obtain ⟨d, w⟩ := p
    have hw : w.pos = true := h.pos (List.mem_cons_self ..)
    have hx := h.evalNum (q := q) (fun _ => rfl) (List.mem_cons_self ..)
    rw [leafSeq_cons, leafStep_sum q e s d w _ hx, if_pos hw, ih h.tail, totalW_cons,
      valuesOf_cons hx, sumVal_cons, Val.add_assoc, Val.add_assoc]

/-! ### Minimize / Maximize -/

theorem foldl_skip_nan (stp : Val → Val → Val) (hs : ∀ m, stp m nan = m) (xs : List Val) (m : Val) :
    xs.foldl stp m = (xs.filter (fun x => !x.isNaN)).foldl stp m := by
  induction xs generalizing m with
  | nil => rfl
  | cons x xs ih =>
    cases x with
    | nan => rw [List.foldl_cons, hs, List.filter_cons_of_neg (by simp [isNaN]), ih]
    | _ => rw [List.foldl_cons, List.filter_cons_of_pos (by simp [isNaN]), List.foldl_cons, ih]

theorem min_seq (q : Qty) (g : List (Datum × Val)) (h : Clean (.minimize q) g) (e m : Val) :
    leafSeq (.minimize q) (e, .ext m) g
      = (e + totalW g, .ext (((valuesOf q g).map (·.1)).foldl
          (fun acc x => if acc.isNaN || Val.lt x acc then x else acc) m)) := by
  induction g generalizing e m with
  | nil => simp [leafSeq, totalW, valuesOf, sumVal_nil]
  | cons p g ih =>
    obtain ⟨d, w⟩ := p
    have hw : w.pos = true := h.pos (List.mem_cons_self ..)
    have hx := h.evalNum (q := q) (fun _ => rfl) (List.mem_cons_self ..)
    rw [leafSeq_cons, leafStep_min q e m d w _ hx, if_pos hw, ih h.tail, totalW_cons,
      valuesOf_cons hx, Val.add_assoc]
    rfl

theorem max_seq (q : Qty) (g : List (Datum × Val)) (h : Clean (.maximize q) g) (e m : Val) :
    leafSeq (.maximize q) (e, .ext m) g
      = (e + totalW g, .ext (((valuesOf q g).map (·.1)).foldl
          (fun acc x => if acc.isNaN || Val.lt acc x then x else acc) m)) := by
  induction g generalizing e m with
  | nil => simp [leafSeq, totalW, valuesOf, sumVal_nil]
  | cons p g ih =>
    obtain ⟨d, w⟩ := p
    have hw : w.pos = true := h.pos (List.mem_cons_self ..)
    have hx := h.evalNum (q := q) (fun _ => rfl) (List.mem_cons_self ..)
    rw [leafSeq_cons, leafStep_max q e m d w _ hx, if_pos hw, ih h.tail, totalW_cons,
      valuesOf_cons hx, Val.add_assoc]
    rfl


/-! ### Average / Deviate: the sums of a positive batch, classified -/

theorem sumVal_eq_sumP (g : Val → Rat → Val) (L : List (Val × Rat)) :
    sumVal (fun p => g p.1 p.2) L = sumP g L := by
  induction L with
  | nil => rfl
  | cons p L ih => rw [sumVal_cons, ih, sumP]

def hasNaN (L : List (Val × Rat)) : Bool := L.any (fun p => p.1.isNaN)
def hasP (L : List (Val × Rat)) : Bool := L.any (fun p => p.1 == pinf)
def hasN (L : List (Val × Rat)) : Bool := L.any (fun p => p.1 == ninf)

/-- the special-value table of a weighted sum with positive finite weights -/
def cls (n p m : Bool) (r : Rat) : Val :=
  if n then nan else if p && m then nan else if p then pinf else if m then ninf else fin r

theorem pinf_mul_fin {w : Rat} (hw : 0 < w) : pinf * fin w = pinf := by
  simp [mul_eq, Val.mul, infTimes, hw, hw.ne']

theorem ninf_mul_fin {w : Rat} (hw : 0 < w) : ninf * fin w = ninf := by
  simp [mul_eq, Val.mul, infTimes, hw, hw.ne']

theorem SXW_cls (L : List (Val × Rat)) (hL : PosL L) :
    SXW L = cls (hasNaN L) (hasP L) (hasN L) (RXW L) := by
  induction L with
  | nil => rfl
  | cons p L ih =>
    obtain ⟨x, w⟩ := p
    have hw : 0 < w := hL.head
    have e1 : SXW ((x, w) :: L) = x * fin w + SXW L := rfl
    have e2 : hasNaN ((x, w) :: L) = (x.isNaN || hasNaN L) := by simp [hasNaN]
    have e3 : hasP ((x, w) :: L) = (x == pinf || hasP L) := by simp [hasP]
    have e4 : hasN ((x, w) :: L) = (x == ninf || hasN L) := by simp [hasN]
    rw [e1, e2, e3, e4, ih hL.tail, RXW]
    cases x <;> cases hasNaN L <;> cases hasP L <;> cases hasN L <;>
      simp [cls, pinf_mul_fin hw, ninf_mul_fin hw, isNaN, add_eq, Val.add, toRat]

theorem allFin_eq (L : List (Val × Rat)) : allFin L = (!hasNaN L && !hasP L && !hasN L) := by
  induction L with
  | nil => rfl
  | cons p L ih =>
    obtain ⟨x, w⟩ := p
    rw [allFin_cons, ih]
    cases x <;> simp [hasNaN, hasP, hasN, isFin, isNaN]
    all_goals
      cases L.any (fun p => p.1.isNaN) <;> cases L.any (fun p => p.1 == pinf) <;>
        cases L.any (fun p => p.1 == ninf) <;> rfl

theorem SX2W_fin (L : List (Val × Rat)) (h : allFin L = true) :
    sumP (fun x r => x * x * fin r) L = fin (RX2W L) := by
  induction L with
  | nil => rfl
  | cons p L ih =>
    obtain ⟨x, w⟩ := p
    rw [allFin_cons, Bool.and_eq_true] at h
    obtain ⟨a, rfl⟩ := (isFin_iff x).1 h.1
    simp [sumP, RX2W, ih h.2]

/-- `specMean` of a non-empty positive batch is `Σ x·w / Σ w` -/
theorem specMean_pairs (L : List (Val × Rat)) (hL : PosL L) (hne : L ≠ []) :
    specMean (L.map (fun p => (p.1, fin p.2))) = SXW L / fin (SW L) := by
  have hc : 0 < SW L := by
    cases L with
    | nil => exact absurd rfl hne
    | cons p L => exact SW_pos hL
  have h1 : sumVal (fun p : Val × Val => p.1 * p.2) (L.map (fun p => (p.1, fin p.2))) = SXW L := by
    rw [sumVal_map]; exact sumVal_eq_sumP (fun x r => x * fin r) L
  have h2 : sumVal (fun p : Val × Val => p.2) (L.map (fun p => (p.1, fin p.2))) = fin (SW L) := by
    rw [sumVal_map]; exact (sumVal_eq_sumP (fun _ r => fin r) L).trans (sumP_w L)
  have hemp : (L.map (fun p : Val × Rat => (p.1, fin p.2))).isEmpty = false := by
    cases L with
    | nil => exact absurd rfl hne
    | cons p L => rfl
  unfold specMean
  rw [h1, h2, hemp]
  simp only [List.any_map, Function.comp_def, Bool.false_eq_true, if_false]
  have e : SXW L = cls (hasNaN L) (hasP L) (hasN L) (RXW L) := SXW_cls L hL
  show (if hasNaN L = true then nan else if (hasP L && hasN L) = true then nan
    else if hasP L = true then pinf else if hasN L = true then ninf else SXW L / fin (SW L)) = _
  rw [e]
  cases hasNaN L <;> cases hasP L <;> cases hasN L <;> simp [cls, div_eq, Val.div, hc, hc.ne']

/-- `specVte` of a non-empty positive batch -/
theorem specVte_pairs (L : List (Val × Rat)) (hL : PosL L) (hne : L ≠ []) :
    specVte (L.map (fun p => (p.1, fin p.2)))
      = if allFin L then fin (RX2W L - RXW L * RXW L / SW L) else nan := by
  have hc : 0 < SW L := by
    cases L with
    | nil => exact absurd rfl hne
    | cons p L => exact SW_pos hL
  have h1 : sumVal (fun p : Val × Val => p.1 * p.2) (L.map (fun p => (p.1, fin p.2))) = SXW L := by
    rw [sumVal_map]; exact sumVal_eq_sumP (fun x r => x * fin r) L
  have h2 : sumVal (fun p : Val × Val => p.2) (L.map (fun p => (p.1, fin p.2))) = fin (SW L) := by
    rw [sumVal_map]; exact (sumVal_eq_sumP (fun _ r => fin r) L).trans (sumP_w L)
  have h3 : sumVal (fun p : Val × Val => p.1 * p.1 * p.2) (L.map (fun p => (p.1, fin p.2)))
      = sumP (fun x r => x * x * fin r) L := by
    rw [sumVal_map]; exact sumVal_eq_sumP (fun x r => x * x * fin r) L
  have hemp : (L.map (fun p : Val × Rat => (p.1, fin p.2))).isEmpty = false := by
    cases L with
    | nil => exact absurd rfl hne
    | cons p L => rfl
  have hany : (L.map (fun p : Val × Rat => (p.1, fin p.2))).any (fun p => p.1.isNaN || p.1.isInf)
      = !allFin L := by
    rw [List.any_map]
    unfold allFin
    rw [List.not_all_eq_any_not]
    congr 1
    funext p
    obtain ⟨x, w⟩ := p
    cases x <;> rfl
  unfold specVte
  rw [hemp, hany]
  simp only [h1, h2, h3, Bool.false_eq_true, if_false]
  cases hf : allFin L with
  | false => simp
  | true =>
    simp only [Bool.not_true, Bool.false_eq_true, if_false, if_true]
    rw [SX2W_fin L hf, SXW_fin L hf, fin_mul_fin, fin_div_fin _ _ hc.ne', fin_sub_fin]


theorem specVte_fin (L : List (Val × Rat)) (hL : PosL L) (hne : L ≠ []) (hf : allFin L = true) :
    specVte (L.map (fun p => (p.1, fin p.2))) = fin (RX2W L - RXW L * RXW L / SW L) := by
  rw [specVte_pairs L hL hne, if_pos hf]

theorem specVte_nan (L : List (Val × Rat)) (hL : PosL L) (hne : L ≠ []) (hf : allFin L = false) :
    specVte (L.map (fun p => (p.1, fin p.2))) = nan := by
  rw [specVte_pairs L hL hne, hf]; rfl

/-! ### Average / Deviate: the row-wise fills -/

theorem avg_seq_pos (q : Qty) (g : List (Datum × Val)) (h : Clean (.average q) g) (q0 : Rat)
    (hq0 : 0 < q0) (m : Val) :
    leafSeq (.average q) (fin q0, .mean m) g
      = (fin (meanSeq q0 m (pairs q g)).1, .mean (meanSeq q0 m (pairs q g)).2) := by
  induction g generalizing q0 m with
  | nil => rfl
  | cons p g ih =>
    obtain ⟨d, w⟩ := p
    have hw : w.pos = true := h.pos (List.mem_cons_self ..)
    have hx := h.evalNum (q := q) (fun _ => rfl) (List.mem_cons_self ..)
    obtain ⟨⟨r, hr, hr0⟩, _⟩ := h (d, w) (List.mem_cons_self ..)
    simp only at hr hx
    subst hr
    rw [leafSeq_cons, leafStep_avg q _ m d _ _ hx, if_pos hw, meanUpdate_pos hq0 hr0,
      ih h.tail _ (by linarith), pairs_cons]
    rfl

theorem avg_seq_zero (q : Qty) (g : List (Datum × Val)) (h : Clean (.average q) g) :
    leafSeq (.average q) (fin 0, .mean nan) g
      = (totalW g, .mean (specMean (valuesOf q g))) := by
  cases g with
  | nil => rfl
  | cons p g =>
    have hL := posL_pairs q h
    have hne : pairs q (p :: g) ≠ [] := by rw [pairs_cons]; exact List.cons_ne_nil _ _
    rw [valuesOf_pairs (fun _ => rfl) h, specMean_pairs _ hL hne, totalW_pairs q h]
    obtain ⟨d, w⟩ := p
    have hw : w.pos = true := h.pos (List.mem_cons_self ..)
    have hx := h.evalNum (q := q) (fun _ => rfl) (List.mem_cons_self ..)
    obtain ⟨⟨r, hr, hr0⟩, _⟩ := h (d, w) (List.mem_cons_self ..)
    simp only at hr hx
    subst hr
    rw [pairs_cons] at hL ⊢
    rw [leafSeq_cons, leafStep_avg q _ _ d _ _ hx, if_pos hw, meanUpdate_zero hr0,
      avg_seq_pos q g h.tail _ (by linarith), meanSeq_eq _ hL.tail _ (by linarith)]
    simp only [toRat_fin, SW, SXW, sumP, Rat.zero_add, Val.mul_comm (xOf q d) (fin r)]

theorem dev_seq_pos (q : Qty) (g : List (Datum × Val)) (h : Clean (.deviate q) g) (q0 : Rat)
    (hq0 : 0 < q0) (m v : Val) (dk : DevOk m v) :
    leafSeq (.deviate q) (fin q0, .dev m v) g
      = (fin (devSeqP q0 m v (pairs q g)).1,
          .dev (devSeqP q0 m v (pairs q g)).2.1 (devSeqP q0 m v (pairs q g)).2.2) := by
  induction g generalizing q0 m v with
  | nil => rfl
  | cons p g ih =>
    obtain ⟨d, w⟩ := p
    have hw : w.pos = true := h.pos (List.mem_cons_self ..)
    have hx := h.evalNum (q := q) (fun _ => rfl) (List.mem_cons_self ..)
    obtain ⟨⟨r, hr, hr0⟩, _⟩ := h (d, w) (List.mem_cons_self ..)
    simp only at hr hx
    subst hr
    rw [leafSeq_cons, leafStep_dev q _ m v d _ _ hx, if_pos hw, devStep_pos hq0 hr0 dk,
      ih h.tail _ (by linarith) _ _ (devOk_add hq0 hr0 dk (devOk_single _)), pairs_cons]
    rfl

theorem dev_seq_zero (q : Qty) (g : List (Datum × Val)) (h : Clean (.deviate q) g) :
    leafSeq (.deviate q) (fin 0, .dev nan nan) g
      = (totalW g, .dev (specMean (valuesOf q g)) (specVte (valuesOf q g))) := by
  cases g with
  | nil => rfl
  | cons p g =>
    have hL := posL_pairs q h
    have hne : pairs q (p :: g) ≠ [] := by rw [pairs_cons]; exact List.cons_ne_nil _ _
    obtain ⟨d, w⟩ := p
    have hw : w.pos = true := h.pos (List.mem_cons_self ..)
    have hx := h.evalNum (q := q) (fun _ => rfl) (List.mem_cons_self ..)
    obtain ⟨⟨r, hr, hr0⟩, _⟩ := h (d, w) (List.mem_cons_self ..)
    simp only at hr hx
    subst hr
    have hpc : pairs q ((d, fin r) :: g) = (xOf q d, r) :: pairs q g := rfl
    rw [hpc] at hL hne
    have hs := SW_nonneg hL.tail
    have hfill : leafSeq (.deviate q) (fin 0, .dev nan nan) ((d, fin r) :: g)
        = (fin (r + SW (pairs q g)),
            .dev ((fin r * xOf q d + SXW (pairs q g)) / fin (r + SW (pairs q g)))
              (devSeqP r (xOf q d) (single (xOf q d)) (pairs q g)).2.2) := by
      rw [leafSeq_cons, leafStep_dev q _ _ _ d _ _ hx, if_pos hw, devStep_zero hr0,
        dev_seq_pos q g h.tail _ hr0 _ _ (devOk_single _), (devSeqP_mean _ r _ _).1,
        (devSeqP_mean _ r _ _).2, meanSeq_eq _ hL.tail _ hr0]
    rw [hfill, valuesOf_pairs (fun _ => rfl) h, totalW_pairs q h, hpc, specMean_pairs _ hL hne]
    have hmean : SXW ((xOf q d, r) :: pairs q g) / fin (SW ((xOf q d, r) :: pairs q g))
        = (fin r * xOf q d + SXW (pairs q g)) / fin (r + SW (pairs q g)) := by
      simp only [SW, SXW, sumP, Val.mul_comm (xOf q d) (fin r)]
    rw [hmean]
    have hsw : SW ((xOf q d, r) :: pairs q g) = r + SW (pairs q g) := rfl
    rw [hsw]
    congr 2
    cases hf : allFin ((xOf q d, r) :: pairs q g) with
    | false =>
      rw [specVte_nan _ hL hne hf]
      rw [allFin_cons] at hf
      exact devSeqP_nan _ hL.tail r hr0 _ _ (devOk_single _) hf
    | true =>
      rw [specVte_fin _ hL hne hf]
      have hf' := hf
      rw [allFin_cons, Bool.and_eq_true] at hf'
      obtain ⟨a, ha⟩ := (isFin_iff _).1 hf'.1
      simp only at ha
      rw [ha]
      simp only [single, isFin_fin, if_true]
      rw [devSeqP_fin _ hL.tail r hr0 a 0 hf'.2]
      simp only [RX2W, RXW, SW, toRat_fin]
      congr 1
      have : r + SW (pairs q g) ≠ 0 := by linarith
      field_simp
      ring


/-! ### Bag -/

/-- the (key, weight) pairs of a stream, as `specBag` lists them -/
def bagPairs (q : Qty) (r : BagRange) (g : List (Datum × Val)) : List (BKey × Val) :=
  g.filterMap (fun dw => match q.evalBag r dw.1 with | .ok key => some (key, dw.2) | .error _ => none)

theorem bagPairs_cons {q : Qty} {r : BagRange} {p : Datum × Val} {key : BKey}
    (hp : q.evalBag r p.1 = .ok key) (g : List (Datum × Val)) :
    bagPairs q r (p :: g) = (key, p.2) :: bagPairs q r g := by
  unfold bagPairs
  rw [List.filterMap_cons]
  simp only [hp]

theorem bagPairs_inRange (q : Qty) (r : BagRange) (g : List (Datum × Val)) :
    ∀ p ∈ bagPairs q r g, p.1.inRange r = true := by
  intro p hp
  unfold bagPairs at hp
  rw [List.mem_filterMap] at hp
  obtain ⟨dw, _, h⟩ := hp
  cases he : q.evalBag r dw.1 with
  | error f => rw [he] at h; cases h
  | ok key =>
    rw [he] at h
    cases h
    exact evalBag_inRange he

theorem bag_seq (q : Qty) (r : BagRange) (g : List (Datum × Val)) (h : Clean (.bag q r) g) (e : Val)
    (m : List (BKey × Val)) :
    leafSeq (.bag q r) (e, .bag m) g
      = (e + totalW g, .bag ((bagPairs q r g).foldl (fun acc p => bagInsert p.1 p.2 acc) m)) := by
  induction g generalizing e m with
  | nil => simp [leafSeq, totalW, bagPairs, sumVal_nil]
  | cons p g ih =>
    obtain ⟨d, w⟩ := p
    have hw : w.pos = true := h.pos (List.mem_cons_self ..)
    have hx : q.evalBag r d = .ok (kOf q r d) := evalBag_kOf (h (d, w) (List.mem_cons_self ..)).2
    rw [leafSeq_cons, leafStep_bag q r e m d w _ hx, if_pos hw, ih h.tail, totalW_cons,
      bagPairs_cons (p := (d, w)) hx, List.foldl_cons, Val.add_assoc]

/-! ### all seven leaf kinds -/

theorem specExt_eq (better : Val → Val → Bool) (hb : ∀ m, better nan m = false)
    (xs : List (Val × Val)) :
    specExt better xs
      = (xs.map (·.1)).foldl (fun acc x => if acc.isNaN || better x acc then x else acc) .nan := by
  unfold specExt
  rw [← foldl_skip_nan]
  intro m
  cases m <;> simp [isNaN, hb]

/-- the row-wise fills of a leaf from the empty state compute `leafDenote` -/
theorem leaf_fold_eq_denote (k : Kind) (hk : k.isLeaf = true) (g : List (Datum × Val))
    (h : Clean k g) : leafSeq k (fin 0, St.zero k) g = leafDenote k g := by
  cases k <;> simp only [Kind.isLeaf, Bool.false_eq_true] at hk
  · -- Count
    rw [count_seq g (fun p hp => h.pos hp), fin_zero_add]; rfl
  · -- Sum
    rename_i q
    show leafSeq (.sum q) (fin 0, .sum 0) g = _
    rw [sum_seq q g h, fin_zero_add, Val.zero_add]; rfl
  · -- Average
    rename_i q
    exact avg_seq_zero q g h
  · -- Deviate
    rename_i q
    exact dev_seq_zero q g h
  · -- Minimize
    rename_i q
    show leafSeq (.minimize q) (fin 0, .ext nan) g = _
    rw [min_seq q g h, fin_zero_add]
    show _ = (totalW g, St.ext (specExt (fun a b => Val.lt a b) (valuesOf q g)))
    rw [specExt_eq _ (fun m => by cases m <;> rfl)]
  · -- Maximize
    rename_i q
    show leafSeq (.maximize q) (fin 0, .ext nan) g = _
    rw [max_seq q g h, fin_zero_add]
    show _ = (totalW g, St.ext (specExt (fun a b => Val.lt b a) (valuesOf q g)))
    rw [specExt_eq _ (fun m => by cases m <;> rfl)]
  · -- Bag
    rename_i q r
    show leafSeq (.bag q r) (fin 0, .bag []) g = _
    rw [bag_seq q r g h, fin_zero_add, DenBag.bag_fold_eq r _ (bagPairs_inRange q r g)]
    rfl

end Hg.Den
