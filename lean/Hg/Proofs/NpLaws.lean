/-
  Hg.Proofs.NpLaws — the vectorised fill equals the per-row fill (C03).

  CORRECTED STATEMENTS.  As first stated (without `hq`) both theorems are false: `fill.numpy`
  evaluates every quantity of the tree on the whole batch — also on rows of weight 0 and on rows
  that the row-wise `fill` routes to a sibling — so the row-wise run can be fault-free while the
  vectorised call raises (`fillNp_eq_rows_needs_qtysOk`, `fillNp_eq_rows_needs_qtysOk'`).  The
  repair is the executable hypothesis `qtysOk t rows` (Hg/Proofs/NpHyp.lean): every quantity of
  the tree, children and templates included, evaluates on every record of the batch without a
  fault.  Nothing else was changed.
-/
import Hg.Model.Np
import Hg.Model.Spec
import Hg.Proofs.FillLaws
import Hg.Proofs.TreeLaws3
import Hg.Model.NpHyp
import Hg.Proofs.NpTree5
import Hg.Proofs.NpTree6
import Hg.Proofs.NpPres

namespace Hg

/-- counterexample to the statement without `qtysOk`: a row of weight 0 whose quantity raises is
never evaluated row by row, but `fill.numpy` evaluates it -/
theorem fillNp_eq_rows_needs_qtysOk :
    let s : Agg := .node (.sum ⟨0, none, true⟩) 0 (.sum 0) none []
    let rows : List Datum := [[.raises]]
    let ws : List Val := [0]
    rows.length = ws.length ∧ nonNegW ws = true ∧ goodRun s (rows.zip ws) = true ∧ hasTmpl s = true ∧
      noNanForSums s rows = true ∧
      (fillNp s rows ws).map prune ≠ some (prune (fillAll s (rows.zip ws))) := by
  decide +kernel

/-- second counterexample (all weights positive): the `Sum` in bin 0 of a `Bin` reads column 1, which
raises on a record that the row-wise fill routes to bin 1 -/
theorem fillNp_eq_rows_needs_qtysOk' :
    let cnt : Agg := .node .count 0 .unit none []
    let s : Agg := .node (.bin ⟨0, none, true⟩ 2 0 2) 0 .unit none
      [(.under, cnt), (.over, cnt), (.nanflow, cnt),
       (.pos 0, .node (.sum ⟨1, none, true⟩) 0 (.sum 0) none []), (.pos 1, cnt)]
    let rows : List Datum := [[.num (.fin (3/2)), .raises]]
    let ws : List Val := [1]
    rows.length = ws.length ∧ nonNegW ws = true ∧ goodRun s (rows.zip ws) = true ∧ hasTmpl s = true ∧
      noNanForSums s rows = true ∧
      (fillNp s rows ws).map prune ≠ some (prune (fillAll s (rows.zip ws))) := by
  decide +kernel

/-- the same record refutes `fillNp_split` without `qtysOk`: all its other hypotheses hold, but the
first vectorised call raises -/
theorem fillNp_split_needs_qtysOk :
    let s : Agg := .node (.sum ⟨0, none, true⟩) 0 (.sum 0) none []
    let rows1 : List Datum := [[.raises]]
    let ws1 : List Val := [0]
    rows1.length = ws1.length ∧ nonNegW ws1 = true ∧
      goodRun s ((rows1 ++ []).zip (ws1 ++ [])) = true ∧ hasTmpl s = true ∧
      noNanForSums s (rows1 ++ []) = true ∧ fillNp s rows1 ws1 = none := by
  decide +kernel

/-- **Vectorised fill = per-row fill**, up to sparse bins / categories / bag keys of zero weight:
for every live tree in any good state, every batch and every non-negative weight vector, provided
the per-row run is good (no fault, intermediate states good), no NaN reaches a `Sum` (known
finding C03-sum-nan), and every quantity evaluates on every record of the batch (`hq`, the added
hypothesis). -/
theorem fillNp_eq_rows (t : Agg) (rows : List Datum) (ws : List Val)
    (hlen : rows.length = ws.length) (hw : nonNegW ws = true)
    (hrun : goodRun t (rows.zip ws) = true) (ht : hasTmpl t = true) (hs : noNanForSums t rows = true)
    (hq : qtysOk t rows = true) :
    (fillNp t rows ws).map prune = some (prune (fillAll t (rows.zip ws))) := by
  obtain ⟨a', h1, h2⟩ := Np.main_all t rows ws hlen hw hrun ht hs hq
  rw [h1, Option.map_some, h2.prune_eq]

/-- successive `fill.numpy` calls on a split batch equal one call on the whole batch (up to
zero-weight bins) -/
theorem fillNp_split (t : Agg) (rows1 rows2 : List Datum) (ws1 ws2 : List Val)
    (h1 : rows1.length = ws1.length) (h2 : rows2.length = ws2.length)
    (hw1 : nonNegW ws1 = true) (hw2 : nonNegW ws2 = true)
    (hrun : goodRun t ((rows1 ++ rows2).zip (ws1 ++ ws2)) = true) (ht : hasTmpl t = true)
    (hs : noNanForSums t (rows1 ++ rows2) = true) (hq : qtysOk t (rows1 ++ rows2) = true) :
    ∃ a b c, fillNp t rows1 ws1 = some a ∧ fillNp a rows2 ws2 = some b ∧
      fillNp t (rows1 ++ rows2) (ws1 ++ ws2) = some c ∧ prune b = prune c := by
  have hzip : (rows1 ++ rows2).zip (ws1 ++ ws2) = rows1.zip ws1 ++ rows2.zip ws2 := List.zip_append h1
  have hrun' := hrun
  rw [hzip] at hrun'
  obtain ⟨hrun1, hrun2⟩ := (goodRun_append _ _ _).1 hrun'
  obtain ⟨hs1, hs2⟩ := (Np.noNan_append t rows1 rows2).1 hs
  obtain ⟨hq1, hq2⟩ := (Np.qtysOk_append t rows1 rows2).1 hq
  -- the first call: the row-wise state after the first part, up to zero-weight bins
  obtain ⟨a, ha, hZa⟩ := Np.main_all t rows1 ws1 h1 hw1 hrun1 ht hs1 hq1
  -- the call on the whole batch
  have hlen : (rows1 ++ rows2).length = (ws1 ++ ws2).length := by
    rw [List.length_append, List.length_append, h1, h2]
  have hw : nonNegW (ws1 ++ ws2) = true := by
    unfold nonNegW at hw1 hw2 ⊢
    rw [List.all_append, hw1, hw2]; rfl
  obtain ⟨c, hc, hZc⟩ := Np.main_all t (rows1 ++ rows2) (ws1 ++ ws2) hlen hw hrun ht hs hq
  rw [hzip, fillAll_app] at hZc
  -- the second call started from the row-wise state, then transported to `a`
  obtain ⟨b', hb', hZb'⟩ := Np.main_all (fillAll t (rows1.zip ws1)) rows2 ws2 h2 hw2 hrun2
    (hasTmpl_fillAll _ _ ht) (Np.noNan_fillAll t _ rows2 hrun1 hs2) (Np.qtysOk_fillAll t _ rows2 hrun1 hq2)
  obtain ⟨b, hb, hZb⟩ := Np.fillNp_Zrel hZa rows2 ws2 b' hb'
  exact ⟨a, b, c, ha, hb, hc, by rw [hZb.prune_eq, hZb'.prune_eq, hZc.prune_eq]⟩

/-- the negative witness behind known finding C03-sum-nan: on `[1, NaN, 2]` the vectorised `Sum`
gives 3 where the row-wise fill gives NaN -/
theorem sum_nan_np_differs :
    let s : Agg := .node (.sum ⟨0, none, true⟩) 0 (.sum 0) none []
    let rows : List Datum := [[.num (.fin 1)], [.num .nan], [.num (.fin 2)]]
    (fillNp s rows [1, 1, 1]).map prune ≠ some (prune (fillAll s (rows.zip [1, 1, 1]))) := by
  decide +kernel

end Hg
