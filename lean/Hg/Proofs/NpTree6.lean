/-
  Hg.Proofs.NpTree6 — the vectorised fill respects "equal up to zero-weight bins": from
  `Zrel a r` and `fillNp r rows ws = some r'` follows `fillNp a rows ws = some a'` with
  `Zrel a' r'`.
-/
import Hg.Proofs.NpTree5

namespace Hg.Np

/-! ### inversion of the vectorised helpers -/

theorem fillNpKids_inv {k : Kind} {keys : List Key} {rows : List Datum} {ws : List Val} :
    ∀ (l lV : List (Key × Agg)), fillNpKids l k keys rows ws = some lV →
      keysOf lV = keysOf l ∧
      ∀ key a, lookupK key l = some a →
        ∃ m a', maskFor k keys key rows ws = .ok m ∧ fillNp a rows m = some a' ∧
          lookupK key lV = some a'
  | [], lV, h => by
    rw [fillNpKids] at h; cases h
    exact ⟨rfl, fun key a h => by cases h⟩
  | (k1, a1) :: rest, lV, h => by
    rw [fillNpKids] at h
    cases hm : maskFor k keys k1 rows ws with
    | error f => rw [hm] at h; cases h
    | ok m =>
      rw [hm] at h
      simp only at h
      cases ha : fillNp a1 rows m with
      | none => rw [ha] at h; cases h
      | some a' =>
        cases hr : fillNpKids rest k keys rows ws with
        | none => rw [ha, hr] at h; cases h
        | some rest' =>
          rw [ha, hr] at h
          simp only at h
          cases h
          obtain ⟨ihk, ihl⟩ := fillNpKids_inv rest rest' hr
          refine ⟨by rw [P3.keysOf_cons, P3.keysOf_cons, ihk], ?_⟩
          intro key a hka
          rw [P3.lookupK_cons] at hka ⊢
          by_cases hkk : k1 = key
          · rw [if_pos hkk] at hka ⊢
            cases hka; subst hkk
            exact ⟨m, a', hm, ha, rfl⟩
          · rw [if_neg hkk] at hka ⊢
            exact ihl key a hka

theorem fillNpSparse_inv {k : Kind} {keys touched : List Key} {rows : List Datum} {ws : List Val} :
    ∀ (l lV : List (Key × Agg)), fillNpSparse l k keys touched rows ws = some lV →
      keysOf lV = keysOf l ∧
      ∀ key a, lookupK key l = some a →
        ((key = .nanflow ∨ key ∈ touched) →
          ∃ m a', maskFor k keys key rows ws = .ok m ∧ fillNp a rows m = some a' ∧
            lookupK key lV = some a') ∧
        (¬ (key = .nanflow ∨ key ∈ touched) → lookupK key lV = some a)
  | [], lV, h => by
    rw [fillNpSparse] at h; cases h
    exact ⟨rfl, fun key a h => by cases h⟩
  | (k1, a1) :: rest, lV, h => by
    rw [fillNpSparse] at h
    by_cases hc : k1 = .nanflow ∨ k1 ∈ touched
    · have hc' : (decide (k1 = Key.nanflow) || touched.contains k1) = true := by simpa using hc
      rw [if_pos hc'] at h
      cases hm : maskFor k keys k1 rows ws with
      | error f => rw [hm] at h; cases h
      | ok m =>
        rw [hm] at h
        simp only at h
        cases ha : fillNp a1 rows m with
        | none => rw [ha] at h; cases h
        | some a' =>
          cases hr : fillNpSparse rest k keys touched rows ws with
          | none => rw [ha, hr] at h; cases h
          | some rest' =>
            rw [ha, hr] at h
            simp only at h
            cases h
            obtain ⟨ihk, ihl⟩ := fillNpSparse_inv rest rest' hr
            refine ⟨by rw [P3.keysOf_cons, P3.keysOf_cons, ihk], ?_⟩
            intro key a hka
            rw [P3.lookupK_cons] at hka
            rw [P3.lookupK_cons]
            by_cases hkk : k1 = key
            · rw [if_pos hkk] at hka ⊢
              cases hka; subst hkk
              exact ⟨fun _ => ⟨m, a', hm, ha, rfl⟩, fun hn => absurd hc hn⟩
            · rw [if_neg hkk] at hka ⊢
              exact ihl key a hka
    · have hc' : ¬ (decide (k1 = Key.nanflow) || touched.contains k1) = true := by simpa using hc
      rw [if_neg hc'] at h
      cases hr : fillNpSparse rest k keys touched rows ws with
      | none => rw [hr] at h; cases h
      | some rest' =>
        rw [hr] at h
        simp only at h
        cases h
        obtain ⟨ihk, ihl⟩ := fillNpSparse_inv rest rest' hr
        refine ⟨by rw [P3.keysOf_cons, P3.keysOf_cons, ihk], ?_⟩
        intro key a hka
        rw [P3.lookupK_cons] at hka
        rw [P3.lookupK_cons]
        by_cases hkk : k1 = key
        · rw [if_pos hkk] at hka ⊢
          cases hka; subst hkk
          exact ⟨fun hy => absurd hy hc, fun _ => rfl⟩
        · rw [if_neg hkk] at hka ⊢
          exact ihl key a hka

theorem fillNpNew_some_inv {t : Agg} {k : Kind} {keys : List Key} {rows : List Datum} {ws : List Val} :
    ∀ (newKeys : List Key) (created : List (Key × Agg)),
      fillNpNew (some t) k keys newKeys rows ws = some created →
      keysOf created = newKeys ∧
      ∀ key ∈ newKeys, ∃ m b, maskFor k keys key rows ws = .ok m ∧ fillNp t rows m = some b ∧
        lookupK key created = some b
  | [], created, h => by
    rw [fillNpNew] at h
    cases h
    exact ⟨rfl, fun key hk => by cases hk⟩
  | k1 :: rest, created, h => by
    rw [fillNpNew, List.mapM_cons] at h
    cases hr : fillNpNew (some t) k keys rest rows ws with
    | none =>
      have hr' := hr
      rw [fillNpNew] at hr'
      rw [hr'] at h
      cases hm : maskFor k keys k1 rows ws with
      | error f => simp [hm] at h
      | ok m =>
        cases hb : fillNp t rows m with
        | none => simp [hm, hb] at h
        | some b => simp [hm, hb] at h
    | some rest' =>
      have hr' := hr
      rw [fillNpNew] at hr'
      rw [hr'] at h
      cases hm : maskFor k keys k1 rows ws with
      | error f => simp [hm] at h
      | ok m =>
        cases hb : fillNp t rows m with
        | none => simp [hm, hb] at h
        | some b =>
          simp only [hm, hb, Option.map, bind, Option.bind, pure] at h
          cases h
          obtain ⟨ihk, ihl⟩ := fillNpNew_some_inv rest rest' hr
          refine ⟨by rw [P3.keysOf_cons, ihk], ?_⟩
          intro key hkey
          rw [P3.lookupK_cons]
          by_cases hkk : k1 = key
          · subst hkk
            rw [if_pos rfl]
            exact ⟨m, b, hm, hb, rfl⟩
          · rw [if_neg hkk]
            rcases List.mem_cons.1 hkey with rfl | hkey
            · exact absurd rfl hkk
            · exact ihl key hkey

/-- inversion of `fillNpNew` for an arbitrary (possibly absent) template -/
theorem fillNpNew_inv {tm : Option Agg} {k : Kind} {keys : List Key} {rows : List Datum} {ws : List Val}
    (newKeys : List Key) (created : List (Key × Agg))
    (h : fillNpNew tm k keys newKeys rows ws = some created) :
    keysOf created = newKeys ∧
    ∀ key ∈ newKeys, ∃ t m b, tm = some t ∧ maskFor k keys key rows ws = .ok m ∧
      fillNp t rows m = some b ∧ lookupK key created = some b := by
  cases tm with
  | none =>
    rw [fillNpNew] at h
    cases newKeys with
    | nil =>
      simp only [List.isEmpty_nil, if_true] at h
      cases h
      exact ⟨rfl, fun key hk => by cases hk⟩
    | cons k1 r => simp at h
  | some t =>
    obtain ⟨h1, h2⟩ := fillNpNew_some_inv newKeys created h
    refine ⟨h1, fun key hk => ?_⟩
    obtain ⟨m, b, hm, hb, hl⟩ := h2 key hk
    exact ⟨t, m, b, rfl, hm, hb, hl⟩

/-- `fillNpNew` succeeds as soon as every new key has a template fill -/
theorem fillNpNew_spec' {tm : Option Agg} {k : Kind} {keys : List Key} {rows : List Datum} {ws : List Val}
    (Q : Key → Agg → Prop) (newKeys : List Key)
    (h : ∀ key ∈ newKeys, ∃ t m b, tm = some t ∧ maskFor k keys key rows ws = .ok m ∧
      fillNp t rows m = some b ∧ Q key b) :
    ∃ created, fillNpNew tm k keys newKeys rows ws = some created ∧ keysOf created = newKeys ∧
      ∀ p ∈ created, Q p.1 p.2 := by
  cases tm with
  | none =>
    cases newKeys with
    | nil => exact ⟨[], by rw [fillNpNew]; rfl, rfl, fun p hp => by cases hp⟩
    | cons k1 r =>
      obtain ⟨t, _, _, ht, _⟩ := h k1 (List.mem_cons_self ..)
      cases ht
  | some t =>
    apply fillNpNew_spec Q newKeys
    intro key hk
    obtain ⟨t', m, b, ht, hm, hb, hq⟩ := h key hk
    cases ht
    exact ⟨m, b, hm, hb, hq⟩

/-! ### `batchKeys`: what is always true of the result -/

theorem bkStep_inv {k : Kind} (hs : k.isSparse = true) {keys : List Key} {acc acc' : List Key}
    {p : Datum × Val} (h : bkStep k keys acc p = .ok acc') (hn : acc.Nodup) :
    acc'.Nodup ∧ ∀ key ∈ acc', key ∈ acc ∨ (key ≠ .nanflow ∧ Key.inCls k.cls key = true) := by
  cases hr : route k keys p.1 (if p.2.pos = true then p.2 else 1) with
  | error f =>
    unfold bkStep at h
    rw [hr] at h; cases h
  | ok tg =>
    obtain ⟨key0, rfl, hcls⟩ := P3.route_sparse hs hr
    have hr2 : route k keys p.1 p.2 = .ok [(key0, p.2)] := route_sparse_weight hs hr
    rw [bkStep_eq hs hr2] at h
    injection h with h
    subst h
    split
    · next hc =>
      simp only [Bool.and_eq_true, Bool.not_eq_true', List.contains_eq_mem, decide_eq_false_iff_not,
        bne_iff_ne, ne_eq] at hc
      constructor
      · rw [List.nodup_append]
        refine ⟨hn, by simp, ?_⟩
        intro a ha b hb
        rw [List.mem_singleton] at hb
        subst hb
        intro e; subst e
        exact hc.2 ha
      · intro key hkey
        rw [List.mem_append, List.mem_singleton] at hkey
        rcases hkey with h | rfl
        · exact Or.inl h
        · exact Or.inr ⟨hc.1.2, hcls⟩
    · exact ⟨hn, fun key hkey => Or.inl hkey⟩

theorem batchKeys_inv {k : Kind} (hs : k.isSparse = true) {keys : List Key} :
    ∀ (S : List (Datum × Val)) (acc touched : List Key), S.foldlM (bkStep k keys) acc = .ok touched →
      acc.Nodup →
      touched.Nodup ∧ ∀ key ∈ touched, key ∈ acc ∨ (key ≠ .nanflow ∧ Key.inCls k.cls key = true)
  | [], acc, touched, h, hn => by
    cases h
    exact ⟨hn, fun key hk => Or.inl hk⟩
  | p :: S, acc, touched, h, hn => by
    rw [List.foldlM_cons] at h
    cases hst : bkStep k keys acc p with
    | error f => rw [hst] at h; cases h
    | ok acc' =>
      rw [hst] at h
      simp only [bind, Except.bind] at h
      obtain ⟨hn', hm'⟩ := bkStep_inv hs hst hn
      obtain ⟨h1, h2⟩ := batchKeys_inv hs S acc' touched h hn'
      refine ⟨h1, fun key hkey => ?_⟩
      rcases h2 key hkey with h | h
      · exact hm' key h
      · exact Or.inr h

theorem bkStep_keys {k : Kind} (hs : k.isSparse = true) (keys keys' : List Key) :
    bkStep k keys = bkStep k keys' := by
  funext acc p
  unfold bkStep
  rw [P3.route_sparse_keys hs keys keys']

theorem maskFor_keys {k : Kind} (hs : k.isSparse = true) (keys keys' : List Key) (key : Key)
    (rows : List Datum) (ws : List Val) :
    maskFor k keys key rows ws = maskFor k keys' key rows ws := by
  unfold maskFor
  congr 1
  funext p
  rw [P3.route_sparse_keys hs keys keys']

/-! ### the congruence -/

/-- **the vectorised fill respects "equal up to zero-weight bins"** -/
theorem fillNp_Zrel {a r : Agg} (h : Zrel a r) :
    ∀ (rows : List Datum) (ws : List Val) (r' : Agg), fillNp r rows ws = some r' →
      ∃ a', fillNp a rows ws = some a' ∧ Zrel a' r' := by
  induction h with
  | refl a => exact fun rows ws r' hr => ⟨r', hr, Zrel.refl _⟩
  | fixed k e st tm kidsA kidsR hk hkeys hnd hZ ih =>
    intro rows ws r' hr
    by_cases hl : k.isLeaf = true
    · rw [fillNp_leaf hl] at hr ⊢
      cases hleaf : leafNp k e st rows ws with
      | error f => rw [hleaf] at hr; cases hr
      | ok es =>
        obtain ⟨e', st'⟩ := es
        rw [hleaf] at hr
        simp only at hr ⊢
        cases hr
        exact ⟨_, rfl, Zrel.fixed k e' st' tm kidsA kidsR hk hkeys hnd hZ⟩
    · have hl' : k.isLeaf = false := by simpa using hl
      rw [fillNp_fixed hl' hk] at hr ⊢
      cases hR : fillNpKids kidsR k (keysOf kidsR) rows ws with
      | none => rw [hR] at hr; cases hr
      | some kidsR' =>
        rw [hR] at hr
        simp only at hr
        cases hr
        obtain ⟨hkR', hinvR⟩ := fillNpKids_inv kidsR kidsR' hR
        obtain ⟨lV, hlV, hkV, hlookV⟩ := fillNpKids_spec (k := k) (keys := keysOf kidsA) (rows := rows)
          (ws := ws) (fun key _ a' => ∀ y', lookupK key kidsR' = some y' → Zrel a' y') kidsA
          (by
            intro p hp
            have hpl := lookupK_of_mem_nodup hnd hp
            have hmem : p.1 ∈ keysOf kidsR := by rw [← hkeys]; exact P3.mem_keysOf hp
            obtain ⟨y, hy⟩ := lookupK_some_of_mem_keys hmem
            obtain ⟨m, y', hm, hfy, hly'⟩ := hinvR p.1 y hy
            obtain ⟨a', ha', hZ'⟩ := ih p.1 p.2 y hpl hy rows m y' hfy
            refine ⟨m, a', by rw [hkeys]; exact hm, ha', ?_⟩
            intro y'' hy''
            rw [hly'] at hy''; cases hy''
            exact hZ')
        refine ⟨.node k (e + sumW ws) st tm lV, by rw [hlV], ?_⟩
        apply Zrel.fixed k (e + sumW ws) st tm lV kidsR' hk (by rw [hkV, hkeys, hkR'])
          (by rw [hkV]; exact hnd)
        intro key x y hx hy
        have hmem : key ∈ keysOf kidsA := by rw [← hkV]; exact mem_keys_of_lookupK hx
        obtain ⟨a0, ha0⟩ := lookupK_some_of_mem_keys hmem
        obtain ⟨a', ha', hQ⟩ := hlookV key a0 ha0
        rw [hx] at ha'; cases ha'
        exact hQ y hy
  | sparse k e st tm kidsA kidsR hk hsA hsR hZ hZt hextra hnone ih iht =>
    intro rows ws r' hr
    have hl' : k.isLeaf = false := P3.Kind.not_leaf_of_sparse hk
    rw [fillNp_sparse hl' hk] at hr ⊢
    rw [batchKeys_eq] at hr ⊢
    rw [bkStep_keys hk (keysOf kidsA) (keysOf kidsR)]
    cases hbk : List.foldlM (bkStep k (keysOf kidsR)) [] (rows.zip ws) with
    | error f => rw [hbk] at hr; cases hr
    | ok touched =>
      rw [hbk] at hr
      simp only at hr ⊢
      cases hR1 : fillNpSparse kidsR k (keysOf kidsR) touched rows ws with
      | none => rw [hR1] at hr; cases hr
      | some kidsR'' =>
        rw [hR1] at hr
        simp only at hr
        cases hR2 : fillNpNew tm k (keysOf kidsR) (touched.filter (fun key => !(hasKey key kidsR))) rows ws with
        | none => rw [hR2] at hr; cases hr
        | some createdR =>
          rw [hR2] at hr
          simp only at hr
          cases hr
          -- facts about the reference side
          obtain ⟨htn, htcls⟩ := batchKeys_inv hk (rows.zip ws) [] touched hbk List.nodup_nil
          have htcls' : ∀ key ∈ touched, key ≠ .nanflow ∧ Key.inCls k.cls key = true := by
            intro key hkey
            rcases htcls key hkey with h | h
            · cases h
            · exact h
          obtain ⟨hkR'', hinvR1⟩ := fillNpSparse_inv kidsR kidsR'' hR1
          obtain ⟨hkcR, hinvR2⟩ := fillNpNew_inv _ createdR hR2
          have nkR_iff : ∀ key, key ∈ touched.filter (fun key => !(hasKey key kidsR)) ↔
              key ∈ touched ∧ lookupK key kidsR = none := by
            intro key
            rw [List.mem_filter]
            constructor
            · rintro ⟨h1, h2⟩
              exact ⟨h1, hasKey_false_lookup (by simpa using h2)⟩
            · rintro ⟨h1, h2⟩
              refine ⟨h1, ?_⟩
              have : hasKey key kidsR = false := by unfold hasKey; rw [h2]; rfl
              simp [this]
          have nkA_iff : ∀ key, key ∈ touched.filter (fun key => !(hasKey key kidsA)) ↔
              key ∈ touched ∧ lookupK key kidsA = none := by
            intro key
            rw [List.mem_filter]
            constructor
            · rintro ⟨h1, h2⟩
              exact ⟨h1, hasKey_false_lookup (by simpa using h2)⟩
            · rintro ⟨h1, h2⟩
              refine ⟨h1, ?_⟩
              have : hasKey key kidsA = false := by unfold hasKey; rw [h2]; rfl
              simp [this]
          -- existing children of the left side
          obtain ⟨lVA, hlVA, hkVA, hlookA⟩ := fillNpSparse_spec (k := k) (keys := keysOf kidsA)
            (touched := touched) (rows := rows) (ws := ws)
            (fun key _ a' =>
              (∀ y y', lookupK key kidsR = some y → lookupK key kidsR'' = some y' → Zrel a' y') ∧
              (lookupK key kidsR = none → ∀ b, lookupK key createdR = some b → Zrel a' b)) kidsA
            (by
              intro p hp hc
              have hpl := P3.lookupK_of_mem hsA hp
              cases hy : lookupK p.1 kidsR with
              | some y =>
                obtain ⟨m, y', hm, hfy, hly'⟩ := (hinvR1 p.1 y hy).1 hc
                obtain ⟨a', ha', hZ'⟩ := ih p.1 p.2 y hpl hy rows m y' hfy
                refine ⟨m, a', by rw [maskFor_keys hk _ (keysOf kidsR)]; exact hm, ha', ?_, ?_⟩
                · intro y0 y0' h1 h2
                  rw [hly'] at h2; cases h2
                  exact hZ'
                · intro hcon; cases hcon
              | none =>
                obtain ⟨hne, _, _⟩ := hextra p.1 p.2 hpl hy
                have hto : p.1 ∈ touched := by
                  rcases hc with h | h
                  · exact absurd h hne
                  · exact h
                obtain ⟨t, m, b, htm, hm, hb, hlb⟩ := hinvR2 p.1 ((nkR_iff p.1).2 ⟨hto, hy⟩)
                obtain ⟨a', ha', hZ'⟩ := iht p.1 p.2 t hpl hy htm rows m b hb
                refine ⟨m, a', by rw [maskFor_keys hk _ (keysOf kidsR)]; exact hm, ha', ?_, ?_⟩
                · intro y0 y0' h1 _; cases h1
                · intro _ b' hb'
                  rw [hlb] at hb'; cases hb'
                  exact hZ')
          -- new bins of the left side
          obtain ⟨createdA, hcrA, hkcA, hQA⟩ := fillNpNew_spec' (tm := tm) (k := k) (keys := keysOf kidsA)
            (rows := rows) (ws := ws) (fun key b => lookupK key createdR = some b)
            (touched.filter (fun key => !(hasKey key kidsA)))
            (by
              intro key hkey
              obtain ⟨hto, hnA⟩ := (nkA_iff key).1 hkey
              obtain ⟨t, m, b, htm, hm, hb, hlb⟩ := hinvR2 key ((nkR_iff key).2 ⟨hto, hnone key hnA⟩)
              exact ⟨t, m, b, htm, by rw [maskFor_keys hk _ (keysOf kidsR)]; exact hm, hb, hlb⟩)
          -- the two final child lists
          have hSLVA : P3.SL k.cls lVA := P3.SL_of_keys hkVA hsA
          have hSLR'' : P3.SL k.cls kidsR'' := P3.SL_of_keys hkR'' hsR
          obtain ⟨hSLfinA, hlookfinA⟩ := foldl_insertK_spec createdA lVA hSLVA
            (by rw [hkcA]; exact htn.filter _)
            (by
              intro key hkey
              rw [hkcA] at hkey
              obtain ⟨hto, hnA⟩ := (nkA_iff key).1 hkey
              refine ⟨?_, (htcls' key hto).2⟩
              rw [lookupK_none_iff, hkVA, ← lookupK_none_iff]; exact hnA)
          obtain ⟨hSLfinR, hlookfinR⟩ := foldl_insertK_spec createdR kidsR'' hSLR''
            (by rw [hkcR]; exact htn.filter _)
            (by
              intro key hkey
              rw [hkcR] at hkey
              obtain ⟨hto, hnR⟩ := (nkR_iff key).1 hkey
              refine ⟨?_, (htcls' key hto).2⟩
              rw [lookupK_none_iff, hkR'', ← lookupK_none_iff]; exact hnR)
          refine ⟨.node k (e + sumW ws) st tm (createdA.foldl (fun acc p => insertK p.1 p.2 acc) lVA), ?_, ?_⟩
          · simp only [hlVA, hcrA]
          · -- lookups in the created lists
            have cA_none : ∀ key, ¬ (key ∈ touched ∧ lookupK key kidsA = none) →
                lookupK key createdA = none := by
              intro key hcon
              rw [lookupK_none_iff, hkcA]
              exact fun hm => hcon ((nkA_iff key).1 hm)
            have cR_none : ∀ key, ¬ (key ∈ touched ∧ lookupK key kidsR = none) →
                lookupK key createdR = none := by
              intro key hcon
              rw [lookupK_none_iff, hkcR]
              exact fun hm => hcon ((nkR_iff key).1 hm)
            have cA_some : ∀ key, key ∈ touched → lookupK key kidsA = none →
                ∃ b, lookupK key createdA = some b ∧ lookupK key createdR = some b := by
              intro key h1 h2
              have hmem : key ∈ keysOf createdA := by rw [hkcA]; exact (nkA_iff key).2 ⟨h1, h2⟩
              obtain ⟨b, hb⟩ := lookupK_some_of_mem_keys hmem
              exact ⟨b, hb, hQA _ (P3.lookupK_mem hb)⟩
            have cR_some : ∀ key, key ∈ touched → lookupK key kidsR = none →
                ∃ b, lookupK key createdR = some b := by
              intro key h1 h2
              obtain ⟨t, m, b, _, _, _, hlb⟩ := hinvR2 key ((nkR_iff key).2 ⟨h1, h2⟩)
              exact ⟨b, hlb⟩
            have lVA_none : ∀ key, lookupK key kidsA = none → lookupK key lVA = none := by
              intro key hn
              rw [lookupK_none_iff, hkVA, ← lookupK_none_iff]; exact hn
            have R''_none : ∀ key, lookupK key kidsR = none → lookupK key kidsR'' = none := by
              intro key hn
              rw [lookupK_none_iff, hkR'', ← lookupK_none_iff]; exact hn
            -- the final lookups, by the situation of the key
            -- (1) key absent from `kidsA` (hence from `kidsR`)
            have finA_absent : ∀ key, lookupK key kidsA = none → key ∉ touched →
                lookupK key (createdA.foldl (fun acc p => insertK p.1 p.2 acc) lVA) = none := by
              intro key hn hnt
              rw [hlookfinA key, cA_none key (fun hcon => hnt hcon.1)]
              exact lVA_none key hn
            have finR_absent : ∀ key, lookupK key kidsR = none → key ∉ touched →
                lookupK key (createdR.foldl (fun acc p => insertK p.1 p.2 acc) kidsR'') = none := by
              intro key hn hnt
              rw [hlookfinR key, cR_none key (fun hcon => hnt hcon.1)]
              exact R''_none key hn
            have finR_new : ∀ key, lookupK key kidsR = none → key ∈ touched →
                ∃ b, lookupK key createdR = some b ∧
                  lookupK key (createdR.foldl (fun acc p => insertK p.1 p.2 acc) kidsR'') = some b := by
              intro key hn ht'
              obtain ⟨b, hb⟩ := cR_some key ht' hn
              exact ⟨b, hb, by rw [hlookfinR key, hb]⟩
            have finA_new : ∀ key, lookupK key kidsA = none → key ∈ touched →
                ∃ b, lookupK key createdR = some b ∧
                  lookupK key (createdA.foldl (fun acc p => insertK p.1 p.2 acc) lVA) = some b := by
              intro key hn ht'
              obtain ⟨b, hb, hb'⟩ := cA_some key ht' hn
              exact ⟨b, hb', by rw [hlookfinA key, hb]⟩
            have finA_old : ∀ key x, lookupK key kidsA = some x →
                lookupK key (createdA.foldl (fun acc p => insertK p.1 p.2 acc) lVA) = lookupK key lVA := by
              intro key x hx
              rw [hlookfinA key, cA_none key (fun hcon => by rw [hcon.2] at hx; cases hx)]
            have finR_old : ∀ key y, lookupK key kidsR = some y →
                lookupK key (createdR.foldl (fun acc p => insertK p.1 p.2 acc) kidsR'') = lookupK key kidsR'' := by
              intro key y hy
              rw [hlookfinR key, cR_none key (fun hcon => by rw [hcon.2] at hy; cases hy)]
            apply Zrel.sparse k (e + sumW ws) st tm _ _ hk hSLfinA hSLfinR
            · -- both present
              intro key x' y' hx hy
              cases hA : lookupK key kidsA with
              | none =>
                have hRn := hnone key hA
                by_cases ht' : key ∈ touched
                · obtain ⟨b, hb, hfa⟩ := finA_new key hA ht'
                  obtain ⟨b', hb', hfr⟩ := finR_new key hRn ht'
                  rw [hb] at hb'; cases hb'
                  rw [hx] at hfa; cases hfa
                  rw [hy] at hfr; cases hfr
                  exact Zrel.refl _
                · rw [finA_absent key hA ht'] at hx; cases hx
              | some x =>
                rw [finA_old key x hA] at hx
                obtain ⟨h1, h2⟩ := hlookA key x hA
                cases hRk : lookupK key kidsR with
                | some y =>
                  rw [finR_old key y hRk] at hy
                  obtain ⟨g1, g2⟩ := hinvR1 key y hRk
                  by_cases hc : key = .nanflow ∨ key ∈ touched
                  · obtain ⟨a', ha', hQ⟩ := h1 hc
                    obtain ⟨m, y'', _, _, hy''⟩ := g1 hc
                    rw [hx] at ha'; cases ha'
                    rw [hy] at hy''; cases hy''
                    exact hQ.1 y y' hRk hy
                  · rw [h2 hc] at hx; cases hx
                    rw [g2 hc] at hy; cases hy
                    exact hZ key _ _ hA hRk
                | none =>
                  obtain ⟨hne, _, _⟩ := hextra key x hA hRk
                  by_cases ht' : key ∈ touched
                  · obtain ⟨a', ha', hQ⟩ := h1 (Or.inr ht')
                    rw [hx] at ha'; cases ha'
                    obtain ⟨b, hb, hfr⟩ := finR_new key hRk ht'
                    rw [hy] at hfr; cases hfr
                    exact hQ.2 hRk y' hb
                  · rw [finR_absent key hRk ht'] at hy; cases hy
            · -- in excess: the template plus zero-weight bins
              intro key x' t hx hy htm
              cases hA : lookupK key kidsA with
              | none =>
                have hRn := hnone key hA
                by_cases ht' : key ∈ touched
                · obtain ⟨b', _, hfr⟩ := finR_new key hRn ht'
                  rw [hy] at hfr; cases hfr
                · rw [finA_absent key hA ht'] at hx; cases hx
              | some x =>
                rw [finA_old key x hA] at hx
                obtain ⟨h1, h2⟩ := hlookA key x hA
                cases hRk : lookupK key kidsR with
                | some y =>
                  rw [finR_old key y hRk] at hy
                  obtain ⟨g1, g2⟩ := hinvR1 key y hRk
                  by_cases hc : key = .nanflow ∨ key ∈ touched
                  · obtain ⟨m, y'', _, _, hy''⟩ := g1 hc
                    rw [hy] at hy''; cases hy''
                  · rw [g2 hc] at hy; cases hy
                | none =>
                  obtain ⟨hne, _, _⟩ := hextra key x hA hRk
                  by_cases ht' : key ∈ touched
                  · obtain ⟨b', _, hfr⟩ := finR_new key hRk ht'
                    rw [hy] at hfr; cases hfr
                  · have hc : ¬ (key = .nanflow ∨ key ∈ touched) := by
                      rintro (h | h)
                      · exact hne h
                      · exact ht' h
                    rw [h2 hc] at hx; cases hx
                    exact hZt key x' t hA hRk htm
            · -- in excess: zero entries
              intro key x' hx hy
              cases hA : lookupK key kidsA with
              | none =>
                have hRn := hnone key hA
                by_cases ht' : key ∈ touched
                · obtain ⟨b', _, hfr⟩ := finR_new key hRn ht'
                  rw [hy] at hfr; cases hfr
                · rw [finA_absent key hA ht'] at hx; cases hx
              | some x =>
                rw [finA_old key x hA] at hx
                obtain ⟨h1, h2⟩ := hlookA key x hA
                cases hRk : lookupK key kidsR with
                | some y =>
                  rw [finR_old key y hRk] at hy
                  obtain ⟨g1, g2⟩ := hinvR1 key y hRk
                  by_cases hc : key = .nanflow ∨ key ∈ touched
                  · obtain ⟨m, y'', _, _, hy''⟩ := g1 hc
                    rw [hy] at hy''; cases hy''
                  · rw [g2 hc] at hy; cases hy
                | none =>
                  obtain ⟨hne, hz, hts⟩ := hextra key x hA hRk
                  by_cases ht' : key ∈ touched
                  · obtain ⟨b', _, hfr⟩ := finR_new key hRk ht'
                    rw [hy] at hfr; cases hfr
                  · have hc : ¬ (key = .nanflow ∨ key ∈ touched) := by
                      rintro (h | h)
                      · exact hne h
                      · exact ht' h
                    rw [h2 hc] at hx; cases hx
                    exact ⟨hne, hz, hts⟩
            · -- absent on the left
              intro key hx
              cases hA : lookupK key kidsA with
              | none =>
                have hRn := hnone key hA
                by_cases ht' : key ∈ touched
                · obtain ⟨b, _, hfa⟩ := finA_new key hA ht'
                  rw [hx] at hfa; cases hfa
                · exact finR_absent key hRn ht'
              | some x =>
                rw [finA_old key x hA] at hx
                obtain ⟨h1, h2⟩ := hlookA key x hA
                by_cases hc : key = .nanflow ∨ key ∈ touched
                · obtain ⟨a', ha', _⟩ := h1 hc
                  rw [hx] at ha'; cases ha'
                · rw [h2 hc] at hx; cases hx

end Hg.Np
