import Hg.Proofs.TreeLaws1
import Hg.Proofs.TreeFacts

/- Everything except the three final theorems (`Hg.add_comm'`, `Hg.add_assoc'`, `Hg.fill_add_hom`)
   lives in `Hg.P3` (see Hg.Proofs.SortedKids). -/
namespace Hg.P3

/-! ### thin wrappers around the TreeLaws1 lemmas

Every use of TreeLaws1 in this file goes through these wrappers, which take `hasTmpl` hypotheses
uniformly right after the `good` hypotheses.  (`sameBase_symm` / `sameBase_trans` of TreeLaws1 do
not need them; `compat_of_sameBase` / `good_addRaw` do — see
Hg/Proofs/TreeLaws2Counterexamples.lean.) -/

theorem sb_symm (a b : Agg) (ha : good a = true) (hb : good b = true)
    (hta : hasTmpl a = true) (htb : hasTmpl b = true)
    (h : sameBase a b = true) : sameBase b a = true := by
  have _ := hta; have _ := htb
  exact sameBase_symm a b ha hb h

theorem sb_trans (a b c : Agg) (ha : good a = true) (hb : good b = true) (hc : good c = true)
    (hta : hasTmpl a = true) (htb : hasTmpl b = true) (htc : hasTmpl c = true)
    (h1 : sameBase a b = true) (h2 : sameBase b c = true) : sameBase a c = true := by
  have _ := hta; have _ := htb; have _ := htc
  exact sameBase_trans a b c ha hb hc h1 h2

theorem cp_of_sb (a b : Agg) (ha : good a = true) (hb : good b = true)
    (hta : hasTmpl a = true) (htb : hasTmpl b = true)
    (h : sameBase a b = true) : compat a b = true := by
  exact compat_of_sameBase a b ha hb hta htb h

theorem gd_addRaw (a b : Agg) (ha : good a = true) (hb : good b = true)
    (hta : hasTmpl a = true) (htb : hasTmpl b = true) (h : sameBase a b = true) :
    good (addRaw a b) = true ∧ sameBase a (addRaw a b) = true := by
  exact good_addRaw a b ha hb hta htb h

/-! ### children that two mergeable sparse nodes share -/

theorem shared_kids {k : Kind} {e1 : Val} {s1 : St} {t : Option Agg} {kids1 : List (Key × Agg)}
    {e2 : Val} {s2 : St} {kids2 : List (Key × Agg)}
    (ha : good (.node k e1 s1 t kids1) = true) (hb : good (.node k e2 s2 t kids2) = true)
    (hta : hasTmpl (.node k e1 s1 t kids1) = true) (htb : hasTmpl (.node k e2 s2 t kids2) = true)
    (h : sameBase (.node k e1 s1 t kids1) (.node k e2 s2 t kids2) = true) (hs : k.isSparse = true)
    {j : Key} {x y : Agg} (hx : lookupK j kids1 = some x) (hy : lookupK j kids2 = some y) :
    sameBase x y = true := by
  have ga := good_node ha
  have gb := good_node hb
  have ta := hasTmpl_node hta
  have tb := hasTmpl_node htb
  have sb := sameBase_node h
  have mx := lookupK_mem hx
  have my := lookupK_mem hy
  by_cases hj : j = .nanflow
  · obtain ⟨b, hb1, hb2⟩ := sb.flow hs _ mx hj
    rw [hj] at hy
    rw [hy] at hb1
    cases hb1
    exact hb2
  · obtain ⟨t', rfl⟩ := ta.hsome hs
    have h1 := sb.bins1 hs t' rfl _ mx hj
    have h2 := sb.bins2 hs t' rfl _ my hj
    have gt := (ga.gtmpl t' rfl).1
    have tt := (ta.htmpl t' rfl).1
    have gx := ga.gkids _ mx
    have gy := gb.gkids _ my
    have tx := ta.hkids _ mx
    have ty := tb.hkids _ my
    exact sb_trans x t' y gx gt gy tx tt ty (sb_symm t' x gt gx tt tx h1) h2

/-! ### merge is commutative -/

def CommP (a : Agg) : Prop :=
  ∀ b, good a = true → good b = true → hasTmpl a = true → hasTmpl b = true →
    sameBase a b = true → addRaw a b = addRaw b a

theorem zipKids_comm : ∀ (xs ys : List (Key × Agg)), (∀ p ∈ xs, CommP p.2) →
    (∀ p ∈ xs, good p.2 = true) → (∀ p ∈ ys, good p.2 = true) →
    (∀ p ∈ xs, hasTmpl p.2 = true) → (∀ p ∈ ys, hasTmpl p.2 = true) →
    sameBaseZip xs ys = true → zipKids xs ys = zipKids ys xs
  | [], [], _, _, _, _, _, _ => rfl
  | [], _ :: _, _, _, _, _, _, h => by simp [sameBaseZip] at h
  | _ :: _, [], _, _, _, _, _, h => by simp [sameBaseZip] at h
  | (k1, a) :: r1, (k2, b) :: r2, ih, gx, gy, tx, ty, h => by
    simp only [sameBaseZip, Bool.and_eq_true, decide_eq_true_eq] at h
    obtain ⟨⟨rfl, hab⟩, hr⟩ := h
    rw [List.forall_mem_cons] at ih gx gy tx ty
    rw [zipKids, zipKids, ih.1 b gx.1 gy.1 tx.1 ty.1 hab,
      zipKids_comm r1 r2 ih.2 gx.2 gy.2 tx.2 ty.2 hr]

theorem addRaw_comm : ∀ a : Agg, CommP a := by
  apply Agg.ind_a
  intro k e st tmpl kids _ ihk b ha hb hta htb h
  obtain ⟨k2, e2, s2, t2, kids2⟩ := b
  have sb := sameBase_node h
  obtain rfl := sb.kind
  obtain rfl := sb.tmplEq
  have ga := good_node ha
  have gb := good_node hb
  have ta := hasTmpl_node hta
  have tb := hasTmpl_node htb
  obtain ⟨q1, rfl⟩ := ga.efin
  obtain ⟨q2, rfl⟩ := gb.efin
  rw [addRaw, addRaw]
  by_cases hk : k.isLeaf = true
  · rw [if_pos hk, if_pos hk]
    have h1 : kids = [] := kids_nil_of_keys (keys_nil_of_leaf hk ga.layout)
    have h2 : kids2 = [] := kids_nil_of_keys (keys_nil_of_leaf hk gb.layout)
    simp only [leafAdd_comm k _ st _ s2 hk (ga.leaf hk) (gb.leaf hk), h1, h2]
  · have hk' : k.isLeaf = false := by simpa using hk
    rw [if_neg hk, if_neg hk, ga.st_unit hk', gb.st_unit hk', Val.fin_add, Val.fin_add,
      Rat.add_comm q1 q2]
    by_cases hs : k.isSparse = true
    · rw [if_pos hs, if_pos hs]
      have sx := SL_of_good ga hs
      have sy := SL_of_good gb hs
      congr 1
      apply SL_ext (SL_unionKids _ _ sx sy) (SL_unionKids _ _ sy sx)
      intro j
      rw [lookupK_unionKids _ _ sx sy, lookupK_unionKids _ _ sy sx]
      cases hx : lookupK j kids with
      | none => rw [merge2_none_left, merge2_none_right]
      | some x =>
        cases hy : lookupK j kids2 with
        | none => rfl
        | some y =>
          have mx := lookupK_mem hx
          have my := lookupK_mem hy
          show some (addRaw x y) = some (addRaw y x)
          rw [ihk _ mx y (ga.gkids _ mx) (gb.gkids _ my) (ta.hkids _ mx) (tb.hkids _ my)
            (shared_kids ha hb hta htb h hs hx hy)]
    · have hs' : k.isSparse = false := by simpa using hs
      rw [if_neg hs, if_neg hs, zipKids_comm kids kids2 ihk ga.gkids gb.gkids ta.hkids tb.hkids (sb.zip hs')]

theorem _root_.Hg.add_comm' (a b : Agg) (ha : good a = true) (hb : good b = true)
    (hta : hasTmpl a = true) (htb : hasTmpl b = true) (h : sameBase a b = true) :
    add a b = add b a := by
  unfold add
  rw [cp_of_sb a b ha hb hta htb h, cp_of_sb b a hb ha htb hta (sb_symm a b ha hb hta htb h),
    addRaw_comm a b ha hb hta htb h]

/-! ### merging an empty, bin-less tree (a template) into a tree of the same structure -/

def ZeroP (t : Agg) : Prop :=
  ∀ b, good t = true → good b = true → isZeroTree t = true → noBins t = true →
    sameBase t b = true → addRaw t b = b

theorem zipKids_zero : ∀ (xs ys : List (Key × Agg)), (∀ p ∈ xs, ZeroP p.2) →
    (∀ p ∈ xs, good p.2 = true) → (∀ p ∈ ys, good p.2 = true) →
    (∀ p ∈ xs, isZeroTree p.2 = true) → (∀ p ∈ xs, noBins p.2 = true) →
    sameBaseZip xs ys = true → zipKids xs ys = ys
  | [], [], _, _, _, _, _, _ => rfl
  | [], _ :: _, _, _, _, _, _, h => by simp [sameBaseZip] at h
  | _ :: _, [], _, _, _, _, _, h => by simp [sameBaseZip] at h
  | (k1, a) :: r1, (k2, b) :: r2, ih, gx, gy, zx, nx, h => by
    simp only [sameBaseZip, Bool.and_eq_true, decide_eq_true_eq] at h
    obtain ⟨⟨rfl, hab⟩, hr⟩ := h
    rw [List.forall_mem_cons] at ih gx gy zx nx
    rw [zipKids, ih.1 b gx.1 gy.1 zx.1 nx.1 hab, zipKids_zero r1 r2 ih.2 gx.2 gy.2 zx.2 nx.2 hr]

theorem addRaw_zero_left : ∀ t : Agg, ZeroP t := by
  apply Agg.ind_a
  intro k e st tmpl kids _ ihk b ha hb hz hn h
  obtain ⟨k2, e2, s2, t2, kids2⟩ := b
  have sb := sameBase_node h
  obtain rfl := sb.kind
  obtain rfl := sb.tmplEq
  have ga := good_node ha
  have gb := good_node hb
  obtain ⟨rfl, rfl, zk⟩ := isZeroTree_node hz
  obtain ⟨nk1, nk2⟩ := noBins_node hn
  obtain ⟨q2, rfl⟩ := gb.efin
  rw [addRaw]
  by_cases hk : k.isLeaf = true
  · rw [if_pos hk]
    have h1 : kids = [] := kids_nil_of_keys (keys_nil_of_leaf hk ga.layout)
    have h2 : kids2 = [] := kids_nil_of_keys (keys_nil_of_leaf hk gb.layout)
    have := leafAdd_zero_left k (.fin q2) s2 hk (gb.leaf hk)
    have h0 : (0 : Val) = Val.fin 0 := rfl
    rw [h0] at this
    simp only [this, h1, h2]
  · have hk' : k.isLeaf = false := by simpa using hk
    rw [if_neg hk, Val.fin_add, Rat.zero_add, gb.st_unit hk', ← ga.st_unit hk']
    by_cases hs : k.isSparse = true
    · rw [if_pos hs]
      have sx := SL_of_good ga hs
      have sy := SL_of_good gb hs
      congr 1
      apply SL_ext (SL_unionKids _ _ sx sy) sy
      intro j
      rw [lookupK_unionKids _ _ sx sy]
      cases hx : lookupK j kids with
      | none => rw [merge2_none_left]
      | some x =>
        have mx := lookupK_mem hx
        have hj : j = .nanflow := nk1 hs _ mx
        obtain ⟨y, hy1, hy2⟩ := sb.flow hs _ mx hj
        rw [hj, hy1]
        show some (addRaw x y) = some y
        rw [ihk _ mx y (ga.gkids _ mx) (gb.gkids _ (lookupK_mem hy1)) (zk _ mx) (nk2 _ mx) hy2]
    · have hs' : k.isSparse = false := by simpa using hs
      rw [if_neg hs, zipKids_zero kids kids2 ihk ga.gkids gb.gkids zk nk2 (sb.zip hs')]

/-! ### merge is a homomorphism for fill -/

def HomP (a : Agg) : Prop :=
  ∀ b d w, good a = true → good b = true → hasTmpl a = true → hasTmpl b = true →
    sameBase a b = true → good (fill a d w).1 = true → (fill a d w).2 = .ok →
    (fill (addRaw a b) d w).2 = .ok ∧ addRaw (fill a d w).1 b = (fill (addRaw a b) d w).1

theorem zipKids_fill (tg : List (Key × Val)) (d : Datum) :
    ∀ (xs ys : List (Key × Agg)), (∀ p ∈ xs, HomP p.2) →
    (∀ p ∈ xs, good p.2 = true) → (∀ p ∈ ys, good p.2 = true) →
    (∀ p ∈ xs, hasTmpl p.2 = true) → (∀ p ∈ ys, hasTmpl p.2 = true) →
    sameBaseZip xs ys = true →
    (∀ p ∈ (fillKids xs tg d).1, good p.2 = true) → (fillKids xs tg d).2 = .ok →
    (fillKids (zipKids xs ys) tg d).2 = .ok ∧
      zipKids (fillKids xs tg d).1 ys = (fillKids (zipKids xs ys) tg d).1
  | [], [], _, _, _, _, _, _, _, _ => by
    rw [zipKids, fillKids_nil, zipKids]; exact ⟨rfl, rfl⟩
  | [], _ :: _, _, _, _, _, _, h, _, _ => by simp [sameBaseZip] at h
  | _ :: _, [], _, _, _, _, _, h, _, _ => by simp [sameBaseZip] at h
  | (k1, a) :: r1, (k2, b) :: r2, ih, gx, gy, tx, ty, h, hg, hok => by
    simp only [sameBaseZip, Bool.and_eq_true, decide_eq_true_eq] at h
    obtain ⟨⟨rfl, hab⟩, hr⟩ := h
    rw [List.forall_mem_cons] at ih gx gy tx ty
    rw [zipKids]
    cases hl : lookupK k1 tg with
    | none =>
      simp only [fillKids_cons_none hl] at hg hok ⊢
      rw [List.forall_mem_cons] at hg
      obtain ⟨h1, h2⟩ := zipKids_fill tg d r1 r2 ih.2 gx.2 gy.2 tx.2 ty.2 hr hg.2 hok
      rw [zipKids, h2]
      exact ⟨h1, rfl⟩
    | some w' =>
      simp only [fillKids_cons_some hl] at hg hok ⊢
      by_cases hra : (fill a d w').2.isOk = true
      · have hra' := (Outcome.isOk_iff _).1 hra
        rw [if_pos hra] at hg hok
        rw [List.forall_mem_cons] at hg
        obtain ⟨a1, a2⟩ := ih.1 b d w' gx.1 gy.1 tx.1 ty.1 hab hg.1 hra'
        obtain ⟨h1, h2⟩ := zipKids_fill tg d r1 r2 ih.2 gx.2 gy.2 tx.2 ty.2 hr hg.2 hok
        rw [if_pos hra, if_pos (by rw [a1]; rfl)]
        show _ ∧ zipKids ((k1, (fill a d w').1) :: (fillKids r1 tg d).1) ((k1, b) :: r2) = _
        rw [zipKids, h2, a2]
        exact ⟨h1, rfl⟩
      · rw [if_neg hra] at hok
        change (fill a d w').2 = Outcome.ok at hok
        rw [hok] at hra
        exact absurd rfl hra

theorem nanflow_mem_of_cls {k : Kind} {ks : List Key} (hc : k.cls = true)
    (h : k.layoutOk ks = true) : Key.nanflow ∈ ks := by
  cases k <;> simp only [Kind.cls, Bool.false_eq_true] at hc
  simp only [Kind.layoutOk, Bool.and_eq_true] at h
  obtain ⟨_, h⟩ := h
  split at h
  · exact List.mem_cons_self ..
  · cases h

theorem fillTmpl_some (t : Agg) (d : Datum) (w : Val) : fillTmpl (some t) d w = some (fill t d w) := by
  rw [fillTmpl]

theorem fill_add_hom_aux : ∀ a : Agg, HomP a := by
  apply Agg.ind_a
  intro k e st tmpl kids iht ihk b d w ha hb hta htb h hga hok
  obtain ⟨k2, e2, s2, t2, kids2⟩ := b
  have sb := sameBase_node h
  obtain rfl := sb.kind
  obtain rfl := sb.tmplEq
  by_cases hp : w.pos = true
  swap
  · have hp' : w.pos = false := by simpa using hp
    rw [fill_gate' _ d w hp', fill_gate' _ d w hp']
    exact ⟨rfl, rfl⟩
  have hw := okWeight_of_good_fill ha hok hga
  obtain ⟨qw, rfl, _⟩ := Val.pos_fin hw hp
  have ga := good_node ha
  have gb := good_node hb
  have ta := hasTmpl_node hta
  have tb := hasTmpl_node htb
  obtain ⟨q1, rfl⟩ := ga.efin
  obtain ⟨q2, rfl⟩ := gb.efin
  by_cases hk : k.isLeaf = true
  · -- leaves
    have hA : addRaw (.node k (.fin q1) st tmpl kids) (.node k (.fin q2) s2 tmpl kids2) =
        .node k (leafAdd k (.fin q1) st (.fin q2) s2).1 (leafAdd k (.fin q1) st (.fin q2) s2).2 tmpl kids := by
      rw [addRaw, if_pos hk]
    cases hl : leafFill k (.fin q1) st d (.fin qw) with
    | error f =>
      rw [fill_leaf d hp hk, hl] at hok
      cases hok
    | ok r =>
      obtain ⟨e', st'⟩ := r
      have hL : fill (.node k (.fin q1) st tmpl kids) d (.fin qw) = (.node k e' st' tmpl kids, .ok) := by
        rw [fill_leaf d hp hk, hl]
      have hR : fill (.node k (leafAdd k (.fin q1) st (.fin q2) s2).1 (leafAdd k (.fin q1) st (.fin q2) s2).2 tmpl kids)
          d (.fin qw) = (.node k (leafAdd k e' st' (.fin q2) s2).1 (leafAdd k e' st' (.fin q2) s2).2 tmpl kids, .ok) := by
        rw [fill_leaf d hp hk, leafFill_add_hom k (.fin q1) st (.fin q2) s2 d (.fin qw) e' st' hk
          (ga.leaf hk) (gb.leaf hk) ⟨qw, rfl, by assumption⟩ hl]
      rw [hA, hL, hR]
      refine ⟨rfl, ?_⟩
      show addRaw (.node k e' st' tmpl kids) _ = _
      rw [addRaw, if_pos hk]
  · have hk' : k.isLeaf = false := by simpa using hk
    obtain rfl := ga.st_unit hk'
    obtain rfl := gb.st_unit hk'
    cases hr : route k (keysOf kids) d (.fin qw) with
    | error f =>
      rw [fill_route_err hp hk' hr] at hok
      cases hok
    | ok tg =>
      by_cases hs : k.isSparse = true
      · -- sparse layouts
        obtain ⟨key, rfl, hcls⟩ := route_sparse hs hr
        have hA : addRaw (.node k (.fin q1) .unit tmpl kids) (.node k (.fin q2) .unit tmpl kids2) =
            .node k (.fin q1 + .fin q2) .unit tmpl (unionKids kids kids2) := by
          rw [addRaw, if_neg hk, if_pos hs]
        have hr' : route k (keysOf (unionKids kids kids2)) d (.fin qw) = .ok [(key, .fin qw)] := by
          rw [route_sparse_keys hs _ (keysOf kids)]; exact hr
        have sx := SL_of_good ga hs
        have sy := SL_of_good gb hs
        rw [hA]
        cases hx : lookupK key kids with
        | some ai =>
          have hh : hasKey key kids = true := by unfold hasKey; rw [hx]; rfl
          have hh' : hasKey key (unionKids kids kids2) = true := by
            unfold hasKey; rw [lookupK_unionKids _ _ sx sy, hx]; cases lookupK key kids2 <;> rfl
          rw [fill_sparse_has hp hk' hs hr hh] at hok hga
          simp only at hok
          rw [fill_sparse_has hp hk' hs hr' hh', fill_sparse_has hp hk' hs hr hh]
          have gk := (good_node hga).gkids
          have mx := lookupK_mem hx
          have haiok : (fill ai d (.fin qw)).2 = .ok := by
            have := hok
            rw [fillKids_single_ok key _ d kids sx, hx] at this
            exact this
          have hgai : good (fill ai d (.fin qw)).1 = true := by
            apply gk (key, (fill ai d (.fin qw)).1)
            apply lookupK_mem
            rw [lookupK_fillKids_single, if_pos rfl, hx]; rfl
          obtain ⟨h1, h2⟩ := union_fill_has sx sy hx hok (fun bi hbi =>
            ihk _ mx bi d (.fin qw) (ga.gkids _ mx) (gb.gkids _ (lookupK_mem hbi)) (ta.hkids _ mx)
              (tb.hkids _ (lookupK_mem hbi)) (shared_kids ha hb hta htb h hs hx hbi) hgai haiok)
          simp only [hok, h1, Outcome.isOk, if_true]
          refine ⟨trivial, ?_⟩
          rw [addRaw, if_neg hk, if_pos hs, h2, Val.add_right_comm_fin]
        | none =>
          have hh : hasKey key kids = false := by unfold hasKey; rw [hx]; rfl
          obtain ⟨t, rfl⟩ := ta.hsome hs
          rw [fill_sparse_new hp hk' hs hr hh, fillTmpl_some] at hok hga
          cases hft : fill t d (.fin qw) with
          | mk nb o =>
          rw [hft] at hok hga
          cases o with
          | raised f => simp only at hok; cases hok
          | ok =>
            simp only at hga
            have gt := ga.gtmpl t rfl
            have tt := ta.htmpl t rfl
            have hnb : nb = (fill t d (.fin qw)).1 := by rw [hft]
            have hnbok : (fill t d (.fin qw)).2 = .ok := by rw [hft]
            have hknf : key ≠ .nanflow := by
              rintro rfl
              have hc : k.cls = true := by
                cases hcc : k.cls
                · rw [hcc] at hcls; cases hcls
                · rfl
              obtain ⟨x, hx'⟩ := lookupK_isSome_of_mem (nanflow_mem_of_cls hc ga.layout)
              rw [hx] at hx'; cases hx'
            have gnb : good nb = true := by
              apply (good_node hga).gkids (key, nb)
              apply lookupK_mem
              rw [lookupK_insertK key nb kids hx, if_pos rfl]
            cases hy : lookupK key kids2 with
            | some bi =>
              have my := lookupK_mem hy
              have hh' : hasKey key (unionKids kids kids2) = true := by
                unfold hasKey; rw [lookupK_unionKids _ _ sx sy, hx, hy]; rfl
              have sbt : sameBase t bi = true := sb.bins2 hs t rfl _ my hknf
              have hz := addRaw_zero_left t bi gt.1 (gb.gkids _ my) gt.2 tt.2 sbt
              obtain ⟨i1, i2⟩ := iht t rfl bi d (.fin qw) gt.1 (gb.gkids _ my) tt.1 (tb.hkids _ my) sbt
                (by rw [← hnb]; exact gnb) hnbok
              rw [hz] at i1 i2
              rw [← hnb] at i2
              obtain ⟨h1, h2⟩ := union_fill_new_right (nb := nb) sx sy hcls hx hy i2
              rw [fill_sparse_has hp hk' hs hr' hh', fill_sparse_new hp hk' hs hr hh, fillTmpl_some, hft]
              rw [i1] at h1
              simp only [h1, Outcome.isOk, if_true]
              refine ⟨trivial, ?_⟩
              rw [addRaw, if_neg hk, if_pos hs, h2, Val.add_right_comm_fin]
            | none =>
              obtain ⟨h1, h2⟩ := union_insert_new (nb := nb) sx sy hcls hx hy
              have hh' : hasKey key (unionKids kids kids2) = false := by
                unfold hasKey; rw [h1]; rfl
              rw [fill_sparse_new hp hk' hs hr' hh', fill_sparse_new hp hk' hs hr hh, fillTmpl_some, hft]
              refine ⟨rfl, ?_⟩
              show addRaw (.node k (.fin q1 + .fin qw) .unit (some t) (insertK key nb kids)) _ = _
              rw [addRaw, if_neg hk, if_pos hs, h2, Val.add_right_comm_fin]
      · -- fixed layouts
        have hs' : k.isSparse = false := by simpa using hs
        have hA : addRaw (.node k (.fin q1) .unit tmpl kids) (.node k (.fin q2) .unit tmpl kids2) =
            .node k (.fin q1 + .fin q2) .unit tmpl (zipKids kids kids2) := by
          rw [addRaw, if_neg hk, if_neg hs]
        have hr' : route k (keysOf (zipKids kids kids2)) d (.fin qw) = .ok tg := by
          rw [keysOf_zipKids]; exact hr
        rw [fill_fixed hp hk' hs' hr] at hok hga
        simp only at hok
        rw [hA, fill_fixed hp hk' hs' hr', fill_fixed hp hk' hs' hr]
        have gk := (good_node hga).gkids
        obtain ⟨h1, h2⟩ := zipKids_fill tg d kids kids2 ihk ga.gkids gb.gkids ta.hkids tb.hkids
          (sb.zip hs') gk hok
        simp only [hok, h1, Outcome.isOk, if_true]
        refine ⟨trivial, ?_⟩
        rw [addRaw, if_neg hk, if_neg hs, h2, Val.add_right_comm_fin]

/-- Merge is a homomorphism for fill: filling the left operand and merging equals merging and
filling the result. -/
theorem _root_.Hg.fill_add_hom (a b : Agg) (d : Datum) (w : Val)
    (ha : good a = true) (hb : good b = true) (hta : hasTmpl a = true) (htb : hasTmpl b = true)
    (h : sameBase a b = true)
    (hw : w.okWeight = true) (hga : good (fill a d w).1 = true)
    (hok : (fill a d w).2 = .ok) :
    (fill (addRaw a b) d w).2 = .ok ∧ addRaw (fill a d w).1 b = (fill (addRaw a b) d w).1 := by
  have _ := hw   -- (implied by `ha`, `hga`, `hok`: `okWeight_of_good_fill`)
  exact fill_add_hom_aux a b d w ha hb hta htb h hga hok

/-! ### merging keeps the templates -/

def HtP (a : Agg) : Prop :=
  ∀ b, good a = true → good b = true → hasTmpl a = true → hasTmpl b = true →
    sameBase a b = true → hasTmpl (addRaw a b) = true

theorem zipKids_hasTmpl : ∀ (xs ys : List (Key × Agg)), (∀ p ∈ xs, HtP p.2) →
    (∀ p ∈ xs, good p.2 = true) → (∀ p ∈ ys, good p.2 = true) →
    (∀ p ∈ xs, hasTmpl p.2 = true) → (∀ p ∈ ys, hasTmpl p.2 = true) →
    sameBaseZip xs ys = true → ∀ p ∈ zipKids xs ys, hasTmpl p.2 = true
  | [], _, _, _, _, _, _, _ => by rw [zipKids]; intro p hp; cases hp
  | _ :: _, [], _, _, _, _, _, h => by simp [sameBaseZip] at h
  | (k1, a) :: r1, (k2, b) :: r2, ih, gx, gy, tx, ty, h => by
    simp only [sameBaseZip, Bool.and_eq_true, decide_eq_true_eq] at h
    obtain ⟨⟨rfl, hab⟩, hr⟩ := h
    rw [List.forall_mem_cons] at ih gx gy tx ty
    rw [zipKids, List.forall_mem_cons]
    exact ⟨ih.1 b gx.1 gy.1 tx.1 ty.1 hab, zipKids_hasTmpl r1 r2 ih.2 gx.2 gy.2 tx.2 ty.2 hr⟩

theorem hasTmpl_addRaw' : ∀ a : Agg, HtP a := by
  apply Agg.ind_a
  intro k e st tmpl kids _ ihk b ha hb hta htb h
  obtain ⟨k2, e2, s2, t2, kids2⟩ := b
  have sb := sameBase_node h
  obtain rfl := sb.kind
  obtain rfl := sb.tmplEq
  have ga := good_node ha
  have gb := good_node hb
  have ta := hasTmpl_node hta
  have tb := hasTmpl_node htb
  have key : ∀ (e' : Val) (s' : St) (K : List (Key × Agg)), (∀ p ∈ K, hasTmpl p.2 = true) →
      hasTmpl (.node k e' s' tmpl K) = true := by
    intro e' s' K hK
    rw [hasTmpl] at hta ⊢
    simp only [Bool.and_eq_true] at hta ⊢
    exact ⟨hta.1, hasTmplKids_iff.2 hK⟩
  rw [addRaw]
  by_cases hk : k.isLeaf = true
  · rw [if_pos hk]; exact key _ _ _ ta.hkids
  · rw [if_neg hk]
    by_cases hs : k.isSparse = true
    · rw [if_pos hs]
      apply key
      have sx := SL_of_good ga hs
      have sy := SL_of_good gb hs
      intro p hp
      have hl := lookupK_of_mem (SL_unionKids _ _ sx sy) hp
      rw [lookupK_unionKids _ _ sx sy] at hl
      cases hx : lookupK p.1 kids with
      | none =>
        rw [hx, merge2_none_left] at hl
        exact tb.hkids _ (lookupK_mem hl)
      | some x =>
        have mx := lookupK_mem hx
        cases hy : lookupK p.1 kids2 with
        | none =>
          rw [hx, hy] at hl
          cases hl
          exact ta.hkids _ mx
        | some y =>
          have my := lookupK_mem hy
          rw [hx, hy] at hl
          change some (addRaw x y) = some p.2 at hl
          rw [← Option.some.inj hl]
          exact ihk _ mx y (ga.gkids _ mx) (gb.gkids _ my) (ta.hkids _ mx) (tb.hkids _ my)
            (shared_kids ha hb hta htb h hs hx hy)
    · have hs' : k.isSparse = false := by simpa using hs
      rw [if_neg hs]
      exact key _ _ _ (zipKids_hasTmpl kids kids2 ihk ga.gkids gb.gkids ta.hkids tb.hkids (sb.zip hs'))

/-- `hasTmpl` is preserved by merge (proved here, `hasTmpl_addRaw'`, so that this file does not
depend on the name under which TreeLaws1 exports the same fact) -/
theorem ht_addRaw (a b : Agg) (ha : good a = true) (hb : good b = true)
    (hta : hasTmpl a = true) (htb : hasTmpl b = true) (h : sameBase a b = true) :
    hasTmpl (addRaw a b) = true :=
  hasTmpl_addRaw' a b ha hb hta htb h

/-! ### merge is associative -/

def AssocP (a : Agg) : Prop :=
  ∀ b c, good a = true → good b = true → good c = true →
    hasTmpl a = true → hasTmpl b = true → hasTmpl c = true →
    sameBase a b = true → sameBase a c = true →
    addRaw (addRaw a b) c = addRaw a (addRaw b c)

theorem zipKids_assoc : ∀ (xs ys zs : List (Key × Agg)), (∀ p ∈ xs, AssocP p.2) →
    (∀ p ∈ xs, good p.2 = true) → (∀ p ∈ ys, good p.2 = true) → (∀ p ∈ zs, good p.2 = true) →
    (∀ p ∈ xs, hasTmpl p.2 = true) → (∀ p ∈ ys, hasTmpl p.2 = true) →
    (∀ p ∈ zs, hasTmpl p.2 = true) →
    sameBaseZip xs ys = true → sameBaseZip xs zs = true →
    zipKids (zipKids xs ys) zs = zipKids xs (zipKids ys zs)
  | [], _, _, _, _, _, _, _, _, _, _, _ => by rw [zipKids, zipKids, zipKids]
  | _ :: _, [], _, _, _, _, _, _, _, _, h, _ => by simp [sameBaseZip] at h
  | _ :: _, _ :: _, [], _, _, _, _, _, _, _, _, h => by simp [sameBaseZip] at h
  | (k1, a) :: r1, (k2, b) :: r2, (k3, c) :: r3, ih, gx, gy, gz, tx, ty, tz, h1, h2 => by
    simp only [sameBaseZip, Bool.and_eq_true, decide_eq_true_eq] at h1 h2
    obtain ⟨⟨rfl, hab⟩, hr1⟩ := h1
    obtain ⟨⟨rfl, hac⟩, hr2⟩ := h2
    rw [List.forall_mem_cons] at ih gx gy gz tx ty tz
    rw [zipKids, zipKids, zipKids, zipKids, ih.1 b c gx.1 gy.1 gz.1 tx.1 ty.1 tz.1 hab hac,
      zipKids_assoc r1 r2 r3 ih.2 gx.2 gy.2 gz.2 tx.2 ty.2 tz.2 hr1 hr2]

theorem addRaw_assoc : ∀ a : Agg, AssocP a := by
  apply Agg.ind_a
  intro k e st tmpl kids _ ihk b c ha hb hc hta htb htc hab hac
  obtain ⟨k2, e2, s2, t2, kids2⟩ := b
  obtain ⟨k3, e3, s3, t3, kids3⟩ := c
  have sb := sameBase_node hab
  have sc := sameBase_node hac
  obtain rfl := sb.kind
  obtain rfl := sb.tmplEq
  obtain rfl := sc.kind
  obtain rfl := sc.tmplEq
  have ga := good_node ha
  have gb := good_node hb
  have gc := good_node hc
  have ta := hasTmpl_node hta
  have tb := hasTmpl_node htb
  have tc := hasTmpl_node htc
  obtain ⟨q1, rfl⟩ := ga.efin
  obtain ⟨q2, rfl⟩ := gb.efin
  obtain ⟨q3, rfl⟩ := gc.efin
  by_cases hk : k.isLeaf = true
  · have hA : addRaw (.node k (.fin q1) st tmpl kids) (.node k (.fin q2) s2 tmpl kids2) =
        .node k (leafAdd k (.fin q1) st (.fin q2) s2).1 (leafAdd k (.fin q1) st (.fin q2) s2).2 tmpl kids := by
      rw [addRaw, if_pos hk]
    have hB : addRaw (.node k (.fin q2) s2 tmpl kids2) (.node k (.fin q3) s3 tmpl kids3) =
        .node k (leafAdd k (.fin q2) s2 (.fin q3) s3).1 (leafAdd k (.fin q2) s2 (.fin q3) s3).2 tmpl kids2 := by
      rw [addRaw, if_pos hk]
    rw [hA, hB, addRaw, addRaw, if_pos hk, if_pos hk]
    simp only [leafAdd_assoc k _ st _ s2 _ s3 hk (ga.leaf hk) (gb.leaf hk) (gc.leaf hk)]
  · have hk' : k.isLeaf = false := by simpa using hk
    obtain rfl := ga.st_unit hk'
    obtain rfl := gb.st_unit hk'
    obtain rfl := gc.st_unit hk'
    by_cases hs : k.isSparse = true
    · have hA : addRaw (.node k (.fin q1) .unit tmpl kids) (.node k (.fin q2) .unit tmpl kids2) =
          .node k (.fin q1 + .fin q2) .unit tmpl (unionKids kids kids2) := by
        rw [addRaw, if_neg hk, if_pos hs]
      have hB : addRaw (.node k (.fin q2) .unit tmpl kids2) (.node k (.fin q3) .unit tmpl kids3) =
          .node k (.fin q2 + .fin q3) .unit tmpl (unionKids kids2 kids3) := by
        rw [addRaw, if_neg hk, if_pos hs]
      rw [hA, hB, addRaw, addRaw, if_neg hk, if_neg hk, if_pos hs, if_pos hs]
      simp only [Val.fin_add, Rat.add_assoc]
      have sx := SL_of_good ga hs
      have sy := SL_of_good gb hs
      have sz := SL_of_good gc hs
      have sxy := SL_unionKids _ _ sx sy
      have syz := SL_unionKids _ _ sy sz
      congr 1
      apply SL_ext (SL_unionKids _ _ sxy sz) (SL_unionKids _ _ sx syz)
      intro j
      rw [lookupK_unionKids _ _ sxy sz, lookupK_unionKids _ _ sx sy, lookupK_unionKids _ _ sx syz,
        lookupK_unionKids _ _ sy sz]
      cases hx : lookupK j kids with
      | none => rw [merge2_none_left, merge2_none_left]
      | some x =>
        cases hy : lookupK j kids2 with
        | none => rfl
        | some y =>
          cases hz : lookupK j kids3 with
          | none => rfl
          | some z =>
            have mx := lookupK_mem hx
            have my := lookupK_mem hy
            have mz := lookupK_mem hz
            show some (addRaw (addRaw x y) z) = some (addRaw x (addRaw y z))
            rw [ihk _ mx y z (ga.gkids _ mx) (gb.gkids _ my) (gc.gkids _ mz) (ta.hkids _ mx)
              (tb.hkids _ my) (tc.hkids _ mz) (shared_kids ha hb hta htb hab hs hx hy)
              (shared_kids ha hc hta htc hac hs hx hz)]
    · have hs' : k.isSparse = false := by simpa using hs
      have hA : addRaw (.node k (.fin q1) .unit tmpl kids) (.node k (.fin q2) .unit tmpl kids2) =
          .node k (.fin q1 + .fin q2) .unit tmpl (zipKids kids kids2) := by
        rw [addRaw, if_neg hk, if_neg hs]
      have hB : addRaw (.node k (.fin q2) .unit tmpl kids2) (.node k (.fin q3) .unit tmpl kids3) =
          .node k (.fin q2 + .fin q3) .unit tmpl (zipKids kids2 kids3) := by
        rw [addRaw, if_neg hk, if_neg hs]
      rw [hA, hB, addRaw, addRaw, if_neg hk, if_neg hk, if_neg hs, if_neg hs]
      simp only [Val.fin_add, Rat.add_assoc]
      rw [zipKids_assoc kids kids2 kids3 ihk ga.gkids gb.gkids gc.gkids ta.hkids tb.hkids tc.hkids
        (sb.zip hs') (sc.zip hs')]

theorem _root_.Hg.add_assoc' (a b c : Agg) (ha : good a = true) (hb : good b = true) (hc : good c = true)
    (hta : hasTmpl a = true) (htb : hasTmpl b = true) (htc : hasTmpl c = true)
    (hab : sameBase a b = true) (hac : sameBase a c = true) :
    (add a b).bind (fun x => add x c) = (add b c).bind (fun y => add a y) := by
  have hba := sb_symm a b ha hb hta htb hab
  have hbc := sb_trans b a c hb ha hc htb hta htc hba hac
  obtain ⟨gab, sab⟩ := gd_addRaw a b ha hb hta htb hab
  obtain ⟨gbc, sbc⟩ := gd_addRaw b c hb hc htb htc hbc
  have tab := ht_addRaw a b ha hb hta htb hab
  have tbc := ht_addRaw b c hb hc htb htc hbc
  have h1 : sameBase (addRaw a b) c = true :=
    sb_trans _ a c gab ha hc tab hta htc (sb_symm a _ ha gab hta tab sab) hac
  have h2 : sameBase a (addRaw b c) = true :=
    sb_trans a b _ ha hb gbc hta htb tbc hab sbc
  unfold add
  rw [cp_of_sb a b ha hb hta htb hab, cp_of_sb b c hb hc htb htc hbc]
  simp only [if_true, Option.bind_some]
  rw [cp_of_sb _ c gab hc tab htc h1, cp_of_sb a _ ha gbc hta tbc h2,
    addRaw_assoc a b c ha hb hc hta htb htc hab hac]

end Hg.P3
