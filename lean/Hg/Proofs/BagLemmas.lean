/-
  Hg.Proofs.BagLemmas — the sorted association lists of `Bag`: order facts on keys,
  `bagInsert` / `bagMerge` laws.
-/
import Mathlib.Data.String.Basic
import Mathlib.Data.List.Induction
import Hg.Proofs.ValLemmas
import Hg.Model.WF

namespace Hg

/-! ### `Val.keyLt` is a strict total order -/

theorem Val.keyLt_irrefl (a : Val) : Val.keyLt a a = false := by
  cases a <;> simp [Val.keyLt, Val.lt]

theorem Val.keyLt_trans {a b c : Val} (h1 : Val.keyLt a b = true) (h2 : Val.keyLt b c = true) :
    Val.keyLt a c = true := by
  cases a <;> cases b <;> cases c <;> simp_all [Val.keyLt, Val.lt]
  exact lt_trans h1 h2

theorem Val.keyLt_asymm {a b : Val} (h1 : Val.keyLt a b = true) : Val.keyLt b a = false := by
  cases a <;> cases b <;> simp_all [Val.keyLt, Val.lt]
  exact le_of_lt h1

theorem Val.keyLt_tri {a b : Val} (h1 : Val.keyLt a b = false) (h2 : Val.keyLt b a = false) :
    a = b := by
  cases a <;> cases b <;> simp_all [Val.keyLt, Val.lt]
  exact le_antisymm h2 h1

/-! ### `vecLt` -/

theorem vecLt_irrefl (a : List Val) : vecLt a a = false := by
  induction a with
  | nil => rfl
  | cons x xs ih => simp [vecLt, Val.keyLt_irrefl, ih]

theorem vecLt_cons_cons (a : Val) (as : List Val) (b : Val) (bs : List Val) :
    vecLt (a :: as) (b :: bs) = true ↔
      (Val.keyLt a b = true ∨ (a = b ∧ vecLt as bs = true)) := by
  simp only [vecLt]
  by_cases h1 : Val.keyLt a b = true
  · simp [h1]
  · by_cases h2 : Val.keyLt b a = true
    · have : a ≠ b := by
        intro e; subst e; simp [Val.keyLt_irrefl] at h2
      simp [h1, h2, this]
    · have e : a = b := Val.keyLt_tri (by simpa using h1) (by simpa using h2)
      subst e
      simp [h1]

theorem vecLt_trans : ∀ {a b c : List Val}, vecLt a b = true → vecLt b c = true → vecLt a c = true
  | [], _, _, h1, _ => by simp [vecLt] at h1
  | _ :: _, [], _, h1, _ => by simp [vecLt] at h1
  | _ :: _, _ :: _, [], _, h2 => by simp [vecLt] at h2
  | a :: as, b :: bs, c :: cs, h1, h2 => by
    rw [vecLt_cons_cons] at h1 h2 ⊢
    rcases h1 with h1 | ⟨e1, h1⟩ <;> rcases h2 with h2 | ⟨e2, h2⟩
    · exact Or.inl (Val.keyLt_trans h1 h2)
    · subst e2; exact Or.inl h1
    · subst e1; exact Or.inl h2
    · subst e1; subst e2; exact Or.inr ⟨rfl, vecLt_trans h1 h2⟩

theorem vecLt_asymm {a b : List Val} (h : vecLt a b = true) : vecLt b a = false := by
  cases hb : vecLt b a with
  | false => rfl
  | true => have := vecLt_trans h hb; simp [vecLt_irrefl] at this

theorem vecLt_tri : ∀ {a b : List Val}, a.length = b.length → vecLt a b = false → vecLt b a = false → a = b
  | [], [], _, _, _ => rfl
  | [], _ :: _, h, _, _ => by simp at h
  | _ :: _, [], h, _, _ => by simp at h
  | a :: as, b :: bs, h, h1, h2 => by
    have h1' : ¬ (vecLt (a :: as) (b :: bs) = true) := by simp [h1]
    have h2' : ¬ (vecLt (b :: bs) (a :: as) = true) := by simp [h2]
    rw [vecLt_cons_cons] at h1' h2'
    have ab : Val.keyLt a b = false := by
      cases hh : Val.keyLt a b with
      | false => rfl
      | true => exact absurd (Or.inl hh) h1'
    have ba : Val.keyLt b a = false := by
      cases hh : Val.keyLt b a with
      | false => rfl
      | true => exact absurd (Or.inl hh) h2'
    have e : a = b := Val.keyLt_tri ab ba
    subst e
    have t1 : vecLt as bs = false := by
      cases hh : vecLt as bs with
      | false => rfl
      | true => exact absurd (Or.inr ⟨rfl, hh⟩) h1'
    have t2 : vecLt bs as = false := by
      cases hh : vecLt bs as with
      | false => rfl
      | true => exact absurd (Or.inr ⟨rfl, hh⟩) h2'
    rw [vecLt_tri (by simpa using h) t1 t2]

/-! ### `BKey.lt` -/

theorem BKey.lt_irrefl (a : BKey) : BKey.lt a a = false := by
  cases a <;> simp [BKey.lt, Val.keyLt_irrefl, vecLt_irrefl]

theorem BKey.lt_trans {a b c : BKey} (h1 : BKey.lt a b = true) (h2 : BKey.lt b c = true) :
    BKey.lt a c = true := by
  cases a <;> cases b <;> first | exact absurd h1 Bool.false_ne_true | skip
  all_goals cases c <;> first | exact absurd h2 Bool.false_ne_true | skip
  · exact Val.keyLt_trans h1 h2
  · exact decide_eq_true (_root_.lt_trans (of_decide_eq_true h1) (of_decide_eq_true h2))
  · exact vecLt_trans h1 h2

theorem BKey.lt_asymm {a b : BKey} (h : BKey.lt a b = true) : BKey.lt b a = false := by
  cases hb : BKey.lt b a with
  | false => rfl
  | true => have := BKey.lt_trans h hb; simp [BKey.lt_irrefl] at this

theorem BKey.ne_of_lt {a b : BKey} (h : BKey.lt a b = true) : a ≠ b := by
  intro e; subst e; simp [BKey.lt_irrefl] at h

/-- the two keys are comparable -/
def BKey.Tri (a b : BKey) : Prop := a = b ∨ BKey.lt a b = true ∨ BKey.lt b a = true

theorem BKey.Tri.symm {a b : BKey} (h : BKey.Tri a b) : BKey.Tri b a := by
  rcases h with h | h | h
  · exact Or.inl h.symm
  · exact Or.inr (Or.inr h)
  · exact Or.inr (Or.inl h)

theorem BKey.tri_of_inRange {r : BagRange} {a b : BKey} (ha : a.inRange r = true)
    (hb : b.inRange r = true) : BKey.Tri a b := by
  cases r <;> cases a <;> first | exact absurd ha Bool.false_ne_true | skip
  all_goals cases b <;> first | exact absurd hb Bool.false_ne_true | skip
  · rename_i s t
    rcases lt_trichotomy s t with h | h | h
    · exact Or.inr (Or.inl (decide_eq_true h))
    · exact Or.inl (by rw [h])
    · exact Or.inr (Or.inr (decide_eq_true h))
  · rename_i x y
    by_cases h1 : Val.keyLt x y = true
    · exact Or.inr (Or.inl h1)
    · by_cases h2 : Val.keyLt y x = true
      · exact Or.inr (Or.inr h2)
      · exact Or.inl (congrArg BKey.num (Val.keyLt_tri (by simpa using h1) (by simpa using h2)))
  · rename_i n x y
    have hx : x.length = n := of_decide_eq_true ha
    have hy : y.length = n := of_decide_eq_true hb
    by_cases h1 : vecLt x y = true
    · exact Or.inr (Or.inl h1)
    · by_cases h2 : vecLt y x = true
      · exact Or.inr (Or.inr h2)
      · exact Or.inl (congrArg BKey.vec (vecLt_tri (by omega) (by simpa using h1) (by simpa using h2)))

theorem BKey.tri_of_lt {a b : BKey} (h : BKey.lt a b = true) : BKey.Tri a b := Or.inr (Or.inl h)

/-! ### strictly sorted association lists -/

theorem bagKeysOk_iff (r : BagRange) (m : List (BKey × Val)) :
    bagKeysOk r m = true ↔ ∀ x ∈ m, x.1.inRange r = true := by
  simp [bagKeysOk]

theorem bagSorted_tail {a : BKey × Val} {l : List (BKey × Val)} (h : bagSorted (a :: l) = true) :
    bagSorted l = true := by
  cases l with
  | nil => rfl
  | cons b rest => simp [bagSorted] at h; exact h.2

theorem bagSorted_head_lt {a : BKey × Val} {l : List (BKey × Val)} (h : bagSorted (a :: l) = true) :
    ∀ x ∈ l, BKey.lt a.1 x.1 = true := by
  induction l generalizing a with
  | nil => simp
  | cons b rest ih =>
    simp [bagSorted] at h
    intro x hx
    rcases List.mem_cons.mp hx with rfl | hx
    · exact h.1
    · exact BKey.lt_trans h.1 (ih h.2 x hx)

theorem bagSorted_head_tri {a : BKey × Val} {l : List (BKey × Val)} (h : bagSorted (a :: l) = true) :
    ∀ x ∈ l, BKey.Tri a.1 x.1 := fun x hx => BKey.tri_of_lt (bagSorted_head_lt h x hx)

theorem bagSorted_val_irrel (k : BKey) (v v' : Val) (rest : List (BKey × Val)) :
    bagSorted ((k, v) :: rest) = bagSorted ((k, v') :: rest) := by
  cases rest <;> simp [bagSorted]

theorem bagInsert_sorted {k : BKey} {w : Val} {l : List (BKey × Val)} (hl : bagSorted l = true)
    (ht : ∀ x ∈ l, BKey.Tri k x.1) : bagSorted (bagInsert k w l) = true := by
  induction l with
  | nil => rfl
  | cons a rest ih =>
    obtain ⟨k0, v0⟩ := a
    have ih' := ih (bagSorted_tail hl) (fun x hx => ht x (List.mem_cons_of_mem _ hx))
    have t0 := ht (k0, v0) (List.mem_cons_self ..)
    have hasym := @BKey.lt_asymm
    unfold BKey.Tri at t0
    cases rest with
    | nil => simp only [bagInsert]; grind [bagSorted]
    | cons b rest' =>
      obtain ⟨k1, v1⟩ := b
      have h01 : BKey.lt k0 k1 = true := by simp [bagSorted] at hl; exact hl.1
      have hl' := bagSorted_tail hl
      simp only [bagInsert] at ih' ⊢
      grind [bagSorted]

theorem bagInsert_forall {P : BKey → Prop} {k : BKey} {w : Val} {l : List (BKey × Val)} (hk : P k)
    (hl : ∀ x ∈ l, P x.1) : ∀ x ∈ bagInsert k w l, P x.1 := by
  induction l with
  | nil => simp [bagInsert, hk]
  | cons a rest ih =>
    obtain ⟨k0, v0⟩ := a
    have ih' := ih (fun x hx => hl x (List.mem_cons_of_mem _ hx))
    have h0 : P k0 := hl (k0, v0) (List.mem_cons_self ..)
    have hr : ∀ x ∈ rest, P x.1 := fun x hx => hl x (List.mem_cons_of_mem _ hx)
    simp only [bagInsert]
    split
    · intro x hx
      rcases List.mem_cons.mp hx with rfl | hx
      · exact h0
      · exact hr x hx
    · split
      · intro x hx
        rcases List.mem_cons.mp hx with rfl | hx
        · exact hk
        · exact hl x hx
      · intro x hx
        rcases List.mem_cons.mp hx with rfl | hx
        · exact h0
        · exact ih' x hx

theorem bagInsert_keysOk {r : BagRange} {k : BKey} {w : Val} {l : List (BKey × Val)}
    (hk : k.inRange r = true) (hl : bagKeysOk r l = true) : bagKeysOk r (bagInsert k w l) = true := by
  rw [bagKeysOk_iff] at hl ⊢
  exact bagInsert_forall (P := fun k => k.inRange r = true) hk hl

/-- two insertions of comparable keys commute (no condition on the list) -/
theorem bagInsert_comm {k1 k2 : BKey} (h : BKey.Tri k1 k2) (w1 w2 : Val) (l : List (BKey × Val)) :
    bagInsert k1 w1 (bagInsert k2 w2 l) = bagInsert k2 w2 (bagInsert k1 w1 l) := by
  have hasym := @BKey.lt_asymm
  have htrans := @BKey.lt_trans
  have hirr := BKey.lt_irrefl
  have hac := Val.add_right_comm
  have hc := Val.add_comm
  induction l with
  | nil =>
    rcases h with h | h | h
    · subst h; simp [bagInsert, Val.add_comm]
    · have := hasym h; have := BKey.ne_of_lt h
      grind [bagInsert]
    · have := hasym h; have := BKey.ne_of_lt h
      grind [bagInsert]
  | cons x rest ih =>
    obtain ⟨k, v⟩ := x
    unfold BKey.Tri at h
    simp only [bagInsert]
    grind [bagInsert]

/-- inserting the same key twice -/
theorem bagInsert_twice (k : BKey) (w1 w2 : Val) (l : List (BKey × Val)) :
    bagInsert k w2 (bagInsert k w1 l) = bagInsert k (w1 + w2) l := by
  have hirr := BKey.lt_irrefl
  have ha := Val.add_assoc
  induction l with
  | nil => simp [bagInsert]
  | cons x rest ih =>
    obtain ⟨k0, v0⟩ := x
    simp only [bagInsert]
    grind [bagInsert]

theorem bagInsert_head {k : BKey} {w : Val} {a : List (BKey × Val)}
    (h : bagSorted ((k, w) :: a) = true) : bagInsert k w a = (k, w) :: a := by
  cases a with
  | nil => rfl
  | cons b rest =>
    obtain ⟨k0, v0⟩ := b
    simp [bagSorted] at h
    have := BKey.ne_of_lt h.1
    simp [bagInsert, h.1, Ne.symm this]

/-! ### merge -/

theorem bagMerge_nil (a : List (BKey × Val)) : bagMerge a [] = a := rfl

theorem bagMerge_cons (a : List (BKey × Val)) (x : BKey × Val) (b : List (BKey × Val)) :
    bagMerge a (x :: b) = bagMerge (bagInsert x.1 x.2 a) b := rfl

theorem bagMerge_insert_left {k : BKey} (w : Val) (c : List (BKey × Val)) {a : List (BKey × Val)}
    (ht : ∀ y ∈ a, BKey.Tri k y.1) : bagMerge (bagInsert k w c) a = bagInsert k w (bagMerge c a) := by
  induction a generalizing c with
  | nil => rfl
  | cons y a' ih =>
    rw [bagMerge_cons, bagMerge_cons,
      bagInsert_comm (ht y (List.mem_cons_self ..)).symm,
      ih _ (fun z hz => ht z (List.mem_cons_of_mem _ hz))]

theorem bagMerge_nil_left {a : List (BKey × Val)} (ha : bagSorted a = true) : bagMerge [] a = a := by
  induction a with
  | nil => rfl
  | cons x a' ih =>
    obtain ⟨k, w⟩ := x
    show bagMerge (bagInsert k w []) a' = _
    rw [bagMerge_insert_left w [] (bagSorted_head_tri ha), ih (bagSorted_tail ha), bagInsert_head ha]

theorem bagMerge_sorted_keysOk {r : BagRange} {a b : List (BKey × Val)} (ha : bagSorted a = true)
    (hka : bagKeysOk r a = true) (hkb : bagKeysOk r b = true) :
    bagSorted (bagMerge a b) = true ∧ bagKeysOk r (bagMerge a b) = true := by
  induction b generalizing a with
  | nil => exact ⟨ha, hka⟩
  | cons x b' ih =>
    rw [bagMerge_cons]
    have hx : x.1.inRange r = true := (bagKeysOk_iff r _).mp hkb x (List.mem_cons_self ..)
    have hb' : bagKeysOk r b' = true :=
      (bagKeysOk_iff r _).mpr (fun y hy => (bagKeysOk_iff r _).mp hkb y (List.mem_cons_of_mem _ hy))
    exact ih (bagInsert_sorted ha (fun y hy => BKey.tri_of_inRange hx ((bagKeysOk_iff r _).mp hka y hy)))
      (bagInsert_keysOk hx hka) hb'

theorem bagMerge_comm_of_tri {a b : List (BKey × Val)} (ha : bagSorted a = true) (hb : bagSorted b = true)
    (ht : ∀ x ∈ a, ∀ y ∈ b, BKey.Tri x.1 y.1) : bagMerge a b = bagMerge b a := by
  induction b with
  | nil => rw [bagMerge_nil, bagMerge_nil_left ha]
  | cons x b' ih =>
    obtain ⟨k, w⟩ := x
    have ih' := ih (bagSorted_tail hb) (fun x hx y hy => ht x hx y (List.mem_cons_of_mem _ hy))
    rw [bagMerge_cons]
    show bagMerge (bagInsert k w a) b' = _
    rw [bagMerge_insert_left w a (bagSorted_head_tri hb), ih',
      ← bagMerge_insert_left w b' (fun y hy => (ht y hy (k, w) (List.mem_cons_self ..)).symm),
      bagInsert_head hb]

theorem bagMerge_comm {r : BagRange} {a b : List (BKey × Val)} (ha : bagSorted a = true)
    (hb : bagSorted b = true) (hka : bagKeysOk r a = true) (hkb : bagKeysOk r b = true) :
    bagMerge a b = bagMerge b a :=
  bagMerge_comm_of_tri ha hb (fun x hx y hy =>
    BKey.tri_of_inRange ((bagKeysOk_iff r _).mp hka x hx) ((bagKeysOk_iff r _).mp hkb y hy))

theorem bagMerge_insert_right {r : BagRange} {a d : List (BKey × Val)} {k : BKey} (w : Val)
    (ha : bagSorted a = true) (hd : bagSorted d = true) (hka : bagKeysOk r a = true)
    (hkd : bagKeysOk r d = true) (hk : k.inRange r = true) :
    bagMerge a (bagInsert k w d) = bagInsert k w (bagMerge a d) := by
  have htd : ∀ y ∈ d, BKey.Tri k y.1 :=
    fun y hy => BKey.tri_of_inRange hk ((bagKeysOk_iff r _).mp hkd y hy)
  have hta : ∀ y ∈ a, BKey.Tri k y.1 :=
    fun y hy => BKey.tri_of_inRange hk ((bagKeysOk_iff r _).mp hka y hy)
  rw [bagMerge_comm ha (bagInsert_sorted hd htd) hka (bagInsert_keysOk hk hkd),
    bagMerge_insert_left w d hta, bagMerge_comm hd ha hkd hka]

theorem bagMerge_assoc {r : BagRange} {a b c : List (BKey × Val)} (ha : bagSorted a = true)
    (hb : bagSorted b = true) (hc : bagSorted c = true) (hka : bagKeysOk r a = true)
    (hkb : bagKeysOk r b = true) (hkc : bagKeysOk r c = true) :
    bagMerge (bagMerge a b) c = bagMerge a (bagMerge b c) := by
  induction c with
  | nil => rfl
  | cons x c' ih =>
    obtain ⟨k, w⟩ := x
    have hc' := bagSorted_tail hc
    have hx : k.inRange r = true := (bagKeysOk_iff r _).mp hkc (k, w) (List.mem_cons_self ..)
    have hkc' : bagKeysOk r c' = true :=
      (bagKeysOk_iff r _).mpr (fun y hy => (bagKeysOk_iff r _).mp hkc y (List.mem_cons_of_mem _ hy))
    have hbc := bagMerge_sorted_keysOk hb hkb hkc'
    rw [bagMerge_cons, bagMerge_cons]
    show bagMerge (bagInsert k w (bagMerge a b)) c' = bagMerge a (bagMerge (bagInsert k w b) c')
    rw [bagMerge_insert_left w _ (bagSorted_head_tri hc), ih hc' hkc',
      bagMerge_insert_left w b (bagSorted_head_tri hc),
      bagMerge_insert_right w ha hbc.1 hka hbc.2 hx]

/-! ### associativity of the merge without any assumption on the range of the keys

`BKey.lt` is only a partial order on arbitrary keys, and `bagMerge` of two sorted lists with
mutually incomparable keys is in general not sorted; it still satisfies the weaker invariant
`bagW` (no later key is `≤` an earlier one), which is enough for associativity. -/

/-- no later key is equal to, or smaller than, an earlier key -/
def bagW (d : List (BKey × Val)) : Prop :=
  d.Pairwise (fun u v => v.1 ≠ u.1 ∧ BKey.lt v.1 u.1 = false)

theorem bagW_of_sorted {d : List (BKey × Val)} (h : bagSorted d = true) : bagW d := by
  induction d with
  | nil => exact List.Pairwise.nil
  | cons a l ih =>
    refine List.pairwise_cons.mpr ⟨fun v hv => ?_, ih (bagSorted_tail h)⟩
    have := bagSorted_head_lt h v hv
    exact ⟨(BKey.ne_of_lt this).symm, BKey.lt_asymm this⟩

theorem bagW_insert (k : BKey) (w : Val) {d : List (BKey × Val)} (h : bagW d) :
    bagW (bagInsert k w d) := by
  induction d with
  | nil => simp [bagInsert, bagW]
  | cons y d' ih =>
    obtain ⟨k0, v0⟩ := y
    have h' := List.pairwise_cons.mp h
    simp only [bagInsert]
    split
    · exact List.pairwise_cons.mpr ⟨h'.1, h'.2⟩
    · rename_i hne
      split
      · rename_i hlt
        refine List.pairwise_cons.mpr ⟨fun v hv => ?_, h⟩
        rcases List.mem_cons.mp hv with rfl | hv
        · exact ⟨hne, BKey.lt_asymm hlt⟩
        · have hv' := h'.1 v hv
          refine ⟨fun e => ?_, ?_⟩
          · rw [e, hlt] at hv'; exact absurd hv'.2 (by simp)
          · cases hh : BKey.lt v.1 k with
            | false => rfl
            | true => rw [BKey.lt_trans hh hlt] at hv'; exact absurd hv'.2 (by simp)
      · rename_i hlt
        refine List.pairwise_cons.mpr ⟨?_, ih h'.2⟩
        exact bagInsert_forall (P := fun key => key ≠ k0 ∧ BKey.lt key k0 = false)
          ⟨Ne.symm hne, by simpa using hlt⟩ h'.1

theorem bagW_merge {a : List (BKey × Val)} (b : List (BKey × Val)) (h : bagW a) :
    bagW (bagMerge a b) := by
  induction b generalizing a with
  | nil => exact h
  | cons x b' ih => exact ih (bagW_insert x.1 x.2 h)

theorem bagMerge_forall {P : BKey → Prop} {a b : List (BKey × Val)} (ha : ∀ x ∈ a, P x.1)
    (hb : ∀ x ∈ b, P x.1) : ∀ x ∈ bagMerge a b, P x.1 := by
  induction b generalizing a with
  | nil => exact ha
  | cons x b' ih =>
    exact ih (bagInsert_forall (hb x (List.mem_cons_self ..)) ha)
      (fun y hy => hb y (List.mem_cons_of_mem _ hy))

theorem bagSorted_tri {b : List (BKey × Val)} (h : bagSorted b = true) :
    ∀ u ∈ b, ∀ v ∈ b, u.1 ≠ v.1 → BKey.lt u.1 v.1 = true ∨ BKey.lt v.1 u.1 = true := by
  induction b with
  | nil => intro u hu; cases hu
  | cons a l ih =>
    intro u hu v hv hne
    rcases List.mem_cons.mp hu with eu | hu' <;> rcases List.mem_cons.mp hv with ev | hv'
    · exact absurd (by rw [eu, ev]) hne
    · rw [eu]; exact Or.inl (bagSorted_head_lt h v hv')
    · rw [ev]; exact Or.inr (bagSorted_head_lt h u hu')
    · exact ih (bagSorted_tail h) u hu' v hv' hne

theorem bagSorted_iff_pairwise (l : List (BKey × Val)) :
    bagSorted l = true ↔ l.Pairwise (fun u v => BKey.lt u.1 v.1 = true) := by
  induction l with
  | nil => simp [bagSorted]
  | cons a l ih =>
    constructor
    · intro h
      exact List.pairwise_cons.mpr ⟨bagSorted_head_lt h, ih.mp (bagSorted_tail h)⟩
    · intro h
      have h' := List.pairwise_cons.mp h
      cases l with
      | nil => rfl
      | cons b r =>
        simp only [bagSorted, Bool.and_eq_true]
        exact ⟨h'.1 b (List.mem_cons_self ..), ih.mpr h'.2⟩

/-- strictly sorted Bag entries have pairwise distinct keys (`BKey.lt` is irreflexive) -/
theorem bagSorted_nodup_keys {l : List (BKey × Val)} (h : bagSorted l = true) :
    (l.map (·.1)).Nodup := by
  rw [List.Nodup, List.pairwise_map]
  exact ((bagSorted_iff_pairwise l).mp h).imp (fun hlt => BKey.ne_of_lt hlt)

/-- the leaf invariant of a Bag gives strictly sorted entries, whatever `entries` is -/
theorem bagSorted_of_leafGoodCore {q : Qty} {r : BagRange} {e : Val} {m : List (BKey × Val)}
    (h : leafGoodCore (.bag q r) e (.bag m) = true) : bagSorted m = true := by
  simp only [leafGoodCore, Bool.and_eq_true] at h
  cases e with
  | fin x =>
    simp only [Bool.and_eq_true] at h
    by_cases hx : x = 0
    · simp only [hx, if_true, St.zero, decide_eq_true_eq] at h
      have hm : m = [] := by injection (of_decide_eq_true h.2.2)
      rw [hm]; rfl
    · simp only [hx, if_false] at h
      exact h.2.2
  | _ => simp at h

theorem bagMerge_append (a l1 l2 : List (BKey × Val)) :
    bagMerge a (l1 ++ l2) = bagMerge (bagMerge a l1) l2 := by
  simp [bagMerge, List.foldl_append]

/-- inserting into the right operand of a merge, when the right operand is weakly sorted, its
keys come from a pairwise comparable set `Pb` or from a set `Pc` of keys below the new key -/
theorem bagMerge_insert_right_w {Pb Pc : BKey → Prop} {k : BKey} (w : Val)
    (H1 : ∀ k', Pc k' → BKey.lt k' k = true)
    (H2 : ∀ k1 k2, Pb k1 → Pb k2 → k1 ≠ k2 → BKey.lt k1 k2 = true ∨ BKey.lt k2 k1 = true)
    (d : List (BKey × Val)) (hW : bagW d) (hK : ∀ u ∈ d, Pb u.1 ∨ Pc u.1) (a : List (BKey × Val)) :
    bagMerge a (bagInsert k w d) = bagInsert k w (bagMerge a d) := by
  induction d generalizing a with
  | nil => rfl
  | cons y d' ih =>
    obtain ⟨k0, v0⟩ := y
    have hW' := List.pairwise_cons.mp hW
    have hK0 := hK (k0, v0) (List.mem_cons_self ..)
    have hK' : ∀ u ∈ d', Pb u.1 ∨ Pc u.1 := fun u hu => hK u (List.mem_cons_of_mem _ hu)
    -- every later key is comparable with `k` as soon as `k ≤ k0`
    have later : (k0 = k ∨ BKey.lt k k0 = true) → ∀ z ∈ d', BKey.Tri k z.1 := by
      intro hle z hz
      rcases hK' z hz with hb | hc
      · have hb0 : Pb k0 := by
          rcases hK0 with hb0 | hc0
          · exact hb0
          · have := H1 k0 hc0
            rcases hle with e | hl
            · rw [e, BKey.lt_irrefl] at this; exact absurd this (by simp)
            · rw [BKey.lt_asymm hl] at this; exact absurd this (by simp)
        have hz' := hW'.1 z hz
        have hlt : BKey.lt k0 z.1 = true := by
          rcases H2 k0 z.1 hb0 hb (Ne.symm hz'.1) with h | h
          · exact h
          · rw [h] at hz'; exact absurd hz'.2 (by simp)
        rcases hle with e | hl
        · exact Or.inr (Or.inl (e ▸ hlt))
        · exact Or.inr (Or.inl (BKey.lt_trans hl hlt))
      · exact Or.inr (Or.inr (H1 z.1 hc))
    simp only [bagInsert]
    split
    · rename_i he
      subst he
      rw [bagMerge_cons, bagMerge_cons]
      show bagMerge (bagInsert k0 (v0 + w) a) d' = bagInsert k0 w (bagMerge (bagInsert k0 v0 a) d')
      rw [← bagInsert_twice k0 v0 w a, bagMerge_insert_left w _ (later (Or.inl rfl))]
    · split
      · rename_i hlt
        rw [bagMerge_cons]
        show bagMerge (bagInsert k w a) ((k0, v0) :: d') = _
        refine bagMerge_insert_left w a (fun z hz => ?_)
        rcases List.mem_cons.mp hz with rfl | hz
        · exact Or.inr (Or.inl hlt)
        · exact later (Or.inr hlt) z hz
      · rw [bagMerge_cons, bagMerge_cons]
        exact ih hW'.2 hK' _

/-- `bagMerge` is associative on sorted lists (no assumption on the range of the keys, and none
on the left operand) -/
theorem bagMerge_assoc_gen (a : List (BKey × Val)) {b c : List (BKey × Val)}
    (hb : bagSorted b = true) (hc : bagSorted c = true) :
    bagMerge (bagMerge a b) c = bagMerge a (bagMerge b c) := by
  induction c using List.reverseRecOn with
  | nil => rfl
  | append_singleton c' x ih =>
    obtain ⟨k, w⟩ := x
    have hp := List.pairwise_append.mp ((bagSorted_iff_pairwise _).mp hc)
    have hc' : bagSorted c' = true := (bagSorted_iff_pairwise _).mpr hp.1
    have hx : ∀ y ∈ c', BKey.lt y.1 k = true := fun y hy => hp.2.2 y hy (k, w) (List.mem_singleton.mpr rfl)
    rw [bagMerge_append, bagMerge_append, ih hc']
    show bagInsert k w (bagMerge a (bagMerge b c')) = bagMerge a (bagInsert k w (bagMerge b c'))
    rw [bagMerge_insert_right_w (Pb := fun key => ∃ u ∈ b, u.1 = key)
      (Pc := fun key => ∃ u ∈ c', u.1 = key) w]
    · rintro k' ⟨u, hu, rfl⟩
      exact hx u hu
    · rintro k1 k2 ⟨u, hu, rfl⟩ ⟨v, hv, rfl⟩ hne
      exact bagSorted_tri hb u hu v hv hne
    · exact bagW_merge c' (bagW_of_sorted hb)
    · exact bagMerge_forall (P := fun key => (∃ u ∈ b, u.1 = key) ∨ (∃ u ∈ c', u.1 = key))
        (fun u hu => Or.inl ⟨u, hu, rfl⟩) (fun u hu => Or.inr ⟨u, hu, rfl⟩)

/-! ### scaling -/

theorem bagInsert_map (φ : Val → Val) (hφ : ∀ a b, φ (a + b) = φ a + φ b) (k : BKey) (w : Val)
    (l : List (BKey × Val)) :
    bagInsert k (φ w) (l.map (fun kv => (kv.1, φ kv.2)))
      = (bagInsert k w l).map (fun kv => (kv.1, φ kv.2)) := by
  induction l with
  | nil => rfl
  | cons x rest ih =>
    obtain ⟨k0, v0⟩ := x
    simp only [List.map_cons, bagInsert]
    split
    · simp [hφ]
    · split
      · simp
      · simp [ih]

theorem bagMerge_map (φ : Val → Val) (hφ : ∀ a b, φ (a + b) = φ a + φ b) (a b : List (BKey × Val)) :
    bagMerge (a.map (fun kv => (kv.1, φ kv.2))) (b.map (fun kv => (kv.1, φ kv.2)))
      = (bagMerge a b).map (fun kv => (kv.1, φ kv.2)) := by
  induction b generalizing a with
  | nil => rfl
  | cons x b' ih =>
    simp only [List.map_cons, bagMerge_cons]
    rw [bagInsert_map φ hφ, ih]

theorem bagSorted_map (φ : Val → Val) (l : List (BKey × Val)) :
    bagSorted (l.map (fun kv => (kv.1, φ kv.2))) = bagSorted l := by
  induction l with
  | nil => rfl
  | cons a rest ih =>
    cases rest with
    | nil => rfl
    | cons b rest' =>
      simp only [List.map_cons, bagSorted] at ih ⊢
      rw [ih]

theorem bagKeysOk_map (r : BagRange) (φ : Val → Val) (l : List (BKey × Val)) :
    bagKeysOk r (l.map (fun kv => (kv.1, φ kv.2))) = bagKeysOk r l := by
  simp [bagKeysOk, List.all_map, Function.comp_def]

theorem bagMerge_cons_left {y : BKey × Val} (c : List (BKey × Val)) {b : List (BKey × Val)}
    (h : ∀ x ∈ b, BKey.lt y.1 x.1 = true) : bagMerge (y :: c) b = y :: bagMerge c b := by
  induction b generalizing c with
  | nil => rfl
  | cons x b' ih =>
    obtain ⟨k, w⟩ := x
    obtain ⟨k0, v0⟩ := y
    have h0 : BKey.lt k0 k = true := h (k, w) (List.mem_cons_self ..)
    have h1 : k0 ≠ k := BKey.ne_of_lt h0
    have h2 : BKey.lt k k0 = false := BKey.lt_asymm h0
    rw [bagMerge_cons, bagMerge_cons]
    show bagMerge (bagInsert k w ((k0, v0) :: c)) b' = _
    simp only [bagInsert, h1, h2, if_false, Bool.false_eq_true]
    exact ih _ (fun x hx => h x (List.mem_cons_of_mem _ hx))

theorem bagMerge_self {a : List (BKey × Val)} (ha : bagSorted a = true) :
    bagMerge a a = a.map (fun kv => (kv.1, kv.2 + kv.2)) := by
  induction a with
  | nil => rfl
  | cons x a' ih =>
    obtain ⟨k, w⟩ := x
    rw [bagMerge_cons]
    show bagMerge (bagInsert k w ((k, w) :: a')) a' = _
    simp only [bagInsert, if_true, List.map_cons]
    rw [bagMerge_cons_left (y := (k, w + w)) a' (bagSorted_head_lt (a := (k, w)) ha), ih (bagSorted_tail ha)]

end Hg
