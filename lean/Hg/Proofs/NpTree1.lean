/-
  Hg.Proofs.NpTree1 — the row-wise run of a container decomposed child by child:
  after `fillAll (node …) S` every child holds `fillAll child (maskS … key S)`, where `maskS` hands
  the child the weight `route` gives it row by row and 0 elsewhere.
-/
import Hg.Model.Np
import Hg.Model.Spec
import Hg.Model.NpHyp
import Hg.Proofs.TreeLaws3

namespace Hg.Np

/-! ### masks -/

/-- the weight a routing result hands to child `key` (0 if it is not a target) -/
def tgW (tg : List (Key × Val)) (key : Key) : Val :=
  match lookupK key tg with
  | some w' => w'
  | none => 0

/-- the weight child `key` receives from the row `(d, w)` in the row-wise run -/
def rowMask (k : Kind) (keys : List Key) (key : Key) (d : Datum) (w : Val) : Val :=
  if w.pos then
    (match route k keys d w with
     | .ok tg => tgW tg key
     | .error _ => 0)
  else 0

/-- the stream child `key` sees -/
def maskS (k : Kind) (keys : List Key) (key : Key) (S : List (Datum × Val)) : List (Datum × Val) :=
  S.map (fun p => (p.1, rowMask k keys key p.1 p.2))

/-- the row `(d, w)` is routed, with positive weight, to the bin `key` of a sparse container -/
def hit1 (k : Kind) (keys : List Key) (key : Key) (d : Datum) (w : Val) : Prop :=
  k.isSparse = true ∧ w.pos = true ∧ route k keys d w = .ok [(key, w)]

def hit (k : Kind) (keys : List Key) (key : Key) (S : List (Datum × Val)) : Prop :=
  ∃ p ∈ S, hit1 k keys key p.1 p.2

/-- `entries` after the run -/
def entAfter (e : Val) (S : List (Datum × Val)) : Val :=
  S.foldl (fun acc p => if p.2.pos then acc + p.2 else acc) e

theorem pos_zero : (0 : Val).pos = false := by decide

theorem fill_zero (a : Agg) (d : Datum) : fill a d 0 = (a, .ok) := P3.fill_gate' a d 0 pos_zero

theorem tgW_single (key0 key : Key) (w : Val) :
    tgW [(key0, w)] key = if key0 = key then w else 0 := by
  unfold tgW
  rw [P3.lookupK_single]
  by_cases h : key0 = key
  · rw [if_pos h, if_pos h]
  · rw [if_neg h, if_neg h]

theorem lookupK_none_iff {α : Type} {j : Key} {l : List (Key × α)} :
    lookupK j l = none ↔ j ∉ keysOf l := by
  constructor
  · intro h hm
    obtain ⟨a, ha⟩ := P3.lookupK_isSome_of_mem hm
    rw [h] at ha; cases ha
  · exact P3.lookupK_none_of_not_mem

theorem hasKey_false_lookup {key : Key} {l : List (Key × Agg)} (h : hasKey key l = false) :
    lookupK key l = none := by
  unfold hasKey at h
  cases hl : lookupK key l with
  | none => rfl
  | some a => rw [hl] at h; cases h

theorem hasKey_true_lookup {key : Key} {l : List (Key × Agg)} (h : hasKey key l = true) :
    ∃ a, lookupK key l = some a := by
  unfold hasKey at h
  cases hl : lookupK key l with
  | none => rw [hl] at h; cases h
  | some a => exact ⟨a, rfl⟩

/-! ### `fillKids` by lookup -/

theorem fillKids_lookup (tg : List (Key × Val)) (d : Datum) :
    ∀ (kids : List (Key × Agg)), (fillKids kids tg d).2 = .ok →
      ∀ key a, lookupK key kids = some a →
        lookupK key (fillKids kids tg d).1 = some (fill a d (tgW tg key)).1 ∧
          (fill a d (tgW tg key)).2 = .ok
  | [], _, key, a, h => by cases h
  | (k', a') :: rest, hok, key, a, h => by
    rw [P3.lookupK_cons] at h
    cases hl : lookupK k' tg with
    | none =>
      rw [P3.fillKids_cons_none hl] at hok ⊢
      rw [P3.lookupK_cons]
      by_cases hk : k' = key
      · rw [if_pos hk] at h ⊢
        cases h
        subst hk
        have : tgW tg k' = 0 := by unfold tgW; rw [hl]
        rw [this, fill_zero]
        exact ⟨rfl, rfl⟩
      · rw [if_neg hk] at h ⊢
        exact fillKids_lookup tg d rest hok key a h
    | some w' =>
      rw [P3.fillKids_cons_some hl] at hok ⊢
      by_cases ho : (fill a' d w').2.isOk = true
      · rw [if_pos ho] at hok ⊢
        rw [P3.lookupK_cons]
        by_cases hk : k' = key
        · rw [if_pos hk] at h ⊢
          cases h
          subst hk
          have : tgW tg k' = w' := by unfold tgW; rw [hl]
          rw [this]
          exact ⟨rfl, (P3.Outcome.isOk_iff _).1 ho⟩
        · rw [if_neg hk] at h ⊢
          exact fillKids_lookup tg d rest hok key a h
      · rw [if_neg ho] at hok
        exact absurd ((P3.Outcome.isOk_iff _).2 hok) ho

theorem fillKids_lookup_none (tg : List (Key × Val)) (d : Datum) (kids : List (Key × Agg)) (key : Key)
    (h : lookupK key kids = none) : lookupK key (fillKids kids tg d).1 = none := by
  rw [lookupK_none_iff] at h ⊢
  rw [P3.keysOf_fillKids]
  exact h

/-! ### one row -/

theorem rowMask_nonpos_of_not_hit {k : Kind} (hs : k.isSparse = true) {keys : List Key} {key : Key}
    {d : Datum} {w : Val} (hn : ¬ hit1 k keys key d w) : rowMask k keys key d w = 0 := by
  unfold rowMask
  by_cases hp : w.pos = true
  · rw [if_pos hp]
    cases hr : route k keys d w with
    | error f => rfl
    | ok tg =>
      obtain ⟨key0, rfl, _⟩ := P3.route_sparse hs hr
      show tgW [(key0, w)] key = 0
      rw [tgW_single]
      by_cases hk : key0 = key
      · subst hk
        exact absurd ⟨hs, hp, hr⟩ hn
      · rw [if_neg hk]
  · rw [if_neg hp]

/-- one fill of a container, child by child -/
theorem fill_step {k : Kind} {e : Val} {st : St} {tmpl : Option Agg} {kids : List (Key × Agg)}
    {d : Datum} {w : Val} (hk : k.isLeaf = false)
    (hok : (fill (.node k e st tmpl kids) d w).2 = .ok) :
    ∃ kids1, (fill (.node k e st tmpl kids) d w).1 = .node k (if w.pos then e + w else e) st tmpl kids1 ∧
      (∀ key a, lookupK key kids = some a →
        lookupK key kids1 = some (fill a d (rowMask k (keysOf kids) key d w)).1 ∧
        (fill a d (rowMask k (keysOf kids) key d w)).2 = .ok) ∧
      (∀ key, lookupK key kids = none → hit1 k (keysOf kids) key d w →
        ∃ t, tmpl = some t ∧
          lookupK key kids1 = some (fill t d (rowMask k (keysOf kids) key d w)).1 ∧
          (fill t d (rowMask k (keysOf kids) key d w)).2 = .ok) ∧
      (∀ key, lookupK key kids = none → ¬ hit1 k (keysOf kids) key d w → lookupK key kids1 = none) ∧
      (k.isSparse = false → keysOf kids1 = keysOf kids) := by
  by_cases hp : w.pos = true
  · cases hr : route k (keysOf kids) d w with
    | error f =>
      rw [P3.fill_route_err hp hk hr] at hok
      cases hok
    | ok tg =>
      have hrm : ∀ key, rowMask k (keysOf kids) key d w = tgW tg key := by
        intro key; unfold rowMask; rw [if_pos hp, hr]
      by_cases hs : k.isSparse = true
      · obtain ⟨key0, rfl, _⟩ := P3.route_sparse hs hr
        by_cases hh : hasKey key0 kids = true
        · rw [P3.fill_sparse_has hp hk hs hr hh] at hok ⊢
          simp only at hok
          refine ⟨(fillKids kids [(key0, w)] d).1, ?_, ?_, ?_, ?_, ?_⟩
          · simp only [hok, Outcome.isOk, if_true, hp]
          · intro key a ha
            rw [hrm]
            exact fillKids_lookup _ d kids hok key a ha
          · intro key hn hh1
            exfalso
            have : key0 = key := by
              have := hh1.2.2
              rw [hr] at this
              injection this with this
              injection this with this
              injection this with this
            subst this
            obtain ⟨a, ha⟩ := hasKey_true_lookup hh
            rw [hn] at ha; cases ha
          · intro key hn _
            exact fillKids_lookup_none _ d kids key hn
          · intro hs'; rw [hs] at hs'; cases hs'
        · have hh' : hasKey key0 kids = false := by simpa using hh
          have hn0 := hasKey_false_lookup hh'
          rw [P3.fill_sparse_new hp hk hs hr hh'] at hok ⊢
          cases tmpl with
          | none => simp only [fillTmpl] at hok; cases hok
          | some t =>
            simp only [fillTmpl] at hok ⊢
            cases hf : fill t d w with
            | mk nb o =>
              rw [hf] at hok
              cases o with
              | raised f => simp only at hok; cases hok
              | ok =>
                simp only
                refine ⟨insertK key0 nb kids, ?_, ?_, ?_, ?_, ?_⟩
                · simp only [hp, if_true]
                · intro key a ha
                  have hne : ¬ key = key0 := by
                    intro e; subst e; rw [hn0] at ha; cases ha
                  rw [P3.lookupK_insertK key0 nb kids hn0, if_neg hne, hrm, tgW_single,
                    if_neg (fun e => hne e.symm), fill_zero]
                  exact ⟨ha, rfl⟩
                · intro key _ hh1
                  have : key0 = key := by
                    have := hh1.2.2
                    rw [hr] at this
                    injection this with this
                    injection this with this
                    injection this with this
                  subst this
                  refine ⟨t, rfl, ?_, ?_⟩
                  · rw [P3.lookupK_insertK key0 nb kids hn0, if_pos rfl, hrm, tgW_single, if_pos rfl, hf]
                  · rw [hrm, tgW_single, if_pos rfl, hf]
                · intro key hn hh1
                  have hne : ¬ key = key0 := by
                    intro e; subst e; exact hh1 ⟨hs, hp, hr⟩
                  rw [P3.lookupK_insertK key0 nb kids hn0, if_neg hne]
                  exact hn
                · intro hs'; rw [hs] at hs'; cases hs'
      · have hs' : k.isSparse = false := by simpa using hs
        rw [P3.fill_fixed hp hk hs' hr] at hok ⊢
        simp only at hok
        refine ⟨(fillKids kids tg d).1, ?_, ?_, ?_, ?_, ?_⟩
        · simp only [hok, Outcome.isOk, if_true, hp]
        · intro key a ha
          rw [hrm]
          exact fillKids_lookup _ d kids hok key a ha
        · intro key _ hh1
          rw [hh1.1] at hs'; cases hs'
        · intro key hn _
          exact fillKids_lookup_none _ d kids key hn
        · intro _
          exact P3.keysOf_fillKids tg d kids
  · have hp' : w.pos = false := by simpa using hp
    rw [P3.fill_gate' _ d w hp']
    have hrm : ∀ key, rowMask k (keysOf kids) key d w = 0 := by
      intro key; unfold rowMask; rw [if_neg hp]
    refine ⟨kids, ?_, ?_, ?_, ?_, ?_⟩
    · simp only [hp', Bool.false_eq_true, if_false]
    · intro key a ha
      rw [hrm, fill_zero]
      exact ⟨ha, rfl⟩
    · intro key _ hh1
      rw [hh1.2.1] at hp'; cases hp'
    · intro key hn _
      exact hn
    · intro _; rfl

/-! ### the whole run -/

theorem good_of_lookup {k : Kind} {e : Val} {st : St} {tmpl : Option Agg} {kids : List (Key × Agg)}
    (hg : good (.node k e st tmpl kids) = true) {key : Key} {a : Agg} (ha : lookupK key kids = some a) :
    good a = true :=
  (P3.good_node hg).gkids _ (P3.lookupK_mem ha)

theorem okWeight_of_nonpos {w : Val} (h : w.pos = false) : w.okWeight = true := by
  unfold Val.okWeight; rw [h]; rfl

theorem maskS_cons (k : Kind) (keys : List Key) (key : Key) (p : Datum × Val) (S : List (Datum × Val)) :
    maskS k keys key (p :: S) = (p.1, rowMask k keys key p.1 p.2) :: maskS k keys key S := rfl

theorem entAfter_cons (e : Val) (p : Datum × Val) (S : List (Datum × Val)) :
    entAfter e (p :: S) = entAfter (if p.2.pos then e + p.2 else e) S := rfl

theorem rowMask_congr {k : Kind} {keys keys' : List Key} (h : ∀ d w, route k keys d w = route k keys' d w)
    (key : Key) (d : Datum) (w : Val) : rowMask k keys key d w = rowMask k keys' key d w := by
  unfold rowMask; rw [h]

theorem hit1_congr {k : Kind} {keys keys' : List Key} (h : ∀ d w, route k keys d w = route k keys' d w)
    (key : Key) (d : Datum) (w : Val) : hit1 k keys key d w ↔ hit1 k keys' key d w := by
  unfold hit1; rw [h]

/-- the row-wise run of a container, child by child -/
theorem run_decomp {k : Kind} {st : St} {tmpl : Option Agg} (hk : k.isLeaf = false) (keys0 : List Key) :
    ∀ (S : List (Datum × Val)) (kids : List (Key × Agg)) (e : Val),
      (∀ d w, route k (keysOf kids) d w = route k keys0 d w) →
      goodRun (.node k e st tmpl kids) S = true →
      ∃ kidsF, fillAll (.node k e st tmpl kids) S = .node k (entAfter e S) st tmpl kidsF ∧
        (∀ key a, lookupK key kids = some a →
          lookupK key kidsF = some (fillAll a (maskS k keys0 key S)) ∧
          goodRun a (maskS k keys0 key S) = true) ∧
        (∀ key, lookupK key kids = none → hit k keys0 key S →
          ∃ t, tmpl = some t ∧ lookupK key kidsF = some (fillAll t (maskS k keys0 key S)) ∧
            goodRun t (maskS k keys0 key S) = true) ∧
        (∀ key, lookupK key kids = none → ¬ hit k keys0 key S → lookupK key kidsF = none) ∧
        (k.isSparse = false → keysOf kidsF = keysOf kids)
  | [], kids, e, _, hrun => by
    refine ⟨kids, rfl, ?_, ?_, ?_, ?_⟩
    · intro key a ha
      exact ⟨ha, good_of_lookup hrun ha⟩
    · rintro key _ ⟨p, hp, _⟩
      cases hp
    · intro key hn _
      exact hn
    · intro _; rfl
  | (d, w) :: S, kids, e, hroute, hrun => by
    obtain ⟨hg, how, hok, hrun1⟩ := (goodRun_cons _ _ _).1 hrun
    obtain ⟨kids1, hN1, h1, h2, h3, h4⟩ := fill_step (e := e) (st := st) (tmpl := tmpl) hk hok
    simp only at hN1 h1 h2 h3 hok hrun1
    rw [hN1] at hrun1
    have hg1 : good (.node k (if w.pos then e + w else e) st tmpl kids1) = true := goodRun_good _ _ hrun1
    have hroute1 : ∀ d w, route k (keysOf kids1) d w = route k keys0 d w := by
      intro d' w'
      by_cases hs : k.isSparse = true
      · rw [P3.route_sparse_keys hs (keysOf kids1) (keysOf kids)]; exact hroute d' w'
      · rw [h4 (by simpa using hs)]; exact hroute d' w'
    obtain ⟨kidsF, hF, f1, f2, f3, f4⟩ := run_decomp hk keys0 S kids1 _ hroute1 hrun1
    have hm : ∀ key, rowMask k (keysOf kids) key d w = rowMask k keys0 key d w :=
      fun key => rowMask_congr hroute key d w
    refine ⟨kidsF, ?_, ?_, ?_, ?_, ?_⟩
    · rw [fillAll_cons, entAfter_cons]
      simp only
      rw [hN1, hF]
    · intro key a ha
      obtain ⟨hl1, hok1⟩ := h1 key a ha
      rw [hm] at hl1 hok1
      obtain ⟨hlF, hrF⟩ := f1 key _ hl1
      rw [maskS_cons]
      refine ⟨by rw [fillAll_cons]; exact hlF, ?_⟩
      rw [goodRun_cons]
      have hga := good_of_lookup hg ha
      exact ⟨hga, P3.okWeight_of_good_fill hga hok1 (goodRun_good _ _ hrF), hok1, hrF⟩
    · intro key hn hh
      by_cases hh1 : hit1 k (keysOf kids) key d w
      · obtain ⟨t, ht, hl1, hok1⟩ := h2 key hn hh1
        rw [hm] at hl1 hok1
        obtain ⟨hlF, hrF⟩ := f1 key _ hl1
        refine ⟨t, ht, ?_, ?_⟩
        · rw [maskS_cons, fillAll_cons]; exact hlF
        · rw [maskS_cons, goodRun_cons]
          have hgt := ((P3.good_node hg).gtmpl t ht).1
          exact ⟨hgt, P3.okWeight_of_good_fill hgt hok1 (goodRun_good _ _ hrF), hok1, hrF⟩
      · have hl1 := h3 key hn hh1
        have hhS : hit k keys0 key S := by
          obtain ⟨p, hp, hp1⟩ := hh
          rcases List.mem_cons.1 hp with rfl | hp
          · exact absurd ((hit1_congr hroute key _ _).2 hp1) hh1
          · exact ⟨p, hp, hp1⟩
        obtain ⟨t, ht, hlF, hrF⟩ := f2 key hl1 hhS
        have hs : k.isSparse = true := by
          obtain ⟨p, _, hp1⟩ := hhS
          exact hp1.1
        have hz : rowMask k keys0 key d w = 0 := by
          rw [← hm]; exact rowMask_nonpos_of_not_hit hs hh1
        refine ⟨t, ht, ?_, ?_⟩
        · rw [maskS_cons, fillAll_cons]
          simp only
          rw [hz, fill_zero]; exact hlF
        · rw [maskS_cons, goodRun_cons]
          simp only
          rw [hz, fill_zero]
          exact ⟨((P3.good_node hg).gtmpl t ht).1, okWeight_of_nonpos pos_zero, rfl, hrF⟩
    · intro key hn hh
      have hh1 : ¬ hit1 k (keysOf kids) key d w := by
        intro h
        exact hh ⟨(d, w), List.mem_cons_self .., (hit1_congr hroute key _ _).1 h⟩
      have hl1 := h3 key hn hh1
      apply f3 key hl1
      rintro ⟨p, hp, hp1⟩
      exact hh ⟨p, List.mem_cons_of_mem _ hp, hp1⟩
    · intro hs
      rw [f4 hs, h4 hs]

end Hg.Np
