/-
  Hg.Proofs.CompatLaws — incompatible aggregators are never merged (C10), and `+=` agrees with `+`
  (C07) in the code's order of effects (`iaddCode`, Hg.Model.Spec).
-/
import Hg.Model.Spec
import Hg.Proofs.TreeLaws1
import Hg.Proofs.SortedKids

namespace Hg.P7

/-! ### unfolding lemmas -/

/-- the representative check of `_checkContentCompatible`: the template (or, without one, the first
bin) of the right operand against the template (or first bin) of the left one -/
def repOk (t1 : Option Agg) (kids1 : List (Key × Agg)) (t2 : Option Agg) (kids2 : List (Key × Agg)) :
    Bool :=
  match (match t2 with | some t => some t | none => firstBin kids2) with
  | none => true
  | some th =>
    match t1 with
    | some m => compat m th
    | none => compatFirst kids1 th

theorem compat_node (k1 : Kind) (e1 : Val) (s1 : St) (t1 : Option Agg) (kids1 : List (Key × Agg))
    (k2 : Kind) (e2 : Val) (s2 : St) (t2 : Option Agg) (kids2 : List (Key × Agg)) :
    compat (.node k1 e1 s1 t1 kids1) (.node k2 e2 s2 t2 kids2) =
      (k1.sameShape k2 &&
      (if k1.isSparse then
         compatShared kids1 kids2 &&
         repOk t1 kids1 t2 kids2
       else compatZip kids1 kids2)) := by
  cases t1 <;> cases t2 <;> rw [compat] <;> rfl

theorem compat_sameShape (a b : Agg) (h : compat a b = true) : a.kind.sameShape b.kind = true := by
  obtain ⟨k1, e1, s1, t1, kids1⟩ := a
  obtain ⟨k2, e2, s2, t2, kids2⟩ := b
  rw [compat_node, Bool.and_eq_true] at h
  exact h.1

theorem Kind.sameShape_typeName (k1 k2 : Kind) (h : k1.sameShape k2 = true) :
    k1.typeName = k2.typeName := by
  cases k1 <;> cases k2 <;> simp [Kind.sameShape, Kind.typeName] at *

/-! ### `compatZip` / `compatShared` consequences -/

theorem compatZip_cons (k1 : Key) (a : Agg) (r1 : List (Key × Agg)) (k2 : Key) (b : Agg)
    (r2 : List (Key × Agg)) :
    compatZip ((k1, a) :: r1) ((k2, b) :: r2) = (decide (k1 = k2) && compat a b && compatZip r1 r2) := by
  rw [compatZip]

theorem compatShared_cons (k1 : Key) (a : Agg) (r1 kids2 : List (Key × Agg)) :
    compatShared ((k1, a) :: r1) kids2 =
      ((match lookupK k1 kids2 with
        | some b => compat a b
        | none => true) && compatShared r1 kids2) := by
  rw [compatShared] <;> rfl

theorem compatZip_keys : ∀ (xs ys : List (Key × Agg)), compatZip xs ys = true → keysOf xs = keysOf ys
  | [], [], _ => rfl
  | [], _ :: _, h => by simp [compatZip] at h
  | _ :: _, [], h => by simp [compatZip] at h
  | (k1, a) :: r1, (k2, b) :: r2, h => by
    rw [compatZip_cons] at h
    simp only [Bool.and_eq_true, decide_eq_true_eq] at h
    have := compatZip_keys r1 r2 h.2
    simp only [keysOf, List.map_cons] at this ⊢
    rw [h.1.1, this]

theorem compatZip_get : ∀ (xs ys : List (Key × Agg)) (i : Nat) (x y : Key × Agg),
    compatZip xs ys = true → xs[i]? = some x → ys[i]? = some y → compat x.2 y.2 = true
  | [], _, _, _, _, _, hx, _ => by simp at hx
  | _ :: _, [], _, _, _, _, _, hy => by simp at hy
  | (k1, a) :: r1, (k2, b) :: r2, i, x, y, h, hx, hy => by
    rw [compatZip_cons] at h
    simp only [Bool.and_eq_true, decide_eq_true_eq] at h
    cases i with
    | zero =>
      simp only [List.getElem?_cons_zero, Option.some.injEq] at hx hy
      subst hx; subst hy; exact h.1.2
    | succ i =>
      simp only [List.getElem?_cons_succ] at hx hy
      exact compatZip_get r1 r2 i x y h.2 hx hy

theorem lookupK_mem {α : Type} (key : Key) : ∀ (xs : List (Key × α)) (x : α),
    lookupK key xs = some x → (key, x) ∈ xs
  | [], _, h => by simp [lookupK] at h
  | (k', a) :: rest, x, h => by
    simp only [lookupK] at h
    split at h
    · rename_i hk
      simp only [Option.some.injEq] at h
      subst hk; subst h; exact List.mem_cons_self
    · exact List.mem_cons_of_mem _ (lookupK_mem key rest x h)

theorem compatShared_mem : ∀ (xs ys : List (Key × Agg)) (key : Key) (x y : Agg),
    compatShared xs ys = true → (key, x) ∈ xs → lookupK key ys = some y → compat x y = true
  | [], _, _, _, _, _, hm, _ => by simp at hm
  | (k1, a) :: r1, ys, key, x, y, h, hm, hl => by
    rw [compatShared_cons] at h
    simp only [Bool.and_eq_true] at h
    rcases List.mem_cons.mp hm with heq | hm'
    · simp only [Prod.mk.injEq] at heq
      obtain ⟨rfl, rfl⟩ := heq
      have h1 := h.1
      rw [hl] at h1
      exact h1
    · exact compatShared_mem r1 ys key x y h.2 hm' hl

/-! ### C10 -/

theorem compat_false_of_mismatch (a b : Agg) (h : Mismatch a b) : compat a b = false := by
  induction h with
  | here a b hs =>
    obtain ⟨k1, e1, s1, t1, kids1⟩ := a
    obtain ⟨k2, e2, s2, t2, kids2⟩ := b
    simp only [Agg.kind] at hs
    rw [compat_node, hs]; rfl
  | layout a b hsp hk =>
    obtain ⟨k1, e1, s1, t1, kids1⟩ := a
    obtain ⟨k2, e2, s2, t2, kids2⟩ := b
    simp only [Agg.kind, Agg.kids] at hsp hk
    rw [compat_node, hsp]
    cases hz : compatZip kids1 kids2
    · simp
    · exact absurd (compatZip_keys _ _ hz) hk
  | child a b i x y hsp hx hy _ ih =>
    obtain ⟨k1, e1, s1, t1, kids1⟩ := a
    obtain ⟨k2, e2, s2, t2, kids2⟩ := b
    simp only [Agg.kind, Agg.kids] at hsp hx hy
    rw [compat_node, hsp]
    cases hz : compatZip kids1 kids2
    · simp
    · have := compatZip_get _ _ i x y hz hx hy
      rw [ih] at this; cases this
  | shared a b key x y hsp hx hy _ ih =>
    obtain ⟨k1, e1, s1, t1, kids1⟩ := a
    obtain ⟨k2, e2, s2, t2, kids2⟩ := b
    simp only [Agg.kind, Agg.kids] at hsp hx hy
    rw [compat_node, hsp]
    cases hz : compatShared kids1 kids2
    · simp
    · have := compatShared_mem _ _ key x y hz (lookupK_mem _ _ _ hx) hy
      rw [ih] at this; cases this
  | tmpl a b x y hsp hx hy _ ih =>
    obtain ⟨k1, e1, s1, t1, kids1⟩ := a
    obtain ⟨k2, e2, s2, t2, kids2⟩ := b
    simp only [Agg.kind, Agg.tmpl] at hsp hx hy
    subst hx; subst hy
    rw [compat_node, hsp]
    simp only [if_true, repOk, ih]
    simp

/-- a structural mismatch anywhere makes `+` raise (in both operand orders: `Mismatch` is stated
for the pair as given; see `mismatch_symm_rejected`) -/
theorem _root_.Hg.mismatch_rejected (a b : Agg) (h : Mismatch a b) : add a b = none := by
  simp [add, compat_false_of_mismatch a b h]

/-- merging succeeds exactly when `compat` holds (by definition of `add`), and then no operand is
touched: `add` is a pure function -/
theorem _root_.Hg.add_some_iff_compat (a b : Agg) : (∃ c, add a b = some c) ↔ compat a b = true := by
  unfold add
  cases compat a b <;> simp

/-- different primitive types are never merged -/
theorem _root_.Hg.add_none_of_typeName (a b : Agg) (h : a.typeName ≠ b.typeName) : add a b = none := by
  unfold add
  cases hc : compat a b
  · simp
  · exact absurd (Kind.sameShape_typeName _ _ (compat_sameShape a b hc)) h

/-! `+=` in the code's order of effects -/

theorem compatFirstC_eq : ∀ (l : List (Key × Agg)) (th : Agg), compatFirstC l th = compatFirst l th
  | [], _ => by rw [compatFirstC, compatFirst]
  | (key, a) :: rest, th => by
    rw [compatFirstC, compatFirst, compatFirstC_eq rest th]

theorem iaddCode_node (k1 : Kind) (e1 : Val) (s1 : St) (t1 : Option Agg) (kids1 : List (Key × Agg))
    (k2 : Kind) (e2 : Val) (s2 : St) (t2 : Option Agg) (kids2 : List (Key × Agg)) :
    iaddCode (.node k1 e1 s1 t1 kids1) (.node k2 e2 s2 t2 kids2) =
      if !(k1.sameShape k2) then (.node k1 e1 s1 t1 kids1, false)
      else if k1.isLeaf then
        (.node k1 (leafAdd k1 e1 s1 e2 s2).1 (leafAdd k1 e1 s1 e2 s2).2 t1 kids1, true)
      else if k1.isSparse then
        if !(repOk t1 kids1 t2 kids2) then (.node k1 e1 s1 t1 kids1, false)
        else
          (.node k1 (e1 + e2) s1 t1 (iaddUnion kids1 kids2).1, (iaddUnion kids1 kids2).2)
      else if keysOf kids1 != keysOf kids2 then
        (.node k1 e1 s1 t1 kids1, false)
      else
        (.node k1 (e1 + e2) s1 t1 (iaddZip kids1 kids2).1, (iaddZip kids1 kids2).2) := by
  rw [iaddCode.eq_def]
  simp only [compatFirstC_eq]
  rfl

theorem addRaw_node (k1 : Kind) (e1 : Val) (s1 : St) (t1 : Option Agg) (kids1 : List (Key × Agg))
    (k2 : Kind) (e2 : Val) (s2 : St) (t2 : Option Agg) (kids2 : List (Key × Agg)) :
    addRaw (.node k1 e1 s1 t1 kids1) (.node k2 e2 s2 t2 kids2) =
      if k1.isLeaf then
        .node k1 (leafAdd k1 e1 s1 e2 s2).1 (leafAdd k1 e1 s1 e2 s2).2 t1 kids1
      else if k1.isSparse then
        .node k1 (e1 + e2) s1 t1 (unionKids kids1 kids2)
      else
        .node k1 (e1 + e2) s1 t1 (zipKids kids1 kids2) := by
  rw [addRaw]

theorem iaddUnion_cons (k1 : Key) (a : Agg) (r1 ys : List (Key × Agg)) :
    iaddUnion ((k1, a) :: r1) ys =
    (match ys.dropWhile (fun p => Key.lt p.1 k1) with
    | [] => (ys.takeWhile (fun p => Key.lt p.1 k1) ++ (k1, a) :: r1, true)
    | (k2, b) :: rest' =>
      if k2 = k1 then
        if (iaddCode a b).2 then
          (ys.takeWhile (fun p => Key.lt p.1 k1) ++ (k1, (iaddCode a b).1) :: (iaddUnion r1 rest').1,
            (iaddUnion r1 rest').2)
        else (ys.takeWhile (fun p => Key.lt p.1 k1) ++ (k1, (iaddCode a b).1) :: r1, false)
      else
        (ys.takeWhile (fun p => Key.lt p.1 k1) ++
            (k1, a) :: (iaddUnion r1 (ys.dropWhile (fun p => Key.lt p.1 k1))).1,
          (iaddUnion r1 (ys.dropWhile (fun p => Key.lt p.1 k1))).2)) := by
  rw [iaddUnion]; rfl

theorem unionKids_cons (k1 : Key) (a : Agg) (r1 ys : List (Key × Agg)) :
    unionKids ((k1, a) :: r1) ys =
    (match ys.dropWhile (fun p => Key.lt p.1 k1) with
    | [] => ys.takeWhile (fun p => Key.lt p.1 k1) ++ (k1, a) :: unionKids r1 []
    | (k2, b) :: rest' =>
      if k2 = k1 then
        ys.takeWhile (fun p => Key.lt p.1 k1) ++ (k1, addRaw a b) :: unionKids r1 rest'
      else
        ys.takeWhile (fun p => Key.lt p.1 k1) ++
            (k1, a) :: unionKids r1 (ys.dropWhile (fun p => Key.lt p.1 k1))) := by
  rw [unionKids]; rfl

theorem unionKids_nil_right : ∀ (xs : List (Key × Agg)), unionKids xs [] = xs
  | [] => by rw [unionKids]
  | (k1, a) :: r1 => by
    rw [unionKids_cons]
    simp only [List.dropWhile_nil, List.takeWhile_nil, List.nil_append]
    rw [unionKids_nil_right r1]

theorem iaddZip_cons (k1 : Key) (a : Agg) (r1 : List (Key × Agg)) (k2 : Key) (b : Agg)
    (r2 : List (Key × Agg)) :
    iaddZip ((k1, a) :: r1) ((k2, b) :: r2) =
      if (iaddCode a b).2 then ((k1, (iaddCode a b).1) :: (iaddZip r1 r2).1, (iaddZip r1 r2).2)
      else ((k1, (iaddCode a b).1) :: r1, false) := by
  rw [iaddZip]

/-! #### well-formedness facts -/

theorem good_node (k : Kind) (e : Val) (st : St) (tmpl : Option Agg) (kids : List (Key × Agg))
    (h : good (.node k e st tmpl kids) = true) :
    k.layoutOk (keysOf kids) = true ∧ goodKids kids = true := by
  rw [good.eq_def] at h
  simp only [Bool.and_eq_true] at h
  exact ⟨h.1.1.1.1.2, h.1.1.1.2⟩

theorem goodKids_mem : ∀ (ys : List (Key × Agg)) (p : Key × Agg), goodKids ys = true → p ∈ ys →
    good p.2 = true
  | [], _, _, hm => by simp at hm
  | (k, b) :: rest, p, h, hm => by
    rw [goodKids, Bool.and_eq_true] at h
    rcases List.mem_cons.mp hm with rfl | hm'
    · exact h.1
    · exact goodKids_mem rest p h.2 hm'

theorem Key.lt_irrefl (a : Key) : Key.lt a a = false := Hg.Key.lt_irrefl a

theorem Key.lt_asymm (a b : Key) (h : Key.lt a b = true) : Key.lt b a = false := Hg.P3.Key.lt_asymm h

theorem Key.lt_trans (a b c : Key) (h1 : Key.lt a b = true) (h2 : Key.lt b c = true) :
    Key.lt a c = true := Hg.Key.lt_trans h1 h2

/-- strictly increasing keys (pairwise form) -/
def SortedK (ys : List (Key × Agg)) : Prop := ys.Pairwise (fun p q => Key.lt p.1 q.1 = true)

theorem sortedKeys_pairwise : ∀ (l : List Key), sortedKeys l = true →
    l.Pairwise (fun a b => Key.lt a b = true)
  | [], _ => List.Pairwise.nil
  | [_], _ => by simp
  | a :: b :: rest, h => by
    rw [sortedKeys, Bool.and_eq_true] at h
    have ih := sortedKeys_pairwise (b :: rest) h.2
    refine List.Pairwise.cons ?_ ih
    intro c hc
    rcases List.mem_cons.mp hc with rfl | hc'
    · exact h.1
    · exact Key.lt_trans a b c h.1 ((List.pairwise_cons.mp ih).1 c hc')

theorem layoutOk_sparse_pairwise (k : Kind) (keys : List Key) (hsp : k.isSparse = true)
    (h : k.layoutOk keys = true) : keys.Pairwise (fun a b => Key.lt a b = true) := by
  cases k <;> simp only [Kind.isSparse, Bool.false_eq_true] at hsp
  · -- sparse
    simp only [Kind.layoutOk, Bool.and_eq_true] at h
    obtain ⟨_, h⟩ := h
    split at h
    · rename_i rest
      simp only [Bool.and_eq_true, List.all_eq_true] at h
      refine List.Pairwise.cons ?_ (sortedKeys_pairwise _ h.2)
      intro c hc
      have := h.1 c hc
      cases c <;> simp [Key.isIdx] at this
      rfl
    · cases h
  · -- categorize
    simp only [Kind.layoutOk, Bool.and_eq_true] at h
    exact sortedKeys_pairwise _ h.2

theorem Kind.sameShape_isSparse (k1 k2 : Kind) (h : k1.sameShape k2 = true) :
    k2.isSparse = k1.isSparse := by
  cases k1 <;> cases k2 <;> simp [Kind.sameShape, Kind.isSparse] at *

theorem Kind.sameShape_isLeaf (k1 k2 : Kind) (h : k1.sameShape k2 = true) :
    k2.isLeaf = k1.isLeaf := by
  cases k1 <;> cases k2 <;> simp [Kind.sameShape, Kind.isLeaf] at *

theorem sortedK_of_good (k : Kind) (e : Val) (st : St) (tmpl : Option Agg) (kids : List (Key × Agg))
    (hsp : k.isSparse = true) (h : good (.node k e st tmpl kids) = true) : SortedK kids := by
  have := layoutOk_sparse_pairwise k _ hsp (good_node k e st tmpl kids h).1
  unfold keysOf at this
  exact List.pairwise_map.mp this

theorem lookupK_of_mem_sorted : ∀ (ys : List (Key × Agg)) (k : Key) (b : Agg),
    SortedK ys → (k, b) ∈ ys → lookupK k ys = some b
  | [], _, _, _, hm => by simp at hm
  | (k', b') :: rest, k, b, hs, hm => by
    have hs' := List.pairwise_cons.mp hs
    rw [lookupK]
    rcases List.mem_cons.mp hm with heq | hm'
    · simp only [Prod.mk.injEq] at heq
      simp [heq.1, heq.2]
    · split
      · rename_i hk
        subst hk
        have := hs'.1 _ hm'
        simp [Key.lt_irrefl] at this
      · exact lookupK_of_mem_sorted rest k b hs'.2 hm'

theorem List.mem_takeWhile_imp' {α : Type} (f : α → Bool) : ∀ (ys : List α) (x : α),
    x ∈ ys.takeWhile f → f x = true
  | [], _, h => by simp at h
  | y :: ys, x, h => by
    rw [List.takeWhile_cons] at h
    split at h
    · rcases List.mem_cons.mp h with rfl | h'
      · assumption
      · exact List.mem_takeWhile_imp' f ys x h'
    · simp at h

theorem takeWhile_append_dropWhile' (f : Key × Agg → Bool) (ys : List (Key × Agg)) :
    ys.takeWhile f ++ ys.dropWhile f = ys := List.takeWhile_append_dropWhile

/-! #### compatible operands: `+=` computes `+` -/

mutual
theorem iaddCode_eq : ∀ (a b : Agg), good b = true → compat a b = true →
    iaddCode a b = (addRaw a b, true)
  | .node k1 e1 s1 t1 kids1, .node k2 e2 s2 t2 kids2, hb, h => by
    rw [compat_node] at h
    simp only [Bool.and_eq_true] at h
    obtain ⟨hs, h⟩ := h
    rw [iaddCode_node, addRaw_node]
    simp only [hs, Bool.not_true, Bool.false_eq_true, if_false]
    have hgk := (good_node _ _ _ _ _ hb).2
    by_cases hl : k1.isLeaf = true
    · simp only [hl, if_true]
    · simp only [hl]
      by_cases hsp : k1.isSparse = true
      · simp only [hsp, if_true, Bool.and_eq_true] at h ⊢
        simp only [h.2, Bool.not_true, Bool.false_eq_true, if_false]
        have hsp2 : k2.isSparse = true := by rw [Kind.sameShape_isSparse k1 k2 hs]; exact hsp
        have hsort := sortedK_of_good _ _ _ _ _ hsp2 hb
        rw [iaddUnion_eq kids1 kids2 (fun k a b ha hb' =>
          ⟨goodKids_mem kids2 (k, b) hgk hb',
           compatShared_mem kids1 kids2 k a b h.1 ha (lookupK_of_mem_sorted kids2 k b hsort hb')⟩)]
      · simp only [hsp, Bool.false_eq_true, if_false] at h ⊢
        have hk := compatZip_keys _ _ h
        simp only [hk, bne_self_eq_false, Bool.false_eq_true, if_false]
        rw [iaddZip_eq kids1 kids2 hgk h]

theorem iaddZip_eq : ∀ (xs ys : List (Key × Agg)), goodKids ys = true → compatZip xs ys = true →
    iaddZip xs ys = (zipKids xs ys, true)
  | [], _, _, _ => by rw [iaddZip, zipKids]
  | _ :: _, [], _, h => by simp [compatZip] at h
  | (k1, a) :: r1, (k2, b) :: r2, hg, h => by
    rw [compatZip_cons] at h
    simp only [Bool.and_eq_true, decide_eq_true_eq] at h
    rw [goodKids, Bool.and_eq_true] at hg
    rw [iaddZip_cons, zipKids, iaddCode_eq a b hg.1 h.1.2, iaddZip_eq r1 r2 hg.2 h.2]
    simp

theorem iaddUnion_eq : ∀ (xs ys : List (Key × Agg)),
    (∀ (k : Key) (a b : Agg), (k, a) ∈ xs → (k, b) ∈ ys → good b = true ∧ compat a b = true) →
    iaddUnion xs ys = (unionKids xs ys, true)
  | [], _, _ => by rw [iaddUnion, unionKids]
  | (k1, a) :: r1, ys, H => by
    rw [iaddUnion_cons, unionKids_cons]
    have hsplit := takeWhile_append_dropWhile' (fun p => Key.lt p.1 k1) ys
    generalize ys.takeWhile (fun p => Key.lt p.1 k1) = lo at hsplit ⊢
    generalize hrest : ys.dropWhile (fun p => Key.lt p.1 k1) = rest at hsplit ⊢
    match rest, hsplit with
    | [], _ => simp only [unionKids_nil_right]
    | (k2, b) :: rest', hsplit =>
      simp only
      by_cases hk : k2 = k1
      · subst hk
        have hmem : (k2, b) ∈ ys := by rw [← hsplit]; simp
        obtain ⟨hgb, hc⟩ := H k2 a b List.mem_cons_self hmem
        have ih := iaddUnion_eq r1 rest' (fun k a' b' ha hb' =>
          H k a' b' (List.mem_cons_of_mem _ ha) (by rw [← hsplit]; simp [hb']))
        simp only [if_true, iaddCode_eq a b hgb hc, ih]
      · have ih := iaddUnion_eq r1 ((k2, b) :: rest') (fun k a' b' ha hb' =>
          H k a' b' (List.mem_cons_of_mem _ ha) (by rw [← hsplit]; exact List.mem_append_right _ hb'))
        simp only [hk, if_false, ih]
end

/-! #### `+=` succeeds only on compatible operands -/

theorem Kind.isLeaf_not_sparse (k : Kind) (h : k.isLeaf = true) : k.isSparse = false := by
  cases k <;> simp [Kind.isLeaf, Kind.isSparse] at *

theorem kids_nil_of_leaf (k : Kind) (e : Val) (st : St) (tmpl : Option Agg) (kids : List (Key × Agg))
    (hl : k.isLeaf = true) (h : good (.node k e st tmpl kids) = true) : kids = [] := by
  have := (good_node k e st tmpl kids h).1
  cases k <;> simp [Kind.isLeaf] at hl <;> simpa [Kind.layoutOk, keysOf] using this

theorem dropWhile_head_false {α : Type} (f : α → Bool) : ∀ (ys : List α) (x : α) (r : List α),
    ys.dropWhile f = x :: r → f x = false
  | [], _, _, h => by simp at h
  | y :: ys, x, r, h => by
    rw [List.dropWhile_cons] at h
    split at h
    · exact dropWhile_head_false f ys x r h
    · rename_i hf
      simp only [List.cons.injEq] at h
      rw [← h.1]; simpa using hf

theorem lookupK_append_skip {α : Type} (k : Key) : ∀ (lo r : List (Key × α)),
    (∀ p ∈ lo, p.1 ≠ k) → lookupK k (lo ++ r) = lookupK k r
  | [], _, _ => rfl
  | (k', a) :: lo, r, h => by
    have h1 : k' ≠ k := h (k', a) List.mem_cons_self
    simp only [List.cons_append, lookupK, h1, if_false]
    exact lookupK_append_skip k lo r (fun p hp => h p (List.mem_cons_of_mem _ hp))

theorem lookupK_none_of_ne {α : Type} (k : Key) (l : List (Key × α)) (h : ∀ p ∈ l, p.1 ≠ k) :
    lookupK k l = none := by
  have := lookupK_append_skip k l [] h
  simpa [lookupK] using this

theorem compatShared_congr : ∀ (xs ys ys' : List (Key × Agg)),
    (∀ p ∈ xs, lookupK p.1 ys = lookupK p.1 ys') → compatShared xs ys = compatShared xs ys'
  | [], _, _, _ => by rw [compatShared, compatShared]
  | (k1, a) :: r1, ys, ys', h => by
    rw [compatShared_cons, compatShared_cons, h (k1, a) List.mem_cons_self,
      compatShared_congr r1 ys ys' (fun p hp => h p (List.mem_cons_of_mem _ hp))]

theorem compatShared_nil_right : ∀ (xs : List (Key × Agg)), compatShared xs [] = true
  | [] => by rw [compatShared]
  | (k1, a) :: r1 => by
    rw [compatShared_cons, compatShared_nil_right r1]; rfl

mutual
theorem iaddCode_compat : ∀ (a b : Agg), good a = true → good b = true →
    (iaddCode a b).2 = true → compat a b = true
  | .node k1 e1 s1 t1 kids1, .node k2 e2 s2 t2 kids2, ha, hb, h => by
    rw [iaddCode_node] at h
    rw [compat_node]
    by_cases hs : k1.sameShape k2 = true
    · simp only [hs, Bool.not_true, Bool.false_eq_true, if_false, Bool.true_and] at h ⊢
      have hga := (good_node _ _ _ _ _ ha).2
      have hgb := (good_node _ _ _ _ _ hb).2
      by_cases hl : k1.isLeaf = true
      · have hl2 : k2.isLeaf = true := by rw [Kind.sameShape_isLeaf k1 k2 hs]; exact hl
        rw [kids_nil_of_leaf _ _ _ _ _ hl ha, kids_nil_of_leaf _ _ _ _ _ hl2 hb,
          Kind.isLeaf_not_sparse k1 hl]
        simp [compatZip]
      · simp only [hl] at h
        by_cases hsp : k1.isSparse = true
        · simp only [hsp, if_true] at h ⊢
          have hsp2 : k2.isSparse = true := by rw [Kind.sameShape_isSparse k1 k2 hs]; exact hsp
          cases hc : repOk t1 kids1 t2 kids2
          · simp [hc] at h
          · simp only [hc, Bool.not_true, Bool.false_eq_true, if_false] at h
            rw [ iaddUnion_compat kids1 kids2 (goodKids_mem _ · hga) (goodKids_mem _ · hgb)
              (sortedK_of_good _ _ _ _ _ hsp ha) (sortedK_of_good _ _ _ _ _ hsp2 hb) h]
            rfl
        · simp only [hsp, Bool.false_eq_true, if_false] at h ⊢
          by_cases hk : keysOf kids1 = keysOf kids2
          · simp only [hk, bne_self_eq_false, Bool.false_eq_true, if_false] at h
            exact iaddZip_compat kids1 kids2 hga hgb hk h
          · have : (keysOf kids1 != keysOf kids2) = true := by simpa using hk
            simp [this] at h
    · simp only [hs, Bool.not_false, if_true] at h
      cases h

theorem iaddZip_compat : ∀ (xs ys : List (Key × Agg)), goodKids xs = true → goodKids ys = true →
    keysOf xs = keysOf ys → (iaddZip xs ys).2 = true → compatZip xs ys = true
  | [], [], _, _, _, _ => by rw [compatZip]
  | [], _ :: _, _, _, hk, _ => by simp [keysOf] at hk
  | _ :: _, [], _, _, hk, _ => by simp [keysOf] at hk
  | (k1, a) :: r1, (k2, b) :: r2, hga, hgb, hk, h => by
    rw [goodKids, Bool.and_eq_true] at hga hgb
    simp only [keysOf, List.map_cons, List.cons.injEq] at hk
    rw [iaddZip_cons] at h
    rw [compatZip_cons]
    by_cases hra : (iaddCode a b).2 = true
    · simp only [hra, if_true] at h
      rw [iaddCode_compat a b hga.1 hgb.1 hra, iaddZip_compat r1 r2 hga.2 hgb.2 hk.2 h]
      simp [hk.1]
    · simp only [hra] at h
      cases h

theorem iaddUnion_compat : ∀ (xs ys : List (Key × Agg)),
    (∀ p ∈ xs, good p.2 = true) → (∀ p ∈ ys, good p.2 = true) → SortedK xs → SortedK ys →
    (iaddUnion xs ys).2 = true → compatShared xs ys = true
  | [], _, _, _, _, _, _ => by rw [compatShared]
  | (k1, a) :: r1, ys, hgx, hgy, hsx, hsy, h => by
    rw [iaddUnion_cons] at h
    rw [compatShared_cons]
    have hsx' := List.pairwise_cons.mp hsx
    have hgr1 : ∀ p ∈ r1, good p.2 = true := fun p hp => hgx p (List.mem_cons_of_mem _ hp)
    have hsplit := takeWhile_append_dropWhile' (fun p => Key.lt p.1 k1) ys
    have hlo : ∀ p ∈ ys.takeWhile (fun p => Key.lt p.1 k1), Key.lt p.1 k1 = true :=
      fun p hp => List.mem_takeWhile_imp' (fun p : Key × Agg => Key.lt p.1 k1) ys p hp
    have hhead := dropWhile_head_false (fun p : Key × Agg => Key.lt p.1 k1) ys
    generalize ys.takeWhile (fun p => Key.lt p.1 k1) = lo at hsplit hlo h
    generalize ys.dropWhile (fun p => Key.lt p.1 k1) = rest at hsplit hhead h
    subst hsplit
    -- keys of `lo` differ from `k1` and from every later key of the left operand
    have hlo_ne1 : ∀ p ∈ lo, p.1 ≠ k1 := by
      intro p hp heq
      have := hlo p hp
      rw [heq, Key.lt_irrefl] at this; cases this
    have hlo_ne : ∀ q ∈ r1, ∀ p ∈ lo, p.1 ≠ q.1 := by
      intro q hq p hp heq
      have h1 := hlo p hp
      have h2 := Key.lt_asymm _ _ (hsx'.1 q hq)
      simp only at h2
      rw [heq, h2] at h1; cases h1
    have hne1 : ∀ q ∈ r1, k1 ≠ q.1 := by
      intro q hq heq
      have := hsx'.1 q hq
      simp only at this
      rw [← heq, Key.lt_irrefl] at this; cases this
    match rest, hhead, h with
    | [], _, _ =>
      rw [lookupK_append_skip k1 lo [] hlo_ne1]
      rw [compatShared_congr r1 (lo ++ []) [] (fun q hq => lookupK_append_skip q.1 lo [] (hlo_ne q hq)),
        compatShared_nil_right]
      rfl
    | (k2, b) :: rest', hhead, h =>
      have hsy' := List.pairwise_append.mp hsy
      have hsr := List.pairwise_cons.mp hsy'.2.1
      simp only at h
      by_cases hk : k2 = k1
      · subst hk
        simp only [if_true] at h
        by_cases hra : (iaddCode a b).2 = true
        · simp only [hra, if_true] at h
          have hgb : good b = true := hgy (k2, b) (by simp)
          have hc := iaddCode_compat a b (hgx (k2, a) List.mem_cons_self) hgb hra
          have ih := iaddUnion_compat r1 rest' hgr1
            (fun p hp => hgy p (by simp [hp])) hsx'.2 hsr.2 h
          rw [lookupK_append_skip k2 lo _ hlo_ne1]
          rw [compatShared_congr r1 (lo ++ (k2, b) :: rest') rest' (fun q hq => by
            rw [lookupK_append_skip q.1 lo _ (hlo_ne q hq), lookupK]
            simp only [hne1 q hq, if_false]), ih]
          simp [lookupK, hc]
        · simp only [hra] at h
          cases h
      · simp only [hk, if_false] at h
        have ih := iaddUnion_compat r1 ((k2, b) :: rest') hgr1
          (fun p hp => hgy p (List.mem_append_right _ hp)) hsx'.2 hsy'.2.1 h
        have hnone : lookupK k1 ((k2, b) :: rest') = none := by
          apply lookupK_none_of_ne
          intro p hp heq
          rcases List.mem_cons.mp hp with rfl | hp'
          · exact hk heq
          · have h1 := hsr.1 p hp'
            simp only at h1
            have h2 := hhead (k2, b) rest' rfl
            simp only at h2
            rw [heq, h2] at h1; cases h1
        rw [lookupK_append_skip k1 lo _ hlo_ne1, hnone]
        rw [compatShared_congr r1 (lo ++ (k2, b) :: rest') ((k2, b) :: rest') (fun q hq =>
          lookupK_append_skip q.1 lo _ (hlo_ne q hq)), ih]
        rfl
end

/-! #### the package theorems

`iaddCode_eq_add` and `iaddCode_false_of_not_compat` are false for ill-formed trees (duplicate or
unsorted bin keys of a sparse container, a leaf carrying children): `compat` looks a shared key up
with `lookupK` (first occurrence), the in-place union walks both sorted lists once.  They are stated
under the executable invariant `good` (Hg.Model.WF); the counterexamples without it follow. -/

namespace CompatLawsCex
def cnt : Agg := .node .count (.fin 0) .unit none []
def sm : Agg := .node (.sum ⟨0, none, false⟩) (.fin 0) (.sum (.fin 0)) none []
def sp (kids : List (Key × Agg)) : Agg :=
  .node (.sparse ⟨0, none, false⟩ 1 0 "Count" none) (.fin 0) .unit none kids

/-- (`good` of a sparse node does not reduce in the kernel — `sameBaseTmpl` is compiled by
well-founded recursion — so it is unfolded by hand) -/
theorem good_sp (kids : List (Key × Agg))
    (h1 : Kind.layoutOk (.sparse ⟨0, none, false⟩ 1 0 "Count" none) (keysOf kids) = true)
    (h2 : goodKids kids = true) : good (sp kids) = true := by
  unfold sp
  rw [good.eq_def]
  simp only [sameBaseTmpl, h1, h2, goodTmpl]
  decide +kernel

/-- without `good b`: `compat` holds but `+=` raises (duplicate key `idx 1` in `b`) -/
example :
    let a := sp [(.nanflow, cnt), (.idx 3, cnt), (.idx 1, cnt)]
    let b := sp [(.nanflow, cnt), (.idx 1, cnt), (.idx 3, cnt), (.idx 1, sm)]
    compat a b = true ∧ (iaddCode a b).2 = false := by decide +kernel

/-- without `good a` (a leaf with a child; `b` is good): `+` raises, `+=` does not -/
example :
    let a : Agg := .node .count (.fin 0) .unit none [(.cut, cnt)]
    good cnt = true ∧ compat a cnt = false ∧ (iaddCode a cnt).2 = true := by decide +kernel

/-- `good a` alone is not enough (unsorted bins in `b`) -/
example :
    let a := sp [(.nanflow, cnt), (.idx 3, cnt)]
    let b := sp [(.nanflow, cnt), (.idx 5, cnt), (.idx 3, sm)]
    good a = true ∧ compat a b = false ∧ (iaddCode a b).2 = true :=
  ⟨good_sp _ (by decide +kernel) (by decide +kernel), by decide +kernel⟩

/-- `good b` alone is not enough (unsorted bins in `a`) -/
example :
    let a := sp [(.nanflow, cnt), (.idx 5, cnt), (.idx 3, sm)]
    let b := sp [(.nanflow, cnt), (.idx 3, cnt), (.idx 5, cnt)]
    good b = true ∧ compat a b = false ∧ (iaddCode a b).2 = true :=
  ⟨good_sp _ (by decide +kernel) (by decide +kernel), by decide +kernel⟩
end CompatLawsCex

/-- for compatible operands `a += b` leaves in `a` exactly the content of `a + b`
(`good b`: the bin keys of the sparse containers of `b` are strictly sorted) -/
theorem _root_.Hg.iaddCode_eq_add (a b : Agg) (hb : good b = true) (h : compat a b = true) :
    iaddCode a b = (addRaw a b, true) :=
  iaddCode_eq a b hb h

/-- a mismatch detected at the root of the `+=` leaves the left operand exactly as it was -/
theorem _root_.Hg.iaddCode_root_reject (a b : Agg) (h : a.kind.sameShape b.kind = false) :
    iaddCode a b = (a, false) := by
  obtain ⟨k1, e1, s1, t1, kids1⟩ := a
  obtain ⟨k2, e2, s2, t2, kids2⟩ := b
  simp only [Agg.kind] at h
  rw [iaddCode_node, h]
  rfl

/-- `+=` raises whenever `+` raises (for well-formed operands) -/
theorem _root_.Hg.iaddCode_false_of_not_compat (a b : Agg) (ha : good a = true) (hb : good b = true)
    (h : compat a b = false) : (iaddCode a b).2 = false := by
  cases hr : (iaddCode a b).2
  · rfl
  · rw [iaddCode_compat a b ha hb hr] at h
    cases h

end Hg.P7
