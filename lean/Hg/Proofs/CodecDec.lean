import Hg.Model.Immut
import Hg.Model.Live
import Std.Data.String.ToInt
import Std.Data.String.ToNat

namespace Hg

namespace CodecAux

open Json

/-! ### JSON basics -/

theorem toVal?_ofVal (v : Val) : Json.toVal? (Json.ofVal v) = some v := by
  cases v <;> rfl

theorem mapM_toVal?_ofVal (l : List Val) : (l.map Json.ofVal).mapM Json.toVal? = some l := by
  induction l with
  | nil => rfl
  | cons a l ih => simp [List.mapM_cons, toVal?_ofVal, ih]

theorem get?_append_single_ne (key k : String) (v : Json) (m : List (String × Json)) (h : k ≠ key) :
    Json.get? key (m ++ [(k, v)]) = Json.get? key m := by
  induction m with
  | nil => simp [Json.get?, h]
  | cons p m ih =>
    obtain ⟨k', v'⟩ := p
    simp only [List.cons_append, Json.get?, ih]

theorem get?_maybeAdd_ne (key k : String) (v : Option String) (m : List (String × Json)) (h : k ≠ key) :
    Json.get? key (Json.maybeAdd m k v) = Json.get? key m := by
  cases v with
  | none => rfl
  | some s => exact get?_append_single_ne key k _ m h

theorem get?_append_single_self (k : String) (v : Json) (m : List (String × Json))
    (h : Json.get? k m = none) : Json.get? k (m ++ [(k, v)]) = some v := by
  induction m with
  | nil => simp [Json.get?]
  | cons p m ih =>
    obtain ⟨k', v'⟩ := p
    simp only [Json.get?] at h
    split at h
    · cases h
    · rename_i hne
      simp only [List.cons_append, Json.get?, hne, if_false, ih h]

theorem optStr?_maybeAdd_self (k : String) (v : Option String) (m : List (String × Json))
    (h : Json.get? k m = none) : Json.optStr? (Json.maybeAdd m k v) k = some v := by
  cases v with
  | none => simp only [Json.maybeAdd, Json.optStr?, h]
  | some s => simp only [Json.maybeAdd, Json.optStr?, get?_append_single_self k _ m h]

theorem optStr?_maybeAdd_ne (key k : String) (v : Option String) (m : List (String × Json)) (h : k ≠ key) :
    Json.optStr? (Json.maybeAdd m k v) key = Json.optStr? m key := by
  simp only [Json.optStr?, get?_maybeAdd_ne key k v m h]

theorem keys_maybeAdd (m : List (String × Json)) (k : String) (v : Option String) :
    Json.keys (Json.maybeAdd m k v) = Json.keys m ++ (match v with | some _ => [k] | none => []) := by
  cases v <;> simp [Json.maybeAdd, Json.keys]

theorem hasKeys_eq (m m' : List (String × Json)) (r o : List String) (h : Json.keys m = Json.keys m') :
    Json.hasKeys m r o = Json.hasKeys m' r o := by
  simp only [Json.hasKeys, h]

theorem hasKeys_maybeAdd (m : List (String × Json)) (k : String) (v : Option String) (req opt : List String)
    (h : Json.hasKeys m req opt = true) (hk : opt.contains k = true) :
    Json.hasKeys (Json.maybeAdd m k v) req opt = true := by
  cases v with
  | none => exact h
  | some s =>
    simp only [Json.hasKeys, Json.maybeAdd, Json.keys, List.map_append, Bool.and_eq_true, List.all_eq_true,
      List.mem_append, List.map_cons, List.map_nil, List.contains_eq_mem, decide_eq_true_eq, Bool.or_eq_true] at h ⊢
    simp only [List.contains_eq_mem, decide_eq_true_eq] at hk
    refine ⟨fun x hx => Or.inl (h.1 x hx), fun x hx => ?_⟩
    rcases hx with hx | hx
    · exact h.2 x hx
    · simp only [List.mem_singleton] at hx
      subst hx
      exact Or.inr hk

/-! depth -/

theorem depth_le_of_mem_members (m : List (String × Json)) (p : String × Json) (h : p ∈ m) :
    p.2.depth ≤ Json.depthMembers m := by
  induction m with
  | nil => cases h
  | cons q m ih =>
    obtain ⟨k, v⟩ := q
    simp only [Json.depthMembers]
    rcases List.mem_cons.1 h with h | h
    · subst h; exact Nat.le_max_left _ _
    · exact Nat.le_trans (ih h) (Nat.le_max_right _ _)

theorem depth_le_of_mem_list (l : List Json) (x : Json) (h : x ∈ l) : x.depth ≤ Json.depthList l := by
  induction l with
  | nil => cases h
  | cons q l ih =>
    simp only [Json.depthList]
    rcases List.mem_cons.1 h with h | h
    · subst h; exact Nat.le_max_left _ _
    · exact Nat.le_trans (ih h) (Nat.le_max_right _ _)

theorem mem_of_get? (key : String) (m : List (String × Json)) (j : Json) (h : Json.get? key m = some j) :
    (key, j) ∈ m := by
  induction m with
  | nil => cases h
  | cons q m ih =>
    obtain ⟨k, v⟩ := q
    simp only [Json.get?] at h
    split at h
    · rename_i hk; cases h; subst hk; exact List.mem_cons_self
    · exact List.mem_cons_of_mem _ (ih h)

theorem depth_get? (key : String) (m : List (String × Json)) (j : Json) (fuel : Nat)
    (h : Json.get? key m = some j) (hd : (Json.obj m).depth ≤ fuel + 1) : j.depth ≤ fuel := by
  have := depth_le_of_mem_members m (key, j) (mem_of_get? key m j h)
  simp only [Json.depth] at hd
  exact Nat.le_trans this (Nat.le_of_succ_le_succ hd)

theorem depth_arr_mem (l : List Json) (x : Json) (fuel : Nat) (h : x ∈ l) (hd : (Json.arr l).depth ≤ fuel) :
    x.depth ≤ fuel := by
  have := depth_le_of_mem_list l x h
  simp only [Json.depth] at hd
  omega

theorem depth_obj_mem (m : List (String × Json)) (p : String × Json) (fuel : Nat) (h : p ∈ m)
    (hd : (Json.obj m).depth ≤ fuel) : p.2.depth ≤ fuel := by
  have := depth_le_of_mem_members m p h
  simp only [Json.depth] at hd
  omega

theorem depth_pos (j : Json) : 1 ≤ j.depth := by
  cases j <;> simp [Json.depth]

/-! entries -/

theorem entriesOf?_ok (m : List (String × Json)) (e : Val)
    (h : Json.get? "entries" m = some (Json.ofVal e)) (hl : Val.lt e 0 = false) :
    entriesOf? m = some e := by
  simp [entriesOf?, h, toVal?_ofVal, hl]

end CodecAux
end Hg
