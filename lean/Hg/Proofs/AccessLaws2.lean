/-
  Hg.Proofs.AccessLaws2 — SparselyBin / CentrallyBin / IrregularlyBin views (C13, second batch).
-/
import Hg.Proofs.AccessLaws

namespace Hg

/-! ### SparselyBin -/

/-- one more edge than bins for every query that finds at least one bin -/
theorem Sparse.edges_length (width origin : Rat) (kids : List (Key × Agg)) (low high : Option Rat) (a b : Int)
    (hs : Sparse.span width origin kids low high = some (a, b)) (hab : a ≤ b + 1) :
    ((Sparse.edges width origin kids low high).length : Int) = Sparse.numBins width origin kids low high + 1 := by
  unfold Sparse.edges Sparse.numBins
  rw [hs]
  simp only [List.length_map, List.length_range]
  omega

theorem Sparse.entriesIn_length (width origin : Rat) (kids : List (Key × Agg)) (low high : Option Rat) (a b : Int)
    (hs : Sparse.span width origin kids low high = some (a, b)) (hab : a ≤ b + 1) :
    ((Sparse.entriesIn width origin kids low high).length : Int) = Sparse.numBins width origin kids low high := by
  unfold Sparse.entriesIn Sparse.numBins
  rw [hs]
  simp only [List.length_map, List.length_range]
  omega

/-- consecutive edges of a sparse view are exactly `width` apart and the i-th edge is the lower edge of
bin `a + i` -/
theorem Sparse.edges_get (width origin : Rat) (kids : List (Key × Agg)) (low high : Option Rat) (a b : Int) (i : Nat)
    (hs : Sparse.span width origin kids low high = some (a, b)) (hi : (i : Int) < b + 2 - a) :
    (Sparse.edges width origin kids low high)[i]? = some (origin + width * ((a + (i : Int) : Int) : Rat)) := by
  unfold Sparse.edges
  rw [hs]
  have h0 : i < (b + 2 - a).toNat := by omega
  simp only [List.getElem?_map, List.getElem?_range h0, Option.map_some]

/-- the i-th reported entry is the content of bin `a + i` (0 when the bin was never filled) -/
theorem Sparse.entriesIn_get (width origin : Rat) (kids : List (Key × Agg)) (low high : Option Rat) (a b : Int) (i : Nat)
    (hs : Sparse.span width origin kids low high = some (a, b)) (hi : (i : Int) < b + 1 - a) :
    (Sparse.entriesIn width origin kids low high)[i]? =
      some (match lookupK (.idx (a + (i : Int))) kids with | some c => c.entries | none => 0) := by
  unfold Sparse.entriesIn
  rw [hs]
  have h0 : i < (b + 1 - a).toNat := by omega
  simp only [List.getElem?_map, List.getElem?_range h0, Option.map_some]
  rfl

/-- a finite datum is routed by `fill` to the bin whose index is `Sparse.idx`, i.e. the bin whose edges
contain it — provided the exact quotient lies strictly inside the 64-bit range; outside it `fill`
saturates to `LONG_MINUSINF` / `LONG_PLUSINF` (see `Sparse.route_sat_low`, `Sparse.route_sat_high`) while
`Sparse.idx` is the unbounded floor. -/
theorem Sparse.route_idx (width origin x : Rat)
    (hlo : ((LONG_MINUSINF : Int) : Rat) < (x - origin) / width)
    (hhi : (x - origin) / width < ((LONG_PLUSINF : Int) : Rat)) :
    sparseIndex width origin (.fin x) = .idx (Sparse.idx width origin x) := by
  show (if (x - origin) / width ≤ ((LONG_MINUSINF : Int) : Rat) then Key.idx LONG_MINUSINF
    else if ((LONG_PLUSINF : Int) : Rat) ≤ (x - origin) / width then Key.idx LONG_PLUSINF
    else Key.idx ((x - origin) / width).floor) = _
  rw [if_neg (not_le.mpr hlo), if_neg (not_le.mpr hhi)]
  rfl

/-- below the 64-bit range `fill` saturates -/
theorem Sparse.route_sat_low (width origin x : Rat)
    (h : (x - origin) / width ≤ ((LONG_MINUSINF : Int) : Rat)) :
    sparseIndex width origin (.fin x) = .idx LONG_MINUSINF := by
  show (if (x - origin) / width ≤ ((LONG_MINUSINF : Int) : Rat) then Key.idx LONG_MINUSINF
    else if ((LONG_PLUSINF : Int) : Rat) ≤ (x - origin) / width then Key.idx LONG_PLUSINF
    else Key.idx ((x - origin) / width).floor) = _
  rw [if_pos h]

/-- above the 64-bit range `fill` saturates -/
theorem Sparse.route_sat_high (width origin x : Rat)
    (h : ((LONG_PLUSINF : Int) : Rat) ≤ (x - origin) / width) :
    sparseIndex width origin (.fin x) = .idx LONG_PLUSINF := by
  show (if (x - origin) / width ≤ ((LONG_MINUSINF : Int) : Rat) then Key.idx LONG_MINUSINF
    else if ((LONG_PLUSINF : Int) : Rat) ≤ (x - origin) / width then Key.idx LONG_PLUSINF
    else Key.idx ((x - origin) / width).floor) = _
  have hlo : ¬ (x - origin) / width ≤ ((LONG_MINUSINF : Int) : Rat) := by
    intro h'
    have h2 : ((LONG_PLUSINF : Int) : Rat) ≤ ((LONG_MINUSINF : Int) : Rat) := le_trans h h'
    have h3 : LONG_PLUSINF ≤ LONG_MINUSINF := by exact_mod_cast h2
    unfold LONG_PLUSINF LONG_MINUSINF at h3
    omega
  rw [if_neg hlo, if_pos h]

/-- `bin_entries(xvalues=[x])` is, by definition, the content of the bin `fill` routes `x` to -/
theorem Sparse.entryAt_route (width origin x : Rat) (kids : List (Key × Agg)) :
    Sparse.entryAt width origin kids x =
      (match lookupK (sparseIndex width origin (.fin x)) kids with | some c => c.entries | none => 0) := rfl

/-- `bin_entries(xvalues=[x])` is the content of the bin with index `Sparse.idx` (the bin whose edges
contain `x`), for `x` inside the 64-bit index range -/
theorem Sparse.entryAt_spec (width origin x : Rat) (kids : List (Key × Agg))
    (hlo : ((LONG_MINUSINF : Int) : Rat) < (x - origin) / width)
    (hhi : (x - origin) / width < ((LONG_PLUSINF : Int) : Rat)) :
    Sparse.entryAt width origin kids x =
      (match lookupK (.idx (Sparse.idx width origin x)) kids with | some c => c.entries | none => 0) := by
  unfold Sparse.entryAt
  rw [Sparse.route_idx width origin x hlo hhi]
  rfl

/-! ### CentrallyBin -/

private theorem Central.index_lt_aux (g : Bool) (x : Val) :
    ∀ cs : List Rat, cs ≠ [] → Central.index g x cs < cs.length
  | [], h => absurd rfl h
  | [_], _ => by simp [Central.index]
  | c :: c' :: rest, _ => by
    have ih := Central.index_lt_aux g x (c' :: rest) (by simp)
    unfold Central.index
    simp only [List.length_cons] at ih ⊢
    cases g <;> simp only [if_true, Bool.false_eq_true, if_false] <;> split <;> omega

/-- `index` stays within the centres -/
theorem Central.index_lt (g : Bool) (x : Val) (cs : List Rat) (h : cs ≠ []) : Central.index g x cs < cs.length :=
  Central.index_lt_aux g x cs h

private theorem Central.pick_eq_index_aux (x : Val) :
    ∀ cs : List Rat, centralPick x cs = cs[Central.index true x cs]?
  | [] => rfl
  | [_] => rfl
  | c :: c' :: rest => by
    have ih := Central.pick_eq_index_aux x (c' :: rest)
    unfold centralPick Central.index
    by_cases h : Val.lt x (.fin ((c + c') / 2)) = true
    · simp [h]
    · simp [h, ih, Nat.add_comm 1]

/-- The centre `fill` picks (`centralPick`) is the one at position `Central.index true`: a value exactly
on a midpoint goes to the upper centre in both.  Holds for every `x` (for NaN and `+inf` both give the
last centre, for `-inf` the first) and every list of centres (for `[]` both sides are `none`). -/
theorem Central.pick_eq_index (x : Val) (cs : List Rat) : centralPick x cs = cs[Central.index true x cs]? :=
  Central.pick_eq_index_aux x cs

/-- the former stub, now the routing statement: `fill` routes to the centre at `Central.index true` -/
theorem Central.index_le (x : Val) (cs : List Rat) : centralPick x cs = cs[Central.index true x cs]? :=
  Central.pick_eq_index x cs

/-- for a non-empty list of centres `fill` always finds a centre, namely the one at `Central.index true` -/
theorem Central.pick_getElem (x : Val) (cs : List Rat) (h : cs ≠ []) :
    centralPick x cs = some (cs[Central.index true x cs]'(Central.index_lt true x cs h)) := by
  rw [Central.pick_eq_index, List.getElem?_eq_getElem]

private theorem Val.le_of_lt' {a b : Val} (h : Val.lt a b = true) : Val.le a b = true := by
  cases a <;> cases b <;> simp_all [Val.lt, Val.le]
  exact le_of_lt h

private theorem Val.le_fin_iff (a : Val) (m : Rat) :
    Val.le a (.fin m) = true ↔ (Val.lt a (.fin m) = true ∨ a = .fin m) := by
  cases a <;> simp [Val.lt, Val.le]
  exact le_iff_lt_or_eq

private theorem Central.index_false_le_true_aux (x : Val) :
    ∀ cs : List Rat, Central.index false x cs ≤ Central.index true x cs
  | [] => Nat.le_refl _
  | [_] => Nat.le_refl _
  | c :: c' :: rest => by
    have ih := Central.index_false_le_true_aux x (c' :: rest)
    unfold Central.index
    simp only [if_true, Bool.false_eq_true, if_false]
    by_cases h : Val.lt x (.fin ((c + c') / 2)) = true
    · simp [h, Val.le_of_lt' h]
    · by_cases h' : Val.le x (.fin ((c + c') / 2)) = true
      · simp [h']
      · have h1 : Val.lt x (.fin ((c + c') / 2)) = false := by simpa using h
        have h2 : Val.le x (.fin ((c + c') / 2)) = false := by simpa using h'
        simp only [h1, h2, Bool.false_eq_true, if_false]; omega

/-- `greater = false` (a value on a midpoint belongs to the lower centre) never picks a later centre than
`greater = true`; the reverse inequality is false (`Central.index_tie`). -/
theorem Central.index_false_le_true (x : Val) (cs : List Rat) :
    Central.index false x cs ≤ Central.index true x cs :=
  Central.index_false_le_true_aux x cs

private theorem Central.index_eq_of_no_tie_aux (x : Val) :
    ∀ cs : List Rat, (∀ (i : Nat) (h : i + 1 < cs.length), x ≠ .fin ((cs[i] + cs[i + 1]) / 2)) →
      Central.index false x cs = Central.index true x cs
  | [], _ => rfl
  | [_], _ => rfl
  | c :: c' :: rest, hne => by
    have ih := Central.index_eq_of_no_tie_aux x (c' :: rest) (by
      intro i h
      have := hne (i + 1) (by simp only [List.length_cons] at h ⊢; omega)
      simpa using this)
    have h0 : x ≠ .fin ((c + c') / 2) := by
      have := hne 0 (by simp)
      simpa using this
    have hiff : Val.le x (.fin ((c + c') / 2)) = Val.lt x (.fin ((c + c') / 2)) := by
      rw [Bool.eq_iff_iff, Val.le_fin_iff]
      constructor
      · rintro (h | h)
        · exact h
        · exact absurd h h0
      · exact Or.inl
    unfold Central.index
    simp only [if_true, Bool.false_eq_true, if_false, hiff, ih]

/-- the two conventions differ only on ties: when `x` is not exactly the midpoint of two consecutive
centres, `Central.index false` and `Central.index true` (hence `fill`) agree -/
theorem Central.index_eq_of_no_tie (x : Val) (cs : List Rat)
    (hne : ∀ (i : Nat) (h : i + 1 < cs.length), x ≠ .fin ((cs[i] + cs[i + 1]) / 2)) :
    Central.index false x cs = Central.index true x cs :=
  Central.index_eq_of_no_tie_aux x cs hne

/-- the tie case: a value exactly on the midpoint of two centres is filled into the upper centre
(`centralPick`, `Central.index true`), while `Central.index false` reports the lower one -/
theorem Central.index_tie (c c' : Rat) :
    Central.index false (.fin ((c + c') / 2)) [c, c'] = 0 ∧
    Central.index true (.fin ((c + c') / 2)) [c, c'] = 1 ∧
    centralPick (.fin ((c + c') / 2)) [c, c'] = some c' := by
  refine ⟨?_, ?_, ?_⟩ <;> simp [Central.index, centralPick, Val.lt, Val.le]

/-- the entries view has one entry per reported centre -/
theorem Central.entries_centers_length (kids : List (Key × Agg)) (cs : List Rat) (low high : Option Rat)
    (hk : (binEntriesAll kids).length = cs.length) :
    (Central.entriesIn kids cs low high).length = (Central.centersIn cs low high).length := by
  unfold Central.entriesIn Central.centersIn
  simp only [List.length_take, List.length_drop, hk]

/-! ### IrregularlyBin -/

/-- one entry per bin between the lower and the upper index -/
theorem Irregular.lowerIndex_lt (x : Val) (ts : List Val) (h : ts ≠ []) : Irregular.lowerIndex x ts < ts.length := by
  unfold Irregular.lowerIndex
  have h1 := List.length_filter_le (fun t => Val.le t x) ts
  have h2 : 0 < ts.length := List.length_pos_of_ne_nil h
  omega

private theorem Val.lt_le_trans' {a b c : Val} (h1 : Val.lt a b = true) (h2 : Val.le b c = true) :
    Val.le a c = true := by
  cases a <;> cases b <;> cases c <;> simp_all [Val.lt, Val.le]
  exact le_of_lt (lt_of_lt_of_le h1 h2)

private theorem Irregular.filter_nil_of_head (x t : Val) (rest : List Val)
    (hs : List.Pairwise (fun a b => Val.lt a b = true) (t :: rest)) (ht : Val.le t x = false) :
    rest.filter (fun u => Val.le u x) = [] := by
  rw [List.filter_eq_nil_iff]
  intro u hu hle
  have := Val.lt_le_trans' ((List.pairwise_cons.mp hs).1 u hu) hle
  rw [ht] at this
  cases this

private theorem Irregular.pick_eq_aux (x : Val) :
    ∀ ts : List Val, List.Pairwise (fun a b => Val.lt a b = true) ts →
      irregularPick x ts =
        if (ts.filter (fun t => Val.le t x)).length = 0 then none else ts[Irregular.lowerIndex x ts]?
  | [], _ => by simp [irregularPick]
  | [t], _ => by
    unfold irregularPick Irregular.lowerIndex Val.ge
    cases h : Val.le t x <;> simp [h]
  | t0 :: t1 :: rest, hs => by
    have hs' : List.Pairwise (fun a b => Val.lt a b = true) (t1 :: rest) := (List.pairwise_cons.mp hs).2
    have ih := Irregular.pick_eq_aux x (t1 :: rest) hs'
    unfold irregularPick
    obtain h0 | h0 := (Bool.eq_false_or_eq_true (Val.le t0 x)).symm
    · have hnil := Irregular.filter_nil_of_head x t0 (t1 :: rest) hs h0
      rw [hnil] at ih
      simp only [List.length_nil, if_true] at ih
      simp [Val.ge, h0, hnil, ih]
    · obtain h1 | h1 := (Bool.eq_false_or_eq_true (Val.le t1 x)).symm
      · have hnil := Irregular.filter_nil_of_head x t1 rest hs' h1
        simp [Val.ge, Irregular.lowerIndex, h0, h1, hnil]
      · simp only [Irregular.lowerIndex] at ih ⊢
        simp [Val.ge, h0, h1] at ih ⊢
        exact ih

/-- For strictly increasing thresholds, `fill` (`irregularPick`) and the view index `_lower_index` agree:
whenever `fill` puts `x` in a bin it is the bin at `Irregular.lowerIndex`.  No hypothesis on `x` is
needed: for a NaN `x` `irregularPick` finds no bin. -/
theorem Irregular.pick_lowerIndex (x : Val) (ts : List Val) (t : Val)
    (hs : List.Pairwise (fun a b => Val.lt a b = true) ts) (hp : irregularPick x ts = some t) :
    ts[Irregular.lowerIndex x ts]? = some t := by
  rw [Irregular.pick_eq_aux x ts hs] at hp
  split at hp
  · cases hp
  · exact hp

/-- converse: for strictly increasing thresholds, as soon as some threshold is `≤ x` the bin `fill` picks
is the one at `Irregular.lowerIndex` -/
theorem Irregular.pick_of_exists (x : Val) (ts : List Val)
    (hs : List.Pairwise (fun a b => Val.lt a b = true) ts) (hex : ∃ t ∈ ts, Val.le t x = true) :
    irregularPick x ts = ts[Irregular.lowerIndex x ts]? := by
  rw [Irregular.pick_eq_aux x ts hs]
  obtain ⟨t, ht, hle⟩ := hex
  have hmem : t ∈ ts.filter (fun t => Val.le t x) := List.mem_filter.mpr ⟨ht, hle⟩
  have hpos : 0 < (ts.filter (fun t => Val.le t x)).length := List.length_pos_of_mem hmem
  rw [if_neg (by omega)]

/-- when every threshold is above `x` (or `x` is NaN) `fill` drops the datum, whereas
`Irregular.lowerIndex` is clamped to `0` (`max(0, …)`): the view `Irregular.entryAt` then reports the
first bin although `fill` would not put `x` there.  (Cannot happen for histograms built by the
constructor, whose first threshold is `-inf`, unless `x` is NaN.) -/
theorem Irregular.pick_none (x : Val) (ts : List Val)
    (hs : List.Pairwise (fun a b => Val.lt a b = true) ts) (hall : ∀ t ∈ ts, Val.le t x = false) :
    irregularPick x ts = none ∧ Irregular.lowerIndex x ts = 0 := by
  have hnil : ts.filter (fun t => Val.le t x) = [] := by
    rw [List.filter_eq_nil_iff]
    intro u hu hle
    rw [hall u hu] at hle
    cases hle
  rw [Irregular.pick_eq_aux x ts hs]
  simp [Irregular.lowerIndex, hnil]

end Hg
