/-
  Hg.Proofs.InvImmut — the bookkeeping invariants of C05 survive a JSON round trip.
-/
import Hg.Proofs.CodecEnc
import Hg.Model.Spec

namespace Hg
open Hg.CodecAux

theorem immut_entries (a : Agg) : (immut a).entries = a.entries := by
  cases a with
  | node k e st t kids => simp only [immut, Agg.entries]

theorem sumEntries_immutKids : ∀ (l : List (Key × Agg)), sumEntries (immutKids l) = sumEntries l
  | [] => by simp only [immutKids]
  | (_, a) :: rest => by simp only [immutKids, sumEntries, immut_entries, sumEntries_immutKids rest]

theorem antitoneEntries_immutKids : ∀ (l : List (Key × Agg)), antitoneEntries (immutKids l) = antitoneEntries l
  | [] => by simp only [immutKids]
  | [(_, a)] => by simp only [immutKids, antitoneEntries]
  | (k1, a) :: (k2, b) :: rest => by
    have ih := antitoneEntries_immutKids ((k2, b) :: rest)
    simp only [immutKids] at ih
    simp only [immutKids, antitoneEntries, immut_entries, ih]

mutual
theorem inv_immut : ∀ (t : Agg), inv (immut t) = inv t
  | .node k e st tmpl kids => by
    have ih := invKids_immut kids
    simp only [immut, inv, ih]
    congr 1
    congr 1
    cases k <;> simp only [Kind.mapQty, sumEntries_immutKids, binsOf_immutKids, lookupK_immutKids,
      antitoneEntries_immutKids]
    · -- bag
      cases st <;> rfl
    · -- stack
      congr 1
      cases hb : binsOf kids with
      | nil => cases lookupK Key.nanflow kids <;> simp only [immutKids, Option.map]
      | cons p rest =>
        obtain ⟨k0, a0⟩ := p
        cases lookupK Key.nanflow kids with
        | none => simp only [immutKids, Option.map]
        | some nf => simp only [immutKids, Option.map, immut_entries]
    · -- fraction
      cases lookupK Key.den kids with
      | none => simp only [Option.map]
      | some d => simp only [Option.map, immut_entries]
    all_goals exact all_immutKids (fun a => decide (a.entries = e)) (fun a => by simp only [immut_entries]) kids
theorem invKids_immut : ∀ (l : List (Key × Agg)), invKids (immutKids l) = invKids l
  | [] => by simp only [immutKids]
  | (_, a) :: rest => by simp only [immutKids, invKids, inv_immut a, invKids_immut rest]
end

end Hg
