/-
  Hg.Proofs.SortedKids — generic facts used by TreeLaws2: the order on the keys of sparse
  containers, strictly sorted association lists, and the keyed union `unionKids` characterised by
  `lookupK`.
-/
import Hg.Model.WF
import Mathlib.Data.String.Basic

/- Helper lemmas of the TreeLaws2 package live in `Hg.P3` so that they do not clash with the
   (independently developed) helpers of the TreeLaws1 package. -/
namespace Hg.P3

/-! ### induction principle for the nested inductive `Agg` -/

section ind
variable {P : Agg → Prop}
  (h : ∀ k e st tmpl kids, (∀ t, tmpl = some t → P t) → (∀ p ∈ kids, P p.2) → P (.node k e st tmpl kids))
include h
set_option linter.unusedSectionVars false

mutual
theorem Agg.ind_a : ∀ a : Agg, P a
  | .node k e st tmpl kids => h k e st tmpl kids (Agg.ind_t tmpl) (Agg.ind_k kids)
theorem Agg.ind_t : ∀ (t : Option Agg) (x : Agg), t = some x → P x
  | none, _, hx => by cases hx
  | some t, x, hx => by cases hx; exact Agg.ind_a t
theorem Agg.ind_k : ∀ (l : List (Key × Agg)) (p : Key × Agg), p ∈ l → P p.2
  | [], _, hp => by cases hp
  | (_, a) :: r, p, hp => by
    rcases List.mem_cons.1 hp with rfl | hp
    · exact Agg.ind_a a
    · exact Agg.ind_k r p hp
end
end ind

/-! ### the key order -/

/-- the two families of keys that meet in one sparse container: `true` = SparselyBin (nanflow and
bin indices), `false` = Categorize (categories) -/
def _root_.Hg.Key.inCls : Bool → Key → Bool
  | true, .nanflow => true
  | true, .idx _ => true
  | false, .cat _ => true
  | _, _ => false

theorem Key.lt_irrefl (a : Key) : Key.lt a a = false := by
  cases a <;> simp only [Key.lt, decide_eq_false_iff_not] <;> exact _root_.lt_irrefl _

theorem Key.lt_trans {a b c : Key} (h1 : Key.lt a b = true) (h2 : Key.lt b c = true) :
    Key.lt a c = true := by
  cases a <;> cases b <;> simp only [Key.lt, decide_eq_true_eq, reduceCtorEq] at h1 <;>
    cases c <;> simp only [Key.lt, decide_eq_true_eq, reduceCtorEq] at h2 ⊢ <;>
    first | omega | exact _root_.lt_trans h1 h2

theorem Key.lt_asymm {a b : Key} (h1 : Key.lt a b = true) : Key.lt b a = false := by
  cases hba : Key.lt b a
  · rfl
  · have := Key.lt_trans h1 hba
    rw [Key.lt_irrefl] at this
    cases this

theorem Key.lt_ne {a b : Key} (h1 : Key.lt a b = true) : a ≠ b := by
  rintro rfl
  rw [Key.lt_irrefl] at h1
  cases h1

theorem Key.lt_tri {c : Bool} {a b : Key} (ha : a.inCls c = true) (hb : b.inCls c = true) :
    Key.lt a b = true ∨ a = b ∨ Key.lt b a = true := by
  cases c <;> cases a <;> simp [Key.inCls] at ha <;> cases b <;> simp [Key.inCls] at hb <;>
    simp only [Key.lt, decide_eq_true_eq, Key.idx.injEq, Key.cat.injEq, reduceCtorEq, or_true, or_false] <;>
    first | omega | exact _root_.lt_trichotomy _ _

/-! ### strictly sorted association lists -/

/-- strictly sorted key list whose keys belong to the family `c` -/
def SLk (c : Bool) (ks : List Key) : Prop :=
  (∀ k ∈ ks, Key.inCls c k = true) ∧ ks.Pairwise (fun p q => Key.lt p q = true)

/-- strictly sorted association list whose keys belong to the family `c` -/
def SL {α : Type} (c : Bool) (l : List (Key × α)) : Prop := SLk c (keysOf l)

theorem keysOf_cons {α : Type} (k : Key) (a : α) (r : List (Key × α)) :
    keysOf ((k, a) :: r) = k :: keysOf r := rfl

theorem keysOf_nil {α : Type} : keysOf ([] : List (Key × α)) = [] := rfl

theorem mem_keysOf {α : Type} {p : Key × α} {l : List (Key × α)} (h : p ∈ l) : p.1 ∈ keysOf l :=
  List.mem_map_of_mem h

theorem SL_nil {α : Type} (c : Bool) : SL c ([] : List (Key × α)) :=
  ⟨fun k hk => (by cases hk), List.Pairwise.nil⟩

theorem SL_cons {α : Type} {c : Bool} {k : Key} {a : α} {r : List (Key × α)} :
    SL c ((k, a) :: r) ↔ Key.inCls c k = true ∧ (∀ k' ∈ keysOf r, Key.lt k k' = true) ∧ SL c r := by
  unfold SL SLk
  rw [keysOf_cons, List.pairwise_cons]
  constructor
  · rintro ⟨h1, h2, h3⟩
    exact ⟨h1 k (List.mem_cons_self ..), h2, fun k' hk' => h1 k' (List.mem_cons_of_mem _ hk'), h3⟩
  · rintro ⟨h1, h2, h3, h4⟩
    refine ⟨?_, h2, h4⟩
    intro k' hk'
    rcases List.mem_cons.1 hk' with rfl | hk'
    · exact h1
    · exact h3 k' hk'

theorem SL_of_keys {α β : Type} {c : Bool} {l : List (Key × α)} {l' : List (Key × β)}
    (hk : keysOf l' = keysOf l) (h : SL c l) : SL c l' := by
  unfold SL at *; rw [hk]; exact h

theorem lookupK_cons {α : Type} (j k : Key) (a : α) (r : List (Key × α)) :
    lookupK j ((k, a) :: r) = if k = j then some a else lookupK j r := rfl

theorem lookupK_nil {α : Type} (j : Key) : lookupK j ([] : List (Key × α)) = none := rfl

theorem lookupK_none_of_not_mem {α : Type} {j : Key} {l : List (Key × α)} (h : j ∉ keysOf l) :
    lookupK j l = none := by
  induction l with
  | nil => rfl
  | cons p r ih =>
    obtain ⟨k, a⟩ := p
    rw [keysOf_cons, List.mem_cons, not_or] at h
    rw [lookupK_cons, if_neg (fun e => h.1 e.symm), ih h.2]

theorem lookupK_none_of_lt {α : Type} {j : Key} {l : List (Key × α)}
    (h : ∀ k' ∈ keysOf l, Key.lt j k' = true) : lookupK j l = none :=
  lookupK_none_of_not_mem (fun hm => Key.lt_ne (h j hm) rfl)

theorem lookupK_mem {α : Type} {j : Key} {a : α} {l : List (Key × α)} (h : lookupK j l = some a) :
    (j, a) ∈ l := by
  induction l with
  | nil => cases h
  | cons p r ih =>
    obtain ⟨k, b⟩ := p
    rw [lookupK_cons] at h
    split at h
    · next hk => cases h; subst hk; exact List.mem_cons_self ..
    · exact List.mem_cons_of_mem _ (ih h)

theorem lookupK_isSome_of_mem {α : Type} {j : Key} {l : List (Key × α)} (h : j ∈ keysOf l) :
    ∃ a, lookupK j l = some a := by
  induction l with
  | nil => cases h
  | cons p r ih =>
    obtain ⟨k, b⟩ := p
    rw [keysOf_cons, List.mem_cons] at h
    rw [lookupK_cons]
    by_cases hk : k = j
    · exact ⟨b, by rw [if_pos hk]⟩
    · rw [if_neg hk]
      rcases h with rfl | h
      · exact absurd rfl hk
      · exact ih h

theorem lookupK_of_mem {α : Type} {c : Bool} {p : Key × α} {l : List (Key × α)} (hs : SL c l) (h : p ∈ l) :
    lookupK p.1 l = some p.2 := by
  induction l with
  | nil => cases h
  | cons q r ih =>
    obtain ⟨k, b⟩ := q
    rw [SL_cons] at hs
    rw [lookupK_cons]
    rcases List.mem_cons.1 h with rfl | h
    · rw [if_pos rfl]
    · rw [if_neg (Key.lt_ne (hs.2.1 _ (mem_keysOf h))), ih hs.2.2 h]

/-- two strictly sorted lists with the same `lookupK` are equal -/
theorem SL_ext {α : Type} {c : Bool} : ∀ {xs ys : List (Key × α)}, SL c xs → SL c ys →
    (∀ j, lookupK j xs = lookupK j ys) → xs = ys
  | [], [], _, _, _ => rfl
  | [], (k, b) :: r, _, _, h => by
    have := h k
    rw [lookupK_nil, lookupK_cons, if_pos rfl] at this
    cases this
  | (k, a) :: r, [], _, _, h => by
    have := h k
    rw [lookupK_nil, lookupK_cons, if_pos rfl] at this
    cases this
  | (k, a) :: r, (k', b) :: r', hx, hy, h => by
    rw [SL_cons] at hx hy
    have hkk : k = k' := by
      by_cases hkk : k = k'
      · exact hkk
      · exfalso
        have h1 := h k
        rw [lookupK_cons, if_pos rfl, lookupK_cons, if_neg (fun e => hkk e.symm)] at h1
        have h2 := h k'
        rw [lookupK_cons, if_neg hkk, lookupK_cons, if_pos rfl] at h2
        have m1 := hy.2.1 _ (mem_keysOf (lookupK_mem h1.symm))
        have m2 := hx.2.1 _ (mem_keysOf (lookupK_mem h2))
        rw [Key.lt_asymm m1] at m2
        cases m2
    subst hkk
    have hab : a = b := by
      have h1 := h k
      rw [lookupK_cons, if_pos rfl, lookupK_cons, if_pos rfl] at h1
      exact Option.some.inj h1
    subst hab
    have : r = r' := by
      apply SL_ext hx.2.2 hy.2.2
      intro j
      by_cases hj : k = j
      · subst hj
        rw [lookupK_none_of_lt hx.2.1, lookupK_none_of_lt hy.2.1]
      · have h1 := h j
        rw [lookupK_cons, if_neg hj, lookupK_cons, if_neg hj] at h1
        exact h1
    rw [this]

/-- `layoutOk` of the two sparse kinds gives sortedness -/
def _root_.Hg.Kind.cls : Kind → Bool
  | .sparse .. => true
  | _ => false

theorem sortedKeys_pairwise : ∀ {ks : List Key}, sortedKeys ks = true →
    ks.Pairwise (fun p q => Key.lt p q = true)
  | [], _ => List.Pairwise.nil
  | [a], _ => List.pairwise_singleton _ _
  | a :: b :: rest, h => by
    simp only [sortedKeys, Bool.and_eq_true] at h
    have ih := sortedKeys_pairwise h.2
    rw [List.pairwise_cons]
    refine ⟨?_, ih⟩
    intro k hk
    rcases List.mem_cons.1 hk with rfl | hk
    · exact h.1
    · exact Key.lt_trans h.1 ((List.pairwise_cons.1 ih).1 k hk)

theorem SLk_of_layoutOk {k : Kind} {ks : List Key} (hs : k.isSparse = true)
    (h : k.layoutOk ks = true) : SLk k.cls ks := by
  cases k <;> simp only [Kind.isSparse, Bool.false_eq_true] at hs
  · -- sparse
    simp only [Kind.layoutOk, Bool.and_eq_true, decide_eq_true_eq] at h
    obtain ⟨_, h⟩ := h
    split at h
    · next rest =>
      simp only [Bool.and_eq_true, List.all_eq_true] at h
      refine ⟨?_, ?_⟩
      · intro k' hk'
        rcases List.mem_cons.1 hk' with rfl | hk'
        · rfl
        · have := h.1 k' hk'
          cases k' <;> simp only [Key.isIdx, Bool.false_eq_true] at this
          rfl
      · rw [List.pairwise_cons]
        refine ⟨?_, sortedKeys_pairwise h.2⟩
        intro k' hk'
        have := h.1 k' hk'
        cases k' <;> simp only [Key.isIdx, Bool.false_eq_true] at this
        rfl
    · cases h
  · -- categorize
    simp only [Kind.layoutOk, Bool.and_eq_true, List.all_eq_true] at h
    refine ⟨?_, sortedKeys_pairwise h.2⟩
    intro k' hk'
    have := h.1 k' hk'
    cases k' <;> simp only [Key.isCat, Bool.false_eq_true] at this
    rfl

/-! ### `unionKids` as a sorted merge -/

theorem unionKids_nil_left (ys : List (Key × Agg)) : unionKids [] ys = ys := by rw [unionKids]

theorem unionKids_nil_right : ∀ xs : List (Key × Agg), unionKids xs [] = xs
  | [] => by rw [unionKids]
  | (k, a) :: r => by
    rw [unionKids.eq_2]
    simp only [List.dropWhile_nil, List.takeWhile_nil, List.nil_append, unionKids_nil_right r]

theorem unionKids_cons_cons (k1 : Key) (a : Agg) (r1 : List (Key × Agg)) (k2 : Key) (b : Agg)
    (r2 : List (Key × Agg)) :
    unionKids ((k1, a) :: r1) ((k2, b) :: r2) =
      if Key.lt k2 k1 = true then (k2, b) :: unionKids ((k1, a) :: r1) r2
      else if k2 = k1 then (k1, addRaw a b) :: unionKids r1 r2
      else (k1, a) :: unionKids r1 ((k2, b) :: r2) := by
  by_cases hlt : Key.lt k2 k1 = true
  · rw [if_pos hlt, unionKids.eq_2, unionKids.eq_2]
    simp only [List.dropWhile_cons, List.takeWhile_cons, hlt, if_true, List.cons_append]
    split <;> [skip; split] <;> rfl
  · rw [if_neg hlt, unionKids.eq_2]
    simp only [List.dropWhile_cons, List.takeWhile_cons, hlt, Bool.false_eq_true, if_false,
      List.nil_append]

/-- induction along the merge recursion -/
theorem union_induct {M : List (Key × Agg) → List (Key × Agg) → Prop}
    (nil_l : ∀ ys, M [] ys) (nil_r : ∀ k a r, M ((k, a) :: r) [])
    (lt : ∀ k1 a r1 k2 b r2, Key.lt k2 k1 = true → M ((k1, a) :: r1) r2 →
      M ((k1, a) :: r1) ((k2, b) :: r2))
    (eq : ∀ k a r1 b r2, M r1 r2 → M ((k, a) :: r1) ((k, b) :: r2))
    (gt : ∀ k1 a r1 k2 b r2, ¬ Key.lt k2 k1 = true → k2 ≠ k1 → M r1 ((k2, b) :: r2) →
      M ((k1, a) :: r1) ((k2, b) :: r2)) :
    ∀ xs ys, M xs ys := by
  intro xs
  induction xs with
  | nil => exact nil_l
  | cons p r1 ih =>
    obtain ⟨k1, a⟩ := p
    intro ys
    induction ys with
    | nil => exact nil_r ..
    | cons q r2 ih2 =>
      obtain ⟨k2, b⟩ := q
      by_cases hlt : Key.lt k2 k1 = true
      · exact lt _ _ _ _ _ _ hlt ih2
      · by_cases he : k2 = k1
        · subst he; exact eq _ _ _ _ _ (ih r2)
        · exact gt _ _ _ _ _ _ hlt he (ih _)

theorem unionKids_keys (xs ys : List (Key × Agg)) :
    ∀ k ∈ keysOf (unionKids xs ys), k ∈ keysOf xs ∨ k ∈ keysOf ys := by
  refine union_induct (M := fun xs ys => ∀ k ∈ keysOf (unionKids xs ys), k ∈ keysOf xs ∨ k ∈ keysOf ys)
    ?_ ?_ ?_ ?_ ?_ xs ys
  · intro ys k hk; rw [unionKids_nil_left] at hk; exact Or.inr hk
  · intro k a r j hj; rw [unionKids_nil_right] at hj; exact Or.inl hj
  · intro k1 a r1 k2 b r2 hlt ih j hj
    rw [unionKids_cons_cons, if_pos hlt, keysOf_cons, List.mem_cons] at hj
    rcases hj with rfl | hj
    · exact Or.inr (List.mem_cons_self ..)
    · rcases ih j hj with h | h
      · exact Or.inl h
      · exact Or.inr (List.mem_cons_of_mem _ h)
  · intro k a r1 b r2 ih j hj
    rw [unionKids_cons_cons, if_neg (by rw [Key.lt_irrefl]; simp), if_pos rfl, keysOf_cons,
      List.mem_cons] at hj
    rcases hj with rfl | hj
    · exact Or.inl (List.mem_cons_self ..)
    · rcases ih j hj with h | h
      · exact Or.inl (List.mem_cons_of_mem _ h)
      · exact Or.inr (List.mem_cons_of_mem _ h)
  · intro k1 a r1 k2 b r2 hlt he ih j hj
    rw [unionKids_cons_cons, if_neg hlt, if_neg he, keysOf_cons, List.mem_cons] at hj
    rcases hj with rfl | hj
    · exact Or.inl (List.mem_cons_self ..)
    · rcases ih j hj with h | h
      · exact Or.inl (List.mem_cons_of_mem _ h)
      · exact Or.inr h

/-- the child of a union at one key -/
def merge2 : Option Agg → Option Agg → Option Agg
  | some a, some b => some (addRaw a b)
  | some a, none => some a
  | none, ob => ob

theorem merge2_none_left (o : Option Agg) : merge2 none o = o := rfl
theorem merge2_none_right (o : Option Agg) : merge2 o none = o := by cases o <;> rfl

theorem SL_unionKids {c : Bool} (xs ys : List (Key × Agg)) :
    SL c xs → SL c ys → SL c (unionKids xs ys) := by
  refine union_induct (M := fun xs ys => SL c xs → SL c ys → SL c (unionKids xs ys))
    ?_ ?_ ?_ ?_ ?_ xs ys
  · intro ys _ hy; rw [unionKids_nil_left]; exact hy
  · intro k a r hx _; rw [unionKids_nil_right]; exact hx
  · intro k1 a r1 k2 b r2 hlt ih hx hy
    rw [unionKids_cons_cons, if_pos hlt]
    have hy' := SL_cons.1 hy
    have hx' := SL_cons.1 hx
    refine SL_cons.2 ⟨hy'.1, ?_, ih hx hy'.2.2⟩
    intro j hj
    rcases unionKids_keys _ _ j hj with h | h
    · rw [keysOf_cons, List.mem_cons] at h
      rcases h with rfl | h
      · exact hlt
      · exact Key.lt_trans hlt (hx'.2.1 j h)
    · exact hy'.2.1 j h
  · intro k a r1 b r2 ih hx hy
    rw [unionKids_cons_cons, if_neg (by rw [Key.lt_irrefl]; simp), if_pos rfl]
    have hy' := SL_cons.1 hy
    have hx' := SL_cons.1 hx
    refine SL_cons.2 ⟨hx'.1, ?_, ih hx'.2.2 hy'.2.2⟩
    intro j hj
    rcases unionKids_keys _ _ j hj with h | h
    · exact hx'.2.1 j h
    · exact hy'.2.1 j h
  · intro k1 a r1 k2 b r2 hlt he ih hx hy
    rw [unionKids_cons_cons, if_neg hlt, if_neg he]
    have hy' := SL_cons.1 hy
    have hx' := SL_cons.1 hx
    have h12 : Key.lt k1 k2 = true := by
      rcases Key.lt_tri hx'.1 hy'.1 with h | h | h
      · exact h
      · exact absurd h.symm he
      · exact absurd h hlt
    refine SL_cons.2 ⟨hx'.1, ?_, ih hx'.2.2 hy⟩
    intro j hj
    rcases unionKids_keys _ _ j hj with h | h
    · exact hx'.2.1 j h
    · rw [keysOf_cons, List.mem_cons] at h
      rcases h with rfl | h
      · exact h12
      · exact Key.lt_trans h12 (hy'.2.1 j h)

theorem lookupK_unionKids {c : Bool} (xs ys : List (Key × Agg)) :
    SL c xs → SL c ys → ∀ j, lookupK j (unionKids xs ys) = merge2 (lookupK j xs) (lookupK j ys) := by
  refine union_induct (M := fun xs ys => SL c xs → SL c ys →
    ∀ j, lookupK j (unionKids xs ys) = merge2 (lookupK j xs) (lookupK j ys)) ?_ ?_ ?_ ?_ ?_ xs ys
  · intro ys _ _ j; rw [unionKids_nil_left, lookupK_nil, merge2_none_left]
  · intro k a r _ _ j; rw [unionKids_nil_right, lookupK_nil, merge2_none_right]
  · intro k1 a r1 k2 b r2 hlt ih hx hy j
    rw [unionKids_cons_cons, if_pos hlt]
    have hy' := SL_cons.1 hy
    have hx' := SL_cons.1 hx
    rw [lookupK_cons, lookupK_cons j k2]
    by_cases hj : k2 = j
    · subst hj
      rw [if_pos rfl, if_pos rfl]
      have : lookupK k2 ((k1, a) :: r1) = none := by
        apply lookupK_none_of_lt
        intro k' hk'
        rw [keysOf_cons, List.mem_cons] at hk'
        rcases hk' with rfl | hk'
        · exact hlt
        · exact Key.lt_trans hlt (hx'.2.1 _ hk')
      rw [this, merge2_none_left]
    · rw [if_neg hj, if_neg hj]
      exact ih hx hy'.2.2 j
  · intro k a r1 b r2 ih hx hy j
    rw [unionKids_cons_cons, if_neg (by rw [Key.lt_irrefl]; simp), if_pos rfl]
    have hy' := SL_cons.1 hy
    have hx' := SL_cons.1 hx
    rw [lookupK_cons, lookupK_cons, lookupK_cons]
    by_cases hj : k = j
    · rw [if_pos hj, if_pos hj, if_pos hj]; rfl
    · rw [if_neg hj, if_neg hj, if_neg hj]
      exact ih hx'.2.2 hy'.2.2 j
  · intro k1 a r1 k2 b r2 hlt he ih hx hy j
    rw [unionKids_cons_cons, if_neg hlt, if_neg he]
    have hy' := SL_cons.1 hy
    have hx' := SL_cons.1 hx
    have h12 : Key.lt k1 k2 = true := by
      rcases Key.lt_tri hx'.1 hy'.1 with h | h | h
      · exact h
      · exact absurd h.symm he
      · exact absurd h hlt
    rw [lookupK_cons, lookupK_cons j k1]
    by_cases hj : k1 = j
    · subst hj
      rw [if_pos rfl, if_pos rfl]
      have : lookupK k1 ((k2, b) :: r2) = none := by
        apply lookupK_none_of_lt
        intro k' hk'
        rw [keysOf_cons, List.mem_cons] at hk'
        rcases hk' with rfl | hk'
        · exact h12
        · exact Key.lt_trans h12 (hy'.2.1 _ hk')
      rw [this]; rfl
    · rw [if_neg hj, if_neg hj]
      exact ih hx'.2.2 hy j

/-! ### `insertK` -/

theorem insertK_nil (key : Key) (nb : Agg) : insertK key nb [] = [(key, nb)] := rfl

theorem insertK_cons (key : Key) (nb : Agg) (k : Key) (b : Agg) (rest : List (Key × Agg)) :
    insertK key nb ((k, b) :: rest) =
      if Key.lt key k = true then (key, nb) :: (k, b) :: rest else (k, b) :: insertK key nb rest := rfl

theorem insertK_keys (key : Key) (nb : Agg) :
    ∀ (xs : List (Key × Agg)), ∀ k ∈ keysOf (insertK key nb xs), k = key ∨ k ∈ keysOf xs
  | [], k, hk => by
    rw [insertK_nil, keysOf_cons, List.mem_cons] at hk
    exact hk
  | (k', b) :: rest, k, hk => by
    rw [insertK_cons] at hk
    split at hk
    · rw [keysOf_cons, List.mem_cons] at hk
      exact hk
    · rw [keysOf_cons, List.mem_cons] at hk
      rcases hk with rfl | hk
      · exact Or.inr (List.mem_cons_self ..)
      · rcases insertK_keys key nb rest k hk with h | h
        · exact Or.inl h
        · exact Or.inr (List.mem_cons_of_mem _ h)

theorem lookupK_insertK (key : Key) (nb : Agg) :
    ∀ (xs : List (Key × Agg)), lookupK key xs = none →
      ∀ j, lookupK j (insertK key nb xs) = if j = key then some nb else lookupK j xs
  | [], _, j => by
    rw [insertK_nil, lookupK_cons, lookupK_nil]
    by_cases h : key = j
    · rw [if_pos h, if_pos h.symm]
    · rw [if_neg h, if_neg (fun e => h e.symm)]
  | (k', b) :: rest, hn, j => by
    rw [lookupK_cons] at hn
    have hk' : ¬ k' = key := by
      intro e; rw [if_pos e] at hn; cases hn
    rw [if_neg hk'] at hn
    rw [insertK_cons]
    split
    · rw [lookupK_cons]
      by_cases h : key = j
      · rw [if_pos h, if_pos h.symm]
      · rw [if_neg h, if_neg (fun e => h e.symm)]
    · rw [lookupK_cons, lookupK_insertK key nb rest hn j, lookupK_cons]
      by_cases h : k' = j
      · rw [if_pos h, if_pos h, if_neg (fun e => hk' (h.trans e))]
      · rw [if_neg h, if_neg h]

theorem SL_insertK {c : Bool} (key : Key) (nb : Agg) (hk : Key.inCls c key = true) :
    ∀ (xs : List (Key × Agg)), SL c xs → lookupK key xs = none → SL c (insertK key nb xs)
  | [], _, _ => by
    rw [insertK_nil]
    exact SL_cons.2 ⟨hk, fun k' hk' => (by cases hk'), SL_nil c⟩
  | (k', b) :: rest, hs, hn => by
    have hs' := SL_cons.1 hs
    rw [lookupK_cons] at hn
    have hk' : ¬ k' = key := by
      intro e; rw [if_pos e] at hn; cases hn
    rw [if_neg hk'] at hn
    rw [insertK_cons]
    split
    · next hlt =>
      refine SL_cons.2 ⟨hk, ?_, hs⟩
      intro j hj
      rw [keysOf_cons, List.mem_cons] at hj
      rcases hj with rfl | hj
      · exact hlt
      · exact Key.lt_trans hlt (hs'.2.1 j hj)
    · next hlt =>
      have h12 : Key.lt k' key = true := by
        rcases Key.lt_tri hs'.1 hk with h | h | h
        · exact h
        · exact absurd h hk'
        · exact absurd h hlt
      refine SL_cons.2 ⟨hs'.1, ?_, SL_insertK key nb hk rest hs'.2.2 hn⟩
      intro j hj
      rcases insertK_keys key nb rest j hj with rfl | h
      · exact h12
      · exact hs'.2.1 j h

/-! ### `fillKids` -/

theorem fillKids_nil (tg : List (Key × Val)) (d : Datum) : fillKids [] tg d = ([], .ok) := by
  rw [fillKids]

theorem fillKids_cons_none {key : Key} {a : Agg} {rest : List (Key × Agg)} {tg : List (Key × Val)}
    {d : Datum} (h : lookupK key tg = none) :
    fillKids ((key, a) :: rest) tg d = ((key, a) :: (fillKids rest tg d).1, (fillKids rest tg d).2) := by
  rw [fillKids]; simp only [h]

theorem fillKids_cons_some {key : Key} {a : Agg} {rest : List (Key × Agg)} {tg : List (Key × Val)}
    {d : Datum} {w' : Val} (h : lookupK key tg = some w') :
    fillKids ((key, a) :: rest) tg d =
      if (fill a d w').2.isOk = true then
        ((key, (fill a d w').1) :: (fillKids rest tg d).1, (fillKids rest tg d).2)
      else ((key, (fill a d w').1) :: rest, (fill a d w').2) := by
  rw [fillKids]; simp only [h]

theorem keysOf_fillKids (tg : List (Key × Val)) (d : Datum) :
    ∀ xs : List (Key × Agg), keysOf (fillKids xs tg d).1 = keysOf xs
  | [] => by rw [fillKids_nil]
  | (key, a) :: rest => by
    cases h : lookupK key tg with
    | none => rw [fillKids_cons_none h, keysOf_cons, keysOf_cons, keysOf_fillKids tg d rest]
    | some w' =>
      rw [fillKids_cons_some h]
      split
      · rw [keysOf_cons, keysOf_cons, keysOf_fillKids tg d rest]
      · rw [keysOf_cons, keysOf_cons]

theorem lookupK_single (key' key : Key) (w : Val) :
    lookupK key' [(key, w)] = if key = key' then some w else none := rfl

theorem Outcome.isOk_iff (o : Outcome) : o.isOk = true ↔ o = .ok := by
  cases o <;> simp [Outcome.isOk]

theorem lookupK_fillKids_single (key : Key) (w : Val) (d : Datum) :
    ∀ (xs : List (Key × Agg)) (j : Key),
      lookupK j (fillKids xs [(key, w)] d).1 =
        if j = key then (lookupK j xs).map (fun a => (fill a d w).1) else lookupK j xs
  | [], j => by rw [fillKids_nil, lookupK_nil]; split <;> rfl
  | (k', a) :: rest, j => by
    by_cases hk : key = k'
    · subst hk
      have h : lookupK key [(key, w)] = some w := by rw [lookupK_single, if_pos rfl]
      rw [fillKids_cons_some h]
      split
      · rw [lookupK_cons, lookupK_cons, lookupK_fillKids_single key w d rest j]
        by_cases hj : key = j
        · rw [if_pos hj, if_pos hj, if_pos hj.symm]; rfl
        · rw [if_neg hj, if_neg hj]
      · rw [lookupK_cons, lookupK_cons]
        by_cases hj : key = j
        · rw [if_pos hj, if_pos hj, if_pos hj.symm]; rfl
        · rw [if_neg hj, if_neg hj, if_neg (fun e => hj e.symm)]
    · have h : lookupK k' [(key, w)] = none := by rw [lookupK_single, if_neg hk]
      rw [fillKids_cons_none h, lookupK_cons, lookupK_cons, lookupK_fillKids_single key w d rest j]
      by_cases hj : k' = j
      · rw [if_pos hj, if_pos hj, if_neg (fun e => hk (hj.trans e).symm)]
      · rw [if_neg hj, if_neg hj]

/-- a list that does not hold the target key is left alone -/
theorem fillKids_single_not_mem (key : Key) (w : Val) (d : Datum) :
    ∀ (xs : List (Key × Agg)), key ∉ keysOf xs → fillKids xs [(key, w)] d = (xs, .ok)
  | [], _ => fillKids_nil _ _
  | (k', a) :: rest, hn => by
    rw [keysOf_cons, List.mem_cons, not_or] at hn
    have h : lookupK k' [(key, w)] = none := by rw [lookupK_single, if_neg hn.1]
    rw [fillKids_cons_none h, fillKids_single_not_mem key w d rest hn.2]

theorem fillKids_single_ok {c : Bool} (key : Key) (w : Val) (d : Datum) :
    ∀ (xs : List (Key × Agg)), SL c xs →
      (fillKids xs [(key, w)] d).2 =
        (match lookupK key xs with
         | some a => (fill a d w).2
         | none => .ok)
  | [], _ => by rw [fillKids_nil, lookupK_nil]
  | (k', a) :: rest, hs => by
    have hs' := SL_cons.1 hs
    by_cases hk : key = k'
    · subst hk
      have h : lookupK key [(key, w)] = some w := by rw [lookupK_single, if_pos rfl]
      rw [fillKids_cons_some h, lookupK_cons, if_pos rfl]
      split
      · next hok =>
        rw [fillKids_single_not_mem key w d rest
          (fun hm => Key.lt_ne (hs'.2.1 _ hm) rfl)]
        exact ((Outcome.isOk_iff _).1 hok).symm
      · rfl
    · have h : lookupK k' [(key, w)] = none := by rw [lookupK_single, if_neg hk]
      rw [fillKids_cons_none h, lookupK_cons, if_neg (fun e => hk e.symm)]
      exact fillKids_single_ok key w d rest hs'.2.2

/-! ### filling one key of a union -/

theorem union_fill_has {c : Bool} {xs ys : List (Key × Agg)} {key : Key} {w : Val} {d : Datum} {ai : Agg}
    (hx : SL c xs) (hy : SL c ys) (hai : lookupK key xs = some ai)
    (hok : (fillKids xs [(key, w)] d).2 = .ok)
    (hsh : ∀ bi, lookupK key ys = some bi →
      (fill (addRaw ai bi) d w).2 = .ok ∧ addRaw (fill ai d w).1 bi = (fill (addRaw ai bi) d w).1) :
    (fillKids (unionKids xs ys) [(key, w)] d).2 = .ok ∧
      unionKids (fillKids xs [(key, w)] d).1 ys = (fillKids (unionKids xs ys) [(key, w)] d).1 := by
  have hx' : SL c (fillKids xs [(key, w)] d).1 := SL_of_keys (keysOf_fillKids _ _ _) hx
  have hu : SL c (unionKids xs ys) := SL_unionKids _ _ hx hy
  have haiok : (fill ai d w).2 = .ok := by
    rw [fillKids_single_ok key w d xs hx, hai] at hok
    exact hok
  constructor
  · rw [fillKids_single_ok key w d _ hu, lookupK_unionKids _ _ hx hy, hai]
    cases hb : lookupK key ys with
    | none => exact haiok
    | some bi => exact (hsh bi hb).1
  · apply SL_ext (SL_unionKids _ _ hx' hy) (SL_of_keys (keysOf_fillKids _ _ _) hu)
    intro j
    rw [lookupK_unionKids _ _ hx' hy, lookupK_fillKids_single, lookupK_fillKids_single,
      lookupK_unionKids _ _ hx hy]
    by_cases hj : j = key
    · subst hj
      rw [if_pos rfl, if_pos rfl, hai]
      cases hb : lookupK j ys with
      | none => rfl
      | some bi =>
        show some (addRaw (fill ai d w).1 bi) = some (fill (addRaw ai bi) d w).1
        rw [(hsh bi hb).2]
    · rw [if_neg hj, if_neg hj]

theorem union_fill_new_right {c : Bool} {xs ys : List (Key × Agg)} {key : Key} {w : Val} {d : Datum}
    {nb bi : Agg} (hx : SL c xs) (hy : SL c ys) (hk : Key.inCls c key = true)
    (hn : lookupK key xs = none) (hbi : lookupK key ys = some bi)
    (hsh : addRaw nb bi = (fill bi d w).1) :
    (fillKids (unionKids xs ys) [(key, w)] d).2 = (fill bi d w).2 ∧
      unionKids (insertK key nb xs) ys = (fillKids (unionKids xs ys) [(key, w)] d).1 := by
  have hx' : SL c (insertK key nb xs) := SL_insertK key nb hk xs hx hn
  have hu : SL c (unionKids xs ys) := SL_unionKids _ _ hx hy
  constructor
  · rw [fillKids_single_ok key w d _ hu, lookupK_unionKids _ _ hx hy, hn, hbi]; rfl
  · apply SL_ext (SL_unionKids _ _ hx' hy) (SL_of_keys (keysOf_fillKids _ _ _) hu)
    intro j
    rw [lookupK_unionKids _ _ hx' hy, lookupK_insertK key nb xs hn, lookupK_fillKids_single,
      lookupK_unionKids _ _ hx hy]
    by_cases hj : j = key
    · subst hj
      rw [if_pos rfl, if_pos rfl, hn, hbi]
      show some (addRaw nb bi) = some (fill bi d w).1
      rw [hsh]
    · rw [if_neg hj, if_neg hj]

theorem union_insert_new {c : Bool} {xs ys : List (Key × Agg)} {key : Key} {nb : Agg}
    (hx : SL c xs) (hy : SL c ys) (hk : Key.inCls c key = true)
    (hn : lookupK key xs = none) (hn2 : lookupK key ys = none) :
    lookupK key (unionKids xs ys) = none ∧
      unionKids (insertK key nb xs) ys = insertK key nb (unionKids xs ys) := by
  have hx' : SL c (insertK key nb xs) := SL_insertK key nb hk xs hx hn
  have hu : SL c (unionKids xs ys) := SL_unionKids _ _ hx hy
  have hnu : lookupK key (unionKids xs ys) = none := by
    rw [lookupK_unionKids _ _ hx hy, hn, hn2]; rfl
  refine ⟨hnu, ?_⟩
  apply SL_ext (SL_unionKids _ _ hx' hy) (SL_insertK key nb hk _ hu hnu)
  intro j
  rw [lookupK_unionKids _ _ hx' hy, lookupK_insertK key nb xs hn, lookupK_insertK key nb _ hnu,
    lookupK_unionKids _ _ hx hy]
  by_cases hj : j = key
  · subst hj
    rw [if_pos rfl, if_pos rfl, hn2]; rfl
  · rw [if_neg hj, if_neg hj]

end Hg.P3
