/-
  Hg.Proofs.InvNp — the bookkeeping invariants of C05 survive a vectorised fill.

  `Np.Zrel a r` ("a is r plus sparse bins of zero weight", Hg.Proofs.NpTree2) is what the main theorem of the
  vectorised fill (`Np.main_all`, used by `Hg.fillNp_eq_rows` in Hg.Proofs.NpLaws) establishes between the
  result `a` of `fillNp` and the row-wise state `r = fillAll t (rows.zip ws)`.  The invariants `inv`
  (Hg.Model.Spec) are transported along it: extra bins hold zero entries and are zero-weight copies of the template.
-/
import Hg.Proofs.NpLaws
import Hg.Proofs.FrameZrel
import Hg.Proofs.InvLawsB

namespace Hg

open Np (Zrel)

namespace InvNp

/-! ### fixed layouts: children that correspond position by position with equal keys and entries -/

/-- same key, same `entries` -/
def ER (p q : Key × Agg) : Prop := p.1 = q.1 ∧ p.2.entries = q.2.entries

theorem forall2_of_lookup : ∀ (l1 l2 : List (Key × Agg)), keysOf l1 = keysOf l2 → (keysOf l1).Nodup →
    (∀ key x y, lookupK key l1 = some x → lookupK key l2 = some y → x.entries = y.entries) →
    List.Forall₂ ER l1 l2
  | [], [], _, _, _ => List.Forall₂.nil
  | [], _ :: _, h, _, _ => by cases h
  | _ :: _, [], h, _, _ => by cases h
  | (k1, a) :: r1, (k2, b) :: r2, hk, hn, h => by
    rw [P3.keysOf_cons, P3.keysOf_cons] at hk
    injection hk with hk1 hk2
    subst hk1
    rw [P3.keysOf_cons, List.nodup_cons] at hn
    refine List.Forall₂.cons ⟨rfl, h k1 a b (by rw [P3.lookupK_cons, if_pos rfl])
      (by rw [P3.lookupK_cons, if_pos rfl])⟩ (forall2_of_lookup r1 r2 hk2 hn.2 ?_)
    intro key x y hx hy
    have hne : ¬ k1 = key := by
      intro e; subst e
      exact hn.1 (P3.mem_keysOf (P3.lookupK_mem hx))
    exact h key x y (by rw [P3.lookupK_cons, if_neg hne]; exact hx)
      (by rw [P3.lookupK_cons, if_neg hne]; exact hy)

theorem sum_f2 : ∀ {l1 l2 : List (Key × Agg)}, List.Forall₂ ER l1 l2 → sumEntries l1 = sumEntries l2
  | [], [], _ => rfl
  | (_, a) :: r1, (_, b) :: r2, h => by
    obtain ⟨hab, hr⟩ := List.forall₂_cons.1 h
    have he : a.entries = b.entries := hab.2
    rw [sumEntries, sumEntries, he, sum_f2 hr]

theorem all_f2 (e : Val) : ∀ {l1 l2 : List (Key × Agg)}, List.Forall₂ ER l1 l2 →
    l1.all (fun p => decide (p.2.entries = e)) = l2.all (fun p => decide (p.2.entries = e))
  | [], [], _ => rfl
  | (_, a) :: r1, (_, b) :: r2, h => by
    obtain ⟨hab, hr⟩ := List.forall₂_cons.1 h
    have he : a.entries = b.entries := hab.2
    rw [List.all_cons, List.all_cons, all_f2 e hr]
    simp only [he]

theorem lookup_f2 (key : Key) : ∀ {l1 l2 : List (Key × Agg)}, List.Forall₂ ER l1 l2 →
    (lookupK key l1).map Agg.entries = (lookupK key l2).map Agg.entries
  | [], [], _ => rfl
  | (k1, a) :: r1, (k2, b) :: r2, h => by
    obtain ⟨hab, hr⟩ := List.forall₂_cons.1 h
    have hk : k1 = k2 := hab.1
    have he : a.entries = b.entries := hab.2
    subst hk
    rw [P3.lookupK_cons, P3.lookupK_cons]
    by_cases hj : k1 = key
    · rw [if_pos hj, if_pos hj, Option.map_some, Option.map_some, he]
    · rw [if_neg hj, if_neg hj]; exact lookup_f2 key hr

theorem filter_f2 (f : Key → Bool) : ∀ {l1 l2 : List (Key × Agg)}, List.Forall₂ ER l1 l2 →
    List.Forall₂ ER (l1.filter (fun p => f p.1)) (l2.filter (fun p => f p.1))
  | [], [], _ => List.Forall₂.nil
  | (k1, a) :: r1, (k2, b) :: r2, h => by
    obtain ⟨hab, hr⟩ := List.forall₂_cons.1 h
    have hk : k1 = k2 := hab.1
    subst hk
    rw [List.filter_cons, List.filter_cons]
    by_cases hf : f k1 = true
    · rw [if_pos hf, if_pos hf]; exact List.Forall₂.cons hab (filter_f2 f hr)
    · rw [if_neg hf, if_neg hf]; exact filter_f2 f hr

theorem binsOf_f2 {l1 l2 : List (Key × Agg)} (h : List.Forall₂ ER l1 l2) :
    List.Forall₂ ER (binsOf l1) (binsOf l2) := by
  rw [InvB.binsOf_eq_filter, InvB.binsOf_eq_filter]
  exact filter_f2 (fun k : Key => match k with | .under | .over | .nanflow => false | _ => true) h

theorem antitone_f2 : ∀ {l1 l2 : List (Key × Agg)}, List.Forall₂ ER l1 l2 →
    antitoneEntries l1 = antitoneEntries l2
  | [], [], _ => rfl
  | [_], [_], _ => rfl
  | [_], _ :: _ :: _, h => by
    obtain ⟨_, hr⟩ := List.forall₂_cons.1 h
    cases hr
  | _ :: _ :: _, [_], h => by
    obtain ⟨_, hr⟩ := List.forall₂_cons.1 h
    cases hr
  | a :: b :: r1, a' :: b' :: r2, h => by
    obtain ⟨haa, hr⟩ := List.forall₂_cons.1 h
    obtain ⟨hbb, _⟩ := List.forall₂_cons.1 hr
    rw [antitoneEntries, antitoneEntries, haa.2, hbb.2, antitone_f2 hr]

/-- the closing condition of a Stack: level 0 plus nanflow -/
def stackHead (bs : List (Key × Agg)) (nf : Option Agg) (e : Val) : Bool :=
  match bs, nf with
  | l0 :: _, some nf => decide (l0.2.entries + nf.entries = e)
  | _, _ => false

theorem stackHead_f2 {b1 b2 : List (Key × Agg)} {n1 n2 : Option Agg} (e : Val) (hb : List.Forall₂ ER b1 b2)
    (hn : n1.map Agg.entries = n2.map Agg.entries) : stackHead b1 n1 e = stackHead b2 n2 e := by
  cases hb with
  | nil => rfl
  | cons hab _ =>
    cases n1 <;> cases n2 <;> simp only [Option.map_some, Option.map_none, Option.some.injEq, reduceCtorEq] at hn
    · rfl
    · simp only [stackHead, hab.2, hn]

theorem kindOk_stack (q : Qty) (st : St) (e : Val) (kids : List (Key × Agg)) :
    InvB.kindOk (.stack q) st e kids =
      (antitoneEntries (binsOf kids) && stackHead (binsOf kids) (lookupK .nanflow kids) e) := by
  rfl

theorem kindOk_fraction (q : Qty) (st : St) (e : Val) (kids : List (Key × Agg)) :
    InvB.kindOk (.fraction q) st e kids = ((lookupK .den kids).map Agg.entries == some e) := by
  simp only [InvB.kindOk]
  cases lookupK .den kids with
  | none => rfl
  | some d =>
    simp only [Option.map_some]
    by_cases h : d.entries = e
    · simp [h]
    · simp [h]

/-- the node-level condition only reads the keys and the entries of the children -/
theorem kindOk_f2 (k : Kind) (st : St) (e : Val) {l1 l2 : List (Key × Agg)} (h : List.Forall₂ ER l1 l2) :
    InvB.kindOk k st e l1 = InvB.kindOk k st e l2 := by
  cases k with
  | stack q =>
    rw [kindOk_stack, kindOk_stack, antitone_f2 (binsOf_f2 h),
      stackHead_f2 e (binsOf_f2 h) (lookup_f2 .nanflow h)]
  | fraction q => rw [kindOk_fraction, kindOk_fraction, lookup_f2 .den h]
  | bin | sparse | central | irregular | categorize =>
    rw [InvB.kindOk_partition rfl, InvB.kindOk_partition rfl, sum_f2 h]
  | label | untypedLabel | index | branch =>
    simp only [InvB.kindOk]; exact all_f2 e h
  | bag q r => cases st <;> rfl
  | _ => rfl

/-! ### sparse containers: the extra bins have zero entries -/

theorem sum_sparse {c : Bool} : ∀ (kA kR : List (Key × Agg)), P3.SL c kA → P3.SL c kR →
    (∀ key x y, lookupK key kA = some x → lookupK key kR = some y → x.entries = y.entries) →
    (∀ key x, lookupK key kA = some x → lookupK key kR = none → x.entries = 0) →
    (∀ key, lookupK key kA = none → lookupK key kR = none) →
    sumEntries kA = sumEntries kR
  | [], [], _, _, _, _, _ => rfl
  | [], (k', b) :: r, _, _, _, _, hnone => by
    have := hnone k' rfl
    rw [P3.lookupK_cons, if_pos rfl] at this
    cases this
  | (k, a) :: rA, kR, hsA, hsR, hsome, hzero, hnone => by
    have hA := P3.SL_cons.1 hsA
    have hkA : lookupK k rA = none := P3.lookupK_none_of_lt hA.2.1
    have hne : ∀ j, j ∈ keysOf rA → ¬ k = j := fun j hj => P3.Key.lt_ne (hA.2.1 j hj)
    cases hR : lookupK k kR with
    | none =>
      have h0 : a.entries = 0 := hzero k a (by rw [P3.lookupK_cons, if_pos rfl]) hR
      rw [sumEntries, h0, InvA.vzero_add]
      apply sum_sparse rA kR hA.2.2 hsR
      · intro j x y hx hy
        have := hne j (Np.mem_keys_of_lookupK hx)
        exact hsome j x y (by rw [P3.lookupK_cons, if_neg this]; exact hx) hy
      · intro j x hx hy
        have := hne j (Np.mem_keys_of_lookupK hx)
        exact hzero j x (by rw [P3.lookupK_cons, if_neg this]; exact hx) hy
      · intro j hj
        by_cases hkj : k = j
        · subst hkj; exact hR
        · exact hnone j (by rw [P3.lookupK_cons, if_neg hkj]; exact hj)
    | some y =>
      -- `k` is the least key of `kR` as well
      cases kR with
      | nil => cases hR
      | cons p rR =>
        obtain ⟨k', b⟩ := p
        have hRc := P3.SL_cons.1 hsR
        have hk' : k' = k := by
          by_cases hkk : k' = k
          · exact hkk
          · exfalso
            rw [P3.lookupK_cons, if_neg hkk] at hR
            have m1 := hRc.2.1 _ (Np.mem_keys_of_lookupK hR)
            -- `k'` is a key of `kA`
            cases hA' : lookupK k' ((k, a) :: rA) with
            | none =>
              have := hnone k' hA'
              rw [P3.lookupK_cons, if_pos rfl] at this
              cases this
            | some x =>
              rw [P3.lookupK_cons, if_neg (fun e => hkk e.symm)] at hA'
              have m2 := hA.2.1 _ (Np.mem_keys_of_lookupK hA')
              rw [P3.Key.lt_asymm m1] at m2
              cases m2
        subst hk'
        rw [P3.lookupK_cons, if_pos rfl] at hR
        cases hR
        have he : a.entries = y.entries :=
          hsome k' a y (by rw [P3.lookupK_cons, if_pos rfl]) (by rw [P3.lookupK_cons, if_pos rfl])
        have hkR : lookupK k' rR = none := P3.lookupK_none_of_lt hRc.2.1
        rw [sumEntries, sumEntries, he]
        congr 1
        apply sum_sparse rA rR hA.2.2 hRc.2.2
        · intro j x y hx hy
          have := hne j (Np.mem_keys_of_lookupK hx)
          exact hsome j x y (by rw [P3.lookupK_cons, if_neg this]; exact hx)
            (by rw [P3.lookupK_cons, if_neg this]; exact hy)
        · intro j x hx hy
          have := hne j (Np.mem_keys_of_lookupK hx)
          exact hzero j x (by rw [P3.lookupK_cons, if_neg this]; exact hx)
            (by rw [P3.lookupK_cons, if_neg this]; exact hy)
        · intro j hj
          by_cases hkj : k' = j
          · subst hkj; exact hkR
          · have := hnone j (by rw [P3.lookupK_cons, if_neg hkj]; exact hj)
            rwa [P3.lookupK_cons, if_neg hkj] at this

/-! ### the transport -/

/-- what `Zrel a r` transports from `r` to `a` -/
def InvP (a r : Agg) : Prop := good r = true → inv r = true → inv a = true

theorem Zrel_invP {a r : Agg} (h : Zrel a r) : InvP a r := by
  induction h with
  | refl a => exact fun _ hi => hi
  | fixed k e st tm kidsA kidsR hk hkeys hnd hZ ih =>
    intro hg hi
    have G := P3.good_node hg
    obtain ⟨hle, hko, hik⟩ := (InvB.inv_node_iff k e st tm kidsR).1 hi
    have hikR := (InvA.invKids_iff kidsR).1 hik
    have hf2 : List.Forall₂ ER kidsA kidsR :=
      forall2_of_lookup kidsA kidsR hkeys hnd (fun key x y hx hy => (hZ key x y hx hy).entries_eq)
    rw [InvB.inv_node_iff]
    refine ⟨hle, by rw [kindOk_f2 k st e hf2]; exact hko, (InvA.invKids_iff kidsA).2 ?_⟩
    intro p hp
    have hpl := Np.lookupK_of_mem_nodup hnd hp
    have hm : p.1 ∈ keysOf kidsR := hkeys ▸ P3.mem_keysOf hp
    obtain ⟨y, hy⟩ := Np.lookupK_some_of_mem_keys hm
    have my := P3.lookupK_mem hy
    exact ih p.1 p.2 y hpl hy (G.gkids _ my) (hikR _ my)
  | sparse k e st tm kidsA kidsR hk hsA hsR hZ1 _ hextra hnone ih1 ih2 =>
    intro hg hi
    have G := P3.good_node hg
    obtain ⟨hle, hko, hik⟩ := (InvB.inv_node_iff k e st tm kidsR).1 hi
    have hikR := (InvA.invKids_iff kidsR).1 hik
    have hp := InvB.isPartition_of_sparse hk
    rw [InvB.kindOk_partition hp, decide_eq_true_eq] at hko
    rw [InvB.inv_node_iff]
    refine ⟨hle, ?_, (InvA.invKids_iff kidsA).2 ?_⟩
    · rw [InvB.kindOk_partition hp, decide_eq_true_eq, ← hko]
      apply sum_sparse kidsA kidsR hsA hsR
      · exact fun key x y hx hy => (hZ1 key x y hx hy).entries_eq
      · intro key x hx hy
        exact InvB.isZero_eq (hextra key x hx hy).2.1
      · exact hnone
    · intro p hp
      have hpl := P3.lookupK_of_mem hsA hp
      cases hR : lookupK p.1 kidsR with
      | some y =>
        have my := P3.lookupK_mem hR
        exact ih1 p.1 p.2 y hpl hR (G.gkids _ my) (hikR _ my)
      | none =>
        obtain ⟨_, _, hs⟩ := hextra p.1 p.2 hpl hR
        obtain ⟨t, rfl⟩ := Option.isSome_iff_exists.1 hs
        obtain ⟨gt, zt⟩ := G.gtmpl t rfl
        exact ih2 p.1 p.2 t hpl hR rfl gt (InvB.inv_of_zero t gt zt)

end InvNp

/-- the invariants are transported from the row-wise state to any state that differs by zero-weight bins -/
theorem Zrel_inv {a r : Agg} (h : Zrel a r) (hg : good r = true) (hi : inv r = true) : inv a = true :=
  InvNp.Zrel_invP h hg hi

/-- **C05 for `fill.numpy`**: under the hypotheses of `fillNp_eq_rows`, a vectorised fill of a state that satisfies
the invariants returns a state that satisfies them -/
theorem inv_fillNp (t : Agg) (rows : List Datum) (ws : List Val)
    (hlen : rows.length = ws.length) (hw : nonNegW ws = true)
    (hrun : goodRun t (rows.zip ws) = true) (ht : hasTmpl t = true) (hs : noNanForSums t rows = true)
    (hq : qtysOk t rows = true) (hi : inv t = true) :
    ∃ a, fillNp t rows ws = some a ∧ inv a = true := by
  obtain ⟨a', h1, h2⟩ := Np.main_all t rows ws hlen hw hrun ht hs hq
  have hg : good t = true := InvB.goodRun_good t _ hrun
  exact ⟨a', h1, Zrel_inv h2 (good_fillAll t _ hrun) (InvB.inv_fillAll_aux _ t hg hi hrun)⟩

end Hg
