/-
  Hg.Proofs.KeyFacts — the keys of the children of a `good` node are pairwise distinct; association
  list facts (`lookupK`, `hasKey`) used by the fill / scale proofs.
-/
import Hg.Model.Spec
import Mathlib.Data.List.Nodup
import Mathlib.Data.List.Perm.Basic
import Mathlib.Algebra.Order.Field.Rat

namespace Hg
namespace KF

/-! ### orders -/

theorem keyLt_irrefl (a : Key) : Key.lt a a = false := by
  cases a <;> simp [Key.lt]

theorem keyLt_trans {a b c : Key} (h1 : Key.lt a b = true) (h2 : Key.lt b c = true) :
    Key.lt a c = true := by
  cases a <;> cases b <;> simp [Key.lt] at h1 ⊢ <;> cases c <;> simp [Key.lt] at h2 ⊢ <;>
    first | omega | exact String.lt_trans h1 h2

theorem valLt_irrefl (a : Val) : Val.lt a a = false := by
  cases a <;> simp [Val.lt]

theorem valLt_trans {a b c : Val} (h1 : Val.lt a b = true) (h2 : Val.lt b c = true) :
    Val.lt a c = true := by
  cases a <;> cases b <;> simp [Val.lt] at h1 ⊢ <;> cases c <;> simp [Val.lt] at h2 ⊢
  exact lt_trans h1 h2

/-- Boolean chain check. -/
def chainB {α : Type} (r : α → α → Bool) : List α → Bool
  | [] => true
  | [_] => true
  | a :: b :: rest => r a b && chainB r (b :: rest)

theorem chainB_pairwise {α : Type} (r : α → α → Bool)
    (htrans : ∀ a b c, r a b = true → r b c = true → r a c = true) :
    ∀ l : List α, chainB r l = true → l.Pairwise (fun a b => r a b = true)
  | [], _ => List.Pairwise.nil
  | [_], _ => by simp
  | a :: b :: rest, h => by
    simp only [chainB, Bool.and_eq_true] at h
    have ih := chainB_pairwise r htrans (b :: rest) h.2
    rw [List.pairwise_cons]
    refine ⟨?_, ih⟩
    intro c hc
    rcases List.mem_cons.mp hc with rfl | hc
    · exact h.1
    · exact htrans _ _ _ h.1 ((List.pairwise_cons.mp ih).1 c hc)

theorem pairwise_nodup {α : Type} (r : α → α → Bool) (hirr : ∀ a, r a a = false) (l : List α)
    (h : l.Pairwise (fun a b => r a b = true)) : l.Nodup := by
  refine List.Pairwise.imp ?_ h
  intro a b hab heq
  subst heq
  rw [hirr] at hab
  exact Bool.false_ne_true hab

theorem sortedKeys_eq : ∀ l, sortedKeys l = chainB Key.lt l
  | [] => rfl
  | [_] => rfl
  | a :: b :: rest => by simp only [sortedKeys, chainB, sortedKeys_eq (b :: rest)]

theorem valsIncreasing_eq : ∀ l, valsIncreasing l = chainB Val.lt l
  | [] => rfl
  | [_] => rfl
  | a :: b :: rest => by simp only [valsIncreasing, chainB, valsIncreasing_eq (b :: rest)]

theorem ratsIncreasing_eq : ∀ l, ratsIncreasing l = chainB (fun a b : Rat => decide (a < b)) l
  | [] => rfl
  | [_] => rfl
  | a :: b :: rest => by simp only [ratsIncreasing, chainB, ratsIncreasing_eq (b :: rest)]

theorem sortedKeys_pairwise (l : List Key) (h : sortedKeys l = true) :
    l.Pairwise (fun a b => Key.lt a b = true) := by
  rw [sortedKeys_eq] at h
  exact chainB_pairwise Key.lt (fun _ _ _ => keyLt_trans) l h

theorem sortedKeys_nodup (l : List Key) (h : sortedKeys l = true) : l.Nodup :=
  pairwise_nodup _ keyLt_irrefl l (sortedKeys_pairwise l h)

theorem valsIncreasing_pairwise (l : List Val) (h : valsIncreasing l = true) :
    l.Pairwise (fun a b => Val.lt a b = true) := by
  rw [valsIncreasing_eq] at h
  exact chainB_pairwise Val.lt (fun _ _ _ => valLt_trans) l h

theorem valsIncreasing_nodup (l : List Val) (h : valsIncreasing l = true) : l.Nodup :=
  pairwise_nodup _ valLt_irrefl l (valsIncreasing_pairwise l h)

theorem ratsIncreasing_nodup (l : List Rat) (h : ratsIncreasing l = true) : l.Nodup := by
  rw [ratsIncreasing_eq] at h
  refine pairwise_nodup _ (fun a => by simp) l (chainB_pairwise _ ?_ l h)
  intro a b c h1 h2
  simp only [decide_eq_true_eq] at h1 h2 ⊢
  exact lt_trans h1 h2

/-! ### keys of the prescribed layouts are distinct -/

theorem allThr_eq : ∀ l : List Key, l.all Key.isThr = true → l = (thresholdsOf l).map Key.thr
  | [], _ => rfl
  | k :: ks, h => by
    simp only [List.all_cons, Bool.and_eq_true] at h
    obtain ⟨h1, h2⟩ := h
    cases k <;> simp [Key.isThr] at h1
    simp only [thresholdsOf, List.map_cons]
    rw [← allThr_eq ks h2]

theorem allCtr_eq : ∀ l : List Key, l.all Key.isCtr = true → l = (centersOf l).map Key.ctr
  | [], _ => rfl
  | k :: ks, h => by
    simp only [List.all_cons, Bool.and_eq_true] at h
    obtain ⟨h1, h2⟩ := h
    cases k <;> simp [Key.isCtr] at h1
    simp only [centersOf, List.map_cons]
    rw [← allCtr_eq ks h2]

theorem layoutOk_nodup (k : Kind) (keys : List Key) (h : k.layoutOk keys = true) : keys.Nodup := by
  cases k with
  | bin q n low high =>
    simp only [Kind.layoutOk, Bool.and_eq_true, decide_eq_true_eq] at h
    rw [h.2]
    have hinj : Function.Injective Key.pos := fun a b hab => by injection hab
    have hr := List.Nodup.map hinj (List.nodup_range (n := n))
    simp [hr]
  | sparse q width origin ctype cname =>
    simp only [Kind.layoutOk, Bool.and_eq_true, decide_eq_true_eq] at h
    obtain ⟨_, h⟩ := h
    split at h
    · rename_i rest
      simp only [Bool.and_eq_true] at h
      refine List.nodup_cons.mpr ⟨?_, sortedKeys_nodup _ h.2⟩
      intro hm
      have := List.all_eq_true.mp h.1 _ hm
      simp [Key.isIdx] at this
    · exact absurd h (by simp)
  | central q =>
    simp only [Kind.layoutOk] at h
    split at h
    · rename_i rest
      simp only [Bool.and_eq_true] at h
      refine List.nodup_cons.mpr ⟨?_, ?_⟩
      · intro hm
        have := List.all_eq_true.mp h.1.1 _ hm
        simp [Key.isCtr] at this
      · rw [allCtr_eq rest h.1.1]
        exact List.Nodup.map (fun a b hab => by injection hab) (ratsIncreasing_nodup _ h.2)
    · exact absurd h (by simp)
  | irregular q =>
    simp only [Kind.layoutOk] at h
    split at h
    · rename_i rest
      simp only [Bool.and_eq_true] at h
      refine List.nodup_cons.mpr ⟨?_, ?_⟩
      · intro hm
        rcases List.mem_cons.mp hm with h' | hm
        · cases h'
        · have := List.all_eq_true.mp h.1.1 _ hm
          simp [Key.isThr] at this
      · have := valsIncreasing_nodup _ h.1.2
        have h2 := List.Nodup.map (f := Key.thr) (fun a b hab => by injection hab) this
        rw [List.map_cons, ← allThr_eq rest h.1.1] at h2
        exact h2
    · exact absurd h (by simp)
  | stack q =>
    simp only [Kind.layoutOk] at h
    split at h
    · rename_i rest
      simp only [Bool.and_eq_true] at h
      refine List.nodup_cons.mpr ⟨?_, ?_⟩
      · intro hm
        rcases List.mem_cons.mp hm with h' | hm
        · cases h'
        · have := List.all_eq_true.mp h.1.1 _ hm
          simp [Key.isThr] at this
      · have := valsIncreasing_nodup _ h.1.2
        have h2 := List.Nodup.map (f := Key.thr) (fun a b hab => by injection hab) this
        rw [List.map_cons, ← allThr_eq rest h.1.1] at h2
        exact h2
    · exact absurd h (by simp)
  | fraction q =>
    simp only [Kind.layoutOk, decide_eq_true_eq] at h
    subst h; decide
  | select q =>
    simp only [Kind.layoutOk, decide_eq_true_eq] at h
    subst h; decide
  | categorize q ctype cname =>
    simp only [Kind.layoutOk, Bool.and_eq_true] at h
    exact sortedKeys_nodup _ h.2
  | label =>
    simp only [Kind.layoutOk, Bool.and_eq_true] at h
    exact sortedKeys_nodup _ h.1.2
  | untypedLabel =>
    simp only [Kind.layoutOk, Bool.and_eq_true] at h
    exact sortedKeys_nodup _ h.2
  | index =>
    simp only [Kind.layoutOk, Bool.and_eq_true, decide_eq_true_eq] at h
    rw [h.1]
    exact List.Nodup.map (fun a b hab => by injection hab) List.nodup_range
  | branch =>
    simp only [Kind.layoutOk, Bool.and_eq_true, decide_eq_true_eq] at h
    rw [h.1]
    exact List.Nodup.map (fun a b hab => by injection hab) List.nodup_range
  | count | sum _ | average _ | deviate _ | minimize _ | maximize _ | bag _ _ =>
    simp only [Kind.layoutOk, List.isEmpty_iff] at h
    subst h; exact List.nodup_nil

/-! ### distinct keys everywhere in a tree (executable) -/

mutual
/-- the keys of the children of every node of the tree (templates included) are pairwise distinct -/
def distinctKeys : Agg → Bool
  | .node _ _ _ tmpl kids => decide ((keysOf kids).Nodup) && distinctKeysOpt tmpl && distinctKeysKids kids
def distinctKeysOpt : Option Agg → Bool
  | none => true
  | some t => distinctKeys t
def distinctKeysKids : List (Key × Agg) → Bool
  | [] => true
  | (_, a) :: rest => distinctKeys a && distinctKeysKids rest
end

mutual
theorem good_distinctKeys : ∀ (t : Agg), good t = true → distinctKeys t = true
  | .node k e st tmpl kids, h => by
    simp only [good, Bool.and_eq_true] at h
    obtain ⟨⟨⟨⟨⟨_, hl⟩, hk⟩, ht⟩, _⟩, _⟩ := h
    simp only [distinctKeys, Bool.and_eq_true, decide_eq_true_eq]
    exact ⟨⟨layoutOk_nodup k _ hl, goodTmpl_distinctKeys tmpl ht⟩, goodKids_distinctKeys kids hk⟩
theorem goodTmpl_distinctKeys : ∀ (t : Option Agg), goodTmpl t = true → distinctKeysOpt t = true
  | none, _ => rfl
  | some t, h => by
    simp only [goodTmpl, Bool.and_eq_true] at h
    simp only [distinctKeysOpt]
    exact good_distinctKeys t h.1
theorem goodKids_distinctKeys : ∀ (l : List (Key × Agg)), goodKids l = true → distinctKeysKids l = true
  | [], _ => rfl
  | (_, a) :: rest, h => by
    simp only [goodKids, Bool.and_eq_true] at h
    simp only [distinctKeysKids, Bool.and_eq_true]
    exact ⟨good_distinctKeys a h.1, goodKids_distinctKeys rest h.2⟩
end

theorem good_nodup (k : Kind) (e : Val) (st : St) (tmpl : Option Agg) (kids : List (Key × Agg))
    (h : good (.node k e st tmpl kids) = true) : (keysOf kids).Nodup := by
  have := good_distinctKeys _ h
  simp only [distinctKeys, Bool.and_eq_true, decide_eq_true_eq] at this
  exact this.1.1

/-! ### association lists -/

theorem keysOf_cons {α : Type} (k : Key) (a : α) (l : List (Key × α)) :
    keysOf ((k, a) :: l) = k :: keysOf l := rfl

theorem hasKey_iff_mem {α : Type} (key : Key) : ∀ (l : List (Key × α)), hasKey key l = true ↔ key ∈ keysOf l
  | [] => by simp [hasKey, lookupK, keysOf]
  | (k, a) :: rest => by
    have ih := hasKey_iff_mem key rest
    simp only [hasKey, lookupK, keysOf_cons, List.mem_cons] at ih ⊢
    by_cases hk : k = key
    · simp [hk]
    · simp only [hk, if_false, ih]
      constructor
      · intro h; exact Or.inr h
      · rintro (h | h)
        · exact absurd h.symm hk
        · exact h

theorem hasKey_false_iff {α : Type} (key : Key) (l : List (Key × α)) :
    hasKey key l = false ↔ key ∉ keysOf l := by
  rw [← hasKey_iff_mem]; simp

theorem keysOf_insertK_perm (key : Key) (a : Agg) : ∀ (l : List (Key × Agg)),
    (keysOf (insertK key a l)).Perm (key :: keysOf l)
  | [] => by simp [insertK, keysOf]
  | (k, b) :: rest => by
    simp only [insertK]
    split
    · exact List.Perm.refl _
    · simp only [keysOf_cons]
      exact ((keysOf_insertK_perm key a rest).cons k).trans (List.Perm.swap key k _)

end KF
end Hg
