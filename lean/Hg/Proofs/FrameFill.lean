/-
  Hg.Proofs.FrameFill — one record filled into a tree made of the kinds `mkTree` uses (Count leaves
  under Bin / SparselyBin / CentrallyBin / IrregularlyBin / Categorize), with a finite positive
  weight and quantities that evaluate: the fill returns normally and the state stays `good`.
-/
import Hg.Proofs.FrameTree
import Hg.Proofs.NpTree4

namespace Hg.Frame

/-! ### layout of a sparse container from sortedness -/

theorem layoutOk_of_SLk {k : Kind} (hs : k.isSparse = true) {keys keys0 : List Key}
    (h0 : k.layoutOk keys0 = true) (h : P3.SLk k.cls keys)
    (hn : k.cls = true → Key.nanflow ∈ keys) : k.layoutOk keys = true := by
  rcases Kind.sparse_cases hs with ⟨q, w, o, c, n, rfl⟩ | ⟨q, c, n, rfl⟩
  · simp only [Kind.layoutOk, Bool.and_eq_true, decide_eq_true_eq] at h0 ⊢
    refine ⟨h0.1, ?_⟩
    obtain ⟨hc, hp⟩ := h
    have hmem := hn rfl
    cases keys with
    | nil => cases hmem
    | cons k0 rest =>
      rw [List.pairwise_cons] at hp
      have hk0 : k0 = .nanflow := by
        rcases List.mem_cons.1 hmem with h | h
        · exact h.symm
        · have := hp.1 _ h
          cases k0 <;> simp [Key.lt] at this
      subst hk0
      simp only [Bool.and_eq_true, List.all_eq_true]
      refine ⟨?_, (sortedKeys_iff_pairwise _).2 hp.2⟩
      intro k' hk'
      have h1 := hc k' (List.mem_cons_of_mem _ hk')
      have h2 := hp.1 k' hk'
      cases k' <;> simp [Key.inCls, Kind.cls] at h1 <;> simp [Key.lt] at h2 <;> rfl
  · simp only [Kind.layoutOk, Bool.and_eq_true, List.all_eq_true]
    obtain ⟨hc, hp⟩ := h
    refine ⟨?_, (sortedKeys_iff_pairwise _).2 hp⟩
    intro k' hk'
    have h1 := hc k' hk'
    cases k' <;> simp [Key.inCls, Kind.cls] at h1 <;> rfl

/-! ### routing of the kinds `mkTree` uses: every target carries the weight of the row -/

theorem route_cnt_weights {k : Kind} (hc : cntK k = true) {keys : List Key} {d : Datum} {w : Val}
    {tg : List (Key × Val)} (h : route k keys d w = .ok tg) : ∀ p ∈ tg, p.2 = w := by
  intro p hp
  rcases Np.route_weights h p hp with h1 | ⟨_, x, hx⟩
  · exact h1
  · -- only Fraction / Select scale the weight
    cases k <;> simp only [cntK, Bool.false_eq_true] at hc
    case count => cases h
    case bin q n lo hi =>
      simp only [route, bind, Except.bind, pure, Except.pure] at h
      cases hx : q.evalNum d with
      | error f => rw [hx] at h; cases h
      | ok x => rw [hx] at h; cases h; rw [List.mem_singleton] at hp; rw [hp]
    case sparse q wd og ct cn =>
      simp only [route, bind, Except.bind, pure, Except.pure] at h
      cases hx : q.evalNum d with
      | error f => rw [hx] at h; cases h
      | ok x => rw [hx] at h; cases h; rw [List.mem_singleton] at hp; rw [hp]
    case central q =>
      simp only [route, bind, Except.bind, pure, Except.pure] at h
      cases hx : q.evalNum d with
      | error f => rw [hx] at h; cases h
      | ok x =>
        rw [hx] at h
        simp only at h
        split at h
        · cases h; rw [List.mem_singleton] at hp; rw [hp]
        · split at h
          · cases h; rw [List.mem_singleton] at hp; rw [hp]
          · cases h
    case irregular q =>
      simp only [route, bind, Except.bind, pure, Except.pure] at h
      cases hx : q.evalNum d with
      | error f => rw [hx] at h; cases h
      | ok x =>
        rw [hx] at h
        simp only at h
        split at h
        · cases h; rw [List.mem_singleton] at hp; rw [hp]
        · split at h
          · cases h; rw [List.mem_singleton] at hp; rw [hp]
          · cases h; cases hp
    case categorize q ct cn =>
      obtain ⟨key, rfl, _⟩ := P3.route_sparse (k := .categorize q ct cn) rfl h
      rw [List.mem_singleton] at hp; rw [hp]

/-! ### the step -/

/-- what a tree has to satisfy for the step -/
structure Pre (d : Datum) (t : Agg) : Prop where
  good : good t = true
  tmpl : hasTmpl t = true
  cnt : Np.allK cntK t = true
  qok : qtysOk t [d] = true

def StepOk (t : Agg) : Prop :=
  ∀ (d : Datum) (q : Rat), 0 < q → Pre d t →
    (fill t d (.fin q)).2 = .ok ∧ good (fill t d (.fin q)).1 = true

theorem pos_fin {q : Rat} (hq : 0 < q) : (Val.fin q).pos = true := by
  simpa [Val.pos, Val.lt] using hq

/-- children: every fill succeeds; every new child is an old one, untouched or filled successfully
into a good state -/
theorem fillKids_step (d : Datum) (q : Rat) (hq : 0 < q) (tg : List (Key × Val))
    (htg : ∀ p ∈ tg, p.2 = .fin q) :
    ∀ (kids : List (Key × Agg)), (∀ p ∈ kids, StepOk p.2) → (∀ p ∈ kids, Pre d p.2) →
      (fillKids kids tg d).2 = .ok ∧
      ∀ p ∈ (fillKids kids tg d).1, ∃ p0 ∈ kids, p.1 = p0.1 ∧
        (p.2 = p0.2 ∨ (p.2 = (fill p0.2 d (.fin q)).1 ∧ (fill p0.2 d (.fin q)).2 = .ok ∧
          Hg.good p.2 = true))
  | [], _, _ => by
    rw [P3.fillKids_nil]
    exact ⟨rfl, fun p hp => by cases hp⟩
  | (key, a) :: rest, ih, hpre => by
    rw [List.forall_mem_cons] at ih hpre
    obtain ⟨hr1, hr2⟩ := fillKids_step d q hq tg htg rest ih.2 hpre.2
    cases hl : lookupK key tg with
    | none =>
      rw [P3.fillKids_cons_none hl]
      refine ⟨hr1, ?_⟩
      intro p hp
      rcases List.mem_cons.1 hp with rfl | hp
      · exact ⟨(key, a), List.mem_cons_self .., rfl, Or.inl rfl⟩
      · obtain ⟨p0, hp0, h⟩ := hr2 p hp
        exact ⟨p0, List.mem_cons_of_mem _ hp0, h⟩
    | some w' =>
      have hw' : w' = .fin q := htg (key, w') (P3.lookupK_mem hl)
      subst hw'
      obtain ⟨hok, hg⟩ := ih.1 d q hq hpre.1
      rw [P3.fillKids_cons_some hl, if_pos ((P3.Outcome.isOk_iff _).2 hok)]
      refine ⟨hr1, ?_⟩
      intro p hp
      rcases List.mem_cons.1 hp with rfl | hp
      · exact ⟨(key, a), List.mem_cons_self .., rfl, Or.inr ⟨rfl, hok, hg⟩⟩
      · obtain ⟨p0, hp0, h⟩ := hr2 p hp
        exact ⟨p0, List.mem_cons_of_mem _ hp0, h⟩

theorem scalarOk_add {k : Kind} {e : Val} {st : St} (hk : k.isLeaf = false) (h : scalarOk k e st = true)
    {q : Rat} (hq : 0 < q) : scalarOk k (e + .fin q) st = true := by
  obtain ⟨rfl, e0, rfl, he0⟩ := scalarOk_nonleaf hk h
  rw [Val.fin_add_fin]
  exact scalarOk_nonleaf_mk hk (by linarith)

theorem step_node (k : Kind) (e : Val) (st : St) (tmpl : Option Agg) (kids : List (Key × Agg))
    (iht : ∀ t, tmpl = some t → StepOk t) (ihk : ∀ p ∈ kids, StepOk p.2) :
    StepOk (.node k e st tmpl kids) := by
  intro d q hq hpre
  have hp := pos_fin hq
  have hg := hpre.good
  have G := (good_node k e st tmpl kids).1 hg
  obtain ⟨hsc, hlay, hgk, hgt, hsb, hct⟩ := G
  have T := P3.hasTmpl_node hpre.tmpl
  have C := Np.allK_node.1 hpre.cnt
  have Q := Np.qtysOk_node hpre.qok
  have hpk : ∀ p ∈ kids, Pre d p.2 := fun p hp =>
    ⟨hgk p hp, T.hkids p hp, C.2.2 p hp, Q.kids p hp⟩
  by_cases hk : k.isLeaf = true
  · -- a Count
    have hkc : k = .count := by
      have := C.1
      cases k <;> simp [cntK] at this <;> simp [Kind.isLeaf] at hk <;> rfl
    subst hkc
    have hkids : kids = [] := layout_leaf rfl hlay
    subst hkids
    rw [P3.fill_leaf d hp rfl]
    simp only [leafFill]
    refine ⟨trivial, ?_⟩
    rw [good_node]
    refine ⟨?_, hlay, hgk, hgt, hsb, hct⟩
    simp only [scalarOk, Kind.isLeaf, if_true, leafGood, Bool.and_eq_true] at hsc ⊢
    obtain ⟨h1, h2⟩ := hsc
    refine ⟨?_, by cases st <;> rfl⟩
    unfold leafGoodCore at h1 ⊢
    rw [Bool.and_eq_true] at h1 ⊢
    refine ⟨h1.1, ?_⟩
    have h3 := h1.2
    cases e with
    | fin e0 =>
      simp only [Bool.and_eq_true, decide_eq_true_eq] at h3
      rw [Val.fin_add_fin]
      simp only [Bool.and_eq_true, decide_eq_true_eq]
      refine ⟨by linarith [h3.1], ?_⟩
      rw [if_neg (by linarith [h3.1])]
      have hf := h1.1
      cases st <;> simp [St.fits] at hf
      rfl
    | _ => simp at h3
  · have hk' : k.isLeaf = false := by simpa using hk
    have hev : k.evalOk d = true := Q.here d (List.mem_singleton.2 rfl)
    obtain ⟨tg, hr⟩ := Np.route_ok_of_evalOk hk' hlay hev (.fin q)
    have htg := route_cnt_weights C.1 hr
    by_cases hs : k.isSparse = true
    · obtain ⟨key, rfl, hcls⟩ := P3.route_sparse hs hr
      have hSL : P3.SL k.cls kids := P3.SLk_of_layoutOk hs hlay
      obtain ⟨t, rfl⟩ := T.hsome hs
      obtain ⟨hgt1, hzt⟩ := (goodTmpl_iff _).1 hgt t rfl
      have hbins := (P3.sameBaseBins_iff t).1 (by simpa [sameBaseTmpl] using hsb hs)
      by_cases hh : hasKey key kids = true
      · -- an existing bin
        rw [P3.fill_sparse_has hp hk' hs hr hh]
        obtain ⟨hok, hmem⟩ := fillKids_step d q hq _ htg kids ihk hpk
        rw [hok]
        refine ⟨rfl, ?_⟩
        simp only [Outcome.isOk, if_true]
        rw [good_node]
        refine ⟨scalarOk_add hk' hsc hq, by rw [P3.keysOf_fillKids]; exact hlay, ?_, hgt, ?_, hct⟩
        · intro p hp
          obtain ⟨p0, hp0, _, h | ⟨_, _, h⟩⟩ := hmem p hp
          · rw [h]; exact hgk p0 hp0
          · exact h
        · intro _
          rw [sameBaseTmpl, P3.sameBaseBins_iff]
          intro p hp hne
          obtain ⟨p0, hp0, hk0, h | ⟨h, hok0, hg0⟩⟩ := hmem p hp
          · rw [h]; exact hbins p0 hp0 (hk0 ▸ hne)
          · rw [h]
            have h1 := hbins p0 hp0 (hk0 ▸ hne)
            have h2 := sameBase_fill p0.2 d (.fin q) (hgk p0 hp0) hok0
            exact sameBase_trans _ _ _ hgt1 (hgk p0 hp0) (h ▸ hg0) h1 h2
      · -- a new bin
        have hh' : hasKey key kids = false := by simpa using hh
        rw [P3.fill_sparse_new hp hk' hs hr hh', P3.fillTmpl_some]
        obtain ⟨hok, hgnb⟩ := iht t rfl d q hq
          ⟨hgt1, (T.htmpl t rfl).1, C.2.1 t rfl, Q.tmpl t rfl⟩
        have hnone : lookupK key kids = none := Np.hasKey_false_lookup hh'
        rcases hfl : fill t d (.fin q) with ⟨nb, o⟩
        rw [hfl] at hok hgnb
        simp only at hok hgnb
        subst hok
        simp only
        refine ⟨trivial, ?_⟩
        rw [good_node]
        refine ⟨scalarOk_add hk' hsc hq, ?_, ?_, hgt, ?_, hct⟩
        · apply layoutOk_of_SLk hs hlay (P3.SL_insertK key nb hcls kids hSL hnone)
          intro hc
          have hnf : Key.nanflow ∈ keysOf kids := P3.nanflow_mem_of_cls hc hlay
          obtain ⟨a, ha⟩ := Np.lookupK_some_of_mem_keys hnf
          have : lookupK .nanflow (insertK key nb kids) = some a := by
            rw [P3.lookupK_insertK key nb kids hnone, if_neg, ha]
            rintro rfl
            rw [hnone] at ha; cases ha
          exact Np.mem_keys_of_lookupK this
        · intro p hp
          rcases mem_insertK.1 hp with rfl | hp
          · exact hgnb
          · exact hgk p hp
        · intro _
          rw [sameBaseTmpl, P3.sameBaseBins_iff]
          intro p hp hne
          rcases mem_insertK.1 hp with rfl | hp
          · have := sameBase_fill t d (.fin q) hgt1 (by rw [hfl])
            rw [hfl] at this
            exact this
          · exact hbins p hp hne
    · have hs' : k.isSparse = false := by simpa using hs
      rw [P3.fill_fixed hp hk' hs' hr]
      obtain ⟨hok, hmem⟩ := fillKids_step d q hq _ htg kids ihk hpk
      rw [hok]
      refine ⟨rfl, ?_⟩
      simp only [Outcome.isOk, if_true]
      rw [good_node]
      refine ⟨scalarOk_add hk' hsc hq, by rw [P3.keysOf_fillKids]; exact hlay, ?_, hgt,
        fun h => absurd h hs, hct⟩
      intro p hp
      obtain ⟨p0, hp0, _, h | ⟨_, _, h⟩⟩ := hmem p hp
      · rw [h]; exact hgk p0 hp0
      · exact h

theorem step_all : ∀ t, StepOk t :=
  P3.Agg.ind_a (P := StepOk) (fun k e st tmpl kids iht ihk => step_node k e st tmpl kids iht ihk)

/-- one row with unit weight is a good run of a well-formed empty `mkTree`-style tree -/
theorem goodRun_single (z : Agg) (hz : WF z) (d : Datum) (hq : qtysOk z [d] = true) :
    goodRun z [(d, (1 : Val))] = true := by
  obtain ⟨hok, hg⟩ := step_all z d 1 (by norm_num) ⟨hz.good, hz.tmpl, hz.cnt, hq⟩
  have h1 : (1 : Val) = .fin 1 := rfl
  rw [goodRun, goodRun]
  simp only [Bool.and_eq_true]
  rw [h1, hok]
  exact ⟨⟨⟨hz.good, rfl⟩, rfl⟩, hg⟩

end Hg.Frame
