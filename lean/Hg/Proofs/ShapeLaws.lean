/-
  Hg.Proofs.ShapeLaws — one aggregator at two positions of a tree is detected (C16), and
  non-interference of disjoint object graphs (C06).
-/
import Hg.Model.Shape

namespace Hg

open Shape

/-! ### helpers -/

/-- specification of the result of a walk over a subtree/forest with identity list `idl` -/
def WalkSpec (idl memo : List Nat) : Option (List Nat) → Prop
  | some memo' => idl.Nodup ∧ (∀ i ∈ idl, i ∉ memo) ∧ ∀ i, i ∈ memo' ↔ i ∈ idl ∨ i ∈ memo
  | none => ¬ (idl.Nodup ∧ ∀ i ∈ idl, i ∉ memo)

mutual
theorem walk_ids_aux : ∀ (t : Shape) (memo : List Nat), ids (walk t memo).1 = ids t
  | node i c kids, memo => by
    have ih := walkList_ids_aux kids (i :: memo)
    simp only [walk]
    split
    · rfl
    · split <;> simp [ids, ih]
theorem walkList_ids_aux :
    ∀ (l : List Shape) (memo : List Nat), idsList (walkList l memo).1 = idsList l
  | [], memo => by simp [walkList]
  | s :: rest, memo => by
    have ih1 := walk_ids_aux s memo
    simp only [walkList]
    split
    · rename_i memo' _
      have ih2 := walkList_ids_aux rest memo'
      simp [idsList, ih1, ih2]
    · simp [idsList, ih1]
end

mutual
theorem walk_spec : ∀ (t : Shape) (memo : List Nat), WalkSpec (ids t) memo (walk t memo).2
  | node i c kids, memo => by
    have ih := walkList_spec kids (i :: memo)
    simp only [walk]
    split
    · rename_i hm
      simp only [WalkSpec, ids]
      have : i ∈ memo := by simpa using hm
      intro h
      exact h.2 i (by simp) this
    · rename_i hm
      have hm' : i ∉ memo := by simpa using hm
      split
      · rename_i memo' he
        rw [he] at ih
        simp only [WalkSpec, ids] at ih ⊢
        obtain ⟨h1, h2, h3⟩ := ih
        refine ⟨?_, ?_, ?_⟩
        · refine List.nodup_cons.mpr ⟨?_, h1⟩
          intro hi
          exact h2 i hi (by simp)
        · intro j hj
          rcases List.mem_cons.mp hj with rfl | hj
          · exact hm'
          · intro hjm
            exact h2 j hj (List.mem_cons_of_mem _ hjm)
        · intro j
          rw [h3 j]
          simp only [List.mem_cons]
          grind
      · rename_i he
        rw [he] at ih
        simp only [WalkSpec, ids] at ih ⊢
        intro h
        apply ih
        refine ⟨(List.nodup_cons.mp h.1).2, ?_⟩
        intro j hj hjm
        rcases List.mem_cons.mp hjm with rfl | hjm
        · exact (List.nodup_cons.mp h.1).1 hj
        · exact h.2 j (List.mem_cons_of_mem _ hj) hjm
theorem walkList_spec :
    ∀ (l : List Shape) (memo : List Nat), WalkSpec (idsList l) memo (walkList l memo).2
  | [], memo => by simp [walkList, WalkSpec, idsList]
  | s :: rest, memo => by
    have ih1 := walk_spec s memo
    simp only [walkList]
    split
    · rename_i memo' he
      rw [he] at ih1
      have ih2 := walkList_spec rest memo'
      simp only [WalkSpec] at ih1
      obtain ⟨a1, a2, a3⟩ := ih1
      generalize (walkList rest memo').2 = r at ih2
      cases r with
      | some memo'' =>
        simp only [WalkSpec, idsList] at ih2 ⊢
        obtain ⟨b1, b2, b3⟩ := ih2
        refine ⟨?_, ?_, ?_⟩
        · rw [List.nodup_append]
          refine ⟨a1, b1, ?_⟩
          intro x hx y hy hxy
          subst hxy
          exact b2 x hy ((a3 x).mpr (Or.inl hx))
        · intro j hj
          rcases List.mem_append.mp hj with hj | hj
          · exact a2 j hj
          · intro hjm
            exact b2 j hj ((a3 j).mpr (Or.inr hjm))
        · intro j
          rw [b3 j, a3 j, List.mem_append]
          grind
      | none =>
        simp only [WalkSpec, idsList] at ih2 ⊢
        intro h
        apply ih2
        have hn := List.nodup_append.mp h.1
        refine ⟨hn.2.1, ?_⟩
        intro j hj hjm
        rcases (a3 j).mp hjm with hjs | hjm
        · exact hn.2.2 j hjs j hj rfl
        · exact h.2 j (List.mem_append.mpr (Or.inr hj)) hjm
    · rename_i he
      rw [he] at ih1
      simp only [WalkSpec, idsList] at ih1 ⊢
      intro h
      apply ih1
      have hn := List.nodup_append.mp h.1
      exact ⟨hn.1, fun j hj => h.2 j (List.mem_append.mpr (Or.inl hj))⟩
end

mutual
theorem walk_allChecked :
    ∀ (t : Shape) (memo : List Nat), (walk t memo).2.isSome = true → allChecked (walk t memo).1 = true
  | node i c kids, memo => by
    have ih := walkList_allChecked kids (i :: memo)
    simp only [walk]
    split
    · simp
    · split
      · rename_i memo' he
        intro _
        simp only [allChecked, Bool.true_and]
        exact ih (by simp [he])
      · simp
theorem walkList_allChecked :
    ∀ (l : List Shape) (memo : List Nat),
      (walkList l memo).2.isSome = true → allCheckedList (walkList l memo).1 = true
  | [], memo => by simp [walkList, allCheckedList]
  | s :: rest, memo => by
    have ih1 := walk_allChecked s memo
    simp only [walkList]
    split
    · rename_i memo' he
      have ih2 := walkList_allChecked rest memo'
      intro h
      simp only [allCheckedList, Bool.and_eq_true]
      exact ⟨ih1 (by simp [he]), ih2 h⟩
    · simp
end

/-- a raising walk leaves the root flag as it was -/
theorem walk_none_checked (t : Shape) (memo : List Nat) (h : (walk t memo).2 = none) :
    (walk t memo).1.checked = t.checked := by
  cases t with
  | node i c kids =>
    simp only [walk] at h ⊢
    split
    · rfl
    · rename_i hm
      simp only [hm] at h
      split
      · rename_i memo' he
        simp [he] at h
      · rfl

/-! ### C16 -/

/-- the recursive walk completes iff no identity of the subtree is in the memo or occurs twice in it -/
theorem walk_some_iff (t : Shape) (memo : List Nat) :
    (walk t memo).2.isSome = true ↔ (ids t).Nodup ∧ ∀ i ∈ ids t, i ∉ memo := by
  have h := walk_spec t memo
  generalize (walk t memo).2 = r at h
  cases r with
  | some m => simp only [WalkSpec] at h; simpa using ⟨h.1, h.2.1⟩
  | none => simp only [WalkSpec] at h; simp only [Option.isSome_none]; exact ⟨by simp, fun h' => absurd h' h⟩

theorem walk_memo (t : Shape) (memo memo' : List Nat) (h : (walk t memo).2 = some memo') :
    ∀ i, i ∈ memo' ↔ i ∈ ids t ∨ i ∈ memo := by
  have hs := walk_spec t memo
  rw [h] at hs
  exact hs.2.2

/-- A tree (root not yet marked) in which some object occurs at two positions — siblings, cousins,
a node and its own descendant — is rejected. -/
theorem shared_rejected (t : Shape) (hc : t.checked = false) (hd : ¬ (ids t).Nodup) :
    (checkCross t).2 = true := by
  have hw : ¬ (walk t []).2.isSome = true := fun h => hd ((walk_some_iff t []).mp h).1
  simp only [checkCross, hc]
  cases h : (walk t []).2 with
  | none => simp
  | some m => simp [h] at hw

/-- the walk never changes identities or structure, only flags -/
theorem walk_ids (t : Shape) (memo : List Nat) : ids (walk t memo).1 = ids t :=
  walk_ids_aux t memo

/-- … and it is rejected again on every later fill: a raising check never marks the root. -/
theorem shared_rejected_again (t : Shape) (hc : t.checked = false) (hd : ¬ (ids t).Nodup) :
    (checkCross t).1.checked = false ∧ ¬ (ids (checkCross t).1).Nodup ∧ (checkCross (checkCross t).1).2 = true := by
  have hw : ¬ (walk t []).2.isSome = true := fun h => hd ((walk_some_iff t []).mp h).1
  have hn : (walk t []).2 = none := by
    cases h : (walk t []).2 with
    | none => rfl
    | some m => simp [h] at hw
  have e1 : (checkCross t).1 = (walk t []).1 := by simp [checkCross, hc]
  have h1 : (checkCross t).1.checked = false := by
    rw [e1, walk_none_checked t [] hn, hc]
  have h2 : ¬ (ids (checkCross t).1).Nodup := by
    rw [e1, walk_ids]; exact hd
  exact ⟨h1, h2, shared_rejected _ h1 h2⟩

/-- A tree without shared nodes is never rejected, whatever flags earlier walks left behind, and
afterwards every node is marked. -/
theorem linear_accepted (t : Shape) (hn : (ids t).Nodup) :
    (checkCross t).2 = false ∧ (t.checked = false → allChecked (checkCross t).1 = true) := by
  have hw : (walk t []).2.isSome = true := (walk_some_iff t []).mpr ⟨hn, by simp⟩
  constructor
  · simp only [checkCross]
    split
    · rfl
    · cases h : (walk t []).2 with
      | none => simp [h] at hw
      | some m => simp
  · intro hc
    simp only [checkCross, hc]
    exact walk_allChecked t [] hw

/-! ### C06 -/

theorem flatten_map_congr {α : Type} (l : List Nat) (f g : Nat → List α)
    (h : ∀ c ∈ l, f c = g c) : (l.map f).flatten = (l.map g).flatten := by
  rw [List.map_congr_left h]

/-- Non-interference: if a heap update writes only objects in `ws`, and nothing reachable from root
`s` is in `ws`, then everything observable from `s` is unchanged. -/
theorem noninterference (h h' : Heap) (ws : List Nat) (s : Nat) (n : Nat)
    (hw : Heap.agreesOutside h h' ws) (hd : ∀ i ∈ reachN h n s, i ∉ ws) :
    viewN h' n s = viewN h n s ∧ reachN h' n s = reachN h n s := by
  induction n generalizing s with
  | zero =>
    have hs : h' s = h s := hw s (hd s (by simp [reachN]))
    simp [viewN, reachN, hs]
  | succ n ih =>
    have hmem : s ∈ reachN h (n + 1) s := by
      simp only [reachN]; split <;> simp
    have hs : h' s = h s := hw s (hd s hmem)
    simp only [viewN, reachN, hs]
    cases ho : h s with
    | none => simp
    | some o =>
      have hkids : ∀ c ∈ o.refs, ∀ i ∈ reachN h n c, i ∉ ws := by
        intro c hc i hi
        apply hd
        simp only [reachN, ho]
        refine List.mem_cons_of_mem _ ?_
        exact List.mem_flatten.mpr ⟨_, List.mem_map.mpr ⟨c, hc, rfl⟩, hi⟩
      simp only
      rw [flatten_map_congr o.refs (viewN h' n) (viewN h n) (fun c hc => (ih c (hkids c hc)).1),
        flatten_map_congr o.refs (reachN h' n) (reachN h n) (fun c hc => (ih c (hkids c hc)).2)]
      exact ⟨rfl, rfl⟩

/-- in particular when the update is confined to what is reachable from a root `r` whose object graph
is disjoint from that of `s` -/
theorem disjoint_noninterference (h h' : Heap) (r s : Nat) (n : Nat)
    (hw : Heap.agreesOutside h h' (reachN h n r))
    (hd : ∀ i ∈ reachN h n s, i ∉ reachN h n r) :
    viewN h' n s = viewN h n s :=
  (noninterference h h' (reachN h n r) s n hw hd).1

end Hg
