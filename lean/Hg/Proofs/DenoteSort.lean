/-
  Hg.Proofs.DenoteSort — sorting facts behind `touchedKeys`: `mergeSort` of a list whose elements
  all lie in a family on which the comparison is a total preorder is sorted; `eraseDups` has no
  duplicates; the touched keys of a sparse container form a strictly sorted key list.
-/
import Hg.Model.Denote
import Hg.Proofs.SortedKids

namespace Hg.Den

/-- `pairwise_mergeSort` with transitivity / totality only on a family `P` that holds all elements -/
theorem pairwise_mergeSort_on {α : Type} (P : α → Prop) (le : α → α → Bool)
    (trans : ∀ a b c, P a → P b → P c → le a b = true → le b c = true → le a c = true)
    (total : ∀ a b, P a → P b → (le a b || le b a) = true)
    (l : List α) (hl : ∀ a ∈ l, P a) :
    (l.mergeSort le).Pairwise (fun a b => le a b = true) := by
  let l' : List {a // P a} := l.pmap Subtype.mk hl
  have hmap : l'.map Subtype.val = l := by
    simp only [l', List.map_pmap]
    exact List.pmap_eq_map .. |>.trans (List.map_id _)
  let le' : {a // P a} → {a // P a} → Bool := fun a b => le a.1 b.1
  have hs := List.pairwise_mergeSort (le := le')
    (fun a b c => trans a.1 b.1 c.1 a.2 b.2 c.2) (fun a b => total a.1 b.1 a.2 b.2) l'
  have hm : (l'.mergeSort le').map Subtype.val = (l'.map Subtype.val).mergeSort le :=
    List.map_mergeSort (fun a _ b _ => rfl)
  rw [hmap] at hm
  rw [← hm, List.pairwise_map]
  exact hs

theorem nodup_eraseDups {α : Type} [BEq α] [LawfulBEq α] : ∀ (l : List α), l.eraseDups.Nodup
  | [] => by simp
  | a :: as => by
    rw [List.eraseDups_cons, List.nodup_cons]
    refine ⟨?_, nodup_eraseDups _⟩
    intro h
    rw [List.mem_eraseDups, List.mem_filter] at h
    simp at h
termination_by l => l.length
decreasing_by
  simp only [List.length_cons]
  exact Nat.lt_succ_of_le (List.length_filter_le _ _)

/-- the sorted distinct keys of a family-`c` key list -/
theorem sortKeys_SLk {c : Bool} (l : List Key) (hl : ∀ a ∈ l, Key.inCls c a = true) :
    P3.SLk c (l.eraseDups.mergeSort (fun a b => !Key.lt b a)) := by
  have hl' : ∀ a ∈ l.eraseDups, Key.inCls c a = true := fun a ha => hl a (List.mem_eraseDups.1 ha)
  have hs := pairwise_mergeSort_on (fun a => Key.inCls c a = true) (fun a b => !Key.lt b a)
    (by
      intro a b x ha hb hx h1 h2
      simp only [Bool.not_eq_true'] at h1 h2 ⊢
      cases hxa : Key.lt x a with
      | false => rfl
      | true =>
        rcases P3.Key.lt_tri ha hb with h | h | h
        · rw [P3.Key.lt_trans hxa h] at h2; cases h2
        · subst h; rw [hxa] at h2; cases h2
        · rw [h] at h1; cases h1)
    (by
      intro a b _ _
      cases hba : Key.lt b a with
      | false => rfl
      | true => simp [P3.Key.lt_asymm hba])
    l.eraseDups hl'
  have hnd : (l.eraseDups.mergeSort (fun a b => !Key.lt b a)).Nodup :=
    (List.mergeSort_perm _ _).nodup_iff.2 (nodup_eraseDups l)
  have hmem : ∀ a ∈ l.eraseDups.mergeSort (fun a b => !Key.lt b a), Key.inCls c a = true :=
    fun a ha => hl' a (List.mem_mergeSort.1 ha)
  refine ⟨hmem, ?_⟩
  have := hs.and hnd
  refine this.imp_of_mem ?_
  intro a b ha hb h
  obtain ⟨h1, h2⟩ := h
  simp only [Bool.not_eq_true'] at h1
  rcases P3.Key.lt_tri (hmem a ha) (hmem b hb) with h | h | h
  · exact h
  · exact absurd h h2
  · rw [h] at h1; cases h1

theorem mem_sortKeys (l : List Key) (k : Key) :
    k ∈ l.eraseDups.mergeSort (fun a b => !Key.lt b a) ↔ k ∈ l := by
  rw [List.mem_mergeSort, List.mem_eraseDups]

end Hg.Den
