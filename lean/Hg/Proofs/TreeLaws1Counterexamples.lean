/-
  Hg.Proofs.TreeLaws1Counterexamples — why four statements of TreeLaws1 needed an extra hypothesis
  (`noBins` / `hasTmpl` of Hg.Model.Live).  Each `#guard` evaluates the model on a concrete instance that refutes the ORIGINAL statement
  (`decide +kernel` cannot be used: the `sameBase`/`good` blocks of WF.lean are compiled by well-founded
  recursion and do not reduce in the kernel).
-/
import Hg.Model.WF
import Hg.Model.Live

namespace Hg.Counter

def q0 : Qty := ⟨0, none, true⟩
def c0 : Agg := .node .count 0 .unit none []
def c1 : Agg := .node .count 1 .unit none []
def s0 : Agg := .node (.sum q0) 0 (.sum 0) none []
def s1 : Agg := .node (.sum q0) 1 (.sum 0) none []
def ks : Kind := .sparse q0 1 0 "Count" none

/-- `zero_of_isZeroTree` without `noBins`: an empty sparse node may hold an empty bin. -/
def z1 : Agg := .node ks 0 .unit (some c0) [(.nanflow, c0), (.idx 0, c0)]
#guard good z1 && isZeroTree z1 && !(decide (zero z1 = z1)) && !(noBins z1)

/-- `compat_of_sameBase` without `hasTmpl`: template-less containers with unrelated bins. -/
def a2 : Agg := .node ks 1 .unit none [(.nanflow, c0), (.idx 0, c1)]
def b2 : Agg := .node ks 1 .unit none [(.nanflow, c0), (.idx 0, s1)]
#guard good a2 && good b2 && sameBase a2 b2 && !(compat a2 b2) && !(hasTmpl a2)

/-- `fill_ok_indep` without `hasTmpl`: one side fills an existing bin, the other cannot create it. -/
def b3 : Agg := .node ks 0 .unit none [(.nanflow, c0)]
#guard good a2 && good b3 && sameBase a2 b3 &&
  decide ((fill a2 [.num (.fin 0)] 1).2 = .ok) && decide ((fill b3 [.num (.fin 0)] 1).2 = .raised .typeErr)

/-- `good_addRaw` without `hasTmpl`: the shared bin holds two unrelated nested sparse containers. -/
def S1 : Agg := .node ks 0 .unit (some c0) [(.nanflow, c0)]
def S2 : Agg := .node (.sparse q0 1 0 "Sum" none) 1 .unit (some s0) [(.nanflow, c0), (.idx 5, s1)]
def kso : Kind := .sparse q0 1 0 "SparselyBin" none
def a4 : Agg := .node kso 0 .unit none [(.nanflow, c0), (.idx 0, S1)]
def b4 : Agg := .node kso 1 .unit none [(.nanflow, c0), (.idx 0, S2)]
#guard good a4 && good b4 && sameBase a4 b4 && !(good (addRaw a4 b4))

end Hg.Counter
